(** C10, part 9: a traceroute request on a path.  Which router raises the router-alert
    request for a flagged hop field of a packet of a provenance path, in which state,
    and what the answer says. *)
From Coq Require Import List NArith Bool Arith Lia ZifyBool ZifyN ZifyNat.
From Scion Require Import Lib.Check Lib.Bytes Model.Router Model.Network Model.Prov Model.RouterScmp
  Model.ScmpReturn.
From Scion Require Import Proofs.Router Proofs.ProvStruct Proofs.ProvRender Proofs.ForwardView Proofs.ProvFacts
  Proofs.RouterPass Proofs.ForwardStep Proofs.RouterInv Proofs.RouterScmp
  Proofs.ScmpReturnCong Proofs.ScmpReturnStop Proofs.ScmpReturnAlert Proofs.ScmpReturn.
Import ListNotations.
Import Scion.Model.Router.Router Network Prov.

Lemma plain_rhop h : plain_hop (rhop h).
Proof. repeat split. Qed.

Section Trace.
Variable mac : N -> N -> N -> N -> N -> N -> list N.
Variable t : topology.
Variable now : N.
Variable p : prov.
Variable pp : pparams.
Hypothesis HG : good mac t p.
Hypothesis Hep : endpoints_ok t p pp = true.
Hypothesis Hexp : all_unexpired now p = true.

Notation n := (nhops p).
Notation js := (seg_idx (lens p)).
Notation nsegs := (length (pv_segs p)).
Notation macq := (macq_of mac).
Notation Hs := (Hshape mac t p HG).
Notation asof := (as_of t p).
Notation nifof := (nif_of t p).
Notation View := (view p pp n nsegs).
Notation eff := (ForwardStep.eff p).
Notation in_rtr := (ForwardStep.in_rtr t p).
Notation eg_rtr := (ForwardStep.eg_rtr t p).
Notation arrives := (ForwardStep.arrives p).

(** the flag of the interface through which hop [k] is entered / left, as bits on the wire *)
Definition in_flag (k : nat) (a e : bool) : bool := if cons p k then a else e.
Definition eg_flag (k : nat) (a e : bool) : bool := if cons p k then e else a.

Lemma src_view q k ki mid : View q k ki mid -> p_src_ia q = ia p 0.
Proof.
  intros V. rewrite (v_src_ia _ _ _ _ _ _ _ _ V).
  unfold endpoints_ok in Hep. apply andb_true_iff in Hep as [E _]. apply andb_true_iff in E as [E _].
  apply andb_true_iff in E as [Es _]. now apply N.eqb_eq in Es.
Qed.

(** the source checks do not notice that the packet has been rebuilt with the same source *)
Lemma src_ok_view q k ki mid r ing : View q k ki mid -> (k < n)%nat ->
  src_ok (p_src_ia q) (cfg_of (asof k) r) ing q.
Proof.
  intros V Hk. split; [now left|].
  destruct (as_of_ok _ _ _ HG k Hk) as [_ Ik].
  destruct k as [|k'].
  - left. unfold src_host_good. rewrite (v_src_type _ _ _ _ _ _ _ _ V), (v_src_raw _ _ _ _ _ _ _ _ V).
    unfold endpoints_ok in Hep. apply andb_true_iff in Hep as [E _]. apply andb_true_iff in E as [_ Sh].
    exact Sh.
  - right. cbn [cfg_of c_ia]. rewrite Ik, (src_view q _ _ _ V).
    assert (X : (ia p 0 =? ia p (S k'))%N = false).
    { apply N.eqb_neq. intros X. apply (ia_not_src _ _ _ HG (S k')); [lia|exact Hk|now symmetry]. }
    now rewrite X.
Qed.

(** ** the ingress router-alert flag of hop [k], reached from the previous AS *)
Theorem ingress_flag_answer q k r a e :
  View q k k false -> (k < n)%nat -> (1 <= k)%nat -> crosses p (k - 1) = true ->
  in_flag k a e = true -> eg_flag k a e = false ->
  process_scion (macq (a_key (asof k))) (cfg_of (asof k) r) now (InExt (tr_in p k))
                (ScmpReturn.set_alerts k a e q) =
  SlowPath SpAlertIngress 0 (render p pp k true).
Proof.
  intros V Hk K1 Cp Fi Fe.
  assert (Ha : arrives k (InExt (tr_in p k))) by (right; auto).
  destruct (ingress_arrive mac t now p pp HG Hep Hexp n nsegs q k (InExt (tr_in p k)) r V Hk Hk
              (js_lt p Hs k Hk) Ha) as (q1 & Ein & V1 & _).
  pose proof (view_full p pp Hs q1 k true V1) as Eq1.
  apply ingress_pre_of_part in Ein.
  rewrite <- (phi_flag k a e q).
  rewrite (proc_ingress_answer _ _ now _ k a e (p_src_ia q) (keeps_gflag k a e) q _
             (SlowPath SpAlertIngress 0 q1) (src_ok_view q k k false r _ V Hk) Ein).
  - now rewrite Eq1.
  - apply (ingress_answer (InExt (tr_in p k)) k a e (p_src_ia q)
             (mkSt q1 (rhop (hop p k)) (rinfo p k true (js k)) (peerhop p k) false 0) (rhop (hop p k))).
    + pose proof (arrives_from0 mac t now p pp HG Hep Hexp k _ Hk Ha) as F0. rewrite F0.
      apply Nat.eqb_neq. lia.
    + cbn [s_p]. rewrite (v_ch _ _ _ _ _ _ _ _ V1). apply Nat2N.id.
    + cbn [s_inf]. rewrite (rinfo_consdir p k k true). exact Fi.
    + cbn [s_inf]. rewrite (rinfo_consdir p k k true). exact Fe.
    + reflexivity.
    + apply plain_rhop.
    + cbn [s_p]. apply (v_hops _ _ _ _ _ _ _ _ V1); assumption.
    + cbn [s_p]. now rewrite (src_view q1 _ _ _ V1), (src_view q _ _ _ V).
Qed.

(** the same without any assumption on the other flag: the ingress handler runs first; the packet
    it hands over is the packet of the path with the other flag bit as the sender set it *)
Theorem ingress_flag_answer_any q k r a e :
  View q k k false -> (k < n)%nat -> (1 <= k)%nat -> crosses p (k - 1) = true ->
  in_flag k a e = true ->
  process_scion (macq (a_key (asof k))) (cfg_of (asof k) r) now (InExt (tr_in p k))
                (ScmpReturn.set_alerts k a e q) =
  SlowPath SpAlertIngress 0
           (ScmpReturn.set_alerts k (if cons p k then false else a) (if cons p k then e else false)
                                  (render p pp k true)).
Proof.
  intros V Hk K1 Cp Fi.
  assert (Ha : arrives k (InExt (tr_in p k))) by (right; auto).
  destruct (ingress_arrive mac t now p pp HG Hep Hexp n nsegs q k (InExt (tr_in p k)) r V Hk Hk
              (js_lt p Hs k Hk) Ha) as (q1 & Ein & V1 & _).
  pose proof (view_full p pp Hs q1 k true V1) as Eq1.
  apply ingress_pre_of_part in Ein.
  rewrite <- (phi_flag k a e q).
  set (s1 := mkSt q1 (rhop (hop p k)) (rinfo p k true (js k)) (peerhop p k) false 0) in *.
  rewrite (proc_ingress_answer _ _ now _ k a e (p_src_ia q) (keeps_gflag k a e) q s1
             (SlowPath SpAlertIngress 0
                (ScmpReturn.set_alerts k (if cons p k then false else a) (if cons p k then e else false) q1))
             (src_ok_view q k k false r _ V Hk) Ein).
  - now rewrite Eq1.
  - pose proof (ingress_answer_any (InExt (tr_in p k)) k a e (p_src_ia q) s1 (rhop (hop p k))) as IA.
    cbn [s1 s_p s_inf s_eg] in IA. rewrite (rinfo_consdir p k k true) in IA. apply IA.
    + pose proof (arrives_from0 mac t now p pp HG Hep Hexp k _ Hk Ha) as F0. rewrite F0.
      apply Nat.eqb_neq. lia.
    + rewrite (v_ch _ _ _ _ _ _ _ _ V1). apply Nat2N.id.
    + exact Fi.
    + reflexivity.
    + apply plain_rhop.
    + apply (v_hops _ _ _ _ _ _ _ _ V1); assumption.
    + now rewrite (src_view q1 _ _ _ V1), (src_view q _ _ _ V).
Qed.

(** the state after the egress lookup of a healthy router *)
Definition eg_state (kc : nat) (xo : bool) : st :=
  mkSt (render p pp kc true) (rhop (hop p kc)) (rinfo p kc true (js kc)) (peerhop p kc) xo (tr_eg p kc).

Lemma egress_pre_state c ing s1 kc xo r :
  xover_part (macq (a_key (asof kc))) now s1 = Ok (stop_state p pp kc xo) ->
  (S kc < n)%nat -> crosses p kc = true -> c = cfg_of (asof kc) r ->
  validate_egress (from0 ing) (lt_of c (ing_ifid ing)) (Some (if_of r (nifof kc (tr_eg p kc)))) xo = EgOk ->
  egress_pre (macq (a_key (asof kc))) c now ing s1 = Ok (eg_state kc xo) /\
  egress_if c (eg_state kc xo) = if_of r (nifof kc (tr_eg p kc)).
Proof.
  intros Ex Hk C -> Hv.
  destruct (link_fact _ _ _ HG kc Hk C) as (Ff & _ & _ & _ & Ez & _ & Up & _).
  assert (Gi : get_if (cfg_of (asof kc) r) (tr_eg p kc) = Some (if_of r (nifof kc (tr_eg p kc))))
    by (apply get_if_cfg; assumption).
  split.
  - unfold egress_pre. rewrite Ex. cbn [bind]. unfold set_egress, egress_interface, stop_state.
    cbn [s_p s_hop s_inf s_peer s_xover bind]. rewrite (rinfo_consdir p kc kc true).
    change (if cons p kc then h_eg (rhop (hop p kc)) else h_in (rhop (hop p kc))) with (tr_eg p kc).
    unfold validate_egress_id. cbn [s_eg s_xover]. rewrite Gi, Hv. reflexivity.
  - unfold egress_if, eg_state. cbn [s_eg]. now rewrite Gi.
Qed.

(** ** the egress router-alert flag: the router that receives the packet owns the interface *)
Theorem egress_flag_answer q k ing r a e :
  View q k k false -> (S k < n)%nat -> arrives k ing -> (k = 0%nat -> r = eg_rtr (eff k)) ->
  eg_rtr (eff k) = r ->
  eg_flag (eff k) a e = true -> in_flag (eff k) a e = false ->
  process_scion (macq (a_key (asof k))) (cfg_of (asof k) r) now ing (ScmpReturn.set_alerts (eff k) a e q) =
  SlowPath SpAlertEgress (tr_eg p (eff k)) (render p pp (eff k) true).
Proof.
  intros V Hk Ha H0 Ow Fe Fi. assert (Hk' : (k < n)%nat) by lia.
  destruct (arrive_state mac t now p pp HG Hep Hexp q k ing r V Hk Ha H0)
    as (s1' & xo & Ein' & S1 & Dst & Ex & As & Hn & C & Hv).
  destruct (ingress_arrive mac t now p pp HG Hep Hexp n nsegs q k ing r V Hk' Hk'
              (js_lt p Hs k Hk') Ha) as (q1 & Ein & V1 & _).
  rewrite Ein in Ein'. injection Ein' as <-.
  set (s1 := mkSt q1 (rhop (hop p k)) (rinfo p k true (js k)) (peerhop p k) false 0) in *.
  apply ingress_pre_of_part in Ein.
  set (kc := eff k) in *. set (c := cfg_of (asof k) r).
  rewrite <- As in Ex.
  destruct (egress_pre_state c ing s1 kc xo r Ex Hn C ltac:(unfold c; now rewrite As) Hv) as [E2 Eif].
  rewrite As in E2.
  rewrite <- (phi_flag kc a e q).
  apply (proc_egress_answer _ c now ing kc a e (p_src_ia q) (keeps_gflag kc a e) q s1 (eg_state kc xo)).
  - apply (src_ok_view q k k false r ing V Hk').
  - exact Ein.
  - apply (ingress_quiet ing kc a e (p_src_ia q) s1); [apply plain_rhop|].
    right. cbn [s1 s_p s_inf]. rewrite (v_ch _ _ _ _ _ _ _ _ V1), Nat2N.id.
    destruct (Nat.eq_dec k kc) as [E|E]; [right|now left].
    rewrite (rinfo_consdir p k k true). rewrite E. exact Fi.
  - unfold c. cbn [cfg_of c_ia]. exact Dst.
  - exact E2.
  - apply (egress_answer c kc a e (p_src_ia q) (eg_state kc xo) (rhop (hop p kc))).
    + rewrite Eif. unfold if_of. fold (eg_rtr kc). rewrite Ow, N.eqb_refl. reflexivity.
    + cbn [eg_state s_p]. change (p_curr_hf (render p pp kc true)) with (N.of_nat kc). apply Nat2N.id.
    + cbn [eg_state s_inf]. rewrite (rinfo_consdir p kc kc true). exact Fe.
    + cbn [eg_state s_inf]. rewrite (rinfo_consdir p kc kc true). exact Fi.
    + reflexivity.
    + apply plain_rhop.
    + cbn [eg_state s_p]. rewrite <- nthN_of_nat. apply (hop_render p pp kc true kc). lia.
    + cbn [eg_state s_p]. symmetry. apply (v_src_ia _ _ _ _ _ _ _ _ V).
Qed.

Lemma dst_not_local q k ki mid : View q k ki mid -> (S k < n)%nat -> (p_dst_ia q =? ia p k)%N = false.
Proof.
  intros V Hk. rewrite (v_dst_ia _ _ _ _ _ _ _ _ V).
  pose proof Hep as Hep'. unfold endpoints_ok in Hep'.
  apply andb_true_iff in Hep' as [E _]. apply andb_true_iff in E as [E _].
  apply andb_true_iff in E as [_ Ed]. apply N.eqb_eq in Ed. rewrite Ed.
  apply N.eqb_neq. intros X. apply (ia_not_dst _ _ _ HG k Hk). now symmetry.
Qed.

(** the state of the egress router of an AS after its ingress half *)
Lemma mid_state q k k0 :
  View q k k true -> (S k < n)%nat -> crosses p k = true ->
  ForwardStep.entry p k = k0 -> (1 <= k0)%nat -> crosses p (k0 - 1) = true -> asof k0 = asof k ->
  in_rtr k0 <> eg_rtr k ->
  let c := cfg_of (asof k) (eg_rtr k) in
  let ing := InSib (in_rtr k0 + 1) in
  let s1 := mkSt q (rhop (hop p k)) (rinfo p k true (js k)) (peerhop p k) false 0 in
  q = render p pp k true /\
  ingress_pre (macq (a_key (asof k))) c now ing q = Ok s1 /\
  egress_pre (macq (a_key (asof k))) c now ing s1 = Ok (eg_state k false) /\
  egress_if c (eg_state k false) = if_of (eg_rtr k) (nifof k (tr_eg p k)).
Proof.
  intros V Hk C He K0 C0 As0 Hne c ing s1. assert (Hk' : (k < n)%nat) by lia.
  destruct (as_of_ok _ _ _ HG k Hk') as [Ak Ik].
  pose proof (view_full p pp Hs q k true V) as Eq.
  pose proof (ingress_mid mac t now p pp HG Hep Hexp c q k k0 (eg_rtr k) V Hk C He K0 C0 As0 Hne Ik eq_refl) as Ein.
  apply ingress_pre_of_part in Ein.
  split; [exact Eq|]. split; [exact Ein|].
  pose proof (view_meta p pp _ _ _ _ _ _ true V) as M.
  assert (Ex : xover_part (macq (a_key (asof k))) now s1 = Ok (stop_state p pp k false)).
  { rewrite xover_part_skip.
    - unfold s1, stop_state. now rewrite Eq.
    - cbn [s1 s_p s_peer]. rewrite (is_xover_meta _ _ M), (is_xover_render p pp Hs k true Hk').
      replace (Nat.eqb (S k) n) with false by (symmetry; apply Nat.eqb_neq; lia). cbn [negb andb].
      destruct (is_last p k) eqn:L; [|reflexivity]. now rewrite (peer_exit mac t p HG k Hk C L). }
  apply (egress_pre_state c ing s1 k false (eg_rtr k) Ex Hk C eq_refl).
  cbn [ing from0 ing_ifid N.eqb]. apply veg_int. reflexivity.
Qed.

(** ** the egress router-alert flag: the egress router got the packet from its sibling *)
Theorem egress_flag_answer_sibling q k k0 a e :
  View q k k true -> (S k < n)%nat -> crosses p k = true ->
  ForwardStep.entry p k = k0 -> (1 <= k0)%nat -> crosses p (k0 - 1) = true -> asof k0 = asof k ->
  in_rtr k0 <> eg_rtr k ->
  eg_flag k a e = true -> in_flag k a e = false ->
  process_scion (macq (a_key (asof k))) (cfg_of (asof k) (eg_rtr k)) now (InSib (in_rtr k0 + 1))
                (ScmpReturn.set_alerts k a e q) =
  SlowPath SpAlertEgress (tr_eg p k) (render p pp k true).
Proof.
  intros V Hk C He K0 C0 As0 Hne Fe Fi. assert (Hk' : (k < n)%nat) by lia.
  destruct (mid_state q k k0 V Hk C He K0 C0 As0 Hne) as (Eq & E1 & E2 & Eif).
  destruct (as_of_ok _ _ _ HG k Hk') as [Ak Ik].
  rewrite <- (phi_flag k a e q).
  set (s1 := mkSt q (rhop (hop p k)) (rinfo p k true (js k)) (peerhop p k) false 0) in *.
  apply (proc_egress_answer _ _ now _ k a e (p_src_ia q) (keeps_gflag k a e) q s1 (eg_state k false)).
  - apply (src_ok_view q k k true _ _ V Hk').
  - exact E1.
  - apply (ingress_quiet _ k a e (p_src_ia q) s1); [apply plain_rhop|]. now left.
  - cbn [cfg_of c_ia]. rewrite Ik. apply (dst_not_local q k k true V Hk).
  - exact E2.
  - apply (egress_answer _ k a e (p_src_ia q) (eg_state k false) (rhop (hop p k))).
    + rewrite Eif. unfold if_of. fold (eg_rtr k). rewrite N.eqb_refl. reflexivity.
    + cbn [eg_state s_p]. change (p_curr_hf (render p pp k true)) with (N.of_nat k). apply Nat2N.id.
    + cbn [eg_state s_inf]. rewrite (rinfo_consdir p k k true). exact Fe.
    + cbn [eg_state s_inf]. rewrite (rinfo_consdir p k k true). exact Fi.
    + reflexivity.
    + apply plain_rhop.
    + cbn [eg_state s_p]. rewrite <- nthN_of_nat. apply (hop_render p pp k true k). lia.
    + cbn [eg_state s_p]. symmetry. apply (v_src_ia _ _ _ _ _ _ _ _ V).
Qed.

(** ** no handler reacts: the router forwards as it does without the flag, flag untouched *)
Theorem flag_forward q k ing r kx a e :
  View q k k false -> (S k < n)%nat -> arrives k ing -> (k = 0%nat -> r = eg_rtr (eff k)) ->
  (k <> kx \/ in_flag k a e = false \/ ing = InInt) ->
  (eff k <> kx \/ eg_flag (eff k) a e = false \/ eg_rtr (eff k) <> r) ->
  process_scion (macq (a_key (asof k))) (cfg_of (asof k) r) now ing (ScmpReturn.set_alerts kx a e q) =
  phi_res (p_src_ia q) (gflag kx a e) (process_scion (macq (a_key (asof k))) (cfg_of (asof k) r) now ing q).
Proof.
  intros V Hk Ha H0 Qi Qe. assert (Hk' : (k < n)%nat) by lia.
  destruct (arrive_state mac t now p pp HG Hep Hexp q k ing r V Hk Ha H0)
    as (s1' & xo & Ein' & S1 & Dst & Ex & As & Hn & C & Hv).
  destruct (ingress_arrive mac t now p pp HG Hep Hexp n nsegs q k ing r V Hk' Hk'
              (js_lt p Hs k Hk') Ha) as (q1 & Ein & V1 & _).
  rewrite Ein in Ein'. injection Ein' as <-.
  set (s1 := mkSt q1 (rhop (hop p k)) (rinfo p k true (js k)) (peerhop p k) false 0) in *.
  apply ingress_pre_of_part in Ein.
  set (kc := eff k) in *. set (c := cfg_of (asof k) r).
  rewrite <- As in Ex.
  destruct (egress_pre_state c ing s1 kc xo r Ex Hn C ltac:(unfold c; now rewrite As) Hv) as [E2 Eif].
  rewrite As in E2.
  rewrite <- (phi_flag kx a e q).
  destruct (ingress_quiet ing kx a e (p_src_ia q) s1 (plain_rhop _)) as [I1 I2].
  { cbn [s1 s_p s_inf]. rewrite (v_ch _ _ _ _ _ _ _ _ V1), Nat2N.id, (rinfo_consdir p k k true).
    destruct Qi as [Q|[Q|Q]]; [right; now left|right; now right|left].
    subst ing. reflexivity. }
  destruct (egress_quiet c kx a e (p_src_ia q) (eg_state kc xo) (plain_rhop _)) as [G1 G2].
  { rewrite Eif. cbn [eg_state s_p s_inf]. change (p_curr_hf (render p pp kc true)) with (N.of_nat kc).
    rewrite Nat2N.id, (rinfo_consdir p kc kc true).
    destruct Qe as [Q|[Q|Q]]; [right; now left|right; now right|left].
    unfold if_of. fold (eg_rtr kc). apply N.eqb_neq in Q. now rewrite Q. }
  pose proof (src_ok_view q k k false r ing V Hk') as SO.
  apply (proc_quiet _ c now ing kx a e (p_src_ia q) (keeps_gflag kx a e) q s1 (eg_state kc xo)); assumption.
Qed.

(** the egress router of an AS, for a flag that is not the egress flag of its hop *)
Theorem flag_forward_sibling q k k0 kx a e :
  View q k k true -> (S k < n)%nat -> crosses p k = true ->
  ForwardStep.entry p k = k0 -> (1 <= k0)%nat -> crosses p (k0 - 1) = true -> asof k0 = asof k ->
  in_rtr k0 <> eg_rtr k ->
  (k <> kx \/ eg_flag k a e = false) ->
  process_scion (macq (a_key (asof k))) (cfg_of (asof k) (eg_rtr k)) now (InSib (in_rtr k0 + 1))
                (ScmpReturn.set_alerts kx a e q) =
  phi_res (p_src_ia q) (gflag kx a e)
          (process_scion (macq (a_key (asof k))) (cfg_of (asof k) (eg_rtr k)) now (InSib (in_rtr k0 + 1)) q).
Proof.
  intros V Hk C He K0 C0 As0 Hne Qe. assert (Hk' : (k < n)%nat) by lia.
  destruct (mid_state q k k0 V Hk C He K0 C0 As0 Hne) as (Eq & E1 & E2 & Eif).
  destruct (as_of_ok _ _ _ HG k Hk') as [Ak Ik].
  set (s1 := mkSt q (rhop (hop p k)) (rinfo p k true (js k)) (peerhop p k) false 0) in *.
  set (c := cfg_of (asof k) (eg_rtr k)) in *. set (ing := InSib (in_rtr k0 + 1)) in *.
  rewrite <- (phi_flag kx a e q).
  destruct (ingress_quiet ing kx a e (p_src_ia q) s1 (plain_rhop _)) as [I1 I2]; [now left|].
  destruct (egress_quiet c kx a e (p_src_ia q) (eg_state k false) (plain_rhop _)) as [G1 G2].
  { cbn [eg_state s_p s_inf]. change (p_curr_hf (render p pp k true)) with (N.of_nat k).
    rewrite Nat2N.id, (rinfo_consdir p k k true).
    destruct Qe as [Q|Q]; [right; now left|right; now right]. }
  pose proof (src_ok_view q k k true (eg_rtr k) ing V Hk') as SO.
  assert (D : (p_dst_ia q =? c_ia c)%N = false).
  { unfold c. cbn [cfg_of c_ia]. rewrite Ik. apply (dst_not_local q k k true V Hk). }
  apply (proc_quiet _ c now ing kx a e (p_src_ia q) (keeps_gflag kx a e) q s1 (eg_state k false)); assumption.
Qed.

(** the last router, for a flag that is not the ingress flag of the last hop *)
Theorem flag_deliver q k ing r kx a e :
  View q k k false -> S k = n -> arrives k ing ->
  (k <> kx \/ in_flag k a e = false) ->
  process_scion (macq (a_key (asof k))) (cfg_of (asof k) r) now ing (ScmpReturn.set_alerts kx a e q) =
  phi_res (p_src_ia q) (gflag kx a e) (process_scion (macq (a_key (asof k))) (cfg_of (asof k) r) now ing q).
Proof.
  intros V Hn Ha Qi. assert (Hk : (k < n)%nat) by lia.
  destruct (ingress_arrive mac t now p pp HG Hep Hexp n nsegs q k ing r V Hk Hk
              (js_lt p Hs k Hk) Ha) as (q1 & Ein & V1 & _).
  set (s1 := mkSt q1 (rhop (hop p k)) (rinfo p k true (js k)) (peerhop p k) false 0) in *.
  apply ingress_pre_of_part in Ein.
  destruct (as_of_ok _ _ _ HG k Hk) as [Ak Ik].
  rewrite <- (phi_flag kx a e q).
  destruct (ingress_quiet ing kx a e (p_src_ia q) s1 (plain_rhop _)) as [I1 I2].
  { right. cbn [s1 s_p s_inf]. rewrite (v_ch _ _ _ _ _ _ _ _ V1), Nat2N.id, (rinfo_consdir p k k true).
    destruct Qi as [Q|Q]; [now left|now right]. }
  pose proof (src_ok_view q k k false r ing V Hk) as SO.
  assert (D : (p_dst_ia q =? c_ia (cfg_of (asof k) r))%N = true).
  { cbn [cfg_of c_ia]. rewrite Ik, (v_dst_ia _ _ _ _ _ _ _ _ V).
    pose proof Hep as Hep'. unfold endpoints_ok in Hep'.
    apply andb_true_iff in Hep' as [E _]. apply andb_true_iff in E as [E _].
    apply andb_true_iff in E as [_ Ed]. apply N.eqb_eq in Ed. rewrite Ed.
    replace (n - 1)%nat with k by lia. apply N.eqb_refl. }
  apply (proc_quiet_local _ _ now ing kx a e (p_src_ia q) (keeps_gflag kx a e) q s1); assumption.
Qed.

End Trace.

(** * What the answer says *)
Lemma traceroute_content cmac c ing x ll ifid va ats r :
  RouterScmp.traceroute cmac c ing x ll ifid va ats = RouterScmp.SReply r ->
  exists t0 cd c1 c2 rest ck,
    snd ll = t0 :: cd :: c1 :: c2 :: rest /\
    RouterScmp.r_l4 r = [RouterScmp.ScmpTracerouteReply; 0%N] ++ be 2 ck ++
                        (firstn 4 rest ++ be 8 (c_ia c) ++ be 8 ifid).
Proof.
  intros H. apply traceroute_inv in H as (t0 & cd & c1 & c2 & rest & E & H).
  apply prepare_path in H as (rp & _ & B).
  apply build_inv in B as (lt & lraw & ck & _ & _ & _ & _ & _ & _ & _ & _ & _ & L4 & _).
  exists t0, cd, c1, c2, rest, ck. split; [exact E|]. rewrite L4. unfold reply_l4, reply_quote.
  now rewrite app_nil_r.
Qed.

(** the interface a router-alert request is about *)
Definition alert_ifid (req : spreq) (ing : ingress) (eg : N) : N :=
  match req with SpAlertIngress => ing_ifid ing | _ => eg end.

Lemma alert_reply_content cmac c ing req eg x va ats r :
  req = SpAlertIngress \/ req = SpAlertEgress ->
  RouterScmp.slow_path cmac c ing req eg x va ats = RouterScmp.SReply r ->
  exists ll t0 cd c1 c2 rest ck,
    RouterScmp.last_layer (RouterScmp.sp_next x) (RouterScmp.payload x) = Some ll /\
    snd ll = t0 :: cd :: c1 :: c2 :: rest /\
    RouterScmp.r_l4 r = [RouterScmp.ScmpTracerouteReply; 0%N] ++ be 2 ck ++
                        (firstn 4 rest ++ be 8 (c_ia c) ++ be 8 (alert_ifid req ing eg)).
Proof.
  intros HR H. unfold RouterScmp.slow_path in H.
  destruct (_ || _); [discriminate|]. destruct (negb _); [discriminate|].
  destruct (RouterScmp.last_layer _ _) as [ll|]; [|discriminate].
  destruct HR as [-> | ->]; apply traceroute_content in H as (t0 & cd & c1 & c2 & rest & ck & E & L);
    exists ll, t0, cd, c1, c2, rest, ck; auto.
Qed.
