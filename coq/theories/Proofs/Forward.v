(** End-to-end forwarding, part 3: iterating the step lemmas along the walk
    ([Network.run_fuel]).  Main result [forward_prov]: a packet rendered from a
    well-formed provenance path over a well-formed topology, all links up and
    all hop fields unexpired, is forwarded by every router on the path, crosses
    exactly [interfaces p] and is delivered to the destination host. *)
From Coq Require Import List NArith Bool Arith Lia ZifyBool ZifyN ZifyNat.
From Scion Require Import Lib.Check Model.Router Model.Network Model.Prov.
From Scion Require Import Proofs.ProvStruct Proofs.ProvRender Proofs.ForwardView Proofs.ProvFacts
  Proofs.RouterPass Proofs.ForwardStep.
Import ListNotations.
Import Router Network Prov.

Section Run.
Variable mac : N -> N -> N -> N -> N -> N -> list N.
Variable t : topology.
Variable now : N.
Variable p : prov.
Variable pp : pparams.
Hypothesis HG : good mac t p.
Hypothesis Hep : endpoints_ok t p pp = true.
Hypothesis Hexp : all_unexpired now p = true.
Variables lim jlim : nat.

Notation n := (nhops p).
Notation js := (seg_idx (lens p)).
Notation nsegs := (length (pv_segs p)).
Notation macq := (macq_of mac).
Notation Hs := (Hshape mac t p HG).
Notation asof := (as_of t p).
Notation nifof := (nif_of t p).
Notation View := (view p pp lim jlim).
Notation eff := (eff p).
Notation in_rtr := (in_rtr t p).
Notation eg_rtr := (eg_rtr t p).
Notation arrives := (arrives p).

(** where the packet is when it arrives at hop [k+1] from the previous AS *)
Definition ext_loc (k : nat) : loc := mkLoc (ia p k) (in_rtr k) (InExt (tr_in p k)).

(** * One step of the walk *)
Lemma run_arrive f q k ing r :
  View q k k false -> (S k < n)%nat -> (eff k < lim)%nat -> (js (eff k) < jlim)%nat -> arrives k ing ->
  (k = 0%nat -> r = eg_rtr (eff k)) ->
  exists q' st,
    t_ia st = ia p k /\ t_ing st = ing /\ t_eg st = tr_eg p (eff k) /\ t_rtr st = r /\
    (S (eff k) < n)%nat /\ crosses p (eff k) = true /\ ia p (eff k) = ia p k /\
    if (eg_rtr (eff k) =? r)%N
    then t_ext st = true /\ View q' (S (eff k)) (S (eff k)) false /\
         run_fuel macq t now (S f) (mkLoc (ia p k) r ing) q =
         (let '(tr, fin) := run_fuel macq t now f (ext_loc (S (eff k))) q' in ((st, q') :: tr, fin))
    else t_ext st = false /\ View q' (eff k) (eff k) true /\
         run_fuel macq t now (S f) (mkLoc (ia p k) r ing) q =
         (let '(tr, fin) := run_fuel macq t now f (mkLoc (ia p k) (eg_rtr (eff k)) (InSib (r + 1))) q' in
          ((st, q') :: tr, fin)).
Proof.
  intros V Hk Hl Hj Ha H0. assert (Hk' : (k < n)%nat) by lia.
  destruct (step_arrive mac t now p pp HG Hep Hexp lim jlim q k ing r V Hk Hl Hj Ha H0)
    as (q' & Eps & Vq & As & Hn & C).
  destruct (as_of_ok _ _ _ HG k Hk') as [Ak Ik].
  assert (Hke : (eff k < n)%nat) by lia.
  destruct (as_of_ok _ _ _ HG (eff k) Hke) as [Ake Ike].
  assert (Iae : ia p (eff k) = ia p k) by (rewrite <- Ike, <- Ik; now rewrite As).
  destruct (link_fact _ _ _ HG (eff k) Hn C) as (Ff & Fg & _ & _ & _ & _ & _ & Nb & Rm).
  rewrite As in Ff.
  destruct (as_of_ok _ _ _ HG (S (eff k)) Hn) as [Ak1 Ik1].
  exists q'.
  cbn [run_fuel l_ia l_rtr l_ing]. rewrite Ak, Eps, Ff.
  change (ni_owner (nifof (eff k) (tr_eg p (eff k)))) with (eg_rtr (eff k)).
  destruct (eg_rtr (eff k) =? r)%N eqn:Ow.
  - rewrite Nb, Ak1, Rm, Fg. rewrite ?Ik, ?Ik1.
    eexists. repeat split; try eassumption; try reflexivity.
  - rewrite ?Ik. eexists. repeat split; try eassumption; try reflexivity.
Qed.

End Run.
