(** End-to-end forwarding, part 3: iterating the step lemmas along the walk
    ([Network.run_fuel]).  Main result [forward_prov]: a packet rendered from a
    well-formed provenance path over a well-formed topology, all links up and
    all hop fields unexpired, is forwarded by every router on the path, crosses
    exactly [interfaces p] and is delivered to the destination host. *)
From Coq Require Import List NArith Bool Arith Lia ZifyBool ZifyN ZifyNat.
From Scion Require Import Lib.Check Model.Router Model.Network Model.Prov.
From Scion Require Import Proofs.ProvStruct Proofs.ProvRender Proofs.ForwardView Proofs.ProvFacts
  Proofs.RouterPass Proofs.ForwardStep.
Import ListNotations.
Import Router Network Prov.

Section Run.
Variable mac : N -> N -> N -> N -> N -> N -> list N.
Variable t : topology.
Variable now : N.
Variable p : prov.
Variable pp : pparams.
Hypothesis HG : good mac t p.
Hypothesis Hep : endpoints_ok t p pp = true.
Hypothesis Hexp : all_unexpired now p = true.
Variables lim jlim : nat.

Notation n := (nhops p).
Notation js := (seg_idx (lens p)).
Notation nsegs := (length (pv_segs p)).
Notation macq := (macq_of mac).
Notation Hs := (Hshape mac t p HG).
Notation asof := (as_of t p).
Notation nifof := (nif_of t p).
Notation View := (view p pp lim jlim).
Notation eff := (eff p).
Notation in_rtr := (in_rtr t p).
Notation eg_rtr := (eg_rtr t p).
Notation arrives := (arrives p).

(** where the packet is when it arrives at hop [k+1] from the previous AS *)
Definition ext_loc (k : nat) : loc := mkLoc (ia p k) (in_rtr k) (InExt (tr_in p k)).

(** * One step of the walk *)
Lemma run_arrive f q k ing r :
  View q k k false -> (S k < n)%nat -> (eff k < lim)%nat -> (js (eff k) < jlim)%nat -> arrives k ing ->
  (k = 0%nat -> r = eg_rtr (eff k)) ->
  exists q' st,
    t_ia st = ia p k /\ t_ing st = ing /\ t_eg st = tr_eg p (eff k) /\ t_rtr st = r /\
    (S (eff k) < n)%nat /\ crosses p (eff k) = true /\ ia p (eff k) = ia p k /\ frame jlim q q' /\
    if (eg_rtr (eff k) =? r)%N
    then t_ext st = true /\ View q' (S (eff k)) (S (eff k)) false /\
         run_fuel macq t now (S f) (mkLoc (ia p k) r ing) q =
         (let '(tr, fin) := run_fuel macq t now f (ext_loc (S (eff k))) q' in ((st, q') :: tr, fin))
    else t_ext st = false /\ View q' (eff k) (eff k) true /\
         run_fuel macq t now (S f) (mkLoc (ia p k) r ing) q =
         (let '(tr, fin) := run_fuel macq t now f (mkLoc (ia p k) (eg_rtr (eff k)) (InSib (r + 1))) q' in
          ((st, q') :: tr, fin)).
Proof.
  intros V Hk Hl Hj Ha H0. assert (Hk' : (k < n)%nat) by lia.
  destruct (step_arrive mac t now p pp HG Hep Hexp lim jlim q k ing r V Hk Hl Hj Ha H0)
    as (q' & Eps & Vq & As & Hn & C & Frq).
  destruct (as_of_ok _ _ _ HG k Hk') as [Ak Ik].
  assert (Hke : (eff k < n)%nat) by lia.
  destruct (as_of_ok _ _ _ HG (eff k) Hke) as [Ake Ike].
  assert (Iae : ia p (eff k) = ia p k) by (rewrite <- Ike, <- Ik; now rewrite As).
  destruct (link_fact _ _ _ HG (eff k) Hn C) as (Ff & Fg & _ & _ & _ & _ & _ & Nb & Rm).
  rewrite As in Ff.
  destruct (as_of_ok _ _ _ HG (S (eff k)) Hn) as [Ak1 Ik1].
  exists q'.
  cbn [run_fuel l_ia l_rtr l_ing]. rewrite Ak, Eps, Ff.
  change (ni_owner (nifof (eff k) (tr_eg p (eff k)))) with (eg_rtr (eff k)).
  destruct (eg_rtr (eff k) =? r)%N eqn:Ow.
  - rewrite Nb, Ak1, Rm, Fg. rewrite ?Ik, ?Ik1.
    exists (obs_step (mkLoc (ia p k) r ing) (tr_eg p (eff k)) true q').
    do 8 (split; [first [reflexivity | assumption]|]).
    split; [reflexivity|]. split; [exact Vq|reflexivity].
  - rewrite ?Ik.
    exists (obs_step (mkLoc (ia p k) r ing) (tr_eg p (eff k)) false q').
    do 8 (split; [first [reflexivity | assumption]|]).
    split; [reflexivity|]. split; [exact Vq|reflexivity].
Qed.

Lemma run_mid f q k k0 :
  View q k k true -> (S k < n)%nat -> crosses p k = true -> (k < lim)%nat -> (js k < jlim)%nat ->
  entry p k = k0 -> (1 <= k0)%nat -> crosses p (k0 - 1) = true -> asof k0 = asof k ->
  in_rtr k0 <> eg_rtr k ->
  exists q' st,
    t_ia st = ia p k /\ t_ing st = InSib (in_rtr k0 + 1) /\ t_eg st = tr_eg p k /\ t_ext st = true /\
    View q' (S k) (S k) false /\ frame jlim q q' /\
    run_fuel macq t now (S f) (mkLoc (ia p k) (eg_rtr k) (InSib (in_rtr k0 + 1))) q =
    (let '(tr, fin) := run_fuel macq t now f (ext_loc (S k)) q' in ((st, q') :: tr, fin)).
Proof.
  intros V Hk C Hl Hj He K0 C0 As0 Hne. assert (Hk' : (k < n)%nat) by lia.
  destruct (step_mid mac t now p pp HG Hep Hexp lim jlim q k k0 (eg_rtr k) V Hk C Hl Hj He K0 C0 As0 eq_refl Hne)
    as (q' & Eps & Vq & Frq).
  destruct (as_of_ok _ _ _ HG k Hk') as [Ak Ik].
  destruct (link_fact _ _ _ HG k Hk C) as (Ff & Fg & _ & _ & _ & _ & _ & Nb & Rm).
  destruct (as_of_ok _ _ _ HG (S k) Hk) as [Ak1 Ik1].
  exists q', (obs_step (mkLoc (ia p k) (eg_rtr k) (InSib (in_rtr k0 + 1))) (tr_eg p k) true q').
  do 4 (split; [reflexivity|]). split; [exact Vq|]. split; [exact Frq|].
  cbn [run_fuel l_ia l_rtr l_ing]. rewrite Ak, Eps, Ff.
  change (ni_owner (nifof k (tr_eg p k))) with (eg_rtr k). rewrite N.eqb_refl.
  rewrite Nb, Ak1, Rm, Fg. rewrite ?Ik1. reflexivity.
Qed.

Lemma run_deliver f q k ing r :
  View q k k false -> S k = n -> (k < lim)%nat -> (js k < jlim)%nat -> arrives k ing ->
  exists q' st d,
    t_ia st = ia p k /\ t_ing st = ing /\ t_ext st = false /\ View q' k k true /\
    deliver_target (asof k) pp = Some d /\
    run_fuel macq t now (S f) (mkLoc (ia p k) r ing) q = ([(st, q')], Delivered (ia p k) r (fst d) (snd d)).
Proof.
  intros V Hn Hl Hj Ha. assert (Hk : (k < n)%nat) by lia.
  destruct (step_deliver mac t now p pp HG Hep Hexp lim jlim q k ing r V Hn Hl Hj Ha) as (q' & d & Eps & Vq & Dt).
  destruct (as_of_ok _ _ _ HG k Hk) as [Ak Ik].
  exists q', (obs_step (mkLoc (ia p k) r ing) 0 false q'), d.
  do 3 (split; [reflexivity|]). split; [exact Vq|]. split; [exact Dt|].
  cbn [run_fuel l_ia l_rtr l_ing]. rewrite Ak, Eps. now rewrite Ik.
Qed.

End Run.

(** * The whole walk *)
Section Walk.
Variable mac : N -> N -> N -> N -> N -> N -> list N.
Variable t : topology.
Variable now : N.
Variable p : prov.
Variable pp : pparams.
Hypothesis HG : good mac t p.
Hypothesis Hep : endpoints_ok t p pp = true.
Hypothesis Hexp : all_unexpired now p = true.

Notation n := (nhops p).
Notation js := (seg_idx (lens p)).
Notation nsegs := (length (pv_segs p)).
Notation macq := (macq_of mac).
Notation Hs := (Hshape mac t p HG).
Notation asof := (as_of t p).
Notation View := (view p pp n nsegs).
Notation eff := (eff p).
Notation in_rtr := (in_rtr t p).
Notation eg_rtr := (eg_rtr t p).
Notation arrives := (arrives p).

Definition pairs_of (k : nat) : list (N * N) :=
  if crosses p k then [(ia p k, tr_eg p k); (ia p (S k), tr_in p (S k))] else [].
Definition ifs_from (k m : nat) : list (N * N) := flat_map pairs_of (seq k m).

Lemma interfaces_ifs : interfaces p = ifs_from 0 (n - 1).
Proof. reflexivity. Qed.

Lemma ifs_from_S k m : ifs_from k (S m) = pairs_of k ++ ifs_from (S k) m.
Proof. reflexivity. Qed.

Lemma eff_le k : (S k < n)%nat -> (k <= eff k)%nat /\ (eff k <= S k)%nat.
Proof. unfold ForwardStep.eff. destruct (crosses p k || Nat.eqb (S k) n); lia. Qed.

Lemma ifs_from_eff k : (S k < n)%nat -> (S (eff k) < n)%nat -> crosses p (eff k) = true ->
  ifs_from k (n - 1 - k) =
  [(ia p (eff k), tr_eg p (eff k)); (ia p (S (eff k)), tr_in p (S (eff k)))] ++
  ifs_from (S (eff k)) (n - 1 - S (eff k)).
Proof.
  intros Hk Hn C. unfold ForwardStep.eff in *.
  destruct (crosses p k) eqn:Ck; cbn [orb] in *.
  - replace (n - 1 - k)%nat with (S (n - 1 - S k)) by lia. rewrite ifs_from_S.
    unfold pairs_of. now rewrite Ck.
  - replace (Nat.eqb (S k) n) with false in * by (symmetry; apply Nat.eqb_neq; lia).
    replace (n - 1 - k)%nat with (S (S (n - 1 - S (S k)))) by lia. rewrite !ifs_from_S.
    unfold pairs_of at 1 2. rewrite Ck, C. reflexivity.
Qed.

Definition pre (ing : ingress) (k : nat) : list (N * N) :=
  match ing with InExt i => [(ia p k, i)] | _ => [] end.

Lemma walk_from_arrive : forall m k f q ing r,
  (n - k <= m)%nat -> (k < n)%nat -> View q k k false -> arrives k ing ->
  (k = 0%nat -> r = eg_rtr (eff k)) -> ((1 <= k)%nat -> r = in_rtr k) -> (2 * (n - k) <= f)%nat ->
  exists tr0 stf qf rtr d,
    run_fuel macq t now f (mkLoc (ia p k) r ing) q =
      (tr0 ++ [(stf, qf)], Delivered (ia p (n - 1)) rtr (fst d) (snd d)) /\
    crossed (map fst (tr0 ++ [(stf, qf)])) = pre ing k ++ ifs_from k (n - 1 - k) /\
    deliver_target (asof (n - 1)) pp = Some d /\ View qf (n - 1) (n - 1) true.
Proof.
  induction m as [|m IH]; intros k f q ing r Hm Hk V Ha H0 H1 Hf; [lia|].
  destruct f as [|f]; [lia|].
  pose proof (js_lt p Hs) as JL.
  destruct (Nat.eq_dec (S k) n) as [Last|NotLast].
  - (* the destination AS *)
    destruct (run_deliver mac t now p pp HG Hep Hexp n nsegs f q k ing r V Last Hk (JL k Hk) Ha)
      as (q' & st & d & Tia & Ting & Text & Vq & Dt & Er).
    exists [], st, q', r, d. replace (n - 1)%nat with k by lia. cbn [app].
    split; [exact Er|]. split; [|split; assumption].
    cbn [map fst]. unfold crossed. cbn [flat_map]. unfold crossed_step. rewrite Ting, Text, Tia.
    replace (k - k)%nat with 0%nat by lia. cbn [ifs_from seq flat_map]. unfold pre.
    destruct ing; now rewrite ?app_nil_r.
  - assert (Hk1 : (S k < n)%nat) by lia.
    destruct (eff_le k Hk1) as [El Eu].
    assert (Hle : (eff k < n)%nat) by lia.
    destruct (run_arrive mac t now p pp HG Hep Hexp n nsegs f q k ing r V Hk1 Hle (JL _ Hle) Ha H0)
      as (q' & st & Tia & Ting & Teg & Trt & Hn & C & Iae & _ & Rest).
    destruct (eg_rtr (eff k) =? r)%N eqn:Ow.
    + (* this router owns the egress interface *)
      destruct Rest as (Text & Vq & Er).
      destruct (IH (S (eff k)) f q' (InExt (tr_in p (S (eff k)))) (in_rtr (S (eff k))))
        as (tr0 & stf & qf & rtr & d & Er' & Cr & Dt & Vf); try assumption; try lia.
      { right. replace (S (eff k) - 1)%nat with (eff k) by lia. repeat split; [lia|assumption]. }
      unfold ext_loc in Er. rewrite Er' in Er.
      exists ((st, q') :: tr0), stf, qf, rtr, d.
      split; [exact Er|]. split; [|split; assumption].
      change (((st, q') :: tr0) ++ [(stf, qf)]) with ((st, q') :: (tr0 ++ [(stf, qf)])).
      cbn [map fst]. unfold crossed in *. cbn [flat_map]. rewrite Cr.
      unfold crossed_step. rewrite Ting, Text, Tia, Teg.
      rewrite (ifs_from_eff k Hk1 Hn C). rewrite Iae. unfold pre.
      destruct ing; cbn [app]; reflexivity.
    + (* a sibling router owns it *)
      destruct Rest as (Text & Vq & Er).
      assert (K1 : (1 <= k)%nat).
      { destruct k; [|lia]. rewrite <- (H0 eq_refl) in Ow. rewrite N.eqb_refl in Ow. discriminate. }
      destruct Ha as [[-> _]|(_ & Cp & Eing)]; [lia|].
      rewrite (H1 K1) in *.
      destruct f as [|f]; [lia|].
      assert (En : entry p (eff k) = k).
      { unfold ForwardStep.eff in *. destruct (crosses p k) eqn:Ck; cbn [orb] in *.
        - now apply (entry_same mac t now p pp HG Hep Hexp).
        - replace (Nat.eqb (S k) n) with false in * by (symmetry; apply Nat.eqb_neq; lia).
          now apply (entry_junction mac t now p pp HG Hep Hexp). }
      assert (As0 : asof k = asof (eff k)).
      { unfold as_of. now rewrite Iae. }
      assert (Hne : in_rtr k <> eg_rtr (eff k)).
      { intros X. rewrite X, N.eqb_refl in Ow. discriminate. }
      destruct (run_mid mac t now p pp HG Hep Hexp n nsegs f q' (eff k) k Vq Hn C Hle (JL _ Hle) En K1 Cp As0 Hne)
        as (q2 & st2 & Tia2 & Ting2 & Teg2 & Text2 & Vq2 & _ & Er2).
      rewrite <- Iae in Er. rewrite Er2 in Er.
      destruct (IH (S (eff k)) f q2 (InExt (tr_in p (S (eff k)))) (in_rtr (S (eff k))))
        as (tr0 & stf & qf & rtr & d & Er' & Cr & Dt & Vf); try assumption; try lia.
      { right. replace (S (eff k) - 1)%nat with (eff k) by lia. repeat split; [lia|assumption]. }
      unfold ext_loc in Er. rewrite Er' in Er. rewrite Iae in Er.
      exists ((st, q') :: (st2, q2) :: tr0), stf, qf, rtr, d.
      split; [exact Er|]. split; [|split; assumption].
      change (((st, q') :: (st2, q2) :: tr0) ++ [(stf, qf)]) with ((st, q') :: (st2, q2) :: (tr0 ++ [(stf, qf)])).
      cbn [map fst]. unfold crossed in *. cbn [flat_map]. rewrite Cr.
      unfold crossed_step. rewrite Ting, Text, Tia, Ting2, Text2, Tia2, Teg2.
      rewrite (ifs_from_eff k Hk1 Hn C). unfold pre. rewrite Eing. cbn [app]. reflexivity.
Qed.

(** * From the source host *)
Lemma start_loc_render :
  start_loc t (render p pp 0 false) = Some (mkLoc (ia p 0) (eg_rtr 0) InInt).
Proof.
  pose proof (n_ge2 _ _ _ HG) as N2.
  destruct (as_of_ok _ _ _ HG 0 ltac:(lia)) as [A0 I0].
  pose proof (cross0 mac t now p pp HG Hep Hexp) as C0.
  destruct (link_fact _ _ _ HG 0 ltac:(lia) C0) as (Ff & _).
  unfold start_loc, first_egress.
  change (p_src_ia (render p pp 0 false)) with (pp_src_ia pp).
  pose proof Hep as E. unfold endpoints_ok in E.
  apply andb_true_iff in E as [E _]. apply andb_true_iff in E as [E _].
  apply andb_true_iff in E as [Es _]. apply N.eqb_eq in Es. rewrite Es, A0.
  change (p_curr_hf (render p pp 0 false)) with (N.of_nat 0).
  change (p_curr_inf (render p pp 0 false)) with (N.of_nat (js 0)).
  rewrite (info_render p pp 0 false (js 0)) by (apply (js_lt p Hs); lia).
  rewrite (hop_render p pp 0 false 0) by lia.
  rewrite (rinfo_consdir p 0 0 false). fold (tr_eg p 0).
  change (if cons p 0 then h_eg (rhop (hop p 0)) else h_in (rhop (hop p 0))) with (tr_eg p 0).
  rewrite Ff. now rewrite I0.
Qed.

Lemma eff_0 : eff 0 = 0%nat.
Proof. unfold ForwardStep.eff. now rewrite (cross0 mac t now p pp HG Hep Hexp). Qed.

Lemma last_snoc {A} (l : list A) x : nth_error (l ++ [x]) (length (l ++ [x]) - 1) = Some x.
Proof.
  rewrite app_length. cbn [length]. replace (length l + 1 - 1)%nat with (length l) by lia.
  rewrite nth_error_app2 by lia. now rewrite Nat.sub_diag.
Qed.

(** the main lemma of C02, on the recorded walk *)
Lemma run_prov :
  exists tr rtr d,
    run macq t now (mkLoc (ia p 0) (eg_rtr 0) InInt) (render p pp 0 false) =
      (tr, Delivered (ia p (n - 1)) rtr (fst d) (snd d)) /\
    crossed (map fst tr) = interfaces p /\
    deliver_target (asof (n - 1)) pp = Some d /\
    delivered_pkt (tr, Delivered (ia p (n - 1)) rtr (fst d) (snd d)) = Some (render p pp (n - 1) true).
Proof.
  pose proof (n_ge2 _ _ _ HG) as N2.
  destruct (walk_from_arrive n 0 (fuel_for (render p pp 0 false)) (render p pp 0 false) InInt (eg_rtr 0))
    as (tr0 & stf & qf & rtr & d & Er & Cr & Dt & Vf).
  - lia.
  - lia.
  - apply view_render.
  - left. auto.
  - intros _. now rewrite eff_0.
  - intros; lia.
  - unfold fuel_for. rewrite (num_hops_render p pp Hs). rewrite Nat2N.id. lia.
  - exists (tr0 ++ [(stf, qf)]), rtr, d. split; [exact Er|]. split; [|split; [exact Dt|]].
    + rewrite Cr. cbn [pre app]. now rewrite Nat.sub_0_r.
    + unfold delivered_pkt. cbn [fst snd]. rewrite last_snoc. cbn [option_map snd].
      f_equal. now apply (view_full p pp Hs).
Qed.

End Walk.

(** * C02 main lemma *)
Theorem forward_prov mac t now p pp :
  wf_topo t = true -> all_up t = true -> wf_prov_b (macq_of mac) t p = true ->
  endpoints_ok t p pp = true -> all_unexpired now p = true ->
  exists tr rtr d a,
    walk_from (macq_of mac) t now (render p pp 0 false) (render p pp 0 false) =
      (tr, Delivered (pp_dst_ia pp) rtr (fst d) (snd d)) /\
    crossed tr = interfaces p /\
    find_as t (pp_dst_ia pp) = Some a /\ deliver_target a pp = Some d.
Proof.
  intros Hwt Hup Hwf Hep Hexp.
  assert (HG : good mac t p) by (repeat split; assumption).
  destruct (run_prov mac t now p pp HG Hep Hexp) as (tr & rtr & d & Er & Cr & Dt & _).
  pose proof (n_ge2 _ _ _ HG) as N2.
  destruct (as_of_ok _ _ _ HG (nhops p - 1) ltac:(lia)) as [A I].
  pose proof Hep as E. unfold endpoints_ok in E.
  apply andb_true_iff in E as [E _]. apply andb_true_iff in E as [E _].
  apply andb_true_iff in E as [_ Ed]. apply N.eqb_eq in Ed.
  exists (map fst tr), rtr, d, (as_of t p (nhops p - 1)).
  unfold walk_from. rewrite (start_loc_render mac t now p pp HG Hep Hexp).
  unfold forward. rewrite Er. cbn [fst snd]. rewrite Ed. repeat split; assumption.
Qed.
