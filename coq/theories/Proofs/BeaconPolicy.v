(** Lemmas about Model/BeaconPolicy.v. *)
From Coq Require Import List ListDec NArith ZArith Bool Lia.
From Coq Require Import ZifyBool ZifyN ZifyNat.
From Scion Require Import Lib.Check Model.BeaconPolicy.
Import ListNotations.
Import BeaconPolicy.
Local Open Scope N_scope.

(** ---------- boolean equalities *)
Lemma ia_eqb_eq a b : ia_eqb a b = true <-> a = b.
Proof.
  destruct a as [a1 a2], b as [b1 b2]. unfold ia_eqb. cbn [fst snd]. split.
  - intros H. apply andb_true_iff in H as [H1 H2]. apply N.eqb_eq in H1, H2. now subst.
  - intros H. inversion H; subst. now rewrite !N.eqb_refl.
Qed.

Lemma ia_eqb_refl a : ia_eqb a a = true.
Proof. now apply ia_eqb_eq. Qed.

Lemma mem_ia_in x l : mem_ia x l = true <-> In x l.
Proof.
  unfold mem_ia. rewrite existsb_exists. split.
  - intros (y & Hy & E). apply ia_eqb_eq in E. now subst.
  - intros H. exists x. split; [exact H|apply ia_eqb_refl].
Qed.

Lemma memN_in x l : memN x l = true <-> In x l.
Proof.
  unfold memN. rewrite existsb_exists. split.
  - intros (y & Hy & E). apply N.eqb_eq in E. now subst.
  - intros H. exists x. split; [exact H|apply N.eqb_refl].
Qed.

Lemma hop_eqb_eq a b : hop_eqb a b = true <-> a = b.
Proof.
  destruct a as [[a1 a2] a3], b as [[b1 b2] b3]. unfold hop_eqb, hop_ia. cbn [fst snd]. split.
  - intros H. apply andb_true_iff in H as [H H3]. apply andb_true_iff in H as [H1 H2].
    apply ia_eqb_eq in H1. apply N.eqb_eq in H2, H3. now subst.
  - intros H. inversion H; subst. now rewrite ia_eqb_refl, !N.eqb_refl.
Qed.

Lemma key_eqb_eq a b : key_eqb a b = true <-> a = b.
Proof. apply list_eqb_eq. apply hop_eqb_eq. Qed.

Lemma valid_not_zero a : isd a <> 0 -> ia_zero a = false.
Proof. destruct a as [i s]. unfold ia_zero, isd. cbn [fst snd]. intros H. apply N.eqb_neq in H. now rewrite H. Qed.

(** ---------- AS loops *)
Lemma as_loop_go_spec hops : forall seen,
  (forall h, In h hops -> ia_zero h = false) ->
  (ia_zero (as_loop_go seen hops) = true <-> NoDup hops /\ forall h, In h hops -> ~ In h seen).
Proof.
  induction hops as [|h t IH]; intros seen Hv; cbn [as_loop_go].
  - split; [intros _; split; [constructor|intros h []]|reflexivity].
  - destruct (mem_ia h seen) eqn:M.
    + rewrite (Hv h (or_introl eq_refl)). apply mem_ia_in in M. split; [discriminate|].
      intros [_ H]. exfalso. apply (H h); [now left|exact M].
    + assert (Hns : ~ In h seen) by (intros H; apply mem_ia_in in H; congruence).
      rewrite (IH (h :: seen)) by (intros x Hx; apply Hv; now right). split.
      * intros [Hnd Hd]. split.
        -- constructor; [|exact Hnd]. intros Hin. apply (Hd h Hin). now left.
        -- intros x [<-|Hx]; [exact Hns|]. intros Hs. apply (Hd x Hx). now right.
      * intros [Hnd Hd]. inversion Hnd as [|? ? Hnt Hnd']; subst. split; [exact Hnd'|].
        intros x Hx [<-|Hs]; [contradiction|]. apply (Hd x); [now right|exact Hs].
Qed.

Lemma filter_as_loop_spec hops :
  valid_ias hops -> (ia_zero (filter_as_loop hops) = true <-> NoDup hops).
Proof.
  intros Hv. unfold filter_as_loop. rewrite as_loop_go_spec.
  - split; [tauto|]. intros H. split; [exact H|]. intros h _ [].
  - intros h Hh. apply valid_not_zero. unfold valid_ias in Hv. rewrite Forall_forall in Hv. now apply Hv.
Qed.

(** ---------- ISD loops *)
Lemma isd_loop_nil : ~ isd_loop [].
Proof. intros (i & j & k & a & b & c & _ & H & _). destruct i; discriminate. Qed.

(** extending a loop-free prefix by one hop *)
Lemma isd_loop_snoc_same q x h :
  ~ isd_loop (q ++ [x]) -> isd h = isd x -> ~ isd_loop ((q ++ [x]) ++ [h]).
Proof.
  intros Hn E (i & j & k & a & b & c & Hlt & Ha & Hb & Hc & Eac & Nba).
  set (p := q ++ [x]) in *.
  assert (Lp : length p = S (length q)) by (unfold p; rewrite app_length; cbn; lia).
  assert (Hk : (k < length (p ++ [h]))%nat) by (apply nth_error_Some; congruence).
  rewrite app_length in Hk. cbn in Hk.
  rewrite nth_error_app1 in Ha by lia. rewrite nth_error_app1 in Hb by lia.
  destruct (Nat.eq_dec k (length p)) as [->|Hne].
  - rewrite nth_error_app2, Nat.sub_diag in Hc by lia. cbn in Hc. inversion Hc; subst c.
    destruct (Nat.eq_dec j (length q)) as [->|Hj].
    + unfold p in Hb. rewrite nth_error_app2, Nat.sub_diag in Hb by lia. cbn in Hb.
      inversion Hb; subst b. congruence.
    + apply Hn. exists i, j, (length q), a, b, x. repeat split; try lia; try assumption.
      unfold p. rewrite nth_error_app2, Nat.sub_diag by lia. reflexivity.
  - rewrite nth_error_app1 in Hc by lia. apply Hn. exists i, j, k, a, b, c. repeat split; try lia; assumption.
Qed.

Lemma isd_loop_snoc_new p h :
  ~ isd_loop p -> (forall a, In a p -> isd a <> isd h) -> ~ isd_loop (p ++ [h]).
Proof.
  intros Hn Hnew (i & j & k & a & b & c & Hlt & Ha & Hb & Hc & Eac & Nba).
  assert (Hk : (k < length (p ++ [h]))%nat) by (apply nth_error_Some; congruence).
  rewrite app_length in Hk. cbn in Hk.
  rewrite nth_error_app1 in Ha by lia. rewrite nth_error_app1 in Hb by lia.
  destruct (Nat.eq_dec k (length p)) as [->|Hne].
  - rewrite nth_error_app2, Nat.sub_diag in Hc by lia. cbn in Hc. inversion Hc; subst c.
    apply (Hnew a); [eapply nth_error_In; eauto|exact Eac].
  - rewrite nth_error_app1 in Hc by lia. apply Hn. exists i, j, k, a, b, c. repeat split; try lia; assumption.
Qed.

Definition isd_inv (p : list ia) (seen : list N) (last : N) : Prop :=
  (forall x, In x seen <-> exists a, In a p /\ isd a = x) /\
  ((p = [] /\ last = 0) \/ (exists q x, p = q ++ [x] /\ last = isd x)) /\
  ~ isd_loop p.

Lemma isd_loop_go_spec l : forall p seen last,
  isd_inv p seen last -> valid_ias l ->
  (isd_loop_go seen last l <> 0 <-> isd_loop (p ++ l)).
Proof.
  induction l as [|h t IH]; intros p seen last (Hseen & Hlast & Hnl) Hv; cbn [isd_loop_go].
  - rewrite app_nil_r. split; [congruence|contradiction].
  - inversion Hv as [|? ? Hh Hvt]; subst.
    replace (p ++ h :: t) with ((p ++ [h]) ++ t) by (rewrite <- app_assoc; reflexivity).
    destruct (last =? isd h) eqn:El.
    + apply N.eqb_eq in El. destruct Hlast as [[-> ->]|(q & x & -> & ->)]; [congruence|].
      apply IH; [|exact Hvt]. split; [|split].
      * intros y. rewrite Hseen. split; intros (a & Ha & Ey).
        -- exists a. split; [apply in_or_app; now left|exact Ey].
        -- apply in_app_or in Ha as [Ha|[<-|[]]]; [now exists a|].
           exists x. split; [apply in_or_app; right; now left|congruence].
      * right. exists (q ++ [x]), h. split; [reflexivity|congruence].
      * apply isd_loop_snoc_same; [exact Hnl|congruence].
    + apply N.eqb_neq in El. destruct (memN (isd h) seen) eqn:M.
      * apply memN_in in M. apply Hseen in M as (a & Ha & Ea).
        split; [|intros _; exact Hh]. intros _.
        destruct Hlast as [[-> ->]|(q & x & -> & ->)]; [destruct Ha|].
        apply In_nth_error in Ha as (i & Hi).
        assert (Hil : (i < length (q ++ [x]))%nat) by (apply nth_error_Some; congruence).
        rewrite app_length in Hil. cbn in Hil.
        assert (Hiq : i <> length q).
        { intros ->. rewrite nth_error_app2, Nat.sub_diag in Hi by lia. cbn in Hi. inversion Hi; subst. congruence. }
        exists i, (length q), (length (q ++ [x])), a, x, h.
        rewrite app_length. cbn [length]. repeat split; try lia.
        -- rewrite <- app_assoc. rewrite nth_error_app1 by (rewrite app_length; cbn; lia). exact Hi.
        -- rewrite <- !app_assoc. rewrite nth_error_app2, Nat.sub_diag by lia. reflexivity.
        -- rewrite nth_error_app1 by (rewrite !app_length; cbn; lia).
           rewrite nth_error_app2 by (rewrite app_length; cbn; lia).
           rewrite app_length. cbn [length]. replace (length q + 1 - (length q + 1))%nat with 0%nat by lia.
           reflexivity.
      * assert (Hnew : forall a, In a p -> isd a <> isd h).
        { intros a Ha E. assert (In (isd h) seen) by (apply Hseen; now exists a).
          apply memN_in in H. congruence. }
        apply IH; [|exact Hvt]. split; [|split].
        -- intros y. split.
           ++ intros [<-|Hy]; [exists h; split; [apply in_or_app; right; now left|reflexivity]|].
              apply Hseen in Hy as (a & Ha & Ey). exists a. split; [apply in_or_app; now left|exact Ey].
           ++ intros (a & Ha & Ey). apply in_app_or in Ha as [Ha|[<-|[]]]; [right|now left].
              apply Hseen. now exists a.
        -- right. exists p, h. split; reflexivity.
        -- now apply isd_loop_snoc_new.
Qed.

Lemma filter_isd_loop_spec hops :
  valid_ias hops -> (filter_isd_loop hops <> 0 <-> isd_loop hops).
Proof.
  intros Hv. unfold filter_isd_loop. apply (isd_loop_go_spec hops [] [] 0); [|exact Hv].
  split; [|split].
  - intros x. split; [intros []|intros (a & [] & _)].
  - left. split; reflexivity.
  - exact isd_loop_nil.
Qed.

(** [filterLoops] decides the declarative loop notions *)
Lemma filter_loops_spec hops allow :
  valid_ias hops ->
  (filter_loops hops allow = true <-> as_loop hops \/ (allow = false /\ isd_loop hops)).
Proof.
  intros Hv. unfold filter_loops, as_loop.
  pose proof (filter_as_loop_spec hops Hv) as HA. pose proof (filter_isd_loop_spec hops Hv) as HI.
  destruct (ia_zero (filter_as_loop hops)) eqn:Z; cbn [negb].
  - assert (Hnd : NoDup hops) by now apply HA. destruct allow.
    + split; [discriminate|]. intros [H|[H _]]; [contradiction|discriminate].
    + destruct (filter_isd_loop hops =? 0) eqn:E; cbn [negb].
      * apply N.eqb_eq in E. split; [discriminate|]. intros [H|[_ H]]; [contradiction|].
        apply HI in H. congruence.
      * apply N.eqb_neq in E. split; [|reflexivity]. intros _. right. split; [reflexivity|now apply HI].
  - split; [|reflexivity]. intros _. left. intros Hnd. apply HA in Hnd. congruence.
Qed.

Lemma filter_loop_spec hops nb allow :
  valid_ias (extended hops nb) ->
  (filter_loop hops nb allow = true <->
   as_loop (extended hops nb) \/ (allow = false /\ isd_loop (extended hops nb))).
Proof. intros Hv. unfold filter_loop. now apply filter_loops_spec. Qed.

(** ---------- Filter.Apply *)
Lemma filter_apply_spec f hops :
  filter_apply f hops = true <->
  (Z.of_nat (length hops) <= max_hops f)%Z /\ filter_loops hops (allow_isd f) = false /\
  (forall a, In a hops -> ~ In (asn a) (as_bl f) /\ ~ In (isd a) (isd_bl f)).
Proof.
  unfold filter_apply. destruct (Z.of_nat (length hops) >? max_hops f)%Z eqn:L.
  - split; [discriminate|]. intros [H _]. lia.
  - destruct (filter_loops hops (allow_isd f)).
    + split; [discriminate|]. intros (_ & H & _). discriminate.
    + rewrite forallb_forall. split.
      * intros H. split; [lia|]. split; [reflexivity|]. intros a Ha. specialize (H a Ha).
        apply andb_true_iff in H as [H1 H2]. apply negb_true_iff in H1, H2. split; intros Hin.
        -- apply memN_in in Hin. congruence.
        -- apply memN_in in Hin. congruence.
      * intros (_ & _ & H) a Ha. destruct (H a Ha) as [H1 H2]. apply andb_true_iff. split; apply negb_true_iff.
        -- destruct (memN (asn a) (as_bl f)) eqn:M; [apply memN_in in M; contradiction|reflexivity].
        -- destruct (memN (isd a) (isd_bl f)) eqn:M; [apply memN_in in M; contradiction|reflexivity].
Qed.

(** ---------- usage bits *)
Lemma usage_disjoint ps hops x :
  (forall q, In q ps -> N.land (fst q) x = 0) -> N.land (usage ps hops) x = 0.
Proof.
  induction ps as [|p t IH]; intros H; cbn [usage fold_right]; [apply N.land_0_l|].
  fold (usage t hops). destruct (filter_apply (snd p) hops).
  - rewrite N.land_lor_distr_l, (H p (or_introl eq_refl)), IH; [reflexivity|].
    intros q Hq. apply H. now right.
  - apply IH. intros q Hq. apply H. now right.
Qed.

Lemma bits_disjoint_cons p t :
  bits_disjoint (p :: t) = true ->
  fst p <> 0 /\ (forall q, In q t -> N.land (fst q) (fst p) = 0) /\ bits_disjoint t = true.
Proof.
  cbn [bits_disjoint]. intros H. apply andb_true_iff in H as [H H3]. apply andb_true_iff in H as [H1 H2].
  split; [|split; [|exact H3]].
  - apply negb_true_iff, N.eqb_neq in H1. exact H1.
  - intros q Hq. rewrite forallb_forall in H2. apply N.eqb_eq. now apply H2.
Qed.

Lemma usage_bit ps hops : bits_disjoint ps = true ->
  forall p, In p ps -> bit_set (usage ps hops) (fst p) = filter_apply (snd p) hops.
Proof.
  induction ps as [|q t IH]; intros Hd p Hin; [destruct Hin|].
  apply bits_disjoint_cons in Hd as (Hq0 & Hdis & Hdt).
  cbn [usage fold_right]. fold (usage t hops). unfold bit_set. destruct Hin as [->|Hin].
  - pose proof (usage_disjoint t hops (fst p) Hdis) as Hz.
    destruct (filter_apply (snd p) hops).
    + rewrite N.land_lor_distr_l, N.land_diag, Hz, N.lor_0_r. apply N.eqb_refl.
    + rewrite Hz. apply N.eqb_neq. congruence.
  - assert (Hqp : N.land (fst q) (fst p) = 0) by (rewrite N.land_comm; now apply Hdis).
    specialize (IH Hdt p Hin). unfold bit_set in IH.
    destruct (filter_apply (snd q) hops); [|exact IH].
    now rewrite N.land_lor_distr_l, Hqp, N.lor_0_l.
Qed.

Lemma usage_zero_iff ps hops :
  (forall p, In p ps -> fst p <> 0) -> (usage ps hops = 0 <-> pre_filter ps hops = false).
Proof.
  induction ps as [|p t IH]; intros Hnz; cbn [usage fold_right pre_filter existsb]; [tauto|].
  fold (usage t hops). fold (pre_filter t hops).
  assert (IH' : usage t hops = 0 <-> pre_filter t hops = false) by (apply IH; intros q Hq; apply Hnz; now right).
  destruct (filter_apply (snd p) hops); cbn [orb]; [|exact IH'].
  split; [|discriminate]. intros H. apply N.lor_eq_0_iff in H as [H _].
  exfalso. now apply (Hnz p (or_introl eq_refl)).
Qed.

Lemma bits_disjoint_nonzero ps : bits_disjoint ps = true -> forall p, In p ps -> fst p <> 0.
Proof.
  induction ps as [|q t IH]; intros Hd p Hin; [destruct Hin|].
  apply bits_disjoint_cons in Hd as (Hq0 & _ & Hdt). destruct Hin as [->|Hin]; [exact Hq0|now apply IH].
Qed.

(** ---------- one reception step *)
Lemma handle_stored c st b u :
  snd (handle c st b) = HStored u <->
  acceptable c b = true /\ u = usage (pols c) (hops_of b) /\ u <> 0.
Proof.
  unfold handle, acceptable.
  destruct (lookup (ifs c) (b_in b)) as [[lt nb]|]; [|cbn; split; [discriminate|intros [H _]; discriminate]].
  destruct (pre_filter (pols c) (hops_of b)); cbn [negb].
  2:{ cbn. split; [discriminate|]. intros [H _].
      destruct (last (map Some (b_hops b)) None); [rewrite andb_false_r in H|]; discriminate. }
  destruct ((lt =? 1) || (lt =? 2)); cbn [negb andb].
  2:{ cbn. split; [discriminate|]. intros [H _]. destruct (last (map Some (b_hops b)) None); discriminate. }
  destruct (last (map Some (b_hops b)) None) as [h|]; [|cbn; split; [discriminate|intros [H _]; discriminate]].
  destruct (ia_eqb (hop_ia h) nb); cbn [negb andb]; [|cbn; split; [discriminate|intros [H _]; discriminate]].
  destruct (ia_eqb (b_next b) (local c)); cbn [negb andb]; [|cbn; split; [discriminate|intros [H _]; discriminate]].
  destruct (forallb (fun v => v) (b_sigs b)); cbn [negb andb]; [|cbn; split; [discriminate|intros [H _]; discriminate]].
  destruct (usage (pols c) (hops_of b) =? 0) eqn:U; cbn [snd].
  - apply N.eqb_eq in U. split; [discriminate|]. intros (_ & -> & H). contradiction.
  - apply N.eqb_neq in U. split.
    + intros H. inversion H; subst. auto.
    + intros (_ & -> & _). reflexivity.
Qed.

Lemma handle_store c st b :
  fst (handle c st b) =
  match snd (handle c st b) with HStored u => db_insert st b u | _ => st end.
Proof.
  unfold handle.
  destruct (lookup (ifs c) (b_in b)) as [[lt nb]|]; [|reflexivity].
  destruct (negb (pre_filter (pols c) (hops_of b))); [reflexivity|].
  destruct (negb ((lt =? 1) || (lt =? 2))); [reflexivity|].
  destruct (last (map Some (b_hops b)) None) as [h|]; [|reflexivity].
  destruct (negb (ia_eqb (hop_ia h) nb)); [reflexivity|].
  destruct (negb (ia_eqb (b_next b) (local c))); [reflexivity|].
  destruct (negb (forallb (fun v => v) (b_sigs b))); [reflexivity|].
  destruct (usage (pols c) (hops_of b) =? 0); reflexivity.
Qed.

Lemma handle_panic c st b : snd (handle c st b) = HPanic -> b_hops b = [].
Proof.
  unfold handle.
  destruct (lookup (ifs c) (b_in b)) as [[lt nb]|]; [|discriminate].
  destruct (negb (pre_filter (pols c) (hops_of b))); [discriminate|].
  destruct (negb ((lt =? 1) || (lt =? 2))); [discriminate|].
  destruct (last (map Some (b_hops b)) None) as [h|] eqn:L.
  - destruct (negb (ia_eqb (hop_ia h) nb)); [discriminate|].
    destruct (negb (ia_eqb (b_next b) (local c))); [discriminate|].
    destruct (negb (forallb (fun v => v) (b_sigs b))); [discriminate|].
    destruct (usage (pols c) (hops_of b) =? 0); discriminate.
  - intros _. destruct (b_hops b) as [|x t] eqn:E; [reflexivity|]. exfalso.
    assert (H : forall (l : list hop) d, l <> [] -> last (map Some l) d <> None).
    { induction l as [|y l' IHl]; intros d Hne; [congruence|]. cbn [map last].
      destruct l' as [|z l'']; [cbn; discriminate|]. apply IHl. discriminate. }
    apply (H (x :: t) None); [discriminate|exact L].
Qed.

(** the conditions of the statement, spelled out *)
Lemma acceptable_spec c b :
  acceptable c b = true <->
  exists lt nb h, lookup (ifs c) (b_in b) = Some (lt, nb) /\ (lt = 1 \/ lt = 2) /\
    last (map Some (b_hops b)) None = Some h /\ hop_ia h = nb /\ b_next b = local c /\
    Forall (fun v => v = true) (b_sigs b) /\
    exists p, In p (pols c) /\ filter_apply (snd p) (hops_of b) = true.
Proof.
  unfold acceptable. destruct (lookup (ifs c) (b_in b)) as [[lt nb]|].
  2:{ split; [discriminate|]. intros (lt & nb & h & H & _). discriminate. }
  destruct (last (map Some (b_hops b)) None) as [h|].
  2:{ split; [discriminate|]. intros (lt' & nb' & h & _ & _ & H & _). discriminate. }
  rewrite !andb_true_iff, orb_true_iff, !N.eqb_eq, !ia_eqb_eq, forallb_forall. unfold pre_filter.
  rewrite existsb_exists. split.
  - intros ((((H1 & H2) & H3) & H4) & H5). exists lt, nb, h. repeat split; auto.
    apply Forall_forall. exact H4.
  - intros (lt' & nb' & h' & E1 & H1 & E2 & H2 & H3 & H4 & H5). inversion E1; inversion E2; subst.
    rewrite Forall_forall in H4. repeat split; auto.
Qed.

(** ---------- the database *)
Lemma db_insert_in st b u r : In r (db_insert st b u) -> In r st \/ r = mk_rec b u.
Proof.
  induction st as [|x t IH]; cbn [db_insert].
  - intros [<-|[]]. now right.
  - destruct (key_eqb (r_key x) (b_hops b)).
    + destruct (b_ts b >? r_ts x)%Z; intros [<-|H]; auto; left; (now left) || (now right).
    + intros [<-|H]; [left; now left|]. destruct (IH H) as [H'|H']; [left; now right|now right].
Qed.

Lemma db_insert_keeps st b u r :
  In r st -> exists r', In r' (db_insert st b u) /\ r_key r' = r_key r /\ (r_ts r <= r_ts r')%Z.
Proof.
  induction st as [|x t IH]; [intros []|]. cbn [db_insert]. intros [<-|H].
  - destruct (key_eqb (r_key x) (b_hops b)) eqn:K.
    + apply key_eqb_eq in K. destruct (b_ts b >? r_ts x)%Z eqn:T.
      * exists (mk_rec b u). split; [now left|]. cbn. split; [congruence|lia].
      * exists x. split; [now left|]. split; [reflexivity|lia].
    + exists x. split; [now left|]. split; [reflexivity|lia].
  - destruct (key_eqb (r_key x) (b_hops b)).
    + exists r. split; [now right|]. split; [reflexivity|lia].
    + destruct (IH H) as (r' & Hin & Hk & Ht). exists r'. split; [now right|]. now split.
Qed.

Lemma db_insert_has st b u :
  exists r', In r' (db_insert st b u) /\ r_key r' = b_hops b /\ (b_ts b <= r_ts r')%Z.
Proof.
  induction st as [|x t IH]; cbn [db_insert].
  - exists (mk_rec b u). split; [now left|]. cbn. split; [reflexivity|lia].
  - destruct (key_eqb (r_key x) (b_hops b)) eqn:K.
    + apply key_eqb_eq in K. destruct (b_ts b >? r_ts x)%Z eqn:T.
      * exists (mk_rec b u). split; [now left|]. cbn. split; [reflexivity|lia].
      * exists x. split; [now left|]. split; [exact K|lia].
    + destruct IH as (r' & Hin & Hk & Ht). exists r'. split; [now right|]. now split.
Qed.

(** ---------- invariants over arbitrary histories *)
Definition row_from (c : cfg) (b : beacon) (r : rec) : Prop :=
  r = mk_rec b (usage (pols c) (hops_of b)) /\ acceptable c b = true /\ usage (pols c) (hops_of b) <> 0.

Definition store_inv (c : cfg) (pre : list beacon) (st : store) : Prop :=
  (forall r, In r st -> exists b, In b pre /\ row_from c b r) /\
  (forall b, In b pre -> acceptable c b = true -> usage (pols c) (hops_of b) <> 0 ->
     exists r, In r st /\ r_key r = b_hops b /\ (b_ts b <= r_ts r)%Z).

Lemma store_inv_unchanged c pre st b :
  store_inv c pre st -> (forall u, snd (handle c st b) <> HStored u) -> store_inv c (pre ++ [b]) st.
Proof.
  intros [H1 H2] Hn. split.
  - intros r Hr. destruct (H1 r Hr) as (b' & Hb' & Hf). exists b'. split; [apply in_or_app; now left|exact Hf].
  - intros b' Hb' Ha Hu. apply in_app_or in Hb' as [Hb'|[<-|[]]]; [now apply H2|].
    exfalso. apply (Hn (usage (pols c) (hops_of b))). apply handle_stored. auto.
Qed.

Lemma store_inv_step c pre st b :
  store_inv c pre st -> store_inv c (pre ++ [b]) (step c st b).
Proof.
  intros H. unfold step. rewrite handle_store.
  destruct (snd (handle c st b)) as [| | | | |u|] eqn:E;
    try (apply store_inv_unchanged; [exact H|intros u'; congruence]).
  destruct H as [H1 H2].
  apply handle_stored in E. destruct E as (Ha & -> & Hu). split.
  - intros r Hr. apply db_insert_in in Hr as [Hr| ->].
    + destruct (H1 r Hr) as (b' & Hb' & Hf). exists b'. split; [apply in_or_app; now left|exact Hf].
    + exists b. split; [apply in_or_app; right; now left|]. now split.
  - intros b' Hb' Ha' Hu'. apply in_app_or in Hb' as [Hb'|[<-|[]]].
    + destruct (H2 b' Hb' Ha' Hu') as (r & Hr & Hk & Ht).
      destruct (db_insert_keeps st b (usage (pols c) (hops_of b)) r Hr) as (r' & Hr' & Hk' & Ht').
      exists r'. split; [exact Hr'|]. split; [congruence|lia].
    + apply db_insert_has.
Qed.

Lemma store_inv_fold c hist : forall pre st,
  store_inv c pre st -> store_inv c (pre ++ hist) (fold_left (step c) hist st).
Proof.
  induction hist as [|b t IH]; intros pre st H; cbn [fold_left].
  - now rewrite app_nil_r.
  - replace (pre ++ b :: t) with ((pre ++ [b]) ++ t) by (rewrite <- app_assoc; reflexivity).
    apply IH. now apply store_inv_step.
Qed.

Lemma store_inv_run c hist : store_inv c hist (run c hist).
Proof.
  apply (store_inv_fold c hist [] []). split; [intros r []|intros b []].
Qed.

(** what a stored row guarantees for each of its usages *)
Lemma row_respects c b r p :
  bits_disjoint (pols c) = true -> row_from c b r -> In p (pols c) ->
  bit_set (r_usage r) (fst p) = true -> filter_apply (snd p) (key_ias (r_key r)) = true.
Proof.
  intros Hd (-> & _ & _) Hp Hb. cbn [mk_rec r_usage r_key] in *.
  rewrite (usage_bit _ _ Hd p Hp) in Hb. exact Hb.
Qed.

(** ---------- propagation *)
Lemma for_interface_in pifs allow st nb r :
  In r (for_interface pifs allow st nb) <->
  In r st /\ bit_set (r_usage r) usage_prop = true /\ lookup pifs (r_in r) <> None /\
  should_ignore allow (key_ias (r_key r)) nb = false.
Proof.
  unfold for_interface. rewrite filter_In, !andb_true_iff, negb_true_iff.
  destruct (lookup pifs (r_in r)); split.
  - intros (H & (H1 & _) & H3). repeat split; auto. discriminate.
  - intros (H & H1 & _ & H3). auto.
  - intros (_ & (_ & H) & _). discriminate.
  - intros (_ & _ & H & _). congruence.
Qed.

Lemma no_loop_sent allow hops nb :
  valid_ias (extended hops nb) -> should_ignore allow hops nb = false ->
  NoDup (extended hops nb) /\ (allow = false -> ~ isd_loop (extended hops nb)).
Proof.
  intros Hv H. unfold should_ignore in H.
  pose proof (filter_loop_spec hops nb allow Hv) as S. split.
  - assert (Hdec : forall a b : ia, {a = b} + {a <> b}) by (decide equality; apply N.eq_dec).
    destruct (NoDup_dec Hdec (extended hops nb)) as [Hn|Hn]; [exact Hn|].
    assert (X : filter_loop hops nb allow = true) by (apply S; left; exact Hn). congruence.
  - intros Ha Hl. assert (X : filter_loop hops nb allow = true) by (apply S; right; now split). congruence.
Qed.

(** ---------- sorting helpers *)
Lemma insert_sorted_in x l y : In y (insert_sorted x l) <-> y = x \/ In y l.
Proof.
  induction l as [|z t IH]; cbn [insert_sorted].
  - cbn. split; [intros [<-|[]]; now left|intros [->|[]]; now left].
  - destruct (x <=? z); cbn [In]; [split; intros [H|H]; auto|]. rewrite IH. tauto.
Qed.

Lemma sortN_in l y : In y (sortN l) <-> In y l.
Proof.
  induction l as [|x t IH]; cbn [sortN fold_right]; [tauto|]. fold (sortN t).
  rewrite insert_sorted_in, IH. cbn [In]. split; intros [H|H]; auto.
Qed.

Lemma insert_rec_in x l y : In y (insert_rec x l) <-> y = x \/ In y l.
Proof.
  induction l as [|z t IH]; cbn [insert_rec].
  - cbn. split; [intros [<-|[]]; now left|intros [->|[]]; now left].
  - destruct (r_kid x <=? r_kid z); cbn [In]; [split; intros [H|H]; auto|]. rewrite IH. tauto.
Qed.

Lemma sorted_recs_in st y : In y (fold_right insert_rec [] st) <-> In y st.
Proof.
  induction st as [|x t IH]; cbn [fold_right]; [tauto|].
  rewrite insert_rec_in, IH. cbn [In]. split; intros [H|H]; auto.
Qed.

(** ---------- the oracle holds on the model *)
Lemma kids_consistent_spec hist :
  kids_consistent hist = true ->
  forall b b', In b hist -> In b' hist -> (b_kid b = b_kid b' <-> b_hops b = b_hops b').
Proof.
  unfold kids_consistent. rewrite forallb_forall. intros H b b' Hb Hb'.
  specialize (H b Hb). rewrite forallb_forall in H. specialize (H b' Hb').
  apply eqb_prop in H. rewrite <- N.eqb_eq, <- key_eqb_eq. rewrite H. tauto.
Qed.

Lemma hops_of_kid_in hist b :
  kids_consistent hist = true -> In b hist -> hops_of_kid hist (b_kid b) = Some (hops_of b).
Proof.
  intros Hc Hb. unfold hops_of_kid.
  destruct (find (fun b' => b_kid b' =? b_kid b) hist) as [b'|] eqn:F.
  - apply find_some in F as [Hb' E]. apply N.eqb_eq in E.
    apply (kids_consistent_spec hist Hc b' b Hb' Hb) in E. cbn. unfold hops_of. now rewrite E.
  - exfalso. pose proof (find_none _ _ F b Hb) as X. cbn in X. rewrite N.eqb_refl in X. discriminate.
Qed.

Lemma oks_no_panic c hist : (forall b, In b hist -> b_hops b <> []) ->
  forall st, no_panic (oks c st hist) = true.
Proof.
  induction hist as [|b t IH]; intros Hne st; [reflexivity|].
  cbn [oks no_panic forallb]. fold (no_panic (oks c (step c st b) t)).
  rewrite IH by (intros x Hx; apply Hne; now right). rewrite andb_true_r.
  unfold step_ok. destruct (snd (handle c st b)) eqn:E; try reflexivity.
  exfalso. apply handle_panic in E. apply (Hne b); [now left|exact E].
Qed.

Lemma acceptable_prefilter c b : acceptable c b = true -> pre_filter (pols c) (hops_of b) = true.
Proof.
  unfold acceptable. destruct (lookup (ifs c) (b_in b)) as [[lt nb]|]; [|discriminate].
  destruct (last (map Some (b_hops b)) None); [|discriminate].
  intros H. now apply andb_true_iff in H as [_ H].
Qed.

Definition to_dump (r : rec) : N * Z * N * N := (r_kid r, r_ts r, r_in r, r_usage r).

Lemma dump_of_in st d : In d (dump_of st) <-> exists r, In r st /\ d = to_dump r.
Proof.
  unfold dump_of. rewrite in_map_iff. split.
  - intros (r & <- & Hr). exists r. split; [now apply sorted_recs_in|reflexivity].
  - intros (r & Hr & ->). exists r. split; [reflexivity|now apply sorted_recs_in].
Qed.

Lemma oracle_model c hist pifs allow egress :
  oracle c hist pifs allow (oks c [] hist) (dump_of (run c hist))
         (propagate pifs allow (run c hist) egress) = true.
Proof.
  unfold oracle. destruct (in_scope c hist) eqn:S; [|reflexivity]. cbn [negb].
  unfold in_scope in S. apply andb_true_iff in S as [S S4]. apply andb_true_iff in S as [S S3].
  apply andb_true_iff in S as [Hkc Hbd].
  assert (Hne : forall b, In b hist -> b_hops b <> []).
  { intros b Hb E. rewrite forallb_forall in S3. specialize (S3 b Hb). rewrite E in S3. discriminate. }
  destruct (store_inv_run c hist) as [I1 I2]. set (st := run c hist) in *.
  rewrite (oks_no_panic c hist Hne []). cbn [andb].
  assert (R1 : forallb (row_ok c hist) (dump_of st) = true).
  { apply forallb_forall. intros d Hd. apply dump_of_in in Hd as (r & Hr & ->).
    destruct (I1 r Hr) as (b & Hb & -> & Ha & Hu). unfold to_dump, row_ok. cbn [mk_rec r_kid r_ts r_in r_usage].
    rewrite (hops_of_kid_in hist b Hkc Hb), N.eqb_refl. cbn [andb].
    replace (usage (pols c) (hops_of b) =? 0) with false by (symmetry; now apply N.eqb_neq). cbn [negb andb].
    apply andb_true_iff. split.
    - rewrite !andb_true_r. apply existsb_exists. exists b. split; [exact Hb|]. now rewrite N.eqb_refl, Z.eqb_refl, N.eqb_refl, Ha.
    - apply forallb_forall. intros p Hp. rewrite (usage_bit _ _ Hbd p Hp).
      destruct (filter_apply (snd p) (hops_of b)); reflexivity. }
  assert (R2 : stored_all c hist (dump_of st) = true).
  { apply forallb_forall. intros b Hb. destruct (acceptable c b) eqn:Ha; [|reflexivity]. cbn [negb orb].
    assert (Hu : usage (pols c) (hops_of b) <> 0).
    { intros E. apply usage_zero_iff in E; [|now apply bits_disjoint_nonzero].
      rewrite (acceptable_prefilter c b Ha) in E. discriminate. }
    destruct (I2 b Hb Ha Hu) as (r & Hr & Hk & Ht).
    destruct (I1 r Hr) as (b' & Hb' & Er & _).
    apply existsb_exists. exists (to_dump r). split; [apply dump_of_in; now exists r|].
    unfold to_dump. apply andb_true_iff. split; [|lia].
    apply N.eqb_eq. rewrite Er in Hk |- *. cbn [mk_rec r_kid r_key] in *.
    now apply (kids_consistent_spec hist Hkc b' b Hb' Hb). }
  rewrite R1, R2. cbn [andb].
  apply forallb_forall. intros p Hp. unfold propagate in Hp. apply in_map_iff in Hp as (e & <- & _).
  unfold prop_ok. cbn [fst snd]. destruct (lookup pifs e) as [[lt nb]|]; [|reflexivity].
  apply forallb_forall. intros kid Hk. rewrite sortN_in in Hk. apply in_map_iff in Hk as (r & <- & Hr).
  apply for_interface_in in Hr as (Hr & Hbit & _ & Hign).
  destruct (I1 r Hr) as (b & Hb & Er & _). rewrite Er in *. cbn [mk_rec r_kid r_key r_usage] in *.
  rewrite (hops_of_kid_in hist b Hkc Hb).
  change (key_ias (b_hops b)) with (hops_of b) in Hign. rewrite Hign. cbn [negb andb].
  apply existsb_exists. exists (to_dump (mk_rec b (usage (pols c) (hops_of b)))).
  split; [apply dump_of_in; eexists; split; [exact Hr|reflexivity]|].
  unfold to_dump. cbn [mk_rec r_kid r_usage]. now rewrite N.eqb_refl, Hbit.
Qed.

(** ---------- audit follow-up: loops through the local AS *)

(** outside the defect class nothing handed out loops on the wire *)
Lemma wire_ok_except_known c hist pifs allow egress :
  in_scope c hist = true -> known c hist pifs allow egress = false ->
  forallb (wire_ok c hist pifs allow) (propagate pifs allow (run c hist) egress) = true.
Proof.
  intros S K. unfold in_scope in S. apply andb_true_iff in S as [S _]. apply andb_true_iff in S as [S _].
  apply andb_true_iff in S as [Hkc _].
  destruct (store_inv_run c hist) as [I1 _].
  apply forallb_forall. intros p Hp. unfold propagate in Hp. apply in_map_iff in Hp as (e & <- & He).
  unfold wire_ok. cbn [fst snd]. destruct (lookup pifs e) as [[lt nb]|] eqn:L; [|reflexivity].
  apply forallb_forall. intros kid Hk. rewrite sortN_in in Hk. apply in_map_iff in Hk as (r & <- & Hr).
  apply for_interface_in in Hr as (Hr & _ & _ & Hign).
  destruct (I1 r Hr) as (b & Hb & Er & _). rewrite Er in *. cbn [mk_rec r_kid r_key] in *.
  rewrite (hops_of_kid_in hist b Hkc Hb). change (key_ias (b_hops b)) with (hops_of b) in Hign.
  unfold known in K.
  destruct (filter_loops (on_wire c (hops_of b) nb) allow) eqn:W; [|reflexivity]. exfalso.
  assert (X : existsb (fun b0 => existsb (fun e0 =>
              match lookup pifs e0 with
              | Some (_, nb0) => filter_loops (on_wire c (hops_of b0) nb0) allow && negb (should_ignore allow (hops_of b0) nb0)
              | None => false end) egress) hist = true).
  { apply existsb_exists. exists b. split; [exact Hb|]. apply existsb_exists. exists e. split; [exact He|].
    rewrite L, W, Hign. reflexivity. }
  congruence.
Qed.

Lemma oracle_full_except_known c hist pifs allow egress :
  known c hist pifs allow egress = false ->
  oracle_full c hist pifs allow (oks c [] hist) (dump_of (run c hist))
              (propagate pifs allow (run c hist) egress) = true.
Proof.
  intros K. unfold oracle_full. rewrite oracle_model. cbn [andb].
  destruct (in_scope c hist) eqn:S; [|reflexivity]. cbn [negb orb]. now apply wire_ok_except_known.
Qed.

(** inserting a hop whose ISD equals that of the hop before it, or that of the
    single hop after it, does not change the verdict of [filterIsdLoop] *)
Lemma isd_go_insert_after p : forall seen last h x q,
  isd x = isd h ->
  isd_loop_go seen last ((p ++ [h]) ++ x :: q) = isd_loop_go seen last ((p ++ [h]) ++ q).
Proof.
  induction p as [|y p IH]; intros seen last h x q E; cbn [app isd_loop_go].
  - destruct (last =? isd h) eqn:A.
    + apply N.eqb_eq in A. rewrite E, <- A, N.eqb_refl. reflexivity.
    + destruct (memN (isd h) seen); [reflexivity|]. now rewrite E, N.eqb_refl.
  - destruct (last =? isd y); [apply (IH seen last h x q E)|].
    destruct (memN (isd y) seen); [reflexivity|]. apply (IH _ _ h x q E).
Qed.

Lemma isd_go_insert_before p : forall seen last x y,
  isd x = isd y ->
  isd_loop_go seen last (p ++ [x; y]) = isd_loop_go seen last (p ++ [y]).
Proof.
  induction p as [|z p IH]; intros seen last x y E; cbn [app isd_loop_go].
  - rewrite E. destruct (last =? isd y) eqn:A; [reflexivity|].
    destruct (memN (isd y) seen); [reflexivity|]. now rewrite N.eqb_refl.
  - destruct (last =? isd z); [apply (IH seen last x y E)|].
    destruct (memN (isd z) seen); [reflexivity|]. apply (IH _ _ x y E).
Qed.

(** declarative statement outside the defect class *)
Lemma no_wire_loop_except_known c allow hops nb :
  valid_ias (on_wire c hops nb) ->
  should_ignore allow hops nb = false ->
  ~ In (local c) hops -> local c <> nb ->
  (allow = false ->
     (exists p h, hops = p ++ [h] /\ isd (local c) = isd h) \/ (ia_zero nb = false /\ isd (local c) = isd nb)) ->
  NoDup (on_wire c hops nb) /\ (allow = false -> ~ isd_loop (on_wire c hops nb)).
Proof.
  intros Hv Hign Hnl Hnb Hisd.
  assert (Hve : valid_ias (extended hops nb)).
  { unfold valid_ias, on_wire, extended in *. rewrite Forall_forall in *. intros a Ha. apply Hv.
    destruct (ia_zero nb); [apply in_or_app; now left|].
    apply in_app_or in Ha as [Ha|Ha]; apply in_or_app; [now left|right]. apply in_or_app. now right. }
  destruct (no_loop_sent allow hops nb Hve Hign) as [Hnd Hil].
  set (tail := if ia_zero nb then [] else [nb]).
  assert (Ew : on_wire c hops nb = hops ++ local c :: tail) by reflexivity.
  assert (Ee : extended hops nb = hops ++ tail).
  { unfold extended, tail. destruct (ia_zero nb); [now rewrite app_nil_r|reflexivity]. }
  rewrite Ee in Hnd, Hil, Hve. rewrite Ew in *. split.
  - apply (NoDup_Add (Add_app (local c) hops tail)). split; [exact Hnd|].
    intros Hin. apply in_app_or in Hin as [Hin|Hin]; [contradiction|].
    unfold tail in Hin. destruct (ia_zero nb); [destruct Hin|]. destruct Hin as [Hin|[]]. congruence.
  - intros Ha Hl. apply (filter_isd_loop_spec _ Hv) in Hl. apply Hl. clear Hl.
    assert (Z : filter_isd_loop (hops ++ tail) = 0).
    { destruct (filter_isd_loop (hops ++ tail) =? 0) eqn:Z0; [now apply N.eqb_eq|].
      apply N.eqb_neq in Z0. exfalso. apply (Hil Ha). now apply (filter_isd_loop_spec _ Hve). }
    rewrite <- Z. unfold filter_isd_loop.
    destruct (Hisd Ha) as [(p & h & -> & E)|[Hz E]].
    + apply isd_go_insert_after. exact E.
    + unfold tail. rewrite Hz. apply (isd_go_insert_before hops [] 0 (local c) nb E).
Qed.

Lemma assoc_kid_table hist kid : assoc_kid (kid_table hist) kid = hops_of_kid hist kid.
Proof.
  unfold hops_of_kid, kid_table. induction hist as [|b t IH]; [reflexivity|].
  cbn [map assoc_kid find]. destruct (b_kid b =? kid); [reflexivity|exact IH].
Qed.

Lemma wire_ok_t_table c hist pifs allow p :
  wire_ok_t (local c) (kid_table hist) pifs allow p = wire_ok c hist pifs allow p.
Proof.
  unfold wire_ok_t, wire_ok. destruct (lookup pifs (fst p)) as [[lt nb]|]; [|reflexivity].
  destruct (snd p) as [kids|]; [|reflexivity]. induction kids as [|k t IH]; [reflexivity|].
  cbn [forallb]. rewrite IH, assoc_kid_table. reflexivity.
Qed.
