(** C30 instantiated with the combinator model: [Pather.get_paths] with
    [combine := comb_inst] (Model/Combinator's [combine] on the contents of the
    fetched segments).  The end-point hypothesis [comb_ok] of C30 is discharged by
    [combine_endpoints] (Proofs/CombinatorEndpoints.v) for fetched segments of the
    shape beaconing produces ([CombSpec.wf_input]). *)
From Coq Require Import List NArith ZArith Bool.
From Scion Require Import Lib.Check Model.Segment Model.CombSpec Model.Combinator Model.Pather.
From Scion Require Import Proofs.CombinatorEndpoints Proofs.Pather.
Import ListNotations.
Local Open Scope N_scope.

Section Inst.
(** the combinator names an ISD-AS by one number, the Pather model by a pair *)
Variable enc : Pather.ia -> N.
Variable dec : N -> Pather.ia.
Hypothesis dec_enc : forall x, dec (enc x) = x.
(** content of the segment with a given id *)
Variable body : N -> Segment.segment.

Definition tag (l : list Pather.seg) : list (N * Segment.segment) :=
  map (fun s => (Pather.sg_id s, body (Pather.sg_id s))) l.

Definition conv_if (i : CombSpec.iface) : Pather.iface := (dec (fst i), snd i).
Definition conv_path (p : Combinator.path) : Pather.cpath :=
  Pather.mkcpath (map conv_if (Combinator.p_ifs p)) (Z.of_N (Combinator.p_exp p / 1000)).

(** combinator.Combine(src, dst, ups, cores, downs, false) *)
Definition comb_inst (src d : Pather.ia) (up core down : list Pather.seg) : list Pather.cpath :=
  match Combinator.combine (enc src) (enc d) (tag up) (tag core) (tag down) false with
  | Combinator.Done ps => map conv_path ps
  | _ => []
  end.

(** the fetched segments are beaconing-shaped *)
Definition shaped (up core down : list Pather.seg) : Prop :=
  CombSpec.wf_input (Combinator.segs_of (tag up)) (Combinator.segs_of (tag core))
                    (Combinator.segs_of (tag down)) = true.

Lemma last_map {A B} (f : A -> B) (l : list A) d : last (map f l) (f d) = f (last l d).
Proof. induction l as [|a [|b t] IH]; try reflexivity. exact IH. Qed.

Lemma comb_inst_ok src : comb_ok_on comb_inst shaped src.
Proof.
  intros d up core down p W Hp. unfold comb_inst in Hp.
  destruct (Combinator.combine (enc src) (enc d) (tag up) (tag core) (tag down) false)
    as [ps| |] eqn:E; try destruct Hp.
  apply in_map_iff in Hp as [q [<- Hq]].
  destruct (combine_endpoints _ _ _ _ _ _ _ _ W E Hq) as [i0 [rest [Ei [H1 H2]]]].
  exists (conv_if i0), (map conv_if rest). cbn [conv_path Pather.p_ifs].
  rewrite Ei. cbn [map]. split; [reflexivity|]. split.
  - cbn. now rewrite H1, dec_enc.
  - change (conv_if i0 :: map conv_if rest) with (map conv_if (i0 :: rest)).
    rewrite last_map, <- Ei. cbn. now rewrite H2, dec_enc.
Qed.

Theorem endpoints_combinator fetch rev_active nexthop sp now dst l r :
  fetched_sat fetch shaped -> fetch_ok fetch -> Pather.wildcard (Pather.sp_local sp) = false ->
  Pather.get_paths fetch comb_inst rev_active nexthop sp now dst = Pather.GOk l -> In r l ->
  Pather.r_src r = Pather.sp_local sp
  /\ (Pather.wildcard dst = false -> Pather.r_dst r = dst)
  /\ (Pather.wildcard dst = true ->
      Pather.isd (Pather.r_dst r) = Pather.isd dst /\
      exists s, In s (fst (fetch (Pather.requests sp dst))) /\ Pather.sg_first s = Pather.r_dst r /\
                (Pather.sg_type s = Pather.Core \/
                 (Pather.sg_type s = Pather.Up /\ Pather.isd dst = Pather.isd (Pather.sp_local sp)))).
Proof. intros HP. apply (endpoints_on fetch comb_inst rev_active nexthop shaped); [apply comb_inst_ok | exact HP]. Qed.

Theorem no_panic_combinator fetch rev_active nexthop sp now dst :
  fetched_sat fetch shaped ->
  Pather.get_paths fetch comb_inst rev_active nexthop sp now dst <> Pather.GPanic.
Proof.
  (* [no_panic] asks for [comb_ok] on every input; replay its argument on fetched input *)
  intros HP. unfold Pather.get_paths. destruct (Pather.isd dst =? 0); [discriminate|].
  destruct (Pather.ia_eqb dst (Pather.sp_local sp)); [discriminate|].
  destruct (Pather.split sp dst) as [reqs|]; [|discriminate].
  pose proof (HP reqs) as W. destruct (fetch reqs) as [segs ferr]. cbn [fst] in W.
  set (paths := Pather.filter_revoked rev_active
                  (Pather.build_all_paths comb_inst now (Pather.sp_local sp) dst segs)).
  assert (Hne : forall p, In p paths -> Pather.p_ifs p <> []).
  { intros p Hp. apply In_filtered in Hp as [[d [_ Hcmb]] _].
    destruct (comb_inst_ok _ _ _ _ _ _ W Hcmb) as [i0 [rest [E _]]]. congruence. }
  pose proof (translate_paths_no_panic nexthop paths Hne) as Hn.
  destruct paths as [|p0 pt]; [destruct ferr; discriminate|].
  destruct (Pather.translate_paths nexthop (p0 :: pt)) as [[|r0 rt]|]; congruence.
Qed.

End Inst.
