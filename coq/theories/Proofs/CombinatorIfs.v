(** The interface list of a rendered segment equals the interfaces its hop fields
    traverse ([CombSpec.traversed]), for segments that pass seg.Validate. *)
From Coq Require Import List NArith Bool Arith Lia.
From Scion Require Import Lib.Check Model.Segment Model.CombSpec Model.Combinator.
From Scion Require Import Proofs.CombinatorGraph Proofs.CombinatorRender Proofs.CombinatorFilter Proofs.CombinatorPaths.
Import ListNotations.
Import Segment Combinator.
Local Open Scope N_scope.

Lemma rev_nz ia x : rev (nz ia x) = nz ia x.
Proof. unfold nz. destruct (x =? 0); reflexivity. Qed.

Lemma rev_entry_bwd a : rev (entry_bwd a) = entry_fwd a.
Proof. unfold entry_bwd, entry_fwd, hop_bwd, hop_fwd. now rewrite rev_app_distr, !rev_nz. Qed.

Lemma rev_flat_map_rev {A B} (f : A -> list B) l :
  rev (flat_map f (rev l)) = flat_map (fun x => rev (f x)) l.
Proof.
  induction l as [|x l IH]; cbn; [reflexivity|].
  rewrite flat_map_app, rev_app_distr. cbn. now rewrite app_nil_r, IH.
Qed.

Lemma flat_map_eq {A B} (f g : A -> list B) l :
  (forall x, f x = g x) -> flat_map f l = flat_map g l.
Proof. intros H. induction l as [|x l IH]; cbn; [reflexivity | now rewrite H, IH]. Qed.

Lemma flat_map_map {A B C} (f : B -> list C) (g : A -> B) l :
  flat_map f (map g l) = flat_map (fun x => f (g x)) l.
Proof. induction l as [|x l IH]; cbn; [reflexivity | now rewrite IH]. Qed.

Lemma nz_zero ia : nz ia 0 = [].
Proof. reflexivity. Qed.

Lemma last_indep {A} (l : list A) d d' : l <> [] -> last l d = last l d'.
Proof.
  induction l as [|x l IH]; intros H; [contradiction|]. destruct l as [|y l]; [reflexivity|].
  cbn [last]. apply IH. discriminate.
Qed.

Lemma last_app_cons {A} (l1 : list A) x l2 d : last (l1 ++ x :: l2) d = last (x :: l2) d.
Proof.
  induction l1 as [|y l1 IH]; [reflexivity|]. cbn [app]. rewrite <- IH.
  destruct (l1 ++ x :: l2) eqn:E; [destruct l1; discriminate | reflexivity].
Qed.

(** [traversed] on at least two hops *)
Lemma traversed_cons cd pk x t :
  t <> [] ->
  traversed cd pk (x :: t) =
  hop_ifs cd (pk && cd) true x ++ flat_map (hop_ifs cd true true) (removelast t) ++
  hop_ifs cd true (pk && negb cd) (last t x).
Proof. intros H. destruct t; [contradiction | reflexivity]. Qed.

(** facts that seg.Validate gives about the cut entry and the entries after it *)
Record cut_facts (e : edge) : Prop := {
  cf_first : e_sc e = O -> h_in (ae_hop (edge_cut e)) = 0;
  cf_last_cut : edge_rest e = [] -> h_eg (ae_hop (edge_cut e)) = 0;
  cf_last_rest : forall d, edge_rest e <> [] -> h_eg (ae_hop (last (edge_rest e) d)) = 0;
  cf_peer : forall k p, nth_error (ae_peers (edge_cut e)) k = Some p ->
            h_eg (pe_hop p) = h_eg (ae_hop (edge_cut e))
}.

Lemma validate_cut_facts e :
  edge_good e -> validate (is_seg (e_seg e)) = true -> cut_facts e.
Proof.
  intros [c [Hc _]] V. assert (Ec : edge_cut e = c) by (unfold edge_cut; now apply nth_error_nth).
  unfold validate in V. fold (entries e) in V.
  pose proof (skipn_cut _ _ _ Hc) as Hs. fold (edge_rest e) in Hs.
  pose proof (firstn_skipn (e_sc e) (entries e)) as Hsplit. rewrite Hs in Hsplit.
  destruct (entries e) as [|a t] eqn:En; [destruct (e_sc e); discriminate|].
  apply andb_true_iff in V as [V Vp]. apply andb_true_iff in V as [Vf Vl].
  apply N.eqb_eq in Vf, Vl.
  assert (Hlast : h_eg (ae_hop (last (c :: edge_rest e) a)) = 0).
  { rewrite <- Hsplit in Vl. now rewrite last_app_cons in Vl. }
  split.
  - intros E0. rewrite Ec. rewrite E0 in Hc. cbn in Hc. injection Hc as <-. exact Vf.
  - intros Er. rewrite Er in Hlast. cbn in Hlast. now rewrite Ec.
  - intros d Hne. destruct (edge_rest e) as [|r rt] eqn:Er; [contradiction|].
    cbn [last] in Hlast. rewrite (last_indep _ d a) by discriminate. exact Hlast.
  - intros k p Hp. rewrite Ec in *. rewrite forallb_forall in Vp.
    assert (Hin : In c (a :: t)) by (eapply nth_error_In; exact Hc).
    specialize (Vp c Hin). unfold peers_ok in Vp. rewrite forallb_forall in Vp.
    apply N.eqb_eq. apply Vp. eapply nth_error_In; exact Hp.
Qed.

Lemma cut_hop_eg e : cut_facts e -> h_eg (cut_hop e (edge_cut e)) = h_eg (ae_hop (edge_cut e)).
Proof.
  intros F. unfold cut_hop. destruct (e_peer e) as [|k]; [reflexivity|].
  destruct (nth_error (ae_peers (edge_cut e)) k) as [p|] eqn:Ep; [|reflexivity].
  eapply cf_peer; eauto.
Qed.

(** the ingress part of [cut_ifs]: listed exactly over a peering link *)
Lemma cut_ifs_ingress e :
  cut_facts e ->
  (if Nat.eqb (e_sc e) 0 || negb (Nat.eqb (e_peer e) 0)
   then nz (ae_ia (edge_cut e)) (h_in (cut_hop e (edge_cut e))) else []) =
  (if negb (Nat.eqb (e_peer e) 0) then nz (ae_ia (edge_cut e)) (h_in (cut_hop e (edge_cut e))) else []).
Proof.
  intros F. destruct (Nat.eqb (e_peer e) 0) eqn:Ep; cbn [negb orb]; [|now rewrite orb_true_r].
  rewrite orb_false_r. destruct (Nat.eqb_spec (e_sc e) 0) as [E0|]; [|reflexivity].
  apply Nat.eqb_eq in Ep. unfold cut_hop. rewrite Ep. now rewrite (cf_first _ F E0).
Qed.

Lemma trav_ifs_traversed e :
  edge_good e -> validate (is_seg (e_seg e)) = true ->
  edge_ifs e = traversed (is_down e) (negb (Nat.eqb (e_peer e) 0)) (edge_hops e).
Proof.
  intros Hg V. pose proof (validate_cut_facts e Hg V) as F.
  unfold edge_ifs, edge_hops, trav_ifs, trav_hops, cut_ifs.
  rewrite (cut_ifs_ingress e F). rewrite (cut_hop_eg e F).
  set (H := cut_hop e (edge_cut e)). set (pk := negb (Nat.eqb (e_peer e) 0)).
  assert (EgH : h_eg H = h_eg (ae_hop (edge_cut e))) by (apply cut_hop_eg; exact F).
  destruct (is_down e) eqn:D.
  - (* down: in construction direction *)
    rewrite rev_app_distr, rev_flat_map_rev. rewrite (flat_map_eq _ entry_fwd) by apply rev_entry_bwd.
    assert (Hh : rev (map reg (rev (edge_rest e)) ++ [(ae_ia (edge_cut e), H)]) = (ae_ia (edge_cut e), H) :: map reg (edge_rest e)).
    { rewrite rev_app_distr. cbn [rev app]. now rewrite <- map_rev, rev_involutive. }
    rewrite Hh. clear Hh. rewrite rev_app_distr, rev_nz.
    assert (Rpk : rev (if pk then nz (ae_ia (edge_cut e)) (h_in H) else []) = if pk then nz (ae_ia (edge_cut e)) (h_in H) else [])
      by (destruct pk; [apply rev_nz | reflexivity]).
    rewrite Rpk. destruct (edge_rest e) as [|r rt] eqn:Er.
    + cbn [map flat_map app]. unfold traversed, hop_ifs. cbn [fst snd enter leave negb].
      rewrite (cf_last_cut _ F Er), nz_zero, andb_true_r, andb_false_r, !app_nil_r. reflexivity.
    + rewrite traversed_cons by discriminate.
      assert (Hl : exists rl, r :: rt = removelast (r :: rt) ++ [rl] /\ rl = last (r :: rt) r).
      { exists (last (r :: rt) r). split; [apply app_removelast_last; discriminate | reflexivity]. }
      destruct Hl as [rl [Hsplit Hrl]].
      pose proof (cf_last_rest _ F r) as Hz. rewrite Er in Hz. specialize (Hz ltac:(discriminate)).
      rewrite <- Hrl in Hz.
      assert (Lm : last (map reg (r :: rt)) (ae_ia (edge_cut e), H) = reg rl).
      { rewrite Hsplit, map_app. cbn [map]. rewrite last_last. reflexivity. }
      assert (Rm : removelast (map reg (r :: rt)) = map reg (removelast (r :: rt))).
      { rewrite Hsplit at 1. rewrite map_app. cbn [map]. now rewrite removelast_last. }
      rewrite Lm, Rm. rewrite Hsplit at 1. rewrite flat_map_app. cbn [flat_map]. rewrite app_nil_r.
      unfold hop_ifs at 1. cbn [fst snd enter leave]. rewrite andb_true_r. cbn [negb andb].
      rewrite flat_map_map.
      change (flat_map (fun x => hop_ifs true true true (reg x))) with (flat_map entry_fwd).
      rewrite EgH, andb_false_r. unfold hop_ifs. cbn [fst snd enter leave reg].
      unfold entry_fwd at 2. unfold hop_fwd. rewrite Hz, nz_zero. reflexivity.
  - (* up / core: against construction direction *)
    destruct (rev (edge_rest e)) as [|r1 rt] eqn:Er.
    + assert (Er' : edge_rest e = []).
      { destruct (edge_rest e) as [|y l]; [reflexivity|]. cbn in Er. destruct (rev l); discriminate. }
      cbn [map flat_map app]. unfold traversed, hop_ifs. cbn [fst snd enter leave negb].
      rewrite (cf_last_cut _ F Er'), nz_zero, andb_false_r, andb_true_r. cbn [app]. reflexivity.
    + cbn [map app]. rewrite traversed_cons by (destruct (map reg rt); discriminate).
      rewrite removelast_last, last_last.
      assert (Hr1 : r1 = last (edge_rest e) r1).
      { rewrite <- (rev_involutive (edge_rest e)), Er. cbn [rev]. now rewrite last_last. }
      pose proof (cf_last_rest _ F r1) as Hz.
      assert (Hne : edge_rest e <> []) by (intros E0; rewrite E0 in Er; discriminate).
      specialize (Hz Hne). rewrite <- Hr1 in Hz.
      cbn [flat_map]. unfold hop_ifs at 1. cbn [fst snd enter leave reg]. rewrite andb_false_r.
      unfold entry_bwd at 1, hop_bwd. rewrite Hz, nz_zero. cbn [app].
      rewrite flat_map_map.
      change (flat_map (fun x => hop_ifs false true true (reg x))) with (flat_map entry_bwd).
      unfold hop_ifs. cbn [fst snd enter leave]. rewrite andb_true_r, EgH.
      rewrite <- !app_assoc. reflexivity.
Qed.
