(** C10, part 7: the oracle of the correspondence check holds on the model, for
    the scenarios "the egress interface of one router is down / unknown". *)
From Coq Require Import List NArith Bool Arith Lia ZifyBool ZifyN ZifyNat.
From Scion Require Import Lib.Check Lib.Bytes Model.Router Model.Network Model.Prov Model.RouterScmp
  Model.ScmpReturn.
From Scion Require Import Proofs.ProvStruct Proofs.ProvRender Proofs.ForwardView Proofs.ProvFacts
  Proofs.ReverseStruct Proofs.Reverse Proofs.Reply Proofs.ForwardStep Proofs.Forward
  Proofs.RouterInv Proofs.RouterScmp Proofs.RouterPass
  Proofs.ScmpReturnPath Proofs.ScmpReturnCong Proofs.ScmpReturnWalk Proofs.ScmpReturn
  Proofs.ScmpReturnStop Proofs.ScmpReturnMain.
Import ListNotations.
Import Scion.Model.Router.Router Network Prov.

(** the walk ends with the slow-path request of the router it stopped at *)
Lemma run_x_slow macq t fa now : forall f l0 q0 tr l inp req eg out,
  ScmpReturn.run_x macq t fa now f l0 q0 = (tr, ScmpReturn.XSlow l inp req eg out) ->
  exists a, find_as t (l_ia l) = Some a /\ a_ia a = l_ia l /\
            process_scion (macq (a_key a)) (ScmpReturn.cfg_x fa a (l_rtr l)) now (l_ing l) inp =
            SlowPath req eg out.
Proof.
  induction f as [|f IH]; intros l0 q0 tr l inp req eg out H; [discriminate|].
  cbn [ScmpReturn.run_x] in H.
  destruct (find_as t (l_ia l0)) as [a|] eqn:Fa; [|discriminate].
  destruct (find_as_ia _ _ _ Fa) as [Ia _].
  destruct (process_scion (macq (a_key a)) (ScmpReturn.cfg_x fa a (l_rtr l0)) now (l_ing l0) q0)
    as [| | |e o d|rq e o| |] eqn:P; try discriminate.
  - destruct d as [d|]; [discriminate|].
    destruct (find_nif (a_ifs a) e) as [f0|]; [|discriminate].
    destruct (ni_owner f0 =? l_rtr l0)%N.
    + destruct (find_as t (ni_nbr f0)) as [b|]; [|discriminate].
      destruct (find_nif (a_ifs b) (ni_remote f0)) as [g|]; [|discriminate].
      destruct (ScmpReturn.run_x macq t fa now f _ o) as [tr' fin] eqn:R.
      injection H as _ Hf. subst fin. exact (IH _ _ _ _ _ _ _ _ R).
    + destruct (ScmpReturn.run_x macq t fa now f _ o) as [tr' fin] eqn:R.
      injection H as _ Hf. subst fin. exact (IH _ _ _ _ _ _ _ _ R).
  - injection H as _ <- <- <- <- <-. cbn [l_ia l_rtr l_ing]. exists a.
    split; [rewrite Ia; exact Fa|]. split; [reflexivity|exact P].
Qed.

Section Oracle.
Variable mac : N -> N -> N -> N -> N -> N -> list N.
Variable t : topology.
Variable now now' : N.
Variable p : prov.
Variable pp : pparams.
Hypothesis HG : good mac t p.
Hypothesis Hep : endpoints_ok t p pp = true.
Hypothesis Hexp : all_unexpired now p = true.
Hypothesis Hexp' : all_unexpired now' p = true.
Hypothesis Hsip : ScmpReturn.src_ip_ok pp = true.

Notation n := (nhops p).
Notation macq := (macq_of mac).
Notation Hs := (Hshape mac t p HG).
Notation asof := (as_of t p).
Notation eff := (ForwardStep.eff p).
Notation in_rtr := (ForwardStep.in_rtr t p).
Notation eg_rtr := (ForwardStep.eg_rtr t p).
Notation ret_hop := (ScmpReturn.ret_hop p).

Lemma owner_nif k x : ScmpReturn.owner_of t (ia p k) x = ni_owner (nif_of t p k x).
Proof.
  unfold ScmpReturn.owner_of, nif_of, as_of.
  destruct (find_as t (ia p k)) as [a|]; [|reflexivity].
  destruct (find_nif (a_ifs a) x); reflexivity.
Qed.

Lemma eff_model k : ScmpReturn.eff p k = eff k.
Proof. reflexivity. Qed.

(** the hop of the ingress interface, seen from the hop whose egress interface is used *)
Lemma ret_hop_eff k : (S k < n)%nat -> (k = 0%nat \/ crosses p (k - 1) = true) -> ret_hop (eff k) = k.
Proof.
  intros Hk Ha. rewrite ret_hop_entry. unfold ForwardStep.eff.
  destruct (crosses p k) eqn:C; cbn [orb].
  - destruct Ha as [->|Cp].
    + destruct (ret_hop_le p 0). rewrite <- ret_hop_entry. lia.
    + destruct k as [|k']; [destruct (ret_hop_le p 0); rewrite <- ret_hop_entry; lia|].
      apply (entry_same mac t now p pp HG Hep Hexp); [lia|lia|exact Cp].
  - replace (Nat.eqb (S k) n) with false by (symmetry; apply Nat.eqb_neq; lia).
    now apply (entry_junction mac t now p pp HG Hep Hexp).
Qed.

Lemma revisit_prop kc : ScmpReturn.no_revisit p kc = true ->
  forall j, (j < ret_hop kc)%nat -> ia p j <> ia p kc.
Proof.
  unfold ScmpReturn.no_revisit. intros H j Hj. rewrite forallb_forall in H.
  specialize (H j ltac:(apply in_seq; lia)). apply negb_true_iff in H. now apply N.eqb_neq.
Qed.

Lemma pair_eqb_refl l : list_eqb pair_eqb l l = true.
Proof.
  induction l as [|[a b] l IH]; [reflexivity|]. cbn [list_eqb]. unfold pair_eqb at 1. cbn [fst snd].
  now rewrite !N.eqb_refl, IH.
Qed.

Lemma src_target pt : exists ip, reply_target pp (Some pt) = Some (ip, pt).
Proof.
  unfold reply_target. unfold ScmpReturn.src_ip_ok in Hsip.
  destruct (parse_host (pp_src_type pp) (pp_src_raw pp)) as [ip| |]; try discriminate.
  apply negb_true_iff in Hsip. rewrite Hsip. now exists ip.
Qed.

(** ** whatever the request: a router of the path that answers in the state "hop [kc] current,
    between the routers", at the location its kind of arrival says *)
Lemma oracle_core c ing req eg x r how ka kc l next qoff pt :
  (kc < n)%nat -> ing_how ing how ->
  RouterScmp.sp_pkt x = render p pp kc true ->
  RouterScmp.slow_path ScmpReturn.no_cmac c ing req eg x false 0 = RouterScmp.SReply r ->
  c_ia c = ia p kc ->
  (forall j, (j < ret_hop kc)%nat -> ia p j <> ia p kc) ->
  ScmpReturn.reply_port (RouterScmp.r_l4 r) next qoff = Some pt ->
  match how with
  | ScmpReturn.AHost => l = mkLoc (ia p kc) (l_rtr l) InInt /\ kc = 0%nat
  | ScmpReturn.AExt =>
    (1 <= ret_hop kc)%nat /\ crosses p (ret_hop kc - 1) = true /\
    l = mkLoc (ia p kc) (l_rtr l) (InExt (tr_in p (ret_hop kc))) /\ ing = l_ing l
  | ScmpReturn.ASib =>
    (S kc < n)%nat /\ crosses p kc = true /\ (1 <= ret_hop kc)%nat /\ crosses p (ret_hop kc - 1) = true /\
    in_rtr (ret_hop kc) <> eg_rtr kc /\
    l = mkLoc (ia p kc) (eg_rtr kc) (InSib (in_rtr (ret_hop kc) + 1))
  end ->
  ScmpReturn.c10_ok t p pp ScmpReturn.PNone ka kc how None next qoff l (RouterScmp.SReply r)
                    (ScmpReturn.go_back macq t now' l (RouterScmp.SReply r) next qoff) = true.
Proof.
  intros Hkc IH Ex MR Cia NR RP Hl.
  destruct (src_target pt) as [ip RT].
  assert (Hx : how = ScmpReturn.AExt -> (1 <= ret_hop kc)%nat /\ crosses p (ret_hop kc - 1) = true).
  { intros ->. destruct Hl as (A & B & _). auto. }
  destruct (reply_is_render mac t p pp HG _ c ing req eg x false 0%N r how kc None Hkc IH Hx Ex MR)
    as (lt & lraw & pay & _ & E).
  apply (f_equal p_dst_ia) in E as E1. apply (f_equal p_dst_type) in E as E2. apply (f_equal p_dst_raw) in E as E3.
  cbn in E1, E2, E3.
  unfold ScmpReturn.c10_ok. rewrite E1, E2, E3, !N.eqb_refl, (list_eqb_N_refl _). cbn [andb].
  assert (Hl' : match how with
                | ScmpReturn.AHost => l = mkLoc (ia p kc) (l_rtr l) InInt
                | ScmpReturn.AExt =>
                  (1 <= ret_hop kc)%nat /\ crosses p (ret_hop kc - 1) = true /\
                  l = mkLoc (ia p kc) (l_rtr l) (InExt (tr_in p (ret_hop kc))) /\ ing = l_ing l
                | ScmpReturn.ASib =>
                  (S kc < n)%nat /\ crosses p kc = true /\ (1 <= ret_hop kc)%nat /\ crosses p (ret_hop kc - 1) = true /\
                  in_rtr (ret_hop kc) <> eg_rtr kc /\
                  l = mkLoc (ia p kc) (eg_rtr kc) (InSib (in_rtr (ret_hop kc) + 1))
                end) by (destruct how; [now destruct Hl|exact Hl|exact Hl]).
  pose proof (answer_returns mac t p pp HG Hep now' Hexp' Hsip _ c ing req eg x false 0%N r how kc l next qoff pt
                (ip, pt) Hkc IH Ex MR Cia NR RP RT Hl') as AR.
  destruct how.
  - rewrite AR. destruct Hl as [_ ->]. rewrite <- (src_ia_first t p pp Hep). now rewrite N.eqb_refl.
  - destruct AR as (tr & rtr & -> & Cr). cbn [fst snd]. rewrite Cr, pair_eqb_refl, RP, RT.
    unfold delivered_to. cbn [snd fst]. now rewrite !N.eqb_refl, (list_eqb_N_refl _).
  - destruct AR as (tr & rtr & -> & Cr). cbn [fst snd]. rewrite Cr, pair_eqb_refl, RP, RT.
    unfold delivered_to. cbn [snd fst]. now rewrite !N.eqb_refl, (list_eqb_N_refl _).
Qed.

Lemma as_of_same k k2 : ia p k = ia p k2 -> asof k = asof k2.
Proof. intros E. unfold as_of. now rewrite E. Qed.

(** ** the egress interface of the router at the claimed position is down / unknown *)
Theorem oracle_fault hosts fia frt cf tc flow next qnext qoff ka kc how srt raw r pt :
  let fa := Some (fia, (frt, cf)) in
  ScmpReturn.pos_ok t p ka how = true -> (kc < n)%nat -> ScmpReturn.no_revisit p kc = true ->
  ScmpReturn.clean_fault t p ScmpReturn.PNone fa ka kc how = true ->
  let m := ScmpReturn.model_q macq t hosts now now' p pp ScmpReturn.PNone fa tc flow next qnext qoff srt raw in
  (exists res, ScmpReturn.m_stop m = Some (ScmpReturn.pos_loc t p ka how, ScmpReturn.pos_pkt p pp ka how, res)) ->
  ScmpReturn.m_reply m = RouterScmp.SReply r ->
  ScmpReturn.reply_port (RouterScmp.r_l4 r) qnext qoff = Some pt ->
  ScmpReturn.c10_ok t p pp ScmpReturn.PNone ka kc how None qnext qoff (ScmpReturn.pos_loc t p ka how)
                    (ScmpReturn.m_reply m) (ScmpReturn.m_back m) = true.
Proof.
  intros fa PO Hkc NR CF m MS MR RP.
  pose proof (n_ge2 _ _ _ HG) as N2.
  unfold m, ScmpReturn.model_q in MS, MR |- *. cbn [ScmpReturn.apply_pfault] in *.
  set (sent := render p pp 0 false) in *.
  set (w := ScmpReturn.run_x macq t fa now (fuel_for sent) (mkLoc (p_src_ia sent) srt InInt) sent) in *.
  destruct (snd w) as [f|l inp req eg out] eqn:W; [destruct MS as [? MS]; discriminate MS|].
  assert (Hw : w = (fst w, ScmpReturn.XSlow l inp req eg out)) by (rewrite <- W; now destruct w).
  destruct (run_x_slow _ _ _ _ _ _ _ _ _ _ _ _ _ Hw) as (a & Fa & Ia & P).
  rewrite Fa in MS, MR |- *. cbn [ScmpReturn.m_stop ScmpReturn.m_reply ScmpReturn.m_back] in *.
  destruct MS as [res MS]. injection MS as El Einp _. subst l inp.
  unfold ScmpReturn.clean_fault in CF. fold fa in CF. unfold fa in CF.
  apply andb_true_iff in CF as [CF Fe]. apply andb_true_iff in CF as [CF Frt].
  apply andb_true_iff in CF as [CF Fia]. apply andb_true_iff in CF as [Ekc Skc].
  apply Nat.eqb_eq in Ekc. apply Nat.ltb_lt in Skc. apply N.eqb_eq in Fe, Frt, Fia.
  assert (Fif : fault_if cf = tr_eg p kc) by (destruct cf; exact Fe).
  unfold ScmpReturn.pos_ok in PO. apply andb_true_iff in PO as [Hka PO]. apply Nat.ltb_lt in Hka.
  set (lp := ScmpReturn.pos_loc t p ka how) in *.
  assert (Ecfg : ScmpReturn.cfg_x fa a (l_rtr lp) = ScmpReturn.apply_cfault cf (cfg_of a (l_rtr lp))).
  { unfold ScmpReturn.cfg_x, fa. rewrite Ia, Fia, Frt, !N.eqb_refl. reflexivity. }
  rewrite Ecfg in P, MR |- *.
  assert (Hret : forall j, (j < ret_hop kc)%nat -> ia p j <> ia p kc) by now apply revisit_prop.
  assert (Ila : l_ia lp = ia p ka) by (unfold lp, ScmpReturn.pos_loc; destruct how; reflexivity).
  destruct (as_of_ok _ _ _ HG ka Hka) as [Aka Ika].
  rewrite Ila, Aka in Fa. injection Fa as <-.
  rewrite MR. unfold ScmpReturn.answer in MR.
  set (c := ScmpReturn.with_host (ScmpReturn.apply_cfault cf (cfg_of (asof ka) (l_rtr lp)))
                                 (ScmpReturn.host_of hosts (l_ia lp) (l_rtr lp))) in *.
  assert (Cia : c_ia c = ia p ka).
  { unfold c. cbn [ScmpReturn.with_host c_ia]. rewrite c_ia_fault. cbn [cfg_of c_ia]. exact Ika. }
  destruct how.
  - (* from the host *)
    apply Nat.eqb_eq in PO. subst ka.
    cbn [ScmpReturn.stop_hop] in Ekc. rewrite eff_model in Ekc.
    assert (E0 : eff 0 = 0%nat) by apply (eff_0 mac t now p pp HG Hep Hexp).
    rewrite E0 in Ekc. subst kc.
    assert (Er : l_rtr lp = eg_rtr (eff 0)).
    { unfold lp, ScmpReturn.pos_loc. cbn [l_rtr]. rewrite eff_model, E0, owner_nif. reflexivity. }
    pose proof (fault_arrive mac t now p pp HG Hep Hexp (render p pp 0 false) 0 InInt (l_rtr lp) cf
                  (view_render p pp n _ 0 false) ltac:(lia) (or_introl (conj eq_refl eq_refl))
                  (fun _ => Er) ltac:(now rewrite E0)) as FA.
    rewrite E0 in FA. unfold ScmpReturn.pos_pkt, lp, ScmpReturn.pos_loc in P. cbn [l_ing l_rtr] in P.
    unfold lp, ScmpReturn.pos_loc in FA. cbn [l_rtr] in FA.
    rewrite FA in P. injection P as <- <- <-.
    eapply (oracle_core c InInt _ _ _ r ScmpReturn.AHost 0 0 lp qnext qoff pt);
      [lia|exact I| |exact MR|exact Cia|exact Hret|exact RP|split; reflexivity].
    reflexivity.
  - (* from the previous AS *)
    apply andb_true_iff in PO as [K1 Cp]. apply Nat.leb_le in K1.
    cbn [ScmpReturn.stop_hop] in Ekc. rewrite eff_model in Ekc. subst kc.
    assert (Hk1 : (S ka < n)%nat).
    { unfold ForwardStep.eff in Skc. destruct (crosses p ka || Nat.eqb (S ka) n); lia. }
    assert (Er : l_rtr lp = in_rtr ka).
    { unfold lp, ScmpReturn.pos_loc. cbn [l_rtr]. now rewrite owner_nif. }
    pose proof (fault_arrive mac t now p pp HG Hep Hexp (render p pp ka false) ka (InExt (tr_in p ka)) (l_rtr lp) cf
                  (view_render p pp n _ ka false) Hk1 (or_intror (conj K1 (conj Cp eq_refl)))
                  ltac:(intros; lia) Fif) as FA.
    unfold ScmpReturn.pos_pkt in P. change (l_ing lp) with (InExt (tr_in p ka)) in P.
    rewrite FA in P. injection P as <- <- <-.
    pose proof (ret_hop_eff ka Hk1 (or_intror Cp)) as RE.
    pose proof (ret_hop_ia mac t p pp HG now' (eff ka) Hkc) as RI. rewrite RE in RI.
    eapply (oracle_core c (InExt (tr_in p ka)) _ _ _ r ScmpReturn.AExt ka (eff ka) lp qnext qoff pt);
      [exact Hkc|exact I| |exact MR|now rewrite <- RI|exact Hret|exact RP|].
    + reflexivity.
    + rewrite RE. split; [exact K1|]. split; [exact Cp|]. split; [|reflexivity].
      unfold lp, ScmpReturn.pos_loc. cbn [l_rtr]. now rewrite RI.
  - (* from the sibling router *)
    cbn [ScmpReturn.stop_hop] in Ekc. subst kc.
    apply andb_true_iff in PO as [PO Hne]. apply andb_true_iff in PO as [PO C0].
    apply andb_true_iff in PO as [PO K0]. apply andb_true_iff in PO as [Hk1 C].
    apply Nat.ltb_lt in Hk1. apply Nat.leb_le in K0.
    rewrite !owner_nif in Hne. apply negb_true_iff, N.eqb_neq in Hne.
    fold (in_rtr (ret_hop ka)) in Hne. fold (eg_rtr ka) in Hne.
    pose proof (ret_hop_ia mac t p pp HG now' ka Hka) as RI.
    assert (Elp : lp = mkLoc (ia p ka) (eg_rtr ka) (InSib (in_rtr (ret_hop ka) + 1))).
    { unfold lp, ScmpReturn.pos_loc. now rewrite !owner_nif. }
    pose proof (fault_mid mac t now p pp HG Hep Hexp (render p pp ka true) ka (ret_hop ka) cf
                  (view_render p pp n _ ka true) Hk1 C (eq_sym (ret_hop_entry p ka)) K0 C0
                  (as_of_same _ _ RI) Hne Fif) as FA.
    unfold ScmpReturn.pos_pkt in P. rewrite Elp in P. cbn [l_rtr l_ing] in P.
    rewrite FA in P. injection P as <- <- <-.
    eapply (oracle_core c (InSib (in_rtr (ret_hop ka) + 1)) _ _ _ r ScmpReturn.ASib ka ka lp qnext qoff pt);
      [exact Hkc|exact I| |exact MR|exact Cia|exact Hret|exact RP|].
    + reflexivity.
    + repeat split; assumption.
Qed.

End Oracle.
