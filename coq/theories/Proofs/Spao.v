(** Lemmas about Model/Spao.v: the zeroing of the mutable path fields written on
    bytes (as the Go code does it) equals a field-wise "serialize with the mutable
    fields left out"; the MAC input is then injective in every covered field. *)
From Coq Require Import List NArith Bool Arith Lia ZifyBool ZifyN ZifyNat.
From Scion Require Import Lib.Check Lib.Bytes Model.Spao.
Import ListNotations.
Import Spao.
Local Open Scope N_scope.

(** split a boolean conjunction in hypothesis [H] without unfolding definitions *)
Ltac split_andb H :=
  rewrite ?andb_true_iff in H;
  repeat match type of H with _ /\ _ => let H' := fresh "H" in destruct H as [H H'] end.

(** ------------------------------------------------------------------ lists *)
Lemma app_eq_len {A} (a a' b b' : list A) :
  length a = length a' -> a ++ b = a' ++ b' -> a = a' /\ b = b'.
Proof.
  revert a'. induction a as [|x a IH]; intros [|y a'] L E; cbn in *; try discriminate.
  - now split.
  - injection L as L. injection E as -> E. destruct (IH _ L E) as [-> ->]. now split.
Qed.

Lemma firstn_app_exact {A} (a b : list A) n : length a = n -> firstn n (a ++ b) = a.
Proof. intros <-. rewrite firstn_app, Nat.sub_diag, firstn_all. cbn. now rewrite app_nil_r. Qed.

Lemma skipn_app_exact {A} (a b : list A) n : length a = n -> skipn n (a ++ b) = b.
Proof. intros <-. rewrite skipn_app, Nat.sub_diag, skipn_all. reflexivity. Qed.

Lemma list_eqb_refl {A} (f : A -> A -> bool) : (forall x, f x x = true) -> forall l, list_eqb f l l = true.
Proof. intros H. induction l as [|x l IH]; cbn; [reflexivity|]. now rewrite H, IH. Qed.

Lemma list_eqb_length {A} (f : A -> A -> bool) l l' : list_eqb f l l' = true -> length l = length l'.
Proof.
  revert l'. induction l as [|x l IH]; intros [|y l'] E; cbn in *; try discriminate; [reflexivity|].
  apply andb_true_iff in E as [_ E]. f_equal. now apply IH.
Qed.

(** ------------------------------------------------------------------ arithmetic *)
Lemma land63 x : N.land x 63 = x mod 64.
Proof. change 63 with (N.ones 6). rewrite N.land_ones. reflexivity. Qed.

Lemma land3 x : N.land x 3 = x mod 4.
Proof. change 3 with (N.ones 2). rewrite N.land_ones. reflexivity. Qed.

Lemma be_len_eq k n m : length (be k n) = length (be k m).
Proof. now rewrite !be_length. Qed.

Lemma b2n_inj2 a b c d x y :
  x < 64 -> y < 64 ->
  x * 4 + b2n a * 2 + b2n b = y * 4 + b2n c * 2 + b2n d -> x = y /\ a = c /\ b = d.
Proof. intros Hx Hy. destruct a, b, c, d; cbn [b2n]; intros E; repeat split; try lia. Qed.

Lemma tc_known_false a b : tc_known a b = false -> a mod 4 = b mod 4 /\ a / 64 = b / 64.
Proof.
  unfold tc_known. intros H. apply negb_false_iff, andb_true_iff in H as [H1 H2].
  split; now apply N.eqb_eq.
Qed.

Lemma tc_spec_code_known a b : tc_known a b = false -> tc_spec a b = tc_code a b.
Proof.
  intros H. apply tc_known_false in H as [H1 H2]. unfold tc_spec, tc_code. rewrite !land63.
  pose proof (N.div_mod a 4 ltac:(discriminate)). pose proof (N.div_mod b 4 ltac:(discriminate)).
  pose proof (N.div_mod a 64 ltac:(discriminate)). pose proof (N.div_mod b 64 ltac:(discriminate)).
  destruct (a / 4 =? b / 4) eqn:E1; destruct (a mod 64 =? b mod 64) eqn:E2; try reflexivity; exfalso.
  - apply N.eqb_eq in E1. apply N.eqb_neq in E2. apply E2. assert (a = b) by lia. now subst.
  - apply N.eqb_neq in E1. apply N.eqb_eq in E2. apply E1. assert (a = b) by lia. now subst.
Qed.

(** ------------------------------------------------------------------
    Field-wise serialization with the mutable fields left out. *)
Definition flags_z (i : info) : N := (i_rsv i mod 64) * 4 + b2n (i_peer i) * 2 + b2n (i_consdir i).
Definition segs_z (m : meta) : N := (m_seg0 m mod 64) * 4096 + (m_seg1 m mod 64) * 64 + m_seg2 m mod 64.

Definition ser_info_z (i : info) : bytes := [flags_z i; i_rsv1 i mod 256; 0; 0] ++ be 4 (i_ts i).
Definition ser_hop_z (h : hop) : bytes :=
  [0; h_exp h mod 256] ++ be 2 (h_in h) ++ be 2 (h_eg h) ++ h_mac h.
Definition ser_scion_z (m : meta) (is : list info) (hs : list hop) : bytes :=
  (0 :: be 3 (segs_z m)) ++ flat_map ser_info_z is ++ flat_map ser_hop_z hs.

Definition path_z (p : path) : bytes :=
  match p with
  | PEmpty => []
  | PScion m is hs => ser_scion_z m is hs
  | POneHop i h1 _ => ser_info_z i ++ ser_hop_z h1 ++ repeat 0 12
  | PEpic ts ctr ph lh m is hs => be 4 ts ++ be 4 ctr ++ ph ++ lh ++ ser_scion_z m is hs
  end.

Definition mac6 (h : hop) : Prop := length (h_mac h) = 6%nat.

Lemma wf_hopb_mac6 h : wf_hopb h = true -> mac6 h.
Proof.
  unfold wf_hopb, mac6. intros H. split_andb H.
  now apply Nat.eqb_eq.
Qed.

Lemma ser_hop_split h rest : mac6 h ->
  exists b0 t, ser_hop h ++ rest = b0 :: t /\ firstn 11 t ++ skipn 11 t = t /\
               0 :: firstn 11 t = ser_hop_z h /\ skipn 11 t = rest.
Proof.
  unfold mac6. intros L. destruct (h_mac h) as [|m0 [|m1 [|m2 [|m3 [|m4 [|m5 [|? ?]]]]]]] eqn:E;
    try discriminate.
  unfold ser_hop, ser_hop_z. rewrite E. cbn [be app].
  eexists. eexists. split; [reflexivity|]. cbn [firstn skipn app]. repeat split.
Qed.

Lemma zero_hops_ok hs : forall rest, Forall mac6 hs ->
  zero_hops (length hs) (flat_map ser_hop hs ++ rest) = flat_map ser_hop_z hs ++ rest.
Proof.
  induction hs as [|h hs IH]; intros rest F; [reflexivity|].
  inversion F as [|? ? Hh Hhs]; subst.
  cbn [length flat_map zero_hops]. rewrite <- app_assoc.
  destruct (ser_hop_split h (flat_map ser_hop hs ++ rest) Hh) as (b0 & t & E & _ & Z & S).
  rewrite E. rewrite S, IH by assumption.
  change (0 :: firstn 11 t ++ (flat_map ser_hop_z hs ++ rest))
    with ((0 :: firstn 11 t) ++ (flat_map ser_hop_z hs ++ rest)).
  rewrite Z. now rewrite app_assoc.
Qed.

Lemma zero_infos_ok is : forall hs rest, Forall mac6 hs ->
  zero_infos (length is) (length hs) (flat_map ser_info is ++ flat_map ser_hop hs ++ rest)
  = flat_map ser_info_z is ++ flat_map ser_hop_z hs ++ rest.
Proof.
  induction is as [|i is IH]; intros hs rest F.
  - cbn [length flat_map zero_infos app]. now apply zero_hops_ok.
  - cbn [length flat_map zero_infos]. rewrite <- !app_assoc.
    unfold ser_info at 1. unfold ser_info_z at 1. cbn [be app firstn skipn].
    rewrite IH by assumption. reflexivity.
Qed.

Lemma wf_metab_zeroed m : wf_metab m = true -> zeroed_hops m = num_hops m.
Proof.
  unfold wf_metab, zeroed_hops, num_hops, num_inf. intros H.
  split_andb H.
  destruct (0 <? m_seg2 m) eqn:E2; [reflexivity|].
  destruct (0 <? m_seg1 m) eqn:E1; [lia|].
  destruct (0 <? m_seg0 m) eqn:E0; lia.
Qed.

Lemma forallb_wf_hop_mac6 hs : forallb wf_hopb hs = true -> Forall mac6 hs.
Proof.
  rewrite forallb_forall, Forall_forall. intros H x Hx. apply wf_hopb_mac6. now apply H.
Qed.

Lemma ser_meta_cons m : exists b0, ser_meta m = b0 :: be 3 (segs_z m).
Proof. unfold ser_meta, segs_z. eexists. reflexivity. Qed.

Lemma zero_scion_ok m is hs : wf_scionb m is hs = true ->
  zero_out_with_base m (ser_scion m is hs) = ser_scion_z m is hs.
Proof.
  unfold wf_scionb. intros H. split_andb H.
  unfold ser_scion, ser_scion_z. destruct (ser_meta_cons m) as [b0 ->].
  assert (Li : N.to_nat (num_inf m) = length is) by lia.
  assert (Lh : N.to_nat (num_hops m) = length hs) by lia.
  unfold zero_out_with_base. rewrite wf_metab_zeroed by assumption.
  cbn [be app firstn skipn]. rewrite Li, Lh.
  pose proof (zero_infos_ok is hs [] (forallb_wf_hop_mac6 hs ltac:(assumption))) as Z.
  rewrite !app_nil_r in Z. rewrite Z. reflexivity.
Qed.

Lemma zero_path_ok p : wf_pathb p = true -> zero_out_mutable_path p = path_z p.
Proof.
  destruct p as [|m is hs|i h1 h2|ts ctr ph lh m is hs]; cbn [wf_pathb]; intros H.
  - reflexivity.
  - now apply zero_scion_ok.
  - split_andb H.
    pose proof (wf_hopb_mac6 h1 ltac:(assumption)) as M1.
    pose proof (wf_hopb_mac6 h2 ltac:(assumption)) as M2. unfold mac6 in *.
    destruct (h_mac h1) as [|a0 [|a1 [|a2 [|a3 [|a4 [|a5 [|? ?]]]]]]] eqn:E1; try discriminate.
    destruct (h_mac h2) as [|c0 [|c1 [|c2 [|c3 [|c4 [|c5 [|? ?]]]]]]] eqn:E2; try discriminate.
    unfold zero_out_mutable_path, path_z, ser_path, ser_info, ser_hop, ser_info_z, ser_hop_z, flags_z.
    rewrite E1, E2. cbn [be app]. unfold splice. cbn [length Nat.add Nat.leb firstn skipn app repeat].
    reflexivity.
  - split_andb H.
    assert (Lp : length ph = 4%nat) by now apply Nat.eqb_eq.
    assert (Ll : length lh = 4%nat) by now apply Nat.eqb_eq.
    unfold zero_out_mutable_path, path_z, ser_path.
    replace (be 4 ts ++ be 4 ctr ++ ph ++ lh ++ ser_scion m is hs)
      with ((be 4 ts ++ be 4 ctr ++ ph ++ lh) ++ ser_scion m is hs) by now rewrite <- !app_assoc.
    rewrite firstn_app_exact, skipn_app_exact by (rewrite !app_length, !be_length; lia).
    rewrite zero_scion_ok by assumption. now rewrite <- !app_assoc.
Qed.

(** ------------------------------------------------------------------
    Injectivity of the field-wise serialization. *)
Local Opaque be.
Lemma be_app_inj k n m r r' :
  n < 256 ^ N.of_nat k -> m < 256 ^ N.of_nat k -> be k n ++ r = be k m ++ r' -> n = m /\ r = r'.
Proof.
  intros Hn Hm E. apply app_eq_len in E as [E1 E2]; [|apply be_len_eq].
  split; [now apply (be_inj k)|assumption].
Qed.

Lemma wf_infob_bounds oh i : wf_infob oh i = true ->
  i_rsv i < 64 /\ i_rsv1 i < 256 /\ i_segid i < 65536 /\ i_ts i < 4294967296.
Proof. unfold wf_infob. destruct oh; intros H; split_andb H; lia. Qed.

Lemma wf_hopb_bounds h : wf_hopb h = true ->
  h_exp h < 256 /\ h_in h < 65536 /\ h_eg h < 65536 /\ length (h_mac h) = 6%nat.
Proof.
  unfold wf_hopb. intros H. split_andb H.
  repeat split; lia.
Qed.

Lemma ser_info_z_inj oh i i' r r' : wf_infob oh i = true -> wf_infob oh i' = true ->
  ser_info_z i ++ r = ser_info_z i' ++ r' -> info_covb i i' = true /\ r = r'.
Proof.
  intros W W'. apply wf_infob_bounds in W as (B1 & B2 & _ & B4). apply wf_infob_bounds in W' as (C1 & C2 & _ & C4).
  unfold ser_info_z, flags_z. rewrite <- !app_assoc. intros E.
  apply app_eq_len in E as [E0 E]; [|reflexivity]. injection E0 as E0 E1. apply be_app_inj in E as [Ets Er]; [|cbn; lia|cbn; lia].
  rewrite !N.mod_small in E0, E1 by assumption.
  apply b2n_inj2 in E0 as (R & P & C); [|assumption|assumption].
  split; [|assumption]. unfold info_covb. rewrite R, P, C, E1, Ets, !N.eqb_refl, !Bool.eqb_reflx. reflexivity.
Qed.

Lemma ser_hop_z_inj h h' r r' : wf_hopb h = true -> wf_hopb h' = true ->
  ser_hop_z h ++ r = ser_hop_z h' ++ r' -> hop_covb h h' = true /\ r = r'.
Proof.
  intros W W'. apply wf_hopb_bounds in W as (B1 & B2 & B3 & B4). apply wf_hopb_bounds in W' as (C1 & C2 & C3 & C4).
  unfold ser_hop_z. rewrite <- !app_assoc. intros E.
  apply app_eq_len in E as [E1 E]; [|reflexivity]. injection E1 as E1. rewrite !N.mod_small in E1 by assumption.
  apply be_app_inj in E as [Ein E]; [|cbn; lia|cbn; lia].
  apply be_app_inj in E as [Eeg E]; [|cbn; lia|cbn; lia].
  apply app_eq_len in E as [Em Er]; [|congruence].
  split; [|assumption]. unfold hop_covb. rewrite E1, Ein, Eeg, Em, !N.eqb_refl. cbn.
  apply bytes_eqb_eq. reflexivity.
Qed.

Lemma infos_z_inj oh is : forall is' r r', length is = length is' ->
  forallb (wf_infob oh) is = true -> forallb (wf_infob oh) is' = true ->
  flat_map ser_info_z is ++ r = flat_map ser_info_z is' ++ r' ->
  list_eqb info_covb is is' = true /\ r = r'.
Proof.
  induction is as [|i is IH]; intros [|i' is'] r r' L W W' E; cbn in L; try discriminate.
  - cbn in *. now split.
  - cbn [flat_map forallb] in *. apply andb_true_iff in W as [Wi W]. apply andb_true_iff in W' as [Wi' W'].
    rewrite <- !app_assoc in E. apply (ser_info_z_inj oh) in E as [Ci E]; [|assumption|assumption].
    apply IH in E as [Cs Er]; [|lia|assumption|assumption].
    split; [|assumption]. cbn [list_eqb]. now rewrite Ci, Cs.
Qed.

Lemma hops_z_inj hs : forall hs' r r', length hs = length hs' ->
  forallb wf_hopb hs = true -> forallb wf_hopb hs' = true ->
  flat_map ser_hop_z hs ++ r = flat_map ser_hop_z hs' ++ r' ->
  list_eqb hop_covb hs hs' = true /\ r = r'.
Proof.
  induction hs as [|h hs IH]; intros [|h' hs'] r r' L W W' E; cbn in L; try discriminate.
  - cbn in *. now split.
  - cbn [flat_map forallb] in *. apply andb_true_iff in W as [Wi W]. apply andb_true_iff in W' as [Wi' W'].
    rewrite <- !app_assoc in E. apply ser_hop_z_inj in E as [Ci E]; [|assumption|assumption].
    apply IH in E as [Cs Er]; [|lia|assumption|assumption].
    split; [|assumption]. cbn [list_eqb]. now rewrite Ci, Cs.
Qed.

Lemma wf_metab_bounds m : wf_metab m = true -> m_seg0 m < 64 /\ m_seg1 m < 64 /\ m_seg2 m < 64.
Proof. unfold wf_metab. intros H. split_andb H. lia. Qed.

Lemma scion_z_inj m is hs m' is' hs' r r' :
  wf_scionb m is hs = true -> wf_scionb m' is' hs' = true ->
  ser_scion_z m is hs ++ r = ser_scion_z m' is' hs' ++ r' ->
  scion_covb m is hs m' is' hs' = true /\ r = r'.
Proof.
  unfold wf_scionb. intros W W'.
  split_andb W. split_andb W'.
  pose proof (wf_metab_bounds m W) as (B0 & B1 & B2). pose proof (wf_metab_bounds m' W') as (C0 & C1 & C2).
  unfold ser_scion_z. rewrite <- !app_assoc. cbn [app]. intros E.
  apply (f_equal (@tl N)) in E. cbn [tl] in E.
  apply be_app_inj in E as [Es E]; [|unfold segs_z; cbn; rewrite !N.mod_small by assumption; lia..].
  unfold segs_z in Es. rewrite !N.mod_small in Es by assumption.
  assert (S0 : m_seg0 m = m_seg0 m') by lia. assert (S1 : m_seg1 m = m_seg1 m') by lia.
  assert (S2 : m_seg2 m = m_seg2 m') by lia.
  assert (NI : num_inf m = num_inf m') by (unfold num_inf; now rewrite S0, S1, S2).
  assert (NH : num_hops m = num_hops m') by (unfold num_hops; now rewrite S0, S1, S2).
  apply (infos_z_inj false) in E as [Ci E]; [|lia|assumption|assumption].
  apply hops_z_inj in E as [Ch E]; [|lia|assumption|assumption].
  split; [|assumption]. unfold scion_covb, meta_covb. now rewrite S0, S1, S2, !N.eqb_refl, Ci, Ch.
Qed.

Lemma path_z_inj p p' r r' :
  wf_pathb p = true -> wf_pathb p' = true -> path_code p = path_code p' ->
  path_z p ++ r = path_z p' ++ r' -> path_covb p p' = true /\ r = r'.
Proof.
  destruct p as [|m is hs|i h1 h2|ts ctr ph lh m is hs];
    destruct p' as [|m' is' hs'|i' h1' h2'|ts' ctr' ph' lh' m' is' hs']; cbn [path_code];
    intros W W' C E; try discriminate.
  - cbn in *. now split.
  - cbn [wf_pathb path_z path_covb] in *. now apply scion_z_inj.
  - cbn [wf_pathb path_z path_covb] in *.
    split_andb W. split_andb W'.
    rewrite <- !app_assoc in E. apply (ser_info_z_inj true) in E as [Ci E]; [|assumption|assumption].
    apply ser_hop_z_inj in E as [Ch E]; [|assumption|assumption].
    apply app_eq_len in E as [_ E]; [|reflexivity]. now rewrite Ci, Ch.
  - cbn [wf_pathb path_z path_covb] in *.
    split_andb W. split_andb W'.
    rewrite <- !app_assoc in E.
    apply be_app_inj in E as [Ets E]; [|cbn; lia|cbn; lia].
    apply be_app_inj in E as [Ectr E]; [|cbn; lia|cbn; lia].
    assert (Lp : length ph = 4%nat) by now apply Nat.eqb_eq.
    assert (Lp' : length ph' = 4%nat) by now apply Nat.eqb_eq.
    assert (Ll : length lh = 4%nat) by now apply Nat.eqb_eq.
    assert (Ll' : length lh' = 4%nat) by now apply Nat.eqb_eq.
    apply app_eq_len in E as [Eph E]; [|congruence].
    apply app_eq_len in E as [Elh E]; [|congruence].
    apply scion_z_inj in E as [Cs E]; [|assumption|assumption].
    subst. rewrite !N.eqb_refl, Cs. cbn. split; [|reflexivity].
    rewrite !(proj2 (bytes_eqb_eq _ _) eq_refl). reflexivity.
Qed.

(** the converse: covered-equal paths have the same field-wise serialization *)
Lemma info_covb_ser i i' : info_covb i i' = true -> ser_info_z i = ser_info_z i'.
Proof.
  unfold info_covb. intros H. split_andb H.
  unfold ser_info_z, flags_z.
  repeat match goal with
         | H : (_ =? _) = true |- _ => apply N.eqb_eq in H
         | H : Bool.eqb _ _ = true |- _ => apply Bool.eqb_prop in H
         end. congruence.
Qed.

Lemma hop_covb_ser h h' : hop_covb h h' = true -> ser_hop_z h = ser_hop_z h'.
Proof.
  unfold hop_covb. intros H. split_andb H.
  unfold ser_hop_z.
  repeat match goal with
         | H : (_ =? _) = true |- _ => apply N.eqb_eq in H
         | H : bytes_eqb _ _ = true |- _ => apply bytes_eqb_eq in H
         end. congruence.
Qed.

Lemma list_covb_flat {A} (f : A -> A -> bool) (g : A -> bytes) :
  (forall x y, f x y = true -> g x = g y) ->
  forall l l', list_eqb f l l' = true -> flat_map g l = flat_map g l'.
Proof.
  intros H. induction l as [|x l IH]; intros [|y l'] E; cbn in *; try discriminate; [reflexivity|].
  apply andb_true_iff in E as [E1 E2]. now rewrite (H _ _ E1), (IH _ E2).
Qed.

Lemma meta_covb_eq m m' : meta_covb m m' = true ->
  m_seg0 m = m_seg0 m' /\ m_seg1 m = m_seg1 m' /\ m_seg2 m = m_seg2 m'.
Proof. unfold meta_covb. intros H. split_andb H. lia. Qed.

Lemma scion_covb_ser m is hs m' is' hs' :
  scion_covb m is hs m' is' hs' = true ->
  ser_scion_z m is hs = ser_scion_z m' is' hs' /\ scion_len m = scion_len m'.
Proof.
  unfold scion_covb. intros H. split_andb H.
  apply meta_covb_eq in H as (S0 & S1 & S2).
  unfold ser_scion_z, segs_z, scion_len, num_inf, num_hops. rewrite S0, S1, S2.
  rewrite (list_covb_flat _ _ info_covb_ser is is') by assumption.
  rewrite (list_covb_flat _ _ hop_covb_ser hs hs') by assumption. now split.
Qed.

Lemma path_covb_ser p p' : path_covb p p' = true ->
  path_z p = path_z p' /\ path_len p = path_len p' /\ path_code p = path_code p'.
Proof.
  destruct p as [|m is hs|i h1 h2|ts ctr ph lh m is hs];
    destruct p' as [|m' is' hs'|i' h1' h2'|ts' ctr' ph' lh' m' is' hs']; cbn [path_covb];
    intros H; try discriminate.
  - now repeat split.
  - apply scion_covb_ser in H as [H1 H2]. cbn [path_z path_len path_code]. now repeat split.
  - apply andb_true_iff in H as [Hi Hh]. cbn [path_z path_len path_code].
    now rewrite (info_covb_ser _ _ Hi), (hop_covb_ser _ _ Hh).
  - split_andb H.
    match goal with H : scion_covb _ _ _ _ _ _ = true |- _ => apply scion_covb_ser in H as [HZ HL] end.
    repeat match goal with
           | H : (_ =? _) = true |- _ => apply N.eqb_eq in H
           | H : bytes_eqb _ _ = true |- _ => apply bytes_eqb_eq in H
           end. subst.
    cbn [path_z path_len path_code]. rewrite HZ, HL. now repeat split.
Qed.

Lemma path_covb_ser_ok p p' : path_covb p p' = true -> path_ser_ok p = path_ser_ok p'.
Proof.
  destruct p as [|m is hs|i h1 h2|ts ctr ph lh m is hs];
    destruct p' as [|m' is' hs'|i' h1' h2'|ts' ctr' ph' lh' m' is' hs']; cbn [path_covb path_ser_ok];
    intros H; try discriminate; try reflexivity.
  split_andb H.
  repeat match goal with H : bytes_eqb _ _ = true |- _ => apply bytes_eqb_eq in H end. now subst.
Qed.

(** ------------------------------------------------------------------
    Packets. *)
Record pkt_wf_facts (p : pkt) : Prop := {
  f_version : p_version p < 16; f_tc : p_tc p < 256; f_flow : p_flow p < 1048576;
  f_pt : p_path_type p < 256;
  f_dt : p_dst_type p < 16; f_st : p_src_type p < 16;
  f_dia : p_dst_ia p < 18446744073709551616; f_sia : p_src_ia p < 18446744073709551616;
  f_dlen : N.of_nat (length (p_dst_host p)) = addr_len (p_dst_type p);
  f_slen : N.of_nat (length (p_src_host p)) = addr_len (p_src_type p);
  f_path : wf_pathb (p_path p) = true;
  f_alg : p_alg p < 256; f_ts : p_ts p < 281474976710656; f_l4 : p_l4 p < 256;
  f_plen : N.of_nat (length (p_pld p)) < 65536;
  f_hlen : hdr_len p <= 1020 }.

Lemma wf_pkt_facts p : wf_pktb p = true -> pkt_wf_facts p.
Proof.
  unfold wf_pktb. intros H. split_andb H.
  constructor; try lia; assumption.
Qed.

Lemma path_code_small p : path_code p < 256.
Proof. destruct p; cbn; lia. Qed.

Lemma wf_path_ser_ok p : wf_pathb p = true -> path_ser_ok p = true.
Proof.
  destruct p; cbn [wf_pathb path_ser_ok]; intros H; try reflexivity.
  split_andb H.
  apply andb_true_iff; split; assumption.
Qed.

Lemma wf_auth_result p k : wf_pktb p = true -> auth_result p k = Some (auth_hdr p k).
Proof.
  intros W. destruct (wf_pkt_facts p W). unfold auth_result.
  destruct (1020 <? hdr_len p) eqn:E; [lia|].
  now rewrite wf_path_ser_ok.
Qed.

Definition first_line_z (p : pkt) : N :=
  p_version p * 268435456 + (p_tc p mod 64) * 1048576 + p_flow p.

Lemma first_line_wf p : pkt_wf_facts p -> first_line p = first_line_z p /\ first_line_z p < 4294967296.
Proof.
  intros []. unfold first_line, first_line_z.
  rewrite land63, (N.mod_small (p_version p)), (N.mod_small (p_flow p)) by assumption.
  split; [reflexivity|]. pose proof (N.mod_lt (p_tc p) 64 ltac:(discriminate)). lia.
Qed.

Lemma addr_len_types a b : a < 16 -> b < 16 -> a = b -> addr_len a = addr_len b.
Proof. now intros _ _ ->. Qed.

(** frame direction: equal covered fields give equal MAC input *)
Lemma covb_auth_hdr k p p' :
  wf_pathb (p_path p) = true -> wf_pathb (p_path p') = true ->
  pkt_covb tc_code k p p' = true ->
  auth_hdr p k = auth_hdr p' k /\ p_pld p = p_pld p' /\ hdr_len p = hdr_len p'
  /\ path_ser_ok (p_path p) = path_ser_ok (p_path p').
Proof.
  intros W W' H. unfold pkt_covb in H. split_andb H.
  repeat match goal with
         | H : (_ =? _) = true |- _ => apply N.eqb_eq in H
         | H : bytes_eqb (p_pld _) _ = true |- _ => apply bytes_eqb_eq in H
         | H : tc_code _ _ = true |- _ => unfold tc_code in H
         end.
  match goal with H : path_covb _ _ = true |- _ =>
    pose proof (path_covb_ser_ok _ _ H) as Hok; apply path_covb_ser in H as (Hz & Hl & Hc) end.
  assert (HL : hdr_len p = hdr_len p') by (unfold hdr_len; congruence).
  repeat split; try assumption.
  unfold auth_hdr. rewrite !zero_path_ok by assumption. f_equal; [|f_equal; [|assumption]].
  - unfold fixed_part, first_line. congruence.
  - unfold addr_part.
    destruct (incl_ia k), (incl_dst k), (incl_src k); cbn [negb orb] in *;
      repeat match goal with
             | H : (_ && _) = true |- _ => apply andb_true_iff in H as [? ?]
             | H : (_ =? _) = true |- _ => apply N.eqb_eq in H
             | H : bytes_eqb _ _ = true |- _ => apply bytes_eqb_eq in H
             end; congruence.
Qed.

(** covers direction: equal MAC input gives equal covered fields *)
Lemma kind_consistentb_iff p p' : kind_consistentb p p' = true <-> kind_consistent p p'.
Proof.
  unfold kind_consistentb, kind_consistent. rewrite orb_true_iff, negb_true_iff, N.eqb_neq, N.eqb_eq.
  destruct (N.eq_dec (p_path_type p) (p_path_type p')); tauto.
Qed.

Lemma auth_input_inj k p p' :
  wf_pktb p = true -> wf_pktb p' = true -> kind_consistent p p' ->
  auth_input p k = auth_input p' k -> pkt_covb tc_code k p p' = true.
Proof.
  intros W W' KC E. pose proof (wf_pkt_facts p W) as F. pose proof (wf_pkt_facts p' W') as F'.
  destruct (first_line_wf p F) as [L1 L2]. destruct (first_line_wf p' F') as [L1' L2'].
  destruct F, F'.
  unfold auth_input, auth_hdr in E. rewrite !zero_path_ok in E by assumption.
  unfold fixed_part in E. rewrite L1, L1' in E. rewrite <- !app_assoc in E.
  apply app_eq_len in E as [E0 E]; [|reflexivity]. injection E0 as _ El4.
  apply be_app_inj in E as [Elen E]; [|cbn; lia|cbn; lia].
  apply app_eq_len in E as [E1 E]; [|reflexivity]. injection E1 as Ealg.
  apply be_app_inj in E as [Ets E]; [|cbn; lia|cbn; lia].
  apply be_app_inj in E as [Eline E]; [|cbn; lia|cbn; lia].
  apply app_eq_len in E as [E2 E]; [|reflexivity]. injection E2 as Ept Ety.
  rewrite !N.mod_small in El4, Ealg, Ept, Ety by assumption.
  unfold first_line_z in Eline.
  pose proof (N.mod_lt (p_tc p) 64 ltac:(discriminate)). pose proof (N.mod_lt (p_tc p') 64 ltac:(discriminate)).
  assert (Ev : p_version p = p_version p') by lia.
  assert (Etc : p_tc p mod 64 = p_tc p' mod 64) by lia.
  assert (Efl : p_flow p = p_flow p') by lia.
  assert (Edt : p_dst_type p = p_dst_type p') by lia.
  assert (Est : p_src_type p = p_src_type p') by lia.
  assert (Ldst : length (p_dst_host p) = length (p_dst_host p')) by (rewrite Edt in *; lia).
  assert (Lsrc : length (p_src_host p) = length (p_src_host p')) by (rewrite Est in *; lia).
  assert (Epc : path_code (p_path p) = path_code (p_path p')) by (apply KC; exact Ept).
  unfold pkt_covb, tc_code. rewrite !land63.
  rewrite Ev, Etc, Efl, Ept, Edt, Est, Ealg, Ets, El4, !N.eqb_refl. cbn [andb].
  unfold addr_part in E. rewrite <- !app_assoc in E.
  assert (Eaddr :
    (negb (incl_ia k) || (p_dst_ia p =? p_dst_ia p') && (p_src_ia p =? p_src_ia p')) = true /\
    (negb (incl_dst k) || bytes_eqb (p_dst_host p) (p_dst_host p')) = true /\
    (negb (incl_src k) || bytes_eqb (p_src_host p) (p_src_host p')) = true /\
    path_z (p_path p) ++ p_pld p = path_z (p_path p') ++ p_pld p').
  { destruct (incl_ia k); cbn [negb orb].
    - rewrite <- !app_assoc in E.
      apply be_app_inj in E as [Ed E]; [|cbn; lia|cbn; lia].
      apply be_app_inj in E as [Es E]; [|cbn; lia|cbn; lia].
      rewrite Ed, Es, !N.eqb_refl. cbn [andb]. split; [reflexivity|].
      destruct (incl_dst k); cbn [negb orb].
      + apply app_eq_len in E as [Edh E]; [|assumption]. rewrite Edh.
        split; [now apply bytes_eqb_eq|].
        destruct (incl_src k); cbn [negb orb].
        * apply app_eq_len in E as [Esh E]; [|assumption]. rewrite Esh.
          split; [now apply bytes_eqb_eq|assumption].
        * cbn [app] in E. now split.
      + cbn [app] in E. split; [reflexivity|].
        destruct (incl_src k); cbn [negb orb].
        * apply app_eq_len in E as [Esh E]; [|assumption]. rewrite Esh.
          split; [now apply bytes_eqb_eq|assumption].
        * cbn [app] in E. now split.
    - cbn [app] in E. split; [reflexivity|].
      destruct (incl_dst k); cbn [negb orb].
      + apply app_eq_len in E as [Edh E]; [|assumption]. rewrite Edh.
        split; [now apply bytes_eqb_eq|].
        destruct (incl_src k); cbn [negb orb].
        * apply app_eq_len in E as [Esh E]; [|assumption]. rewrite Esh.
          split; [now apply bytes_eqb_eq|assumption].
        * cbn [app] in E. now split.
      + cbn [app] in E. split; [reflexivity|].
        destruct (incl_src k); cbn [negb orb].
        * apply app_eq_len in E as [Esh E]; [|assumption]. rewrite Esh.
          split; [now apply bytes_eqb_eq|assumption].
        * cbn [app] in E. now split. }
  destruct Eaddr as (A1 & A2 & A3 & Ep). rewrite A1, A2, A3. cbn [andb].
  apply path_z_inj in Ep as [Cp Epld]; [|assumption..].
  rewrite Cp, Epld. cbn [andb]. now apply bytes_eqb_eq.
Qed.

(** both directions together, for well-formed packets *)
Lemma auth_input_frame k p p' :
  wf_pktb p = true -> wf_pktb p' = true ->
  pkt_covb tc_code k p p' = true -> auth_input p k = auth_input p' k.
Proof.
  intros W W' H. destruct (wf_pkt_facts p W), (wf_pkt_facts p' W').
  destruct (covb_auth_hdr k p p') as (E1 & E2 & _); try assumption.
  unfold auth_input. now rewrite E1, E2.
Qed.

Lemma auth_input_iff k p p' :
  wf_pktb p = true -> wf_pktb p' = true -> kind_consistent p p' ->
  (auth_input p k = auth_input p' k <-> pkt_covb tc_code k p p' = true).
Proof.
  intros W W' KC. split; [now apply auth_input_inj|].
  intros H. destruct (wf_pkt_facts p W), (wf_pkt_facts p' W').
  destruct (covb_auth_hdr k p p') as (E1 & E2 & _); try assumption.
  unfold auth_input. now rewrite E1, E2.
Qed.

(** replacing the traffic-class relation *)
Lemma pkt_covb_tcrel (r1 r2 : N -> N -> bool) k p p' :
  r1 (p_tc p) (p_tc p') = r2 (p_tc p) (p_tc p') -> pkt_covb r1 k p p' = pkt_covb r2 k p p'.
Proof. unfold pkt_covb. now intros ->. Qed.

Lemma pkt_covb_spec_code k p p' :
  tc_known (p_tc p) (p_tc p') = false -> pkt_covb tc_spec k p p' = pkt_covb tc_code k p p'.
Proof. intros H. apply pkt_covb_tcrel. now apply tc_spec_code_known. Qed.

(** the oracle on the model's own observations *)
Lemma pair_oracle_model (mac : bytes -> bytes) k p p' :
  (forall x y, mac x = mac y -> x = y) ->
  tc_known (p_tc p) (p_tc p') = false ->
  pair_oracle k p p' (auth_result p k) (auth_result p' k)
              (bytes_eqb (mac (auth_input p k)) (mac (auth_input p' k))) = true.
Proof.
  intros Hinj K. unfold pair_oracle.
  destruct (wf_pktb p) eqn:W; [|reflexivity]. destruct (wf_pktb p') eqn:W'; [|reflexivity]. cbn [andb].
  destruct (kind_consistentb p p') eqn:KC; [|reflexivity]. apply kind_consistentb_iff in KC.
  rewrite !wf_auth_result by assumption. fold (auth_input p k). fold (auth_input p' k).
  rewrite (pkt_covb_spec_code k p p' K).
  destruct (pkt_covb tc_code k p p') eqn:C.
  - apply (auth_input_iff k p p' W W' KC) in C. rewrite C.
    rewrite !(proj2 (bytes_eqb_eq _ _) eq_refl). reflexivity.
  - assert (N1 : auth_input p k <> auth_input p' k).
    { intros E. apply (auth_input_iff k p p' W W' KC) in E. congruence. }
    assert (B1 : bytes_eqb (auth_input p k) (auth_input p' k) = false).
    { destruct (bytes_eqb _ _) eqn:B; [|reflexivity]. apply bytes_eqb_eq in B. contradiction. }
    assert (B2 : bytes_eqb (mac (auth_input p k)) (mac (auth_input p' k)) = false).
    { destruct (bytes_eqb (mac _) _) eqn:B; [|reflexivity]. apply bytes_eqb_eq in B. apply Hinj in B. contradiction. }
    now rewrite B1, B2.
Qed.

(** ------------------------------------------------------------------
    [pkt_covb] decides [pkt_cov]. *)
Lemma list_eqb_Forall2 {A} (f : A -> A -> bool) (P : A -> A -> Prop) :
  (forall x y, f x y = true <-> P x y) ->
  forall l l', list_eqb f l l' = true <-> Forall2 P l l'.
Proof.
  intros H. induction l as [|x l IH]; intros [|y l']; cbn; split; intros E;
    try discriminate; try constructor; try solve [inversion E].
  - apply andb_true_iff in E as [E1 E2]. now apply H.
  - apply andb_true_iff in E as [E1 E2]. now apply IH.
  - inversion E; subst. apply andb_true_iff. split; [now apply H|now apply IH].
Qed.

Lemma info_covb_iff i i' : info_covb i i' = true <-> info_cov i i'.
Proof.
  unfold info_covb, info_cov. rewrite !andb_true_iff, !N.eqb_eq, !Bool.eqb_true_iff. tauto.
Qed.

Lemma hop_covb_iff h h' : hop_covb h h' = true <-> hop_cov h h'.
Proof.
  unfold hop_covb, hop_cov. rewrite !andb_true_iff, !N.eqb_eq, bytes_eqb_eq. tauto.
Qed.

Lemma scion_covb_iff m is hs m' is' hs' :
  scion_covb m is hs m' is' hs' = true <-> scion_cov m is hs m' is' hs'.
Proof.
  unfold scion_covb, scion_cov, meta_covb.
  rewrite !andb_true_iff, !N.eqb_eq, (list_eqb_Forall2 _ _ info_covb_iff), (list_eqb_Forall2 _ _ hop_covb_iff).
  tauto.
Qed.

Lemma path_covb_iff p p' : path_covb p p' = true <-> path_cov p p'.
Proof.
  destruct p, p'; cbn [path_covb path_cov]; try (split; [discriminate|contradiction]).
  - tauto.
  - apply scion_covb_iff.
  - rewrite andb_true_iff, info_covb_iff, hop_covb_iff. tauto.
  - rewrite !andb_true_iff, !N.eqb_eq, !bytes_eqb_eq, scion_covb_iff. tauto.
Qed.

Lemma pkt_covb_iff (rb : N -> N -> bool) (rp : N -> N -> Prop) k p p' :
  (rb (p_tc p) (p_tc p') = true <-> rp (p_tc p) (p_tc p')) ->
  (pkt_covb rb k p p' = true <-> pkt_cov rp k p p').
Proof.
  intros Htc. unfold pkt_covb, pkt_cov.
  rewrite !andb_true_iff, !orb_true_iff, !negb_true_iff, !andb_true_iff, !N.eqb_eq, !bytes_eqb_eq,
    path_covb_iff, Htc.
  destruct (incl_ia k), (incl_dst k), (incl_src k); intuition (try discriminate; try congruence).
Qed.

Lemma tc_spec_iff a b : tc_spec a b = true <-> dscp_eq a b.
Proof. unfold tc_spec, dscp_eq. apply N.eqb_eq. Qed.

Lemma tc_code_iff a b : tc_code a b = true <-> mask3f_eq a b.
Proof. unfold tc_code, mask3f_eq. apply N.eqb_eq. Qed.

Lemma pkt_covb_spec_iff k p p' : pkt_covb tc_spec k p p' = true <-> pkt_cov dscp_eq k p p'.
Proof. apply pkt_covb_iff, tc_spec_iff. Qed.

Lemma pkt_covb_code_iff k p p' : pkt_covb tc_code k p p' = true <-> pkt_cov mask3f_eq k p p'.
Proof. apply pkt_covb_iff, tc_code_iff. Qed.
