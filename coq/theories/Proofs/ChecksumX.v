(** Lemmas about Model/ChecksumX.v (C20): region-free single-bit detection on the serialized
    bytes (checksum field included), the length word, and the extra oracle on the model. *)
From Coq Require Import List Arith NArith ZArith Bool Lia ZifyBool ZifyN ZifyNat.
From Scion Require Import Lib.Check Lib.Bytes Model.Checksum Proofs.Checksum Model.ChecksumX.
Import ListNotations.
Import Checksum.
Import ChecksumX.
Local Open Scope N_scope.

Ltac Zify.zify_post_hook ::= Z.div_mod_to_equations.

(** any bit of any byte of the written upper layer, the two checksum bytes included *)
Lemma any_flip_detected h l payload b p j :
  wf_hdr h -> wf_l4 l -> wf_bytes payload -> small payload -> serialize h l payload = Ok b ->
  (p < length b)%nat -> j < 8 ->
  exists s, verify_sum h (N.of_nat (length b)) (flip_bit b p j) (proto_of l) = Ok s /\ s <> 65535.
Proof.
  intros WH WL WP SM SER P J.
  destruct (serialize_eq h l payload b WH WL WP SM SER) as (_ & _ & _ & _ & WB & BB & _ & _).
  pose proof (proto_range l) as [P0 P1].
  set (n := N.of_nat (length b)) in *.
  assert (Hn : n < 2 ^ 32) by (unfold n, bounded in *; change (2 ^ 32) with 4294967296; lia).
  assert (WB' : wf_bytes (flip_bit b p j)) by (now apply flip_bit_wf).
  assert (BB' : bounded (flip_bit b p j)) by (unfold bounded in *; rewrite flip_bit_length; exact BB).
  pose proof (serialize_verifies h l payload b WH WL WP SM SER) as VER. fold n in VER.
  assert (NE : verify_sum h n (flip_bit b p j) (proto_of l) <> verify_sum h n b (proto_of l)).
  { apply (single_bit_covered h n b (proto_of l) h n (flip_bit b p j) (proto_of l)
             (length (pseudo_bytes h n (proto_of l)) + p) j); try assumption.
    - rewrite covered_eq, app_length. lia.
    - rewrite !covered_eq. symmetry. apply flip_bit_app_r. }
  rewrite (verify_exact h n _ _ WH Hn P1 WB' BB') in *. rewrite VER in NE.
  eexists. split; [reflexivity|]. intros X. apply NE. now rewrite X.
Qed.

(** any of the 32 bits of the upper-layer length in the pseudo header *)
Lemma len_flip_detected h l payload b i :
  wf_hdr h -> wf_l4 l -> wf_bytes payload -> small payload -> serialize h l payload = Ok b -> i < 32 ->
  exists s, verify_sum h (N.lxor (N.of_nat (length b)) (2 ^ i)) b (proto_of l) = Ok s /\ s <> 65535.
Proof.
  intros WH WL WP SM SER Hi.
  destruct (serialize_eq h l payload b WH WL WP SM SER) as (_ & _ & _ & _ & WB & BB & _ & _).
  pose proof (proto_range l) as [P0 P1].
  set (n := N.of_nat (length b)) in *.
  assert (Hn : n < 2 ^ 32) by (unfold n, bounded in *; change (2 ^ 32) with 4294967296; lia).
  assert (Hn' : N.lxor n (2 ^ i) < 2 ^ 32) by (now apply lxor_lt_pow2).
  pose proof (serialize_verifies h l payload b WH WL WP SM SER) as VER. fold n in VER.
  assert (E4 : be 4 (N.lxor n (2 ^ i)) = flip_bit (be 4 n) (3 - N.to_nat (i / 8)) (i mod 8)).
  { rewrite be_lxor. destruct (N.ltb_spec (i / 8) (N.of_nat 4)); [reflexivity|lia]. }
  assert (NE : verify_sum h (N.lxor n (2 ^ i)) b (proto_of l) <> verify_sum h n b (proto_of l)).
  { apply (single_bit_covered h n b (proto_of l) h (N.lxor n (2 ^ i)) b (proto_of l)
             (length (be 8 (dst_ia h) ++ be 8 (src_ia h) ++ raw_dst h ++ raw_src h) + (3 - N.to_nat (i / 8)))
             (i mod 8)); try assumption.
    - unfold covered. rewrite !app_length, !be_length. cbn [length]. lia.
    - apply N.mod_lt. discriminate.
    - unfold covered. rewrite E4.
      assert (A : forall X, be 8 (dst_ia h) ++ be 8 (src_ia h) ++ raw_dst h ++ raw_src h ++ X =
                            (be 8 (dst_ia h) ++ be 8 (src_ia h) ++ raw_dst h ++ raw_src h) ++ X).
      { intros X. now rewrite <- !app_assoc. }
      rewrite !A. apply flip_mid. rewrite be_length. lia. }
  rewrite (verify_exact h _ b _ WH Hn' P1 WB BB) in *. rewrite VER in NE.
  eexists. split; [reflexivity|]. intros X. apply NE. now rewrite X.
Qed.

Lemma bits_for_lt ilen n i : (0 < n)%nat -> In i (bits_for ilen n) -> i < N.of_nat n.
Proof.
  intros Hn. unfold bits_for. destruct (ilen <=? 512).
  - intros H. apply in_map_iff in H as (k & <- & H). apply in_seq in H. lia.
  - intros [<-|[<-|[]]]; lia.
Qed.

Lemma extra_oracle_model h l payload b :
  wf_hdr h -> wf_l4 l -> wf_bytes payload -> small payload -> serialize h l payload = Ok b ->
  extra_oracle h l 0 (N.of_nat (length b)) b = true.
Proof.
  intros WH WL WP SM SER. unfold extra_oracle.
  destruct (_ && _ && _ && _ && _); [|reflexivity].
  destruct (serialize_eq h l payload b WH WL WP SM SER) as (EB & _).
  apply andb_true_iff. split; apply forallb_forall; intros i IN.
  - apply bits_for_lt in IN; [|lia]. change (N.of_nat 32) with 32 in IN.
    unfold len_flip_ok.
    destruct (len_flip_detected h l payload b i WH WL WP SM SER IN) as (s & -> & NE).
    destruct (N.eqb_spec s 65535); [contradiction|reflexivity].
  - apply bits_for_lt in IN; [|lia]. change (N.of_nat 16) with 16 in IN.
    unfold ck_flip_ok.
    assert (P : (N.to_nat (prelen l + i / 8) < length b)%nat).
    { rewrite EB, !app_length, be_length. pose proof (pre_length l (N.of_nat (length payload))). lia. }
    assert (J : i mod 8 < 8) by (apply N.mod_lt; discriminate).
    destruct (any_flip_detected h l payload b _ _ WH WL WP SM SER P J) as (s & -> & NE).
    destruct (N.eqb_spec s 65535); [contradiction|reflexivity].
Qed.
