(** Lemmas about filterDuplicates / filterLongPaths (Model/Combinator.v) and
    generic facts on minima and order-preserving filters. *)
From Coq Require Import List NArith Bool Arith Lia Sorted.
From Scion Require Import Lib.Check Model.Segment Model.CombSpec Model.Combinator Proofs.CombinatorGraph.
Import ListNotations.
Import Segment Combinator.
Local Open Scope N_scope.

(** ---- equality tests ---- *)
Lemma iface_eqb_eq a b : iface_eqb a b = true <-> a = b.
Proof.
  destruct a as [a1 a2], b as [b1 b2]. unfold iface_eqb. cbn.
  rewrite andb_true_iff, !N.eqb_eq. split; [intros [-> ->]; reflexivity | intros E; inversion E; auto].
Qed.

Lemma ifs_eqb_eq a b : ifs_eqb a b = true <-> a = b.
Proof. apply list_eqb_eq. apply iface_eqb_eq. Qed.

Lemma ifs_eqb_refl a : ifs_eqb a a = true.
Proof. now apply ifs_eqb_eq. Qed.

Lemma ifs_eqb_neq a b : ifs_eqb a b = false <-> a <> b.
Proof.
  split.
  - intros E H. apply ifs_eqb_eq in H. congruence.
  - intros H. destruct (ifs_eqb a b) eqn:E; [|reflexivity]. apply ifs_eqb_eq in E. contradiction.
Qed.

(** ---- minima ---- *)
Lemma fold_min_le {A} (f : A -> N) l : forall m,
  fold_left (fun m x => N.min m (f x)) l m <= m.
Proof.
  induction l as [|x l IH]; intros m; cbn; [lia|]. specialize (IH (N.min m (f x))). lia.
Qed.

Lemma fold_min_le_in {A} (f : A -> N) l : forall m x, In x l ->
  fold_left (fun m x => N.min m (f x)) l m <= f x.
Proof.
  induction l as [|y l IH]; intros m x H; cbn; [destruct H|].
  destruct H as [->|H].
  - pose proof (fold_min_le f l (N.min m (f x))). lia.
  - now apply IH.
Qed.

Lemma fold_min_attained {A} (f : A -> N) l : forall m,
  fold_left (fun m x => N.min m (f x)) l m = m \/
  exists x, In x l /\ fold_left (fun m x => N.min m (f x)) l m = f x.
Proof.
  induction l as [|y l IH]; intros m; cbn; [now left|].
  destruct (IH (N.min m (f y))) as [E|[x [Hx E]]].
  - rewrite E. destruct (N.min_spec m (f y)) as [[_ ->]|[_ ->]]; [now left|].
    right. exists y. split; [now left | reflexivity].
  - right. exists x. split; [now right | exact E].
Qed.

(** ---- order-preserving selections of an enumerated list ---- *)
Lemma enum_cons {A} (x : A) l :
  enum (x :: l) = (O, x) :: map (fun ip => (S (fst ip), snd ip)) (enum l).
Proof.
  unfold enum. cbn [length seq List.combine]. f_equal.
  rewrite <- seq_shift. generalize (seq 0 (length l)). intros s. revert s.
  induction l as [|y l IH]; intros [|a s]; cbn; try reflexivity. now rewrite IH.
Qed.

Lemma select_in {A} (f : nat * A -> bool) (l : list A) x :
  In x (map snd (filter f (enum l))) -> In x l.
Proof.
  intros H. apply in_map_iff in H as [[i y] [<- H]]. apply filter_In in H as [H _].
  apply in_enum in H. cbn. eapply nth_error_In; exact H.
Qed.

Lemma select_sorted {A} (R : A -> A -> Prop) (l : list A) : forall (f : nat * A -> bool),
  StronglySorted R l -> StronglySorted R (map snd (filter f (enum l))).
Proof.
  induction l as [|x l IH]; intros f H; [constructor|].
  inversion H as [|? ? Hs Hx]; subst. rewrite enum_cons. cbn [filter].
  assert (E : map snd (filter f (map (fun ip => (S (fst ip), snd ip)) (enum l))) =
              map snd (filter (fun ip => f (S (fst ip), snd ip)) (enum l))).
  { generalize (enum l). intros e. induction e as [|[i y] e IHe]; cbn; [reflexivity|].
    destruct (f (S i, y)); cbn; now rewrite IHe. }
  destruct (f (O, x)); cbn [map snd].
  - constructor.
    + rewrite E. now apply IH.
    + rewrite E. rewrite Forall_forall. intros y Hy. apply select_in in Hy.
      rewrite Forall_forall in Hx. now apply Hx.
  - rewrite E. now apply IH.
Qed.

Lemma filter_sorted {A} (R : A -> A -> Prop) (f : A -> bool) l :
  StronglySorted R l -> StronglySorted R (filter f l).
Proof.
  induction 1 as [|x l Hs IH Hx]; cbn; [constructor|].
  destruct (f x); [|exact IH]. constructor; [exact IH|].
  rewrite Forall_forall in *. intros y Hy. apply filter_In in Hy as [Hy _]. now apply Hx.
Qed.

Lemma map_sorted {A B} (R : A -> A -> Prop) (S : B -> B -> Prop) (g : A -> B) l :
  (forall a b, R a b -> S (g a) (g b)) -> StronglySorted R l -> StronglySorted S (map g l).
Proof.
  intros HR. induction 1 as [|x l Hs IH Hx]; cbn; constructor; [exact IH|].
  rewrite Forall_forall in *. intros y Hy. apply in_map_iff in Hy as [a [<- Ha]]. apply HR. now apply Hx.
Qed.

(** ---- the fingerprint map ---- *)
Lemma dm_get_set_same k v m : dm_get k (dm_set k v m) = Some v.
Proof.
  induction m as [|[k' v'] m IH]; cbn.
  - now rewrite ifs_eqb_refl.
  - destruct (ifs_eqb k k') eqn:E; cbn; rewrite E; [reflexivity | exact IH].
Qed.

Lemma dm_get_set_other k k2 v m : k2 <> k -> dm_get k2 (dm_set k v m) = dm_get k2 m.
Proof.
  intros N. induction m as [|[k' v'] m IH]; cbn.
  - apply ifs_eqb_neq in N. now rewrite N.
  - destruct (ifs_eqb k k') eqn:E; cbn.
    + apply ifs_eqb_eq in E. subst k'. apply ifs_eqb_neq in N. now rewrite N.
    + destruct (ifs_eqb k2 k'); [reflexivity | exact IH].
Qed.

(** what the map records after a prefix [pre] of the enumerated paths *)
Definition dm_inv (m : dmap) (pre : list (nat * path)) : Prop :=
  forall k,
    match dm_get k m with
    | None => forall j q, In (j, q) pre -> p_ifs q <> k
    | Some (i, x) =>
      exists p, In (i, p) pre /\ p_ifs p = k /\ p_exp p = x /\
                forall j q, In (j, q) pre -> p_ifs q = k -> p_exp q <= x
    end.

Lemma dm_step_inv m pre i p : dm_inv m pre -> dm_inv (dm_step m (i, p)) (pre ++ [(i, p)]).
Proof.
  intros Hinv k. unfold dm_step.
  destruct (ifs_eqb k (p_ifs p)) eqn:Ek;
    [apply ifs_eqb_eq in Ek; subst k | apply ifs_eqb_neq in Ek; rename Ek into Nk].
  2:{ (* another key: unchanged *)
    assert (G : dm_get k (dm_step m (i, p)) = dm_get k m).
    { unfold dm_step. destruct (dm_get (p_ifs p) m) as [[j x]|].
      - destruct (x <? p_exp p); [now apply dm_get_set_other | reflexivity].
      - now apply dm_get_set_other. }
    unfold dm_step in G. rewrite G. specialize (Hinv k). destruct (dm_get k m) as [[j x]|].
    - destruct Hinv as [p0 [H1 [H2 [H3 H4]]]]. exists p0. split; [apply in_or_app; now left|].
      repeat split; try assumption. intros j' q Hq Hk. apply in_app_or in Hq as [Hq|[Hq|[]]].
      + eapply H4; eassumption.
      + inversion Hq; subst. congruence.
    - intros j q Hq. apply in_app_or in Hq as [Hq|[Hq|[]]]; [eapply Hinv; eassumption|]. inversion Hq; subst. congruence. }
  (* the key of p *)
  specialize (Hinv (p_ifs p)). destruct (dm_get (p_ifs p) m) as [[j x]|] eqn:G.
  - destruct Hinv as [p0 [H1 [H2 [H3 H4]]]]. destruct (x <? p_exp p) eqn:L.
    + rewrite dm_get_set_same. apply N.ltb_lt in L. exists p. split; [apply in_or_app; right; now left|].
      repeat split; try reflexivity. intros j' q Hq Hk. apply in_app_or in Hq as [Hq|[Hq|[]]].
      * specialize (H4 _ _ Hq Hk). lia.
      * inversion Hq; subst. lia.
    + rewrite G. apply N.ltb_ge in L. exists p0. split; [apply in_or_app; now left|].
      repeat split; try assumption. intros j' q Hq Hk. apply in_app_or in Hq as [Hq|[Hq|[]]].
      * eapply H4; eassumption.
      * inversion Hq; subst. exact L.
  - rewrite dm_get_set_same. exists p. split; [apply in_or_app; right; now left|].
    repeat split; try reflexivity. intros j' q Hq Hk. apply in_app_or in Hq as [Hq|[Hq|[]]].
    + exfalso. eapply Hinv; eauto.
    + inversion Hq; subst. lia.
Qed.

Lemma dm_fold_inv l : forall m pre, dm_inv m pre -> dm_inv (fold_left dm_step l m) (pre ++ l).
Proof.
  induction l as [|[i p] l IH]; intros m pre H; cbn; [now rewrite app_nil_r|].
  replace (pre ++ (i, p) :: l) with ((pre ++ [(i, p)]) ++ l) by now rewrite <- app_assoc.
  apply IH. now apply dm_step_inv.
Qed.

Lemma dm_of_inv ps : dm_inv (dm_of ps) (enum ps).
Proof.
  unfold dm_of. apply (dm_fold_inv (enum ps) [] []). intros k. cbn. intros j q [].
Qed.

(** ---- filterDuplicates ---- *)
Lemma filter_dups_in ps p : In p (filter_dups ps) -> In p ps.
Proof. unfold filter_dups. apply select_in. Qed.

Lemma filter_dups_sorted (R : path -> path -> Prop) ps :
  StronglySorted R ps -> StronglySorted R (filter_dups ps).
Proof. unfold filter_dups. apply select_sorted. Qed.

Lemma enum_fst_nodup {A} (l : list A) : NoDup (map fst (enum l)).
Proof.
  unfold enum. assert (E : forall s (l : list A), map fst (List.combine (seq s (length l)) l) = seq s (length l)).
  { clear. intros s l. revert s. induction l as [|x l IH]; intros s; cbn; [reflexivity | now rewrite IH]. }
  rewrite E. apply seq_NoDup.
Qed.

Lemma filter_dups_nodup ps : NoDup (map p_ifs (filter_dups ps)).
Proof.
  unfold filter_dups. set (m := dm_of ps).
  set (keep := fun ip : nat * path => match dm_get (p_ifs (snd ip)) m with
                                    | Some (j, _) => Nat.eqb (fst ip) j | None => false end).
  pose proof (enum_fst_nodup ps) as ND. revert ND. generalize (enum ps). intros l.
  induction l as [|[i p] l IH]; intros ND; cbn [filter map]; [constructor|].
  inversion ND as [|? ? Hni ND']; subst.
  destruct (keep (i, p)) eqn:K; [|now apply IH]. cbn [map snd]. constructor; [|now apply IH].
  intros Hin. apply in_map_iff in Hin as [q [Eq Hq]]. apply in_map_iff in Hq as [[j q'] [<- Hq]].
  apply filter_In in Hq as [Hq Kq]. cbn in Eq. unfold keep in K, Kq. cbn [fst snd] in K, Kq.
  rewrite Eq in Kq. destruct (dm_get (p_ifs p) m) as [[j0 x]|]; [|discriminate].
  apply Nat.eqb_eq in K, Kq. subst. apply Hni. apply in_map_iff. exists (j0, q'). auto.
Qed.

Lemma filter_dups_max ps p q :
  In p (filter_dups ps) -> In q ps -> p_ifs q = p_ifs p -> p_exp q <= p_exp p.
Proof.
  unfold filter_dups. intros Hp Hq E.
  apply in_map_iff in Hp as [[i p'] [<- Hp]]. apply filter_In in Hp as [Hp K]. cbn [fst snd] in *.
  pose proof (dm_of_inv ps (p_ifs p')) as I. destruct (dm_get (p_ifs p') (dm_of ps)) as [[j x]|]; [|discriminate].
  apply Nat.eqb_eq in K. subst j. destruct I as [p0 [H1 [H2 [H3 H4]]]].
  apply in_enum in H1, Hp. rewrite Hp in H1. inversion H1; subst p0.
  apply In_nth_error in Hq as [n Hn]. apply in_enum in Hn. rewrite H3. eapply H4; eauto.
Qed.

Lemma filter_dups_represents ps q :
  In q ps -> exists p, In p (filter_dups ps) /\ p_ifs p = p_ifs q.
Proof.
  intros Hq. apply In_nth_error in Hq as [n Hn]. apply in_enum in Hn.
  pose proof (dm_of_inv ps (p_ifs q)) as I. destruct (dm_get (p_ifs q) (dm_of ps)) as [[j x]|] eqn:G.
  - destruct I as [p [H1 [H2 _]]]. exists p. split; [|exact H2].
    unfold filter_dups. apply in_map_iff. exists (j, p). split; [reflexivity|].
    apply filter_In. split; [exact H1|]. cbn [fst snd]. rewrite H2, G. apply Nat.eqb_refl.
  - exfalso. eapply I; eauto.
Qed.

(** ---- filterLongPaths ---- *)
Lemma is_long_false ifs : is_long ifs = false <-> no_as_thrice ifs.
Proof.
  unfold is_long, no_as_thrice. split.
  - intros H ia. destruct (le_lt_dec (count_ia ia ifs) 2) as [L|L]; [exact L|]. exfalso.
    assert (Hex : exists x, In x ifs /\ fst x = ia).
    { unfold count_ia in L. destruct (filter (fun x => fst x =? ia) ifs) as [|x t] eqn:F; [cbn in L; lia|].
      assert (Hx : In x (filter (fun x => fst x =? ia) ifs)) by (rewrite F; now left).
      apply filter_In in Hx as [Hx E]. apply N.eqb_eq in E. eauto. }
    destruct Hex as [x [Hx <-]].
    assert (T : existsb (fun x => (2 <? count_ia (fst x) ifs)%nat) ifs = true).
    { apply existsb_exists. exists x. split; [exact Hx|]. apply Nat.ltb_lt. exact L. }
    congruence.
  - intros H. destruct (existsb (fun x => (2 <? count_ia (fst x) ifs)%nat) ifs) eqn:E; [|reflexivity].
    apply existsb_exists in E as [x [_ L]]. apply Nat.ltb_lt in L. specialize (H (fst x)). lia.
Qed.
