(** Lemmas about Model/SegVerify.v. *)
From Coq Require Import List NArith ZArith Bool Lia.
From Scion Require Import Lib.Check Lib.Bytes Lib.PBWire Model.Signed Proofs.Signed Model.SegVerify.
Import ListNotations.
Import Signed SegVerify.
Local Open Scope N_scope.

Lemma pairs_app a b : pairs (a ++ b) = pairs a ++ pairs b.
Proof. unfold pairs. now rewrite flat_map_app. Qed.

Lemma concat_pairs_cons e t : concat (pairs (e :: t)) = e_hb e ++ e_sig e ++ concat (pairs t).
Proof. unfold pairs. cbn [flat_map app concat]. reflexivity. Qed.

Lemma concat_pairs_app a b : concat (pairs (a ++ b)) = concat (pairs a) ++ concat (pairs b).
Proof. now rewrite pairs_app, concat_app. Qed.

(** the byte string entry [e] is verified against: entry || info || earlier entries and signatures *)
Definition raw (info : bytes) (earlier : list entry) (e : entry) : bytes :=
  e_hb e ++ concat (assoc info earlier).

Lemma raw_eq info earlier e : raw info earlier e = e_hb e ++ info ++ concat (pairs earlier).
Proof. reflexivity. Qed.

Section Engine.
  Variable PK : Type.
  Variable sig_valid : PK -> bytes -> bytes -> bool.
  Variable hash : N -> bytes -> bytes.
  Variable kind : PK -> N.
  Variable notify : N -> N -> N -> bool.
  Variable certs_for : N -> bytes -> validity -> option (list PK).

  Notation tverify := (trust_verify PK sig_valid hash kind notify certs_for).
  Notation vfrom := (verify_from PK sig_valid hash kind notify certs_for).
  Notation vseg := (verify_segment PK sig_valid hash kind notify certs_for).
  Notation sverify := (verify PK bytes sig_valid hash kind parse_hb).

  (** digest of a pre-hash byte string under algorithm [a] *)
  Definition dig (a : N) (x : bytes) : bytes := if hash_of a =? 0 then x else hash (hash_of a) x.

  Lemma sig_input_dig a hb ad : sig_input hash a hb ad = dig a (hb ++ concat ad).
  Proof. reflexivity. Qed.

  (** What it means for one entry to be properly signed: the conditions of
      trust.Verifier.Verify and signed.Verify, spelled out. *)
  Definition entry_ok (info : bytes) (ts : Z) (earlier : list entry) (e : entry) : Prop :=
    exists h body kid keys pk,
      parse_hb (e_hb e) = Some (h, body) /\
      parse_keyid (h_keyid h) = Some kid /\
      k_skid kid <> [] /\
      (e_local e = 0 \/ e_local e = k_ia kid) /\
      is_wildcard (k_ia kid) = false /\
      notify (isd_of (k_ia kid)) (k_base kid) (k_serial kid) = true /\
      certs_for (k_ia kid) (k_skid kid) (entry_validity ts e) = Some keys /\
      In pk keys /\
      ad_len (assoc info earlier) = h_adlen h /\
      check_algo (h_algo h) (kind pk) = true /\
      sig_valid pk (dig (h_algo h) (raw info earlier e)) (e_sig e) = true.

  Lemma sverify_ok_iff hb sg pk ad :
    is_ok (sverify (mkmsg hb sg) (Some pk) ad) = true <->
    exists h body, parse_hb hb = Some (h, body) /\ ad_len ad = h_adlen h /\
                   check_algo (h_algo h) (kind pk) = true /\
                   sig_valid pk (dig (h_algo h) (hb ++ concat ad)) sg = true.
  Proof.
    unfold verify. cbn [m_hb m_sig]. split.
    - destruct (parse_hb hb) as [[h body]|]; [|discriminate].
      destruct (ad_len ad =? h_adlen h)%Z eqn:E1; cbn [negb]; [|discriminate].
      destruct (check_algo (h_algo h) (kind pk)) eqn:E2; cbn [negb]; [|discriminate].
      destruct (sig_valid pk _ sg) eqn:E3; [|discriminate].
      intros _. exists h, body. repeat split; auto. now apply Z.eqb_eq.
    - intros (h & body & P & L & A & S). rewrite P, L, Z.eqb_refl. cbn [negb]. rewrite A. cbn [negb].
      rewrite sig_input_dig, S. reflexivity.
  Qed.

  Lemma trust_verify_iff info ts earlier e :
    tverify (e_local e) (entry_validity ts e) (e_hb e) (e_sig e) (assoc info earlier) = true
    <-> entry_ok info ts earlier e.
  Proof.
    unfold trust_verify, entry_ok. split.
    - destruct (parse_hb (e_hb e)) as [[h body]|] eqn:P; [|discriminate].
      destruct (parse_keyid (h_keyid h)) as [kid|] eqn:K; [|discriminate].
      destruct (k_skid kid) as [|x t] eqn:Sk; [discriminate|].
      destruct (negb (e_local e =? 0) && negb (e_local e =? k_ia kid)) eqn:B; [discriminate|].
      destruct (is_wildcard (k_ia kid)) eqn:W; [discriminate|].
      destruct (notify _ _ _) eqn:Nt; cbn [negb]; [|discriminate].
      destruct (certs_for _ _ _) as [keys|] eqn:C; [|discriminate].
      rewrite existsb_exists. intros (pk & Hin & Hv).
      apply sverify_ok_iff in Hv. destruct Hv as (h' & body' & P' & L & A & S).
      rewrite P in P'. inversion P'; subst h' body'.
      exists h, body, kid, keys, pk. rewrite Sk. repeat split; auto; try discriminate.
      apply andb_false_iff in B. destruct B as [B|B]; apply negb_false_iff, N.eqb_eq in B; auto.
    - intros (h & body & kid & keys & pk & P & K & Sk & B & W & Nt & C & Hin & L & A & S).
      rewrite P, K. destruct (k_skid kid) as [|x t] eqn:Esk; [contradiction|].
      assert (HB : negb (e_local e =? 0) && negb (e_local e =? k_ia kid) = false).
      { destruct B as [B|B]; rewrite B.
        - reflexivity.
        - rewrite N.eqb_refl. cbn. now rewrite andb_false_r. }
      rewrite HB, W, Nt. cbn [negb]. rewrite C. rewrite existsb_exists. exists pk. split; [exact Hin|].
      apply sverify_ok_iff. exists h, body. repeat split; auto.
  Qed.

  (** the verification of the entry after a prefix [A] *)
  Lemma verify_from_decomp info ts : forall A earlier e S,
    vfrom info ts earlier (A ++ e :: S) = true ->
    tverify (e_local e) (entry_validity ts e) (e_hb e) (e_sig e) (assoc info (earlier ++ A)) = true.
  Proof.
    induction A as [|a A IH]; intros earlier e S H; cbn [app verify_from] in H.
    - apply andb_true_iff in H as [H _]. now rewrite app_nil_r.
    - apply andb_true_iff in H as [_ H]. apply IH in H. now rewrite <- app_assoc in H.
  Qed.

  Lemma verify_from_all info ts : forall es earlier,
    (forall A e S, es = A ++ e :: S ->
       tverify (e_local e) (entry_validity ts e) (e_hb e) (e_sig e) (assoc info (earlier ++ A)) = true) ->
    vfrom info ts earlier es = true.
  Proof.
    induction es as [|x t IH]; intros earlier H; [reflexivity|].
    cbn [verify_from]. apply andb_true_iff. split.
    - specialize (H [] x t eq_refl). now rewrite app_nil_r in H.
    - apply IH. intros A e S E. specialize (H (x :: A) e S). rewrite <- app_assoc. apply H.
      now rewrite E.
  Qed.

  (** C24 prefix: dropping trailing entries keeps the segment verifiable *)
  Lemma verify_from_prefix info ts : forall A B earlier,
    vfrom info ts earlier (A ++ B) = true -> vfrom info ts earlier A = true.
  Proof.
    induction A as [|a A IH]; intros B earlier H; [reflexivity|].
    cbn [app verify_from] in *. apply andb_true_iff in H as [H1 H2].
    apply andb_true_iff. split; [exact H1|]. eapply IH; eauto.
  Qed.

  Lemma verify_segment_prefix info ts A B :
    vseg (mkseg info ts (A ++ B)) = true -> vseg (mkseg info ts A) = true.
  Proof. unfold verify_segment. cbn [s_info s_ts s_entries]. apply verify_from_prefix. Qed.

  (** C24 sound and complete *)
  Lemma sound_complete s :
    vseg s = true <->
    forall A e S, s_entries s = A ++ e :: S -> entry_ok (s_info s) (s_ts s) A e.
  Proof.
    unfold verify_segment. split.
    - intros H A e S E. rewrite E in H. apply verify_from_decomp in H. cbn [app] in H.
      now apply trust_verify_iff.
    - intros H. apply verify_from_all. intros A e S E. cbn [app]. apply trust_verify_iff. eauto.
  Qed.

  (** ---------------------------------------------------------------- tampering, reduction form *)

  (** an honest signing record: key [sk] signed header-and-body [hb] with
      associated data [ad] under algorithm [a] *)
  Variable SK : Type.
  Variable sign_with : SK -> bytes -> bytes.
  Variable pub : SK -> PK.
  Record record := mkrec { r_sk : SK; r_algo : N; r_hb : bytes; r_ad : list bytes }.
  Definition r_raw (r : record) : bytes := r_hb r ++ concat (r_ad r).
  Definition r_triple (r : record) : PK * bytes * bytes :=
    (pub (r_sk r), dig (r_algo r) (r_raw r), sign_with (r_sk r) (dig (r_algo r) (r_raw r))).

  Definition dig_collision (a a' : N) (x x' : bytes) : Prop := x <> x' /\ dig a x = dig a' x'.

  (** In a segment that verifies, every entry is accepted under a key certified
      for its ISD-AS and validity; and if the accepted (key, digest, signature)
      triple is one that an honest signer produced (no forgery), then — unless two
      different byte strings collide under the hash — the signer signed exactly
      the bytes entry || info || earlier entries and signatures that this entry
      is verified against. *)
  Lemma tamper_reduction (H : list record) s :
    vseg s = true ->
    forall A e S, s_entries s = A ++ e :: S ->
      exists h body kid keys pk,
        parse_hb (e_hb e) = Some (h, body) /\ parse_keyid (h_keyid h) = Some kid /\
        certs_for (k_ia kid) (k_skid kid) (entry_validity (s_ts s) e) = Some keys /\ In pk keys /\
        sig_valid pk (dig (h_algo h) (raw (s_info s) A e)) (e_sig e) = true /\
        forall r, In r H ->
          (pk, dig (h_algo h) (raw (s_info s) A e), e_sig e) = r_triple r ->
          dig_collision (h_algo h) (r_algo r) (raw (s_info s) A e) (r_raw r)
          \/ raw (s_info s) A e = r_raw r.
  Proof.
    intros V A e S E. apply sound_complete with (A := A) (e := e) (S := S) in V; [|exact E].
    destruct V as (h & body & kid & keys & pk & P & K & _ & _ & _ & _ & C & Hin & _ & _ & Sv).
    exists h, body, kid, keys, pk. repeat split; auto.
    intros r Hr T. inversion T as [[T1 T2 T3]].
    destruct (list_eq_dec N.eq_dec (raw (s_info s) A e) (r_raw r)) as [Eq|Ne]; [now right|].
    left. split; assumption.
  Qed.

  (** ---------------------------------------------------------------- tampering, idealised world *)

  (** [s] was built honestly: entry [i] carries the signature of [sks_i] over
      the digest (under the entry's own algorithm) of raw_i *)
  Definition algo_of (e : entry) : N :=
    match parse_hb (e_hb e) with Some (h, _) => h_algo h | None => 0 end.

  Definition honest (s : segment) (sks : list SK) : Prop :=
    length sks = length (s_entries s) /\
    forall A e S sk, s_entries s = A ++ e :: S -> nth_error sks (length A) = Some sk ->
      hash_of (algo_of e) <> 0 /\
      e_sig e = sign_with sk (dig (algo_of e) (raw (s_info s) A e)).

  (** no forgeries: whatever [sig_valid] accepts was produced for an entry of [s] *)
  Definition unforgeable (s : segment) (sks : list SK) : Prop :=
    forall pk d sg, sig_valid pk d sg = true ->
      exists A e S sk, s_entries s = A ++ e :: S /\ nth_error sks (length A) = Some sk /\
                       pk = pub sk /\ d = dig (algo_of e) (raw (s_info s) A e) /\ sg = e_sig e.

  Definition collision_free : Prop :=
    forall a a' x x', hash_of a <> 0 -> hash_of a' <> 0 -> dig a x = dig a' x' -> x = x'.

  (** honest PKI: whatever is certified for the ISD-AS of entry [i] is the key of signer [i] *)
  Definition pki_honest (s : segment) (sks : list SK) : Prop :=
    forall A e S sk, s_entries s = A ++ e :: S -> nth_error sks (length A) = Some sk ->
      e_local e <> 0 /\
      forall skid v keys pk, certs_for (e_local e) skid v = Some keys -> In pk keys -> pk = pub sk.

  Lemma nth_error_decomp {T} (l : list T) (A : list T) x S : l = A ++ x :: S -> nth_error l (length A) = Some x.
  Proof. intros ->. rewrite nth_error_app2 by lia. now rewrite Nat.sub_diag. Qed.

  Lemma decomp_unique {T} (A A' : list T) x x' S S' :
    A ++ x :: S = A' ++ x' :: S' -> length A = length A' -> A = A' /\ x = x' /\ S = S'.
  Proof.
    revert A'. induction A as [|a A IH]; intros [|a' A'] E L; cbn in *; try discriminate.
    - inversion E. auto.
    - inversion E; subst. destruct (IH A' H1) as (-> & -> & ->); [lia|]. auto.
  Qed.

  Lemma check_algo_hash a k : check_algo a k = true -> hash_of a <> 0.
  Proof.
    unfold check_algo, hash_of, algo_details.
    destruct a as [|[[|[]|]|[|[]|]|]]; intros H; try discriminate; cbn; discriminate.
  Qed.

  (** Core: an entry [e'] of some segment [s'] that claims the ISD-AS of the
      honest entry [e] of [s], but is verified against other bytes or carries
      another signature, makes [s'] fail — when there are no forgeries and no
      collisions, signer keys are pairwise different and the PKI is honest. *)
  Lemma tamper_core s sks s' A e S A' e' S' :
    honest s sks -> unforgeable s sks -> collision_free -> pki_honest s sks ->
    NoDup (map pub sks) ->
    s_entries s = A ++ e :: S ->
    s_entries s' = A' ++ e' :: S' ->
    e_local e' = e_local e ->
    (raw (s_info s') A' e' <> raw (s_info s) A e \/ e_sig e' <> e_sig e) ->
    vseg s' = false.
  Proof.
    intros [Hlen Hh] Hu Hc Hp Hnd E E' Hloc Hdiff.
    destruct (vseg s') eqn:V; [|reflexivity]. exfalso.
    apply sound_complete with (A := A') (e := e') (S := S') in V; [|exact E'].
    destruct V as (h & body & kid & keys & pk & P & K & _ & B & _ & _ & C & Hin & _ & Al & Sv).
    assert (Hsk : exists sk, nth_error sks (length A) = Some sk).
    { destruct (nth_error sks (length A)) as [sk|] eqn:En; [eauto|].
      apply nth_error_None in En. rewrite Hlen, E, app_length in En. cbn in En. lia. }
    destruct Hsk as [sk Hsk].
    destruct (Hp A e S sk E Hsk) as [Hnz Hpk].
    (* the accepted key is the key of signer i *)
    assert (Ekia : k_ia kid = e_local e).
    { destruct B as [B|B]; [rewrite Hloc in B; contradiction|]. now rewrite <- B, Hloc. }
    rewrite Ekia in C. specialize (Hpk _ _ _ _ C Hin). subst pk.
    (* no forgery: the accepted triple belongs to some entry i0 of s *)
    destruct (Hu _ _ _ Sv) as (A0 & e0 & S0 & sk0 & E0 & Hsk0 & Epk & Ed & Esg).
    (* distinct keys: i0 = i *)
    assert (Hidx : length A0 = length A).
    { assert (N1 : nth_error (map pub sks) (length A0) = Some (pub sk0)) by (now apply map_nth_error).
      assert (N2 : nth_error (map pub sks) (length A) = Some (pub sk)) by (now apply map_nth_error).
      rewrite <- Epk in N1.
      eapply (proj1 (NoDup_nth_error (map pub sks)) Hnd); [|now rewrite N1, N2].
      apply nth_error_Some. now rewrite N1. }
    rewrite E in E0. destruct (decomp_unique _ _ _ _ _ _ E0 (eq_sym Hidx)) as (EA & Ee & ES). subst A0 e0 S0.
    destruct Hdiff as [Hd|Hd]; [|now apply Hd].
    apply Hd. eapply Hc; [| |exact Ed].
    - eapply check_algo_hash; eauto.
    - exact (proj1 (Hh A e S sk E Hsk)).
  Qed.
End Engine.

(** ------------------------------------------------------------------
    How the mutation classes change the byte string an entry is verified against. *)
Definition fl (x : entry) : bytes := e_hb x ++ e_sig x.

Lemma cp_mid A x B : concat (pairs (A ++ x :: B)) = concat (pairs A) ++ fl x ++ concat (pairs B).
Proof. rewrite concat_pairs_app, concat_pairs_cons. unfold fl. now rewrite <- app_assoc. Qed.

Lemma raw_info_diff info info' X e : info' <> info -> raw info' X e <> raw info X e.
Proof.
  intros D E. rewrite !raw_eq in E. apply app_inv_head in E. apply app_inv_tail in E. contradiction.
Qed.

Lemma raw_own_hb info X e e' : e_hb e' <> e_hb e -> raw info X e' <> raw info X e.
Proof. intros D E. rewrite !raw_eq in E. apply app_inv_tail in E. contradiction. Qed.

Lemma raw_earlier_replaced info A x x' B e :
  fl x' <> fl x -> raw info (A ++ x' :: B) e <> raw info (A ++ x :: B) e.
Proof.
  intros D E. rewrite !raw_eq, !cp_mid in E. do 3 apply app_inv_head in E.
  apply app_inv_tail in E. contradiction.
Qed.

Lemma app_self_nil {T} (a b : list T) : b = a ++ b -> a = [].
Proof.
  intros E. assert (L : length b = length (a ++ b)) by now rewrite <- E.
  rewrite app_length in L. destruct a; [reflexivity|cbn in L; lia].
Qed.

Lemma raw_earlier_removed info A x B e :
  fl x <> [] -> raw info (A ++ B) e <> raw info (A ++ x :: B) e.
Proof.
  intros D E. rewrite !raw_eq, cp_mid, concat_pairs_app in E. do 3 apply app_inv_head in E.
  apply app_self_nil in E. contradiction.
Qed.

Lemma raw_earlier_inserted info A x B e :
  fl x <> [] -> raw info (A ++ x :: B) e <> raw info (A ++ B) e.
Proof. intros D E. symmetry in E. revert E. now apply raw_earlier_removed. Qed.

(** ------------------------------------------------------------------
    A lookup cache in front of a pure engine (trust.Verifier.getChains).
    The cache returns what the engine would return if and only if its key
    determines the query. *)
Section Cache.
  Variables Q K R : Type.
  Variable engine : Q -> R.
  Variable key : Q -> K.
  Variable keqb : K -> K -> bool.
  Hypothesis keqb_eq : forall a b, keqb a b = true <-> a = b.

  Definition cache := list (K * R).
  Definition lookup (c : cache) (k : K) : option R :=
    match find (fun p => keqb (fst p) k) c with Some p => Some (snd p) | None => None end.
  Definition get (c : cache) (q : Q) : R * cache :=
    match lookup c (key q) with
    | Some r => (r, c)
    | None => let r := engine q in (r, (key q, r) :: c)
    end.
  (** every cached value is the engine's answer to a query with that key *)
  Definition cache_ok (c : cache) : Prop :=
    forall k r, In (k, r) c -> exists q, key q = k /\ engine q = r.

  Fixpoint run (c : cache) (qs : list Q) : list R * cache :=
    match qs with
    | [] => ([], c)
    | q :: t => let (r, c1) := get c q in let (rs, c2) := run c1 t in (r :: rs, c2)
    end.

  Lemma lookup_in c k r : lookup c k = Some r -> In (k, r) c.
  Proof.
    unfold lookup. destruct (find _ c) as [[k' r']|] eqn:F; [|discriminate].
    intros E. inversion E; subst. apply find_some in F as [Hin Hk]. cbn in Hk.
    apply keqb_eq in Hk. now subst.
  Qed.

  Lemma get_ok c q : cache_ok c -> cache_ok (snd (get c q)).
  Proof.
    intros Hc. unfold get. destruct (lookup c (key q)); cbn [snd]; [exact Hc|].
    intros k r [E|Hin]; [inversion E; subst; eauto|now apply Hc].
  Qed.

  Lemma get_transparent c q :
    (forall q1 q2, key q1 = key q2 -> q1 = q2) -> cache_ok c -> fst (get c q) = engine q.
  Proof.
    intros Inj Hc. unfold get. destruct (lookup c (key q)) as [r|] eqn:L; cbn [fst]; [|reflexivity].
    apply lookup_in in L. destruct (Hc _ _ L) as (q' & Ek & Er). apply Inj in Ek. now subst.
  Qed.

  Lemma run_transparent :
    (forall q1 q2, key q1 = key q2 -> q1 = q2) ->
    forall qs c, cache_ok c -> fst (run c qs) = map engine qs.
  Proof.
    intros Inj. induction qs as [|q t IH]; intros c Hc; [reflexivity|].
    cbn [run map]. destruct (get c q) as [r c1] eqn:G.
    destruct (run c1 t) as [rs c2] eqn:Rn. cbn [fst].
    assert (r = engine q) by (change r with (fst (r, c1)); rewrite <- G; now apply get_transparent).
    assert (cache_ok c1) by (change c1 with (snd (r, c1)); rewrite <- G; now apply get_ok).
    subst r. f_equal. change rs with (fst (rs, c2)). rewrite <- Rn. now apply IH.
  Qed.
End Cache.

(** ------------------------------------------------------------------
    The decision procedure [spec_segment] (the property, index by index) agrees
    with the model of the control flow on segments whose struct fields are the
    ones the bytes say. *)
Lemma forallb_ext_in {T} (f g : T -> bool) l :
  (forall x, In x l -> f x = g x) -> forallb f l = forallb g l.
Proof.
  induction l as [|x t IH]; intros H; [reflexivity|]. cbn [forallb].
  rewrite (H x (or_introl eq_refl)), IH; [reflexivity|]. intros y Hy. apply H. now right.
Qed.

Section Concrete.
  Variable pki : list cert.
  Variable trcs : list trc.
  Variable tbl : tbl_t.

  Notation tv := (trust_verify key (sig_valid_c tbl) hash_c kind_c (notify_c trcs) (certs_for_c pki)).
  Notation vf := (verify_from key (sig_valid_c tbl) hash_c kind_c (notify_c trcs) (certs_for_c pki)).

  Definition tv_at (info : bytes) (ts : Z) (all : list entry) (i : nat) : bool :=
    match nth_error all i with
    | Some e => tv (e_local e) (entry_validity ts e) (e_hb e) (e_sig e) (assoc info (firstn i all))
    | None => false
    end.

  Lemma verify_from_index info ts : forall es earlier,
    vf info ts earlier es
    = forallb (tv_at info ts (earlier ++ es)) (seq (length earlier) (length es)).
  Proof.
    induction es as [|e t IH]; intros earlier; [reflexivity|].
    cbn [verify_from length seq forallb]. f_equal.
    - unfold tv_at. rewrite nth_error_app2 by lia. rewrite Nat.sub_diag. cbn [nth_error].
      rewrite firstn_app, Nat.sub_diag, firstn_all. cbn [firstn]. now rewrite app_nil_r.
    - rewrite IH. rewrite <- app_assoc. cbn [app]. rewrite app_length. cbn [length].
      now rewrite Nat.add_1_r.
  Qed.

  Lemma hash_nz_check a : negb (hash_of a =? 0) = check_algo a 1.
  Proof.
    unfold check_algo, hash_of, algo_details.
    destruct a as [|[[|[]|]|[|[]|]|]]; reflexivity.
  Qed.

  Lemma ad_len_assoc info earlier hb :
    ad_len (assoc info earlier)
    = (Z.of_nat (length (hb ++ info ++ concat (pairs earlier))) - Z.of_nat (length hb))%Z.
  Proof. rewrite ad_len_concat. unfold assoc. cbn [concat]. rewrite !app_length. lia. Qed.

  Lemma spec_entry_eq s i e :
    nth_error (s_entries s) i = Some e ->
    info_ts (s_info s) = Some (s_ts s) ->
    entry_fields (e_hb e) = Some (e_local e, e_exp e) ->
    e_local e <> 0 ->
    spec_entry pki trcs tbl s i = tv_at (s_info s) (s_ts s) (s_entries s) i.
  Proof.
    intros Hn Hts Hf Hnz. unfold spec_entry, tv_at. rewrite Hn, Hts.
    unfold entry_fields in Hf. unfold trust_verify.
    destruct (parse_hb (e_hb e)) as [[h body]|] eqn:P; [|discriminate]. rewrite Hf.
    destruct (parse_keyid (h_keyid h)) as [kid|]; [|reflexivity].
    set (ia := e_local e) in *. set (ear := firstn i (s_entries s)).
    set (rawb := e_hb e ++ s_info s ++ concat (pairs ear)).
    destruct (k_skid kid) as [|x0 t0] eqn:Esk.
    { cbn [negb]. now rewrite !andb_false_r. }
    cbn [negb]. rewrite andb_true_r.
    destruct (ia =? 0) eqn:Z0; [apply N.eqb_eq in Z0; contradiction|]. cbn [negb andb].
    rewrite (N.eqb_sym ia (k_ia kid)).
    destruct (k_ia kid =? ia) eqn:Eia; cbn [negb]; [|now rewrite andb_false_r].
    apply N.eqb_eq in Eia. rewrite Eia. rewrite andb_true_r.
    destruct (is_wildcard ia); cbn [negb andb]; [reflexivity|].
    destruct (notify_c trcs (isd_of ia) (k_base kid) (k_serial kid)); cbn [negb andb]; [|reflexivity].
    unfold certs_for_c. rewrite <- Esk.
    (* both sides are existence statements over the certificate table *)
    apply eq_true_iff_eq. rewrite !andb_true_iff, !existsb_exists. split.
    - intros [[HL HH] (c & Hin & Hc)].
      exists (1, c_key c). split.
      + apply in_map_iff. exists c. split; [reflexivity|]. apply filter_In. split; [exact Hin|].
        repeat (apply andb_true_iff in Hc as [Hc ?]).
        unfold covers, entry_validity. cbn [fst snd].
        rewrite Hc, H3, H2, H1, H0. reflexivity.
      + unfold verify. cbn [m_hb m_sig]. rewrite P.
        rewrite (ad_len_assoc (s_info s) ear (e_hb e)). fold rawb. rewrite HL. cbn [negb].
        unfold kind_c. cbn [fst]. rewrite <- hash_nz_check, HH. cbn [negb].
        repeat (apply andb_true_iff in Hc as [Hc ?]).
        unfold sig_input. apply negb_true_iff in HH. rewrite HH.
        cbn [concat assoc]. fold rawb. now rewrite H.
    - intros (pk & Hin & Hv).
      apply in_map_iff in Hin. destruct Hin as (c & <- & Hin). apply filter_In in Hin as [Hin Hc].
      unfold verify in Hv. cbn [m_hb m_sig] in Hv. rewrite P in Hv.
      rewrite (ad_len_assoc (s_info s) ear (e_hb e)) in Hv. fold rawb in Hv.
      destruct (Z.of_nat (length rawb) - Z.of_nat (length (e_hb e)) =? h_adlen h)%Z; cbn [negb] in Hv; [|discriminate].
      unfold kind_c in Hv. cbn [fst] in Hv. rewrite <- hash_nz_check in Hv.
      destruct (negb (hash_of (h_algo h) =? 0)) eqn:HH; cbn [negb] in Hv; [|discriminate].
      split; [split; reflexivity|].
      exists c. split; [exact Hin|].
      repeat (apply andb_true_iff in Hc as [Hc ?]).
      unfold covers, entry_validity in H0. cbn [fst snd] in H0. apply andb_true_iff in H0 as [C1 C2].
      rewrite Hc, H1, H, C1, C2. cbn [andb].
      unfold sig_input in Hv. apply negb_true_iff in HH. rewrite HH in Hv. cbn [concat assoc] in Hv.
      fold rawb in Hv.
      destruct (sig_valid_c tbl (1, c_key c) (hash_c (hash_of (h_algo h)) rawb) (e_sig e)); [reflexivity|discriminate].
  Qed.

  Lemma spec_segment_eq s :
    consistent s = true -> spec_segment pki trcs tbl s = verify_segment_c pki trcs tbl s.
  Proof.
    intros Hc. unfold consistent in Hc. apply andb_true_iff in Hc as [Hts Hes].
    destruct (info_ts (s_info s)) as [ts|] eqn:Ets; [|discriminate]. apply Z.eqb_eq in Hts. subst ts.
    unfold spec_segment, verify_segment_c, verify_segment.
    rewrite verify_from_index. cbn [app length].
    apply forallb_ext_in. intros i Hi. apply in_seq in Hi.
    destruct (nth_error (s_entries s) i) as [e|] eqn:Hn.
    2:{ apply nth_error_None in Hn. lia. }
    rewrite forallb_forall in Hes. specialize (Hes e (nth_error_In _ _ Hn)).
    destruct (entry_fields (e_hb e)) as [[ia ex]|] eqn:Ef; [|discriminate].
    repeat (apply andb_true_iff in Hes as [Hes ?]).
    apply N.eqb_eq in Hes, H0. apply negb_true_iff, N.eqb_neq in H. subst ia ex.
    now apply (spec_entry_eq s i e).
  Qed.

  (** the oracle of the check holds on the model, for every input *)
  Lemma step_oracle_model seg frompb :
    step_oracle pki trcs (mkstep seg frompb tbl (verify_segment_c pki trcs tbl seg)) = true.
  Proof.
    unfold step_oracle. cbn [st_seg st_tbl st_impl].
    destruct (consistent seg) eqn:C; cbn [negb orb]; [|reflexivity].
    rewrite (spec_segment_eq seg C). apply eqb_reflx.
  Qed.

  Lemma unit_oracle_model seg frompb :
    let v := verify_segment_c pki trcs tbl seg in
    unit_oracle pki trcs (mkstep seg frompb tbl v) v = true.
  Proof.
    intros v. unfold unit_oracle. rewrite step_oracle_model. cbn [andb st_seg st_tbl].
    destruct (consistent seg) eqn:C; cbn [negb]; [|now rewrite orb_true_r].
    rewrite (spec_segment_eq seg C). fold v. destruct v; reflexivity.
  Qed.
End Concrete.

(** ------------------------------------------------------------------
    The cached verifier (Verifier.Cache non-nil, cache keyed by ISD-AS, subject
    key id and validity) gives, for every sequence of segments, the verdicts of
    the uncached one. *)
Lemma ckey_eqb_eq a b : ckey_eqb a b = true <-> a = b.
Proof.
  destruct a as [[ia sk] [nb na]], b as [[ia' sk'] [nb' na']]. unfold ckey_eqb.
  rewrite !andb_true_iff, N.eqb_eq, bytes_eqb_eq, !Z.eqb_eq. split.
  - intros [[[-> ->] ->] ->]. reflexivity.
  - intros E. inversion E. auto.
Qed.

Section CachedProofs.
  Variable PK : Type.
  Variable sig_valid : PK -> bytes -> bytes -> bool.
  Variable hash : N -> bytes -> bytes.
  Variable kind : PK -> N.
  Variable notify : N -> N -> N -> bool.
  Variable certs_for : N -> bytes -> validity -> option (list PK).

  Notation tv := (trust_verify PK sig_valid hash kind notify certs_for).
  Notation tvc := (trust_verify_cached PK sig_valid hash kind notify certs_for).
  Notation vf := (verify_from PK sig_valid hash kind notify certs_for).
  Notation vfc := (verify_from_cached PK sig_valid hash kind notify certs_for).

  (** every cached answer is the engine's answer to exactly that query *)
  Definition vcache_ok (c : @vcache PK) : Prop :=
    (forall i b s, In (i, b, s) (vc_trc c) -> notify i b s = true) /\
    (forall ia sk v keys, In ((ia, sk, v), keys) (vc_chain c) -> certs_for ia sk v = Some keys).

  Lemma vc_empty_ok : vcache_ok vc_empty.
  Proof. split; intros; contradiction. Qed.

  Lemma notify_cached_ok c i b s :
    vcache_ok c ->
    fst (notify_cached PK notify c i b s) = notify i b s /\ vcache_ok (snd (notify_cached PK notify c i b s)).
  Proof.
    intros [Ht Hc]. unfold notify_cached.
    destruct (existsb (tkey_eqb (i, b, s)) (vc_trc c)) eqn:E.
    - cbn [fst snd]. split; [|split; assumption].
      apply existsb_exists in E. destruct E as ([[i' b'] s'] & Hin & He).
      unfold tkey_eqb in He. apply andb_true_iff in He as [He H3]. apply andb_true_iff in He as [H1 H2].
      apply N.eqb_eq in H1, H2, H3. subst. symmetry. now apply Ht.
    - destruct (notify i b s) eqn:Nt; cbn [fst snd]; (split; [reflexivity|]); [|split; assumption].
      split; cbn [vc_trc vc_chain]; [|exact Hc].
      intros i' b' s' [Eq|Hin]; [inversion Eq; subst; exact Nt|now apply Ht].
  Qed.

  Lemma chains_cached_ok c ia sk v :
    vcache_ok c ->
    fst (chains_cached PK certs_for c ia sk v) = certs_for ia sk v /\
    vcache_ok (snd (chains_cached PK certs_for c ia sk v)).
  Proof.
    intros [Ht Hc]. unfold chains_cached.
    destruct (find (fun p => ckey_eqb (fst p) (ia, sk, v)) (vc_chain c)) as [[k keys]|] eqn:F.
    - cbn [fst snd]. split; [|split; assumption].
      apply find_some in F as [Hin Hk]. cbn [fst] in Hk. apply ckey_eqb_eq in Hk. subst k.
      symmetry. now apply Hc.
    - destruct (certs_for ia sk v) as [[|x t]|] eqn:C; cbn [fst snd]; (split; [reflexivity|]);
        try (split; assumption).
      split; cbn [vc_trc vc_chain]; [exact Ht|].
      intros ia' sk' v' keys' [Eq|Hin]; [inversion Eq; subst; exact C|now apply Hc].
  Qed.

  Lemma trust_verify_cached_ok c bound v hb sg ad :
    vcache_ok c ->
    fst (tvc c bound v hb sg ad) = tv bound v hb sg ad /\ vcache_ok (snd (tvc c bound v hb sg ad)).
  Proof.
    intros Hc. unfold trust_verify_cached, trust_verify.
    destruct (parse_hb hb) as [[h body]|]; [|now split].
    destruct (parse_keyid (h_keyid h)) as [kid|]; [|now split].
    destruct (k_skid kid) as [|x0 t0] eqn:Esk; [now split|]. rewrite <- Esk.
    destruct (negb (bound =? 0) && negb (bound =? k_ia kid)); [now split|].
    destruct (is_wildcard (k_ia kid)); [now split|].
    destruct (notify_cached_ok c (isd_of (k_ia kid)) (k_base kid) (k_serial kid) Hc) as [N1 N2].
    destruct (notify_cached PK notify c (isd_of (k_ia kid)) (k_base kid) (k_serial kid)) as [nok c1].
    cbn [fst snd] in N1, N2. rewrite <- N1.
    destruct nok; cbn [negb]; [|now split].
    destruct (chains_cached_ok c1 (k_ia kid) (k_skid kid) v N2) as [C1 C2].
    destruct (chains_cached PK certs_for c1 (k_ia kid) (k_skid kid) v) as [ch c2].
    cbn [fst snd] in C1, C2. rewrite <- C1.
    destruct ch; now split.
  Qed.

  Lemma verify_from_cached_ok info ts : forall es c earlier,
    vcache_ok c ->
    fst (vfc c info ts earlier es) = vf info ts earlier es /\ vcache_ok (snd (vfc c info ts earlier es)).
  Proof.
    induction es as [|e t IH]; intros c earlier Hc; [now split|].
    cbn [verify_from_cached verify_from].
    destruct (trust_verify_cached_ok c (e_local e) (entry_validity ts e) (e_hb e) (e_sig e)
                                     (assoc info earlier) Hc) as [T1 T2].
    destruct (tvc c (e_local e) (entry_validity ts e) (e_hb e) (e_sig e) (assoc info earlier)) as [ok c1].
    cbn [fst snd] in T1, T2. rewrite <- T1.
    destruct ok; cbn [andb]; [now apply IH|now split].
  Qed.

  Lemma verify_segment_cached_ok c s :
    vcache_ok c ->
    fst (verify_segment_cached PK sig_valid hash kind notify certs_for c s)
    = verify_segment PK sig_valid hash kind notify certs_for s /\
    vcache_ok (snd (verify_segment_cached PK sig_valid hash kind notify certs_for c s)).
  Proof. intros Hc. unfold verify_segment_cached, verify_segment. now apply verify_from_cached_ok. Qed.

  Lemma verify_segments_cached_ok : forall ss c,
    vcache_ok c ->
    fst (verify_segments_cached PK sig_valid hash kind notify certs_for c ss)
    = map (verify_segment PK sig_valid hash kind notify certs_for) ss.
  Proof.
    induction ss as [|s t IH]; intros c Hc; [reflexivity|].
    cbn [verify_segments_cached map].
    destruct (verify_segment_cached_ok c s Hc) as [S1 S2].
    destruct (verify_segment_cached PK sig_valid hash kind notify certs_for c s) as [r c1].
    cbn [fst snd] in S1, S2. specialize (IH c1 S2).
    destruct (verify_segments_cached PK sig_valid hash kind notify certs_for c1 t) as [rs c2].
    cbn [fst] in *. now rewrite S1, IH.
  Qed.
End CachedProofs.

(** the concrete sequence model used by [check] *)
Lemma verify_steps_cached_c_ok pki trcs : forall steps c,
  vcache_ok key (notify_c trcs) (certs_for_c pki) c ->
  verify_steps_cached_c pki trcs c steps
  = map (fun st => verify_segment_c pki trcs (st_tbl st) (st_seg st)) steps.
Proof.
  induction steps as [|st t IH]; intros c Hc; [reflexivity|].
  cbn [verify_steps_cached_c map].
  destruct (verify_segment_cached_ok key (sig_valid_c (st_tbl st)) hash_c kind_c (notify_c trcs)
                                     (certs_for_c pki) c (st_seg st) Hc) as [S1 S2].
  destruct (verify_segment_cached key (sig_valid_c (st_tbl st)) hash_c kind_c (notify_c trcs)
                                  (certs_for_c pki) c (st_seg st)) as [r c1].
  cbn [fst snd] in S1, S2. rewrite S1. unfold verify_segment_c at 1. f_equal. now apply IH.
Qed.

Lemma model_verdicts_cache_irrelevant pki trcs steps :
  model_verdicts pki trcs true steps = model_verdicts pki trcs false steps.
Proof. unfold model_verdicts. apply verify_steps_cached_c_ok. apply vc_empty_ok. Qed.

(** ------------------------------------------------------------------
    Tampering in a world given by a list [H] of honest signing records (any
    number of segments, any number of records per signer), without any condition
    on the struct field Local of the altered entry. *)
Lemma raw_block_removed info A B e :
  concat (pairs B) <> [] -> raw info A e <> raw info (A ++ B) e.
Proof.
  intros D E. rewrite !raw_eq, concat_pairs_app in E. do 2 apply app_inv_head in E.
  rewrite <- (app_nil_r (concat (pairs A))) in E at 1. apply app_inv_head in E. now apply D.
Qed.

Section WorldH.
  Variable PK : Type.
  Variable sig_valid : PK -> bytes -> bytes -> bool.
  Variable hash : N -> bytes -> bytes.
  Variable kind : PK -> N.
  Variable notify : N -> N -> N -> bool.
  Variable certs_for : N -> bytes -> validity -> option (list PK).
  Variable SK : Type.
  Variable sign_with : SK -> bytes -> bytes.
  Variable pub : SK -> PK.
  Variable H : list (record SK).

  Notation vseg := (verify_segment PK sig_valid hash kind notify certs_for).

  Definition r_sig (r : record SK) : bytes :=
    sign_with (r_sk SK r) (dig hash (r_algo SK r) (r_raw SK r)).

  (** no forgeries: whatever [sig_valid] accepts is the triple of a record in [H] *)
  Definition unforgeableH : Prop :=
    forall pk d sg, sig_valid pk d sg = true ->
      exists r, In r H /\ (pk, d, sg) = r_triple PK hash SK sign_with pub r.
  Definition hashedH : Prop := forall r, In r H -> hash_of (r_algo SK r) <> 0.

  (** the ISD-AS an entry claims in the key id of its signed header *)
  Definition claimed_ia (e : entry) : option N :=
    match parse_hb (e_hb e) with
    | Some (h, _) => match parse_keyid (h_keyid h) with Some kid => Some (k_ia kid) | None => None end
    | None => None
    end.

  (** honest PKI, for whatever ISD-AS: only [pk0] is certified for [ia] *)
  Definition cert_only (ia : N) (pk0 : PK) : Prop :=
    forall skid v keys pk, certs_for ia skid v = Some keys -> In pk keys -> pk = pk0.

  (** An entry that is verified against bytes (or carries a signature) that the
      holder of the key certified for the claimed ISD-AS never produced makes the
      segment fail. *)
  Lemma tamper_fresh s' A' e' S' ia pk0 :
    unforgeableH -> collision_free hash -> hashedH ->
    s_entries s' = A' ++ e' :: S' ->
    claimed_ia e' = Some ia -> cert_only ia pk0 ->
    (forall r, In r H -> pub (r_sk SK r) = pk0 ->
       r_raw SK r <> raw (s_info s') A' e' \/ r_sig r <> e_sig e') ->
    vseg s' = false.
  Proof.
    intros Hu Hc Hh E' Hcl Hco Hfresh.
    destruct (vseg s') eqn:V; [|reflexivity]. exfalso.
    apply sound_complete with (A := A') (e := e') (S := S') in V; [|exact E'].
    destruct V as (h & body & kid & keys & pk & P & K & _ & _ & _ & _ & C & Hin & _ & Al & Sv).
    unfold claimed_ia in Hcl. rewrite P, K in Hcl. inversion Hcl; subst ia.
    assert (pk = pk0) by (eapply Hco; eauto). subst pk.
    destruct (Hu _ _ _ Sv) as (r & Hr & T). inversion T as [[T1 T2 T3]].
    destruct (Hfresh r Hr (eq_sym T1)) as [D|D].
    - apply D. symmetry. eapply Hc; [| |exact T2].
      + eapply check_algo_hash; eauto.
      + now apply Hh.
    - apply D. unfold r_sig. unfold r_triple in T. congruence.
  Qed.

  (** a Local that is neither zero nor the claimed ISD-AS is rejected outright *)
  Lemma bound_mismatch_rejected s' A' e' S' ia :
    s_entries s' = A' ++ e' :: S' -> claimed_ia e' = Some ia ->
    e_local e' <> 0 -> e_local e' <> ia -> vseg s' = false.
  Proof.
    intros E' Hcl Hz Hne. destruct (vseg s') eqn:V; [|reflexivity]. exfalso.
    apply sound_complete with (A := A') (e := e') (S := S') in V; [|exact E'].
    destruct V as (h & body & kid & keys & pk & P & K & _ & B & _).
    unfold claimed_ia in Hcl. rewrite P, K in Hcl. inversion Hcl; subst ia.
    destruct B; contradiction.
  Qed.

  (** [e] (after [A] in [s]) is an honest entry: it claims [ia], only the key of
      its signer is certified for [ia], and that key signed nothing but this
      entry's bytes (other signers are unrestricted) *)
  Definition honest_entry (s : segment) (A : list entry) (e : entry) (sk : SK) (ia : N) : Prop :=
    claimed_ia e = Some ia /\ cert_only ia (pub sk) /\
    forall r, In r H -> pub (r_sk SK r) = pub sk ->
      r_raw SK r = raw (s_info s) A e /\ r_sig r = e_sig e.

  Lemma tamper_coreH s A e sk ia s' A' e' S' :
    unforgeableH -> collision_free hash -> hashedH ->
    honest_entry s A e sk ia ->
    s_entries s' = A' ++ e' :: S' -> claimed_ia e' = Some ia ->
    (raw (s_info s') A' e' <> raw (s_info s) A e \/ e_sig e' <> e_sig e) ->
    vseg s' = false.
  Proof.
    intros Hu Hc Hh (Hcl & Hco & Honce) E' Hcl' Hd.
    eapply tamper_fresh; eauto.
    intros r Hr Hk. destruct (Honce r Hr Hk) as [R1 R2]. rewrite R1, R2.
    destruct Hd as [D|D]; [left|right]; intros Q; apply D; now rewrite Q.
  Qed.
End WorldH.
