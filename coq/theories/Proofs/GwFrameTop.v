(** C41 — end-to-end statements about Model/GwFrame.v: sender and receiver together. *)
From Coq Require Import List Arith NArith Bool Lia.
From Coq Require Import ZifyBool ZifyN ZifyNat.
From Scion Require Import Lib.Bytes Lib.Check Model.GwFrame.
From Scion Require Import Proofs.GwFrameSpec Proofs.GwFrameEnc Proofs.GwFrameRx Proofs.GwFrameRL.
Import ListNotations.
Import GwFrame.
Local Open Scope nat_scope.

(** ---------------------------------------------------------------- the sender's bytes *)

Lemma payload_gbytes room sess stream g : payload (g_bytes room sess stream g) = g_payload room g.
Proof. apply header_payload. Qed.

(** the frames carry exactly the bytes of the valid packets, in order *)
Lemma frames_payload mtu sess stream ops : 56 <= mtu ->
  concat (map payload (frames_sched mtu sess stream ops)) = concat (filter valid_pkt (written ops)).
Proof.
  intros Hm. destruct (frames_sched_spec mtu Hm sess stream ops) as (G & EF & Hch & Hd).
  rewrite EF, map_map.
  rewrite (map_ext _ (g_payload (mtu - hdr_len))) by (intros g; apply payload_gbytes).
  pose proof (chain_payload _ _ _ _ _ Hch) as P. cbn [pre_of app] in P. rewrite app_nil_r in P.
  rewrite P. pose proof (chain_from_account _ _ _ _ _ Hch) as A. cbn [carry_pkt app] in A.
  rewrite app_nil_r in A. now rewrite A, Hd.
Qed.

(** ---------------------------------------------------------------- in-order, loss-free *)

Definition all_fit (mtu : nat) (ps : list bytes) : Prop :=
  forallb (fits_rlist mtu) ps = true.

Lemma fits_rlist_fits mtu p : fits_rlist mtu p = true -> fits (mtu - hdr_len) p.
Proof. unfold fits_rlist, fits, rlist_cap. intros H. apply Nat.leb_le in H. lia. Qed.

Lemma started_sublist room c s G c' : chain_from room c s G c' ->
  forall g, In g G -> incl (g_started g) (concat (map g_started G)).
Proof.
  intros _ g Hin p Hp. apply in_concat. exists (g_started g). split; [now apply in_map|exact Hp].
Qed.

Theorem lossless_main mtu sess stream ops :
  57 <= mtu -> (N.of_nat mtu <= 65535)%N ->
  (N.of_nat (length (frames_sched mtu sess stream ops)) <= two64)%N ->
  all_fit mtu (filter valid_pkt (written ops)) ->
  ingest (frames_sched mtu sess stream ops) = filter valid_pkt (written ops).
Proof.
  intros Hm Hu Hlen Hfit.
  destruct (frames_sched_spec mtu ltac:(lia) sess stream ops) as (G & EF & Hch & Hd).
  set (room := mtu - hdr_len) in *.
  assert (Hroom : (N.of_nat room <= 65519)%N) by (unfold room, hdr_len; lia).
  rewrite EF in Hlen |- *. rewrite map_length in Hlen.
  unfold ingest, ingest_ops, worker_init.
  rewrite (wrun_single (stream mod 1048576)%N _ [] []).
  - rewrite map_map.
    change (map (fun x => fresh (g_bytes room sess stream x)) G) with (map (fr room sess stream) G).
    assert (FG : Forall (fun g => Forall (fits room) (g_started g)) G).
    { apply Forall_forall. intros g Hg. apply Forall_forall. intros p Hp.
      apply fits_rlist_fits. unfold all_fit in Hfit. rewrite forallb_forall in Hfit. apply Hfit.
      rewrite <- Hd. pose proof (chain_from_account _ _ _ _ _ Hch) as A. cbn [carry_pkt app] in A.
      rewrite app_nil_r in A. rewrite <- A. now apply (started_sublist _ _ _ _ _ Hch g Hg). }
    destruct (inorder_run room Hroom sess stream G None 0%N None [] Hch eq_refl ltac:(lia) I FG)
      as (es' & E & _).
    rewrite E. cbn [snd]. exact Hd.
  - apply Forall_forall. intros f Hf. apply in_map_iff in Hf as (g & <- & _). split.
    + apply header_accepted.
    + apply header_epoch.
  - left. split; reflexivity.
Qed.

(** cleanup ticks anywhere between the frames, never two in a row, change nothing *)
Theorem lossless_ticks_main mtu sess stream ops rops :
  57 <= mtu -> (N.of_nat mtu <= 65535)%N ->
  (N.of_nat (length (frames_sched mtu sess stream ops)) <= two64)%N ->
  all_fit mtu (filter valid_pkt (written ops)) ->
  rframes rops = frames_sched mtu sess stream ops ->
  no_adjacent_ticks rops false = true ->
  ingest_ops rops = filter valid_pkt (written ops).
Proof.
  intros Hm Hu Hlen Hfit Hfr NT.
  destruct (frames_sched_spec mtu ltac:(lia) sess stream ops) as (G & EF & Hch & Hd).
  set (room := mtu - hdr_len) in *.
  assert (Hroom : (N.of_nat room <= 65519)%N) by (unfold room, hdr_len; lia).
  rewrite EF in Hlen, Hfr. rewrite map_length in Hlen.
  unfold ingest_ops, worker_init.
  rewrite (wrun_ticks (stream mod 1048576)%N rops [] [] false).
  - rewrite Hfr, map_map.
    change (map (fun x => fresh (g_bytes room sess stream x)) G) with (map (fr room sess stream) G).
    assert (FG : Forall (fun g => Forall (fits room) (g_started g)) G).
    { apply Forall_forall. intros g Hg. apply Forall_forall. intros p Hp.
      apply fits_rlist_fits. unfold all_fit in Hfit. rewrite forallb_forall in Hfit. apply Hfit.
      rewrite <- Hd. pose proof (chain_from_account _ _ _ _ _ Hch) as A. cbn [carry_pkt app] in A.
      rewrite app_nil_r in A. rewrite <- A. now apply (started_sublist _ _ _ _ _ Hch g Hg). }
    destruct (inorder_run room Hroom sess stream G None 0%N None [] Hch eq_refl ltac:(lia) I FG)
      as (es' & E & _).
    rewrite E. cbn [snd]. exact Hd.
  - rewrite Hfr. apply Forall_forall. intros f Hf. apply in_map_iff in Hf as (g & <- & _). split.
    + apply header_accepted.
    + apply header_epoch.
  - exact NT.
  - left. split; reflexivity.
Qed.

(** ---------------------------------------------------------------- arbitrary delivery *)

Definition sender_ok (s : sender) : Prop :=
  mtu_ok (sc_mtu s) = true /\ (N.of_nat (length (sc_model_frames s)) <= two64)%N.

Definition stream_ep (s : sender) : N := (sc_stream s mod 1048576)%N.

Lemma senders_exist (snd : list sender) : (forall s, In s snd -> sender_ok s) ->
  exists sds, map gs_frames sds = map sc_model_frames snd /\
              map gs_ep sds = map stream_ep snd /\
              map gs_sent sds = map sc_sent snd /\
              Forall gs_ok sds.
Proof.
  induction snd as [|s snd IH]; intros H.
  - exists []. repeat split; constructor.
  - destruct IH as (sds & E1 & E2 & E3 & E4); [intros x Hx; apply H; now right|].
    destruct (H s (or_introl eq_refl)) as [Hm Hl].
    unfold mtu_ok in Hm. apply andb_true_iff in Hm as [Hm1 Hm2].
    apply N.leb_le in Hm1, Hm2.
    unfold sc_model_frames in Hl.
    destruct (frames_sched_spec (N.to_nat (sc_mtu s)) ltac:(lia) (sc_sess s) (sc_stream s) (sc_ops s))
      as (G & EF & Hch & Hd).
    exists ({| gs_room := N.to_nat (sc_mtu s) - hdr_len; gs_sess := sc_sess s;
               gs_stream := sc_stream s; gs_G := G |} :: sds).
    cbn [map]. rewrite E1, E2, E3.
    split; [unfold gs_frames, sc_model_frames; cbn [gs_room gs_sess gs_stream gs_G]; now rewrite <- EF|].
    split; [reflexivity|].
    split; [unfold gs_sent, sc_sent; cbn [gs_G]; now rewrite Hd|].
    constructor; [|exact E4]. unfold gs_ok. cbn [gs_room gs_G].
    split; [unfold hdr_len; lia|]. split; [now exists None|].
    rewrite EF, map_length in Hl. exact Hl.
Qed.

Lemma in_map_eq {A B C} (f : A -> C) (g : B -> C) la lb x :
  map f la = map g lb -> In x la -> exists y, In y lb /\ g y = f x.
Proof.
  intros E Hx. assert (H : In (f x) (map g lb)) by (rewrite <- E; now apply in_map).
  apply in_map_iff in H as (y & Ey & Hy). now exists y.
Qed.

Theorem lossy_main (snd : list sender) (ops : list rop) :
  (forall s, In s snd -> sender_ok s) ->
  NoDup (map stream_ep snd) ->
  (forall raw, In (RFrame raw) ops ->
     accepted raw = false \/ exists s, In s snd /\ In raw (sc_model_frames s)) ->
  forall p, In p (ingest_ops ops) -> exists s, In s snd /\ In p (sc_sent s).
Proof.
  intros Hok ND Hops p Hp.
  destruct (senders_exist snd Hok) as (sds & E1 & E2 & E3 & E4).
  assert (Hgen : Forall (op_genuine sds) ops).
  { apply Forall_forall. intros [raw|] Ho; cbn [op_genuine]; [|exact I].
    destruct (Hops raw Ho) as [Ha|(s & Hs & Hr)]; [now left|]. right.
    destruct (in_map_eq sc_model_frames gs_frames snd sds s (eq_sym E1) Hs) as (S & HS & ES).
    exists S. split; [exact HS|]. now rewrite ES. }
  assert (ND' : NoDup (map gs_ep sds)) by (now rewrite E2).
  pose proof (wrun_safe sds E4 ND' ops worker_init (Forall_nil _) Hgen p Hp) as Hin.
  apply in_flat_map in Hin as (S & HS & HpS).
  destruct (in_map_eq gs_sent sc_sent sds snd S E3 HS) as (s & Hs & Es).
  exists s. split; [exact Hs|]. now rewrite Es.
Qed.

(** ---------------------------------------------------------------- the oracles on the model *)

Lemma list_eqb_sound {A} (eqb : A -> A -> bool) :
  (forall x y, eqb x y = true -> x = y) ->
  forall l1 l2, list_eqb eqb l1 l2 = true -> l1 = l2.
Proof.
  intros H. induction l1 as [|x t IH]; destruct l2 as [|y t2]; cbn; intros E;
    try reflexivity; try discriminate.
  apply andb_true_iff in E as [E1 E2]. f_equal; [now apply H|now apply IH].
Qed.

Lemma dop_eqb_sound a b : dop_eqb a b = true -> a = b.
Proof.
  destruct a as [s i|r|]; destruct b as [t j|r'|]; cbn; try discriminate.
  intros E. apply andb_true_iff in E as [E1 E2]. apply N.eqb_eq in E1, E2. now subst.
Qed.

Lemma map_nth_seq {A} (l : list A) d : map (fun i => nth i l d) (seq 0 (length l)) = l.
Proof.
  induction l as [|x t IH]; [reflexivity|].
  cbn [length seq map nth]. f_equal. rewrite <- seq_shift, map_map. exact IH.
Qed.

Lemma in_order_ops plan fs : in_order plan (length fs) = true ->
  map (rop_of [fs]) plan = map RFrame fs.
Proof.
  unfold in_order. intros H. apply (list_eqb_sound _ dop_eqb_sound) in H. subst plan.
  rewrite map_map. rewrite <- (map_nth_seq fs []) at 2. rewrite map_map.
  apply map_ext. intros i. cbn [rop_of]. now rewrite Nat2N.id.
Qed.

Lemma nodupb_NoDup l : nodupb l = true -> NoDup l.
Proof.
  induction l as [|x t IH]; cbn [nodupb]; intros H; constructor.
  - apply andb_true_iff in H as [H _]. apply negb_true_iff in H. intros Hin.
    assert (existsb (N.eqb x) t = true) by (apply existsb_exists; exists x; split; [exact Hin|apply N.eqb_refl]).
    congruence.
  - apply andb_true_iff in H as [_ H]. now apply IH.
Qed.

Lemma inb_In p l : In p l -> inb p l = true.
Proof. intros H. apply existsb_exists. exists p. split; [exact H|now apply bytes_eqb_eq]. Qed.

Lemma bytes_list_eqb_refl l : bytes_list_eqb l l = true.
Proof. apply list_eqb_eq; [apply bytes_eqb_eq|reflexivity]. Qed.

Lemma nth_default_or {A} (l : list A) i d : nth i l d = d \/ In (nth i l d) l.
Proof. destruct (Nat.lt_ge_cases i (length l)); [right; now apply nth_In|left; now apply nth_overflow]. Qed.

Theorem e2e_oracle_model (snd : list sender) (plan : list dop) :
  forallb sender_fits snd = true ->
  let frames := map sc_model_frames snd in
  e2e_oracle snd frames plan (wrun worker_init (map (rop_of frames) plan)) = true.
Proof.
  intros Hfits frames. unfold e2e_oracle.
  destruct (forallb is_genuine plan && forallb (fun s => mtu_ok (sc_mtu s)) snd
            && nodupb (map (fun s => (sc_stream s mod 1048576)%N) snd)
            && forallb (fun fs => (N.of_nat (length fs) <=? 18446744073709551616)%N) frames) eqn:C;
    [|reflexivity].
  apply andb_true_iff in C as [C C4]. apply andb_true_iff in C as [C C3].
  apply andb_true_iff in C as [C1 C2].
  assert (Hok : forall s, In s snd -> sender_ok s).
  { intros s Hs. split.
    - rewrite forallb_forall in C2. now apply C2.
    - rewrite forallb_forall in C4. apply N.leb_le. apply C4. unfold frames. now apply in_map. }
  apply andb_true_iff. split.
  - apply forallb_forall. intros p Hp. apply inb_In.
    destruct (lossy_main snd (map (rop_of frames) plan) Hok (nodupb_NoDup _ C3)) with (p := p)
      as (s & Hs & Hps).
    + intros raw Hraw. apply in_map_iff in Hraw as (d & Ed & Hd).
      rewrite forallb_forall in C1. specialize (C1 d Hd).
      destruct d as [si i|r|]; cbn [rop_of is_genuine] in *; try discriminate.
      inversion Ed; subst raw.
      destruct (nth_default_or (nth (N.to_nat si) frames []) (N.to_nat i) []) as [E|Hin];
        [left; now rewrite E|].
      destruct (nth_default_or frames (N.to_nat si) []) as [E|Hin2].
      * rewrite E in Hin. destruct Hin.
      * right. unfold frames in Hin2. apply in_map_iff in Hin2 as (s & Es & Hs).
        exists s. split; [exact Hs|]. rewrite Es. exact Hin.
    + exact Hp.
    + apply in_flat_map. now exists s.
  - destruct snd as [|s [|s2 snd]]; try reflexivity.
    cbn [frames map].
    destruct (bytes_list_eqb (rframes (map (rop_of [sc_model_frames s]) plan)) (sc_model_frames s)
              && no_adjacent_ticks (map (rop_of [sc_model_frames s]) plan) false) eqn:IO; [|reflexivity].
    apply andb_true_iff in IO as [IO NT].
    apply (proj1 (list_eqb_eq bytes_eqb bytes_eqb_eq _ _)) in IO.
    destruct (Hok s (or_introl eq_refl)) as [Hm Hl].
    unfold mtu_ok in Hm. apply andb_true_iff in Hm as [Hm1 Hm2]. apply N.leb_le in Hm1, Hm2.
    cbn [forallb] in Hfits. rewrite andb_true_r in Hfits.
    fold (ingest_ops (map (rop_of [sc_model_frames s]) plan)).
    unfold sc_model_frames in *. unfold sc_sent.
    rewrite (lossless_ticks_main (N.to_nat (sc_mtu s)) (sc_sess s) (sc_stream s) (sc_ops s));
      try lia; try assumption; try apply bytes_list_eqb_refl.
Qed.

Theorem enc_oracle_model mtu sess stream ops : 56 <= mtu ->
  let '(frs, e, q) := enc_run mtu sess stream ops enc_init [] in
  let dr := drain (drain_fuel e q) mtu sess stream e q in
  bytes_eqb (concat (map payload (somes frs ++ dr))) (concat (filter valid_pkt (written ops))) = true.
Proof.
  intros Hm. pose proof (frames_payload mtu sess stream ops Hm) as P. unfold frames_sched in P.
  destruct (enc_run mtu sess stream ops enc_init []) as [[frs e] q].
  apply bytes_eqb_eq. exact P.
Qed.

(** ---------------------------------------------------------------- the capacity of the reassembly list *)

Definition big_v4 (n : nat) : bytes := [69%N; 0%N] ++ be 2 (N.of_nat n) ++ repeat 0%N (n - 4).

Definition cap_pkt : bytes := big_v4 4101.

Lemma capacity_witness :
  valid_pkt cap_pkt = true /\ ingest (frames_of 57 1 5 [cap_pkt]) = [] /\
  (N.of_nat (length (frames_of 57 1 5 [cap_pkt])) <=? two64)%N = true.
Proof. vm_compute. repeat split. Qed.

(** the full loss-free statement fails on that packet *)
Lemma capacity_refutes :
  ingest (frames_of 57 1 5 [cap_pkt]) <> filter valid_pkt [cap_pkt].
Proof.
  destruct capacity_witness as (V & E & _). rewrite E.
  unfold filter. rewrite V. discriminate.
Qed.
