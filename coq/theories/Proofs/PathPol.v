(** Lemmas about Model/PathPol.v (C47). *)
From Coq Require Import String Ascii.
From Coq Require Import List NArith ZArith Bool Lia ZifyBool ZifyN ZifyNat.
From Scion Require Import Lib.Check Lib.Regex Model.AddrFmt Proofs.AddrFmt Model.PathPol.
Import ListNotations.
Import AddrFmt PathPol.
Local Open Scope N_scope.

(** ---------------------------------------------------------------- sequences = regular expressions *)
Lemma Forall_iff {A} (P Q : A -> Prop) l : (forall x, P x <-> Q x) -> (Forall P l <-> Forall Q l).
Proof. intros H. split; apply Forall_impl; intros x; apply H. Qed.

Lemma Lseq_re e : forall w, Lseq e w <-> L hp_match (seq_re e) w.
Proof.
  induction e; intros w; cbn [Lseq seq_re L].
  - reflexivity.
  - split; intros (u & v & E & H1 & H2); exists u, v; (split; [exact E|]).
    + now rewrite <- IHe1, <- IHe2.
    + now rewrite IHe1, IHe2.
  - now rewrite IHe1, IHe2.
  - now rewrite IHe.
  - split; intros (u & ws & E & H1 & H2); exists u, ws; (split; [exact E|]).
    + rewrite <- IHe. split; [assumption|]. now apply (Forall_iff _ _ ws IHe).
    + rewrite IHe. split; [assumption|]. now apply (Forall_iff _ _ ws IHe).
  - split; intros (ws & E & H); exists ws; (split; [exact E|]); now apply (Forall_iff _ _ ws IHe).
Qed.

Lemma seq_matches_iff e w : seq_matches e w = true <-> Lseq e w.
Proof. unfold seq_matches. rewrite matches_iff_L. symmetry. apply Lseq_re. Qed.

(** ---------------------------------------------------------------- hop predicates *)
Definition weq (p v : N) : Prop := p = 0 \/ p = v.

Lemma wild_eq_iff p v : wild_eq p v = true <-> weq p v.
Proof. unfold wild_eq, weq. lia. Qed.

Definition as_weq (a : option N) (v : N) : Prop := exists p, a = Some p /\ weq p v.

Lemma as_match_iff a v : as_match a v = true <-> as_weq a v.
Proof.
  unfold as_match, as_weq. destruct a as [p|].
  - rewrite wild_eq_iff. split; [eauto|]. intros (q & [= <-] & H). exact H.
  - split; [discriminate|]. intros (q & H & _). discriminate.
Qed.

Lemma hp_match_iff p h :
  hp_match p h = true <->
  match p with
  | HPIsd isd => weq isd (h_isd h)
  | HPIsdAs isd a => weq isd (h_isd h) /\ as_weq a (h_as h)
  | HPIf isd a i => weq isd (h_isd h) /\ as_weq a (h_as h) /\ (weq i (h_in h) \/ weq i (h_out h))
  | HPInOut isd a i o => weq isd (h_isd h) /\ as_weq a (h_as h) /\ weq i (h_in h) /\ weq o (h_out h)
  end.
Proof.
  destruct p; cbn [hp_match];
    rewrite ?andb_true_iff, ?orb_true_iff, ?wild_eq_iff, ?as_match_iff; tauto.
Qed.

(** ---------------------------------------------------------------- the filter loops *)
Lemma go_filter_acc {A} (f : A -> bool) ps acc :
  fold_left (fun acc p => if f p then acc ++ [p] else acc) ps acc = acc ++ filter f ps.
Proof.
  revert acc. induction ps as [|p ps IH]; intros acc; cbn [fold_left filter].
  - now rewrite app_nil_r.
  - rewrite IH. destruct (f p); [now rewrite <- app_assoc|reflexivity].
Qed.

Lemma go_filter_eq {A} (f : A -> bool) ps : go_filter f ps = filter f ps.
Proof. unfold go_filter. now rewrite go_filter_acc. Qed.

Lemma filter_filter {A} (f g : A -> bool) l :
  filter g (filter f l) = filter (fun x => f x && g x) l.
Proof.
  induction l as [|x l IH]; [reflexivity|]. cbn [filter].
  destruct (f x); cbn [filter andb]; [destruct (g x); now rewrite IH | exact IH].
Qed.

Lemma filter_ext_in' {A} (f g : A -> bool) l :
  (forall x, In x l -> f x = g x) -> filter f l = filter g l.
Proof. apply filter_ext_in. Qed.

Lemma seq_eval_filter e ps : seq_eval (SSeq e) ps = filter (seq_accepts e) ps.
Proof. apply go_filter_eq. Qed.

Lemma seq_accepts_iff e p :
  seq_accepts e p = true <-> exists hs, path_hops (p_ifs p) = Some hs /\ Lseq e hs.
Proof.
  unfold seq_accepts. destruct (path_hops (p_ifs p)) as [hs|].
  - rewrite seq_matches_iff. split; [eauto|]. intros (hs' & [= <-] & H). exact H.
  - split; [discriminate|]. intros (hs' & H & _). discriminate.
Qed.

(** ---------------------------------------------------------------- ACL *)
Definition hp_wf (hp : aclhp) : Prop :=
  a_ifs hp <> [] /\ (a_as hp = 0 -> Forall (fun i => i = 0) (a_ifs hp)).

Definition entry_wf (e : entry) : Prop :=
  match snd e with Some hp => hp_wf hp | None => True end.

Lemma if_match_wf hp ia id b : a_ifs hp <> [] -> exists r, if_match hp ia id b = Some r.
Proof.
  intros H. unfold if_match.
  destruct (negb (a_isd hp =? 0) && negb (ia_isd_of ia =? a_isd hp)); [eauto|].
  destruct (negb (a_as hp =? 0) && negb (ia_as_of ia =? a_as hp)); [eauto|].
  destruct (a_ifs hp) as [|x [|y [|z l]]]; [congruence|eauto..].
Qed.

Lemma if_match_default hp ia id b :
  hp_wf hp -> matches_all (Some hp) = true -> if_match hp ia id b = Some true.
Proof.
  intros [Hne Hz] Hm. cbn [matches_all] in Hm. apply andb_true_iff in Hm. destruct Hm as [Hi Ha].
  apply N.eqb_eq in Hi. apply N.eqb_eq in Ha. specialize (Hz Ha).
  unfold if_match. rewrite Hi, Ha. cbn [N.eqb negb andb].
  destruct (a_ifs hp) as [|x [|y [|z l]]]; [congruence| | |].
  - inversion Hz; subst. reflexivity.
  - inversion Hz as [|? ? Hx Hz']; subst. inversion Hz'; subst. now destruct b.
  - inversion Hz; subst. reflexivity.
Qed.

Definition has_default (es : list entry) : Prop := exists e, In e es /\ matches_all (snd e) = true.

Lemma find_default_in es k i : find_default es k = Some i -> has_default es.
Proof.
  revert k. induction es as [|e es IH]; intros k H; [discriminate|].
  cbn [find_default] in H. destruct (matches_all (snd e)) eqn:E.
  - exists e. split; [now left|assumption].
  - destruct (IH _ H) as (e' & Hin & Hm). exists e'. split; [now right|assumption].
Qed.

Lemma validate_has_default es : validate_acl es = true -> has_default es.
Proof.
  unfold validate_acl. destruct es as [|e es]; [discriminate|].
  destruct (find_default (e :: es) 0) eqn:E; [|discriminate]. intros _. now apply find_default_in in E.
Qed.

Lemma eval_iface_decision es ia id b :
  Forall entry_wf es -> has_default es ->
  eval_iface es ia id b = if acl_decision es ia id b then Allow else Deny.
Proof.
  induction es as [|[a r] es IH]; intros Hwf (e & Hin & Hm); [destruct Hin|].
  inversion Hwf as [|? ? Hw Hwf']; subst. cbn [eval_iface acl_decision].
  destruct r as [hp|]; [|reflexivity].
  unfold entry_wf in Hw. cbn [snd] in Hw.
  destruct (if_match_wf hp ia id b (proj1 Hw)) as (res & Hres). rewrite Hres.
  destruct res; [reflexivity|].
  apply IH; [assumption|]. destruct Hin as [<-|Hin].
  - cbn [snd] in Hm. rewrite (if_match_default hp ia id b Hw Hm) in Hres. discriminate.
  - exists e. auto.
Qed.

Lemma eval_ifs_decision es ifs b :
  Forall entry_wf es -> has_default es ->
  eval_ifs es ifs b = if acl_accepts_ifs es ifs b then Allow else Deny.
Proof.
  intros Hwf Hd. revert b. induction ifs as [|[ia id] ifs IH]; intros b; [reflexivity|].
  cbn [eval_ifs acl_accepts_ifs]. rewrite eval_iface_decision by assumption.
  destruct (acl_decision es ia id b); [apply IH|reflexivity].
Qed.

Lemma acl_eval_filter es ps :
  es <> [] -> Forall entry_wf es -> has_default es ->
  acl_eval (Some es) ps = Some (filter (acl_accepts es) ps).
Proof.
  intros Hne Hwf Hd. unfold acl_eval. destruct es as [|e0 es0]; [congruence|].
  set (es := e0 :: es0) in *.
  assert (Hp : forall p, acl_path es p = if acl_accepts es p then Allow else Deny).
  { intros p. unfold acl_path, acl_accepts. now apply eval_ifs_decision. }
  replace (existsb _ ps) with false.
  - rewrite go_filter_eq. f_equal. apply filter_ext. intros p. rewrite Hp. now destruct (acl_accepts es p).
  - symmetry. apply not_true_iff_false. intros H. apply existsb_exists in H.
    destruct H as (p & _ & H). rewrite Hp in H. now destruct (acl_accepts es p).
Qed.

(** hop predicates parsed from text are well formed *)
Lemma hp_from_string_wf s hp : hp_from_string s = Some hp -> hp_wf hp.
Proof.
  unfold hp_from_string.
  destruct (_ || _ || _); [discriminate|]. destruct (_ && _); [discriminate|].
  destruct (split dash s) as [|d0 drest]; [discriminate|].
  destruct (parse_isd d0) as [isd|]; [|discriminate].
  destruct drest as [|d1 ?].
  { intros [= <-]. split; cbn; [discriminate|auto]. }
  destruct (split [35] d1) as [|h0 hrest]; [discriminate|].
  destruct (parse_as colon h0) as [a|]; [|discriminate].
  destruct hrest as [|h1 ?].
  { intros [= <-]. split; cbn; [discriminate|auto]. }
  destruct (split [44] h1) as [|c0 crest]; [discriminate|].
  destruct (parse_ifid c0) as [i0|]; [|discriminate].
  match goal with |- match ?r with _ => _ end = _ -> _ => destruct r as [ifs|] eqn:Er end; [|discriminate].
  destruct ((a =? 0) && existsb (fun i => negb (i =? 0)) ifs) eqn:Ec; [discriminate|].
  intros [= <-]. unfold hp_wf. cbn [a_ifs a_as]. split.
  - destruct crest as [|c1 [|? ?]]; [injection Er as <-; discriminate| |injection Er as <-; discriminate].
    destruct (parse_ifid c1); [injection Er as <-; discriminate|discriminate].
  - intros ->. cbn [N.eqb andb] in Ec. apply Forall_forall. intros i Hi.
    destruct (N.eq_dec i 0) as [|Hn]; [assumption|]. exfalso.
    assert (existsb (fun i => negb (i =? 0)) ifs = true); [|congruence].
    apply existsb_exists. exists i. split; [assumption|]. apply negb_true_iff. now apply N.eqb_neq.
Qed.

(** ---------------------------------------------------------------- options of a policy *)
Definition optf := (Z * (list path -> list path))%type.

Fixpoint desc (l : list optf) : Prop :=
  match l with
  | [] => True
  | (w, _) :: t => (forall w' f', In (w', f') t -> (w' <= w)%Z) /\ desc t
  end.

Lemma is_nil_false {A} (l : list A) : is_nil l = false <-> l <> [].
Proof. destruct l; cbn; split; congruence. Qed.

Lemma opts_set_spec paths : forall (opts : list optf) cur set,
  desc opts -> (forall w f, In (w, f) opts -> (w <= cur)%Z) ->
  forall x, In x (opts_set opts paths cur set) <->
    In x set \/
    exists w f, In (w, f) opts /\ In x (map p_ifs (f paths)) /\ (w = cur \/ set = []) /\
                forall w' f', In (w', f') opts -> (w' > w)%Z -> f' paths = [].
Proof.
  induction opts as [|[w1 f1] t IH]; intros cur set Hd Hc x.
  - cbn [opts_set]. split; [auto|]. intros [H|(w & f & [] & _)]. exact H.
  - destruct Hd as [Hle Hd]. cbn [opts_set].
    assert (Hw1 : (w1 <= cur)%Z) by (apply (Hc w1 f1); now left).
    destruct ((w1 <? cur)%Z && negb (is_nil set)) eqn:E.
    + apply andb_true_iff in E. destruct E as [E1 E2]. apply negb_true_iff, is_nil_false in E2.
      split; [auto|]. intros [H|(w & f & Hin & _ & [Hw|Hs] & _)]; [exact H| |congruence].
      exfalso. destruct Hin as [[= -> ->]|Hin]; [lia|]. specialize (Hle _ _ Hin). lia.
    + assert (K : w1 = cur \/ set = []).
      { apply andb_false_iff in E. destruct E as [E|E]; [left; lia|right].
        apply negb_false_iff in E. now destruct set. }
      rewrite IH by (assumption || exact Hle). clear IH. split.
      * intros [H|(w & f & Hin & Hx & Hk & Hh)].
        -- apply in_app_or in H. destruct H as [H|H]; [now left|]. right.
           exists w1, f1. split; [now left|]. split; [exact H|]. split; [exact K|].
           intros w' f' [[= -> ->]|Hin] Hgt; [lia|]. specialize (Hle _ _ Hin). lia.
        -- right. exists w, f. split; [now right|]. split; [exact Hx|]. split.
           ++ destruct K as [K|K]; [|now right]. destruct Hk as [Hk|Hk]; [left; congruence|].
              right. now apply app_eq_nil in Hk.
           ++ intros w' f' [[= -> ->]|Hin'] Hgt; [|now apply (Hh w' f')].
              destruct Hk as [Hk|Hk]; [lia|]. apply app_eq_nil in Hk. destruct Hk as [_ Hk].
              now apply map_eq_nil in Hk.
      * intros [H|(w & f & Hin & Hx & Hk & Hh)]; [left; apply in_or_app; now left|].
        destruct Hin as [[= -> ->]|Hin]; [left; apply in_or_app; now right|].
        right. exists w, f. split; [exact Hin|]. split; [exact Hx|].
        pose proof (Hle _ _ Hin) as Hwle. split.
        -- destruct (Z.eq_dec w w1) as [|Hne]; [now left|]. right.
           assert (Hf1 : f1 paths = []) by (apply (Hh w1 f1); [now left|lia]).
           rewrite Hf1. cbn [map]. rewrite app_nil_r. destruct Hk as [Hk|Hk]; [lia|exact Hk].
        -- intros w' f' Hin' Hgt. apply (Hh w' f'); [now right|exact Hgt].
Qed.

Lemma fp_eqb_eq (a b : fp) : fp_eqb a b = true <-> a = b.
Proof.
  apply list_eqb_eq. intros [x1 x2] [y1 y2]. cbn [fst snd]. rewrite andb_true_iff, !N.eqb_eq.
  split; [intros [-> ->]; reflexivity | intros [= -> ->]; auto].
Qed.

Lemma fp_in_iff set p : fp_in set p = true <-> In (p_ifs p) set.
Proof.
  unfold fp_in. rewrite existsb_exists. split.
  - intros (x & Hin & E). apply fp_eqb_eq in E. now subst.
  - intros H. exists (p_ifs p). split; [exact H|]. now apply fp_eqb_eq.
Qed.

(** which paths the options keep: those with the fingerprint of a path kept by
    an option such that every option of strictly greater weight keeps nothing *)
Definition opt_selects (opts : list optf) (paths : list path) (p : path) : Prop :=
  exists w f, In (w, f) opts /\ In (p_ifs p) (map p_ifs (f paths)) /\
              forall w' f', In (w', f') opts -> (w' > w)%Z -> f' paths = [].

Lemma eval_options_spec opts paths : desc opts -> opts <> [] ->
  exists sel, eval_options opts paths = filter sel paths /\
              forall p, sel p = true <-> opt_selects opts paths p.
Proof.
  intros Hd Hne. destruct opts as [|[w0 f0] t]; [congruence|].
  exists (fp_in (opts_set ((w0, f0) :: t) paths w0 [])). split.
  - cbn [eval_options]. apply go_filter_eq.
  - intros p. rewrite fp_in_iff, opts_set_spec; [|exact Hd|].
    + unfold opt_selects. split.
      * intros [[]|(w & f & H1 & H2 & _ & H3)]. eauto.
      * intros (w & f & H1 & H2 & H3). right. exists w, f. auto.
    + intros w f [[= -> ->]|Hin]; [lia|]. destruct Hd as [Hle _]. now apply (Hle w f).
Qed.

(** ---------------------------------------------------------------- Policy.Filter *)
Definition local_pred (l : list N) (p : path) : bool :=
  negb (p_src p =? p_dst p) && existsb (N.eqb (p_src p)) l.
Definition remote_pred (rs : list rule) (p : path) : bool :=
  negb (is_nil (p_ifs p)) && remote_decide rs (p_dst p).
Definition acl_pred (a : option (list entry)) (p : path) : bool :=
  match a with None | Some [] => true | Some es => acl_accepts es p end.
Definition acl_ok (a : option (list entry)) : Prop :=
  match a with None | Some [] => True | Some es => Forall entry_wf es /\ has_default es end.
Definition seq_pred (s : sres) (p : path) : bool :=
  match s with SErr => false | SAll => true | SSeq e => seq_accepts e p end.

Definition base_pred (c : str -> sres) lo re acl sq (p : path) : bool :=
  (match lo with Some l => local_pred l p | None => true end) &&
  (match re with Some r => remote_pred r p | None => true end) &&
  acl_pred acl p &&
  (match sq with Some s => seq_pred (c s) p | None => true end).

Lemma seq_eval_pred s ps : seq_eval s ps = filter (seq_pred s) ps.
Proof.
  destruct s; cbn [seq_eval seq_pred].
  - induction ps; [reflexivity|assumption].
  - induction ps as [|x ps IH]; [reflexivity|]. cbn [filter]. now rewrite <- IH.
  - apply go_filter_eq.
Qed.

Lemma filter_true {A} (l : list A) : filter (fun _ => true) l = l.
Proof. induction l as [|x l IH]; [reflexivity|]. cbn [filter]. now rewrite IH. Qed.

Lemma acl_eval_total_pred a ps : acl_ok a -> acl_eval_total a ps = filter (acl_pred a) ps.
Proof.
  unfold acl_eval_total. destruct a as [[|e es]|]; cbn [acl_ok acl_pred].
  - intros _. cbn. now rewrite filter_true.
  - intros [Hwf Hd]. now rewrite acl_eval_filter.
  - intros _. cbn. now rewrite filter_true.
Qed.

Lemma pol_filter_base c lo re acl sq opts ps : acl_ok acl ->
  pol_filter c (Pol lo re acl sq opts) ps =
  eval_options (map (fun wq => match wq with (w, q) => (w, pol_filter c q) end) opts)
               (filter (base_pred c lo re acl sq) ps).
Proof.
  intros Ha. cbn [pol_filter]. f_equal.
  rewrite acl_eval_total_pred by assumption.
  assert (E1 : match lo with Some l => local_eval l ps | None => ps end =
               filter (fun p => match lo with Some l => local_pred l p | None => true end) ps).
  { destruct lo; [apply go_filter_eq | now rewrite filter_true]. }
  rewrite E1.
  assert (E2 : forall l, match re with Some r => remote_eval r l | None => l end =
               filter (fun p => match re with Some r => remote_pred r p | None => true end) l).
  { intros l. destruct re; [apply go_filter_eq | now rewrite filter_true]. }
  rewrite E2.
  assert (E3 : forall l, match sq with Some s => seq_eval (c s) l | None => l end =
               filter (fun p => match sq with Some s => seq_pred (c s) p | None => true end) l).
  { intros l. destruct sq; [apply seq_eval_pred | now rewrite filter_true]. }
  rewrite E3. rewrite !filter_filter. apply filter_ext. intros x. unfold base_pred.
  now rewrite !andb_assoc.
Qed.

(** two NewSequence functions that agree on the texts of a policy give the same filter *)
Fixpoint pol_texts (p : policy) : list str :=
  match p with
  | Pol _ _ _ sq opts =>
    (match sq with Some s => [s] | None => [] end) ++
    flat_map (fun wq => pol_texts (snd wq)) opts
  end.

Lemma opts_set_ext paths : forall (o1 o2 : list optf),
  Forall2 (fun a b => fst a = fst b /\ snd a paths = snd b paths) o1 o2 ->
  forall cur set, opts_set o1 paths cur set = opts_set o2 paths cur set.
Proof.
  induction 1 as [|[w1 f1] [w2 f2] o1 o2 [Hw Hf] _ IH]; intros cur set; [reflexivity|].
  cbn [fst snd] in Hw, Hf. subst w2. cbn [opts_set]. rewrite Hf.
  destruct ((w1 <? cur)%Z && negb (is_nil set)); [reflexivity|apply IH].
Qed.

Lemma eval_options_ext paths (o1 o2 : list optf) :
  Forall2 (fun a b => fst a = fst b /\ snd a paths = snd b paths) o1 o2 ->
  eval_options o1 paths = eval_options o2 paths.
Proof.
  intros H. pose proof (opts_set_ext paths o1 o2 H) as E. destruct H as [|[w1 f1] [w2 f2] ? ? [Hw _] H]; [reflexivity|].
  cbn [fst] in Hw. subst w2. cbn [eval_options]. now rewrite E.
Qed.

Lemma pol_filter_ext c1 c2 : forall p,
  (forall s, In s (pol_texts p) -> c1 s = c2 s) -> forall ps, pol_filter c1 p ps = pol_filter c2 p ps.
Proof.
  fix IH 1. intros [lo re acl sq opts] H ps. cbn [pol_filter].
  assert (Hs : forall l, match sq with Some s => seq_eval (c1 s) l | None => l end =
                         match sq with Some s => seq_eval (c2 s) l | None => l end).
  { intros l. destruct sq as [s|]; [|reflexivity]. rewrite (H s); [reflexivity|]. cbn. now left. }
  rewrite Hs.
  assert (Ho : forall s, In s (flat_map (fun wq => pol_texts (snd wq)) opts) -> c1 s = c2 s).
  { intros s Hin. apply H. cbn [pol_texts]. apply in_or_app. now right. }
  apply eval_options_ext. clear H Hs.
  induction opts as [|[w q] opts IHo]; [constructor|].
  cbn [map]. constructor.
  - cbn [fst snd]. split; [reflexivity|]. apply IH. intros s Hin. apply Ho. cbn [flat_map snd].
    apply in_or_app. now left.
  - apply IHo. intros s Hin. apply Ho. cbn [flat_map]. apply in_or_app. now right.
Qed.

(** ---------------------------------------------------------------- the two parsers *)
Lemma opt_N_eq (x y : option N) : option_eqb N.eqb x y = true -> x = y.
Proof. destruct x, y; cbn; try discriminate; [intros H; apply N.eqb_eq in H; now subst|reflexivity]. Qed.

Lemma seq_eqb_eq a : forall b, seq_eqb a b = true -> a = b.
Proof.
  induction a; intros b H; destruct b; cbn [seq_eqb] in H; try discriminate.
  - destruct p, p0; try discriminate;
      repeat match goal with
      | H : _ && _ = true |- _ => apply andb_true_iff in H; destruct H
      | H : (_ =? _) = true |- _ => apply N.eqb_eq in H; subst
      | H : option_eqb N.eqb _ _ = true |- _ => apply opt_N_eq in H; subst
      end; reflexivity.
  - apply andb_true_iff in H. destruct H as [H1 H2]. now rewrite (IHa1 _ H1), (IHa2 _ H2).
  - apply andb_true_iff in H. destruct H as [H1 H2]. now rewrite (IHa1 _ H1), (IHa2 _ H2).
  - now rewrite (IHa _ H).
  - now rewrite (IHa _ H).
  - now rewrite (IHa _ H).
Qed.

Lemma not_known_same s : or_precedence s = false -> new_sequence_impl s = new_sequence_spec s.
Proof.
  unfold or_precedence. intros H. apply negb_false_iff in H.
  destruct (new_sequence_impl s), (new_sequence_spec s); cbn [sres_eqb] in H; try discriminate; try reflexivity.
  now rewrite (seq_eqb_eq _ _ H).
Qed.

(** ---------------------------------------------------------------- oracle of [check] on the model *)
Lemma ids_eqb_refl l : ids_eqb l l = true.
Proof. apply list_eqb_eq; [intros; apply N.eqb_eq|reflexivity]. Qed.

Lemma opt_ids_eqb_refl o : opt_ids_eqb o o = true.
Proof. destruct o; cbn; [apply ids_eqb_refl|reflexivity]. Qed.

Lemma aclres_eqb_refl r : aclres_eqb r r = true.
Proof. destruct r; cbn; try reflexivity. apply ids_eqb_refl. Qed.

Lemma validate_nonempty es : validate_acl es = true -> es <> [].
Proof. destruct es; [discriminate|discriminate]. Qed.

Lemma oracle_acl es validated ps : Forall entry_wf es ->
  (if validate_acl es
   then aclres_eqb (acl_result es validated ps) (AKept (ids (filter (acl_accepts es) ps)))
   else if validated then aclres_eqb (acl_result es validated ps) AErr else true) = true.
Proof.
  intros Hwf. unfold acl_result. destruct (validate_acl es) eqn:Ev.
  - rewrite andb_false_r. rewrite acl_eval_filter;
      [apply aclres_eqb_refl | now apply validate_nonempty | assumption | now apply validate_has_default].
  - destruct validated; reflexivity.
Qed.
