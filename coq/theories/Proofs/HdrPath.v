(** Lemmas about Model/HdrPath.v (C18 layers 1-2). *)
From Coq Require Import List Arith NArith ZArith Bool Lia ZifyN ZifyNat ZifyBool.
From Scion Require Import Lib.Bytes Lib.BytesX Lib.Check Model.HdrPath.
Import ListNotations.
Import HdrPath.
Local Open Scope N_scope.
Ltac Zify.zify_post_hook ::= Z.div_mod_to_equations.

(** ------------------------------------------------------------ flag bits *)
Lemma bit_mod4 f : b2n (bit f 0) + 2 * b2n (bit f 1) = f mod 4.
Proof.
  unfold bit, b2n. change (2^0) with 1. change (2^1) with 2.
  destruct (f / 1 mod 2 =? 1) eqn:E0; destruct (f / 2 mod 2 =? 1) eqn:E1; lia.
Qed.
Lemma bit_b2n a b : bit (b2n a + 2 * b2n b) 0 = a /\ bit (b2n a + 2 * b2n b) 1 = b.
Proof. destruct a, b; vm_compute; auto. Qed.
Lemma flags_lt a b : b2n a + 2 * b2n b < 256.
Proof. destruct a, b; vm_compute; reflexivity. Qed.

Ltac pow256 :=
  change (256 ^ N.of_nat 1) with 256 in *; change (256 ^ N.of_nat 2) with 65536 in *;
  change (256 ^ N.of_nat 4) with 4294967296 in *; change (256 ^ N.of_nat 6) with 281474976710656 in *;
  change (256 ^ N.of_nat 8) with 18446744073709551616 in *.
Ltac lt_pow := pow256; lia.

(** ------------------------------------------------------------ hop field *)
Lemma hop_encode_length h : length (hop_encode h) = hop_len.
Proof. unfold hop_encode, mac_len, hop_len. len_norm. reflexivity. Qed.

Lemma hop_dec_enc h rest : wf_hop h -> hop_decode (hop_encode h ++ rest) = Ok (h, rest).
Proof.
  intros (He & Hci & Hce & Hl & Hw). unfold hop_decode.
  rewrite ltb_false by (rewrite app_length, hop_encode_length; lia).
  unfold hop_encode. rewrite <- !app_assoc.
  rewrite wordP_be_small by (pose proof (flags_lt (h_egress_alert h) (h_ingress_alert h)); lt_pow).
  cbn [bind].
  do 3 (rewrite wordP_be_small by lt_pow; cbn [bind]).
  rewrite (fit_exact _ _ Hl). rewrite takeP_app' by exact Hl. cbn [bind].
  destruct (bit_b2n (h_egress_alert h) (h_ingress_alert h)) as [-> ->].
  destruct h; reflexivity.
Qed.

Lemma hop_enc_dec bs h rest : wf_bytes bs -> hop_decode bs = Ok (h, rest) ->
  hop_encode h ++ rest = mask_hop bs /\ wf_hop h /\ wf_bytes rest.
Proof.
  intros W. unfold hop_decode. destruct (Nat.ltb (length bs) hop_len); [discriminate|].
  do 4 inv_word. inv_take.
  intros H; inversion H; subst; clear H.
  unfold hop_encode; cbn [h_egress_alert h_ingress_alert h_exp h_ci h_ce h_mac].
  rewrite (fit_exact _ _ Ha). rewrite bit_mod4.
  split; [| split; [repeat split; cbn in *; try lia; assumption | assumption]].
  rewrite !be_1. cbn [mask_hop app]. rewrite <- !app_assoc. cbn [app].
  f_equal. cbn in Hn. lia.
Qed.

Lemma hop_no_panic bs : hop_decode bs <> Panic.
Proof.
  unfold hop_decode. destruct (Nat.ltb (length bs) hop_len) eqn:L; [discriminate|].
  apply Nat.ltb_ge in L. unfold hop_len in L.
  do 4 (np_word lia). np_take ltac:(unfold mac_len in *; lia). discriminate.
Qed.

Lemma hop_err_iff bs : hop_decode bs = Err <-> (length bs < hop_len)%nat.
Proof.
  split.
  - unfold hop_decode. destruct (Nat.ltb (length bs) hop_len) eqn:L.
    + intros _. now apply Nat.ltb_lt.
    + apply Nat.ltb_ge in L. unfold hop_len in L.
      do 4 (np_word lia). np_take ltac:(unfold mac_len in *; lia). discriminate.
  - intros H. unfold hop_decode. now rewrite ltb_true.
Qed.

Lemma mask_hop_length l : length (mask_hop l) = length l.
Proof. destruct l; reflexivity. Qed.

Lemma hop_decode_chunk c h r : wf_bytes c -> length c = hop_len -> hop_decode c = Ok (h, r) -> r = [].
Proof.
  intros W L H. apply (hop_enc_dec _ _ _ W) in H as (E & _ & _).
  apply (f_equal (@length _)) in E. rewrite app_length, hop_encode_length, mask_hop_length in E.
  destruct r; [reflexivity | cbn [length] in E; unfold hop_len in *; lia].
Qed.

(** ------------------------------------------------------------ info field *)
Lemma info_encode_length i : length (info_encode i) = info_len.
Proof. unfold info_encode, info_len. len_norm. reflexivity. Qed.

Lemma info_dec_enc i rest : wf_info i -> info_decode (info_encode i ++ rest) = Ok (i, rest).
Proof.
  intros (Hs & Ht). unfold info_decode.
  rewrite ltb_false by (rewrite app_length, info_encode_length; lia).
  unfold info_encode. rewrite <- !app_assoc.
  rewrite wordP_be_small by (pose proof (flags_lt (i_consdir i) (i_peer i)); lt_pow).
  cbn [bind].
  do 3 (rewrite wordP_be_small by lt_pow; cbn [bind]).
  destruct (bit_b2n (i_consdir i) (i_peer i)) as [-> ->].
  destruct i; reflexivity.
Qed.

Lemma info_enc_dec bs i rest : wf_bytes bs -> info_decode bs = Ok (i, rest) ->
  info_encode i ++ rest = mask_info bs /\ wf_info i /\ wf_bytes rest.
Proof.
  intros W. unfold info_decode. destruct (Nat.ltb (length bs) info_len); [discriminate|].
  do 4 inv_word.
  intros H; inversion H; subst; clear H.
  unfold info_encode; cbn [i_peer i_consdir i_segid i_ts].
  rewrite bit_mod4.
  split; [| split; [split; cbn in *; lia | assumption]].
  rewrite !be_1. cbn [mask_info app]. rewrite <- !app_assoc. cbn [app].
  f_equal. cbn in Hn. lia.
Qed.

Lemma info_no_panic bs : info_decode bs <> Panic.
Proof.
  unfold info_decode. destruct (Nat.ltb (length bs) info_len) eqn:L; [discriminate|].
  apply Nat.ltb_ge in L. unfold info_len in L.
  do 4 (np_word lia). discriminate.
Qed.

Lemma info_err_iff bs : info_decode bs = Err <-> (length bs < info_len)%nat.
Proof.
  split.
  - unfold info_decode. destruct (Nat.ltb (length bs) info_len) eqn:L.
    + intros _. now apply Nat.ltb_lt.
    + apply Nat.ltb_ge in L. unfold info_len in L.
      do 4 (np_word lia). discriminate.
  - intros H. unfold info_decode. now rewrite ltb_true.
Qed.

Lemma mask_info_length l : length (mask_info l) = length l.
Proof. destruct l as [|a [|b t]]; reflexivity. Qed.

Lemma info_decode_chunk c i r : wf_bytes c -> length c = info_len -> info_decode c = Ok (i, r) -> r = [].
Proof.
  intros W L H. apply (info_enc_dec _ _ _ W) in H as (E & _ & _).
  apply (f_equal (@length _)) in E. rewrite app_length, info_encode_length, mask_info_length in E.
  destruct r; [reflexivity | cbn [length] in E; unfold info_len in *; lia].
Qed.

(** ------------------------------------------------------------ meta header *)
Ltac pows :=
  change (2 ^ 30) with 1073741824 in *; change (2 ^ 24) with 16777216 in *;
  change (2 ^ 18) with 262144 in *; change (2 ^ 12) with 4096 in *; change (2 ^ 6) with 64 in *.

Lemma meta_line_lt m : meta_line m < 4294967296.
Proof. unfold meta_line. pows. lia. Qed.

(** [a / b] and [a mod b] from an explicit decomposition (keeps the proof terms small) *)
Lemma div_u a b q r : r < b -> a = b * q + r -> a / b = q.
Proof. intros H E. symmetry. now apply (N.div_unique a b q r). Qed.
Lemma mod_u a b q r : r < b -> a = b * q + r -> a mod b = r.
Proof. intros H E. symmetry. now apply (N.mod_unique a b q r). Qed.

(** a 32-bit line split into its 2+6+6+6+6+6 bit groups *)
Lemma line_groups line : line < 4294967296 ->
  exists a b r c d e, a < 4 /\ b < 64 /\ r < 64 /\ c < 64 /\ d < 64 /\ e < 64 /\
    line = a * 1073741824 + b * 16777216 + r * 262144 + c * 4096 + d * 64 + e.
Proof.
  intros H.
  pose proof (N.div_mod line 64 ltac:(discriminate)) as E0. pose proof (N.mod_lt line 64 ltac:(discriminate)) as L0.
  set (q0 := line / 64) in *. set (e := line mod 64) in *. clearbody q0 e.
  pose proof (N.div_mod q0 64 ltac:(discriminate)) as E1. pose proof (N.mod_lt q0 64 ltac:(discriminate)) as L1.
  set (q1 := q0 / 64) in *. set (d := q0 mod 64) in *. clearbody q1 d.
  pose proof (N.div_mod q1 64 ltac:(discriminate)) as E2. pose proof (N.mod_lt q1 64 ltac:(discriminate)) as L2.
  set (q2 := q1 / 64) in *. set (c := q1 mod 64) in *. clearbody q2 c.
  pose proof (N.div_mod q2 64 ltac:(discriminate)) as E3. pose proof (N.mod_lt q2 64 ltac:(discriminate)) as L3.
  set (q3 := q2 / 64) in *. set (r := q2 mod 64) in *. clearbody q3 r.
  pose proof (N.div_mod q3 64 ltac:(discriminate)) as E4. pose proof (N.mod_lt q3 64 ltac:(discriminate)) as L4.
  set (q4 := q3 / 64) in *. set (b := q3 mod 64) in *. clearbody q4 b.
  exists q4, b, r, c, d, e. repeat split; try assumption; lia.
Qed.

Lemma groups_fields a b r c d e : a < 4 -> b < 64 -> r < 64 -> c < 64 -> d < 64 -> e < 64 ->
  let line := a * 1073741824 + b * 16777216 + r * 262144 + c * 4096 + d * 64 + e in
  line / 1073741824 = a /\ (line / 16777216) mod 64 = b /\ (line / 262144) mod 64 = r /\
  (line / 4096) mod 64 = c /\ (line / 64) mod 64 = d /\ line mod 64 = e.
Proof.
  intros Ha Hb Hr Hc Hd He line. subst line.
  split; [apply div_u with (r := b * 16777216 + r * 262144 + c * 4096 + d * 64 + e); lia|].
  split.
  { rewrite (div_u _ 16777216 (a * 64 + b) (r * 262144 + c * 4096 + d * 64 + e)) by lia.
    apply mod_u with (q := a); lia. }
  split.
  { rewrite (div_u _ 262144 (a * 4096 + b * 64 + r) (c * 4096 + d * 64 + e)) by lia.
    apply mod_u with (q := a * 64 + b); lia. }
  split.
  { rewrite (div_u _ 4096 (a * 262144 + b * 4096 + r * 64 + c) (d * 64 + e)) by lia.
    apply mod_u with (q := a * 4096 + b * 64 + r); lia. }
  split.
  { rewrite (div_u _ 64 (a * 16777216 + b * 262144 + r * 4096 + c * 64 + d) e) by lia.
    apply mod_u with (q := a * 262144 + b * 4096 + r * 64 + c); lia. }
  apply mod_u with (q := a * 16777216 + b * 262144 + r * 4096 + c * 64 + d); lia.
Qed.

Lemma meta_of_line_line m : wf_meta m -> meta_of_line (meta_line m) = m.
Proof.
  intros (H1 & H2 & H3 & H4 & H5). destruct m as [ci ch s0 s1 s2]. cbn in *.
  unfold meta_of_line, meta_line. cbn [m_currinf m_currhf m_seg0 m_seg1 m_seg2]. pows.
  rewrite !N.mod_small by assumption.
  destruct (groups_fields ci ch 0 s0 s1 s2) as (F1 & F2 & _ & F4 & F5 & F6); try assumption; try lia.
  cbv zeta in *. rewrite N.mul_0_l, N.add_0_r in *. now rewrite F1, F2, F4, F5, F6.
Qed.

Lemma meta_line_of_line line : line < 4294967296 -> meta_line (meta_of_line line) = clear_rsv line.
Proof.
  intros H. destruct (line_groups line H) as (a & b & r & c & d & e & Ha & Hb & Hr & Hc & Hd & He & ->).
  destruct (groups_fields a b r c d e) as (F1 & F2 & F3 & F4 & F5 & F6); try assumption.
  cbv zeta in *.
  unfold meta_of_line, meta_line, clear_rsv. cbn [m_currinf m_currhf m_seg0 m_seg1 m_seg2]. pows.
  rewrite F1, F2, F3, F4, F5, F6. rewrite !N.mod_small by assumption. lia.
Qed.

Lemma wf_meta_of_line line : line < 4294967296 -> wf_meta (meta_of_line line).
Proof.
  intros H. destruct (line_groups line H) as (a & b & r & c & d & e & Ha & Hb & Hr & Hc & Hd & He & ->).
  destruct (groups_fields a b r c d e) as (F1 & F2 & F3 & F4 & F5 & F6); try assumption.
  cbv zeta in *.
  unfold wf_meta, meta_of_line. cbn [m_currinf m_currhf m_seg0 m_seg1 m_seg2]. pows.
  rewrite F1, F2, F4, F5, F6. auto.
Qed.

Lemma meta_encode_length m : length (meta_encode m) = meta_len.
Proof. unfold meta_encode. apply be_length. Qed.

Lemma meta_dec_enc m rest : wf_meta m -> meta_decode (meta_encode m ++ rest) = Ok (m, rest).
Proof.
  intros W. unfold meta_decode.
  rewrite ltb_false by (rewrite app_length, meta_encode_length; lia).
  unfold meta_encode. rewrite wordP_be_small by (pose proof (meta_line_lt m); lt_pow).
  cbn [bind]. now rewrite meta_of_line_line.
Qed.

(** clearing bits 18..23 of the line is clearing the six high bits of byte 1 *)
Lemma clear_rsv_bytes b0 b1 b2 b3 :
  b0 < 256 -> b1 < 256 -> b2 < 256 -> b3 < 256 ->
  clear_rsv (unbe [b0; b1; b2; b3]) = unbe [b0; b1 mod 4; b2; b3].
Proof.
  intros H0 H1 H2 H3. unfold clear_rsv, unbe. cbn [fold_left]. pows.
  pose proof (N.div_mod b1 4 ltac:(discriminate)) as E. pose proof (N.mod_lt b1 4 ltac:(discriminate)) as L.
  set (h := b1 / 4) in *. set (l := b1 mod 4) in *. clearbody h l. subst b1.
  rewrite (div_u _ 262144 (b0 * 64 + h) (l * 65536 + b2 * 256 + b3)) by lia.
  rewrite (mod_u (b0 * 64 + h) 64 b0 h) by lia. lia.
Qed.

Lemma be4_bytes line : line < 4294967296 ->
  exists b0 b1 b2 b3, be 4 line = [b0; b1; b2; b3] /\ b0 < 256 /\ b1 < 256 /\ b2 < 256 /\ b3 < 256.
Proof.
  intros _. pose proof (be_wf 4 line) as W. cbn [be] in *.
  do 4 eexists. split; [reflexivity|].
  inversion W as [|? ? A1 W1]; inversion W1 as [|? ? A2 W2]; inversion W2 as [|? ? A3 W3];
    inversion W3 as [|? ? A4 W4]. unfold wf_byte in *. auto.
Qed.

Lemma meta_mask_line line rest : line < 4294967296 ->
  be 4 (clear_rsv line) ++ rest = mask_meta (be 4 line ++ rest).
Proof.
  intros H. destruct (be4_bytes line H) as (b0 & b1 & b2 & b3 & E & H0 & H1 & H2 & H3).
  assert (L : line = unbe [b0; b1; b2; b3]).
  { rewrite <- E. rewrite unbe_be_small; [reflexivity | lt_pow]. }
  rewrite E. cbn [mask_meta app]. rewrite L, clear_rsv_bytes by assumption.
  change 4%nat with (length [b0; b1 mod 4; b2; b3]). rewrite be_unbe; [reflexivity|].
  repeat constructor; unfold wf_byte; lia.
Qed.

Lemma meta_enc_dec bs m rest : wf_bytes bs -> meta_decode bs = Ok (m, rest) ->
  meta_encode m ++ rest = mask_meta bs /\ wf_meta m /\ wf_bytes rest /\ rest = skipn meta_len bs.
Proof.
  intros W. unfold meta_decode. destruct (Nat.ltb (length bs) meta_len); [discriminate|].
  inv_word. intros H; inversion H; subst; clear H.
  assert (Hl : n < 4294967296) by (cbn in Hn; lia).
  unfold meta_encode. rewrite meta_line_of_line by exact Hl.
  split; [now apply meta_mask_line|]. split; [now apply wf_meta_of_line|]. split; [assumption|].
  now rewrite skipn_app_exact by apply be_length.
Qed.

Lemma meta_no_panic bs : meta_decode bs <> Panic.
Proof.
  unfold meta_decode. destruct (Nat.ltb (length bs) meta_len) eqn:L; [discriminate|].
  apply Nat.ltb_ge in L. unfold meta_len in L. np_word lia. discriminate.
Qed.

Lemma meta_err_iff bs : meta_decode bs = Err <-> (length bs < meta_len)%nat.
Proof.
  split.
  - unfold meta_decode. destruct (Nat.ltb (length bs) meta_len) eqn:L.
    + intros _. now apply Nat.ltb_lt.
    + apply Nat.ltb_ge in L. unfold meta_len in L. np_word lia. discriminate.
  - intros H. unfold meta_decode. now rewrite ltb_true.
Qed.

Lemma mask_meta_length l : length (mask_meta l) = length l.
Proof. destruct l as [|a [|b t]]; reflexivity. Qed.

Lemma meta_decode_length bs m r : meta_decode bs = Ok (m, r) -> length bs = (meta_len + length r)%nat.
Proof.
  unfold meta_decode. destruct (Nat.ltb (length bs) meta_len); [discriminate|].
  destruct (wordP 4 bs) as [[n r']| |] eqn:E; cbn [bind]; try discriminate.
  intros H; inversion H; subst. now apply wordP_rest_length in E.
Qed.

(** ------------------------------------------------------------ Base *)
Lemma base_of_meta_meta m b : base_of_meta m = Ok b -> b_meta b = m.
Proof.
  unfold base_of_meta.
  destruct (fold_left base_step _ _) as [[ninf nh]| |]; cbn [bind]; try discriminate.
  destruct (max_hops <? nh); [discriminate|]. intros H; inversion H; reflexivity.
Qed.

Lemma base_of_meta_no_panic m : base_of_meta m <> Panic.
Proof.
  unfold base_of_meta. cbn [fold_left]. unfold base_step at 3. cbn [bind].
  destruct ((m_seg2 m =? 0) && (0 <? 0)); [discriminate|].
  unfold base_step at 2. cbn [bind].
  match goal with |- context [if ?c then Err else Ok ?v] => destruct c; [discriminate|] end.
  unfold base_step at 1. cbn [bind].
  match goal with |- context [if ?c then Err else Ok ?v] => destruct c; [discriminate|] end.
  cbn [bind]. match goal with |- context [if ?c then Err else Ok ?v] => destruct c; discriminate end.
Qed.

Lemma base_of_meta_hops m b : base_of_meta m = Ok b -> b_numhops b <= 64 /\ b_numinf b <= 3.
Proof.
  unfold base_of_meta. cbn [fold_left]. unfold base_step at 3. cbn [bind].
  destruct ((m_seg2 m =? 0) && (0 <? 0)); [discriminate|].
  unfold base_step at 2. cbn [bind].
  match goal with |- context [if ?c then Err else Ok ?v] => destruct c; [discriminate|] end.
  unfold base_step at 1. cbn [bind].
  match goal with |- context [if ?c then Err else Ok ?v] => destruct c; [discriminate|] end.
  cbn [bind].
  match goal with |- context [if ?c then Err else Ok ?v] => destruct c eqn:E; [discriminate|] end.
  intros H; inversion H; subst; clear H. cbn [b_numhops b_numinf]. unfold max_hops in E.
  split; [lia|].
  repeat match goal with |- context [if ?c then _ else _] => destruct c end; lia.
Qed.

Lemma base_decode_no_panic bs : base_decode bs <> Panic.
Proof.
  unfold base_decode. pose proof (meta_no_panic bs).
  destruct (meta_decode bs) as [[m r]| |]; cbn [bind]; try congruence.
  pose proof (base_of_meta_no_panic m). destruct (base_of_meta m); cbn [bind]; congruence.
Qed.

Lemma base_decode_inv bs b r : wf_bytes bs -> base_decode bs = Ok (b, r) ->
  meta_decode bs = Ok (b_meta b, r) /\ base_of_meta (b_meta b) = Ok b.
Proof.
  intros W. unfold base_decode.
  destruct (meta_decode bs) as [[m r']| |] eqn:E; cbn [bind]; try discriminate.
  destruct (base_of_meta m) as [b'| |] eqn:Eb; cbn [bind]; try discriminate.
  intros H; inversion H; subst. pose proof (base_of_meta_meta _ _ Eb) as ->. auto.
Qed.

Lemma base_len_ge b : (meta_len <= base_len b)%nat.
Proof. unfold base_len. lia. Qed.

(** ------------------------------------------------------------ scion.Raw *)
Lemma raw_encode_ok p : wf_raw p ->
  raw_encode p = Ok (meta_encode (b_meta (rp_base p)) ++ skipn meta_len (rp_raw p)) /\
  length (meta_encode (b_meta (rp_base p)) ++ skipn meta_len (rp_raw p)) = base_len (rp_base p).
Proof.
  intros (Wm & Hb & Hl & Wr). pose proof (base_len_ge (rp_base p)) as G.
  assert (L : length (meta_encode (b_meta (rp_base p)) ++ skipn meta_len (rp_raw p)) = base_len (rp_base p)).
  { rewrite app_length, meta_encode_length, skipn_length. lia. }
  unfold raw_encode. rewrite ltb_false by lia. now rewrite fit_exact.
Qed.

Lemma raw_dec_enc p rest : wf_raw p ->
  exists e, raw_encode p = Ok e /\ raw_decode (e ++ rest) = Ok (mkRaw (rp_base p) e, rest).
Proof.
  intros W. destruct (raw_encode_ok p W) as [E L]. destruct W as (Wm & Hb & Hl & Wr).
  eexists. split; [exact E|].
  unfold raw_decode, base_decode. rewrite <- app_assoc.
  rewrite meta_dec_enc by exact Wm. cbn [bind]. rewrite Hb. cbn [bind].
  rewrite app_assoc. rewrite ltb_false by (rewrite app_length; lia).
  rewrite takeP_app' by exact L. reflexivity.
Qed.

Lemma raw_enc_dec bs p rest : wf_bytes bs -> raw_decode bs = Ok (p, rest) ->
  exists e, raw_encode p = Ok e /\ e ++ rest = mask_meta bs /\ wf_raw p /\ wf_bytes rest /\
            length bs = (base_len (rp_base p) + length rest)%nat.
Proof.
  intros W. unfold raw_decode.
  destruct (base_decode bs) as [[b r0]| |] eqn:Eb; cbn [bind]; try discriminate.
  destruct (Nat.ltb (length bs) (base_len b)) eqn:L; [discriminate|]. apply Nat.ltb_ge in L.
  destruct (takeP (base_len b) bs) as [[raw rest']| |] eqn:Et; cbn [bind]; try discriminate.
  intros H; inversion H; subst; clear H.
  destruct (base_decode_inv _ _ _ W Eb) as [Em Hb].
  destruct (meta_enc_dec _ _ _ W Em) as (Emask & Wm & Wr0 & Hr0).
  pose proof (takeP_wf _ _ _ _ W Et) as [Wraw Wrest].
  apply takeP_inv in Et as [-> Hlen].
  pose proof (base_len_ge b) as G.
  assert (wf_raw (mkRaw b raw)) as WR
    by (split; [exact Wm | split; [exact Hb | split; [exact Hlen | exact Wraw]]]).
  destruct (raw_encode_ok _ WR) as [E _]. cbn [rp_base rp_raw] in E.
  eexists. split; [exact E|]. split; [| split; [exact WR | split; [exact Wrest|]]].
  - rewrite <- Emask, <- app_assoc. f_equal. rewrite Hr0. now rewrite skipn_app_le by lia.
  - cbn [rp_base]. rewrite app_length. lia.
Qed.

Lemma raw_no_panic bs : raw_decode bs <> Panic.
Proof.
  unfold raw_decode. pose proof (base_decode_no_panic bs).
  destruct (base_decode bs) as [[b r0]| |]; cbn [bind]; try congruence.
  destruct (Nat.ltb (length bs) (base_len b)) eqn:L; [discriminate|]. apply Nat.ltb_ge in L.
  np_take lia. discriminate.
Qed.

Lemma raw_reject_short bs b r : base_decode bs = Ok (b, r) -> (length bs < base_len b)%nat ->
  raw_decode bs = Err.
Proof. intros E L. unfold raw_decode. rewrite E. cbn [bind]. now rewrite ltb_true. Qed.

(** ------------------------------------------------------------ read_list *)
Section ReadList.
Context {A : Type} (k : nat) (dec : bytes -> res (A * bytes)) (enc : A -> bytes)
        (wf : A -> Prop) (mask : bytes -> bytes).
Hypothesis enc_len : forall x, length (enc x) = k.
Hypothesis mask_len : forall l, length (mask l) = length l.
Hypothesis dec_enc : forall x rest, wf x -> dec (enc x ++ rest) = Ok (x, rest).
Hypothesis enc_dec : forall bs x rest, wf_bytes bs -> dec bs = Ok (x, rest) ->
  enc x ++ rest = mask bs /\ wf x /\ wf_bytes rest.
Hypothesis no_panic : forall bs, dec bs <> Panic.
Hypothesis err_iff : forall bs, dec bs = Err <-> (length bs < k)%nat.

Lemma read_list_enc xs rest : Forall wf xs ->
  read_list k dec (length xs) (concat (map enc xs) ++ rest) = Ok (xs, rest).
Proof.
  induction 1 as [|x xs Hx Hxs IH]; [reflexivity|].
  cbn [length map concat read_list]. rewrite <- app_assoc.
  rewrite takeP_app' by apply enc_len. cbn [bind].
  rewrite <- (app_nil_r (enc x)), dec_enc by exact Hx. cbn [bind].
  rewrite IH. reflexivity.
Qed.

Lemma read_list_inv n : forall r xs r', wf_bytes r -> read_list k dec n r = Ok (xs, r') ->
  length xs = n /\ Forall wf xs /\ wf_bytes r' /\ length r = (n * k + length r')%nat /\
  forall cont, mask_chunks k mask n cont r = concat (map enc xs) ++ cont r'.
Proof.
  induction n as [|n IH]; intros r xs r' W; cbn [read_list].
  - intros H; injection H as <- <-. repeat split; auto.
  - destruct (takeP k r) as [[a r0]| |] eqn:Et; cbn [bind]; try discriminate.
    pose proof (takeP_wf _ _ _ _ W Et) as [Wa W0].
    apply takeP_inv in Et as (-> & Ha).
    destruct (dec a) as [[x rx]| |] eqn:Ed; cbn [bind]; try discriminate.
    destruct (read_list k dec n r0) as [[xs' r'']| |] eqn:Er; cbn [bind]; try discriminate.
    intros H; injection H as <- <-.
    destruct (enc_dec _ _ _ Wa Ed) as (Em & Wx & Wrx).
    assert (rx = []) as ->.
    { apply (f_equal (@length _)) in Em. rewrite app_length, enc_len, mask_len in Em.
      destruct rx; [reflexivity | cbn in Em; lia]. }
    rewrite app_nil_r in Em.
    destruct (IH _ _ _ W0 Er) as (Hl & Hf & Wr' & Hlen & Hm).
    repeat split.
    + cbn. now rewrite Hl.
    + now constructor.
    + assumption.
    + rewrite app_length. lia.
    + intros cont. cbn [mask_chunks map concat].
      rewrite firstn_app_exact by exact Ha. rewrite skipn_app_exact by exact Ha.
      rewrite Hm, <- Em, <- app_assoc. reflexivity.
Qed.

Lemma read_list_no_panic n : forall r, (n * k <= length r)%nat -> read_list k dec n r <> Panic.
Proof.
  induction n as [|n IH]; intros r L; cbn [read_list]; [discriminate|].
  np_take lia.
  pose proof (no_panic a). pose proof (err_iff a) as EI.
  pose proof (takeP_inv _ _ _ _ E) as [_ Hla].
  destruct (dec a) as [[x rx]| |]; cbn [bind]; try congruence.
  assert (Hn : (n * k <= length r0)%nat) by lia.
  specialize (IH r0 Hn).
  destruct (read_list k dec n r0) as [[xs r'']| |]; cbn [bind]; congruence.
Qed.

Lemma read_list_not_err n : forall r, (n * k <= length r)%nat -> read_list k dec n r <> Err.
Proof.
  induction n as [|n IH]; intros r L; cbn [read_list]; [discriminate|].
  destruct (takeP k r) as [[a r0]| |] eqn:E; cbn [bind]; try discriminate.
  2:{ now apply takeP_not_err in E. }
  pose proof (takeP_rest_length _ _ _ _ E). pose proof (takeP_inv _ _ _ _ E) as [_ Hla].
  pose proof (err_iff a) as EI.
  destruct (dec a) as [[x rx]| |]; cbn [bind]; try discriminate.
  2:{ intros _. assert (length a < k)%nat by now apply EI. lia. }
  assert (Hn : (n * k <= length r0)%nat) by lia. specialize (IH r0 Hn).
  destruct (read_list k dec n r0) as [[xs r'']| |]; cbn [bind]; congruence.
Qed.
End ReadList.

Lemma read_list_length {A} k (dec : bytes -> res (A * bytes)) n : forall r xs r', read_list k dec n r = Ok (xs, r') ->
  length r = (n * k + length r')%nat.
Proof.
  induction n as [|n IH]; intros r xs r'; cbn [read_list].
  - intros H; injection H as <- <-. lia.
  - destruct (takeP k r) as [[a r0]| |] eqn:Et; cbn [bind]; try discriminate.
    destruct (dec a) as [[x rx]| |]; cbn [bind]; try discriminate.
    destruct (read_list k dec n r0) as [[xs' r'']| |] eqn:Er; cbn [bind]; try discriminate.
    intros H; injection H as <- <-. apply takeP_rest_length in Et. apply IH in Er. lia.
Qed.


Definition read_infos_enc := read_list_enc info_len info_decode info_encode wf_info
  info_encode_length info_dec_enc.
Definition read_hops_enc := read_list_enc hop_len hop_decode hop_encode wf_hop
  hop_encode_length hop_dec_enc.
Definition read_infos_inv := read_list_inv info_len info_decode info_encode wf_info mask_info
  info_encode_length mask_info_length info_dec_enc info_enc_dec info_no_panic info_err_iff.
Definition read_hops_inv := read_list_inv hop_len hop_decode hop_encode wf_hop mask_hop
  hop_encode_length mask_hop_length hop_dec_enc hop_enc_dec hop_no_panic hop_err_iff.
Definition read_infos_no_panic := read_list_no_panic info_len info_decode info_encode wf_info mask_info
  info_encode_length mask_info_length info_dec_enc info_enc_dec info_no_panic info_err_iff.
Definition read_hops_no_panic := read_list_no_panic hop_len hop_decode hop_encode wf_hop mask_hop
  hop_encode_length mask_hop_length hop_dec_enc hop_enc_dec hop_no_panic hop_err_iff.
Definition read_infos_not_err := read_list_not_err info_len info_decode info_encode wf_info mask_info
  info_encode_length mask_info_length info_dec_enc info_enc_dec info_no_panic info_err_iff.
Definition read_hops_not_err := read_list_not_err hop_len hop_decode hop_encode wf_hop mask_hop
  hop_encode_length mask_hop_length hop_dec_enc hop_enc_dec hop_no_panic hop_err_iff.

(** ------------------------------------------------------------ scion.Decoded *)
Lemma concat_length_const {A} (f : A -> bytes) k xs :
  (forall x, length (f x) = k) -> length (concat (map f xs)) = (length xs * k)%nat.
Proof.
  intros H. induction xs as [|x xs IH]; [reflexivity|].
  cbn [map concat length]. rewrite app_length, H, IH. lia.
Qed.

Lemma dec_encode_ok d : wf_dec d ->
  dec_encode d = Ok (meta_encode (b_meta (dp_base d)) ++ concat (map info_encode (dp_infos d)) ++
                     concat (map hop_encode (dp_hops d))) /\
  length (meta_encode (b_meta (dp_base d)) ++ concat (map info_encode (dp_infos d)) ++
          concat (map hop_encode (dp_hops d))) = base_len (dp_base d).
Proof.
  intros (Wm & Hb & Li & Lh & Wi & Wh). split.
  - unfold dec_encode. rewrite Li, Lh, !Nat.eqb_refl. reflexivity.
  - rewrite !app_length, meta_encode_length.
    rewrite (concat_length_const info_encode info_len) by apply info_encode_length.
    rewrite (concat_length_const hop_encode hop_len) by apply hop_encode_length.
    unfold base_len. lia.
Qed.

Lemma dec_dec_enc d rest : wf_dec d ->
  exists e, dec_encode d = Ok e /\ dec_decode (e ++ rest) = Ok (d, rest).
Proof.
  intros W. destruct (dec_encode_ok d W) as [E L]. destruct W as (Wm & Hb & Li & Lh & Wi & Wh).
  eexists. split; [exact E|].
  unfold dec_decode, base_decode.
  rewrite <- !app_assoc. rewrite meta_dec_enc by exact Wm. cbn [bind]. rewrite Hb. cbn [bind].
  rewrite ltb_false by (rewrite !app_length in *; lia).
  rewrite <- Li. rewrite read_infos_enc by exact Wi. cbn [bind].
  rewrite <- Lh. rewrite read_hops_enc by exact Wh. cbn [bind].
  destruct d as [b is hs]. reflexivity.
Qed.

Lemma base_decode_rest bs b r : wf_bytes bs -> base_decode bs = Ok (b, r) ->
  r = skipn meta_len bs /\ wf_bytes r /\ length bs = (meta_len + length r)%nat /\
  meta_encode (b_meta b) ++ r = mask_meta bs /\ wf_meta (b_meta b).
Proof.
  intros W E. destruct (base_decode_inv _ _ _ W E) as [Em Hb].
  destruct (meta_enc_dec _ _ _ W Em) as (Emask & Wm & Wr0 & Hr0).
  pose proof (meta_decode_length _ _ _ Em). auto.
Qed.

Lemma dec_enc_dec bs d rest : wf_bytes bs -> dec_decode bs = Ok (d, rest) ->
  exists e, dec_encode d = Ok e /\ e ++ rest = mask_dec bs /\ wf_dec d /\ wf_bytes rest /\
            length bs = (base_len (dp_base d) + length rest)%nat.
Proof.
  intros W. unfold dec_decode.
  destruct (base_decode bs) as [[b r0]| |] eqn:Eb; cbn [bind]; try discriminate.
  destruct (Nat.ltb (length bs) (base_len b)) eqn:L; [discriminate|]. apply Nat.ltb_ge in L.
  destruct (read_list info_len info_decode (N.to_nat (b_numinf b)) r0) as [[is r1]| |] eqn:Ei;
    cbn [bind]; try discriminate.
  destruct (read_list hop_len hop_decode (N.to_nat (b_numhops b)) r1) as [[hs r2]| |] eqn:Eh;
    cbn [bind]; try discriminate.
  intros H; injection H as <- <-.
  destruct (base_decode_rest _ _ _ W Eb) as (Hr0 & Wr0 & Hlen & Emask & Wm).
  destruct (base_decode_inv _ _ _ W Eb) as [_ Hb].
  destruct (read_infos_inv _ _ _ _ Wr0 Ei) as (Li & Wi & Wr1 & Hl1 & Mi).
  destruct (read_hops_inv _ _ _ _ Wr1 Eh) as (Lh & Wh & Wr2 & Hl2 & Mh).
  assert (WD : wf_dec (mkDec b is hs)).
  { split; [exact Wm | split; [exact Hb | split; [exact Li | split; [exact Lh | split; assumption]]]]. }
  destruct (dec_encode_ok _ WD) as [E _]. cbn [dp_base dp_infos dp_hops] in E.
  eexists. split; [exact E|]. split; [| split; [exact WD | split; [exact Wr2|]]].
  - unfold mask_dec. rewrite Eb. rewrite <- Hr0. rewrite Mi, Mh.
    rewrite <- Emask. rewrite firstn_app_exact by apply meta_encode_length.
    rewrite <- !app_assoc. reflexivity.
  - cbn [dp_base]. unfold base_len. lia.
Qed.

Lemma base_decode_length bs b r0 : base_decode bs = Ok (b, r0) -> length bs = (meta_len + length r0)%nat.
Proof.
  unfold base_decode. intros Eb.
  destruct (meta_decode bs) as [[m r']| |] eqn:Em; cbn [bind] in Eb; try discriminate.
  destruct (base_of_meta m); cbn [bind] in Eb; try discriminate.
  injection Eb as <- <-. now apply meta_decode_length in Em.
Qed.

Lemma dec_no_panic bs : dec_decode bs <> Panic.
Proof.
  unfold dec_decode. pose proof (base_decode_no_panic bs).
  destruct (base_decode bs) as [[b r0]| |] eqn:Eb; cbn [bind]; try congruence.
  destruct (Nat.ltb (length bs) (base_len b)) eqn:L; [discriminate|]. apply Nat.ltb_ge in L.
  pose proof (base_decode_length _ _ _ Eb) as Hlen. unfold base_len in L.
  pose proof (read_infos_no_panic (N.to_nat (b_numinf b)) r0) as Pi.
  destruct (read_list info_len info_decode (N.to_nat (b_numinf b)) r0) as [[is r1]| |] eqn:Ei;
    cbn [bind]; try discriminate.
  2:{ exfalso. apply Pi; [lia | reflexivity]. }
  apply read_list_length in Ei.
  pose proof (read_hops_no_panic (N.to_nat (b_numhops b)) r1) as Ph.
  destruct (read_list hop_len hop_decode (N.to_nat (b_numhops b)) r1) as [[hs r2]| |] eqn:Eh;
    cbn [bind]; try discriminate.
  exfalso. apply Ph; [lia | reflexivity].
Qed.

Lemma dec_reject_short bs b r : base_decode bs = Ok (b, r) -> (length bs < base_len b)%nat ->
  dec_decode bs = Err.
Proof. intros E L. unfold dec_decode. rewrite E. cbn [bind]. now rewrite ltb_true. Qed.

(** raw and decoded form accept the same byte strings *)
Lemma raw_dec_accept_same bs : wf_bytes bs -> (is_ok (raw_decode bs) = is_ok (dec_decode bs)).
Proof.
  intros W. unfold raw_decode, dec_decode.
  destruct (base_decode bs) as [[b r0]| |] eqn:Eb; cbn [bind]; try reflexivity.
  destruct (Nat.ltb (length bs) (base_len b)) eqn:L; [reflexivity|]. apply Nat.ltb_ge in L.
  pose proof (base_decode_length _ _ _ Eb) as Hlen. unfold base_len in L.
  rewrite takeP_ok by (unfold base_len; lia). cbn [bind is_ok].
  pose proof (read_infos_no_panic (N.to_nat (b_numinf b)) r0) as Pi.
  pose proof (read_infos_not_err (N.to_nat (b_numinf b)) r0) as Qi.
  destruct (read_list info_len info_decode (N.to_nat (b_numinf b)) r0) as [[is r1]| |] eqn:Ei;
    cbn [bind].
  2:{ exfalso. apply Qi; [lia | reflexivity]. }
  2:{ exfalso. apply Pi; [lia | reflexivity]. }
  apply read_list_length in Ei.
  pose proof (read_hops_no_panic (N.to_nat (b_numhops b)) r1) as Ph.
  pose proof (read_hops_not_err (N.to_nat (b_numhops b)) r1) as Qh.
  destruct (read_list hop_len hop_decode (N.to_nat (b_numhops b)) r1) as [[hs r2]| |] eqn:Eh;
    cbn [bind]; [reflexivity | |].
  - exfalso. apply Qh; [lia | reflexivity].
  - exfalso. apply Ph; [lia | reflexivity].
Qed.

(** ------------------------------------------------------------ one-hop path *)
Lemma onehop_encode_length o : length (onehop_encode o) = onehop_len.
Proof.
  unfold onehop_encode. rewrite !app_length, info_encode_length, !hop_encode_length. reflexivity.
Qed.

Lemma onehop_dec_enc o rest : wf_onehop o -> onehop_decode (onehop_encode o ++ rest) = Ok (o, rest).
Proof.
  intros (Wi & W1 & W2). unfold onehop_decode.
  rewrite ltb_false by (rewrite app_length, onehop_encode_length; lia).
  unfold onehop_encode. rewrite <- !app_assoc.
  rewrite takeP_app' by apply info_encode_length. cbn [bind].
  rewrite <- (app_nil_r (info_encode _)), info_dec_enc by exact Wi. cbn [bind].
  rewrite takeP_app' by apply hop_encode_length. cbn [bind].
  rewrite <- (app_nil_r (hop_encode (oh_first o))), hop_dec_enc by exact W1. cbn [bind].
  rewrite takeP_app' by apply hop_encode_length. cbn [bind].
  rewrite <- (app_nil_r (hop_encode (oh_second o))), hop_dec_enc by exact W2. cbn [bind].
  destruct o; reflexivity.
Qed.

Lemma onehop_enc_dec bs o rest : wf_bytes bs -> onehop_decode bs = Ok (o, rest) ->
  onehop_encode o ++ rest = mask_onehop bs /\ wf_onehop o /\ wf_bytes rest /\
  length bs = (onehop_len + length rest)%nat.
Proof.
  intros W. unfold onehop_decode. destruct (Nat.ltb (length bs) onehop_len); [discriminate|].
  destruct (takeP info_len bs) as [[c0 r0]| |] eqn:E0; cbn [bind]; try discriminate.
  pose proof (takeP_wf _ _ _ _ W E0) as [Wc0 Wr0]. apply takeP_inv in E0 as (-> & L0).
  destruct (info_decode c0) as [[i ri]| |] eqn:Ei; cbn [bind]; try discriminate.
  destruct (takeP hop_len r0) as [[c1 r1]| |] eqn:E1; cbn [bind]; try discriminate.
  pose proof (takeP_wf _ _ _ _ Wr0 E1) as [Wc1 Wr1]. apply takeP_inv in E1 as (-> & L1).
  destruct (hop_decode c1) as [[h1 rh1]| |] eqn:Eh1; cbn [bind]; try discriminate.
  destruct (takeP hop_len r1) as [[c2 r2]| |] eqn:E2; cbn [bind]; try discriminate.
  pose proof (takeP_wf _ _ _ _ Wr1 E2) as [Wc2 Wr2]. apply takeP_inv in E2 as (-> & L2).
  destruct (hop_decode c2) as [[h2 rh2]| |] eqn:Eh2; cbn [bind]; try discriminate.
  intros H; injection H as <- <-.
  pose proof (info_decode_chunk _ _ _ Wc0 L0 Ei) as ->.
  pose proof (hop_decode_chunk _ _ _ Wc1 L1 Eh1) as ->.
  pose proof (hop_decode_chunk _ _ _ Wc2 L2 Eh2) as ->.
  destruct (info_enc_dec _ _ _ Wc0 Ei) as (Mi & Wi & _).
  destruct (hop_enc_dec _ _ _ Wc1 Eh1) as (M1 & W1 & _).
  destruct (hop_enc_dec _ _ _ Wc2 Eh2) as (M2 & W2 & _).
  rewrite app_nil_r in Mi, M1, M2.
  split; [| split; [split; [exact Wi | split; [exact W1 | exact W2]] | split; [exact Wr2|]]].
  - unfold onehop_encode, mask_onehop. cbn [mask_chunks oh_info oh_first oh_second].
    rewrite firstn_app_exact by exact L0. rewrite skipn_app_exact by exact L0.
    rewrite firstn_app_exact by exact L1. rewrite skipn_app_exact by exact L1.
    rewrite firstn_app_exact by exact L2. rewrite skipn_app_exact by exact L2.
    rewrite Mi, M1, M2, <- !app_assoc. reflexivity.
  - rewrite !app_length, L0, L1, L2. reflexivity.
Qed.

Lemma onehop_no_panic bs : onehop_decode bs <> Panic.
Proof.
  unfold onehop_decode. destruct (Nat.ltb (length bs) onehop_len) eqn:L; [discriminate|].
  apply Nat.ltb_ge in L. unfold onehop_len in L.
  np_take ltac:(unfold info_len in *; lia).
  pose proof (info_no_panic a). destruct (info_decode a) as [[i ri]| |]; cbn [bind]; try congruence.
  np_take ltac:(unfold info_len, hop_len in *; lia).
  pose proof (hop_no_panic a0). destruct (hop_decode a0) as [[h1 rh]| |]; cbn [bind]; try congruence.
  np_take ltac:(unfold info_len, hop_len in *; lia).
  pose proof (hop_no_panic a1). destruct (hop_decode a1) as [[h2 rh2]| |]; cbn [bind]; congruence.
Qed.

Lemma onehop_err_iff bs : onehop_decode bs = Err <-> (length bs < onehop_len)%nat.
Proof.
  split.
  - unfold onehop_decode. destruct (Nat.ltb (length bs) onehop_len) eqn:L.
    + intros _. now apply Nat.ltb_lt.
    + apply Nat.ltb_ge in L. unfold onehop_len in L.
      np_take ltac:(unfold info_len in *; lia).
      pose proof (takeP_inv _ _ _ _ E) as [_ La].
      pose proof (info_err_iff a) as Ia.
      destruct (info_decode a) as [[i ri]| |]; cbn [bind]; try discriminate.
      2:{ intros _. assert (length a < info_len)%nat by now apply Ia. lia. }
      np_take ltac:(unfold info_len, hop_len in *; lia).
      pose proof (takeP_inv _ _ _ _ E0) as [_ La0].
      pose proof (hop_err_iff a0) as Ia0.
      destruct (hop_decode a0) as [[h1 rh]| |]; cbn [bind]; try discriminate.
      2:{ intros _. assert (length a0 < hop_len)%nat by now apply Ia0. lia. }
      np_take ltac:(unfold info_len, hop_len in *; lia).
      pose proof (takeP_inv _ _ _ _ E1) as [_ La1].
      pose proof (hop_err_iff a1) as Ia1.
      destruct (hop_decode a1) as [[h2 rh2]| |]; cbn [bind]; try discriminate.
      intros _. assert (length a1 < hop_len)%nat by now apply Ia1. lia.
  - intros H. unfold onehop_decode. now rewrite ltb_true.
Qed.

(** ------------------------------------------------------------ EPIC path *)
Lemma epic_dec_enc e rest : wf_epic e ->
  exists bs, epic_encode e = Ok bs /\
    exists sp, raw_encode (ep_scion e) = Ok sp /\
    epic_decode (bs ++ rest) =
      Ok (mkEpic (ep_ts e) (ep_ctr e) (ep_phvf e) (ep_lhvf e) (mkRaw (rp_base (ep_scion e)) sp), rest).
Proof.
  intros (Ht & Hc & Lp & Wp & Ll & Wl & Wr).
  destruct (raw_dec_enc (ep_scion e) rest Wr) as (sp & Es & Ds).
  unfold epic_encode. rewrite Lp, Ll, Nat.eqb_refl. cbn [negb]. rewrite Es. cbn [bind].
  eexists. split; [reflexivity|]. exists sp. split; [reflexivity|].
  unfold epic_decode.
  rewrite ltb_false by (rewrite !app_length, !be_length, Lp, Ll; unfold epic_meta_len, hvf_len; lia).
  rewrite <- !app_assoc.
  do 2 (rewrite wordP_be_small by lt_pow; cbn [bind]).
  rewrite takeP_app' by exact Lp. cbn [bind].
  rewrite takeP_app' by exact Ll. cbn [bind].
  rewrite Ds. reflexivity.
Qed.

Lemma epic_enc_dec bs e rest : wf_bytes bs -> epic_decode bs = Ok (e, rest) ->
  exists en, epic_encode e = Ok en /\ en ++ rest = mask_epic bs /\ wf_epic e /\ wf_bytes rest /\
    length bs = (epic_meta_len + base_len (rp_base (ep_scion e)) + length rest)%nat.
Proof.
  intros W. unfold epic_decode. destruct (Nat.ltb (length bs) epic_meta_len); [discriminate|].
  do 2 inv_word. do 2 inv_take.
  destruct (raw_decode r0) as [[sp rest']| |] eqn:Er; cbn [bind]; try discriminate.
  intros H; injection H as <- <-.
  destruct (raw_enc_dec _ _ _ W3 Er) as (es & Ees & Mes & Wsp & Wrest & Lr).
  unfold epic_encode. cbn [ep_ts ep_ctr ep_phvf ep_lhvf ep_scion].
  rewrite Ha, Ha0, Nat.eqb_refl. cbn [negb]. rewrite Ees. cbn [bind].
  eexists. split; [reflexivity|].
  split; [| split; [| split; [exact Wrest|]]].
  - unfold mask_epic.
    replace (be 4 n ++ be 4 n0 ++ a ++ a0 ++ r0) with ((be 4 n ++ be 4 n0 ++ a ++ a0) ++ r0)
      by (now rewrite <- !app_assoc).
    assert (L16 : length (be 4 n ++ be 4 n0 ++ a ++ a0) = epic_meta_len)
      by (rewrite !app_length, !be_length, Ha, Ha0; reflexivity).
    rewrite firstn_app_exact by exact L16. rewrite skipn_app_exact by exact L16.
    rewrite <- Mes, <- !app_assoc. reflexivity.
  - unfold wf_epic. cbn [ep_ts ep_ctr ep_phvf ep_lhvf ep_scion]. pow256.
    repeat (split; [first [assumption | lia]|]). exact Wsp.
  - rewrite !app_length, !be_length, Ha, Ha0, Lr. unfold epic_meta_len, hvf_len. lia.
Qed.

Lemma epic_no_panic bs : epic_decode bs <> Panic.
Proof.
  unfold epic_decode. destruct (Nat.ltb (length bs) epic_meta_len) eqn:L; [discriminate|].
  apply Nat.ltb_ge in L. unfold epic_meta_len in L.
  do 2 (np_word lia). do 2 (np_take ltac:(unfold hvf_len in *; lia)).
  pose proof (raw_no_panic r2). destruct (raw_decode r2) as [[sp rest]| |]; cbn [bind]; congruence.
Qed.

(** ------------------------------------------------------------ path dispatch *)
Lemma path_no_panic pt bs : path_decode pt bs <> Panic.
Proof.
  unfold path_decode.
  pose proof (epic_no_panic bs). pose proof (onehop_no_panic bs). pose proof (raw_no_panic bs).
  destruct pt as [|[[|[]|]|[|[]|]|]]; try discriminate.
  all: try (destruct (epic_decode bs) as [[e r]| |]; cbn [bind]; congruence).
  all: try (destruct (onehop_decode bs) as [[e r]| |]; cbn [bind]; congruence).
  all: try (destruct (raw_decode bs) as [[e r]| |]; cbn [bind]; congruence).
  unfold empty_decode. destruct (Nat.eqb (length bs) 0); cbn [bind]; discriminate.
Qed.

Lemma path_type_unknown pt bs : 3 < pt -> path_decode pt bs = Err.
Proof.
  intros H. unfold path_decode. destruct pt as [|[[|[]|]|[|[]|]|]]; try reflexivity; lia.
Qed.

Lemma raw_dec_enc_canon p rest : wf_raw p ->
  exists e, raw_encode p = Ok e /\ raw_decode (e ++ rest) = Ok (raw_canon p, rest) /\
            length e = base_len (rp_base p) /\ raw_encode (raw_canon p) = Ok e.
Proof.
  intros W. destruct (raw_encode_ok p W) as [E L].
  destruct (raw_dec_enc p rest W) as (e & E' & D). rewrite E in E'. injection E' as <-.
  eexists. split; [exact E|]. split; [exact D|]. split; [exact L|].
  unfold raw_encode, raw_canon. cbn [rp_raw rp_base].
  pose proof (base_len_ge (rp_base p)).
  rewrite ltb_false by lia.
  rewrite skipn_app_exact by apply meta_encode_length. now rewrite fit_exact.
Qed.

Lemma path_dec_enc p : wf_path p -> (forall d, p <> PDecoded d) -> is_opaque p = false ->
  exists e, path_encode p = Ok e /\ length e = path_len p /\
            path_decode (path_type p) e = Ok (path_canon p, []) /\
            path_encode (path_canon p) = Ok e.
Proof.
  intros W ND NO. destruct p as [|r|o|x|d|t b]; cbn [wf_path path_encode path_len path_type path_canon] in *.
  6:{ discriminate. }
  - exists []. repeat split; reflexivity.
  - destruct (raw_dec_enc_canon r [] W) as (e & E & D & L & E2). rewrite app_nil_r in D.
    exists e. unfold path_decode. rewrite D. cbn [bind]. auto.
  - exists (onehop_encode o). pose proof (onehop_dec_enc o [] W) as D. rewrite app_nil_r in D.
    unfold path_decode. rewrite D. cbn [bind]. pose proof (onehop_encode_length o). auto.
  - destruct W as (Ht & Hc & Lp & Wp & Ll & Wl & Wr).
    destruct (raw_dec_enc_canon (ep_scion x) [] Wr) as (sp & Es & Ds & Ls & Es2).
    rewrite app_nil_r in Ds.
    unfold epic_encode. cbn [ep_ts ep_ctr ep_phvf ep_lhvf ep_scion].
    rewrite Lp, Ll, Nat.eqb_refl. cbn [negb]. rewrite Es, Es2. cbn [bind].
    eexists. split; [reflexivity|]. split; [| split; [|reflexivity]].
    + rewrite !app_length, !be_length, Lp, Ll, Ls. unfold epic_meta_len, hvf_len. lia.
    + unfold path_decode, epic_decode.
      rewrite ltb_false by (rewrite !app_length, !be_length, Lp, Ll; unfold epic_meta_len, hvf_len; lia).
      do 2 (rewrite wordP_be_small by lt_pow; cbn [bind]).
      rewrite takeP_app' by exact Lp. cbn [bind].
      rewrite takeP_app' by exact Ll. cbn [bind].
      rewrite Ds. reflexivity.
  - exfalso. now apply (ND d).
Qed.

(** a fully decoded path serializes to bytes that decode (as Raw, the form SCION.DecodeFromBytes
    uses) and decode back (ToDecoded) to the same fields *)
Lemma path_dec_enc_decoded d : wf_dec d ->
  exists e, path_encode (PDecoded d) = Ok e /\ length e = path_len (PDecoded d) /\
            path_decode 1 e = Ok (PScion (mkRaw (dp_base d) e), []) /\
            dec_decode e = Ok (d, []).
Proof.
  intros W. destruct (dec_encode_ok d W) as [E L]. destruct (dec_dec_enc d [] W) as (e & E' & D).
  rewrite E in E'. injection E' as <-. rewrite app_nil_r in D.
  cbn [path_encode path_len]. eexists. split; [exact E|]. split; [exact L|]. split; [|exact D].
  destruct W as (Wm & Hb & Li & Lh & Wi & Wh).
  unfold path_decode, raw_decode, base_decode.
  rewrite meta_dec_enc by exact Wm. cbn [bind]. rewrite Hb. cbn [bind].
  rewrite ltb_false by lia.
  rewrite <- (app_nil_r (meta_encode _ ++ _)) at 1. rewrite takeP_app' by exact L. reflexivity.
Qed.

Lemma path_enc_dec pt bs p rest : wf_bytes bs -> path_decode pt bs = Ok (p, rest) ->
  exists e, path_encode p = Ok e /\ e ++ rest = mask_path pt bs /\ wf_path p /\ wf_bytes rest /\
            path_type p = pt /\ length bs = (path_len p + length rest)%nat /\
            (forall d, p <> PDecoded d).
Proof.
  intros W.
  assert (C : pt = 3 \/ pt = 2 \/ pt = 1 \/ pt = 0 \/ 3 < pt) by lia.
  destruct C as [->|[->|[->|[->|C]]]]; [| | | |rewrite path_type_unknown by exact C; discriminate];
    unfold path_decode.
  - (* 3: EPIC *)
    destruct (epic_decode bs) as [[e r]| |] eqn:E; cbn [bind]; try discriminate.
    intros H; injection H as <- <-.
    destruct (epic_enc_dec _ _ _ W E) as (en & Ee & M & We & Wr & L).
    exists en. cbn [path_encode wf_path path_type path_len mask_path].
    split; [exact Ee|]. split; [exact M|]. split; [exact We|]. split; [exact Wr|].
    split; [reflexivity|]. split; [lia|]. discriminate.
  - (* 2: one-hop *)
    destruct (onehop_decode bs) as [[o r]| |] eqn:E; cbn [bind]; try discriminate.
    intros H; injection H as <- <-.
    destruct (onehop_enc_dec _ _ _ W E) as (M & Wo & Wr & L).
    exists (onehop_encode o). cbn [path_encode wf_path path_type path_len mask_path].
    split; [reflexivity|]. split; [exact M|]. split; [exact Wo|]. split; [exact Wr|].
    split; [reflexivity|]. split; [exact L|]. discriminate.
  - (* 1: SCION *)
    destruct (raw_decode bs) as [[q r]| |] eqn:E; cbn [bind]; try discriminate.
    intros H; injection H as <- <-.
    destruct (raw_enc_dec _ _ _ W E) as (e & Ee & M & Wq & Wr & L).
    exists e. cbn [path_encode wf_path path_type path_len mask_path].
    split; [exact Ee|]. split; [exact M|]. split; [exact Wq|]. split; [exact Wr|].
    split; [reflexivity|]. split; [exact L|]. discriminate.
  - (* 0: empty *)
    unfold empty_decode. destruct (Nat.eqb (length bs) 0) eqn:E; cbn [bind]; try discriminate.
    intros H; injection H as <- <-. apply Nat.eqb_eq in E.
    destruct bs; [|discriminate]. exists []. cbn. repeat split; try constructor; discriminate.
Qed.

(** a declared path length that exceeds the data is rejected *)
Lemma path_reject_short pt bs p rest : path_decode pt bs = Ok (p, rest) -> wf_bytes bs ->
  (path_len p <= length bs)%nat.
Proof.
  intros H W. destruct (path_enc_dec _ _ _ _ W H) as (e & _ & _ & _ & _ & _ & L & _). lia.
Qed.

(** ------------------------------------------------------------ recycled layer: opaque paths *)
Lemma path_r_no_panic pt bs : path_decode_r pt bs <> Panic.
Proof. unfold path_decode_r. destruct (pt <=? 3); [apply path_no_panic | discriminate]. Qed.

Lemma path_r_enc_dec pt bs p rest : pt < 256 -> wf_bytes bs -> path_decode_r pt bs = Ok (p, rest) ->
  exists e, path_encode p = Ok e /\ e ++ rest = mask_path pt bs /\ wf_path p /\ wf_bytes rest /\
            path_type p = pt /\ length bs = (path_len p + length rest)%nat /\
            (forall d, p <> PDecoded d).
Proof.
  intros P W. unfold path_decode_r. destruct (pt <=? 3) eqn:E; [now apply path_enc_dec|].
  apply N.leb_gt in E. intros H; injection H as <- <-.
  exists bs. cbn [path_encode wf_path path_type path_len].
  split; [reflexivity|]. split.
  { rewrite app_nil_r. unfold mask_path. destruct pt as [|[[|[]|]|[|[]|]|]]; try reflexivity; lia. }
  split; [split; [exact E | split; [exact P | exact W]]|]. split; [constructor|]. split; [reflexivity|].
  split; [cbn; lia | discriminate].
Qed.

(** on the four registered path types recycling changes nothing *)
Lemma path_r_same pt bs : pt <= 3 -> path_decode_r pt bs = path_decode pt bs.
Proof. intros H. unfold path_decode_r. apply N.leb_le in H. now rewrite H. Qed.
