From Coq Require Import List NArith Bool Lia Permutation PeanoNat.
From Scion Require Import Lib.Check Model.RevCache.
Import ListNotations.
Import RevCache.
Local Open Scope N_scope.

(** * Equality tests *)

Lemma key_eqb_eq a b : key_eqb a b = true <-> a = b.
Proof.
  destruct a as [a1 a2], b as [b1 b2]. unfold key_eqb. cbn [fst snd].
  rewrite andb_true_iff, !N.eqb_eq. split; [intros [-> ->]; reflexivity|].
  intros E; inversion E; auto.
Qed.

Lemma key_eqb_refl a : key_eqb a a = true.
Proof. now apply key_eqb_eq. Qed.

Lemma key_eqb_neq a b : key_eqb a b = false <-> a <> b.
Proof.
  split.
  - intros E H. apply key_eqb_eq in H. congruence.
  - intros H. destruct (key_eqb a b) eqn:E; [|reflexivity]. apply key_eqb_eq in E. contradiction.
Qed.

Lemma key_eqb_sym a b : key_eqb a b = key_eqb b a.
Proof.
  destruct (key_eqb a b) eqn:E.
  - apply key_eqb_eq in E. subst. symmetry. apply key_eqb_refl.
  - apply key_eqb_neq in E. symmetry. apply key_eqb_neq. congruence.
Qed.

Lemma rev_eqb_eq a b : rev_eqb a b = true <-> a = b.
Proof.
  destruct a, b. unfold rev_eqb. cbn [r_ia r_if r_ts r_ttl r_id].
  rewrite !andb_true_iff, !N.eqb_eq. split.
  - intros [[[[-> ->] ->] ->] ->]. reflexivity.
  - intros E; inversion E; auto.
Qed.

Lemma rev_eqb_refl a : rev_eqb a a = true.
Proof. now apply rev_eqb_eq. Qed.

Lemma option_rev_eqb_eq a b : option_eqb rev_eqb a b = true <-> a = b.
Proof.
  destruct a, b; cbn; try (split; (discriminate || reflexivity)).
  rewrite rev_eqb_eq. split; [now intros ->|]. intros E; now inversion E.
Qed.

Lemma mem_key_In k ks : mem_key k ks = true <-> In k ks.
Proof.
  induction ks as [|x t IH]; cbn; [split; [discriminate|tauto]|].
  rewrite orb_true_iff, IH, key_eqb_eq. tauto.
Qed.

Lemma mem_rev_In r l : mem_rev r l = true <-> In r l.
Proof.
  induction l as [|x t IH]; cbn; [split; [discriminate|tauto]|].
  rewrite orb_true_iff, IH, rev_eqb_eq. tauto.
Qed.

(** * Liveness *)

Lemma live_some now o r : live now o = Some r <-> o = Some r /\ expired now r = false.
Proof.
  destruct o as [v|]; cbn; [|split; [discriminate|intros [H _]; discriminate]].
  destruct (expired now v) eqn:E; split.
  - discriminate.
  - intros [H1 H2]. inversion H1; subst. congruence.
  - intros H; inversion H; subst; auto.
  - intros [H _]; exact H.
Qed.

Lemma live_idem now o : live now (live now o) = live now o.
Proof.
  destruct o as [v|]; cbn; [|reflexivity]. destruct (expired now v) eqn:E; cbn; [reflexivity|].
  now rewrite E.
Qed.

Lemma expired_mono now now' r : now <= now' -> expired now r = true -> expired now' r = true.
Proof. unfold expired. rewrite !N.ltb_lt. lia. Qed.

Lemma live_mono now now' o : now <= now' -> live now' (live now o) = live now' o.
Proof.
  intros H. destruct o as [v|]; cbn; [|reflexivity].
  destruct (expired now v) eqn:E; cbn; [|reflexivity].
  now rewrite (expired_mono now now' v H E).
Qed.

(** * The go map *)

Definition wf (s : state) : Prop := NoDup (map r_key s).

Lemma lookup_In k s r : lookup k s = Some r -> In r s /\ r_key r = k.
Proof.
  induction s as [|x t IH]; cbn; [discriminate|].
  destruct (key_eqb (r_key x) k) eqn:E.
  - intros H; inversion H; subst. split; [now left|now apply key_eqb_eq].
  - intros H. destruct (IH H). auto.
Qed.

Lemma lookup_none k s : lookup k s = None <-> ~ In k (map r_key s).
Proof.
  induction s as [|x t IH]; cbn; [tauto|].
  destruct (key_eqb (r_key x) k) eqn:E.
  - apply key_eqb_eq in E. split; [discriminate|]. intros H; elim H; now left.
  - apply key_eqb_neq in E. rewrite IH. tauto.
Qed.

Lemma In_lookup s r : wf s -> In r s -> lookup (r_key r) s = Some r.
Proof.
  unfold wf. induction s as [|x t IH]; cbn; [tauto|]. intros W [->|H].
  - now rewrite key_eqb_refl.
  - inversion W as [|? ? Hn W']; subst.
    destruct (key_eqb (r_key x) (r_key r)) eqn:E.
    + apply key_eqb_eq in E. elim Hn. rewrite E. now apply in_map.
    + now apply IH.
Qed.

Lemma lookup_remove k k' s :
  lookup k' (remove k s) = if key_eqb k k' then None else lookup k' s.
Proof.
  unfold remove. induction s as [|x t IH]; cbn; [now destruct (key_eqb k k')|].
  destruct (key_eqb (r_key x) k) eqn:E; cbn.
  - apply key_eqb_eq in E. subst. rewrite IH. now destruct (key_eqb (r_key x) k').
  - destruct (key_eqb (r_key x) k') eqn:E'.
    + apply key_eqb_eq in E'. subst. rewrite (key_eqb_sym k), E. reflexivity.
    + exact IH.
Qed.

Lemma lookup_set r k s :
  lookup k (set r s) = if key_eqb (r_key r) k then Some r else lookup k s.
Proof.
  unfold set. cbn. destruct (key_eqb (r_key r) k) eqn:E; [reflexivity|].
  now rewrite lookup_remove, E.
Qed.

Lemma map_key_filter_incl f (s : state) k : In k (map r_key (filter f s)) -> In k (map r_key s).
Proof.
  rewrite !in_map_iff. intros [x [H1 H2]]. exists x. apply filter_In in H2. tauto.
Qed.

Lemma wf_filter f s : wf s -> wf (filter f s).
Proof.
  unfold wf. induction s as [|x t IH]; cbn; [auto|]. intros W.
  inversion W as [|? ? Hn W']; subst. destruct (f x); cbn; [|now apply IH].
  constructor; [|now apply IH]. intros H. apply Hn. eapply map_key_filter_incl; eauto.
Qed.

Lemma wf_set r s : wf s -> wf (set r s).
Proof.
  intros W. unfold set, wf. cbn. constructor; [|now apply wf_filter].
  apply lookup_none. now rewrite lookup_remove, key_eqb_refl.
Qed.

Lemma lookup_filter f s k :
  wf s -> lookup k (filter f s) =
          match lookup k s with Some r => if f r then Some r else None | None => None end.
Proof.
  unfold wf. induction s as [|x t IH]; cbn; [reflexivity|]. intros W.
  inversion W as [|? ? Hn W']; subst.
  destruct (key_eqb (r_key x) k) eqn:E.
  - destruct (f x); cbn; [now rewrite E|].
    apply key_eqb_eq in E. subst. apply lookup_none. intros H. apply Hn.
    eapply map_key_filter_incl; eauto.
  - destruct (f x); cbn; [rewrite E|]; now apply IH.
Qed.

Lemma lookup_cleanup now s k :
  wf s -> lookup k (filter (fun r => negb (expired now r)) s) = live now (lookup k s).
Proof.
  intros W. rewrite lookup_filter by exact W. destruct (lookup k s) as [r|]; cbn; [|reflexivity].
  now destruct (expired now r).
Qed.

(** * Log facts *)

Lemma pending_last_acc_some l k r : pending l k = Some r -> last_acc l k = Some r.
Proof.
  induction l as [|[[tm o] res] t IH]; cbn; [discriminate|].
  destruct o as [v| | |]; try exact IH.
  - destruct res as [[|]| | |]; try exact IH. destruct (key_eqb (r_key v) k); [auto|exact IH].
  - intros H. apply live_some in H as [H _]. auto.
Qed.

Lemma mono_log_last hi l : mono_log hi l -> last_time l <= hi.
Proof. destruct l as [|e t]; cbn; [lia|tauto]. Qed.

Lemma mono_log_weaken hi hi' l : hi <= hi' -> mono_log hi l -> mono_log hi' l.
Proof. destruct l as [|e t]; cbn; [auto|]. intros H [H1 H2]. split; [lia|exact H2]. Qed.

(** A clean-up only ever collects what every later reading of the clock sees as
    expired: with a clock that does not go back, "pending" and "most recently
    accepted" differ only on revocations that are expired for good. *)
Lemma pending_vs_last_acc hi l k :
  mono_log hi l ->
  pending l k = last_acc l k \/
  (pending l k = None /\ exists r, last_acc l k = Some r /\ r_exp r < last_time l).
Proof.
  revert hi. induction l as [|[[tm o] res] t IH]; intros hi M; [now left|].
  cbn [mono_log] in M. destruct M as [_ M]. unfold e_time in M; cbn [fst] in M.
  pose proof (mono_log_last _ _ M) as Hl. specialize (IH _ M).
  assert (Keep : pending t k = last_acc t k \/
                 (pending t k = None /\ exists r, last_acc t k = Some r /\ r_exp r < tm)).
  { destruct IH as [IH|[IH1 [r [IH2 IH3]]]]; [now left|right]. split; [exact IH1|].
    exists r. split; [exact IH2|lia]. }
  unfold last_time, e_time; cbn [fst].
  destruct o as [v| | |]; cbn [pending last_acc]; try exact Keep.
  - destruct res as [[|]| | |]; try exact Keep.
    destruct (key_eqb (r_key v) k); [now left|exact Keep].
  - destruct Keep as [E|[E1 [r [E2 E3]]]].
    + rewrite E. destruct (last_acc t k) as [r|] eqn:L; cbn; [|now left].
      destruct (expired tm r) eqn:X; [|now left]. right. split; [reflexivity|].
      exists r. split; [reflexivity|]. unfold expired in X. now apply N.ltb_lt in X.
    + right. rewrite E1. cbn. split; [reflexivity|]. exists r. auto.
Qed.

Lemma live_pending hi l now k :
  mono_log hi l -> last_time l <= now -> live now (pending l k) = live now (last_acc l k).
Proof.
  intros M H. destruct (pending_vs_last_acc hi l k M) as [E|[E1 [r [E2 E3]]]]; [now rewrite E|].
  rewrite E1, E2. cbn. assert (X : expired now r = true) by (unfold expired; apply N.ltb_lt; lia).
  now rewrite X.
Qed.

Lemma keys_nodup l : NoDup (keys l).
Proof.
  induction l as [|[[tm o] res] t IH]; cbn; [constructor|].
  destruct o as [v| | |]; try exact IH. destruct res as [[|]| | |]; try exact IH.
  destruct (mem_key (r_key v) (keys t)) eqn:E; [exact IH|]. constructor; [|exact IH].
  intros H. apply mem_key_In in H. congruence.
Qed.

Lemma last_acc_keys l k r : last_acc l k = Some r -> In k (keys l).
Proof.
  induction l as [|[[tm o] res] t IH]; cbn; [discriminate|].
  destruct o as [v| | |]; try exact IH. destruct res as [[|]| | |]; try exact IH.
  destruct (key_eqb (r_key v) k) eqn:E.
  - intros _. apply key_eqb_eq in E. subst.
    destruct (mem_key (r_key v) (keys t)) eqn:M; [now apply mem_key_In|now left].
  - intros H. specialize (IH H). destruct (mem_key (r_key v) (keys t)); [exact IH|now right].
Qed.

Lemma last_acc_key l k r : last_acc l k = Some r -> r_key r = k.
Proof.
  induction l as [|[[tm o] res] t IH]; cbn; [discriminate|].
  destruct o as [v| | |]; try exact IH. destruct res as [[|]| | |]; try exact IH.
  destruct (key_eqb (r_key v) k) eqn:E; [|exact IH].
  intros H; inversion H; subst. now apply key_eqb_eq.
Qed.

Lemma last_acc_in_log l k r :
  last_acc l k = Some r -> exists tm, In (tm, Insert r, RIns true) l.
Proof.
  induction l as [|[[tm o] res] t IH]; cbn [last_acc]; [discriminate|].
  assert (Tl : last_acc t k = Some r -> exists tm0, In (tm0, Insert r, RIns true) ((tm, o, res) :: t)).
  { intros H. destruct (IH H) as [tm0 H0]. exists tm0. now right. }
  destruct o as [v| | |]; try exact Tl. destruct res as [[|]| | |]; try exact Tl.
  destruct (key_eqb (r_key v) k); [|exact Tl].
  intros H; inversion H; subst. exists tm. now left.
Qed.

(** * The invariant tying the cache content to the log *)

Definition inv (s : state) (l : list entry) : Prop :=
  wf s /\ forall k, lookup k s = pending l k.

Lemma inv_init : inv [] [].
Proof. split; [constructor|reflexivity]. Qed.

Lemma step_inv s l now o :
  inv s l -> inv (fst (step s (now, o))) ((now, o, snd (step s (now, o))) :: l).
Proof.
  intros [W P]. unfold step. cbn [fst snd]. destruct o as [v|k| |].
  - unfold insert. destruct (r_exp v <=? now); cbn [fst snd]; [split; [exact W|exact P]|].
    assert (Acc : inv (set v s) ((now, Insert v, RIns true) :: l)).
    { split; [now apply wf_set|]. intros k. rewrite lookup_set. cbn [pending].
      destruct (key_eqb (r_key v) k); [reflexivity|apply P]. }
    destruct (cache_get now (r_key v) s) as [c|]; cbn [fst snd]; [|exact Acc].
    destruct (r_ts c <? r_ts v); cbn [fst snd]; [exact Acc|]. split; [exact W|exact P].
  - cbn [fst snd]. split; [exact W|exact P].
  - unfold delete_expired. cbn [fst snd]. split; [now apply wf_filter|].
    intros k. cbn [pending]. rewrite lookup_cleanup by exact W. now rewrite P.
  - cbn [fst snd]. split; [exact W|exact P].
Qed.

(** * Each result is what the property prescribes *)

Lemma get_exact_inv s l hi now k :
  inv s l -> mono_log hi l -> last_time l <= now -> get now k s = spec_get l now k.
Proof.
  intros [W P] M H. unfold get, cache_get, spec_get. rewrite P. eapply live_pending; eauto.
Qed.

Lemma insert_exact_inv s l hi now r :
  inv s l -> mono_log hi l -> last_time l <= now ->
  snd (insert now r s) = spec_insert l now r.
Proof.
  intros I M H. unfold insert, spec_insert.
  change (cache_get now (r_key r) s) with (get now (r_key r) s).
  rewrite (get_exact_inv s l hi now (r_key r) I M H).
  rewrite N.leb_antisym. destruct (now <? r_exp r); cbn [negb andb snd]; [|reflexivity].
  destruct (spec_get l now (r_key r)) as [c|]; cbn [snd]; [|reflexivity].
  now destruct (r_ts c <? r_ts r).
Qed.

Lemma nodup_keys_true l : NoDup (map r_key l) -> nodup_keys l = true.
Proof.
  induction l as [|x t IH]; cbn; [reflexivity|]. intros W.
  inversion W as [|? ? Hn W']; subst. rewrite (IH W'), andb_true_r.
  destruct (mem_key (r_key x) (map r_key t)) eqn:E; [|reflexivity].
  apply mem_key_In in E. contradiction.
Qed.

Lemma garbage_count s l now :
  inv s l -> length (filter (expired now) s) = length (spec_garbage l now).
Proof.
  intros [W P]. rewrite <- (map_length r_key). apply Permutation_length. apply NoDup_Permutation.
  - now apply wf_filter.
  - unfold spec_garbage. apply NoDup_filter. apply keys_nodup.
  - intros k. unfold spec_garbage. rewrite in_map_iff, filter_In. split.
    + intros [r [E H]]. apply filter_In in H as [H X]. subst k.
      pose proof (In_lookup s r W H) as L. rewrite P in L. rewrite L. split; [|exact X].
      eapply last_acc_keys. eapply pending_last_acc_some. exact L.
    + intros [_ H]. destruct (pending l k) as [r|] eqn:L; [|discriminate].
      rewrite <- P in L. apply lookup_In in L as [L1 L2]. exists r. split; [exact L2|].
      apply filter_In. auto.
Qed.

Lemma step_res_ok s l hi now o :
  inv s l -> mono_log hi l -> last_time l <= now ->
  res_ok l now o (snd (step s (now, o))) = true.
Proof.
  intros I M H. pose proof I as [W P]. unfold step. cbn [fst snd]. destruct o as [v|k| |].
  - pose proof (insert_exact_inv s l hi now v I M H) as E.
    destruct (insert now v s) as [s' b]. cbn [snd] in *. cbn [res_ok]. rewrite E. apply eqb_reflx.
  - cbn [snd res_ok]. apply option_rev_eqb_eq. eapply get_exact_inv; eauto.
  - unfold delete_expired. cbn [snd res_ok]. apply N.eqb_eq. f_equal. now apply garbage_count.
  - cbn [snd res_ok]. unfold get_all. rewrite !andb_true_iff. repeat split.
    + apply nodup_keys_true. now apply wf_filter.
    + apply forallb_forall. intros v Hv. apply filter_In in Hv as [Hv X].
      apply option_rev_eqb_eq. rewrite <- (get_exact_inv s l hi now (r_key v) I M H).
      unfold get, cache_get. rewrite (In_lookup s v W Hv). cbn.
      apply negb_true_iff in X. now rewrite X.
    + apply forallb_forall. intros k _.
      rewrite <- (get_exact_inv s l hi now k I M H).
      destruct (get now k s) as [v|] eqn:G; [|reflexivity].
      unfold get, cache_get in G. apply live_some in G as [G X]. apply lookup_In in G as [G _].
      apply mem_rev_In. apply filter_In. split; [exact G|]. now rewrite X.
Qed.

(** * Histories (fold_left) *)

Lemma run_from_inv evs : forall s l,
  inv s l -> mono_log (last_time l) l -> log_ok l = true -> mono_evs (last_time l) evs ->
  let out := run_from (s, l) evs in
  inv (fst out) (snd out) /\ mono_log (last_time (snd out)) (snd out) /\ log_ok (snd out) = true
  /\ last_time l <= last_time (snd out).
Proof.
  unfold run_from. induction evs as [|[now o] t IH]; intros s l I M L ME; cbn [fold_left].
  - cbn [fst snd]. repeat split; try assumption. apply I. apply I. lia.
  - cbn [mono_evs fst] in ME. destruct ME as [H ME].
    assert (EX : exec (s, l) (now, o) =
                 (fst (step s (now, o)), (now, o, snd (step s (now, o))) :: l)).
    { unfold exec. cbn [fst snd]. now destruct (step s (now, o)). }
    rewrite EX. clear EX.
    pose proof (step_inv s l now o I) as I'.
    pose proof (step_res_ok s l _ now o I M H) as R.
    destruct (step s (now, o)) as [s' r]. cbn [fst snd] in I', R |- *.
    specialize (IH s' ((now, o, r) :: l) I').
    assert (M' : mono_log (last_time ((now, o, r) :: l)) ((now, o, r) :: l)).
    { cbn [last_time mono_log]. unfold e_time. cbn [fst]. split; [lia|].
      eapply mono_log_weaken; [exact H|exact M]. }
    assert (L' : log_ok ((now, o, r) :: l) = true) by (cbn [log_ok]; now rewrite R, L).
    specialize (IH M' L' ME). cbn zeta in IH. destruct IH as [A [B [C D]]].
    split; [exact A|]. split; [exact B|]. split; [exact C|].
    cbn [last_time] in D. unfold e_time in D. cbn [fst] in D. exact (N.le_trans _ _ _ H D).
Qed.

Lemma run_inv evs :
  mono_evs 0 evs ->
  inv (fst (run evs)) (snd (run evs)) /\ mono_log (last_time (snd (run evs))) (snd (run evs))
  /\ log_ok (snd (run evs)) = true.
Proof.
  intros ME. unfold run.
  destruct (run_from_inv evs [] [] inv_init I eq_refl ME) as [A [B [C _]]]. auto.
Qed.

(** every entry of a consistent log is consistent with what precedes it *)
Lemma log_ok_split l : log_ok l = true -> forall post now o r pre,
  l = post ++ (now, o, r) :: pre -> res_ok pre now o r = true.
Proof.
  intros L post. revert l L. induction post as [|e post IH]; intros l L now o r pre E; subst l.
  - cbn in L. now apply andb_true_iff in L as [L _].
  - destruct e as [[tm o'] r']. cbn in L. apply andb_true_iff in L as [_ L]. eapply IH; eauto.
Qed.

(** the log records the events, in order *)
Lemma run_from_log evs : forall s l,
  map fst (snd (run_from (s, l) evs)) = List.rev evs ++ map fst l.
Proof.
  unfold run_from. induction evs as [|ev t IH]; intros s l; cbn [fold_left]; [reflexivity|].
  unfold exec at 2. cbn [fst snd]. destruct (step s ev) as [s' r].
  rewrite IH. cbn [map fst List.rev]. rewrite <- app_assoc. cbn. now destruct ev.
Qed.

(** * Abstract view: a map from interface to its live revocation *)

Lemma view_insert now r s k :
  view now (fst (insert now r s)) k = fst (a_insert now r (view now s)) k
  /\ snd (insert now r s) = snd (a_insert now r (view now s)).
Proof.
  unfold insert, a_insert, view, get. destruct (r_exp r <=? now) eqn:E; cbn [fst snd]; [auto|].
  assert (S : cache_get now k (set r s) = a_upd (fun k0 => cache_get now k0 s) r k).
  { unfold cache_get, a_upd. rewrite lookup_set. destruct (key_eqb (r_key r) k); [|reflexivity].
    cbn. unfold expired. apply N.leb_gt in E.
    assert (X : (r_exp r <? now) = false) by (apply N.ltb_ge; lia). now rewrite X. }
  destruct (cache_get now (r_key r) s) as [c|]; cbn [fst snd]; [|auto].
  destruct (r_ts c <? r_ts r); cbn [fst snd]; auto.
Qed.

Lemma view_cleanup now now' s k :
  wf s -> now <= now' -> view now' (fst (delete_expired now s)) k = view now' s k.
Proof.
  intros W H. unfold view, get, cache_get, delete_expired. cbn [fst].
  rewrite lookup_cleanup by exact W. now apply live_mono.
Qed.

Lemma view_time now now' s k : now <= now' -> view now' s k = a_expire now' (view now s) k.
Proof. intros H. unfold a_expire, view, get, cache_get. symmetry. now apply live_mono. Qed.

Lemma get_all_view now s r : wf s -> In r (get_all now s) <-> view now s (r_key r) = Some r.
Proof.
  intros W. unfold get_all, view, get, cache_get. rewrite filter_In, live_some, negb_true_iff.
  split; intros [H X]; split; try exact X.
  - now apply In_lookup.
  - now apply lookup_In in H as [H _].
Qed.

Lemma step_wf s ev : wf s -> wf (fst (step s ev)).
Proof.
  intros W. destruct ev as [now o]. unfold step. cbn [fst snd]. destruct o as [v|k| |]; cbn [fst]; try exact W.
  - unfold insert. destruct (r_exp v <=? now); cbn [fst]; [exact W|].
    destruct (cache_get now (r_key v) s) as [c|]; cbn [fst]; [|now apply wf_set].
    destruct (r_ts c <? r_ts v); cbn [fst]; [now apply wf_set|exact W].
  - unfold delete_expired. cbn [fst]. now apply wf_filter.
Qed.

(** * The check applied to the model's own results *)

Lemma combine_snoc {X Y} (A : list X) (B : list Y) a b :
  length A = length B -> combine (A ++ [a]) (B ++ [b]) = combine A B ++ [(a, b)].
Proof.
  revert B. induction A as [|x A IH]; intros [|y B] E; cbn in *; try discriminate; [reflexivity|].
  f_equal. apply IH. congruence.
Qed.

Lemma combine_rev {X Y} (A : list X) (B : list Y) :
  length A = length B -> combine (List.rev A) (List.rev B) = List.rev (combine A B).
Proof.
  revert B. induction A as [|x A IH]; intros [|y B] E; cbn in *; try discriminate; [reflexivity|].
  rewrite combine_snoc by (rewrite !rev_length; congruence). f_equal. apply IH. congruence.
Qed.

Lemma combine_fst_snd {X Y} (L : list (X * Y)) : combine (map fst L) (map snd L) = L.
Proof. induction L as [|[a b] L IH]; cbn; [reflexivity|now rewrite IH]. Qed.

Lemma impl_log_model evs : impl_log evs (results evs) = snd (run evs).
Proof.
  unfold impl_log, results, run. pose proof (run_from_log evs [] []) as E.
  cbn [map] in E. rewrite app_nil_r in E.
  assert (E' : evs = List.rev (map fst (snd (run_from ([], []) evs)))) 
    by (apply (f_equal (@List.rev _)) in E; rewrite rev_involutive in E; symmetry; exact E).
  rewrite E' at 1. rewrite combine_rev by now rewrite !map_length.
  now rewrite rev_involutive, combine_fst_snd.
Qed.

Lemma results_length evs : length (results evs) = length evs.
Proof.
  unfold results. rewrite rev_length, map_length.
  unfold run. pose proof (f_equal (@length _) (run_from_log evs [] [])) as E.
  cbn [map] in E. rewrite app_nil_r, rev_length, map_length in E. exact E.
Qed.

Lemma subset_b_refl x : subset_b x x = true.
Proof. unfold subset_b. apply forallb_forall. intros r H. now apply mem_rev_In. Qed.

Lemma res_eqb_refl r : res_eqb r r = true.
Proof.
  destruct r as [b|o|n|x]; cbn.
  - apply eqb_reflx.
  - now apply option_rev_eqb_eq.
  - apply N.eqb_refl.
  - now rewrite subset_b_refl, N.eqb_refl.
Qed.

Lemma list_res_eqb_refl l : list_eqb res_eqb l l = true.
Proof. induction l as [|x t IH]; cbn; [reflexivity|now rewrite res_eqb_refl, IH]. Qed.

Lemma mono_evs_b_true lo evs : mono_evs lo evs -> mono_evs_b lo evs = true.
Proof.
  revert lo. induction evs as [|e t IH]; intros lo; cbn; [reflexivity|]. intros [H M].
  apply andb_true_iff. split; [now apply N.leb_le|now apply IH].
Qed.

Lemma check_model evs : mono_evs 0 evs -> check (CHist evs (results evs)) = 0.
Proof.
  intros M. unfold check. rewrite results_length, Nat.eqb_refl, (mono_evs_b_true 0 evs M).
  cbn [andb]. rewrite list_res_eqb_refl, impl_log_model.
  destruct (run_inv evs M) as [_ [_ L]]. now rewrite L.
Qed.
