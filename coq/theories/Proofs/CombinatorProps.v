(** Statement-level lemmas for Props/C28.v (assembled from the other
    Proofs/Combinator*.v files). *)
From Coq Require Import List NArith Bool Arith Lia Sorted.
From Scion Require Import Lib.Check Model.Segment Model.CombSpec Model.Combinator.
From Scion Require Import Proofs.CombinatorGraph Proofs.CombinatorRender Proofs.CombinatorFilter
  Proofs.CombinatorPaths Proofs.CombinatorIfs Proofs.CombSpec Proofs.CombinatorSpec
  Proofs.CombinatorSound Proofs.CombinatorComplete Proofs.CombinatorMain.
Import ListNotations.
Import Segment Combinator.
Local Open Scope N_scope.

(** where the segment of an edge comes from, by its role *)
Definition seg_in_role (ups cores downs : list (N * segment)) (e : edge) : Prop :=
  match ety e with
  | Up => In (is_seg (e_seg e)) (segs_of ups)
  | CoreT => In (is_seg (e_seg e)) (segs_of cores)
  | Down => In (is_seg (e_seg e)) (segs_of downs)
  end.

Lemma from_segs_role ups cores downs e :
  from_segs (insegs ups cores downs) e -> seg_in_role ups cores downs e.
Proof.
  intros [s [Hs Ht]]. unfold seg_in_role, ety. rewrite (tuple_seg _ _ Ht). now apply insegs_seg_in.
Qed.

(** what a rendered path segment is, relative to the edge (segment, cut, peer) it renders *)
Definition slice_of_edge (e : edge) (sl : slice) : Prop :=
  let es := sg_entries (is_seg (e_seg e)) in
  sl_info sl = mkInfo (u32 (sg_ts (is_seg (e_seg e)))) (calc_beta e) (is_down e) (negb (Nat.eqb (e_peer e) 0)) /\
  (1 <= length (sl_hops sl))%nat /\
  length (sl_hops sl) = (length es - e_sc e)%nat /\
  map fst (sl_hops sl) = (if is_down e then map ae_ia (skipn (e_sc e) es) else rev (map ae_ia (skipn (e_sc e) es))) /\
  Forall (fun x => exists a, In a es /\ hop_of_entry x a) (sl_hops sl).

Lemma edge_slice_of_edge e : edge_good e -> slice_of_edge e (edge_slice e).
Proof.
  intros Hg. unfold slice_of_edge. cbn [edge_slice sl_info sl_hops]. fold (entries e).
  split; [reflexivity|]. split; [now apply edge_hops_nonempty|]. split; [now apply edge_hops_length|]. split.
  - unfold edge_hops. destruct (is_down e).
    + rewrite map_rev, trav_hops_ases by exact Hg. apply rev_involutive.
    + now apply trav_hops_ases.
  - apply Forall_forall. intros x Hx. now apply edge_hops_from_segment.
Qed.

Lemma shape_lemma src dst ups cores downs fa ps p :
  combine src dst ups cores downs fa = Done ps -> In p ps ->
  exists es : list edge,
    (map ety es = [Up] \/ map ety es = [CoreT] \/ map ety es = [Down] \/
     map ety es = [Up; CoreT] \/ map ety es = [Up; Down] \/ map ety es = [CoreT; Down] \/
     map ety es = [Up; CoreT; Down]) /\
    Forall (seg_in_role ups cores downs) es /\
    Forall2 slice_of_edge es (p_slices p) /\
    p_weight p = sum_w es.
Proof.
  intros Hc Hp. destruct (combine_in _ _ _ _ _ _ _ _ Hc Hp) as [es [Hch [-> _]]].
  destruct (combine_done _ _ _ _ _ _ _ Hc) as [all [Ha _]].
  pose proof (all_paths_done _ _ _ _ Ha) as [Hne _].
  exists es. split; [|split; [|split]].
  - apply types_ok_cases; [eapply chain_types; eauto | eapply chain_nonempty; eauto].
  - eapply Forall_impl; [|eapply chain_from_segs; eauto]. intros e. apply from_segs_role.
  - cbn [path_of p_slices]. pose proof (chain_good _ _ _ _ _ Hne Hch) as Hg.
    clear - Hg. induction Hg as [|e es He Hg IH]; cbn; constructor; [now apply edge_slice_of_edge | exact IH].
  - reflexivity.
Qed.

(** ---- interfaces ---- *)
Definition slice_traversed (sl : slice) : list iface :=
  traversed (i_consdir (sl_info sl)) (i_peer (sl_info sl)) (sl_hops sl).

Lemma interfaces_lemma src dst ups cores downs fa ps p :
  valid_input (segs_of ups) (segs_of cores) (segs_of downs) = true ->
  combine src dst ups cores downs fa = Done ps -> In p ps ->
  p_ifs p = flat_map slice_traversed (p_slices p).
Proof.
  intros V Hc Hp. destruct (combine_in _ _ _ _ _ _ _ _ Hc Hp) as [es [Hch [-> _]]].
  destruct (combine_done _ _ _ _ _ _ _ Hc) as [all [Ha _]].
  pose proof (all_paths_done _ _ _ _ Ha) as [Hne _].
  pose proof (chain_good _ _ _ _ _ Hne Hch) as Hg. pose proof (chain_from_segs _ _ _ _ _ Hch) as Hf.
  cbn [path_of p_ifs p_slices]. unfold sol_ifs. rewrite flat_map_map.
  clear - V Hg Hf. induction es as [|e es IH]; [reflexivity|].
  inversion Hg; subst. inversion Hf as [|? ? [s [Hs Ht]] Hf']; subst.
  cbn [flat_map]. rewrite IH by assumption. f_equal.
  unfold slice_traversed. cbn [edge_slice sl_info sl_hops edge_info i_consdir i_peer].
  apply trav_ifs_traversed; [assumption|]. rewrite (tuple_seg _ _ Ht).
  apply valid_input_seg with (s := s) in V; [|exact Hs]. now apply valid_segment_parts in V as [V _].
Qed.

(** ---- expiry ---- *)
Lemma wf_fields_hop s a x :
  wf_fields s = true -> In a (sg_entries s) -> hop_of_entry x a -> h_exp (snd x) < 256.
Proof.
  unfold wf_fields. intros H Ha [_ Hx]. apply andb_true_iff in H as [_ H]. rewrite forallb_forall in H.
  specialize (H a Ha). unfold wf_entry in H.
  apply andb_true_iff in H as [H Hp]. apply andb_true_iff in H as [H _]. apply andb_true_iff in H as [Hh _].
  assert (G : forall h, wf_hop h = true -> h_exp h < 256).
  { intros h Hw. unfold wf_hop in Hw. do 2 (apply andb_true_iff in Hw as [Hw _]).
    apply andb_true_iff in Hw as [_ Hw]. now apply N.ltb_lt. }
  destruct Hx as [->|[p [Hin ->]]]; [now apply G|].
  rewrite forallb_forall in Hp. specialize (Hp p Hin).
  apply andb_true_iff in Hp as [Hp _]. apply andb_true_iff in Hp as [Hp _]. now apply G.
Qed.

Definition fields_ok (ups cores downs : list (N * segment)) : Prop :=
  forall s, In s (insegs ups cores downs) -> wf_fields (is_seg s) = true.

Lemma expiry_lemma src dst ups cores downs fa ps p :
  fields_ok ups cores downs ->
  combine src dst ups cores downs fa = Done ps -> In p ps ->
  (forall sl x, In sl (p_slices p) -> In x (sl_hops sl) -> p_exp p <= hop_exp (i_ts (sl_info sl)) x) /\
  (exists sl x, In sl (p_slices p) /\ In x (sl_hops sl) /\ p_exp p = hop_exp (i_ts (sl_info sl)) x).
Proof.
  intros Hw Hc Hp. destruct (combine_in _ _ _ _ _ _ _ _ Hc Hp) as [es [Hch [-> _]]].
  destruct (combine_done _ _ _ _ _ _ _ Hc) as [all [Ha _]].
  pose proof (all_paths_done _ _ _ _ Ha) as [Hne _].
  pose proof (chain_good _ _ _ _ _ Hne Hch) as Hg. pose proof (chain_from_segs _ _ _ _ _ Hch) as Hf.
  cbn [path_of p_exp p_slices].
  assert (Hsl : forall sl, In sl (map edge_slice es) ->
            i_ts (sl_info sl) < 4294967296 /\ sl_hops sl <> [] /\
            forall x, In x (sl_hops sl) -> h_exp (snd x) < 256).
  { intros sl Hin. apply in_map_iff in Hin as [e [<- He]].
    rewrite Forall_forall in Hg, Hf. pose proof (Hg e He) as Ge. destruct (Hf e He) as [s [Hs Ht]].
    cbn [edge_slice sl_info sl_hops edge_info i_ts]. split; [|split].
    - unfold u32. apply N.mod_lt. discriminate.
    - pose proof (edge_hops_nonempty e Ge). destruct (edge_hops e); [cbn in H; lia | discriminate].
    - intros x Hx. destruct (edge_hops_from_segment e x Ge Hx) as [a [Ha' Hh]].
      eapply wf_fields_hop; [|exact Ha'|exact Hh]. unfold entries in Ha'. rewrite (tuple_seg _ _ Ht) in *.
      now apply Hw. }
  assert (Hnn : map edge_slice es <> []).
  { pose proof (chain_nonempty _ _ _ _ _ Hch). destruct es; [contradiction | discriminate]. }
  destruct (path_exp_spec (map edge_slice es) Hnn (fun sl H => proj1 (Hsl sl H))) as [Hle [sl0 [Hin0 E0]]].
  split.
  - intros sl x Hin Hx. destruct (Hsl sl Hin) as [_ [Hn1 Hx1]].
    destruct (slice_exp_spec sl Hn1 Hx1) as [Hle1 _]. specialize (Hle sl Hin). specialize (Hle1 x Hx). lia.
  - destruct (Hsl sl0 Hin0) as [_ [Hn1 Hx1]]. destruct (slice_exp_spec sl0 Hn1 Hx1) as [_ [x [Hx E1]]].
    exists sl0, x. split; [exact Hin0|]. split; [exact Hx|]. congruence.
Qed.

(** ---- MTU ---- *)
Lemma mtu_lemma src dst ups cores downs fa ps p :
  combine src dst ups cores downs fa = Done ps -> In p ps ->
  exists es, Forall2 slice_of_edge es (p_slices p) /\
    p_mtu p <= 65535 /\
    (forall t, In t (flat_map edge_mtu_terms es) -> p_mtu p <= t) /\
    (p_mtu p = 65535 \/ In (p_mtu p) (flat_map edge_mtu_terms es)).
Proof.
  intros Hc Hp. destruct (combine_in _ _ _ _ _ _ _ _ Hc Hp) as [es [Hch [-> _]]].
  destruct (combine_done _ _ _ _ _ _ _ Hc) as [all [Ha _]].
  pose proof (all_paths_done _ _ _ _ Ha) as [Hne _].
  pose proof (chain_good _ _ _ _ _ Hne Hch) as Hg.
  exists es. split.
  - cbn [path_of p_slices]. clear - Hg.
    induction Hg as [|e es He Hg IH]; cbn; constructor; [now apply edge_slice_of_edge | exact IH].
  - cbn [path_of p_mtu]. rewrite sol_mtu_fold. apply min_fold_spec.
Qed.
