(** What [Prov.render] looks like to the router model: header geometry, the
    current hop and info field, cross-over predicates, and how the SegIDs of the
    info fields move from one position of the walk to the next. *)
From Coq Require Import List NArith Bool Arith Lia ZifyBool ZifyN ZifyNat.
From Scion Require Import Lib.Check Model.Router Model.Network Model.Prov Proofs.ProvStruct.
Import ListNotations.
Import Router Network Prov.

(** * Generic list facts *)
Lemma nth_error_seq n j : (j < n)%nat -> nth_error (seq 0 n) j = Some j.
Proof.
  intros H. rewrite (nth_error_nth' _ 0%nat) by now rewrite seq_length.
  now rewrite seq_nth.
Qed.

Lemma nth_error_map_seq {A} (f : nat -> A) n j : (j < n)%nat -> nth_error (map f (seq 0 n)) j = Some (f j).
Proof. intros H. erewrite map_nth_error; [reflexivity|now apply nth_error_seq]. Qed.

Lemma nthN_of_nat {A} (l : list A) k : nthN l (N.of_nat k) = nth_error l k.
Proof. unfold nthN. now rewrite Nat2N.id. Qed.

Lemma set_nth_map_seq {A} (f : nat -> A) n j x : (j < n)%nat ->
  set_nth (map f (seq 0 n)) j x = map (fun i => if Nat.eqb i j then x else f i) (seq 0 n).
Proof.
  intros H.
  assert (G : forall m s jj, (jj < m)%nat ->
    set_nth (map f (seq s m)) jj x = map (fun i => if Nat.eqb i (s + jj) then x else f i) (seq s m)).
  { induction m as [|m IH]; intros s jj Hj; [lia|].
    cbn [seq map]. destruct jj as [|jj]; cbn [set_nth].
    - rewrite Nat.add_0_r, Nat.eqb_refl. f_equal.
      apply map_ext_in. intros i Hi. apply in_seq in Hi.
      destruct (Nat.eqb i s) eqn:E; [apply Nat.eqb_eq in E; lia|reflexivity].
    - destruct (Nat.eqb s (s + S jj)) eqn:E; [apply Nat.eqb_eq in E; lia|]. f_equal.
      rewrite IH by lia. apply map_ext. intros i. now replace (S s + jj)%nat with (s + S jj)%nat by lia. }
  now rewrite G.
Qed.

Lemma N_ltb_of_nat a b : (N.of_nat a <? N.of_nat b)%N = (a <? b)%nat.
Proof.
  destruct (a <? b)%nat eqn:E.
  - apply Nat.ltb_lt in E. apply N.ltb_lt. lia.
  - apply Nat.ltb_ge in E. apply N.ltb_ge. lia.
Qed.

Lemma seg_start_mono : forall ls j j', (j < j')%nat -> (j' <= length ls)%nat ->
  (seg_start ls j + nth j ls 0 <= seg_start ls j')%nat.
Proof.
  induction ls as [|l r IH]; intros j j' H H'; cbn [length] in H'; [lia|].
  destruct j' as [|j']; [lia|]. destruct j as [|j].
  - rewrite seg_start_0, seg_start_S. cbn [nth]. lia.
  - rewrite !seg_start_S. cbn [nth]. specialize (IH j j'). lia.
Qed.

Section Render.
Variable p : prov.
Variable pp : pparams.
Hypothesis Hshape : shape_ok p = true.

Notation n := (nhops p).
Notation js := (seg_idx (lens p)).

(** * What the shape check gives *)
Lemma shape_parts :
  (1 <= length (pv_segs p) <= 3)%nat /\ total (lens p) = n /\ (n <= 64)%nat /\
  Forall (fun s => (1 <= sg_len s)%nat /\ (sg_peer s = true \/ (2 <= sg_len s)%nat)) (pv_segs p).
Proof.
  unfold shape_ok in Hshape. cbv zeta in Hshape.
  repeat (apply andb_true_iff in Hshape as [Hshape ?]).
  repeat split; try (apply Nat.leb_le; assumption); try (apply Nat.eqb_eq; assumption).
  apply Forall_forall. intros s Hs. rewrite forallb_forall in H0. specialize (H0 s Hs).
  apply andb_true_iff in H0 as [A B]. apply Nat.leb_le in A. split; [assumption|].
  apply orb_true_iff in B as [B|B]; [now left|right; now apply Nat.leb_le].
Qed.

Lemma Hpos : segs_pos p.
Proof.
  destruct shape_parts as (_ & _ & _ & F). unfold segs_pos.
  eapply Forall_impl; [|exact F]. cbn. intros s [A _]. exact A.
Qed.
Lemma Htot : total (lens p) = n.
Proof. apply shape_parts. Qed.

Lemma segs_cases :
  (exists a, pv_segs p = [a]) \/ (exists a b, pv_segs p = [a; b]) \/ (exists a b c, pv_segs p = [a; b; c]).
Proof.
  destruct shape_parts as ([A B] & _). destruct (pv_segs p) as [|a [|b [|c [|d r]]]]; cbn [length] in *; try lia.
  - left; eauto.
  - right; left; eauto.
  - right; right; eauto.
Qed.

(** a slice of one hop is a peering slice *)
Lemma single_peer j : (j < length (pv_segs p))%nat -> sg_len (nth j (pv_segs p) dseg) = 1%nat ->
  sg_peer (nth j (pv_segs p) dseg) = true.
Proof.
  intros Hj L. destruct shape_parts as (_ & _ & _ & F). rewrite Forall_forall in F.
  destruct (F (nth j (pv_segs p) dseg)) as [_ [P|P]]; [now apply nth_In|assumption|lia].
Qed.

(** peering paths: two peering slices, the first against, the second in construction direction *)
Lemma peer_shape j : (j < length (pv_segs p))%nat -> sg_peer (nth j (pv_segs p) dseg) = true ->
  exists a b, pv_segs p = [a; b] /\ sg_peer a = true /\ sg_peer b = true /\
              sg_consdir a = false /\ sg_consdir b = true /\ sg_kind a = KIntra /\ sg_kind b = KIntra.
Proof.
  intros Hj P. pose proof Hshape as S. unfold shape_ok in S. cbv zeta in S.
  apply andb_true_iff in S as [_ S].
  assert (E : existsb sg_peer (pv_segs p) = true).
  { apply existsb_exists. exists (nth j (pv_segs p) dseg). split; [now apply nth_In|assumption]. }
  rewrite E in S. destruct (pv_segs p) as [|a [|b [|c r]]]; try discriminate.
  exists a, b. repeat (apply andb_true_iff in S as [S ?]).
  destruct (sg_kind a), (sg_kind b); try discriminate.
  repeat split; try assumption; try now apply negb_true_iff.
Qed.

Lemma nopeer_all j j' : (j < length (pv_segs p))%nat -> (j' < length (pv_segs p))%nat ->
  sg_peer (nth j (pv_segs p) dseg) = false -> sg_peer (nth j' (pv_segs p) dseg) = false.
Proof.
  intros Hj Hj' P. destruct (sg_peer (nth j' (pv_segs p) dseg)) eqn:P'; [|reflexivity].
  destruct (peer_shape j' Hj' P') as (a & b & E & Pa & Pb & _). rewrite E in *.
  destruct j as [|[|j]]; cbn [nth length] in *; try congruence; lia.
Qed.

(** * Header geometry *)
Lemma lens3 : (nth 0 (lens p) 0 + nth 1 (lens p) 0 + nth 2 (lens p) 0 = n)%nat.
Proof.
  rewrite <- Htot. unfold lens.
  destruct segs_cases as [[a E]|[[a [b E]]|[a [b [c E]]]]]; rewrite E; cbn; lia.
Qed.

Lemma num_hops_render k mid : num_hops (render p pp k mid) = N.of_nat n.
Proof. unfold num_hops, render, len_at. cbn [p_seg0 p_seg1 p_seg2]. pose proof lens3. lia. Qed.

Lemma lens_ge1 j : (j < length (pv_segs p))%nat -> (1 <= nth j (lens p) 0)%nat.
Proof. intros H. rewrite nth_lens. now apply len_pos; [apply Hpos|]. Qed.

Lemma lens_beyond j : (length (pv_segs p) <= j)%nat -> nth j (lens p) 0%nat = 0%nat.
Proof. intros H. apply nth_overflow. now rewrite lens_length. Qed.

Lemma num_inf_render k mid : num_inf (render p pp k mid) = N.of_nat (length (pv_segs p)).
Proof.
  unfold num_inf, render, len_at. cbn [p_seg0 p_seg1 p_seg2].
  destruct shape_parts as ([A B] & _).
  destruct (Nat.lt_ge_cases 2 (length (pv_segs p))) as [C2|C2].
  - pose proof (lens_ge1 2 C2). replace (0 <? N.of_nat (nth 2 (lens p) 0%nat))%N with true by lia. lia.
  - rewrite (lens_beyond 2) by lia. cbn [N.of_nat N.ltb N.compare].
    destruct (Nat.lt_ge_cases 1 (length (pv_segs p))) as [C1|C1].
    + pose proof (lens_ge1 1 C1). replace (0 <? N.of_nat (nth 1 (lens p) 0%nat))%N with true by lia. lia.
    + rewrite (lens_beyond 1) by lia. cbn [N.of_nat N.ltb N.compare].
      pose proof (lens_ge1 0). replace (0 <? N.of_nat (nth 0 (lens p) 0%nat))%N with true by lia. lia.
Qed.

Lemma seglen_ok_render k mid : seglen_ok (render p pp k mid) = true.
Proof.
  unfold seglen_ok, render, len_at. cbn [p_seg0 p_seg1 p_seg2].
  pose proof (lens_ge1 0) as G0. pose proof (lens_ge1 1) as G1. pose proof (lens_ge1 2) as G2.
  pose proof (lens_beyond 1) as B1. pose proof (lens_beyond 2) as B2.
  destruct segs_cases as [[a E]|[[a [b E]]|[a [b [c E]]]]]; rewrite E in *; cbn [length] in *.
  - rewrite B1, B2 by lia. specialize (G0 ltac:(lia)).
    destruct (nth 0 (lens p) 0%nat); [lia|reflexivity].
  - rewrite B2 by lia. specialize (G0 ltac:(lia)). specialize (G1 ltac:(lia)).
    destruct (nth 0 (lens p) 0%nat); [lia|]. destruct (nth 1 (lens p) 0%nat); [lia|reflexivity].
  - specialize (G0 ltac:(lia)). specialize (G1 ltac:(lia)). specialize (G2 ltac:(lia)).
    destruct (nth 0 (lens p) 0%nat); [lia|]. destruct (nth 1 (lens p) 0%nat); [lia|].
    destruct (nth 2 (lens p) 0%nat); [lia|reflexivity].
Qed.

Lemma rinfos_length k mid : length (rinfos p k mid) = length (pv_segs p).
Proof. unfold rinfos. now rewrite map_length, seq_length. Qed.

Lemma well_formed_render k mid : well_formed (render p pp k mid) = true.
Proof.
  unfold well_formed. rewrite num_inf_render, num_hops_render. unfold render. cbn [p_infos p_hops].
  rewrite rinfos_length, map_length. fold n. lia.
Qed.

Lemma inf_index_render k mid k' : (k' < n)%nat ->
  inf_index_for_hf (render p pp k mid) (N.of_nat k') = N.of_nat (js k').
Proof.
  intros H. unfold inf_index_for_hf, render, len_at. cbn [p_seg0 p_seg1 p_seg2].
  rewrite <- Htot in H. unfold lens in *.
  destruct segs_cases as [[a E]|[[a [b E]]|[a [b [c E]]]]]; rewrite E in *; cbn [map nth seg_idx total fold_right] in *.
  - rewrite N_ltb_of_nat. destruct (k' <? sg_len a)%nat eqn:E1; [reflexivity|lia].
  - rewrite <- !Nat2N.inj_add, !N_ltb_of_nat.
    destruct (k' <? sg_len a)%nat eqn:E1; [reflexivity|].
    replace (k' <? sg_len a + sg_len b)%nat with (k' - sg_len a <? sg_len b)%nat
      by (apply Nat.ltb_ge in E1; destruct (k' - sg_len a <? sg_len b)%nat eqn:X; symmetry;
          [apply Nat.ltb_lt in X; apply Nat.ltb_lt|apply Nat.ltb_ge in X; apply Nat.ltb_ge]; lia).
    destruct (k' - sg_len a <? sg_len b)%nat eqn:E2; [reflexivity|lia].
  - rewrite <- !Nat2N.inj_add, !N_ltb_of_nat.
    destruct (k' <? sg_len a)%nat eqn:E1; [reflexivity|].
    replace (k' <? sg_len a + sg_len b)%nat with (k' - sg_len a <? sg_len b)%nat
      by (apply Nat.ltb_ge in E1; destruct (k' - sg_len a <? sg_len b)%nat eqn:X; symmetry;
          [apply Nat.ltb_lt in X; apply Nat.ltb_lt|apply Nat.ltb_ge in X; apply Nat.ltb_ge]; lia).
    destruct (k' - sg_len a <? sg_len b)%nat eqn:E2; [reflexivity|].
    destruct (k' - sg_len a - sg_len b <? sg_len c)%nat eqn:E3; [reflexivity|lia].
Qed.

(** * The hop and info fields *)
Lemma hop_render k mid k' : (k' < n)%nat ->
  nthN (p_hops (render p pp k mid)) (N.of_nat k') = Some (rhop (hop p k')).
Proof.
  intros H. rewrite nthN_of_nat. unfold render. cbn [p_hops].
  erewrite map_nth_error; [reflexivity|]. unfold hop. now apply nth_error_nth'.
Qed.

Lemma info_render k mid j : (j < length (pv_segs p))%nat ->
  nthN (p_infos (render p pp k mid)) (N.of_nat j) = Some (rinfo p k mid j).
Proof.
  intros H. rewrite nthN_of_nat. unfold render, rinfos. cbn [p_infos]. now apply nth_error_map_seq.
Qed.

Lemma js_lt k : (k < n)%nat -> (js k < length (pv_segs p))%nat.
Proof. intros H. now destruct (pos_facts p Htot k H). Qed.

(** * Cross-over predicates *)
Lemma is_xover_render k mid : (k < n)%nat ->
  is_xover (render p pp k mid) = negb (Nat.eqb (S k) n) && is_last p k.
Proof.
  intros H. unfold is_xover. rewrite num_hops_render.
  change (p_curr_hf (render p pp k mid)) with (N.of_nat k).
  change (p_curr_inf (render p pp k mid)) with (N.of_nat (js k)).
  destruct (Nat.eqb (S k) n) eqn:E.
  - apply Nat.eqb_eq in E. cbn [negb andb]. replace (N.of_nat k + 1 <? N.of_nat n)%N with false by lia.
    reflexivity.
  - apply Nat.eqb_neq in E. cbn [negb andb].
    replace (N.of_nat k + 1 <? N.of_nat n)%N with true by lia. cbn [andb].
    replace (N.of_nat k + 1)%N with (N.of_nat (S k)) by lia.
    rewrite inf_index_render by lia.
    destruct (is_last p k) eqn:L.
    + destruct (step_next p Hpos Htot k) as (A & _); [lia|assumption|]. rewrite A. lia.
    + destruct (step_same p Htot k H L) as (A & _). rewrite A. lia.
Qed.

Lemma first_after_xover_render k mid : (k < n)%nat ->
  is_first_hop_after_xover (render p pp k mid) = negb (Nat.eqb k 0) && is_first p k.
Proof.
  intros H. unfold is_first_hop_after_xover.
  change (p_curr_hf (render p pp k mid)) with (N.of_nat k).
  change (p_curr_inf (render p pp k mid)) with (N.of_nat (js k)).
  destruct k as [|k].
  - cbn [Nat.eqb negb andb N.of_nat]. now rewrite andb_false_r.
  - cbn [Nat.eqb negb andb].
    replace (N.of_nat (S k) - 1)%N with (N.of_nat k) by lia.
    rewrite inf_index_render by lia.
    replace (0 <? N.of_nat (S k))%N with true by lia. rewrite andb_true_r.
    destruct (is_first p (S k)) eqn:F.
    + destruct (prev_next p Hpos Htot k H F) as (_ & A). rewrite A. lia.
    + destruct (prev_same p Hpos Htot k H F) as (_ & A). rewrite A.
      destruct (js (S k)); lia.
Qed.

(** * SegIDs of the info fields *)
Lemma hdr_nth k : hdr p k = nth (js k) (pv_segs p) dseg.
Proof. reflexivity. Qed.

(** the current slice, between the routers of the AS *)
Lemma sid_cur_mid k : (k < n)%nat -> sid p (js k) k true = beta p k.
Proof.
  intros H. destruct (pos_facts p Htot k H) as (A & B & C).
  unfold sid, clampi. rewrite <- hdr_nth. rewrite orb_true_r. f_equal. lia.
Qed.

(** the current slice, on arrival from the previous AS (or from the host) *)
Lemma sid_cur_arrive k : (k < n)%nat ->
  sid p (js k) k false = if cons p k || is_first p k then beta p k else beta p (pred k).
Proof.
  intros H. destruct (pos_facts p Htot k H) as (A & B & C).
  unfold sid, clampi. rewrite <- hdr_nth. fold (cons p k). rewrite orb_false_r.
  unfold is_first. destruct (cons p k); cbn [orb].
  - f_equal. lia.
  - destruct (Nat.eqb (seg_off (lens p) k) 0) eqn:E; f_equal; lia.
Qed.

(** slices already traversed keep the value of their last hop *)
Lemma sid_before j k mid : (k < n)%nat -> (j < js k)%nat ->
  sid p j k mid = beta p (seg_start (lens p) j + sg_len (nth j (pv_segs p) dseg) - 1).
Proof.
  intros H Hj. destruct (pos_facts p Htot k H) as (A & B & C).
  pose proof (seg_start_mono (lens p) j (js k) Hj) as M. rewrite lens_length, nth_lens in M.
  assert (L : (1 <= sg_len (nth j (pv_segs p) dseg))%nat) by (apply len_pos; [apply Hpos|lia]).
  unfold sid, clampi. f_equal. destruct (sg_consdir (nth j (pv_segs p) dseg) || mid); lia.
Qed.

(** slices not yet reached keep the value of their first hop *)
Lemma sid_after j k mid : (k < n)%nat -> (js k < j)%nat -> (j < length (pv_segs p))%nat ->
  sid p j k mid = beta p (seg_start (lens p) j).
Proof.
  intros H Hj Hl. destruct (pos_facts p Htot k H) as (A & B & C).
  pose proof (seg_start_mono (lens p) (js k) j Hj) as M. rewrite lens_length, nth_lens, <- hdr_nth in M.
  unfold sid, clampi. f_equal. destruct (sg_consdir (nth j (pv_segs p) dseg) || mid); lia.
Qed.

(** the slice just left, seen from the first hop of the next one *)
Lemma sid_left k mid : (S k < n)%nat -> is_last p k = true -> sid p (js k) (S k) mid = beta p k.
Proof.
  intros H L. assert (Hk : (k < n)%nat) by lia.
  pose proof (end_of_last p Htot k Hk L) as E.
  destruct (pos_facts p Htot k Hk) as (A & B & C).
  unfold sid, clampi. rewrite <- hdr_nth. f_equal.
  destruct (sg_consdir (hdr p k) || mid); cbn [pred]; lia.
Qed.

(** inside a slice, on arrival at the next hop *)
Lemma sid_next_arrive k : (k < n)%nat -> is_last p k = false ->
  sid p (js k) (S k) false = if cons p k then beta p (S k) else beta p k.
Proof.
  intros H L. destruct (step_same p Htot k H L) as (E1 & E2 & E3).
  rewrite <- E1. rewrite sid_cur_arrive by assumption.
  unfold cons. rewrite (hdr_same p Htot k H L). fold (cons p k).
  unfold is_first. rewrite E2. cbn [Nat.eqb pred]. now rewrite orb_false_r.
Qed.

End Render.
