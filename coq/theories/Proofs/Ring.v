(** Lemmas about Model/Ring.v, part 1: the concrete ring refines the bounded FIFO. *)
From Coq Require Import List NArith ZArith Bool Arith Lia ZifyBool ZifyN ZifyNat.
From Scion Require Import Lib.Check Model.Ring.
Import ListNotations.
Import Ring.

(** ------------------------------------------------------------------ list facts *)
Lemma nth_firstn_lt {A} (l : list A) n i d : i < n -> nth i (firstn n l) d = nth i l d.
Proof.
  revert n i. induction l as [|x l IH]; intros n i H.
  - rewrite firstn_nil. reflexivity.
  - destruct n; [lia|]. destruct i; cbn; [reflexivity|]. apply IH. lia.
Qed.

Lemma nth_skipn_add {A} (l : list A) n i d : nth i (skipn n l) d = nth (n + i) l d.
Proof.
  revert l. induction n as [|n IH]; intros l; [reflexivity|].
  destruct l; cbn [skipn Nat.add]; [destruct i; reflexivity|]. cbn [nth]. apply IH.
Qed.

Lemma nth_repeat_none n i : nth i (repeat (@None entry) n) None = None.
Proof. apply nth_repeat. Qed.

Lemma nth_map_some (l : list entry) i :
  i < length l -> nth i (map Some l) None = Some (nth i l 0%N).
Proof. intros H. rewrite (nth_indep _ None (Some 0%N)) by now rewrite map_length.
  apply (map_nth Some). Qed.

Ltac brk :=
  repeat match goal with
  | |- context[if ?b then _ else _] => let E := fresh "E" in destruct b eqn:E
  | H : context[if ?b then _ else _] |- _ => let E := fresh "E" in destruct b eqn:E
  end.

Ltac bools :=
  repeat match goal with
  | H : (_ <? _) = true |- _ => apply Nat.ltb_lt in H
  | H : (_ <? _) = false |- _ => apply Nat.ltb_ge in H
  | H : (_ <=? _) = true |- _ => apply Nat.leb_le in H
  | H : (_ <=? _) = false |- _ => apply Nat.leb_gt in H
  | H : (_ =? _) = true |- _ => apply Nat.eqb_eq in H
  | H : (_ =? _) = false |- _ => apply Nat.eqb_neq in H
  | H : (_ && _) = true |- _ => apply andb_true_iff in H; destruct H
  end.

(** forward distance from position [a] to position [j] on a ring of [c] cells
    (position c is the same as position 0) *)
Definition dist (c a j : nat) : nat := if a <=? j then j - a else j + c - a.
(** the cell at offset [k] from [a] *)
Definition pos (c a k : nat) : nat := if a + k <? c then a + k else a + k - c.

Lemma copy_in_length l i src : length (fst (copy_in l i src)) = length l.
Proof.
  unfold copy_in. cbn [fst]. rewrite !app_length, firstn_length, firstn_length, skipn_length. lia.
Qed.

Lemma copy_in_nth l i src j :
  i <= length l ->
  nth j (fst (copy_in l i src)) None =
  if (i <=? j) && (j <? i + Nat.min (length l - i) (length src)) then nth (j - i) src None
  else nth j l None.
Proof.
  intros Hi. unfold copy_in. cbn [fst].
  set (n := Nat.min (length l - i) (length src)).
  destruct (i <=? j) eqn:E1; cbn [andb].
  - apply Nat.leb_le in E1. rewrite app_nth2 by (rewrite firstn_length; lia).
    rewrite firstn_length, Nat.min_l by lia.
    destruct (j <? i + n) eqn:E2.
    + apply Nat.ltb_lt in E2. rewrite app_nth1 by (rewrite firstn_length; lia).
      apply nth_firstn_lt. lia.
    + apply Nat.ltb_ge in E2. rewrite app_nth2 by (rewrite firstn_length; lia).
      rewrite firstn_length, Nat.min_l by lia. rewrite nth_skipn_add. f_equal. lia.
  - apply Nat.leb_gt in E1. rewrite app_nth1 by (rewrite firstn_length; lia).
    apply nth_firstn_lt. lia.
Qed.

Lemma clear_length l i n : i + n <= length l -> length (clear l i n) = length l.
Proof.
  intros H. unfold clear. rewrite !app_length, firstn_length, repeat_length, skipn_length. lia.
Qed.

Lemma clear_nth l i n j :
  i + n <= length l ->
  nth j (clear l i n) None = if (i <=? j) && (j <? i + n) then None else nth j l None.
Proof.
  intros H. unfold clear.
  destruct (i <=? j) eqn:E1; cbn [andb].
  - apply Nat.leb_le in E1. rewrite app_nth2 by (rewrite firstn_length; lia).
    rewrite firstn_length, Nat.min_l by lia.
    destruct (j <? i + n) eqn:E2.
    + apply Nat.ltb_lt in E2. rewrite app_nth1 by (rewrite repeat_length; lia).
      apply nth_repeat_none.
    + apply Nat.ltb_ge in E2. rewrite app_nth2 by (rewrite repeat_length; lia).
      rewrite repeat_length, nth_skipn_add. f_equal. lia.
  - apply Nat.leb_gt in E1. rewrite app_nth1 by (rewrite firstn_length; lia).
    apply nth_firstn_lt. lia.
Qed.

Lemma rot_nth (l : list cell) i k :
  i <= length l -> k < length l ->
  nth k (skipn i l ++ firstn i l) None = nth (pos (length l) i k) l None.
Proof.
  intros Hi Hk. unfold pos.
  destruct (i + k <? length l) eqn:E.
  - apply Nat.ltb_lt in E. rewrite app_nth1 by (rewrite skipn_length; lia).
    apply nth_skipn_add.
  - apply Nat.ltb_ge in E. rewrite app_nth2 by (rewrite skipn_length; lia).
    rewrite skipn_length, nth_firstn_lt by lia. f_equal. lia.
Qed.

Lemma rot_length (l : list cell) i : i <= length l -> length (skipn i l ++ firstn i l) = length l.
Proof. intros H. rewrite app_length, skipn_length, firstn_length. lia. Qed.

(** ------------------------------------------------------------------
    Pointwise form of the representation invariant. *)
Definition Rep (l : list cell) (i m : nat) (qs : list entry) : Prop :=
  length qs = m /\
  forall k, k < length l ->
    nth (pos (length l) i k) l None = if k <? m then Some (nth k qs 0%N) else None.

Lemma rep_of_rot l i m w qs :
  i <= length l -> m + w = length l ->
  skipn i l ++ firstn i l = map Some qs ++ repeat None w -> Rep l i m qs.
Proof.
  intros Hi Hm E.
  assert (Hl : length qs = m).
  { apply (f_equal (@length _)) in E. rewrite rot_length in E by exact Hi.
    rewrite app_length, map_length, repeat_length in E. lia. }
  split; [exact Hl|]. intros k Hk. rewrite <- rot_nth by assumption. rewrite E.
  destruct (k <? m) eqn:E1.
  - apply Nat.ltb_lt in E1. rewrite app_nth1 by (rewrite map_length; lia).
    apply nth_map_some. lia.
  - apply Nat.ltb_ge in E1. rewrite app_nth2 by (rewrite map_length; lia).
    apply nth_repeat_none.
Qed.

Lemma rot_of_rep l i m w qs :
  i <= length l -> m + w = length l -> Rep l i m qs ->
  skipn i l ++ firstn i l = map Some qs ++ repeat None w.
Proof.
  intros Hi Hm [Hl H].
  apply (nth_ext _ _ None None).
  - rewrite rot_length by exact Hi. rewrite app_length, map_length, repeat_length. lia.
  - intros k Hk. rewrite rot_length in Hk by exact Hi. rewrite rot_nth by assumption.
    rewrite H by exact Hk.
    destruct (k <? m) eqn:E1.
    + apply Nat.ltb_lt in E1. rewrite app_nth1 by (rewrite map_length; lia).
      symmetry. apply nth_map_some. lia.
    + apply Nat.ltb_ge in E1. rewrite app_nth2 by (rewrite map_length; lia).
      symmetry. apply nth_repeat_none.
Qed.

(** every cell index is some offset from [i] *)
Lemma pos_dist c i j : i <= c -> j < c -> pos c i (dist c i j) = j /\ dist c i j < c.
Proof. intros. unfold pos, dist. brk; bools; lia. Qed.

Lemma rep_cell l i m qs j :
  i <= length l -> j < length l -> Rep l i m qs ->
  nth j l None = if dist (length l) i j <? m then Some (nth (dist (length l) i j) qs 0%N) else None.
Proof.
  intros Hi Hj [_ H]. destruct (pos_dist (length l) i j Hi Hj) as [E D].
  rewrite <- E at 1. apply H. exact D.
Qed.

(** ------------------------------------------------------------------
    The two-copy write is a contiguous overwrite in ring coordinates. *)
Lemma write_raw_spec l w es :
  w <= length l -> length es <= length l ->
  let '(l', w') := write_raw l w es in
  length l' = length l /\
  (w' = (if w + length es <=? length l then w + length es else w + length es - length l)) /\
  forall j, j < length l ->
    nth j l' None = if dist (length l) w j <? length es
                    then Some (nth (dist (length l) w j) es 0%N) else nth j l None.
Proof.
  intros Hw Hn. unfold write_raw.
  destruct (copy_in l w (map Some es)) as [l1 n] eqn:C1.
  assert (L1 : length l1 = length l) by (rewrite <- (copy_in_length l w (map Some es)), C1; reflexivity).
  assert (N1 : n = Nat.min (length l - w) (length es)).
  { unfold copy_in in C1. inversion C1. now rewrite map_length. }
  assert (P1 := fun j => copy_in_nth l w (map Some es) j Hw). rewrite C1 in P1. cbn [fst] in P1.
  rewrite map_length in *.
  destruct (n <? length es) eqn:E.
  - apply Nat.ltb_lt in E.
    destruct (copy_in l1 0 (skipn n (map Some es))) as [l2 n2] eqn:C2.
    assert (L2 : length l2 = length l1)
      by (rewrite <- (copy_in_length l1 0 (skipn n (map Some es))), C2; reflexivity).
    assert (N2 : n2 = Nat.min (length l1) (length es - n)).
    { unfold copy_in in C2. inversion C2. rewrite skipn_length, map_length. f_equal. lia. }
    assert (P2 := fun j => copy_in_nth l1 0 (skipn n (map Some es)) j (Nat.le_0_l _)).
    rewrite C2 in P2. cbn [fst] in P2. rewrite skipn_length, map_length in P2.
    split; [lia|]. split; [brk; bools; lia|].
    intros j Hj. rewrite P2. cbn [Nat.leb andb]. rewrite P1. unfold dist.
    brk; bools; try (exfalso; lia); rewrite ?nth_skipn_add; rewrite ?nth_map_some by lia;
      try reflexivity; do 2 f_equal; lia.
  - apply Nat.ltb_ge in E. split; [lia|]. split; [brk; bools; lia|].
    intros j Hj. rewrite P1. unfold dist.
    brk; bools; try (exfalso; lia); rewrite ?nth_map_some by lia; try reflexivity; do 2 f_equal; lia.
Qed.

(** The two-copy read returns the first [k] cells from the read index and
    clears them. *)
Lemma read_raw_spec l r k :
  r <= length l -> k <= length l ->
  let '(l', r', got) := read_raw l r k in
  length l' = length l /\
  (r' = (if r + k <=? length l then r + k else r + k - length l)) /\
  length got = k /\
  (forall t, t < k -> nth t got None = nth (pos (length l) r t) l None) /\
  forall j, j < length l ->
    nth j l' None = if dist (length l) r j <? k then None else nth j l None.
Proof.
  intros Hr Hk. unfold read_raw.
  set (n := Nat.min k (length l - r)).
  assert (Hn : r + n <= length l) by lia.
  assert (L1 := clear_length l r n Hn).
  assert (P1 := fun j => clear_nth l r n j Hn).
  destruct (n <? k) eqn:E.
  - apply Nat.ltb_lt in E.
    set (n2 := Nat.min (k - n) (length (clear l r n))).
    assert (Hn2 : 0 + n2 <= length (clear l r n)) by lia.
    assert (L2 := clear_length _ 0 n2 Hn2).
    assert (P2 := fun j => clear_nth (clear l r n) 0 n2 j Hn2).
    split; [lia|]. split; [brk; bools; lia|]. split.
    { rewrite app_length, !firstn_length, skipn_length. lia. }
    split.
    + intros t Ht. unfold pos.
      destruct (t <? n) eqn:E1; bools.
      * rewrite app_nth1 by (rewrite firstn_length, skipn_length; lia).
        rewrite nth_firstn_lt by lia. rewrite nth_skipn_add. brk; bools; try (exfalso; lia). reflexivity.
      * rewrite app_nth2 by (rewrite firstn_length, skipn_length; lia).
        rewrite firstn_length, skipn_length. rewrite nth_firstn_lt by lia.
        rewrite P1. brk; bools; try (exfalso; lia). f_equal. lia.
    + intros j Hj. rewrite P2. cbn [Nat.leb andb Nat.add]. rewrite P1. unfold dist.
      brk; bools; try (exfalso; lia); try reflexivity.
  - apply Nat.ltb_ge in E. split; [lia|]. split; [brk; bools; lia|]. split.
    { rewrite firstn_length, skipn_length. lia. }
    split.
    + intros t Ht. rewrite nth_firstn_lt by lia. rewrite nth_skipn_add. unfold pos.
      brk; bools; try (exfalso; lia). reflexivity.
    + intros j Hj. rewrite P1. unfold dist. brk; bools; try (exfalso; lia); try reflexivity.
Qed.

(** ------------------------------------------------------------------
    Invariant, abstraction. *)
Lemma somes_map_some (l : list entry) : somes (map Some l) = l.
Proof. induction l as [|x l IH]; [reflexivity|]. cbn. unfold somes in IH. now rewrite IH. Qed.

Lemma inv_rep r :
  Inv r -> exists qs, Rep (ents r) (ri r) (readable r) qs /\ abs r = qs /\
                      rot r = map Some qs ++ repeat None (writable r).
Proof.
  intros (Hw & Hr & Hs & _ & qs & E). exists qs.
  assert (R : Rep (ents r) (ri r) (readable r) qs).
  { eapply rep_of_rot; eauto. }
  split; [exact R|]. split; [|exact E].
  unfold abs. rewrite E. destruct R as [L _].
  rewrite firstn_app, map_length, L, Nat.sub_diag, firstn_O, app_nil_r.
  rewrite firstn_all2 by (rewrite map_length; lia). apply somes_map_some.
Qed.

Lemma inv_of_rep r qs :
  wi r <= cap r -> ri r <= cap r -> readable r + writable r = cap r ->
  (wi r = ri r + readable r \/ wi r + cap r = ri r + readable r \/
   wi r + cap r + cap r = ri r + readable r) ->
  Rep (ents r) (ri r) (readable r) qs -> Inv r.
Proof.
  intros Hw Hr Hs Hj R. repeat (split; [assumption|]). exists qs.
  unfold rot. eapply rot_of_rep; eauto.
Qed.

Lemma inv_new_empty c : Inv (new_empty c).
Proof.
  apply (inv_of_rep _ []); unfold cap; cbn [new_empty ents wi ri readable writable];
    rewrite ?repeat_length; try lia.
  split; [reflexivity|]. intros k Hk. cbn. apply nth_repeat_none.
Qed.

Lemma inv_new_full es : Inv (new_full es).
Proof.
  apply (inv_of_rep _ es); unfold cap; cbn [new_full ents wi ri readable writable];
    rewrite ?map_length; try lia.
  split; [reflexivity|]. intros k Hk. unfold pos. cbn [Nat.add].
  rewrite map_length in *. brk; bools; try (exfalso; lia). apply nth_map_some. lia.
Qed.

Lemma inv_new c init : Inv (new c init).
Proof. destruct init; [apply inv_new_full | apply inv_new_empty]. Qed.

Lemma abs_new c init : abs (new c init) = init_queue init /\ cap (new c init) = init_cap c init.
Proof.
  destruct init as [es|]; unfold abs, rot, cap; cbn.
  - rewrite app_nil_r, firstn_all2 by (rewrite map_length; lia).
    rewrite map_length. split; [apply somes_map_some | reflexivity].
  - rewrite repeat_length. split; reflexivity.
Qed.

(** ------------------------------------------------------------------
    Refinement: one critical section = one step of the bounded FIFO. *)
Lemma write_refines r es :
  Inv r -> closed r = false ->
  let n := Nat.min (writable r) (length es) in
  let '(l, w) := write_raw (ents r) (wi r) (firstn n es) in
  let r' := set_ring r l w (ri r) (writable r - n) (readable r + n) in
  Inv r' /\ cap r' = cap r /\ abs r' = abs r ++ firstn n es.
Proof.
  intros HI Hc n.
  destruct (inv_rep r HI) as (qs & R & A & _).
  destruct HI as (Hw & Hr & Hs & Hj & _). unfold cap in *.
  assert (Ln : length (firstn n es) = n) by (rewrite firstn_length; lia).
  assert (W := write_raw_spec (ents r) (wi r) (firstn n es) Hw).
  destruct (write_raw (ents r) (wi r) (firstn n es)) as [l w].
  rewrite Ln in W. destruct W as (L & Ew & P); [lia|].
  set (r' := set_ring r l w (ri r) (writable r - n) (readable r + n)).
  destruct R as [Lq R].
  assert (R' : Rep (ents r') (ri r') (readable r') (qs ++ firstn n es)).
  { cbn [r' set_ring ents ri readable]. split.
    - rewrite app_length. lia.
    - intros k Hk. rewrite L in *. rewrite P by (unfold pos; brk; bools; lia).
      rewrite R by exact Hk. unfold dist, pos.
      brk; bools; try (exfalso; lia);
        rewrite ?app_nth1 by lia; rewrite ?app_nth2 by lia; try reflexivity; do 2 f_equal; lia. }
  assert (I' : Inv r').
  { apply (inv_of_rep _ _) with (5 := R'); unfold cap; cbn [r' set_ring ents wi ri readable writable];
      rewrite ?L; brk; bools; lia. }
  split; [exact I'|]. split; [unfold cap; cbn; exact L|].
  destruct (inv_rep r' I') as (qs' & R2 & A2 & _).
  rewrite A2, A. destruct R' as [_ R']. destruct R2 as [L2 R2].
  cbn [r' set_ring ents ri readable] in *.
  apply (nth_ext _ _ 0%N 0%N).
  - rewrite L2, app_length. lia.
  - intros k Hk. assert (Hk' : k < length l) by lia.
    specialize (R' k Hk'). rewrite (R2 k Hk') in R'.
    destruct (k <? readable r + n) eqn:E; bools; [|lia]. now inversion R'.
Qed.

Lemma nth_ext_some (a b : list entry) :
  length a = length b -> (forall k, k < length a -> Some (nth k a 0%N) = Some (nth k b 0%N)) -> a = b.
Proof.
  intros L H. apply (nth_ext _ _ 0%N 0%N); [exact L|]. intros k Hk. specialize (H k Hk). now inversion H.
Qed.

Lemma read_refines r n :
  Inv r -> n <= readable r ->
  let '(l, i, got) := read_raw (ents r) (ri r) n in
  let r' := set_ring r l (wi r) i (writable r + n) (readable r - n) in
  Inv r' /\ cap r' = cap r /\ abs r' = skipn n (abs r) /\ got = map Some (firstn n (abs r)).
Proof.
  intros HI Hn.
  destruct (inv_rep r HI) as (qs & R & A & _).
  destruct HI as (Hw & Hr & Hs & Hj & _). unfold cap in *.
  assert (W := read_raw_spec (ents r) (ri r) n Hr).
  destruct (read_raw (ents r) (ri r) n) as [[l i] got].
  destruct W as (L & Ei & Lg & G & P); [lia|].
  set (r' := set_ring r l (wi r) i (writable r + n) (readable r - n)).
  destruct R as [Lq R].
  assert (R' : Rep (ents r') (ri r') (readable r') (skipn n qs)).
  { cbn [r' set_ring ents ri readable]. split.
    - rewrite skipn_length. lia.
    - intros k Hk. rewrite L in *. rewrite P by (unfold pos; brk; bools; lia).
      rewrite (rep_cell (ents r) (ri r) (readable r) qs) by
        (try split; try assumption; unfold pos; brk; bools; lia).
      rewrite nth_skipn_add. unfold dist, pos.
      brk; bools; try (exfalso; lia); try reflexivity; do 2 f_equal; lia. }
  assert (I' : Inv r').
  { apply (inv_of_rep _ _) with (5 := R'); unfold cap; cbn [r' set_ring ents wi ri readable writable];
      rewrite ?L; brk; bools; lia. }
  split; [exact I'|]. split; [unfold cap; cbn; exact L|].
  destruct (inv_rep r' I') as (qs' & R2 & A2 & _).
  rewrite A2, A. destruct R' as [L' R']. destruct R2 as [L2 R2].
  cbn [r' set_ring ents ri readable] in *. split.
  - apply nth_ext_some; [lia|]. intros k Hk. assert (Hk' : k < length l) by lia.
    specialize (R' k Hk'). rewrite (R2 k Hk') in R'.
    destruct (k <? readable r - n) eqn:E; bools; [|lia]. exact R'.
  - apply (nth_ext _ _ None None).
    + rewrite map_length, firstn_length. lia.
    + intros t Ht. rewrite Lg in Ht. rewrite G by exact Ht. rewrite R by lia.
      rewrite nth_map_some by (rewrite firstn_length; lia). rewrite nth_firstn_lt by exact Ht.
      destruct (t <? readable r) eqn:E; bools; [reflexivity|lia].
Qed.

Lemma abs_length r : Inv r -> length (abs r) = readable r.
Proof. intros HI. destruct (inv_rep r HI) as (qs & [L _] & A & _). now rewrite A. Qed.

Theorem step_refines r o :
  Inv r ->
  let '(r', x, _) := seq_full r o in
  Inv r' /\ cap r' = cap r /\ spec_step (cap r) (abs_fifo r) o = (abs_fifo r', x).
Proof.
  intros HI. assert (LA := abs_length r HI).
  assert (HS : readable r + writable r = cap r) by (destruct HI as (_ & _ & H & _); exact H).
  destruct o as [es block | k block |].
  - (* Write *)
    cbn [seq_full spec_step abs_fifo q cl]. rewrite LA.
    replace (cap r <=? readable r) with (writable r =? 0)
      by (destruct (writable r =? 0) eqn:E1, (cap r <=? readable r) eqn:E2; bools; lia).
    destruct ((0 <? length es) && (writable r =? 0) && negb (closed r)) eqn:E.
    + destruct block; (split; [exact HI|]; split; reflexivity).
    + destruct (closed r) eqn:Ec.
      * split; [exact HI|]. split; [reflexivity|]. unfold abs_fifo. now rewrite Ec.
      * assert (W := write_refines r es HI Ec). cbv zeta in W.
        replace (cap r - readable r) with (writable r) by lia.
        destruct (write_raw (ents r) (wi r) (firstn (Nat.min (writable r) (length es)) es)) as [l w].
        destruct W as (I' & C' & A'). split; [exact I'|]. split; [exact C'|].
        unfold abs_fifo. rewrite A'. cbn [set_ring closed]. now rewrite Ec.
  - (* Read *)
    cbn [seq_full spec_step abs_fifo q cl]. rewrite LA.
    destruct ((0 <? k) && (readable r =? 0) && negb (closed r)) eqn:E.
    + destruct block; (split; [exact HI|]; split; reflexivity).
    + destruct (closed r && (readable r =? 0)) eqn:E2.
      * split; [exact HI|]. split; reflexivity.
      * assert (W := read_refines r (Nat.min (readable r) k) HI (Nat.le_min_l _ _)).
        destruct (read_raw (ents r) (ri r) (Nat.min (readable r) k)) as [[l i] got].
        destruct W as (I' & C' & A' & G). split; [exact I'|]. split; [exact C'|].
        unfold abs_fifo. rewrite A', G. reflexivity.
  - (* Close *)
    cbn [seq_full spec_step abs_fifo q cl].
    split; [|split; reflexivity].
    destruct HI as (H1 & H2 & H3 & H4 & H5). repeat split; assumption.
Qed.

(** transferred counts *)
Theorem step_bounds r o r' k got bc :
  Inv r -> seq_full r o = (r', Ret k got, bc) ->
  (k <= Z.of_nat (cap r))%Z /\
  match o with
  | Write es _ => (k <= Z.of_nat (length es))%Z /\ (k <= Z.of_nat (writable r))%Z /\ got = [] /\
                  ((0 <= k)%Z -> readable r' = readable r + Z.to_nat k /\
                                 writable r' = writable r - Z.to_nat k)
  | Read n _ => (k <= Z.of_nat n)%Z /\ (k <= Z.of_nat (readable r))%Z /\
                ((0 <= k)%Z -> Z.of_nat (length got) = k /\
                               readable r' = readable r - Z.to_nat k /\
                               writable r' = writable r + Z.to_nat k)
  | Close => k = 0%Z /\ got = []
  end.
Proof.
  intros HI E.
  assert (HS : readable r + writable r = cap r) by (destruct HI as (_ & _ & H & _); exact H).
  destruct o as [es block | n block |]; cbn [seq_full] in E.
  - destruct ((0 <? length es) && (writable r =? 0) && negb (closed r)).
    + destruct block; inversion E; subst; repeat split; intros; try reflexivity; lia.
    + destruct (closed r); [inversion E; subst; repeat split; intros; try reflexivity; lia|].
      destruct (write_raw _ _ _) as [l w]. inversion E; subst. cbn [set_ring readable writable].
      repeat split; intros; try reflexivity; lia.
  - destruct ((0 <? n) && (readable r =? 0) && negb (closed r)).
    + destruct block; inversion E; subst; repeat split; intros; try reflexivity; lia.
    + destruct (closed r && (readable r =? 0)); [inversion E; subst; repeat split; intros; try reflexivity; lia|].
      assert (W := read_refines r (Nat.min (readable r) n) HI (Nat.le_min_l _ _)).
      destruct (read_raw _ _ _) as [[l i] g]. inversion E; subst. cbn [set_ring readable writable].
      destruct W as (_ & _ & _ & G). rewrite G, map_length, firstn_length, abs_length by exact HI.
      repeat split; intros; try reflexivity; lia.
  - inversion E; subst. split; [lia|]. split; reflexivity.
Qed.
