(** The generic walk: it is [Network.run_fuel] for SCION processing, and a walk
    that delivers under a processing function that forwards only what another
    one forwards (with the same output) is the same walk under that other one. *)
From Coq Require Import List NArith Bool Lia.
From Scion Require Import Lib.Check Model.Router Model.Network Model.RouterEpic Model.NetWalk.
From Scion Require Import Proofs.RouterEpic.
Import ListNotations.
Import Scion.Model.Router.Router Network NetWalk.

Lemma run_with_scion macq t now : forall fuel l p,
  run_with (scion_proc macq now) t fuel l p = run_fuel macq t now fuel l p.
Proof. intros fuel l p. reflexivity. Qed.   (* the two fixpoints have convertible bodies *)

Definition is_delivered (f : final) : Prop :=
  match f with Delivered _ _ _ _ => True | _ => False end.

Lemma run_with_refines proc1 proc2 t :
  (forall a r ing q e o d, proc1 a r ing q = Forward e o d -> proc2 a r ing q = Forward e o d) ->
  forall fuel l p tr fin,
    run_with proc1 t fuel l p = (tr, fin) -> is_delivered fin ->
    run_with proc2 t fuel l p = (tr, fin).
Proof.
  intros R. induction fuel as [|fuel IH]; intros l p tr fin H D.
  - cbn in H. inversion H; subst. contradiction.
  - cbn [run_with] in *.
    destruct (find_as t (l_ia l)) as [a|]; [|inversion H; subst; contradiction].
    destruct (proc1 a (l_rtr l) (l_ing l) p) as [| | |e o d| | |] eqn:E;
      try (inversion H; subst; contradiction).
    rewrite (R _ _ _ _ _ _ _ E).
    destruct d; [exact H|].
    destruct (find_nif (a_ifs a) e) as [f|]; [|exact H].
    destruct (ni_owner f =? l_rtr l)%N.
    + destruct (find_as t (ni_nbr f)) as [b|]; [|exact H].
      destruct (find_nif (a_ifs b) (ni_remote f)) as [g|]; [|exact H].
      destruct (run_with proc1 t fuel (mkLoc (a_ia b) (ni_owner g) (InExt (ni_remote f))) o) as [tr1 fin1] eqn:E1.
      inversion H; subst. now rewrite (IH _ _ _ _ E1 D).
    + destruct (run_with proc1 t fuel (mkLoc (a_ia a) (ni_owner f) (InSib (l_rtr l + 1))) o) as [tr1 fin1] eqn:E1.
      inversion H; subst. now rewrite (IH _ _ _ _ E1 D).
Qed.

(** EPIC: every router forwards an EPIC packet only if it forwards the embedded SCION path,
    with the same output (C13) *)
Lemma epic_refines_scion fullq emacq now ep :
  forall a r ing q e o d,
    epic_proc fullq emacq now ep a r ing q = Forward e o d ->
    scion_proc (fun k => RouterEpic.macq (fullq k)) now a r ing q = Forward e o d.
Proof. intros a r ing q e o d H. unfold epic_proc in H. unfold scion_proc. now apply process_epic_only_if_scion in H. Qed.
