(** What [wf_prov_b] gives, hop by hop: MAC equations, the beta chain as the
    SegID transitions of the walk, links of the topology with the link types
    the router's admission table wants. *)
From Coq Require Import List NArith Bool Arith Lia ZifyBool ZifyN ZifyNat.
From Scion Require Import Lib.Check Model.Router Model.Network Model.Prov.
From Scion Require Import Proofs.ProvStruct Proofs.ProvRender Proofs.ForwardView.
Import ListNotations.
Import Router Network Prov.

Lemma forallb_range f m k : forallb f (range m) = true -> (k < m)%nat -> f k = true.
Proof. intros H Hk. rewrite forallb_forall in H. apply H. apply in_seq. lia. Qed.

Lemma forallb_seq1 f m k : forallb f (seq 1 m) = true -> (1 <= k)%nat -> (k <= m)%nat -> f k = true.
Proof. intros H H1 Hk. rewrite forallb_forall in H. apply H. apply in_seq. lia. Qed.

Lemma lt_eqb_eq a b : lt_eqb a b = true -> a = b.
Proof. destruct a, b; cbn; intros; try reflexivity; discriminate. Qed.

Definition mirror (l : linktype) : linktype :=
  match l with Core => Core | Parent => Child | Child => Parent | Peer => Peer | Unset => Unset end.
Lemma mirrored_mirror a b : mirrored a b = true -> b = mirror a.
Proof. destruct a, b; cbn; intros; try reflexivity; discriminate. Qed.

Section Facts.
Variable mac : N -> N -> N -> N -> N -> N -> list N.
Definition macq_of := fun k s ts e i g => Some (mac k s ts e i g).
Variable t : topology.
Variable p : prov.
(** one bundled hypothesis, so that every lemma of this section has the same premises *)
Definition good : Prop := wf_topo t = true /\ all_up t = true /\ wf_prov_b macq_of t p = true.
Hypothesis HG : good.
Let Hwt : wf_topo t = true := proj1 HG.
Let Hup : all_up t = true := proj1 (proj2 HG).
Let Hwf : wf_prov_b macq_of t p = true := proj2 (proj2 HG).

Notation n := (nhops p).
Notation js := (seg_idx (lens p)).
Notation nsegs := (length (pv_segs p)).

Lemma wf_parts :
  shape_ok p = true /\ (2 <= n)%nat /\
  forallb (hop_ok macq_of t p) (range n) = true /\
  forallb (fun k => chain_ok p k && link_ok t p k && junction_ok p k) (range (n - 1)) = true /\
  forallb (fun k => negb (ia p k =? ia p 0)%N) (seq 1 (n - 1)) = true /\
  forallb (fun k => negb (ia p k =? ia p (n - 1))%N) (range (n - 1)) = true.
Proof.
  unfold wf_prov_b in Hwf.
  apply andb_true_iff in Hwf as [W H5]. apply andb_true_iff in W as [W H4].
  apply andb_true_iff in W as [W H3]. apply andb_true_iff in W as [W H2].
  apply andb_true_iff in W as [W H1].
  repeat split; try assumption. now apply Nat.leb_le.
Qed.

Lemma Hshape : shape_ok p = true.
Proof. apply wf_parts. Qed.
Lemma n_ge2 : (2 <= n)%nat.
Proof. apply wf_parts. Qed.

(** the AS of a hop, its key and the MAC equation *)
Lemma hop_fact k : (k < n)%nat ->
  exists a, find_as t (ia p k) = Some a /\ a_ia a = ia p k /\
    ph_mac (hop p k) =
    mac (a_key a) (beta p k) (sg_ts (hdr p k)) (ph_exp (hop p k)) (ph_in (hop p k)) (ph_eg (hop p k)).
Proof.
  intros Hk. destruct wf_parts as (_ & _ & H & _).
  pose proof (forallb_range _ _ k H Hk) as K. unfold hop_ok in K.
  destruct (find_as t (ia p k)) as [a|] eqn:E; [|discriminate].
  exists a. split; [reflexivity|]. split; [now destruct (find_as_ia _ _ _ E)|].
  unfold macq_of in K. now apply list_eqb_eq in K; [|intros; apply N.eqb_eq].
Qed.

Lemma pair_fact k : (S k < n)%nat -> chain_ok p k = true /\ link_ok t p k = true /\ junction_ok p k = true.
Proof.
  intros Hk. destruct wf_parts as (_ & _ & _ & H & _).
  assert (K : (k < n - 1)%nat) by lia.
  pose proof (forallb_range _ _ k H K) as X. cbv beta in X.
  apply andb_true_iff in X as [X J]. apply andb_true_iff in X as [C L]. auto.
Qed.

Lemma ia_not_src k : (1 <= k)%nat -> (k < n)%nat -> ia p k <> ia p 0.
Proof.
  intros H1 Hk. destruct wf_parts as (_ & _ & _ & _ & H & _).
  pose proof (forallb_seq1 _ _ k H H1 ltac:(lia)) as X. now apply N.eqb_neq, negb_true_iff.
Qed.

Lemma ia_not_dst k : (S k < n)%nat -> ia p k <> ia p (n - 1).
Proof.
  intros Hk. destruct wf_parts as (_ & _ & _ & _ & _ & H).
  pose proof (forallb_range _ _ k H ltac:(lia)) as X. now apply N.eqb_neq, negb_true_iff.
Qed.

(** * Positions: consequences of the shape *)
Local Notation Hs := Hshape.
Local Notation HT := (Htot p Hshape).
Local Notation HP := (Hpos p Hshape).

(** a slice that is not a peering slice: no slice is, and no hop is a peer hop *)
Lemma nopeer_hop k k' : (k < n)%nat -> (k' < n)%nat -> sg_peer (hdr p k) = false -> peerhop p k' = false.
Proof.
  intros Hk Hk' P. unfold peerhop.
  pose proof (nopeer_all p Hs (js k) (js k') (js_lt p Hs k Hk) (js_lt p Hs k' Hk') P) as X.
  rewrite <- hdr_nth in X. now rewrite X.
Qed.

(** peering paths: position facts *)
Lemma peer_positions k : (k < n)%nat -> sg_peer (hdr p k) = true ->
  exists a b, pv_segs p = [a; b] /\ sg_peer a = true /\ sg_peer b = true /\
    sg_consdir a = false /\ sg_consdir b = true /\ sg_kind a = KIntra /\ sg_kind b = KIntra /\
    (js k = 0 \/ js k = 1)%nat.
Proof.
  intros Hk P. destruct (peer_shape p Hs (js k) (js_lt p Hs k Hk) P)
    as (a & b & E & Pa & Pb & Ca & Cb & Ka & Kb).
  exists a, b. repeat split; try assumption.
  pose proof (js_lt p Hs k Hk) as J. rewrite E in J. cbn [length] in J. lia.
Qed.

(** a hop that arrives from outside at the first hop of a slice: the peering junction *)
Lemma arrive_first k : (S k < n)%nat -> crosses p k = true -> is_first p (S k) = true ->
  sg_peer (hdr p k) = true /\ sg_peer (hdr p (S k)) = true /\ cons p k = false /\ cons p (S k) = true /\
  peerhop p k = true /\ peerhop p (S k) = true /\ sg_kind (hdr p k) = KIntra /\ sg_kind (hdr p (S k)) = KIntra.
Proof.
  intros Hk C F. destruct (prev_next p HP HT k Hk F) as (L & J).
  unfold crosses in C. rewrite L in C. cbn [negb orb] in C.
  destruct (peer_positions k ltac:(lia) C) as (a & b & E & Pa & Pb & Ca & Cb & Ka & Kb & Jk).
  pose proof (js_lt p Hs (S k) Hk) as J2. rewrite E in J2. cbn [length] in J2.
  assert (J0 : js k = 0%nat) by lia. assert (J1 : js (S k) = 1%nat) by lia.
  unfold peerhop, cons, hdr. rewrite J0, J1, E. cbn [nth].
  rewrite Pa, Pb, Ca, Cb. cbn [andb]. rewrite L, F. repeat split; assumption.
Qed.

(** * The beta chain as SegID transitions *)

(** on arrival the router folds the MAC prefix in (against construction direction,
    not on a peer hop, not on the first hop): the value it verifies with is beta *)
Definition upd_in (k : nat) : bool := negb (cons p k) && negb (Nat.eqb k 0) && negb (peerhop p k).

Lemma arrive_beta k : (k < n)%nat -> (k = 0%nat \/ crosses p (k - 1) = true) ->
  (if upd_in k then N.lxor (sid p (js k) k false) (sigma p k) else sid p (js k) k false) = beta p k.
Proof.
  intros Hk Hc. rewrite (sid_cur_arrive p Hs k Hk). unfold upd_in.
  destruct (cons p k) eqn:C; cbn [negb andb orb]; [reflexivity|].
  destruct k as [|k].
  - cbn [Nat.eqb negb andb]. destruct (first_0 p HP HT ltac:(lia)) as [F _]. now rewrite F.
  - cbn [Nat.eqb negb andb pred]. destruct Hc as [Hc|Hc]; [discriminate|].
    replace (S k - 1)%nat with k in Hc by lia.
    destruct (is_first p (S k)) eqn:F.
    + destruct (arrive_first k Hk Hc F) as (_ & _ & _ & C2 & _). congruence.
    + destruct (prev_same p HP HT k Hk F) as (L & J).
      destruct (pair_fact k Hk) as (Ch & _ & _). unfold chain_ok in Ch. rewrite L in Ch. cbn [orb] in Ch.
      assert (Ck : cons p k = false) by (unfold cons, hdr in *; now rewrite J).
      rewrite Ck in Ch. apply N.eqb_eq in Ch.
      destruct (peerhop p (S k)); cbn [negb]; rewrite Ch; reflexivity.
Qed.

(** info fields other than the current one do not depend on [mid] *)
Lemma sid_other_mid j k mid mid' : (k < n)%nat -> (j < nsegs)%nat -> j <> js k ->
  sid p j k mid = sid p j k mid'.
Proof.
  intros Hk Hj Hne. destruct (Nat.lt_ge_cases j (js k)).
  - now rewrite !(sid_before p Hs j k) by assumption.
  - now rewrite !(sid_after p Hs j k) by (assumption || lia).
Qed.

(** at an effective segment change the pointers move, the SegIDs stay *)
Lemma sid_xover j k : (S k < n)%nat -> is_last p k = true -> (j < nsegs)%nat ->
  sid p j k true = sid p j (S k) true.
Proof.
  intros Hk L Hj. assert (Hk' : (k < n)%nat) by lia.
  destruct (step_next p HP HT k Hk L) as (J & O & St).
  destruct (Nat.lt_trichotomy j (js k)) as [Lt|[Eq|Gt]].
  - rewrite (sid_before p Hs j k) by assumption. rewrite (sid_before p Hs j (S k)) by lia. reflexivity.
  - subst j. rewrite (sid_cur_mid p Hs k Hk'). now rewrite (sid_left p Hs k true Hk L).
  - rewrite (sid_after p Hs j k) by assumption.
    destruct (Nat.eq_dec j (js (S k))) as [E|E].
    + subst j. rewrite (sid_cur_mid p Hs (S k) Hk). rewrite J, St. reflexivity.
    + now rewrite (sid_after p Hs j (S k)) by (assumption || lia).
Qed.

(** leaving an AS over an external interface: in construction direction the MAC
    prefix is folded in (not on a peer hop); the result is what the next AS expects *)
Definition upd_out (k : nat) : bool := cons p k && negb (peerhop p k).

Lemma depart_beta k : (S k < n)%nat -> crosses p k = true ->
  (if upd_out k then N.lxor (beta p k) (sigma p k) else beta p k) = sid p (js k) (S k) false.
Proof.
  intros Hk C. assert (Hk' : (k < n)%nat) by lia. unfold upd_out.
  destruct (is_last p k) eqn:L.
  - (* the peering link out of the first slice *)
    unfold crosses in C. rewrite L in C. cbn [negb orb] in C.
    destruct (step_next p HP HT k Hk L) as (J & O & St).
    assert (F : is_first p (S k) = true) by (unfold is_first; now rewrite O).
    assert (C' : crosses p k = true) by (unfold crosses; now rewrite C, orb_true_r).
    destruct (arrive_first k Hk C' F) as (_ & _ & Ck & _).
    rewrite Ck. cbn [andb]. now rewrite (sid_left p Hs k false Hk L).
  - rewrite (sid_next_arrive p Hs k Hk' L).
    destruct (pair_fact k Hk) as (Ch & _ & _). unfold chain_ok in Ch. rewrite L in Ch. cbn [orb] in Ch.
    destruct (cons p k); cbn [andb].
    + apply N.eqb_eq in Ch. rewrite Ch. destruct (peerhop p k); reflexivity.
    + reflexivity.
Qed.

Lemma sid_depart_other j k : (S k < n)%nat -> crosses p k = true -> (j < nsegs)%nat -> j <> js k ->
  sid p j k true = sid p j (S k) false.
Proof.
  intros Hk C Hj Hne. assert (Hk' : (k < n)%nat) by lia.
  destruct (is_last p k) eqn:L.
  - destruct (step_next p HP HT k Hk L) as (J & O & St).
    destruct (Nat.lt_ge_cases j (js k)) as [Lt|Ge].
    + rewrite (sid_before p Hs j k) by assumption. rewrite (sid_before p Hs j (S k)) by lia. reflexivity.
    + rewrite (sid_after p Hs j k) by (assumption || lia).
      destruct (Nat.eq_dec j (js (S k))) as [E|E].
      * subst j. rewrite (sid_cur_arrive p Hs (S k) Hk).
        assert (F : is_first p (S k) = true) by (unfold is_first; now rewrite O).
        rewrite F, orb_true_r. rewrite J, St. reflexivity.
      * now rewrite (sid_after p Hs j (S k)) by (assumption || lia).
  - destruct (step_same p HT k Hk' L) as (J & _ & _).
    destruct (Nat.lt_ge_cases j (js k)) as [Lt|Ge].
    + rewrite (sid_before p Hs j k) by assumption. rewrite (sid_before p Hs j (S k)) by lia. reflexivity.
    + rewrite (sid_after p Hs j k) by (assumption || lia).
      now rewrite (sid_after p Hs j (S k)) by (assumption || lia).
Qed.

(** * Links *)
Definition dnas : nas := mkAs 0 0 0 [] [] 0 0.
Definition dnif : nif := mkNif 0 Unset 0 0 0 false.
Definition as_of (k : nat) : nas := match find_as t (ia p k) with Some a => a | None => dnas end.
Definition nif_of (k : nat) (x : N) : nif :=
  match find_nif (a_ifs (as_of k)) x with Some f => f | None => dnif end.

Lemma as_of_ok k : (k < n)%nat -> find_as t (ia p k) = Some (as_of k) /\ a_ia (as_of k) = ia p k.
Proof.
  intros Hk. destruct (hop_fact k Hk) as (a & E & I & _). unfold as_of. rewrite E. auto.
Qed.

Lemma as_of_self k : (k < n)%nat -> find_as t (a_ia (as_of k)) = Some (as_of k).
Proof. intros Hk. destruct (as_of_ok k Hk) as [A B]. now rewrite B. Qed.

Lemma mac_fact k : (k < n)%nat ->
  ph_mac (hop p k) =
  mac (a_key (as_of k)) (beta p k) (sg_ts (hdr p k)) (ph_exp (hop p k)) (ph_in (hop p k)) (ph_eg (hop p k)).
Proof.
  intros Hk. destruct (hop_fact k Hk) as (a & E & _ & M). unfold as_of. now rewrite E.
Qed.

(** the link between hop [k] and hop [k+1] *)
Lemma link_fact k : (S k < n)%nat -> crosses p k = true ->
  let f := nif_of k (tr_eg p k) in let g := nif_of (S k) (tr_in p (S k)) in
  find_nif (a_ifs (as_of k)) (tr_eg p k) = Some f /\
  find_nif (a_ifs (as_of (S k))) (tr_in p (S k)) = Some g /\
  ni_lt f = eg_type p k /\ ni_lt g = mirror (eg_type p k) /\
  tr_eg p k <> 0%N /\ tr_in p (S k) <> 0%N /\ ni_up f = true /\
  ni_nbr f = ia p (S k) /\ ni_remote f = tr_in p (S k).
Proof.
  intros Hk C f g. assert (Hk' : (k < n)%nat) by lia.
  destruct (pair_fact k Hk) as (_ & L & _). unfold link_ok in L. rewrite C in L. cbn [negb orb] in L.
  destruct (as_of_ok k Hk') as [Ak Ik]. destruct (as_of_ok (S k) Hk) as [Ak1 Ik1].
  rewrite Ak in L.
  destruct (find_nif (a_ifs (as_of k)) (tr_eg p k)) as [f0|] eqn:Ef; [|discriminate].
  apply andb_true_iff in L as [L Lt]. apply andb_true_iff in L as [Ln Lr].
  apply N.eqb_eq in Ln, Lr. apply lt_eqb_eq in Lt.
  assert (Ff : f = f0) by (unfold f, nif_of; now rewrite Ef).
  destruct (far_end t Hwt Hup (as_of k) (tr_eg p k) f0 (as_of_self k Hk') Ef)
    as (Nz & Up & b & g0 & Eb & Eg & Mi & Rz & _).
  rewrite Ln, Ak1 in Eb. inversion Eb; subst b. rewrite Lr in Eg.
  assert (Gg : g = g0) by (unfold g, nif_of; now rewrite Eg).
  rewrite Ff, Gg. repeat split; try assumption.
  - apply mirrored_mirror in Mi. now rewrite Mi, Lt.
  - now rewrite <- Lr.
Qed.

(** * Link types against the router's admission table *)
Definition base_type (s : pseg) : linktype :=
  match sg_kind s with KCore => Core | KIntra => if sg_consdir s then Child else Parent end.

Lemma eg_type_inner k : (S k < n)%nat -> is_last p k = false -> eg_type p k = base_type (hdr p k).
Proof.
  intros Hk L. unfold eg_type, base_type, peerhop, cons.
  destruct (sg_consdir (hdr p k)); [now rewrite andb_false_r|]. rewrite L, andb_false_r. reflexivity.
Qed.

Lemma core_not_peer k : (k < n)%nat -> sg_kind (hdr p k) = KCore -> sg_peer (hdr p k) = false.
Proof.
  intros Hk K. destruct (sg_peer (hdr p k)) eqn:P; [|reflexivity].
  destruct (peer_positions k Hk P) as (a & b & E & _ & _ & _ & _ & Ka & Kb & J).
  unfold hdr in K. rewrite E in K. destruct J as [J|J]; rewrite J in K; cbn [nth] in K; congruence.
Qed.

(** forwarding inside a slice or over the peering link *)
Lemma types_intra k : (1 <= k)%nat -> (S k < n)%nat -> crosses p (k - 1) = true -> crosses p k = true ->
  intra_pair (mirror (eg_type p (k - 1))) (eg_type p k) = true.
Proof.
  intros H1 Hk Cp C. destruct k as [|k]; [lia|]. replace (S k - 1)%nat with k in * by lia.
  assert (Hk1 : (S k < n)%nat) by lia.
  destruct (is_first p (S k)) eqn:F.
  - destruct (arrive_first k Hk1 Cp F) as (Pk & Pk1 & Ck & Ck1 & Phk & Phk1 & Kk & Kk1).
    unfold eg_type. rewrite Phk, Ck, Phk1, Ck1, Kk1. reflexivity.
  - destruct (prev_same p HP HT k Hk1 F) as (L & J).
    rewrite (eg_type_inner k Hk1 L).
    assert (Hh : hdr p k = hdr p (S k)) by (unfold hdr; now rewrite J). rewrite Hh.
    unfold eg_type, base_type, cons.
    destruct (sg_kind (hdr p (S k))) eqn:K.
    + assert (P : peerhop p (S k) = false).
      { unfold peerhop. now rewrite (core_not_peer (S k) Hk1 K). }
      rewrite P. reflexivity.
    + destruct (sg_consdir (hdr p (S k))); [now rewrite andb_false_r|].
      rewrite andb_true_r. destruct (peerhop p (S k)); reflexivity.
Qed.

(** an effective segment change *)
Lemma types_xover k : (1 <= k)%nat -> (S (S k) < n + 1)%nat -> (S k < n)%nat ->
  crosses p (k - 1) = true -> crosses p k = false ->
  xover_pair (mirror (eg_type p (k - 1))) (eg_type p (S k)) = true /\ ia p k = ia p (S k).
Proof.
  intros H1 _ Hk Cp C. destruct k as [|k]; [lia|]. replace (S k - 1)%nat with k in * by lia.
  assert (Hk1 : (S k < n)%nat) by lia.
  unfold crosses in C. apply orb_false_iff in C as [L P]. apply negb_false_iff in L.
  destruct (pair_fact (S k) Hk) as (_ & _ & Jn). unfold junction_ok in Jn.
  assert (C : crosses p (S k) = false) by (unfold crosses; now rewrite L, P). rewrite C in Jn. cbn [orb] in Jn.
  apply andb_true_iff in Jn as [Ia Jn]. apply N.eqb_eq in Ia. split; [|assumption].
  (* the slice of S k is not a peering slice: S k is not its first hop (it has >= 2 hops) *)
  destruct (is_first p (S k)) eqn:F.
  - destruct (arrive_first k Hk1 Cp F) as (_ & Pk1 & _). congruence.
  - destruct (prev_same p HP HT k Hk1 F) as (Lk & J).
    rewrite (eg_type_inner k Hk1 Lk).
    assert (Hh : hdr p k = hdr p (S k)) by (unfold hdr; now rewrite J). rewrite Hh.
    assert (P2 : peerhop p (S (S k)) = false) by (apply (nopeer_hop (S k)); assumption).
    unfold eg_type. rewrite P2. cbn [andb]. unfold base_type. unfold cons in *.
    destruct (sg_kind (hdr p (S k))), (sg_kind (hdr p (S (S k)))); try discriminate;
      destruct (sg_consdir (hdr p (S k))), (sg_consdir (hdr p (S (S k)))); try discriminate; reflexivity.
Qed.

End Facts.
