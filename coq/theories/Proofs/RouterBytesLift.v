(** Lemmas for the byte-level forms of C01 / C05 / C06 (Props/C0{1,5,6}_bytes.v): altering exactly
    the 6 MAC bytes of a hop field of a byte string [raw] yields a byte string that abstracts to
    the same record with that hop field's MAC replaced ([set_mac_abstract]); hence the MAC bytes
    of [raw] are the record's ([mac_bytes]).  Built on [abstract_view] (Proofs/RouterBytesCodec.v). *)
From Coq Require Import List Arith NArith ZArith Bool Lia ZifyN ZifyNat ZifyBool.
From Scion Require Import Lib.Bytes Lib.BytesX Lib.Check.
From Scion Require Import Model.HdrPath Proofs.HdrPath Model.HdrScion Proofs.HdrScion.
From Scion Require Import Model.Router Proofs.Router Proofs.RouterInv Model.RouterTotal Proofs.RouterTotal.
From Scion Require Import Model.RouterBytes Proofs.RouterBytesCodec Proofs.RouterBytes.
Import ListNotations.
Local Open Scope N_scope.
Import RouterBytes.

(** the byte-level alteration: 6 bytes at offset [o] replaced by [m], nothing else *)
Definition set_mac (raw : bytes) (o : nat) (m : bytes) : bytes := firstn o raw ++ m ++ skipn (o + 6) raw.
Definition with_mac (h : R.hop) (m : list N) : R.hop :=
  R.mkHop (R.h_ialert h) (R.h_ealert h) (R.h_exp h) (R.h_in h) (R.h_eg h) m (R.h_rsv h).
Definition replace_mac (p : R.pkt) (k : N) (h : R.hop) (m : list N) : R.pkt :=
  R.with_hops p (R.set_nthN (R.p_hops p) k (with_mac h m)).

Lemma concat_set_nth {A} (f : A -> bytes) n (Hn : forall z, length (f z) = n) :
  forall l k x y, nth_error l k = Some x ->
  concat (map f (R.set_nth l k y)) =
  firstn (k * n) (concat (map f l)) ++ f y ++ skipn (k * n + n) (concat (map f l)).
Proof.
  induction l as [|a t IH]; intros k x y Hk; [destruct k; discriminate|].
  destruct k as [|k]; cbn [R.set_nth map concat nth_error] in *.
  - cbn [Nat.mul Nat.add firstn app]. now rewrite skipn_app_exact by apply Hn.
  - rewrite (IH k x y Hk). cbn [Nat.mul]. set (fa := f a). assert (La : length fa = n) by apply Hn.
    replace (n + k * n)%nat with (length fa + k * n)%nat by lia. rewrite firstn_app_2.
    rewrite <- app_assoc. f_equal. f_equal. f_equal.
    replace (length fa + k * n + n)%nat with (length fa + (k * n + n))%nat by lia.
    rewrite skipn_app. rewrite (skipn_all2 fa) by lia. cbn [app]. f_equal. lia.
Qed.

Lemma enc_hop_with_mac h m : length m = 6%nat ->
  enc_hop (with_mac h m) = firstn 6 (enc_hop h) ++ m.
Proof.
  intros L. unfold enc_hop, with_mac. cbn [R.h_rsv R.h_ealert R.h_ialert R.h_exp R.h_in R.h_eg R.h_mac].
  unfold HP.mac_len. rewrite (fit_exact _ _ L).
  set (a := [_; _]).
  rewrite (app_assoc a), (app_assoc (a ++ _)). rewrite (app_assoc a (be 2 (R.h_in h))), (app_assoc (a ++ _) _ (fit _ _)).
  rewrite firstn_app_exact by (subst a; len_norm; reflexivity). reflexivity.
Qed.

Lemma Forall_set_nth {A} (P : A -> Prop) : forall l k y, Forall P l -> P y -> Forall P (R.set_nth l k y).
Proof.
  induction l as [|a t IH]; intros k y F Py; [destruct k; constructor|].
  inversion F; subst. destruct k; cbn; constructor; auto.
Qed.

Lemma set_nth_len {A} : forall (l : list A) k y, length (R.set_nth l k y) = length l.
Proof. induction l; intros [|k] y; cbn; auto. Qed.

Lemma set_nth_same_id {A} : forall (l : list A) k x, nth_error l k = Some x -> R.set_nth l k x = l.
Proof.
  induction l as [|a t IH]; intros [|k] x H; cbn in *; try discriminate;
    [now injection H as -> | f_equal; now apply IH].
Qed.

Section Lift.
Variable qport : N -> bytes -> option N.

(** [raw] around hop field [k]: raw = A0 ++ enc_hop h ++ T with |A0| = hop_off p k, and replacing
    that hop field by any well-formed [h'] gives a byte string abstracting to the updated record *)
Lemma hop_split raw p k h : wf_bytes raw ->
  abstract_res qport raw = ARec p -> R.nthN (R.p_hops p) k = Some h ->
  exists A0 T, raw = A0 ++ enc_hop h ++ T /\ length A0 = N.to_nat (R.hop_off p k) /\ wf_rhop h /\
    forall h', wf_rhop h' ->
      abstract_res qport (A0 ++ enc_hop h' ++ T) = ARec (R.with_hops p (R.set_nthN (R.p_hops p) k h')).
Proof.
  intros W A Hk.
  destruct (abstract_view qport raw p W A) as (pre & post & hl & Eraw & Lpre & WP & Li & Lh & _ & _ & _ & _ & _ & Sub).
  assert (Wh : wf_rhop h).
  { destruct WP as (_ & _ & _ & _ & _ & _ & _ & WH). rewrite Forall_forall in WH. apply WH.
    eapply nth_error_In. exact Hk. }
  unfold R.nthN in Hk.
  set (M := enc_meta p). set (I := concat (map enc_info (R.p_infos p))).
  set (C := concat (map enc_hop (R.p_hops p))).
  assert (EP : enc_path p = M ++ I ++ C) by reflexivity.
  assert (EC : C = firstn (N.to_nat k * 12) C ++ enc_hop h ++ skipn (N.to_nat k * 12 + 12) C).
  { subst C. rewrite <- (concat_set_nth enc_hop 12 enc_hop_length _ _ h h Hk).
    now rewrite (set_nth_same_id _ _ _ Hk). }
  set (A0 := pre ++ M ++ I ++ firstn (N.to_nat k * 12) C).
  set (T := skipn (N.to_nat k * 12 + 12) C ++ post).
  exists A0, T. split; [|split; [|split; [exact Wh|]]].
  - rewrite Eraw, EP. rewrite EC at 1. subst A0 T. now rewrite <- !app_assoc.
  - subst A0. rewrite !app_length, Lpre. subst M. unfold enc_meta. rewrite enc_meta_length.
    subst I. rewrite (concat_length_const enc_info HP.info_len) by apply enc_info_length.
    rewrite firstn_length_le.
    + unfold R.hop_off, R.MetaLen, R.InfoLen, R.HopLen, HP.meta_len, HP.info_len.
      change (R.num_inf p) with (numinf_of (R.p_seg0 p) (R.p_seg1 p) (R.p_seg2 p)). lia.
    + subst C. rewrite (concat_length_const enc_hop HP.hop_len) by apply enc_hop_length.
      assert (N.to_nat k < length (R.p_hops p))%nat by (apply nth_error_Some; congruence).
      unfold HP.hop_len. lia.
  - intros h' Wh'. set (p2 := R.with_hops p (R.set_nthN (R.p_hops p) k h')).
    assert (SO : same_outside p p2).
    { unfold same_outside, p2. cbn. repeat (split; [reflexivity|]).
      unfold R.set_nthN. now rewrite set_nth_len. }
    assert (WQ : wf_fields p2).
    { destruct WP as (P1 & P2 & P3 & P4 & P5 & P6 & P7 & P8). unfold wf_fields, p2. cbn.
      repeat (split; [assumption|]). unfold R.set_nthN. now apply Forall_set_nth. }
    destruct (Sub p2 SO WQ) as [A2 _]. rewrite <- A2. f_equal.
    unfold enc_path at 1, p2. cbn [R.with_hops R.p_infos R.p_hops]. unfold R.set_nthN.
    rewrite (concat_set_nth enc_hop 12 enc_hop_length _ _ h _ Hk).
    fold C I. change (enc_meta (R.mkPkt _ _ _ _ _ _ _ _ _ _ _ _ _ _ _ _ _)) with M.
    subst A0 T. now rewrite <- !app_assoc.
Qed.

Lemma set_mac_abstract raw p k h m : wf_bytes raw ->
  abstract_res qport raw = ARec p -> R.nthN (R.p_hops p) k = Some h ->
  length m = 6%nat -> wf_bytes m ->
  abstract_res qport (set_mac raw (N.to_nat (R.hop_off p k) + 6) m) = ARec (replace_mac p k h m).
Proof.
  intros W A Hk Lm Wm.
  destruct (hop_split raw p k h W A Hk) as (A0 & T & R1 & LA & Wh & Sub).
  assert (Wh' : wf_rhop (with_mac h m)).
  { destruct Wh as (H1 & H2 & H3 & H4 & H5 & H6 & H7). unfold wf_rhop, with_mac. cbn. auto 10. }
  unfold replace_mac. rewrite <- (Sub _ Wh'). f_equal.
  rewrite (enc_hop_with_mac h m Lm). unfold set_mac. rewrite <- LA.
  set (F6 := firstn 6 (enc_hop h)). set (S6 := skipn 6 (enc_hop h)).
  assert (E6 : enc_hop h = F6 ++ S6) by (symmetry; apply firstn_skipn).
  assert (L6 : length F6 = 6%nat) by (subst F6; rewrite firstn_length, enc_hop_length; reflexivity).
  assert (L6' : length S6 = 6%nat) by (subst S6; rewrite skipn_length, enc_hop_length; reflexivity).
  rewrite R1, E6. clearbody F6 S6.
  replace (A0 ++ (F6 ++ S6) ++ T) with ((A0 ++ F6) ++ S6 ++ T) by (now rewrite <- !app_assoc).
  rewrite firstn_app_exact by (rewrite app_length; lia).
  replace ((A0 ++ F6) ++ S6 ++ T) with ((A0 ++ F6 ++ S6) ++ T) by (now rewrite <- !app_assoc).
  rewrite skipn_app_exact by (rewrite !app_length; lia).
  now rewrite <- !app_assoc.
Qed.

(** the MAC bytes of a hop field in [raw] are the record's *)
Lemma mac_bytes raw p k h : wf_bytes raw ->
  abstract_res qport raw = ARec p -> R.nthN (R.p_hops p) k = Some h ->
  firstn 6 (skipn (N.to_nat (R.hop_off p k) + 6) raw) = R.h_mac h.
Proof.
  intros W A Hk.
  destruct (hop_split raw p k h W A Hk) as (A0 & T & R1 & LA & Wh & _).
  destruct Wh as (_ & _ & _ & L & _).
  rewrite R1, <- LA. unfold enc_hop. rewrite (fit_exact _ _ L).
  set (a := [_; _]).
  replace (A0 ++ (a ++ be 2 (R.h_in h) ++ be 2 (R.h_eg h) ++ R.h_mac h) ++ T)
    with ((A0 ++ a ++ be 2 (R.h_in h) ++ be 2 (R.h_eg h)) ++ R.h_mac h ++ T) by (now rewrite <- !app_assoc).
  rewrite skipn_app_exact by (subst a; len_norm; lia).
  now apply firstn_app_exact.
Qed.

End Lift.

(** inversion of a slow-path result of the router on bytes *)
Lemma process_bytes_slow_inv qport mq c now ing raw r e raw' :
  process_bytes qport mq c now ing raw = SlowPathB r e raw' ->
  exists p out, abstract_res qport raw = ARec p /\
    R.process_scion mq c now ing p = R.SlowPath r e out /\ raw' = patch raw out.
Proof.
  unfold process_bytes. destruct (abstract_res qport raw) as [| | |p]; try discriminate.
  destruct (R.process_scion mq c now ing p) as [| | |e' out d'|r' e' out| |] eqn:E; cbn [lift]; try discriminate.
  intros H; injection H as -> -> <-. eauto.
Qed.

(** what [validateIngressID] guarantees for a forwarded packet *)
Lemma forward_ingress_id mac c now ing p e out d i h :
  R.process_scion (total mac) c now ing p = R.Forward e out d ->
  R.cur_inf p = Some i -> R.cur_hop p = Some h -> R.from0 ing = false ->
  R.ing_ifid ing = if R.i_consdir i then R.h_in h else R.h_eg h.
Proof.
  intros H Hi Hh F0. apply process_forward_inv in H as (s & i' & h' & F & _).
  pose proof (if_inf _ _ _ _ _ _ _ _ F) as A. pose proof (if_hop _ _ _ _ _ _ _ _ F) as B.
  rewrite Hi in A. rewrite Hh in B. injection A as <-. injection B as <-.
  exact (if_ingress _ _ _ _ _ _ _ _ F F0).
Qed.

(** a complete datagram around a record's path header, for the Examples: IPv4 hosts taken from
    the record, next header UDP, HdrLen computed, 8 payload bytes (UDP header, destination port 9) *)
Definition wrap (p : R.pkt) : bytes :=
  be 4 0 ++ [17; N.of_nat ((36 + length (enc_path p)) / 4); 0; 8; 1; 0; 0; 0] ++
  be 8 (R.p_dst_ia p) ++ be 8 (R.p_src_ia p) ++ R.p_dst_raw p ++ R.p_src_raw p ++
  enc_path p ++ [0; 5; 0; 9; 0; 8; 0; 0].
Definition q0 : N -> bytes -> option N := fun _ _ => None.
