(** Invariants of the fast path of Model/Router.v, used by C08 (no panic, well-formed
    outputs) and C09 (what the slow path may assume about the packet it is handed):
    whatever the input record, [process_scion] never yields [Panic]; every packet it forwards
    or hands to the slow path has consistent segment lengths, at most 64 hop fields, info/hop
    lists of the announced lengths, CurrHF inside the path and CurrINF matching CurrHF; a
    slow-path request has one of the four SCMP types the slow path knows and a pointer that
    designates the offending field of that packet. *)
From Coq Require Import List NArith Bool Lia.
From Scion Require Import Lib.Check Lib.Bytes Model.Router Proofs.Router Model.RouterScmp.
Import ListNotations.
Import Router.
Local Open Scope N_scope.

Definition pkt_inv (p : pkt) : Prop :=
  seglen_ok p = true /\ num_hops p <= MaxHops /\ well_formed p = true /\
  p_curr_hf p < num_hops p /\ p_curr_inf p = inf_index_for_hf p (p_curr_hf p).

Definition ty_known (ty : N) : Prop :=
  ty = ScmpParameterProblem \/ ty = ScmpDestUnreachable \/
  ty = ScmpExternalInterfaceDown \/ ty = ScmpInternalConnectivityDown.

Definition req_good (r : spreq) (out : pkt) : Prop :=
  match r with
  | SpScmp ty code ptr =>
    ty_known ty /\ ty < 256 /\ code < 256 /\ RouterScmp.ptr_ok_pkt 0 out ty code ptr = true
  | _ => True
  end.

Definition res_good (r : result) : Prop :=
  match r with
  | Panic => False
  | Forward _ out _ => pkt_inv out
  | SlowPath req _ out => pkt_inv out /\ req_good req out
  | _ => True
  end.

Definition out_good (o : outcome) : Prop :=
  match o with Ok s => pkt_inv (s_p s) | Stop r => res_good r end.

Ltac fin := first [exact Logic.I | assumption].

Definition step_good (f : st -> outcome) : Prop := forall s, pkt_inv (s_p s) -> out_good (f s).

Lemma bind_good o f : out_good o -> step_good f -> out_good (bind o f).
Proof. destruct o as [s|r]; cbn; intros H F; [apply F; exact H | exact H]. Qed.

(** * Geometry *)
Lemma inf_index_lt p hf : hf < num_hops p -> inf_index_for_hf p hf < num_inf p.
Proof.
  unfold num_hops, inf_index_for_hf, num_inf. intros H.
  destruct (hf <? p_seg0 p) eqn:A; destruct (hf <? p_seg0 p + p_seg1 p) eqn:B;
    destruct (0 <? p_seg2 p) eqn:C; destruct (0 <? p_seg1 p) eqn:D; destruct (0 <? p_seg0 p) eqn:E;
    rewrite ?N.ltb_lt, ?N.ltb_ge in *; lia.
Qed.

Lemma well_formed_spec p :
  well_formed p = true <->
  N.of_nat (length (p_infos p)) = num_inf p /\ N.of_nat (length (p_hops p)) = num_hops p.
Proof. unfold well_formed. rewrite andb_true_iff, !N.eqb_eq. tauto. Qed.

Lemma nthN_some {A} (l : list A) n : n < N.of_nat (length l) -> exists y, nthN l n = Some y.
Proof.
  unfold nthN. intros H. destruct (nth_error l (N.to_nat n)) eqn:E; [eauto|].
  apply nth_error_None in E. lia.
Qed.

Lemma pkt_inv_hop p : pkt_inv p -> exists h, nthN (p_hops p) (p_curr_hf p) = Some h.
Proof.
  intros (_ & _ & W & L & _). apply well_formed_spec in W as [_ W]. apply nthN_some. lia.
Qed.

Lemma pkt_inv_inf p : pkt_inv p -> exists i, nthN (p_infos p) (p_curr_inf p) = Some i.
Proof.
  intros (_ & _ & W & L & M). apply well_formed_spec in W as [W _]. apply nthN_some.
  rewrite M, W. now apply inf_index_lt.
Qed.

Lemma pkt_inv_with_infos p l :
  pkt_inv p -> length l = length (p_infos p) -> pkt_inv (with_infos p l).
Proof.
  intros (A & B & W & D & E) L. unfold pkt_inv. cbn.
  repeat split; try assumption.
  apply well_formed_spec in W as [W1 W2]. apply well_formed_spec. cbn. split; [now rewrite L | exact W2].
Qed.

Lemma pkt_inv_with_hops p l :
  pkt_inv p -> length l = length (p_hops p) -> pkt_inv (with_hops p l).
Proof.
  intros (A & B & W & D & E) L. unfold pkt_inv. cbn.
  repeat split; try assumption.
  apply well_formed_spec in W as [W1 W2]. apply well_formed_spec. cbn. split; [exact W1 | now rewrite L].
Qed.

Lemma pkt_inv_inc_path p : pkt_inv p -> p_curr_hf p + 1 < num_hops p -> pkt_inv (inc_path p).
Proof.
  intros (A & B & W & D & E) L. unfold pkt_inv, inc_path. cbn.
  repeat split; try assumption.
Qed.

Lemma set_nthN_length {A} (l : list A) n x : length (set_nthN l n x) = length l.
Proof. apply set_nth_length. Qed.

(** * Pointers *)
Lemma ptr_hop p code :
  CodeInvalidPath <= code -> code <= CodePathExpired ->
  RouterScmp.ptr_ok_pkt 0 p ScmpParameterProblem code (hop_ptr p) = true.
Proof.
  intros A B. unfold RouterScmp.ptr_ok_pkt.
  replace (negb (ScmpParameterProblem =? ScmpParameterProblem)) with false by reflexivity.
  destruct (code =? CodeInvalidSegmentChange) eqn:E.
  - apply N.eqb_eq in E. unfold CodeInvalidSegmentChange, CodePathExpired in *. lia.
  - apply N.leb_le in A, B. rewrite A, B. cbn [andb]. rewrite N.add_0_r. apply N.eqb_refl.
Qed.

Lemma ptr_not_pp p ty code ptr :
  ty <> ScmpParameterProblem -> RouterScmp.ptr_ok_pkt 0 p ty code ptr = true.
Proof. intros H. unfold RouterScmp.ptr_ok_pkt. apply N.eqb_neq in H. now rewrite H. Qed.

Section Steps.
Variable macq : N -> N -> N -> N -> N -> option (list N).
Variable c : cfg.
Variable now : N.
Variable ing : ingress.

Ltac kn := unfold ty_known, ScmpParameterProblem, ScmpDestUnreachable, ScmpExternalInterfaceDown,
                  ScmpInternalConnectivityDown; auto.

Lemma slow_good_hop code s :
  CodeInvalidPath <= code -> code <= CodePathExpired -> pkt_inv (s_p s) ->
  out_good (slow ScmpParameterProblem code (hop_ptr (s_p s)) s).
Proof.
  intros A B Hv. cbn. split; [fin|]. split; [kn|]. split; [reflexivity|].
  split; [unfold CodePathExpired in B; lia | now apply ptr_hop].
Qed.

Lemma slow_good_const ty code ptr s :
  ty_known ty -> ty < 256 -> code < 256 -> RouterScmp.ptr_ok_pkt 0 (s_p s) ty code ptr = true ->
  pkt_inv (s_p s) -> out_good (slow ty code ptr s).
Proof. intros. cbn. auto. Qed.

Lemma parse_path_good p : out_good (parse_path p).
Proof.
  unfold parse_path.
  destruct (negb (seglen_ok p) || (MaxHops <? num_hops p)) eqn:E1; [fin|].
  destruct (negb (well_formed p)) eqn:E2; [fin|].
  destruct (nthN (p_hops p) (p_curr_hf p)) as [h|] eqn:Eh; [|fin].
  destruct (nthN (p_infos p) (p_curr_inf p)) as [i|] eqn:Ei; [|fin].
  destruct (negb (i_peer i) && _); [fin|].
  destruct (negb (p_curr_inf p =? _)) eqn:E4; [fin|].
  cbn. apply orb_false_iff in E1 as [E1 E1']. apply negb_false_iff in E1, E2, E4.
  apply N.eqb_eq in E4. apply N.ltb_ge in E1'.
  repeat split; try assumption.
  apply nthN_lt in Eh. apply well_formed_spec in E2 as [_ W]. lia.
Qed.

Lemma determine_peer_good : step_good determine_peer.
Proof.
  intros s Hv. unfold determine_peer.
  repeat match goal with |- context [if ?b then _ else _] => destruct b end; cbn; auto.
Qed.

Lemma validate_hop_expiry_good : step_good (validate_hop_expiry now).
Proof.
  intros s Hv. unfold validate_hop_expiry. destruct (expired _ _ _); [|fin].
  apply slow_good_hop; [unfold CodeInvalidPath, CodePathExpired; lia | lia | fin].
Qed.

Lemma validate_ingress_id_good : step_good (validate_ingress_id ing).
Proof.
  intros s Hv. unfold validate_ingress_id. destruct (_ && _); [|fin].
  destruct (i_consdir (s_inf s));
    (apply slow_good_hop; [unfold CodeInvalidPath, CodeUnknownHopFieldIngress, CodeUnknownHopFieldEgress; lia
                          | unfold CodePathExpired, CodeUnknownHopFieldIngress, CodeUnknownHopFieldEgress; lia
                          | fin]).
Qed.

Lemma validate_pkt_len_good : step_good validate_pkt_len.
Proof.
  intros s Hv. unfold validate_pkt_len. destruct (_ =? _); [fin|].
  apply slow_good_const; [kn | reflexivity | reflexivity | reflexivity | fin].
Qed.

Lemma first_hop_after_xover_prev p :
  pkt_inv p -> is_first_hop_after_xover p = true ->
  exists i h, nthN (p_infos p) (p_curr_inf p - 1) = Some i /\ nthN (p_hops p) (p_curr_hf p - 1) = Some h.
Proof.
  intros Hv H. unfold is_first_hop_after_xover in H.
  apply andb_true_iff in H as [H _]. apply andb_true_iff in H as [H1 H2].
  apply N.ltb_lt in H1, H2.
  destruct (pkt_inv_inf p Hv) as [i0 Ei]. destruct (pkt_inv_hop p Hv) as [h0 Eh].
  apply nthN_lt in Ei, Eh.
  destruct (nthN_some (p_infos p) (p_curr_inf p - 1)) as [i Hi]; [lia|].
  destruct (nthN_some (p_hops p) (p_curr_hf p - 1)) as [h Hh]; [lia|].
  eauto.
Qed.

Lemma validate_transit_good : step_good (validate_transit_underlay_src c ing).
Proof.
  intros s Hv. unfold validate_transit_underlay_src.
  destruct (is_first_hop (s_p s) || negb (from0 ing)); [fin|].
  unfold ingress_interface.
  destruct (negb (s_peer s) && is_first_hop_after_xover (s_p s)) eqn:E.
  - apply andb_true_iff in E as [_ E].
    destruct (first_hop_after_xover_prev _ Hv E) as (i & h & -> & ->).
    destruct (get_if c _) as [f|]; [|fin]. destruct (_ && _); fin.
  - clear E. destruct (get_if c _) as [f|]; [|fin]. destruct (_ && _); fin.
Qed.

Lemma resp_src_good s : pkt_inv (s_p s) -> out_good (resp_invalid_src_ia s).
Proof. intros Hv. apply slow_good_const; [kn | reflexivity | reflexivity | reflexivity | fin]. Qed.
Lemma resp_dst_good s : pkt_inv (s_p s) -> out_good (resp_invalid_dst_ia s).
Proof. intros Hv. apply slow_good_const; [kn | reflexivity | reflexivity | reflexivity | fin]. Qed.

Lemma validate_src_dst_ia_good : step_good (validate_src_dst_ia c ing).
Proof.
  intros s Hv. unfold validate_src_dst_ia.
  repeat match goal with |- context [if ?b then _ else _] => destruct b end;
    first [fin | now apply resp_src_good | now apply resp_dst_good].
Qed.

Lemma validate_src_host_good : step_good (validate_src_host c).
Proof.
  intros s Hv. unfold validate_src_host. destruct (negb _); [fin|].
  destruct (parse_host _ _) as [ip| |]; try fin.
  - destruct (is_4in6 ip); [|fin].
    apply slow_good_const; [kn | reflexivity | reflexivity | reflexivity | fin].
  - apply slow_good_const; [kn | reflexivity | reflexivity | reflexivity | fin].
Qed.

Lemma store_inf_inv s i : pkt_inv (s_p s) -> pkt_inv (s_p (store_inf s i)).
Proof. intros Hv. cbn. apply pkt_inv_with_infos; [fin | apply set_nthN_length]. Qed.

Lemma store_hop_inv s h : pkt_inv (s_p s) -> pkt_inv (s_p (store_hop s h)).
Proof. intros Hv. cbn. apply pkt_inv_with_hops; [fin | apply set_nthN_length]. Qed.

Lemma update_segid_good : step_good (update_noncons_ingress_segid ing).
Proof.
  intros s Hv. unfold update_noncons_ingress_segid. destruct (_ && _); [|fin].
  cbn [out_good]. now apply store_inf_inv.
Qed.

Lemma verify_mac_good : step_good (verify_current_mac macq).
Proof.
  intros s Hv. unfold verify_current_mac. destruct (mac_of _ _ _); [|fin].
  destruct (list_eqb _ _ _); [fin|].
  apply slow_good_hop; [unfold CodeInvalidPath, CodeInvalidHopFieldMAC; lia
                       | unfold CodePathExpired, CodeInvalidHopFieldMAC; lia | fin].
Qed.

Lemma ingress_alert_good : step_good (handle_ingress_router_alert ing).
Proof.
  intros s Hv. unfold handle_ingress_router_alert. destruct (from0 ing); [fin|].
  destruct (negb _); [fin|]. cbn [out_good res_good req_good]. split; [|fin].
  now apply store_hop_inv.
Qed.

Lemma ingress_part_good p : out_good (ingress_part macq c now ing p).
Proof.
  unfold ingress_part.
  repeat (apply bind_good;
          [| first [ exact ingress_alert_good | exact verify_mac_good | exact update_segid_good
                   | exact validate_src_host_good | exact validate_src_dst_ia_good
                   | exact validate_transit_good | exact validate_pkt_len_good
                   | exact validate_ingress_id_good | exact validate_hop_expiry_good
                   | exact determine_peer_good ]]).
  apply parse_path_good.
Qed.

Lemma resolve_inbound_good s : pkt_inv (s_p s) -> res_good (resolve_inbound c s).
Proof.
  intros Hv. unfold resolve_inbound.
  destruct (parse_host _ _) as [ip|v|].
  - destruct (p_l4_port _); [|fin]. destruct (_ || _); [|fin].
    cbn. split; [fin|]. split; [kn|]. repeat split.
  - destruct (lookup_svc _ _); [fin|].
    cbn. split; [fin|]. split; [kn|]. repeat split.
  - cbn. split; [fin|]. split; [kn|]. repeat split.
Qed.

Lemma do_xover_good : step_good do_xover.
Proof.
  intros s Hv. unfold do_xover.
  destruct (nthN (p_hops (inc_path (s_p s))) _) as [h|] eqn:Eh; [|fin].
  destruct (nthN (p_infos (inc_path (s_p s))) _) as [i|] eqn:Ei; [|fin].
  cbn [out_good s_p]. apply pkt_inv_inc_path; [fin|].
  apply nthN_lt in Eh. cbn in Eh. destruct Hv as (_ & _ & W & _). apply well_formed_spec in W as [_ W]. lia.
Qed.

Lemma xover_part_good : step_good (xover_part macq now).
Proof.
  intros s Hv. unfold xover_part. destruct (_ && _); [|fin].
  apply bind_good; [|exact verify_mac_good]. apply bind_good; [|exact validate_hop_expiry_good].
  now apply do_xover_good.
Qed.

Lemma set_egress_good : step_good set_egress.
Proof. intros s Hv. fin. Qed.

Lemma validate_egress_id_good : step_good (validate_egress_id c ing).
Proof.
  intros s Hv. unfold validate_egress_id. destruct (validate_egress _ _ _ _); [fin| | |].
  - destruct (i_consdir (s_inf s));
      (apply slow_good_hop; [unfold CodeInvalidPath, CodeUnknownHopFieldIngress, CodeUnknownHopFieldEgress; lia
                            | unfold CodePathExpired, CodeUnknownHopFieldIngress, CodeUnknownHopFieldEgress; lia
                            | fin]).
  - apply slow_good_hop; [lia | unfold CodeInvalidPath, CodePathExpired; lia | fin].
  - apply slow_good_const; [kn | reflexivity | reflexivity | | fin].
    unfold RouterScmp.ptr_ok_pkt. cbn. rewrite N.add_0_r. apply N.eqb_refl.
Qed.

Lemma egress_alert_good : step_good (handle_egress_router_alert c).
Proof.
  intros s Hv. unfold handle_egress_router_alert. destruct (negb _); [fin|].
  destruct (negb _); [fin|]. cbn [out_good res_good req_good]. split; [|fin].
  now apply store_hop_inv.
Qed.

Lemma validate_egress_up_good : step_good (validate_egress_up c).
Proof.
  intros s Hv. unfold validate_egress_up. destruct (if_up _); [fin|].
  destruct (scope_eqb _ _);
    (apply slow_good_const; [kn | reflexivity | reflexivity | reflexivity | fin]).
Qed.

Lemma egress_part_good s : pkt_inv (s_p s) -> out_good (egress_part macq c now ing s).
Proof.
  intros Hv. unfold egress_part.
  repeat (apply bind_good;
          [| first [ exact validate_egress_up_good | exact egress_alert_good
                   | exact validate_egress_id_good | exact set_egress_good ]]).
  now apply xover_part_good.
Qed.

Lemma finish_good s : pkt_inv (s_p s) -> res_good (finish c s).
Proof.
  intros Hv. unfold finish. destruct (scope_eqb _ _); [|fin].
  unfold process_egress.
  set (s1 := if _ && _ then _ else s).
  assert (Hv1 : pkt_inv (s_p s1)).
  { unfold s1. destruct (_ && _); [now apply store_inf_inv | fin]. }
  destruct (_ <=? _) eqn:E; [fin|]. apply N.leb_gt in E.
  cbn. now apply pkt_inv_inc_path.
Qed.

(** every result of the fast path is good: never [Panic], outputs satisfy the invariant *)
Lemma process_good p : res_good (process_scion macq c now ing p).
Proof.
  unfold process_scion. pose proof (ingress_part_good p) as G.
  destruct (ingress_part macq c now ing p) as [s|r]; [|exact G].
  cbn in G. destruct (_ =? _); [now apply resolve_inbound_good|].
  pose proof (egress_part_good s G) as G2.
  destruct (egress_part macq c now ing s) as [s'|r]; [|exact G2].
  now apply finish_good.
Qed.

End Steps.

(** payload length consistency of forwarded packets (from the existing inversion lemma) *)
Lemma forward_paylen mac c now ing p e out d :
  process_scion (total mac) c now ing p = Forward e out d -> p_pay_len out = p_pay_actual out.
Proof.
  intros H. apply process_forward_inv in H as (s & i & h & F & H).
  pose proof (if_len _ _ _ _ _ _ _ _ F) as L. pose proof (if_pkt _ _ _ _ _ _ _ _ F) as P.
  assert (Ls : p_pay_len (s_p s) = p_pay_len p /\ p_pay_actual (s_p s) = p_pay_actual p).
  { rewrite P. destruct (folds ing p i); split; reflexivity. }
  destruct Ls as [Ls1 Ls2].
  destruct H as [(_ & _ & -> & _) | (_ & _ & s' & G & _ & H)]; [congruence|].
  assert (Ls' : p_pay_len (s_p s') = p_pay_len p /\ p_pay_actual (s_p s') = p_pay_actual p).
  { pose proof (ef_x _ _ _ _ _ _ G) as X. destruct (xover_cond s).
    - destruct X as (h' & i' & _ & _ & -> & _). cbn. split; congruence.
    - destruct X as (-> & _). split; congruence. }
  destruct Ls' as [A B].
  destruct (scope_eqb _ _).
  - destruct H as [-> _]. unfold forward_out. destruct (_ && _); cbn; congruence.
  - subst out. congruence.
Qed.
