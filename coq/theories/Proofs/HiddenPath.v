(** Lemmas about Model/HiddenPath.v. *)
From Coq Require Import List NArith ZArith Bool Lia.
From Scion Require Import Lib.Check Model.HiddenPath.
Import ListNotations.
Import HiddenPath.
Local Open Scope N_scope.

(** ---------------------------------------------------------------- membership tests *)
Lemma ia_eqb_eq a b : ia_eqb a b = true <-> a = b.
Proof.
  destruct a as [a1 a2], b as [b1 b2]. unfold ia_eqb; cbn [fst snd].
  rewrite andb_true_iff, !N.eqb_eq. split.
  - intros [-> ->]. reflexivity.
  - intros E. inversion E. auto.
Qed.

Lemma mem_ia_In x l : mem_ia x l = true <-> In x l.
Proof.
  unfold mem_ia. rewrite existsb_exists. split.
  - intros [y [Hy E]]. apply ia_eqb_eq in E. now subst.
  - intros H. exists x. split; [assumption | now apply ia_eqb_eq].
Qed.

Lemma mem_n_In x l : mem_n x l = true <-> In x l.
Proof.
  unfold mem_n. rewrite existsb_exists. split.
  - intros [y [Hy E]]. apply N.eqb_eq in E. now subst.
  - intros H. exists x. split; [assumption | now apply N.eqb_eq].
Qed.

Lemma In_add_group g g' gs : In g (add_group g' gs) <-> In g gs \/ g = g'.
Proof.
  unfold add_group. destruct (mem_n g' gs) eqn:E.
  - apply mem_n_In in E. split; [auto | intros [H | ->]; assumption].
  - rewrite in_app_iff. cbn. intuition.
Qed.

(** ---------------------------------------------------------------- the store *)
Definition keys (st : store) : list N := map fst st.

Lemma find_put1 b st g sg s :
  find s (put1 b st g sg) =
  if s =? s_id sg then
    match find s st with
    | None => Some (s_ver sg, [g])
    | Some (v, gs) => if (s_ver sg <=? v)%Z then Some (v, if b then gs else add_group g gs)
                      else Some (s_ver sg, add_group g gs)
    end
  else find s st.
Proof.
  induction st as [|[k [v gs]] t IH]; cbn [put1 find].
  - rewrite (N.eqb_sym (s_id sg) s). destruct (s =? s_id sg); reflexivity.
  - destruct (N.eqb_spec k (s_id sg)) as [Ek | Ek].
    + destruct (N.eqb_spec s (s_id sg)) as [Es | Es].
      * assert (Hk : k =? s = true) by (apply N.eqb_eq; congruence).
        rewrite Hk. destruct (s_ver sg <=? v)%Z; cbn [find]; rewrite Hk; reflexivity.
      * assert (Hk : k =? s = false) by (apply N.eqb_neq; congruence).
        rewrite Hk. destruct (s_ver sg <=? v)%Z; cbn [find]; rewrite Hk; reflexivity.
    + cbn [find]. destruct (N.eqb_spec k s) as [Eks | Eks].
      * assert (Hs : s =? s_id sg = false) by (apply N.eqb_neq; congruence).
        rewrite Hs. reflexivity.
      * apply IH.
Qed.

Lemma find_In s e st : find s st = Some e -> In (s, e) st.
Proof.
  induction st as [|[k e'] t IH]; cbn [find]; [discriminate|].
  destruct (N.eqb_spec k s) as [->|_].
  - intros E. inversion E. now left.
  - intros E. right. auto.
Qed.

Lemma find_None s st : find s st = None -> ~ In s (keys st).
Proof.
  induction st as [|[k e'] t IH]; cbn [find keys map fst]; [tauto|].
  destruct (N.eqb_spec k s) as [->|Hn]; [discriminate|].
  intros E [H|H]; [congruence | now apply IH].
Qed.

Lemma In_find s e st : NoDup (keys st) -> In (s, e) st -> find s st = Some e.
Proof.
  induction st as [|[k e'] t IH]; cbn [find keys map fst]; [intros _ []|].
  intros ND [H|H].
  - inversion H; subst. now rewrite N.eqb_refl.
  - inversion ND as [|? ? Hk ND']; subst.
    destruct (N.eqb_spec k s) as [->|_].
    + exfalso. apply Hk. change (In (fst (s, e)) (map fst t)). now apply in_map.
    + auto.
Qed.

Lemma keys_put1_in b st g sg k : In k (keys (put1 b st g sg)) -> In k (keys st) \/ k = s_id sg.
Proof.
  induction st as [|[k' [v gs]] t IH]; cbn [put1 keys map fst].
  - intros [H|[]]. now right.
  - destruct (k' =? s_id sg).
    + destruct (s_ver sg <=? v)%Z; cbn [map fst]; intros H; left; exact H.
    + cbn [map fst]. intros [H|H]; [left; now left|]. destruct (IH H); [left; now right | now right].
Qed.

Lemma NoDup_put1 b st g sg : NoDup (keys st) -> NoDup (keys (put1 b st g sg)).
Proof.
  induction st as [|[k [v gs]] t IH]; cbn [put1 keys map fst]; intros ND.
  - constructor; [tauto | constructor].
  - inversion ND as [|? ? Hk ND']; subst.
    destruct (N.eqb_spec k (s_id sg)) as [Ek|Ek].
    + destruct (s_ver sg <=? v)%Z; cbn [map fst]; constructor; assumption.
    + cbn [map fst]. constructor; [|now apply IH].
      intros H. destruct (keys_put1_in _ _ _ _ _ H); [now apply Hk | congruence].
Qed.

Definition run_puts (b : bool) (st : store) (ps : list (N * segm)) : store :=
  fold_left (fun st p => put1 b st (fst p) (snd p)) ps st.

Lemma run_puts_app b st ps1 ps2 : run_puts b st (ps1 ++ ps2) = run_puts b (run_puts b st ps1) ps2.
Proof. apply fold_left_app. Qed.

Lemma run_puts_snoc b st ps p :
  run_puts b st (ps ++ [p]) = put1 b (run_puts b st ps) (fst p) (snd p).
Proof. rewrite run_puts_app. reflexivity. Qed.

Lemma put_run_puts b st g segs : put b st g segs = run_puts b st (map (fun sg => (g, sg)) segs).
Proof.
  revert st. induction segs as [|sg t IH]; intros st; [reflexivity|].
  cbn [map]. unfold put, run_puts in *. cbn [fold_left fst snd]. apply IH.
Qed.

Lemma NoDup_run_puts b ps : forall st, NoDup (keys st) -> NoDup (keys (run_puts b st ps)).
Proof.
  induction ps as [|p t IH]; intros st ND; [assumption|].
  cbn. apply IH. now apply NoDup_put1.
Qed.

Notation R b := (run_puts b []).

(** versions of segment [s] among the puts *)
Lemma In_vers x s ps :
  In x (vers s ps) <-> exists g sg, In (g, sg) ps /\ s_id sg = s /\ s_ver sg = x.
Proof.
  unfold vers. rewrite in_map_iff. split.
  - intros [[g sg] [E H]]. apply filter_In in H as [H1 H2]. cbn [snd] in *.
    apply N.eqb_eq in H2. eauto.
  - intros [g [sg [H1 [H2 H3]]]]. exists (g, sg). cbn [snd]. split; [assumption|].
    apply filter_In. split; [assumption|]. cbn [snd]. now apply N.eqb_eq.
Qed.

Definition is_newest (ps : list (N * segm)) (s : N) (v : Z) : Prop :=
  In v (vers s ps) /\ forall x, In x (vers s ps) -> (x <= v)%Z.

Lemma is_newest_unique ps s v1 v2 : is_newest ps s v1 -> is_newest ps s v2 -> v1 = v2.
Proof. intros [I1 M1] [I2 M2]. specialize (M1 _ I2). specialize (M2 _ I1). lia. Qed.

Lemma fold_max_newest l d :
  In d l -> In (fold_right Z.max d l) l /\ forall x, In x l -> (x <= fold_right Z.max d l)%Z.
Proof.
  intros Hd.
  assert (G : forall l', (In (fold_right Z.max d l') l' \/ fold_right Z.max d l' = d)
                   /\ (d <= fold_right Z.max d l')%Z
                   /\ forall x, In x l' -> (x <= fold_right Z.max d l')%Z).
  { induction l' as [|a t [IH1 [IH2 IH3]]]; cbn [fold_right].
    - split; [now right|]. split; [lia|]. intros x [].
    - split; [|split].
      + destruct (Z.max_spec a (fold_right Z.max d t)) as [[_ E]|[_ E]]; rewrite E.
        * destruct IH1 as [H|H]; [left; now right | now right].
        * left. now left.
      + lia.
      + intros x [->|H]; [lia|]. specialize (IH3 _ H). lia. }
  destruct (G l) as [[H|H] [_ H3]]; split; auto. now rewrite H.
Qed.

(** soundness of the group sets: every recorded group was put *)
Lemma R_groups_sound b ps : forall s v gs g,
  find s (R b ps) = Some (v, gs) -> In g gs -> exists sg, In (g, sg) ps /\ s_id sg = s.
Proof.
  induction ps as [|[g0 sg0] ps IH] using rev_ind; intros s v gs g F Hg.
  - discriminate.
  - rewrite run_puts_snoc, find_put1 in F. cbn [fst snd] in F.
    assert (Old : forall v' gs', find s (R b ps) = Some (v', gs') -> In g gs' ->
                  exists sg, In (g, sg) (ps ++ [(g0, sg0)]) /\ s_id sg = s).
    { intros v' gs' F' H'. destruct (IH _ _ _ _ F' H') as [sg [H1 H2]].
      exists sg. split; [apply in_app_iff; now left | assumption]. }
    assert (New : s = s_id sg0 -> g = g0 ->
                  exists sg, In (g, sg) (ps ++ [(g0, sg0)]) /\ s_id sg = s).
    { intros -> ->. exists sg0. split; [apply in_app_iff; right; now left | reflexivity]. }
    destruct (N.eqb_spec s (s_id sg0)) as [Es|Es].
    + destruct (find s (R b ps)) as [[v0 gs0]|] eqn:F0.
      * destruct (s_ver sg0 <=? v0)%Z; inversion F; subst v gs.
        -- destruct b; [eapply Old; eauto|].
           apply In_add_group in Hg as [Hg|Hg]; [eapply Old; eauto | now apply New].
        -- apply In_add_group in Hg as [Hg|Hg]; [eapply Old; eauto | now apply New].
      * inversion F; subst v gs. destruct Hg as [<-|[]]. now apply New.
    + eapply Old; eauto.
Qed.

Lemma R_none b ps : forall s, find s (R b ps) = None -> forall g sg, In (g, sg) ps -> s_id sg <> s.
Proof.
  induction ps as [|[g0 sg0] ps IH] using rev_ind; intros s F g sg H.
  - destruct H.
  - rewrite run_puts_snoc, find_put1 in F. cbn [fst snd] in F.
    destruct (N.eqb_spec s (s_id sg0)) as [Es|Es].
    + destruct (find s (R b ps)) as [[v0 gs0]|]; [destruct (s_ver sg0 <=? v0)%Z|]; discriminate.
    + apply in_app_iff in H as [H|[H|[]]].
      * eapply IH; eauto.
      * inversion H; subst. congruence.
Qed.

(** the stored version is the newest one put *)
Lemma R_version b ps : forall s v gs, find s (R b ps) = Some (v, gs) -> is_newest ps s v.
Proof.
  induction ps as [|[g0 sg0] ps IH] using rev_ind; intros s v gs F.
  - discriminate.
  - rewrite run_puts_snoc, find_put1 in F. cbn [fst snd] in F.
    assert (Vapp : forall x, In x (vers s (ps ++ [(g0, sg0)])) <->
                             In x (vers s ps) \/ (s_id sg0 = s /\ s_ver sg0 = x)).
    { intros x. rewrite !In_vers. split.
      - intros [g [sg [H [H1 H2]]]]. apply in_app_iff in H as [H|[H|[]]].
        + left. eauto.
        + inversion H; subst. now right.
      - intros [[g [sg [H [H1 H2]]]]|[H1 H2]].
        + exists g, sg. split; [apply in_app_iff; now left | auto].
        + exists g0, sg0. split; [apply in_app_iff; right; now left | auto]. }
    destruct (N.eqb_spec s (s_id sg0)) as [Es|Es].
    + destruct (find s (R b ps)) as [[v0 gs0]|] eqn:F0.
      * destruct (IH _ _ _ F0) as [I0 M0].
        destruct (s_ver sg0 <=? v0)%Z eqn:Le; inversion F; subst v gs; split.
        -- apply Vapp. now left.
        -- intros x Hx. apply Vapp in Hx as [Hx|[_ <-]]; [auto | lia].
        -- apply Vapp. right. auto.
        -- intros x Hx. apply Vapp in Hx as [Hx|[_ <-]]; [specialize (M0 _ Hx); lia | lia].
      * inversion F; subst v gs. split.
        -- apply Vapp. right. auto.
        -- intros x Hx. apply Vapp in Hx as [Hx|[_ <-]]; [|lia].
           apply In_vers in Hx as [g [sg [H [H1 H2]]]].
           exfalso. eapply R_none; eauto.
    + destruct (IH _ _ _ F) as [I0 M0]. split.
      * apply Vapp. now left.
      * intros x Hx. apply Vapp in Hx as [Hx|[E _]]; [auto | congruence].
Qed.

(** every put leaves its segment in the store *)
Lemma R_present b ps :
  forall g sg, In (g, sg) ps -> exists v gs, find (s_id sg) (R b ps) = Some (v, gs).
Proof.
  intros g sg H. destruct (find (s_id sg) (R b ps)) as [[v gs]|] eqn:F; [eauto|].
  exfalso. eapply R_none; eauto.
Qed.

Lemma known_puts_app ps1 : forall st ps2,
  known_puts st (ps1 ++ ps2) = known_puts st ps1 || known_puts (run_puts true st ps1) ps2.
Proof.
  induction ps1 as [|p t IH]; intros st ps2; [reflexivity|].
  cbn [app known_puts]. rewrite IH, orb_assoc. reflexivity.
Qed.

(** every put is recorded under its group: always in the store the property
    presumes, outside the known class in the implementation's store *)
Lemma R_groups_complete b ps : (b = true -> known_puts [] ps = false) ->
  forall g sg, In (g, sg) ps -> exists v gs, find (s_id sg) (R b ps) = Some (v, gs) /\ In g gs.
Proof.
  induction ps as [|[g0 sg0] ps IH] using rev_ind; intros K g sg H.
  - destruct H.
  - assert (K' : b = true -> known_puts [] ps = false /\ dropped (R true ps) g0 sg0 = false).
    { intros Hb. specialize (K Hb). rewrite known_puts_app in K.
      apply orb_false_iff in K as [K1 K2].
      cbn [known_puts fst snd] in K2. rewrite orb_false_r in K2. auto. }
    rewrite run_puts_snoc, find_put1. cbn [fst snd].
    apply in_app_iff in H as [H|[H|[]]].
    + destruct (IH (fun Hb => proj1 (K' Hb)) _ _ H) as [v [gs [F Hg]]].
      destruct (s_id sg =? s_id sg0); [|eauto].
      rewrite F. destruct (s_ver sg0 <=? v)%Z.
      * eexists _, _. split; [reflexivity|]. destruct b; [assumption|].
        apply In_add_group. now left.
      * eexists _, _. split; [reflexivity|]. apply In_add_group. now left.
    + inversion H; subst g0 sg0. rewrite N.eqb_refl.
      destruct (find (s_id sg) (R b ps)) as [[v gs]|] eqn:F.
      * destruct (s_ver sg <=? v)%Z eqn:Le.
        -- eexists _, _. split; [reflexivity|]. destruct b.
           ++ destruct (K' eq_refl) as [_ K2]. unfold dropped in K2. rewrite F, Le in K2.
              cbn [andb] in K2. apply negb_false_iff in K2. now apply mem_n_In.
           ++ apply In_add_group. now right.
        -- eexists _, _. split; [reflexivity|]. apply In_add_group. now right.
      * eexists _, _. split; [reflexivity|]. now left.
Qed.

(** ---------------------------------------------------------------- from an arbitrary initial store
    (the path DB is shared and may hold public segments, and DeleteExpired may
    have removed rows: whatever it holds, the group sets evolve like this) *)
Lemma put1_stored_sound b st g0 sg0 s g :
  stored_under (put1 b st g0 sg0) s g -> stored_under st s g \/ (g = g0 /\ s = s_id sg0).
Proof.
  unfold stored_under. intros [v [gs [F H]]]. rewrite find_put1 in F.
  destruct (N.eqb_spec s (s_id sg0)) as [Es|Es]; [|left; eauto].
  destruct (find s st) as [[v0 gs0]|] eqn:F0.
  - destruct (s_ver sg0 <=? v0)%Z; inversion F; subst v gs.
    + destruct b; [left; eauto|]. apply In_add_group in H as [H|H]; [left; eauto | right; auto].
    + apply In_add_group in H as [H|H]; [left; eauto | right; auto].
  - inversion F; subst v gs. destruct H as [<-|[]]. right. auto.
Qed.

Lemma put1_stored_mono b st g0 sg0 s g :
  stored_under st s g -> stored_under (put1 b st g0 sg0) s g.
Proof.
  unfold stored_under. intros [v [gs [F H]]]. rewrite find_put1.
  destruct (s =? s_id sg0); [|eauto]. rewrite F.
  destruct (s_ver sg0 <=? v)%Z; eexists _, _; (split; [reflexivity|]).
  - destruct b; [assumption | apply In_add_group; now left].
  - apply In_add_group. now left.
Qed.

Lemma put1_stored_new st g0 sg0 :
  dropped st g0 sg0 = false -> stored_under (put1 true st g0 sg0) (s_id sg0) g0.
Proof.
  unfold dropped, stored_under. intros D. rewrite find_put1, N.eqb_refl.
  destruct (find (s_id sg0) st) as [[v gs]|].
  - destruct (s_ver sg0 <=? v)%Z; eexists _, _; (split; [reflexivity|]).
    + cbn [andb] in D. apply negb_false_iff in D. now apply mem_n_In.
    + apply In_add_group. now right.
  - eexists _, _. split; [reflexivity | now left].
Qed.

Lemma run_stored_sound b ps : forall st s g,
  stored_under (run_puts b st ps) s g ->
  stored_under st s g \/ exists sg, In (g, sg) ps /\ s_id sg = s.
Proof.
  induction ps as [|[g0 sg0] t IH]; intros st s g H; [now left|].
  cbn in H. destruct (IH _ _ _ H) as [H'|[sg [H1 H2]]].
  - apply put1_stored_sound in H' as [H'|[-> ->]]; [now left|].
    right. exists sg0. split; [now left | reflexivity].
  - right. exists sg. split; [now right | assumption].
Qed.

Lemma run_stored_mono b ps : forall st s g,
  stored_under st s g -> stored_under (run_puts b st ps) s g.
Proof.
  induction ps as [|[g0 sg0] t IH]; intros st s g H; [assumption|].
  cbn. apply IH. now apply put1_stored_mono.
Qed.

Lemma run_stored_complete ps : forall st, known_puts st ps = false ->
  forall g sg, In (g, sg) ps -> stored_under (run_puts true st ps) (s_id sg) g.
Proof.
  induction ps as [|[g0 sg0] t IH]; intros st K g sg H; [destruct H|].
  cbn [known_puts fst snd] in K. apply orb_false_iff in K as [K1 K2]. cbn.
  destruct H as [H|H].
  - inversion H; subst. apply run_stored_mono. now apply put1_stored_new.
  - now apply IH.
Qed.

(** ---------------------------------------------------------------- Register *)
Lemma forallb_is_down segs :
  forallb is_down segs = true <-> forall sg, In sg segs -> s_type sg = type_down.
Proof.
  rewrite forallb_forall. unfold is_down. split; intros H sg Hs.
  - now apply N.eqb_eq, H.
  - now apply N.eqb_eq, H.
Qed.

Lemma reg_okb_allowed cfg r : reg_okb cfg r = true <-> reg_allowed cfg r.
Proof.
  unfold reg_okb, reg_allowed. destruct (lookup (r_gid r) (c_groups cfg)) as [g|].
  - rewrite !andb_true_iff, !mem_ia_In, forallb_is_down. split.
    + intros [[[H1 H2] H3] H4]. exists g. auto.
    + intros [g' [E [H1 [H2 [H3 H4]]]]]. inversion E; subst g'. auto.
  - split; [discriminate | intros [g [E _]]; discriminate].
Qed.

Lemma register_spec b cfg r st :
  register b cfg r st =
  if reg_okb cfg r then (ROk, put b st (r_gid r) (r_segs r))
  else (fst (register b cfg r st), st).
Proof.
  unfold register, reg_okb. destruct (lookup (r_gid r) (c_groups cfg)) as [g|]; [|reflexivity].
  destruct (mem_ia (r_peer r) (g_writers g)); cbn [negb andb]; [|reflexivity].
  destruct (mem_ia (c_local cfg) (g_registries g)); cbn [negb andb]; [|reflexivity].
  destruct (forallb is_down (r_segs r)); cbn [negb andb]; [|reflexivity].
  destruct (r_verdict r); reflexivity.
Qed.

Lemma register_fst b cfg r st : fst (register b cfg r st) = ROk <-> reg_okb cfg r = true.
Proof.
  unfold register, reg_okb. destruct (lookup (r_gid r) (c_groups cfg)) as [g|];
    [|cbn; split; discriminate].
  destruct (mem_ia (r_peer r) (g_writers g)); cbn [negb andb fst]; [|split; discriminate].
  destruct (mem_ia (c_local cfg) (g_registries g)); cbn [negb andb fst]; [|split; discriminate].
  destruct (forallb is_down (r_segs r)); cbn [negb andb fst]; [|split; discriminate].
  destruct (r_verdict r); cbn [negb fst]; split; (reflexivity || discriminate).
Qed.

Lemma register_snd b cfg r st :
  snd (register b cfg r st) = run_puts b st (puts_of cfg [OReg r]).
Proof.
  rewrite register_spec. cbn [puts_of flat_map]. rewrite app_nil_r.
  destruct (reg_okb cfg r); cbn [snd]; [apply put_run_puts | reflexivity].
Qed.

Lemma puts_of_cons cfg o ops : puts_of cfg (o :: ops) = puts_of cfg [o] ++ puts_of cfg ops.
Proof. unfold puts_of. cbn [flat_map]. now rewrite app_nil_r. Qed.

Lemma puts_of_app cfg ops1 ops2 : puts_of cfg (ops1 ++ ops2) = puts_of cfg ops1 ++ puts_of cfg ops2.
Proof. unfold puts_of. apply flat_map_app. Qed.

Lemma In_puts_of cfg ops g sg : In (g, sg) (puts_of cfg ops) <-> registered cfg ops g sg.
Proof.
  unfold puts_of, registered. rewrite in_flat_map. split.
  - intros [[r|q|pg] [Ho H]]; [|destruct H|].
    + destruct (reg_okb cfg r) eqn:E; [|destruct H].
      apply in_map_iff in H as [sg' [E' H]]. inversion E'; subst.
      left. exists r. split; [assumption|]. split; [now apply reg_okb_allowed | auto].
    + destruct H as [H|[]]. inversion H; subst. right. auto.
  - intros [[r [Ho [A [Eg H]]]]|[-> Ho]].
    + exists (OReg r). split; [assumption|].
      apply reg_okb_allowed in A. rewrite A. apply in_map_iff. exists sg. subst g. auto.
    + exists (OPub sg). split; [assumption | now left].
Qed.

(** ---------------------------------------------------------------- Segments *)
Lemma can_read_member peer g : can_read peer g = true <-> member peer g.
Proof.
  unfold can_read, member. rewrite !orb_true_iff, !mem_ia_In, ia_eqb_eq.
  split; intros H; repeat destruct H as [H|H]; auto.
Qed.

Lemma check_groups_none cfg peer gids :
  check_groups cfg peer gids = None <->
  forallb (fun id => match lookup id (c_groups cfg) with
                     | Some g => can_read peer g && is_authoritative (c_local cfg) g
                     | None => false end) gids = true.
Proof.
  induction gids as [|id t IH]; cbn [check_groups forallb]; [tauto|].
  destruct (lookup id (c_groups cfg)) as [g|]; [|cbn; split; discriminate].
  destruct (can_read peer g); cbn [negb andb]; [|split; discriminate].
  destruct (is_authoritative (c_local cfg) g); cbn [negb andb]; [apply IH | split; discriminate].
Qed.

Lemma serve_okb_allowed cfg q : serve_okb cfg q = true <-> serve_allowed cfg q.
Proof.
  unfold serve_okb, serve_allowed. rewrite andb_true_iff, forallb_forall. split.
  - intros [H1 H2]. split; [destruct (q_gids q); [discriminate | discriminate]|].
    intros id Hid. specialize (H2 _ Hid).
    destruct (lookup id (c_groups cfg)) as [g|]; [|discriminate].
    apply andb_true_iff in H2 as [H2 H3]. exists g. split; [reflexivity|].
    split; [now apply can_read_member | now apply mem_ia_In].
  - intros [H1 H2]. split; [destruct (q_gids q); [congruence | reflexivity]|].
    intros id Hid. destruct (H2 _ Hid) as [g [E [M A]]]. rewrite E.
    apply andb_true_iff. split; [now apply can_read_member | now apply mem_ia_In].
Qed.

Section WithEnds.
Variable end_of : N -> ia.

Lemma segments_spec cfg q st :
  (serve_okb cfg q = true /\ segments end_of cfg q st = SOk (get end_of (q_dst q) (q_gids q) st))
  \/ (serve_okb cfg q = false /\ exists e, segments end_of cfg q st = SErr e).
Proof.
  unfold segments, serve_okb. destruct (q_gids q) as [|id t] eqn:E.
  - right. split; [reflexivity | eauto].
  - cbn [negb andb]. rewrite <- E.
    destruct (check_groups cfg (q_peer q) (q_gids q)) as [e|] eqn:C.
    + right. split; [|eauto].
      destruct (forallb _ (q_gids q)) eqn:F; [|reflexivity].
      apply check_groups_none in F. congruence.
    + left. apply check_groups_none in C. rewrite E in *. auto.
Qed.

Lemma In_get st dst gids s v : NoDup (keys st) ->
  (In (s, v) (get end_of dst gids st) <->
   exists gs, find s st = Some (v, gs) /\ ends_at dst (end_of s) = true
              /\ exists g, In g gs /\ In g gids).
Proof.
  intros ND. unfold get. rewrite in_map_iff. split.
  - intros [[s' [v' gs]] [E H]]. cbn [fst snd] in E. inversion E; subst s' v'.
    apply filter_In in H as [H1 H2]. cbn [fst snd] in H2.
    apply andb_true_iff in H2 as [H2 H3]. apply existsb_exists in H3 as [g [Hg Hm]].
    apply mem_n_In in Hm. exists gs. split; [now apply In_find|]. eauto.
  - intros [gs [F [He [g [Hg Hm]]]]]. exists (s, (v, gs)). split; [reflexivity|].
    apply filter_In. split; [now apply find_In|]. cbn [fst snd].
    apply andb_true_iff. split; [assumption|]. apply existsb_exists. exists g.
    split; [assumption | now apply mem_n_In].
Qed.

Lemma NoDup_get st dst gids : NoDup (keys st) -> NoDup (map fst (get end_of dst gids st)).
Proof.
  unfold get. rewrite map_map. cbn [fst].
  induction st as [|[k e] t IH]; cbn [keys map fst filter]; intros ND; [constructor|].
  inversion ND as [|? ? Hk ND']; subst.
  match goal with |- context [if ?c then _ else _] => destruct c end; [|now apply IH].
  cbn [map fst]. constructor; [|now apply IH].
  intros H. apply Hk. apply in_map_iff in H as [x [E Hx]]. apply filter_In in Hx as [Hx _].
  rewrite <- E. now apply in_map.
Qed.

(** what [get] returns after the puts [ps], in terms of the puts alone *)
Definition answer_spec (ps : list (N * segm)) (dst : ia) (gids : list N) (s : N) (v : Z) : Prop :=
  ends_at dst (end_of s) = true
  /\ (exists g sg, In g gids /\ In (g, sg) ps /\ s_id sg = s)
  /\ is_newest ps s v.

Lemma NoDup_R b ps : NoDup (keys (R b ps)).
Proof. apply NoDup_run_puts. constructor. Qed.

Lemma get_sound b ps dst gids s v :
  In (s, v) (get end_of dst gids (R b ps)) -> answer_spec ps dst gids s v.
Proof.
  intros H. apply In_get in H; [|apply NoDup_R].
  destruct H as [gs [F [He [g [Hg Hm]]]]]. split; [assumption|]. split.
  - destruct (R_groups_sound _ _ _ _ _ _ F Hg) as [sg [H1 H2]]. eauto.
  - eapply R_version; eauto.
Qed.

Lemma get_complete b ps dst gids s v : (b = true -> known_puts [] ps = false) ->
  answer_spec ps dst gids s v -> In (s, v) (get end_of dst gids (R b ps)).
Proof.
  intros K [He [[g [sg [Hm [Hp Hs]]]] Hn]]. apply In_get; [apply NoDup_R|].
  destruct (R_groups_complete b _ K _ _ Hp) as [v' [gs [F Hg]]]. subst s.
  assert (v' = v) by (eapply is_newest_unique; [eapply R_version; eauto | assumption]).
  subst v'. exists gs. eauto.
Qed.

Lemma In_spec_answer q ps s v :
  In (s, v) (spec_answer end_of q ps) <-> answer_spec ps (q_dst q) (q_gids q) s v.
Proof.
  unfold spec_answer, answer_spec. rewrite in_map_iff. split.
  - intros [[g sg] [E H]]. cbn [fst snd] in E. apply filter_In in H as [H1 H2].
    cbn [fst snd] in H2. apply andb_true_iff in H2 as [H2 H3]. apply mem_n_In in H2.
    inversion E; subst s. clear E. split; [assumption|]. split; [eauto|].
    apply fold_max_newest. apply In_vers. eauto.
  - intros [He [[g [sg [Hm [Hp Hs]]]] Hn]]. exists (g, sg). cbn [fst snd]. split.
    + subst s. f_equal. eapply is_newest_unique; [|eassumption].
      apply fold_max_newest. apply In_vers. eauto.
    + apply filter_In. split; [assumption|]. cbn [fst snd]. subst s.
      apply andb_true_iff. split; [now apply mem_n_In | assumption].
Qed.

(** ---------------------------------------------------------------- histories *)
Lemma exec_puts b cfg ops :
  forall st, exec end_of b cfg st ops = run_puts b st (puts_of cfg ops).
Proof.
  induction ops as [|o t IH]; intros st; [reflexivity|].
  rewrite puts_of_cons, run_puts_app. unfold exec in *. cbn [fold_left]. rewrite IH. f_equal.
  destruct o as [r|q|pg]; cbn [step].
  - rewrite <- register_snd. destruct (register b cfg r st). reflexivity.
  - reflexivity.
  - reflexivity.
Qed.

Lemma is_newest_newest cfg ops s v : is_newest (puts_of cfg ops) s v <-> newest cfg ops s v.
Proof.
  unfold is_newest, newest. split.
  - intros [I M]. split.
    + apply In_vers in I as [g [sg [H [H1 H2]]]]. apply In_puts_of in H. eauto.
    + intros g sg H E. apply M. apply In_vers. apply In_puts_of in H. eauto.
  - intros [[g [sg [H [H1 H2]]]] M]. split.
    + apply In_vers. apply In_puts_of in H. eauto.
    + intros x Hx. apply In_vers in Hx as [g' [sg' [H' [H1' H2']]]]. subst x.
      eapply M; [apply In_puts_of; eassumption | assumption].
Qed.

Lemma answer_spec_exact cfg ops q s v :
  answer_spec (puts_of cfg ops) (q_dst q) (q_gids q) s v <->
  (ends_at (q_dst q) (end_of s) = true
   /\ (exists g sg, In g (q_gids q) /\ registered cfg ops g sg /\ s_id sg = s)
   /\ newest cfg ops s v).
Proof.
  unfold answer_spec. rewrite is_newest_newest. split.
  - intros [H1 [[g [sg [Hm [Hp Hs]]]] H3]]. apply In_puts_of in Hp. eauto 10.
  - intros [H1 [[g [sg [Hm [Hp Hs]]]] H3]]. apply In_puts_of in Hp. eauto 10.
Qed.

(** ---------------------------------------------------------------- the oracle on the model *)
Lemma pair_eqb_eq a b : pair_eqb a b = true <-> a = b.
Proof.
  destruct a, b. unfold pair_eqb. cbn [fst snd]. rewrite andb_true_iff, N.eqb_eq, Z.eqb_eq.
  split; [intros [-> ->]; reflexivity | intros E; inversion E; auto].
Qed.

Lemma incl_b_incl l1 l2 : incl_b l1 l2 = true <-> incl l1 l2.
Proof.
  unfold incl_b, incl. rewrite forallb_forall. split; intros H a Ha.
  - specialize (H _ Ha). apply existsb_exists in H as [b [Hb E]]. apply pair_eqb_eq in E. now subst.
  - apply existsb_exists. exists a. split; [auto | now apply pair_eqb_eq].
Qed.

Lemma nodup_keys_NoDup l : NoDup (map fst l) -> nodup_keys l = true.
Proof.
  induction l as [|a t IH]; cbn [map nodup_keys]; intros ND; [reflexivity|].
  inversion ND as [|? ? Hk ND']; subst. apply andb_true_iff. split; [|auto].
  apply negb_true_iff. destruct (existsb _ t) eqn:E; [|reflexivity].
  apply existsb_exists in E as [b [Hb E]]. apply N.eqb_eq in E. exfalso. apply Hk.
  rewrite E. now apply in_map.
Qed.

Lemma hist_ok_model b cfg ops : forall ps,
  (b = true -> known_puts [] (ps ++ puts_of cfg ops) = false) ->
  hist_ok end_of cfg ps ops (map obs_of (trace end_of b cfg (R b ps) ops)) = true.
Proof.
  induction ops as [|o t IH]; intros ps K; [reflexivity|].
  rewrite puts_of_cons, app_assoc in K.
  cbn [trace]. destruct o as [r|q|pg]; cbn [step].
  - pose proof (register_snd b cfg r (R b ps)) as Hs.
    pose proof (register_fst b cfg r (R b ps)) as Hf.
    destruct (register b cfg r (R b ps)) as [res st'] eqn:Er. cbn [fst snd] in *.
    cbn [map hist_ok]. apply andb_true_iff. split.
    + cbn [op_ok]. destruct res as [|e]; cbn [obs_of].
      * cbn. assert (reg_okb cfg r = true) by now apply Hf. now rewrite H.
      * cbn. destruct (reg_okb cfg r); [|reflexivity].
        assert (RErr e = ROk) by now apply Hf. discriminate.
    + subst st'. rewrite <- run_puts_app. now apply IH.
  - cbn [map hist_ok]. apply andb_true_iff. split.
    + assert (K0 : b = true -> known_puts [] ps = false).
      { intros Hb. specialize (K Hb). rewrite known_puts_app in K.
        apply orb_false_iff in K as [K _].
        cbn [puts_of flat_map app] in K. now rewrite app_nil_r in K. }
      cbn [op_ok]. destruct (segments_spec cfg q (R b ps)) as [[Hok E]|[Hok [e E]]]; rewrite E;
        cbn [obs_of]; rewrite Hok; cbn [Bool.eqb negb andb orb]; [|reflexivity].
      apply andb_true_iff. split; [apply andb_true_iff; split|].
      * apply incl_b_incl. intros [s v] H. apply In_spec_answer. now apply get_sound in H.
      * apply incl_b_incl. intros [s v] H. apply In_spec_answer in H. now apply get_complete.
      * apply nodup_keys_NoDup, NoDup_get, NoDup_R.
    + cbn [puts_of flat_map app] in *. rewrite app_nil_r in *. now apply IH.
  - cbn [map hist_ok obs_of op_ok]. cbn [N.eqb andb].
    replace (put1 b (R b ps) public_gid pg) with (R b (ps ++ puts_of cfg [OPub pg]))
      by (cbn [puts_of flat_map app]; apply run_puts_snoc).
    now apply IH.
Qed.

(** the narrow class: when the two stores are observably equal the oracle holds *)
Lemma obs_exact_eqb_eq a b : obs_exact_eqb a b = true <-> a = b.
Proof.
  destruct a as [x|o1 l1], b as [y|o2 l2]; cbn [obs_exact_eqb]; try (split; discriminate).
  - rewrite N.eqb_eq. split; [now intros -> | intros E; now inversion E].
  - rewrite andb_true_iff, eqb_true_iff.
    rewrite (list_eqb_eq pair_exact_eqb pair_eqb_eq). split.
    + intros [-> ->]. reflexivity.
    + intros E. inversion E. auto.
Qed.

Lemma hist_ok_not_visible cfg ops : known_visible end_of cfg ops = false ->
  hist_ok end_of cfg [] ops (model_obs true end_of cfg ops) = true.
Proof.
  unfold known_visible. intros H. apply negb_false_iff in H.
  apply (list_eqb_eq obs_exact_eqb obs_exact_eqb_eq) in H. rewrite H.
  apply (hist_ok_model false cfg ops []). discriminate.
Qed.

End WithEnds.
