(** End-to-end forwarding, part 1: the router configuration derived from a
    topology, the relation [view] between a packet in flight and the provenance
    path it comes from (the packet agrees with [render] on everything except,
    possibly, hop fields from index [lim] on and info fields from index [jlim]
    on — this is what lets the same step lemmas serve C02 (lim = all) and the
    tamper argument of C04), and the first checks of the router on such a packet. *)
From Coq Require Import List NArith Bool Arith Lia ZifyBool ZifyN ZifyNat.
From Scion Require Import Lib.Check Model.Router Model.Network Model.Prov.
From Scion Require Import Proofs.ProvStruct Proofs.ProvRender.
Import ListNotations.
Import Router Network Prov.

(** * Topology lookups *)
Lemma find_as_ia t x a : find_as t x = Some a -> a_ia a = x /\ In a t.
Proof.
  induction t as [|b r IH]; cbn [find_as]; [discriminate|].
  destruct (a_ia b =? x)%N eqn:E.
  - intros H. inversion H; subst. apply N.eqb_eq in E. split; [assumption|now left].
  - intros H. destruct (IH H). split; [assumption|now right].
Qed.

Lemma find_nif_id l x f : find_nif l x = Some f -> ni_id f = x /\ In f l.
Proof.
  induction l as [|g r IH]; cbn [find_nif]; [discriminate|].
  destruct (ni_id g =? x)%N eqn:E.
  - intros H. inversion H; subst. apply N.eqb_eq in E. split; [assumption|now left].
  - intros H. destruct (IH H). split; [assumption|now right].
Qed.

Lemma find_if_map r l x : find_if (map (if_of r) l) x = option_map (if_of r) (find_nif l x).
Proof.
  induction l as [|g l IH]; [reflexivity|]. cbn [map find_if find_nif].
  replace (if_id (if_of r g)) with (ni_id g) by (unfold if_of; destruct (ni_owner g =? r)%N; reflexivity).
  destruct (ni_id g =? x)%N; [reflexivity|apply IH].
Qed.

Lemma get_if_cfg a r x f : x <> 0%N -> find_nif (a_ifs a) x = Some f -> get_if (cfg_of a r) x = Some (if_of r f).
Proof.
  intros Hx Hf. unfold get_if. apply N.eqb_neq in Hx. rewrite Hx. unfold cfg_of. cbn [c_ifs].
  now rewrite find_if_map, Hf.
Qed.

Lemma lt_of_cfg a r x f : x <> 0%N -> find_nif (a_ifs a) x = Some f -> lt_of (cfg_of a r) x = ni_lt f.
Proof.
  intros Hx Hf. unfold lt_of. rewrite (get_if_cfg a r x f Hx Hf).
  unfold if_of. destruct (ni_owner f =? r)%N; reflexivity.
Qed.

Section Topo.
Variable t : topology.
Hypothesis Hwt : wf_topo t = true.
Hypothesis Hup : all_up t = true.

Lemma nif_ok_in a f : In a t -> In f (a_ifs a) -> nif_ok t a f = true.
Proof.
  intros Ha Hf. unfold wf_topo in Hwt. apply andb_true_iff in Hwt as [_ W].
  rewrite forallb_forall in W. specialize (W a Ha). apply andb_true_iff in W as [_ W].
  rewrite forallb_forall in W. now apply W.
Qed.

Lemma nif_up_in a f : In a t -> In f (a_ifs a) -> ni_up f = true.
Proof.
  intros Ha Hf. unfold all_up in Hup. rewrite forallb_forall in Hup. specialize (Hup a Ha).
  rewrite forallb_forall in Hup. now apply Hup.
Qed.

(** the far end of a link *)
Lemma far_end a x f :
  find_as t (a_ia a) = Some a -> find_nif (a_ifs a) x = Some f ->
  x <> 0%N /\ ni_up f = true /\
  exists b g, find_as t (ni_nbr f) = Some b /\ find_nif (a_ifs b) (ni_remote f) = Some g /\
              mirrored (ni_lt f) (ni_lt g) = true /\ ni_remote f <> 0%N /\ ni_up g = true.
Proof.
  intros Ha Hf. destruct (find_as_ia _ _ _ Ha) as [_ Ia]. destruct (find_nif_id _ _ _ Hf) as [Ix If].
  pose proof (nif_ok_in a f Ia If) as K. unfold nif_ok in K.
  apply andb_true_iff in K as [K K2]. apply andb_true_iff in K as [K0 _].
  split; [subst x; now apply N.eqb_neq, negb_true_iff|]. split; [now apply (nif_up_in a)|].
  destruct (find_as t (ni_nbr f)) as [b|] eqn:Eb; [|discriminate].
  apply andb_true_iff in K2 as [_ K2].
  destruct (find_nif (a_ifs b) (ni_remote f)) as [g|] eqn:Eg; [|discriminate].
  apply andb_true_iff in K2 as [_ M].
  exists b, g. repeat split; try assumption.
  - destruct (find_as_ia _ _ _ Eb) as [_ Ib]. destruct (find_nif_id _ _ _ Eg) as [Ig Igl].
    pose proof (nif_ok_in b g Ib Igl) as K'. unfold nif_ok in K'.
    apply andb_true_iff in K' as [K' _]. apply andb_true_iff in K' as [K' _].
    rewrite Ig in K'. now apply N.eqb_neq, negb_true_iff.
  - destruct (find_as_ia _ _ _ Eb) as [_ Ib]. destruct (find_nif_id _ _ _ Eg) as [_ Igl].
    now apply (nif_up_in b).
Qed.

End Topo.

(** * Functions of the path meta header only *)
Definition same_meta (q q' : pkt) : Prop :=
  p_curr_inf q = p_curr_inf q' /\ p_curr_hf q = p_curr_hf q' /\
  p_seg0 q = p_seg0 q' /\ p_seg1 q = p_seg1 q' /\ p_seg2 q = p_seg2 q'.

Ltac meta_cong :=
  intros (A & B & C & D & E);
  repeat match goal with |- context [?f ?q] =>
    first [unfold f] end.

Lemma num_hops_meta q q' : same_meta q q' -> num_hops q = num_hops q'.
Proof. intros (A & B & C & D & E). unfold num_hops. now rewrite C, D, E. Qed.
Lemma num_inf_meta q q' : same_meta q q' -> num_inf q = num_inf q'.
Proof. intros (A & B & C & D & E). unfold num_inf. now rewrite C, D, E. Qed.
Lemma seglen_ok_meta q q' : same_meta q q' -> seglen_ok q = seglen_ok q'.
Proof. intros (A & B & C & D & E). unfold seglen_ok. now rewrite C, D, E. Qed.
Lemma inf_index_meta q q' x : same_meta q q' -> inf_index_for_hf q x = inf_index_for_hf q' x.
Proof. intros (A & B & C & D & E). unfold inf_index_for_hf. now rewrite C, D. Qed.
Lemma is_xover_meta q q' : same_meta q q' -> is_xover q = is_xover q'.
Proof.
  intros M. unfold is_xover. rewrite (num_hops_meta _ _ M).
  destruct M as (A & B & C & D & E). rewrite A, B. unfold inf_index_for_hf. now rewrite C, D.
Qed.
Lemma first_after_xover_meta q q' : same_meta q q' ->
  is_first_hop_after_xover q = is_first_hop_after_xover q'.
Proof.
  intros (A & B & C & D & E). unfold is_first_hop_after_xover, inf_index_for_hf. now rewrite A, B, C, D.
Qed.

Section View.
Variable p : prov.
Variable pp : pparams.
Hypothesis Hshape : shape_ok p = true.

Notation n := (nhops p).
Notation js := (seg_idx (lens p)).
Notation nsegs := (length (pv_segs p)).

(** [k]: the hop the pointers designate; [ki], [mid]: the position whose SegIDs the info
    fields carry (the two differ only in the middle of a router's processing) *)
Record view (lim jlim : nat) (q : pkt) (k ki : nat) (mid : bool) : Prop := {
  v_dst_ia : p_dst_ia q = pp_dst_ia pp;
  v_src_ia : p_src_ia q = pp_src_ia pp;
  v_dst_type : p_dst_type q = pp_dst_type pp;
  v_src_type : p_src_type q = pp_src_type pp;
  v_dst_raw : p_dst_raw q = pp_dst_raw pp;
  v_src_raw : p_src_raw q = pp_src_raw pp;
  v_pay_len : p_pay_len q = pp_pay pp;
  v_pay_actual : p_pay_actual q = pp_pay pp;
  v_port : p_l4_port q = pp_port pp;
  v_ci : p_curr_inf q = N.of_nat (js k);
  v_ch : p_curr_hf q = N.of_nat k;
  v_s0 : p_seg0 q = len_at p 0;
  v_s1 : p_seg1 q = len_at p 1;
  v_s2 : p_seg2 q = len_at p 2;
  v_rsv : p_meta_rsv q = 0%N;
  v_ilen : length (p_infos q) = nsegs;
  v_hlen : length (p_hops q) = n;
  v_hops : forall k', (k' < lim)%nat -> (k' < n)%nat -> nth_error (p_hops q) k' = Some (rhop (hop p k'));
  v_infos : forall j, (j < jlim)%nat -> (j < nsegs)%nat -> nth_error (p_infos q) j = Some (rinfo p ki mid j) }.

Lemma view_render lim jlim k mid : view lim jlim (render p pp k mid) k k mid.
Proof.
  constructor; try reflexivity.
  - unfold render. cbn [p_infos]. apply rinfos_length.
  - unfold render. cbn [p_hops]. apply map_length.
  - intros k' _ H. rewrite <- nthN_of_nat. now apply hop_render.
  - intros j _ H. rewrite <- nthN_of_nat. now apply info_render.
Qed.

Lemma view_meta lim jlim q k ki mid mid' : view lim jlim q k ki mid -> same_meta q (render p pp k mid').
Proof. intros V. destruct V. repeat split; assumption. Qed.

(** a full view is the rendering itself *)
Lemma nth_error_ext {A} (l l' : list A) :
  length l = length l' -> (forall i, (i < length l)%nat -> nth_error l i = nth_error l' i) -> l = l'.
Proof.
  revert l'. induction l as [|x l IH]; intros [|y l'] HL H; cbn [length] in HL; try lia; [reflexivity|].
  f_equal.
  - specialize (H 0%nat ltac:(cbn; lia)). cbn in H. congruence.
  - apply IH; [lia|]. intros i Hi. apply (H (S i)). cbn. lia.
Qed.

Lemma view_full q k mid : view n nsegs q k k mid -> q = render p pp k mid.
Proof.
  intros V. destruct V. destruct q. cbn in *. unfold render. subst.
  f_equal.
  - apply nth_error_ext.
    + now rewrite rinfos_length.
    + intros i Hi. rewrite v_infos0 by lia. symmetry. rewrite <- nthN_of_nat.
      apply (info_render p pp). lia.
  - apply nth_error_ext.
    + now rewrite map_length.
    + intros i Hi. rewrite v_hops0 by lia. symmetry. rewrite <- nthN_of_nat.
      apply (hop_render p pp k mid). lia.
Qed.

(** * The first two steps of the router on a packet in view *)
Lemma all_peer j : (j < nsegs)%nat -> sg_peer (nth j (pv_segs p) dseg) = true ->
  forall j', (j' < nsegs)%nat -> sg_peer (nth j' (pv_segs p) dseg) = true.
Proof.
  intros Hj P j' Hj'. destruct (peer_shape p Hshape j Hj P) as (a & b & E & Pa & Pb & _).
  rewrite E in *. destruct j' as [|[|j']]; cbn [nth length] in *; try assumption; lia.
Qed.

Lemma singleton_peer k : (k < n)%nat ->
  ((len_at p 0 =? 1) || (len_at p 1 =? 1) || (len_at p 2 =? 1))%N = true ->
  sg_peer (hdr p k) = true.
Proof.
  intros Hk S.
  assert (X : exists j, nth j (lens p) 0%nat = 1%nat).
  { unfold len_at in S. apply orb_true_iff in S as [S|S]; [apply orb_true_iff in S as [S|S]|];
      apply N.eqb_eq in S; eexists; apply Nat2N.inj; rewrite S; reflexivity. }
  destruct X as [j Hj].
  assert (Hjl : (j < nsegs)%nat).
  { destruct (Nat.lt_ge_cases j nsegs); [assumption|]. rewrite (lens_beyond p j) in Hj by assumption. discriminate. }
  rewrite nth_lens in Hj.
  pose proof (single_peer p Hshape j Hjl Hj) as P.
  apply (all_peer j Hjl P). now apply js_lt.
Qed.

Lemma parse_path_view lim jlim q k mid :
  view lim jlim q k k mid -> (k < n)%nat -> (k < lim)%nat -> (js k < jlim)%nat ->
  parse_path q = Ok (mkSt q (rhop (hop p k)) (rinfo p k mid (js k)) false false 0).
Proof.
  intros V Hk Hl Hj. pose proof (view_meta _ _ _ _ _ _ mid V) as M.
  unfold parse_path.
  rewrite (seglen_ok_meta _ _ M), (seglen_ok_render p pp Hshape).
  rewrite (num_hops_meta _ _ M), (num_hops_render p pp Hshape).
  destruct (shape_parts p Hshape) as (_ & _ & L64 & _).
  replace (MaxHops <? N.of_nat n)%N with false by (unfold MaxHops; lia). cbn [negb orb].
  assert (W : well_formed q = true).
  { unfold well_formed. rewrite (num_inf_meta _ _ M), (num_hops_meta _ _ M).
    rewrite (num_inf_render p pp Hshape), (num_hops_render p pp Hshape).
    rewrite (v_ilen _ _ _ _ _ _ V), (v_hlen _ _ _ _ _ _ V). lia. }
  rewrite W. cbn [negb].
  rewrite (v_ch _ _ _ _ _ _ V), nthN_of_nat, (v_hops _ _ _ _ _ _ V k Hl Hk).
  rewrite (v_ci _ _ _ _ _ _ V), nthN_of_nat, (v_infos _ _ _ _ _ _ V (js k) Hj (js_lt p Hshape k Hk)).
  rewrite (v_s0 _ _ _ _ _ _ V), (v_s1 _ _ _ _ _ _ V), (v_s2 _ _ _ _ _ _ V).
  destruct ((len_at p 0 =? 1) || (len_at p 1 =? 1) || (len_at p 2 =? 1))%N eqn:S.
  - pose proof (singleton_peer k Hk S) as P. unfold rinfo. cbn [i_peer]. rewrite <- hdr_nth, P. cbn [negb andb].
    replace (N.of_nat (js k)) with (p_curr_inf q) by apply (v_ci _ _ _ _ _ _ V).
    replace (N.of_nat k) with (p_curr_hf q) by apply (v_ch _ _ _ _ _ _ V).
    rewrite (inf_index_meta _ _ _ M). rewrite (v_ch _ _ _ _ _ _ V), (v_ci _ _ _ _ _ _ V).
    rewrite (inf_index_render p pp Hshape) by assumption. now rewrite N.eqb_refl.
  - rewrite andb_false_r.
    replace (N.of_nat (js k)) with (p_curr_inf q) by apply (v_ci _ _ _ _ _ _ V).
    replace (N.of_nat k) with (p_curr_hf q) by apply (v_ch _ _ _ _ _ _ V).
    rewrite (inf_index_meta _ _ _ M). rewrite (v_ch _ _ _ _ _ _ V), (v_ci _ _ _ _ _ _ V).
    rewrite (inf_index_render p pp Hshape) by assumption. now rewrite N.eqb_refl.
Qed.

(** [determine_peer] computes [peerhop] *)
Lemma peering_formula k : (k < n)%nat -> sg_peer (hdr p k) = true ->
  ((N.of_nat k =? len_at p 0 - 1) || (N.of_nat k =? len_at p 0))%N = peerhop p k /\
  (len_at p 0 =? 0)%N = false /\ (len_at p 1 =? 0)%N = false /\ (len_at p 2 =? 0)%N = true.
Proof.
  intros Hk P. destruct (peer_shape p Hshape (js k) (js_lt p Hshape k Hk) P)
    as (a & b & E & Pa & Pb & Ca & Cb & _).
  pose proof (Htot p Hshape) as T. pose proof (Hpos p Hshape) as PS. unfold segs_pos in PS.
  unfold peerhop, cons, is_first, is_last, hdr, len_at, lens in *. rewrite E in *.
  cbn [map nth seg_idx seg_off total fold_right] in *.
  inversion PS as [|? ? La PS']; subst. inversion PS' as [|? ? Lb _]; subst.
  destruct (k <? sg_len a)%nat eqn:K; cbn [nth].
  - apply Nat.ltb_lt in K. rewrite Pa, Ca. cbn [andb].
    repeat split; try lia;
    try (destruct (Nat.eqb (S k) (sg_len a)) eqn:X; [apply Nat.eqb_eq in X|apply Nat.eqb_neq in X]; lia).
  - apply Nat.ltb_ge in K.
    replace (k - sg_len a <? sg_len b)%nat with true by (symmetry; apply Nat.ltb_lt; lia).
    cbn [nth]. rewrite Pb, Cb. cbn [andb].
    repeat split; try lia;
    try (destruct (Nat.eqb (k - sg_len a) 0) eqn:X; [apply Nat.eqb_eq in X|apply Nat.eqb_neq in X]; lia).
Qed.

Lemma determine_peer_view lim jlim q k ki mid0 mid h :
  view lim jlim q k ki mid0 -> (k < n)%nat ->
  determine_peer (mkSt q h (rinfo p k mid (js k)) false false 0) =
  Ok (mkSt q h (rinfo p k mid (js k)) (peerhop p k) false 0).
Proof.
  intros V Hk. unfold determine_peer. cbn [s_inf s_p s_hop s_xover s_eg].
  unfold rinfo at 1. cbn [i_peer]. rewrite <- hdr_nth.
  destruct (sg_peer (hdr p k)) eqn:P; cbn [negb].
  - destruct (peering_formula k Hk P) as (F & Z0 & Z1 & Z2).
    rewrite (v_s0 _ _ _ _ _ _ V), (v_s1 _ _ _ _ _ _ V), (v_s2 _ _ _ _ _ _ V), (v_ch _ _ _ _ _ _ V).
    rewrite Z0, Z1, Z2. cbn [negb]. now rewrite F.
  - unfold peerhop. rewrite P. reflexivity.
Qed.

(** * How the router's updates move a view *)
Lemma nth_error_set_nth {A} (l : list A) : forall j i x,
  nth_error (set_nth l j x) i =
  if Nat.eqb i j then (match nth_error l j with Some _ => Some x | None => None end) else nth_error l i.
Proof.
  induction l as [|y l IH]; intros j i x.
  - cbn [set_nth]. destruct (Nat.eqb i j); destruct i, j; reflexivity.
  - destruct j as [|j]; destruct i as [|i]; cbn [set_nth nth_error Nat.eqb]; try reflexivity.
    apply IH.
Qed.

Lemma set_nth_len {A} (l : list A) : forall j x, length (set_nth l j x) = length l.
Proof. induction l as [|y l IH]; intros [|j] x; cbn [set_nth length]; auto. Qed.

(** the info fields carry the SegIDs of another position (pointwise equal) *)
Lemma view_reinfo lim jlim q k ki mid ki' mid' :
  view lim jlim q k ki mid ->
  (forall j, (j < jlim)%nat -> (j < nsegs)%nat -> rinfo p ki mid j = rinfo p ki' mid' j) ->
  view lim jlim q k ki' mid'.
Proof.
  intros V H. destruct V. constructor; try assumption.
  intros j Hj Hs. rewrite v_infos0 by assumption. now rewrite H.
Qed.

(** [store_inf]: the current info field is rewritten *)
Lemma view_store lim jlim q k ki mid ki' mid' x :
  view lim jlim q k ki mid -> (k < n)%nat ->
  ser_info x = rinfo p ki' mid' (js k) ->
  (forall j, (j < jlim)%nat -> (j < nsegs)%nat -> j <> js k -> rinfo p ki mid j = rinfo p ki' mid' j) ->
  view lim jlim (with_infos q (set_nthN (p_infos q) (p_curr_inf q) (ser_info x))) k ki' mid'.
Proof.
  intros V Hk Hx H. pose proof (js_lt p Hshape k Hk) as J.
  destruct V. constructor; cbn [with_infos p_dst_ia p_src_ia p_dst_type p_src_type p_dst_raw p_src_raw
    p_pay_len p_pay_actual p_l4_port p_curr_inf p_curr_hf p_seg0 p_seg1 p_seg2 p_meta_rsv p_infos p_hops];
    try assumption.
  - unfold set_nthN. now rewrite set_nth_len.
  - intros j Hj Hs. unfold set_nthN. rewrite v_ci0, Nat2N.id. rewrite nth_error_set_nth.
    destruct (Nat.eqb j (js k)) eqn:E.
    + apply Nat.eqb_eq in E. subst j.
      destruct (nth_error (p_infos q) (js k)) eqn:X.
      * now rewrite Hx.
      * apply nth_error_None in X. lia.
    + apply Nat.eqb_neq in E. rewrite v_infos0 by assumption. now rewrite H.
Qed.

(** [inc_path]: the pointers move to the next hop *)
Lemma view_inc lim jlim q k ki mid :
  view lim jlim q k ki mid -> (S k < n)%nat -> view lim jlim (inc_path q) (S k) ki mid.
Proof.
  intros V Hk. pose proof (view_meta _ _ _ _ _ _ mid V) as M.
  destruct V. unfold inc_path.
  constructor; cbn [with_meta p_dst_ia p_src_ia p_dst_type p_src_type p_dst_raw p_src_raw
    p_pay_len p_pay_actual p_l4_port p_curr_inf p_curr_hf p_seg0 p_seg1 p_seg2 p_meta_rsv p_infos p_hops];
    try assumption; try reflexivity.
  - rewrite (inf_index_meta _ _ _ M). rewrite v_ch0.
    replace (N.of_nat k + 1)%N with (N.of_nat (S k)) by lia.
    now apply inf_index_render.
  - rewrite v_ch0. lia.
Qed.

End View.
