(** Lemmas for C08: the fast path and the slow path never yield [Panic]; what they emit
    satisfies the consistency predicates of Model/RouterTotal.v. *)
From Coq Require Import List Arith NArith Bool Lia.
From Scion Require Import Lib.Check Lib.Bytes Model.Router Proofs.Router Model.Checksum Model.RouterScmp
     Proofs.RouterInv Proofs.RouterScmp Model.RouterTotal.
Import ListNotations.
Import Router.
Import RouterScmp.
Import RouterTotal.
Local Open Scope N_scope.

(** [pkt_inv] is the propositional form of [fwd_wf] without the payload clause *)
Lemma fwd_wf_intro p : pkt_inv p -> p_pay_len p = p_pay_actual p -> fwd_wf p = true.
Proof.
  intros (A & B & C & D & E) F. unfold fwd_wf. rewrite A, C, <- E, F, !N.eqb_refl.
  replace (num_hops p <=? MaxHops) with true by (symmetry; now apply N.leb_le).
  replace (p_curr_hf p <? num_hops p) with true by (symmetry; now apply N.ltb_lt).
  reflexivity.
Qed.

Lemma fwd_wf_elim p : fwd_wf p = true -> pkt_inv p /\ p_pay_len p = p_pay_actual p.
Proof.
  unfold fwd_wf. rewrite !andb_true_iff. intros (((((A & B) & C) & D) & E) & F).
  apply N.leb_le in B. apply N.ltb_lt in D. apply N.eqb_eq in E, F. repeat split; assumption.
Qed.

(** the number-level predicate used for packets decoded by the real slayers agrees with the
    record-level one *)
Lemma pkt_hdr_mul4 p : exists k, CmnHdrLen + addr_len p + MetaLen + InfoLen * num_inf p + HopLen * num_hops p = 4 * k.
Proof.
  unfold CmnHdrLen, addr_len, IABytes, MetaLen, InfoLen, HopLen.
  destruct (addr_type_len_bounds (p_dst_type p)) as [_ [k1 ->]].
  destruct (addr_type_len_bounds (p_src_type p)) as [_ [k2 ->]].
  exists (3 + (4 + k1 + k2) + 1 + 2 * num_inf p + 3 * num_hops p). lia.
Qed.

Lemma fwd_wf_geo p : fwd_wf p = true -> geo_ok (geo_of p) = true.
Proof.
  intros H. apply fwd_wf_elim in H as ((A & B & C & D & E) & F).
  destruct (pkt_hdr_mul4 p) as [k K].
  unfold geo_ok, geo_of, g_path_len. cbn [g_path_type g_hdr_len g_total g_pay_len g_dst_type g_src_type].
  change (g_num_inf _) with (num_inf p). change (g_num_hops _) with (num_hops p).
  change (g_seglen_ok _) with (seglen_ok p).
  cbn [g_curr_hf g_curr_inf]. change (g_inf_index _ (p_curr_hf p)) with (inf_index_for_hf p (p_curr_hf p)).
  rewrite K. unfold LineLen. rewrite (N.mul_comm 4 k), N.div_mul by discriminate.
  rewrite A, <- E, F, !N.eqb_refl. cbn [orb andb].
  replace (num_hops p <=? MaxHops) with true by (symmetry; now apply N.leb_le).
  replace (p_curr_hf p <? num_hops p) with true by (symmetry; now apply N.ltb_lt).
  rewrite ?andb_true_r.
  repeat (apply andb_true_iff; split); try reflexivity. apply N.leb_le.
  unfold addr_len, CmnHdrLen, IABytes, MetaLen, InfoLen, HopLen in *. lia.
Qed.

(** * Slow path: every reply is well-formed *)
Lemma traceroute_inv macq c ing x ll ifid va ats r :
  traceroute macq c ing x ll ifid va ats = SReply r ->
  exists body, lenN body + 4 = scmp_header_size ScmpTracerouteReply /\
    prepare macq c ing x ScmpTracerouteReply 0 body false (c_scmp_auth c && va) ats = SReply r.
Proof.
  unfold traceroute. destruct (negb _); [discriminate|].
  destruct (snd ll) as [|t [|cd [|b2 [|b3 rest]]]]; try discriminate.
  destruct (negb _); [discriminate|]. destruct (lenN rest <? 20) eqn:EL; [discriminate|]. apply N.ltb_ge in EL.
  intros H. eexists. split; [|exact H].
  rewrite !lenN_app, !lenN_be. unfold lenN at 1. rewrite firstn_length.
  unfold lenN in EL. change (scmp_header_size ScmpTracerouteReply) with 24. lia.
Qed.

Lemma slow_path_geom macq c ing req eg x va ats r :
  pkt_inv (sp_pkt x) -> src_addr_ok (sp_pkt x) ->
  slow_path macq c ing req eg x va ats = SReply r -> geom_ok r = true.
Proof.
  intros I SA H. destruct req as [ty code ptr| |].
  - apply slow_path_scmp_inv in H as (ll & body & _ & EB & _ & H).
    apply prepare_inv in H as (rp & H & IR).
    exact (build_geom _ _ _ _ _ _ _ _ _ _ _ (scmp_body_size _ _ _ _ _ _ EB) (IR I) SA H).
  - unfold slow_path in H. destruct (_ || _); [discriminate|]. destruct (negb _); [discriminate|].
    destruct (last_layer _ _) as [ll|]; [|discriminate].
    apply traceroute_inv in H as (body & LB & H). apply prepare_inv in H as (rp & H & IR).
    exact (build_geom _ _ _ _ _ _ _ _ _ _ _ LB (IR I) SA H).
  - unfold slow_path in H. destruct (_ || _); [discriminate|]. destruct (negb _); [discriminate|].
    destruct (last_layer _ _) as [ll|]; [|discriminate].
    apply traceroute_inv in H as (body & LB & H). apply prepare_inv in H as (rp & H & IR).
    exact (build_geom _ _ _ _ _ _ _ _ _ _ _ LB (IR I) SA H).
Qed.

Lemma slow_path_not_unparsable macq c ing req eg x va ats :
  slow_path macq c ing req eg x va ats <> SUnparsable.
Proof.
  assert (B : forall rp ty code body ie na, build macq c x rp ty code body ie na ats <> SUnparsable).
  { intros. unfold build. destruct (pack_local _) as [[? ?]|]; [|discriminate]. cbv zeta.
    destruct (_ && (_ <? _)); [discriminate|]. destruct (Checksum.serialize _ _ _); try discriminate.
    destruct (_ <? _); [discriminate|]. destruct na; [|discriminate].
    destruct (parse_host _ _); try discriminate;
      (destruct (auth_input _ _ _ _ _); [|discriminate]; destruct (macq _); discriminate). }
  assert (P : forall ty code body ie na, prepare macq c ing x ty code body ie na ats <> SUnparsable).
  { intros. unfold prepare. destruct (reverse _); [|discriminate]. destruct (nthN _ _); [|discriminate].
    destruct (det_peer _ _); [|discriminate]. destruct (revert_xover _ _); [|discriminate].
    destruct (ext_inc _ _ _); try discriminate. apply B. }
  assert (T : forall ll ifid, traceroute macq c ing x ll ifid va ats <> SUnparsable).
  { intros. unfold traceroute. destruct (negb _); [discriminate|].
    destruct (snd ll) as [|t [|cd [|b2 [|b3 rest]]]]; try discriminate.
    destruct (negb _); [discriminate|]. destruct (_ <? _); [discriminate|]. apply P. }
  unfold slow_path. destruct (_ || _); [discriminate|]. destruct (negb _); [discriminate|].
  destruct (last_layer _ _); [|discriminate].
  destruct req as [ty code ptr| |]; [|apply T|apply T].
  destruct (scmp_body _ _ _ _ _); [|discriminate]. destruct (classify _); try discriminate; apply P.
Qed.
