(** Lemmas about Model/HdrL4.v (C18 layer 4). *)
From Coq Require Import List Arith NArith ZArith Bool Lia ZifyN ZifyNat ZifyBool.
From Scion Require Import Lib.Bytes Lib.BytesX Lib.Check Model.HdrL4.
Import ListNotations.
Import HdrL4.
Local Open Scope N_scope.

Lemma be_zero k : be k 0 = repeat 0 k.
Proof.
  induction k as [|k IH]; [reflexivity|]. cbn [be repeat]. rewrite IH.
  rewrite N.div_0_l by (apply N.pow_nonzero; discriminate). reflexivity.
Qed.

Lemma pow256_pos k : 0 < 256 ^ N.of_nat k.
Proof. apply N.neq_0_lt_0. apply N.pow_nonzero. discriminate. Qed.

Lemma fmt_encode_length f : forall v, length (fmt_encode f v) = fmt_len f.
Proof.
  induction f as [|[k|k] t IH]; intros v; cbn [fmt_encode fmt_len fld_len]; [reflexivity| |].
  - destruct v; rewrite app_length, be_length, IH; reflexivity.
  - rewrite app_length, be_length, IH. reflexivity.
Qed.

Lemma fmt_read_enc f : forall v rest, wf_vals f v -> fmt_read f (fmt_encode f v ++ rest) = Ok (v, rest).
Proof.
  induction f as [|[k|k] t IH]; intros v rest W; cbn [fmt_encode fmt_read wf_vals] in *.
  - subst v. reflexivity.
  - destruct v as [|x vs]; [contradiction|]. destruct W as [Hx W].
    rewrite <- app_assoc, wordP_be_small by exact Hx. cbn [bind]. rewrite IH by exact W. reflexivity.
  - rewrite <- app_assoc, wordP_be_small by apply pow256_pos. cbn [bind]. now apply IH.
Qed.

Lemma fmt_dec_enc f v rest : wf_vals f v -> fmt_decode f (fmt_encode f v ++ rest) = Ok (v, rest).
Proof.
  intros W. unfold fmt_decode.
  rewrite ltb_false by (rewrite app_length, fmt_encode_length; lia).
  now apply fmt_read_enc.
Qed.

Lemma fmt_read_inv f : forall bs v rest, wf_bytes bs -> fmt_read f bs = Ok (v, rest) ->
  fmt_encode f v ++ rest = fmt_mask f bs /\ wf_vals f v /\ wf_bytes rest /\
  length bs = (fmt_len f + length rest)%nat.
Proof.
  induction f as [|[k|k] t IH]; intros bs v rest W; cbn [fmt_read fmt_encode fmt_mask wf_vals fmt_len fld_len].
  - intros H; injection H as <- <-. auto.
  - destruct (wordP k bs) as [[x r]| |] eqn:E; cbn [bind]; try discriminate.
    apply (wordP_inv _ _ _ _ W) in E as (-> & Hx & Wr).
    destruct (fmt_read t r) as [[vs r']| |] eqn:Er; cbn [bind]; try discriminate.
    intros H; injection H as <- <-.
    destruct (IH _ _ _ Wr Er) as (M & Wv & Wr' & L).
    rewrite firstn_app_exact by apply be_length. rewrite skipn_app_exact by apply be_length.
    rewrite <- app_assoc, M. repeat split; try assumption.
    rewrite app_length, be_length. lia.
  - destruct (wordP k bs) as [[x r]| |] eqn:E; cbn [bind]; try discriminate.
    apply (wordP_inv _ _ _ _ W) in E as (-> & Hx & Wr).
    intros Er. destruct (IH _ _ _ Wr Er) as (M & Wv & Wr' & L).
    rewrite skipn_app_exact by apply be_length.
    rewrite <- app_assoc, M, be_zero. repeat split; try assumption.
    rewrite app_length, be_length. lia.
Qed.

Lemma fmt_read_total f : forall bs, (fmt_len f <= length bs)%nat ->
  exists v rest, fmt_read f bs = Ok (v, rest).
Proof.
  induction f as [|[k|k] t IH]; intros bs L; cbn [fmt_read fmt_len fld_len] in *.
  - eauto.
  - destruct (wordP k bs) as [[x r]| |] eqn:E; cbn [bind].
    + apply wordP_rest_length in E. destruct (IH r) as (vs & r' & Er); [lia|].
      rewrite Er. cbn [bind]. eauto.
    + now apply wordP_not_err in E.
    + apply wordP_panic in E. lia.
  - destruct (wordP k bs) as [[x r]| |] eqn:E; cbn [bind].
    + apply wordP_rest_length in E. apply IH. lia.
    + now apply wordP_not_err in E.
    + apply wordP_panic in E. lia.
Qed.

Lemma fmt_decode_no_panic f bs : fmt_decode f bs <> Panic.
Proof.
  unfold fmt_decode. destruct (Nat.ltb (length bs) (fmt_len f)) eqn:L; [discriminate|].
  apply Nat.ltb_ge in L. destruct (fmt_read_total f bs L) as (v & r & ->). discriminate.
Qed.

Lemma fmt_decode_err_iff f bs : fmt_decode f bs = Err <-> (length bs < fmt_len f)%nat.
Proof.
  unfold fmt_decode. destruct (Nat.ltb (length bs) (fmt_len f)) eqn:L.
  - apply Nat.ltb_lt in L. tauto.
  - apply Nat.ltb_ge in L. destruct (fmt_read_total f bs L) as (v & r & ->).
    split; [discriminate | lia].
Qed.

Lemma fmt_enc_dec f bs v rest : wf_bytes bs -> fmt_decode f bs = Ok (v, rest) ->
  fmt_encode f v ++ rest = fmt_mask f bs /\ wf_vals f v /\ wf_bytes rest /\
  length bs = (fmt_len f + length rest)%nat.
Proof.
  intros W. unfold fmt_decode. destruct (Nat.ltb (length bs) (fmt_len f)); [discriminate|].
  now apply fmt_read_inv.
Qed.

(** a layout without reserved bytes round-trips exactly *)
Fixpoint no_rsv (f : fmt) : bool :=
  match f with [] => true | F _ :: t => no_rsv t | R _ :: _ => false end.

Lemma fmt_mask_no_rsv f : no_rsv f = true -> forall bs, fmt_mask f bs = bs.
Proof.
  induction f as [|[k|k] t IH]; intros H bs; cbn [fmt_mask no_rsv] in *; try discriminate; [reflexivity|].
  rewrite IH by exact H. apply firstn_skipn.
Qed.

Lemma wf_valsb_spec f : forall v, wf_valsb f v = true <-> wf_vals f v.
Proof.
  induction f as [|[k|k] t IH]; intros v; cbn [wf_valsb wf_vals].
  - destruct v; split; congruence.
  - destruct v as [|x vs]; [split; [discriminate | contradiction]|].
    rewrite andb_true_iff, IH, N.ltb_lt. reflexivity.
  - apply IH.
Qed.

(** ------------------------------------------------------------ SCMP *)
Lemma scmp_dec_enc b m rest : wf_scmp b m ->
  scmp_decode (scmp_encode b m ++ rest) = Ok (b, m, rest).
Proof.
  intros [Wb Wm]. unfold scmp_decode, scmp_encode. rewrite <- app_assoc.
  rewrite fmt_dec_enc by exact Wb. cbn [bind].
  destruct (scmp_msg_fmt (hd 0 b)) as [f|].
  - rewrite fmt_dec_enc by exact Wm. reflexivity.
  - subst m. reflexivity.
Qed.

Lemma scmp_base_hd bs b r : wf_bytes bs -> fmt_decode scmp_base_fmt bs = Ok (b, r) ->
  hd 0 b = hd 0 bs /\ firstn 4 bs = fmt_encode scmp_base_fmt b /\ r = skipn 4 bs.
Proof.
  intros W E. destruct (fmt_enc_dec _ _ _ _ W E) as (M & Wv & Wr & L).
  rewrite fmt_mask_no_rsv in M by reflexivity. subst bs.
  pose proof (fmt_encode_length scmp_base_fmt b) as Le. cbn in Le.
  rewrite firstn_app_exact by exact Le. rewrite skipn_app_exact by exact Le.
  split; [|auto].
  destruct b as [|t [|c [|s [|]]]]; cbn in Wv; try (exfalso; intuition congruence).
  destruct Wv as (Ht & _).
  cbn [fmt_encode scmp_base_fmt hd app]. rewrite be_1. cbn [hd app].
  symmetry. apply N.mod_small. exact Ht.
Qed.

Lemma scmp_enc_dec bs b m rest : wf_bytes bs -> scmp_decode bs = Ok (b, m, rest) ->
  scmp_encode b m ++ rest = scmp_mask bs /\ wf_scmp b m /\ wf_bytes rest.
Proof.
  intros W. unfold scmp_decode.
  destruct (fmt_decode scmp_base_fmt bs) as [[b' r]| |] eqn:Eb; cbn [bind]; try discriminate.
  destruct (scmp_base_hd _ _ _ W Eb) as (Hhd & Hfirst & Hr).
  destruct (fmt_enc_dec _ _ _ _ W Eb) as (_ & Wb & Wr & _).
  unfold scmp_encode, scmp_mask, wf_scmp. rewrite <- Hhd.
  destruct (scmp_msg_fmt (hd 0 b')) as [f|] eqn:Ef.
  - destruct (fmt_decode f r) as [[m' r']| |] eqn:Em; cbn [bind]; try discriminate.
    intros H; injection H as <- <- <-. rewrite Ef.
    destruct (fmt_enc_dec _ _ _ _ Wr Em) as (M & Wm & Wr' & _).
    rewrite <- app_assoc, M, Hfirst, Hr. auto.
  - intros H; injection H as <- <- <-. rewrite Ef.
    rewrite app_nil_r, Hfirst, Hr. subst r. auto.
Qed.

Lemma scmp_no_panic bs : scmp_decode bs <> Panic.
Proof.
  unfold scmp_decode. pose proof (fmt_decode_no_panic scmp_base_fmt bs).
  destruct (fmt_decode scmp_base_fmt bs) as [[b r]| |]; cbn [bind]; try congruence.
  destruct (scmp_msg_fmt (hd 0 b)) as [f|]; [|discriminate].
  pose proof (fmt_decode_no_panic f r).
  destruct (fmt_decode f r) as [[m r']| |]; cbn [bind]; congruence.
Qed.

(** a message shorter than its type's fixed size is rejected *)
Lemma scmp_reject_short bs b r f : fmt_decode scmp_base_fmt bs = Ok (b, r) ->
  scmp_msg_fmt (hd 0 b) = Some f -> (length r < fmt_len f)%nat -> scmp_decode bs = Err.
Proof.
  intros Eb Ef L. unfold scmp_decode. rewrite Eb. cbn [bind]. rewrite Ef.
  apply fmt_decode_err_iff in L. rewrite L. reflexivity.
Qed.

(** ------------------------------------------------------------ UDP *)
Lemma udp_vals v : wf_vals udp_fmt v -> exists s d l c, v = [s; d; l; c] /\
  s < 65536 /\ d < 65536 /\ l < 65536 /\ c < 65536.
Proof.
  destruct v as [|s [|d [|l [|c [|x t]]]]]; cbn; try tauto.
  - intros (Hs & Hd & Hl & Hc & _). exists s, d, l, c. auto.
  - intros (_ & _ & _ & _ & H). discriminate.
Qed.

Lemma udp_encode_len_field v rest : wf_vals udp_fmt v ->
  unbe (firstn 2 (skipn 4 (fmt_encode udp_fmt v ++ rest))) = nth 2 v 0.
Proof.
  intros W. destruct (udp_vals v W) as (s & d & l & c & -> & Hs & Hd & Hl & Hc).
  cbn [fmt_encode udp_fmt]. rewrite <- !app_assoc.
  change 4%nat with (length (be 2 s ++ be 2 d)).
  rewrite (app_assoc (be 2 s)). rewrite skipn_app_exact by reflexivity.
  rewrite firstn_app_exact by apply be_length. cbn [nth]. now apply unbe_be_small.
Qed.

(** decoding what was serialized (no FixLengths): Length = 0 or Length = 8 + len(payload) *)
Lemma udp_dec_enc v payload : wf_vals udp_fmt v ->
  (nth 2 v 0 = 0 \/ nth 2 v 0 = N.of_nat (8 + length payload)) ->
  udp_decode (udp_encode false 0 v ++ payload) = Ok (v, payload, false).
Proof.
  intros W HL. unfold udp_decode, udp_encode. rewrite fmt_dec_enc by exact W. cbn [bind].
  destruct HL as [-> | ->].
  - cbn. reflexivity.
  - replace (8 <=? N.of_nat (8 + length payload)) with true by (symmetry; apply N.leb_le; lia).
    rewrite Nat2N.id.
    rewrite ltb_false by (rewrite app_length, fmt_encode_length; cbn; lia).
    replace (8 + length payload - 8)%nat with (length payload) by lia. now rewrite firstn_all.
Qed.

(** with FixLengths the serializer sets Length itself *)
Lemma udp_dec_enc_fix v payload : wf_vals udp_fmt v ->
  let total := N.of_nat (8 + length payload) in
  wf_vals udp_fmt (udp_fix total v) /\
  udp_decode (udp_encode true total v ++ payload) = Ok (udp_fix total v, payload, false).
Proof.
  intros W total. destruct (udp_vals v W) as (s & d & l & c & -> & Hs & Hd & Hl & Hc).
  assert (W' : wf_vals udp_fmt (udp_fix total [s; d; l; c])).
  { cbn [udp_fix]. destruct (65535 <? total) eqn:E; cbn; repeat split; try assumption; lia. }
  split; [exact W'|].
  replace (udp_encode true total [s; d; l; c]) with (udp_encode false 0 (udp_fix total [s; d; l; c]))
    by reflexivity.
  apply udp_dec_enc; [exact W'|].
  cbn [udp_fix nth]. destruct (65535 <? total); auto.
Qed.

Lemma udp_enc_dec bs v payload tr : wf_bytes bs -> udp_decode bs = Ok (v, payload, tr) ->
  udp_encode false 0 v ++ payload = udp_covered bs /\ wf_vals udp_fmt v /\ wf_bytes payload /\
  (tr = true <-> udp_overlong bs = true).
Proof.
  intros W. unfold udp_decode.
  destruct (fmt_decode udp_fmt bs) as [[v' r]| |] eqn:E; cbn [bind]; try discriminate.
  destruct (fmt_enc_dec _ _ _ _ W E) as (M & Wv & Wr & L).
  rewrite fmt_mask_no_rsv in M by reflexivity. cbn [fmt_len udp_fmt fld_len] in L.
  pose proof (udp_encode_len_field v' r Wv) as Hlen. rewrite M in Hlen.
  unfold udp_covered, udp_overlong, udp_encode. rewrite Hlen.
  destruct (udp_vals v' Wv) as (s & d & l & c & Ev & Hs & Hd & Hl & Hc). rewrite Ev in *.
  cbn [nth] in *.
  replace (Nat.leb 8 (length bs)) with true by (symmetry; apply Nat.leb_le; lia). cbn [andb].
  destruct (8 <=? l) eqn:E8.
  - apply N.leb_le in E8. replace (l =? 0) with false by (symmetry; apply N.eqb_neq; lia).
    destruct (Nat.ltb (length bs) (N.to_nat l)) eqn:Lt.
    + apply Nat.ltb_lt in Lt. intros H; injection H as <- <- <-.
      rewrite firstn_all2 by lia. rewrite M.
      repeat split; try assumption; try reflexivity; intros _; apply N.ltb_lt; lia.
    + apply Nat.ltb_ge in Lt. intros H; injection H as <- <- <-.
      rewrite <- M. pose proof (fmt_encode_length udp_fmt [s; d; l; c]) as Le.
      change (fmt_len udp_fmt) with 8%nat in Le.
      rewrite firstn_app. rewrite (firstn_all2 (fmt_encode udp_fmt [s; d; l; c])) by lia. rewrite Le.
      split; [reflexivity|]. split; [assumption|]. split; [now apply wf_bytes_firstn|].
      split; [discriminate|]. intros H. apply N.ltb_lt in H. rewrite M in H. lia.
  - apply N.leb_gt in E8. destruct (l =? 0) eqn:E0; [|discriminate].
    intros H; injection H as <- <- <-. rewrite M.
    apply N.eqb_eq in E0.
    repeat split; try assumption; try discriminate. intros H. apply N.ltb_lt in H. lia.
Qed.

Lemma udp_no_panic bs : udp_decode bs <> Panic.
Proof.
  unfold udp_decode. pose proof (fmt_decode_no_panic udp_fmt bs).
  destruct (fmt_decode udp_fmt bs) as [[v r]| |]; cbn [bind]; try congruence.
  destruct (8 <=? nth 2 v 0); [destruct (Nat.ltb _ _); discriminate|].
  destruct (nth 2 v 0 =? 0); discriminate.
Qed.

(** the known deviation: a Length field that exceeds the data is accepted *)
Lemma udp_overlong_accepted : exists bs, udp_overlong bs = true /\ is_ok (udp_decode bs) = true.
Proof. exists [0;1;0;2;0;100;0;0;7]. vm_compute. auto. Qed.
