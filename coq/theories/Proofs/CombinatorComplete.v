(** Completeness of the combinator model w.r.t. the declarative specification,
    for segments as beaconing produces them ([wf_input]): every piece / half of
    the specification is an edge that AddEdge leaves in the graph, every valid
    combination that passes no AS more than twice is a chain of the graph. *)
From Coq Require Import List NArith Bool Arith Lia.
From Scion Require Import Lib.Check Model.Segment Model.CombSpec Model.Combinator.
From Scion Require Import Proofs.CombinatorGraph Proofs.CombinatorRender Proofs.CombinatorFilter
  Proofs.CombinatorPaths Proofs.CombinatorIfs Proofs.CombSpec Proofs.CombinatorSpec.
Import ListNotations.
Import Segment Combinator.
Local Open Scope N_scope.

(** ---- well-formed segments, as propositions ---- *)
Lemma nodupb_index {A B} (eqb : B -> B -> bool) (f : A -> B) (l : list A) :
  (forall x y, eqb x y = true <-> x = y) ->
  nodupb eqb (map f l) = true ->
  forall i j a b, nth_error l i = Some a -> nth_error l j = Some b -> f a = f b -> i = j.
Proof.
  intros Heq. induction l as [|x l IH]; intros Hn i j a b Hi Hj E.
  - destruct i; discriminate.
  - cbn in Hn. apply andb_true_iff in Hn as [Hx Hn]. apply negb_true_iff in Hx.
    assert (Hno : forall k c, nth_error l k = Some c -> f x <> f c).
    { intros k c Hk Ef. assert (T : existsb (eqb (f x)) (map f l) = true).
      { apply existsb_exists. exists (f c). split; [apply in_map; eapply nth_error_In; exact Hk | now apply Heq]. }
      congruence. }
    destruct i as [|i], j as [|j]; cbn in Hi, Hj.
    + reflexivity.
    + inversion Hi; subst. exfalso. eapply Hno; eauto.
    + inversion Hj; subst. exfalso. eapply Hno; eauto.
    + f_equal. eapply IH; eauto.
Qed.

Lemma peer_key_eqb_eq a b : peer_key_eqb a b = true <-> a = b.
Proof.
  destruct a as [[a1 a2] a3], b as [[b1 b2] b3]. cbn. rewrite !andb_true_iff, !N.eqb_eq. split.
  - intros [[-> ->] ->]. reflexivity.
  - intros E. inversion E. auto.
Qed.

Record wf_seg (s : segment) : Prop := {
  ws_valid : validate s = true;
  ws_ia : forall a, In a (sg_entries s) -> ae_ia a <> 0;
  ws_nodup : forall i j a b, nth_error (sg_entries s) i = Some a -> nth_error (sg_entries s) j = Some b ->
             ae_ia a = ae_ia b -> i = j;
  ws_inner : inner_ifs_ok true (sg_entries s) = true;
  ws_pkeys : forall a, In a (sg_entries s) -> forall k l p q,
             nth_error (ae_peers a) k = Some p -> nth_error (ae_peers a) l = Some q ->
             peer_key p = peer_key q -> k = l;
  ws_pin : forall a p, In a (sg_entries s) -> In p (ae_peers a) -> h_in (pe_hop p) <> 0
}.

Lemma wf_segment_props s : wf_segment s = true -> wf_seg s.
Proof.
  unfold wf_segment. intros H.
  apply andb_true_iff in H as [H H6]. apply andb_true_iff in H as [H H5].
  apply andb_true_iff in H as [H H4]. apply andb_true_iff in H as [H H3].
  apply andb_true_iff in H as [H1 H2].
  rewrite forallb_forall in H2, H5, H6. split.
  - exact H1.
  - intros a Ha. specialize (H2 a Ha). apply negb_true_iff in H2. now apply N.eqb_neq.
  - apply (nodupb_index N.eqb ae_ia); [apply N.eqb_eq | exact H3].
  - exact H4.
  - intros a Ha. apply (nodupb_index peer_key_eqb peer_key); [apply peer_key_eqb_eq | now apply H5].
  - intros a p Ha Hp. specialize (H6 a Ha). rewrite forallb_forall in H6. specialize (H6 p Hp).
    apply negb_true_iff in H6. now apply N.eqb_neq.
Qed.

Definition wf_all (ups cores downs : list (N * segment)) : Prop :=
  (forall s, In s (insegs ups cores downs) -> wf_seg (is_seg s)) /\
  (forall c, In c (segs_of cores) -> (2 <= length (sg_entries c))%nat).

Lemma wf_input_all ups cores downs :
  wf_input (segs_of ups) (segs_of cores) (segs_of downs) = true -> wf_all ups cores downs.
Proof.
  unfold wf_input. intros H. apply andb_true_iff in H as [H Hd]. apply andb_true_iff in H as [Hu Hc].
  rewrite forallb_forall in Hu, Hc, Hd. split.
  - intros s Hs. apply insegs_seg_in in Hs. apply wf_segment_props. destruct (is_ty s); auto.
    specialize (Hc _ Hs). unfold wf_core in Hc. now apply andb_true_iff in Hc as [Hc _].
  - intros c Hin. specialize (Hc c Hin). unfold wf_core in Hc. apply andb_true_iff in Hc as [_ Hc].
    now apply Nat.leb_le.
Qed.

Lemma wf_seg_of ups cores downs (l : list (N * segment)) ty i x :
  wf_all ups cores downs ->
  In (mkIn ty i (fst x) (snd x)) (insegs ups cores downs) -> wf_seg (snd x).
Proof. intros [W _] H. exact (W _ H). Qed.

(** ---- AddEdge never replaces an edge of a well-formed input ---- *)
Lemma v_ia_peer x a i b j : v_ia x = v_peer a i b j -> x = 0 /\ a = 0 /\ b = 0.
Proof. unfold v_ia, v_peer. intros H. inversion H. auto. Qed.

Lemma v_peer_inj a i b j a' i' b' j' :
  v_peer a i b j = v_peer a' i' b' j' -> a = a' /\ i = i' /\ b = b' /\ j = j'.
Proof. unfold v_peer. intros H. inversion H. auto. Qed.

Lemma v_rev_inj v w : v_rev v = v_rev w -> v = w.
Proof.
  destruct v as [[[[v1 v2] v3] v4] v5], w as [[[[w1 w2] w3] w4] w5]. cbn. intros H. now inversion H.
Qed.

(** the vertex a tuple is attached to besides the pinned AS *)
Definition tuple_vertex (s : inseg) (e : edge) : vertex :=
  match is_ty s with Down => v_rev (e_src e) | _ => e_dst e end.

Lemma tuple_vertex_mk s pinned n idx v k :
  is_ty s <> CoreT -> tuple_vertex s (mk_tuple s pinned n idx v k) = v.
Proof.
  intros T. unfold tuple_vertex, mk_tuple. destruct (is_ty s); try contradiction; cbn.
  - reflexivity.
  - destruct v as [[[[v1 v2] v3] v4] v5]. reflexivity.
Qed.

Lemma tuple_unique s e e' :
  wf_seg (is_seg s) -> tuple_of s e -> tuple_of s e' ->
  e_src e = e_src e' -> e_dst e = e_dst e' -> e' = e.
Proof.
  intros W Ht Ht' Es Ed.
  assert (Ev : tuple_vertex s e = tuple_vertex s e') by (unfold tuple_vertex; now rewrite Es, Ed).
  inversion Ht as [T | idx a T Ha Hn | idx a k p T Ha Hp];
  inversion Ht' as [T' | idx' a' T' Ha' Hn' | idx' a' k' p' T' Ha' Hp']; subst e e'; try contradiction.
  - reflexivity.
  - rewrite !tuple_vertex_mk in Ev by assumption. apply v_ia_inj in Ev.
    assert (idx = idx') by (eapply (ws_nodup _ W); eauto). subst idx'.
    rewrite Ha in Ha'. inversion Ha'; subst a'. reflexivity.
  - rewrite !tuple_vertex_mk in Ev by assumption. apply v_ia_peer in Ev as [E0 _].
    exfalso. eapply (ws_ia _ W); [eapply nth_error_In; exact Ha | exact E0].
  - rewrite !tuple_vertex_mk in Ev by assumption. symmetry in Ev. apply v_ia_peer in Ev as [E0 _].
    exfalso. eapply (ws_ia _ W); [eapply nth_error_In; exact Ha' | exact E0].
  - rewrite !tuple_vertex_mk in Ev by assumption. apply v_peer_inj in Ev as [E1 [E2 [E3 E4]]].
    assert (idx = idx') by (eapply (ws_nodup _ W); eauto). subst idx'.
    rewrite Ha in Ha'. inversion Ha'; subst a'.
    assert (k = k').
    { eapply (ws_pkeys _ W a); [eapply nth_error_In; exact Ha | exact Hp | exact Hp' |].
      unfold peer_key. congruence. }
    subst k'. rewrite Hp in Hp'. inversion Hp'; subst p'. reflexivity.
Qed.

Lemma tuple_in_build ups cores downs s e :
  wf_all ups cores downs -> In s (insegs ups cores downs) -> tuple_of s e ->
  In e (build (insegs ups cores downs)).
Proof.
  intros W Hs Ht. apply in_tuples_build.
  - apply in_all_tuples. eauto.
  - intros e' He' K. apply in_all_tuples in He' as [s' [Hs' Ht']].
    unfold same_key in K. apply andb_true_iff in K as [K K3]. apply andb_true_iff in K as [K1 K2].
    apply vertex_eqb_eq in K1, K2. rewrite (tuple_seg _ _ Ht), (tuple_seg _ _ Ht') in K3.
    assert (s = s') by (eapply insegs_unique; eauto). subst s'.
    eapply tuple_unique; eauto. destruct W as [W _]. now apply W.
Qed.

(** ---- the edge of a piece / half ---- *)
Section Pieces.
Variables ups cores downs : list (N * segment).
Hypothesis W : wf_all ups cores downs.
Let segs := insegs ups cores downs.

Lemma inseg_of_up u : In u (segs_of ups) -> exists s, In s segs /\ is_ty s = Up /\ is_seg s = u.
Proof.
  intros H. apply segs_of_inseg in H as [i [x [H E]]]. exists (mkIn Up i (fst x) (snd x)).
  split; [apply in_insegs; left; eauto | split; [reflexivity | exact E]].
Qed.
Lemma inseg_of_core u : In u (segs_of cores) -> exists s, In s segs /\ is_ty s = CoreT /\ is_seg s = u.
Proof.
  intros H. apply segs_of_inseg in H as [i [x [H E]]]. exists (mkIn CoreT i (fst x) (snd x)).
  split; [apply in_insegs; right; left; eauto | split; [reflexivity | exact E]].
Qed.
Lemma inseg_of_down u : In u (segs_of downs) -> exists s, In s segs /\ is_ty s = Down /\ is_seg s = u.
Proof.
  intros H. apply segs_of_inseg in H as [i [x [H E]]]. exists (mkIn Down i (fst x) (snd x)).
  split; [apply in_insegs; right; right; eauto | split; [reflexivity | exact E]].
Qed.

Lemma first_zero s idx a :
  wf_seg (is_seg s) -> nth_error (sg_entries (is_seg s)) idx = Some a -> idx = O -> h_in (ae_hop a) = 0.
Proof.
  intros Ws Ha ->. apply nth0_first in Ha as [t Et]. eapply validate_first_zero; [apply (ws_valid _ Ws) | exact Et].
Qed.

Lemma up_piece_edge u p :
  In u (segs_of ups) -> up_piece u p ->
  exists e, In e (build segs) /\ ety e = Up /\ e_src e = v_ia (pc_from p) /\
            e_dst e = v_ia (pc_to p) /\ edge_ifs e = pc_ifs p.
Proof.
  intros Hu Hp. destruct (inseg_of_up u Hu) as [s [Hs [Ty Eu]]]. subst u.
  pose proof (proj1 W s Hs) as Ws.
  inversion Hp as [idx c Hc Hl]; subst p.
  set (e := mk_tuple s (last_ia (is_seg s)) (length (sg_entries (is_seg s))) idx (v_ia (ae_ia c)) 0).
  assert (Ht : tuple_of s e) by (apply TReg; [congruence | exact Hc | lia]).
  exists e. split; [eapply tuple_in_build; eauto|]. unfold e, ety. rewrite mk_tuple_seg.
  split; [exact Ty|]. unfold mk_tuple. rewrite Ty. cbn [e_src e_dst pc_from pc_to pc_ifs].
  split; [reflexivity|]. split; [reflexivity|].
  unfold edge_ifs, is_down. cbn [e_seg]. rewrite Ty. cbn [segtype_eqb].
  rewrite (trav_ifs_reg _ c); unfold entries; cbn [e_seg e_sc e_peer]; auto.
  intros E0. eapply first_zero; eauto.
Qed.

Lemma core_piece_edge c p :
  In c (segs_of cores) -> core_piece c p ->
  exists e, In e (build segs) /\ ety e = CoreT /\ e_src e = v_ia (pc_from p) /\
            e_dst e = v_ia (pc_to p) /\ edge_ifs e = pc_ifs p.
Proof.
  intros Hu Hp. destruct (inseg_of_core c Hu) as [s [Hs [Ty Eu]]]. subst c.
  inversion Hp as [Hne]; subst p.
  set (e := mkEdge (v_ia (last_ia (is_seg s))) (v_ia (first_ia (is_seg s))) s
                   (N.of_nat (length (sg_entries (is_seg s)) - 1)) 0 0).
  assert (Ht : tuple_of s e) by (now apply TCore).
  exists e. split; [eapply tuple_in_build; eauto|]. unfold e, ety. cbn [e_seg e_src e_dst pc_from pc_to pc_ifs].
  split; [exact Ty|]. split; [reflexivity|]. split; [reflexivity|].
  unfold edge_ifs, is_down. cbn [e_seg]. rewrite Ty. cbn [segtype_eqb].
  destruct (sg_entries (is_seg s)) as [|a t] eqn:Ees; [contradiction|].
  erewrite trav_ifs_core; [ | | reflexivity | reflexivity].
  - unfold entries. cbn [e_seg]. now rewrite Ees.
  - unfold entries. cbn [e_seg]. exact Ees.
Qed.

Lemma down_piece_edge d p :
  In d (segs_of downs) -> down_piece d p ->
  exists e, In e (build segs) /\ ety e = Down /\ e_src e = v_ia (pc_from p) /\
            e_dst e = v_ia (pc_to p) /\ edge_ifs e = pc_ifs p.
Proof.
  intros Hu Hp. destruct (inseg_of_down d Hu) as [s [Hs [Ty Eu]]]. subst d.
  pose proof (proj1 W s Hs) as Ws.
  inversion Hp as [idx c Hc Hl]; subst p.
  set (e := mk_tuple s (last_ia (is_seg s)) (length (sg_entries (is_seg s))) idx (v_ia (ae_ia c)) 0).
  assert (Ht : tuple_of s e) by (apply TReg; [congruence | exact Hc | lia]).
  exists e. split; [eapply tuple_in_build; eauto|]. unfold e, ety. rewrite mk_tuple_seg.
  split; [exact Ty|]. unfold mk_tuple. rewrite Ty. cbn [e_src e_dst pc_from pc_to pc_ifs].
  split; [reflexivity|]. split; [reflexivity|].
  unfold edge_ifs, is_down. cbn [e_seg]. rewrite Ty. cbn [segtype_eqb].
  rewrite (trav_ifs_reg _ c); unfold entries; cbn [e_seg e_sc e_peer]; auto.
  - rewrite rev_app_distr, rev_nz, rev_walk_bwd. reflexivity.
  - intros E0. eapply first_zero; eauto.
Qed.

Lemma up_half_edge u x :
  In u (segs_of ups) -> up_half u x ->
  exists e, In e (build segs) /\ ety e = Up /\ e_src e = v_ia (hf_end x) /\
            e_dst e = vlink (hf_link x) /\ edge_ifs e = hf_ifs x /\ fst (fst (fst (hf_link x))) <> 0.
Proof.
  intros Hu Hx. destruct (inseg_of_up u Hu) as [s [Hs [Ty Eu]]]. subst u.
  pose proof (proj1 W s Hs) as Ws.
  inversion Hx as [idx c k p Hc Hp]; subst x.
  set (e := mk_tuple s (last_ia (is_seg s)) (length (sg_entries (is_seg s))) idx
                     (v_peer (ae_ia c) (h_in (pe_hop p)) (pe_ia p) (pe_if p)) (S k)).
  assert (Ht : tuple_of s e) by (eapply TPeer; [congruence | exact Hc | exact Hp]).
  exists e. split; [eapply tuple_in_build; eauto|]. unfold e, ety. rewrite mk_tuple_seg.
  split; [exact Ty|]. unfold mk_tuple. rewrite Ty. cbn [e_src e_dst hf_end hf_link hf_ifs vlink fst].
  split; [reflexivity|]. split; [reflexivity|]. split.
  - unfold edge_ifs, is_down. cbn [e_seg]. rewrite Ty. cbn [segtype_eqb].
    rewrite (trav_ifs_peer _ c k p); unfold entries; cbn [e_seg e_sc e_peer]; auto.
  - apply (ws_ia _ Ws). eapply nth_error_In; exact Hc.
Qed.

Lemma down_half_edge d y :
  In d (segs_of downs) -> down_half d y ->
  exists e, In e (build segs) /\ ety e = Down /\ e_src e = vlink (hf_link y) /\
            e_dst e = v_ia (hf_end y) /\ edge_ifs e = hf_ifs y.
Proof.
  intros Hu Hy. destruct (inseg_of_down d Hu) as [s [Hs [Ty Eu]]]. subst d.
  pose proof (proj1 W s Hs) as Ws.
  inversion Hy as [idx c k p Hc Hp]; subst y.
  set (e := mk_tuple s (last_ia (is_seg s)) (length (sg_entries (is_seg s))) idx
                     (v_peer (ae_ia c) (h_in (pe_hop p)) (pe_ia p) (pe_if p)) (S k)).
  assert (Ht : tuple_of s e) by (eapply TPeer; [congruence | exact Hc | exact Hp]).
  exists e. split; [eapply tuple_in_build; eauto|]. unfold e, ety. rewrite mk_tuple_seg.
  split; [exact Ty|]. unfold mk_tuple. rewrite Ty. cbn [e_src e_dst hf_end hf_link hf_ifs vlink fst].
  split; [reflexivity|]. split; [reflexivity|].
  unfold edge_ifs, is_down. cbn [e_seg]. rewrite Ty. cbn [segtype_eqb].
  rewrite (trav_ifs_peer _ c k p); unfold entries; cbn [e_seg e_sc e_peer]; auto.
  rewrite rev_app_distr, rev_hop_bwd, rev_walk_bwd. reflexivity.
Qed.

End Pieces.
