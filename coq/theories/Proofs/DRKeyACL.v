(** Lemmas about Model/DRKeyACL.v *)
From Coq Require Import List NArith ZArith Bool Lia.
From Scion Require Import Lib.Check Model.DRKeyACL.
Import ListNotations.
Import DRKeyACL.
Local Open Scope N_scope.

Lemma bytes_eqb_refl l : bytes_eqb l l = true.
Proof. now apply bytes_eqb_eq. Qed.

Lemma bytes_eqb_neq l1 l2 : bytes_eqb l1 l2 = false <-> l1 <> l2.
Proof.
  split.
  - intros H E. apply bytes_eqb_eq in E. congruence.
  - intros H. destruct (bytes_eqb l1 l2) eqn:E; [apply bytes_eqb_eq in E; contradiction | reflexivity].
Qed.

Lemma valid_ipb_spec a : valid_ipb a = true <-> (length a = 4 \/ length a = 16)%nat.
Proof.
  unfold valid_ipb. rewrite orb_true_iff, !Nat.eqb_eq. tauto.
Qed.

Lemma split12 (a b : ip) : firstn 12 a = firstn 12 b -> skipn 12 a = skipn 12 b -> a = b.
Proof.
  intros F S. rewrite <- (firstn_skipn 12 a), <- (firstn_skipn 12 b). now rewrite F, S.
Qed.

Lemma skipn12_len (a : ip) : length a = 16%nat -> length (skipn 12 a) = 4%nat.
Proof. intros H. rewrite skipn_length, H. reflexivity. Qed.

Lemma is_mapped_len a : is_mapped a = true -> length a = 16%nat.
Proof. unfold is_mapped. intros H. apply andb_true_iff in H as [H _]. now apply Nat.eqb_eq. Qed.

Lemma canon_len4 a : length a = 4%nat -> canon a = a.
Proof.
  intros H. unfold canon, is_mapped. rewrite H. reflexivity.
Qed.

Lemma canon_len16 a : length a = 16%nat ->
  canon a = if bytes_eqb (firstn 12 a) v4in6_prefix then skipn 12 a else a.
Proof. intros H. unfold canon, is_mapped. rewrite H. reflexivity. Qed.

(** on IP addresses, Go's [net.IP.Equal] decides "same host" *)
Lemma ip_equal_same_host a b :
  valid_ipb a = true -> (ip_equal a b = true <-> same_host a b).
Proof.
  intros Va. unfold same_host. pose proof Va as Va'. apply valid_ipb_spec in Va'.
  split.
  - intros E. unfold ip_equal in E.
    destruct (Nat.eqb (length a) (length b)) eqn:L.
    + apply bytes_eqb_eq in E. subst b. auto.
    + apply Nat.eqb_neq in L.
      destruct Va' as [A|A]; rewrite A in E; cbn [Nat.eqb andb] in E.
      * destruct (Nat.eqb (length b) 16) eqn:B; [|discriminate].
        apply Nat.eqb_eq in B. apply andb_true_iff in E as [P S].
        apply bytes_eqb_eq in S.
        split; [assumption|]. split; [apply valid_ipb_spec; now right|].
        rewrite (canon_len4 a A), (canon_len16 b B), P. exact S.
      * destruct (Nat.eqb (length b) 4) eqn:B; [|discriminate].
        apply Nat.eqb_eq in B. apply andb_true_iff in E as [P S].
        apply bytes_eqb_eq in S.
        split; [assumption|]. split; [apply valid_ipb_spec; now left|].
        rewrite (canon_len4 b B), (canon_len16 a A), P. exact S.
  - intros (_ & Vb & C). apply valid_ipb_spec in Vb. unfold ip_equal.
    destruct Va' as [A|A], Vb as [B|B].
    + rewrite A, B. cbn [Nat.eqb]. rewrite (canon_len4 a A), (canon_len4 b B) in C.
      subst. apply bytes_eqb_refl.
    + rewrite A, B. cbn [Nat.eqb andb]. rewrite (canon_len4 a A), (canon_len16 b B) in C.
      destruct (bytes_eqb (firstn 12 b) v4in6_prefix) eqn:P; cbn [andb].
      * subst a. apply bytes_eqb_refl.
      * subst a. rewrite A in B. discriminate.
    + rewrite A, B. cbn [Nat.eqb andb]. rewrite (canon_len16 a A), (canon_len4 b B) in C.
      destruct (bytes_eqb (firstn 12 a) v4in6_prefix) eqn:P; cbn [andb].
      * subst b. apply bytes_eqb_refl.
      * subst a. rewrite A in B. discriminate.
    + rewrite A, B. cbn [Nat.eqb]. rewrite (canon_len16 a A), (canon_len16 b B) in C.
      destruct (bytes_eqb (firstn 12 a) v4in6_prefix) eqn:P,
               (bytes_eqb (firstn 12 b) v4in6_prefix) eqn:Q.
      * apply bytes_eqb_eq in P, Q. apply bytes_eqb_eq. apply split12; congruence.
      * pose proof (skipn12_len a A) as H. rewrite C, B in H. discriminate.
      * pose proof (skipn12_len b B) as H. rewrite <- C, A in H. discriminate.
      * subst. apply bytes_eqb_refl.
Qed.

Lemma same_hostb_spec a b : same_hostb a b = true <-> same_host a b.
Proof.
  unfold same_hostb, same_host. rewrite !andb_true_iff, bytes_eqb_eq. tauto.
Qed.

(** [same_host] is what one expects on plain addresses *)
Lemma same_host_v4 a b : length a = 4%nat -> length b = 4%nat -> (same_host a b <-> a = b).
Proof.
  intros A B. unfold same_host. rewrite (canon_len4 a A), (canon_len4 b B).
  split; [tauto|]. intros ->. repeat split; apply valid_ipb_spec; now left.
Qed.

Lemma same_host_v4_mapped a : length a = 4%nat -> same_host a (v4in6_prefix ++ a).
Proof.
  intros A. unfold same_host.
  assert (B : length (v4in6_prefix ++ a) = 16%nat) by (rewrite app_length, A; reflexivity).
  split; [apply valid_ipb_spec; now left|]. split; [apply valid_ipb_spec; now right|].
  rewrite (canon_len4 a A), (canon_len16 _ B).
  change (firstn 12 (v4in6_prefix ++ a)) with v4in6_prefix.
  rewrite bytes_eqb_refl. reflexivity.
Qed.

Lemma same_host_v6 a b : length a = 16%nat -> length b = 16%nat -> (same_host a b <-> a = b).
Proof.
  intros A B. split.
  - intros H. apply ip_equal_same_host in H; [|apply valid_ipb_spec; now right].
    unfold ip_equal in H. rewrite A, B in H. cbn [Nat.eqb] in H. now apply bytes_eqb_eq.
  - intros ->. unfold same_host. repeat split; apply valid_ipb_spec; now right.
Qed.

Lemma same_host_sym a b : same_host a b -> same_host b a.
Proof. unfold same_host. intuition congruence. Qed.

Lemma same_host_trans a b c : same_host a b -> same_host b c -> same_host a c.
Proof. unfold same_host. intuition congruence. Qed.

(** ** validators *)

Lemma host_addr_from_peer_some p h :
  host_addr_from_peer p = Some h <-> p = PTCP h /\ valid_ipb h = true.
Proof.
  destruct p as [| |a]; cbn; try (split; [discriminate | intros [E _]; discriminate]).
  destruct (valid_ipb a) eqn:V.
  - split; [intros E; inversion E; subst; auto | intros [E _]; inversion E; reflexivity].
  - split; [discriminate | intros [E V']; inversion E; subst; congruence].
Qed.

Lemma validate_as_host_iff proto dstIA dstHost localIA p :
  validate_as_host proto dstIA dstHost localIA p = true <->
  proto <> generic /\ dstIA = localIA /\ exists a, p = PTCP a /\ same_host a dstHost.
Proof.
  unfold validate_as_host.
  destruct (proto =? generic) eqn:G.
  - apply N.eqb_eq in G. split; [discriminate | intros [H _]; contradiction].
  - apply N.eqb_neq in G.
    destruct (host_addr_from_peer p) as [h|] eqn:H.
    + apply host_addr_from_peer_some in H as [-> V].
      destruct (dstIA =? localIA) eqn:I; cbn [negb].
      * apply N.eqb_eq in I. rewrite (ip_equal_same_host h dstHost V). split.
        -- intros S. repeat split; auto. exists h; auto.
        -- intros (_ & _ & a & E & S). inversion E; subst; assumption.
      * apply N.eqb_neq in I. split; [discriminate | intros (_ & E & _); contradiction].
    + split; [discriminate|]. intros (_ & _ & a & -> & V & _).
      cbn in H. rewrite V in H. discriminate.
Qed.

Lemma validate_host_as_iff proto srcIA srcHost localIA p :
  validate_host_as proto srcIA srcHost localIA p = true <->
  proto <> generic /\ srcIA = localIA /\ exists a, p = PTCP a /\ same_host a srcHost.
Proof. exact (validate_as_host_iff proto srcIA srcHost localIA p). Qed.

Lemma validate_host_host_iff proto srcIA dstIA srcHost dstHost localIA p :
  validate_host_host proto srcIA dstIA srcHost dstHost localIA p = true <->
  proto <> generic /\ exists a, p = PTCP a /\
    ((srcIA = localIA /\ same_host a srcHost) \/ (dstIA = localIA /\ same_host a dstHost)).
Proof.
  unfold validate_host_host.
  destruct (proto =? generic) eqn:G.
  - apply N.eqb_eq in G. split; [discriminate | intros [H _]; contradiction].
  - apply N.eqb_neq in G.
    destruct (host_addr_from_peer p) as [h|] eqn:H.
    + apply host_addr_from_peer_some in H as [-> V].
      pose proof (ip_equal_same_host h srcHost V) as Ss.
      pose proof (ip_equal_same_host h dstHost V) as Sd.
      assert (R : forall A B C D : bool,
                 (if (negb A || negb B) && (negb C || negb D) then false else true) =
                 (A && B) || (C && D)) by (intros [] [] [] []; reflexivity).
      rewrite R, orb_true_iff, !andb_true_iff, !N.eqb_eq, Ss, Sd. split.
      * intros D. split; [exact G|]. exists h. split; [reflexivity | exact D].
      * intros (_ & a & E & D). inversion E; subst a. exact D.
    + split; [discriminate|]. intros (_ & a & -> & [[_ (V & _)]|[_ (V & _)]]);
        cbn in H; rewrite V in H; discriminate.
Qed.

(** ** allowed hosts *)

Lemma naddr_eqb_eq x y : naddr_eqb x y = true <-> x = y.
Proof.
  destruct x as [a|a z], y as [b|b w]; cbn; try (split; discriminate).
  - rewrite bytes_eqb_eq. split; congruence.
  - rewrite andb_true_iff, !bytes_eqb_eq. split; [intros [-> ->]; reflexivity | intros E; inversion E; auto].
Qed.

Lemma in_allowed_iff s h proto : in_allowed s h proto = true <-> In (h, proto) s.
Proof.
  unfold in_allowed. rewrite existsb_exists. split.
  - intros ([h' p'] & I & E). cbn in E. apply andb_true_iff in E as [E1 E2].
    apply naddr_eqb_eq in E1. apply N.eqb_eq in E2. now subst.
  - intros I. exists (h, proto). split; [assumption|]. cbn.
    apply andb_true_iff. split; [now apply naddr_eqb_eq | apply N.eqb_refl].
Qed.

Lemma validate_allowed_host_iff s proto p :
  validate_allowed_host s proto p = true <->
  exists a h, p = PTCP a /\ from_std_ip a = Some h /\ In (h, proto) s.
Proof.
  unfold validate_allowed_host. destruct p as [| |a].
  - split; [discriminate | intros (a & h & E & _); discriminate].
  - split; [discriminate | intros (a & h & E & _); discriminate].
  - destruct (from_std_ip a) as [h|] eqn:F.
    + rewrite in_allowed_iff. split.
      * intros I. exists a, h. auto.
      * intros (a' & h' & E & F' & I). inversion E; subst a'. congruence.
    + split; [discriminate | intros (a' & h' & E & F' & _); inversion E; subst; congruence].
Qed.

Lemma peer_allowed_iff s p proto :
  peer_allowed s p proto = true <->
  exists a h, p = PTCP a /\ from_std_ip a = Some h /\ In (h, proto) s.
Proof.
  rewrite <- validate_allowed_host_iff. unfold peer_allowed, validate_allowed_host.
  destruct p; cbn; tauto.
Qed.

Lemma peer_is_iff p h : peer_is p h = true <-> exists a, p = PTCP a /\ same_host a h.
Proof.
  unfold peer_is. destruct p as [| |a]; cbn.
  - split; [discriminate | intros (a & E & _); discriminate].
  - split; [discriminate | intros (a & E & _); discriminate].
  - rewrite same_hostb_spec. split.
    + intros S. exists a; auto.
    + intros (a' & E & S). inversion E; subst; assumption.
Qed.

Lemma call_eqb_eq x y : call_eqb x y = true <-> x = y.
Proof.
  destruct x, y; cbn; try (split; discriminate);
    rewrite ?andb_true_iff, ?N.eqb_eq, ?bytes_eqb_eq;
    (split; [intros H; decompose [and] H; subst; reflexivity
            | intros H; inversion H; repeat split; auto]).
Qed.

Lemma call_eqb_refl x : call_eqb x x = true.
Proof. now apply call_eqb_eq. Qed.

(** ** the oracle holds on the model *)

Lemma validate_ok_model k proto src dst srch dsth l p :
  validate_ok k proto src dst srch dsth l p (validate k proto src dst srch dsth l p) = true.
Proof.
  unfold validate_ok. destruct (validate k proto src dst srch dsth l p) eqn:V; [|reflexivity].
  cbn [negb]. unfold validate in V.
  destruct k as [|[[q|q|]|[q|q|]|]]; cbv beta iota in V |- *.
  all: try (apply validate_host_host_iff in V as (G & a & -> & D);
            apply N.eqb_neq in G; rewrite G; cbn [negb andb];
            apply orb_true_iff;
            destruct D as [[E S]|[E S]]; [left|right];
            (apply andb_true_iff; split; [now apply N.eqb_eq | apply peer_is_iff; eauto])).
  - apply validate_host_as_iff in V as (G & E & a & -> & S).
    apply N.eqb_neq in G. rewrite G. cbn [negb andb].
    apply andb_true_iff; split; [now apply N.eqb_eq | apply peer_is_iff; eauto].
  - apply validate_as_host_iff in V as (G & E & a & -> & S).
    apply N.eqb_neq in G. rewrite G. cbn [negb andb].
    apply andb_true_iff; split; [now apply N.eqb_eq | apply peer_is_iff; eauto].
Qed.

Lemma serve_ok_model ep l s p a q : serve_ok ep l s p a q (serve ep l s p a q) = true.
Proof.
  unfold serve_ok. destruct (serve ep l s p a q) as [c|] eqn:S; [|reflexivity].
  destruct ep; cbn [serve] in S.
  - (* level 1 *)
    unfold serve_lvl1 in S. destruct (present p); cbn [negb] in S; [|discriminate].
    destruct (cert_ia a) as [ia|]; [|discriminate].
    destruct (q_ts_ok q); cbn [negb] in S; [|discriminate].
    destruct (is_predefined (proto_of_pb (q_proto q))); cbn [negb] in S; [|discriminate].
    inversion S. apply call_eqb_refl.
  - (* intra level 1 *)
    unfold serve_intra_lvl1 in S. destruct (present p); cbn [negb] in S; [|discriminate].
    destruct (l =? q_src q) eqn:E1, (l =? q_dst q) eqn:E2; cbn [negb andb] in S; try discriminate;
      (destruct (q_ts_ok q); cbn [negb] in S; [|discriminate]);
      (destruct (validate_allowed_host s (proto_of_pb (q_proto q)) p) eqn:V; [|discriminate]);
      inversion S; rewrite call_eqb_refl; cbn [orb andb];
      apply peer_allowed_iff; now apply validate_allowed_host_iff.
  - (* AS-host *)
    unfold serve_as_host in S. destruct (present p); cbn [negb] in S; [|discriminate].
    destruct (q_ts_ok q); cbn [negb] in S; [|discriminate].
    destruct (validate_as_host _ _ _ _ _) eqn:V in S; [|discriminate].
    inversion S. rewrite call_eqb_refl.
    apply validate_as_host_iff in V as (G & E & x & -> & Sx).
    apply N.eqb_neq in G. rewrite G. apply N.eqb_eq in E. rewrite E. cbn [negb andb].
    apply peer_is_iff; eauto.
  - (* host-AS *)
    unfold serve_host_as in S. destruct (present p); cbn [negb] in S; [|discriminate].
    destruct (q_ts_ok q); cbn [negb] in S; [|discriminate].
    destruct (validate_host_as _ _ _ _ _) eqn:V in S; [|discriminate].
    inversion S. rewrite call_eqb_refl.
    apply validate_host_as_iff in V as (G & E & x & -> & Sx).
    apply N.eqb_neq in G. rewrite G. apply N.eqb_eq in E. rewrite E. cbn [negb andb].
    apply peer_is_iff; eauto.
  - (* host-host *)
    unfold serve_host_host in S. destruct (present p); cbn [negb] in S; [|discriminate].
    destruct (q_ts_ok q); cbn [negb] in S; [|discriminate].
    destruct (validate_host_host _ _ _ _ _ _ _) eqn:V in S; [|discriminate].
    inversion S. rewrite call_eqb_refl.
    apply validate_host_host_iff in V as (G & x & -> & D).
    apply N.eqb_neq in G. rewrite G. cbn [negb andb].
    apply orb_true_iff. destruct D as [[E Sx]|[E Sx]]; [left|right];
      (apply andb_true_iff; split; [now apply N.eqb_eq | apply peer_is_iff; eauto]).
  - (* SV *)
    unfold serve_sv in S. destruct (present p); cbn [negb] in S; [|discriminate].
    destruct (q_ts_ok q); cbn [negb] in S; [|discriminate].
    destruct (validate_allowed_host s (proto_of_pb (q_proto q)) p) eqn:V; [|discriminate].
    inversion S. rewrite call_eqb_refl. cbn [andb].
    apply peer_allowed_iff; now apply validate_allowed_host_iff.
Qed.

(** ** characterisation of the service methods *)

Lemma present_tcp a : present (PTCP a) = true.
Proof. reflexivity. Qed.

Lemma cert_ia_some a ia : cert_ia a = Some ia <-> exists n, a = ATLS (S n) (Some ia).
Proof.
  destruct a as [| |[|n] [x|]]; cbn; split; try discriminate;
    try (intros [m E]; discriminate E).
  - intros E; inversion E; eauto.
  - intros [m E]; inversion E; reflexivity.
Qed.

Lemma serve_lvl1_iff l p a q c :
  serve_lvl1 l p a q = Some c <->
  present p = true /\ q_ts_ok q = true /\ is_predefined (proto_of_pb (q_proto q)) = true /\
  exists ia, cert_ia a = Some ia /\ c = CallDeriveLvl1 (proto_of_pb (q_proto q)) l ia.
Proof.
  unfold serve_lvl1.
  destruct (present p); cbn [negb]; [|split; [discriminate | intros (X & _); discriminate]].
  destruct (cert_ia a) as [ia|];
    [|split; [discriminate | intros (_ & _ & _ & x & X & _); discriminate]].
  destruct (q_ts_ok q); cbn [negb]; [|split; [discriminate | intros (_ & X & _); discriminate]].
  destruct (is_predefined _); cbn [negb];
    [|split; [discriminate | intros (_ & _ & X & _); discriminate]].
  split.
  - intros E; inversion E. repeat split; auto. exists ia; auto.
  - intros (_ & _ & _ & x & X & ->). inversion X; reflexivity.
Qed.

Lemma serve_as_host_iff l p q c :
  serve_as_host l p q = Some c <->
  q_ts_ok q = true /\ c = CallASHost (proto_of_pb (q_proto q)) (q_src q) (q_dst q) (q_dsth q) /\
  proto_of_pb (q_proto q) <> generic /\ q_dst q = l /\
  exists a, p = PTCP a /\ same_host a (q_dsth q).
Proof.
  unfold serve_as_host. split.
  - destruct (present p); cbn [negb]; [|discriminate].
    destruct (q_ts_ok q); cbn [negb]; [|discriminate].
    destruct (validate_as_host _ _ _ _ _) eqn:V; [|discriminate].
    intros E; inversion E. apply validate_as_host_iff in V. tauto.
  - intros (T & -> & G & E & a & -> & S). rewrite T. cbn [present negb].
    replace (validate_as_host _ _ _ _ _) with true; [reflexivity|].
    symmetry. apply validate_as_host_iff. repeat split; auto. exists a; auto.
Qed.

Lemma serve_host_as_iff l p q c :
  serve_host_as l p q = Some c <->
  q_ts_ok q = true /\ c = CallHostAS (proto_of_pb (q_proto q)) (q_src q) (q_dst q) (q_srch q) /\
  proto_of_pb (q_proto q) <> generic /\ q_src q = l /\
  exists a, p = PTCP a /\ same_host a (q_srch q).
Proof.
  unfold serve_host_as. split.
  - destruct (present p); cbn [negb]; [|discriminate].
    destruct (q_ts_ok q); cbn [negb]; [|discriminate].
    destruct (validate_host_as _ _ _ _ _) eqn:V; [|discriminate].
    intros E; inversion E. apply validate_host_as_iff in V. tauto.
  - intros (T & -> & G & E & a & -> & S). rewrite T. cbn [present negb].
    replace (validate_host_as _ _ _ _ _) with true; [reflexivity|].
    symmetry. apply validate_host_as_iff. repeat split; auto. exists a; auto.
Qed.

Lemma serve_host_host_iff l p q c :
  serve_host_host l p q = Some c <->
  q_ts_ok q = true /\ c = CallHostHost (proto_of_pb (q_proto q)) (q_src q) (q_dst q) (q_srch q) (q_dsth q) /\
  proto_of_pb (q_proto q) <> generic /\
  exists a, p = PTCP a /\
    ((q_src q = l /\ same_host a (q_srch q)) \/ (q_dst q = l /\ same_host a (q_dsth q))).
Proof.
  unfold serve_host_host. split.
  - destruct (present p); cbn [negb]; [|discriminate].
    destruct (q_ts_ok q); cbn [negb]; [|discriminate].
    destruct (validate_host_host _ _ _ _ _ _ _) eqn:V; [|discriminate].
    intros E; inversion E. apply validate_host_host_iff in V. tauto.
  - intros (T & -> & G & a & -> & D). rewrite T. cbn [present negb].
    replace (validate_host_host _ _ _ _ _ _ _) with true; [reflexivity|].
    symmetry. apply validate_host_host_iff. split; auto. exists a; auto.
Qed.

Lemma serve_sv_iff s p q c :
  serve_sv s p q = Some c <->
  q_ts_ok q = true /\ c = CallSV (proto_of_pb (q_proto q)) /\
  exists a h, p = PTCP a /\ from_std_ip a = Some h /\ In (h, proto_of_pb (q_proto q)) s.
Proof.
  unfold serve_sv. split.
  - destruct (present p); cbn [negb]; [|discriminate].
    destruct (q_ts_ok q); cbn [negb]; [|discriminate].
    destruct (validate_allowed_host _ _ _) eqn:V; [|discriminate].
    intros E; inversion E. apply validate_allowed_host_iff in V. tauto.
  - intros (T & -> & a & h & -> & F & I). rewrite T. cbn [present negb].
    replace (validate_allowed_host _ _ _) with true; [reflexivity|].
    symmetry. apply validate_allowed_host_iff. exists a, h; auto.
Qed.

Lemma serve_intra_lvl1_iff l s p q c :
  serve_intra_lvl1 l s p q = Some c <->
  q_ts_ok q = true /\ c = CallGetLvl1 (proto_of_pb (q_proto q)) (q_src q) (q_dst q) /\
  (l = q_src q \/ l = q_dst q) /\
  exists a h, p = PTCP a /\ from_std_ip a = Some h /\ In (h, proto_of_pb (q_proto q)) s.
Proof.
  unfold serve_intra_lvl1. split.
  - destruct (present p); cbn [negb]; [|discriminate].
    destruct (l =? q_src q) eqn:E1, (l =? q_dst q) eqn:E2; cbn [negb andb]; try discriminate;
      (destruct (q_ts_ok q); cbn [negb]; [|discriminate]);
      (destruct (validate_allowed_host _ _ _) eqn:V; [|discriminate]);
      intros E; inversion E; apply validate_allowed_host_iff in V;
      try apply N.eqb_eq in E1; try apply N.eqb_eq in E2; tauto.
  - intros (T & -> & D & a & h & -> & F & I). rewrite T. cbn [present negb].
    replace (negb (l =? q_src q) && negb (l =? q_dst q)) with false.
    + replace (validate_allowed_host _ _ _) with true; [reflexivity|].
      symmetry. apply validate_allowed_host_iff. exists a, h; auto.
    + symmetry. destruct D as [D|D]; apply N.eqb_eq in D; rewrite D; cbn;
        [reflexivity | apply andb_false_r].
Qed.

(** sequences of requests: the model is stateless, so the oracle holds step by step *)
Lemma seq_ok_model l s (reqs : list (endpoint * peer_addr * auth * request)) :
  forallb (fun st : endpoint * peer_addr * auth * request * option call =>
             let '(ep, p, a, q, impl) := st in serve_ok ep l s p a q impl)
          (map (fun r => let '(ep, p, a, q) := r in (ep, p, a, q, serve ep l s p a q)) reqs) = true.
Proof.
  induction reqs as [|[[[ep p] a] q] t IH]; [reflexivity|].
  cbn [map forallb]. rewrite serve_ok_model. exact IH.
Qed.
