(** C02, layer 3: the combinator's loop filter (no AS three times in the interface list, C28)
    and source <> destination give the two "no AS = source / destination in between" conditions
    of [wf_prov_b], for paths without peering slices whose slices have at least two hop fields
    and meet at a common AS.  A counting argument on [Prov.interfaces]. *)
From Coq Require Import List NArith Bool Arith Lia.
From Scion Require Import Lib.Check Model.Router Model.Network Model.Prov Model.CombSpec.
From Scion Require Import Proofs.ProvStruct.
Import ListNotations.
Import Prov.
Local Open Scope N_scope.

Definition psum (f : nat -> nat) (m : nat) : nat := list_sum (map f (seq 0 m)).

Lemma psum_S f m : psum f (S m) = (psum f m + f m)%nat.
Proof. unfold psum. rewrite seq_S, map_app, list_sum_app. cbn. lia. Qed.

Lemma psum_mono f : forall m m', (m <= m')%nat -> (psum f m <= psum f m')%nat.
Proof. intros m m' H. induction H; [lia|]. rewrite psum_S. lia. Qed.

Lemma psum_step f i m : (i < m)%nat -> (psum f i + f i <= psum f m)%nat.
Proof. intros H. rewrite <- psum_S. now apply psum_mono. Qed.

Lemma count_app a x y : CombSpec.count_ia a (x ++ y) = (CombSpec.count_ia a x + CombSpec.count_ia a y)%nat.
Proof. unfold CombSpec.count_ia. now rewrite filter_app, app_length. Qed.

Lemma count_flat_map a (f : nat -> list (N * N)) l :
  CombSpec.count_ia a (flat_map f l) = list_sum (map (fun k => CombSpec.count_ia a (f k)) l).
Proof. induction l as [|x l IH]; [reflexivity|]. cbn [flat_map map list_sum]. now rewrite count_app, IH. Qed.

Section LoopFree.
Variable p : prov.
Hypothesis Hpos : segs_pos p.
Hypothesis Htot : total (lens p) = nhops p.
Hypothesis Hnp : forall k, sg_peer (hdr p k) = false.
Hypothesis Hlen : forall j, (j < length (pv_segs p))%nat -> (2 <= sg_len (nth j (pv_segs p) dseg))%nat.
Hypothesis Hj : forall k, (S k < nhops p)%nat -> is_last p k = true -> ia p k = ia p (S k).
Hypothesis Hn3 : CombSpec.no_as_thrice (interfaces p).

Notation n := (nhops p).

Definition piece (k : nat) : list (N * N) :=
  if crosses p k then [(ia p k, tr_eg p k); (ia p (S k), tr_in p (S k))] else [].
Definition cnt (a : N) (k : nat) : nat := CombSpec.count_ia a (piece k).

Lemma count_interfaces a : CombSpec.count_ia a (interfaces p) = psum (cnt a) (n - 1).
Proof. unfold interfaces, psum. now rewrite count_flat_map. Qed.

Lemma bound a m : (m <= n - 1)%nat -> (psum (cnt a) m <= 2)%nat.
Proof.
  intros H. pose proof (Hn3 a) as B. rewrite count_interfaces in B.
  pose proof (psum_mono (cnt a) m (n - 1) H). lia.
Qed.

Lemma crosses_iff k : crosses p k = negb (is_last p k).
Proof. unfold crosses. rewrite Hnp. apply orb_false_r. Qed.

Lemma cnt_fst a k : is_last p k = false -> ia p k = a -> ia p (S k) <> a -> (1 <= cnt a k)%nat.
Proof.
  intros L E _. unfold cnt, piece. rewrite crosses_iff, L. cbn [negb].
  unfold CombSpec.count_ia. cbn [filter fst]. rewrite E, N.eqb_refl.
  destruct (ia p (S k) =? a); cbn; lia.
Qed.

Lemma cnt_snd a k : is_last p k = false -> ia p (S k) = a -> (1 <= cnt a k)%nat.
Proof.
  intros L E. unfold cnt, piece. rewrite crosses_iff, L. cbn [negb].
  unfold CombSpec.count_ia. cbn [filter fst]. rewrite E, N.eqb_refl.
  destruct (ia p k =? a); cbn; lia.
Qed.

Lemma cnt_fst' a k : is_last p k = false -> ia p k = a -> (1 <= cnt a k)%nat.
Proof.
  intros L E. unfold cnt, piece. rewrite crosses_iff, L. cbn [negb].
  unfold CombSpec.count_ia. cbn [filter fst]. rewrite E, N.eqb_refl.
  destruct (ia p (S k) =? a); cbn; lia.
Qed.

Lemma cnt_both a k : is_last p k = false -> ia p k = a -> ia p (S k) = a -> (2 <= cnt a k)%nat.
Proof.
  intros L E E'. unfold cnt, piece. rewrite crosses_iff, L. cbn [negb].
  unfold CombSpec.count_ia. cbn [filter fst]. rewrite E, E', N.eqb_refl. cbn. lia.
Qed.

(** a hop that is first in its slice is not last, and conversely *)
Lemma first_not_last k : (k < n)%nat -> is_first p k = true -> is_last p k = false.
Proof.
  intros H F. destruct (pos_facts p Htot k H) as (A & _ & _).
  unfold is_first in F. apply Nat.eqb_eq in F. unfold is_last. rewrite F.
  apply Nat.eqb_neq. pose proof (Hlen _ A) as L. unfold hdr. lia.
Qed.

Lemma last_not_first k : (k < n)%nat -> is_last p k = true -> is_first p k = false.
Proof.
  intros H L. destruct (is_first p k) eqn:F; [|reflexivity].
  rewrite (first_not_last k H F) in L. discriminate.
Qed.

Lemma not_last_lt k : (k < n)%nat -> is_last p k = false -> (S k < n)%nat.
Proof. intros H L. now destruct (step_same p Htot k H L) as (_ & _ & X). Qed.

Lemma not_first_pos k : (k < n)%nat -> is_first p k = false -> (1 <= k)%nat.
Proof.
  intros H F. destruct k; [|lia]. destruct (first_0 p Hpos Htot H) as [F0 _]. congruence.
Qed.

(** three occurrences *)
Lemma three a i j m : (i < j)%nat -> (j < m)%nat -> (m < n - 1)%nat ->
  (1 <= cnt a i)%nat -> (1 <= cnt a j)%nat -> (1 <= cnt a m)%nat -> False.
Proof.
  intros H1 H2 H3 C1 C2 C3.
  pose proof (psum_step (cnt a) i j H1). pose proof (psum_step (cnt a) j m H2).
  pose proof (psum_step (cnt a) m (n - 1) H3). pose proof (bound a (n - 1) (le_n _)). lia.
Qed.

Lemma two_one a i m : (i < m)%nat -> (m < n - 1)%nat -> (2 <= cnt a i)%nat -> (1 <= cnt a m)%nat -> False.
Proof.
  intros H1 H3 C1 C3.
  pose proof (psum_step (cnt a) i m H1).
  pose proof (psum_step (cnt a) m (n - 1) H3). pose proof (bound a (n - 1) (le_n _)). lia.
Qed.

Lemma one_two a i m : (i < m)%nat -> (m < n - 1)%nat -> (1 <= cnt a i)%nat -> (2 <= cnt a m)%nat -> False.
Proof.
  intros H1 H3 C1 C3.
  pose proof (psum_step (cnt a) i m H1).
  pose proof (psum_step (cnt a) m (n - 1) H3). pose proof (bound a (n - 1) (le_n _)). lia.
Qed.

(** * The source AS does not come back *)
Lemma src_core k : (k < n)%nat -> is_first p k = false -> ia p k = ia p 0 ->
  ia p (n - 1) <> ia p 0 -> False.
Proof.
  intros H F E D. set (a := ia p 0) in *.
  pose proof (not_first_pos k H F) as K1.
  assert (H0 : (0 < n)%nat) by lia.
  destruct (first_0 p Hpos Htot H0) as [F0 _].
  pose proof (first_not_last 0 H0 F0) as L0.
  pose proof (not_last_lt 0 H0 L0) as N1.
  destruct k as [|k']; [lia|]. rename k' into k.
  destruct (prev_same p Hpos Htot k H F) as [Lp _].
  (* piece k has (ia (S k)) as second element *)
  pose proof (cnt_snd a k Lp E) as Cp.
  destruct (is_last p (S k)) eqn:L.
  - (* S k is the last hop of its slice; the next slice starts at the same AS *)
    assert (NL : (S (S k) < n)%nat).
    { destruct (Nat.lt_ge_cases (S (S k)) n) as [|G]; [assumption|exfalso].
      apply D. replace (n - 1)%nat with (S k) by lia. exact E. }
    pose proof (Hj (S k) NL L) as J. rewrite E in J.
    destruct (step_next p Hpos Htot (S k) NL L) as (_ & O & _).
    assert (Fn : is_first p (S (S k)) = true) by (unfold is_first; now rewrite O).
    pose proof (first_not_last _ NL Fn) as Ln.
    pose proof (not_last_lt _ NL Ln) as N3.
    pose proof (cnt_fst' a (S (S k)) Ln (eq_sym J)) as Cn.
    destruct k as [|k].
    + (* piece 0 has both *)
      pose proof (cnt_both a 0 L0 eq_refl E) as C0. apply (two_one a 0 2); try assumption; lia.
    + pose proof (cnt_fst' a 0 L0 eq_refl) as C0.
      apply (three a 0 (S k) (S (S (S k)))); try assumption; lia.
  - pose proof (not_last_lt _ H L) as N2.
    pose proof (cnt_fst' a (S k) L E) as Ck.
    destruct k as [|k].
    + pose proof (cnt_both a 0 L0 eq_refl E) as C0. apply (two_one a 0 1); try assumption; lia.
    + pose proof (cnt_fst' a 0 L0 eq_refl) as C0.
      apply (three a 0 (S k) (S (S k))); try assumption; lia.
Qed.

Lemma src_free k : (1 <= k)%nat -> (k < n)%nat -> ia p (n - 1) <> ia p 0 -> ia p k <> ia p 0.
Proof.
  intros K1 H D E. destruct (is_first p k) eqn:F.
  - destruct k as [|k]; [lia|].
    destruct (prev_next p Hpos Htot k H F) as [L _].
    pose proof (Hj k H L) as J.
    assert (Hk : (k < n)%nat) by lia.
    apply (src_core k Hk (last_not_first k Hk L)); [congruence|exact D].
  - exact (src_core k H F E D).
Qed.

(** * The destination AS does not occur before *)
Lemma dst_core k : (S k < n)%nat -> is_last p k = false -> ia p k = ia p (n - 1) ->
  ia p 0 <> ia p (n - 1) -> False.
Proof.
  intros H L E D. set (a := ia p (n - 1)) in *.
  assert (Hk : (k < n)%nat) by lia.
  assert (Hn : (n - 1 < n)%nat) by lia.
  pose proof (last_is_last p Htot (n - 1) ltac:(lia)) as Ll.
  pose proof (last_not_first _ Hn Ll) as Fl.
  pose proof (not_first_pos _ Hn Fl) as N2.
  assert (En : (n - 1 = S (n - 2))%nat) by lia.
  rewrite En in Fl.
  destruct (prev_same p Hpos Htot (n - 2) ltac:(lia) Fl) as [Lm _].
  assert (Em : ia p (S (n - 2)) = a) by (subst a; now rewrite <- En).
  pose proof (cnt_fst' a k L E) as Ck.
  assert (K0 : (1 <= k)%nat).
  { destruct k; [|lia]. exfalso. now apply D. }
  destruct (is_first p k) eqn:F.
  - destruct k as [|k]; [lia|].
    destruct (prev_next p Hpos Htot k Hk F) as [Lk _].
    pose proof (Hj k Hk Lk) as J. rewrite E in J.
    assert (Hk' : (k < n)%nat) by lia.
    pose proof (last_not_first k Hk' Lk) as Fk.
    pose proof (not_first_pos k Hk' Fk) as K1.
    destruct k as [|k]; [lia|].
    destruct (prev_same p Hpos Htot k Hk' Fk) as [Lkk _].
    pose proof (cnt_snd a k Lkk J) as Ckk.
    destruct (Nat.eq_dec (S (S k)) (n - 2)) as [Q|Q].
    + rewrite <- Q in Lm, Em. pose proof (cnt_both a (S (S k)) Lm E Em) as Cm.
      apply (one_two a k (S (S k))); try assumption; lia.
    + pose proof (cnt_snd a (n - 2) Lm Em) as Cm.
      apply (three a k (S (S k)) (n - 2)); try assumption; lia.
  - destruct k as [|k]; [lia|].
    destruct (prev_same p Hpos Htot k Hk F) as [Lk _].
    pose proof (cnt_snd a k Lk E) as Ckk.
    destruct (Nat.eq_dec (S k) (n - 2)) as [Q|Q].
    + rewrite <- Q in Lm, Em. pose proof (cnt_both a (S k) Lm E Em) as Cm.
      apply (one_two a k (S k)); try assumption; lia.
    + pose proof (cnt_snd a (n - 2) Lm Em) as Cm.
      apply (three a k (S k) (n - 2)); try assumption; lia.
Qed.

Lemma dst_free k : (S k < n)%nat -> ia p 0 <> ia p (n - 1) -> ia p k <> ia p (n - 1).
Proof.
  intros H D E. destruct (is_last p k) eqn:L.
  - pose proof (Hj k H L) as J.
    destruct (step_next p Hpos Htot k H L) as (_ & O & _).
    assert (Fn : is_first p (S k) = true) by (unfold is_first; now rewrite O).
    pose proof (first_not_last _ H Fn) as Ln.
    pose proof (not_last_lt _ H Ln) as N3.
    apply (dst_core (S k) N3 Ln); [congruence|exact D].
  - exact (dst_core k H L E D).
Qed.

End LoopFree.

(** the same for a path over a peering link: every pair of consecutive hops crosses a link *)
Section AllCross.
Variable p : prov.
Hypothesis Htot : total (lens p) = nhops p.
Hypothesis Hc : forall k, (S k < nhops p)%nat -> crosses p k = true.
Hypothesis Hn3 : CombSpec.no_as_thrice (interfaces p).
Notation n := (nhops p).

Lemma xcnt_fst a k : (S k < n)%nat -> ia p k = a -> (1 <= cnt p a k)%nat.
Proof.
  intros H E. unfold cnt, piece. rewrite (Hc k H). unfold CombSpec.count_ia. cbn [filter fst].
  rewrite E, N.eqb_refl. destruct (ia p (S k) =? a); cbn; lia.
Qed.

Lemma xcnt_snd a k : (S k < n)%nat -> ia p (S k) = a -> (1 <= cnt p a k)%nat.
Proof.
  intros H E. unfold cnt, piece. rewrite (Hc k H). unfold CombSpec.count_ia. cbn [filter fst].
  rewrite E, N.eqb_refl. destruct (ia p k =? a); cbn; lia.
Qed.

Lemma xcnt_both a k : (S k < n)%nat -> ia p k = a -> ia p (S k) = a -> (2 <= cnt p a k)%nat.
Proof.
  intros H E E'. unfold cnt, piece. rewrite (Hc k H). unfold CombSpec.count_ia. cbn [filter fst].
  rewrite E, E', N.eqb_refl. cbn. lia.
Qed.

Lemma xsrc_free k : (1 <= k)%nat -> (k < n)%nat -> ia p (n - 1) <> ia p 0 -> ia p k <> ia p 0.
Proof.
  intros K1 H D E.
  assert (K2 : (S k < n)%nat).
  { destruct (Nat.lt_ge_cases (S k) n) as [|G]; [assumption|exfalso].
    apply D. replace (n - 1)%nat with k by lia. exact E. }
  destruct k as [|k]; [lia|].
  pose proof (xcnt_snd (ia p 0) k ltac:(lia) E) as C1.
  pose proof (xcnt_fst (ia p 0) (S k) K2 E) as C2.
  destruct k as [|k].
  - pose proof (xcnt_both (ia p 0) 0 ltac:(lia) eq_refl E) as C0.
    apply (two_one p Htot Hn3 (ia p 0) 0 1); try assumption; lia.
  - pose proof (xcnt_fst (ia p 0) 0 ltac:(lia) eq_refl) as C0.
    apply (three p Htot Hn3 (ia p 0) 0 (S k) (S (S k))); try assumption; lia.
Qed.

Lemma xdst_free k : (S k < n)%nat -> ia p 0 <> ia p (n - 1) -> ia p k <> ia p (n - 1).
Proof.
  intros H D E. set (a := ia p (n - 1)) in *.
  destruct k as [|k]; [now apply D|].
  assert (En : (n - 1 = S (n - 2))%nat) by lia.
  assert (Em : ia p (S (n - 2)) = a) by (subst a; now rewrite <- En).
  pose proof (xcnt_snd a k ltac:(lia) E) as C1.
  pose proof (xcnt_fst a (S k) H E) as C2.
  destruct (Nat.eq_dec (S k) (n - 2)) as [Q|Q].
  - rewrite <- Q in Em. pose proof (xcnt_both a (S k) H E Em) as Cm.
    apply (one_two p Htot Hn3 a k (S k)); try assumption; lia.
  - pose proof (xcnt_snd a (n - 2) ltac:(lia) Em) as Cm.
    apply (three p Htot Hn3 a k (S k) (n - 2)); try assumption; lia.
Qed.

End AllCross.
