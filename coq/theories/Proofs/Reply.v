(** C03, part 3: request and reply.  The packet delivered at the destination is
    the rendering at the last hop; its reversal is the rendering of the reversed
    provenance path, which is well formed; so the reply is forwarded by every
    router back to the source host over the reversed interface list. *)
From Coq Require Import List NArith Bool Arith Lia.
From Scion Require Import Lib.Check Model.Router Model.Network Model.Prov.
From Scion Require Import Proofs.ProvStruct Proofs.ProvRender Proofs.ForwardView Proofs.ProvFacts
  Proofs.ForwardStep Proofs.Forward Proofs.ReverseStruct Proofs.Reverse.
Import ListNotations.
Import Router Network Prov.

Section Reply.
Variable mac : N -> N -> N -> N -> N -> N -> list N.
Variable t : topology.
Variable p : prov.
Variable pp : pparams.
Hypothesis HG : good mac t p.
Hypothesis Hep : endpoints_ok t p pp = true.

Notation n := (nhops p).
Notation p' := (rev_prov p).
Notation macq := (macq_of mac).
Notation Hs := (Hshape mac t p HG).

Lemma endpoints_rev st sr pay port :
  reply_ok pp st sr port = true -> endpoints_ok t p' (rev_params pp st sr pay port) = true.
Proof.
  intros R. pose proof (n_ge2 _ _ _ HG) as N2.
  pose proof Hep as E. unfold endpoints_ok in E.
  apply andb_true_iff in E as [E _]. apply andb_true_iff in E as [E _].
  apply andb_true_iff in E as [Es Ed]. apply N.eqb_eq in Es, Ed.
  unfold reply_ok in R. apply andb_true_iff in R as [Rt Rs].
  unfold endpoints_ok, rev_params. cbn [pp_src_ia pp_dst_ia].
  rewrite (rev_nhops p). rewrite (rev_ia p Hs 0) by lia. rewrite (rev_ia p Hs (n - 1)) by lia.
  rewrite Nat.sub_0_r. replace (n - 1 - (n - 1))%nat with 0%nat by lia.
  rewrite Ed, Es, !N.eqb_refl. cbn [andb].
  apply andb_true_iff; split.
  - unfold src_host_ok. cbn [pp_src_type pp_src_raw]. exact Rs.
  - destruct (as_of_ok _ _ _ HG 0 ltac:(lia)) as [A0 _]. rewrite A0.
    unfold deliver_target. cbn [pp_dst_type pp_dst_raw pp_port].
    unfold reply_target in Rt.
    destruct (parse_host (pp_src_type pp) (pp_src_raw pp)) as [ip|v|]; try discriminate.
    destruct port as [pt|]; [|discriminate].
    destruct (is_4in6 ip || is_unspecified ip); [discriminate|reflexivity].
Qed.

(** the reply walk *)
Lemma reply_walk now' st sr pay port :
  all_unexpired now' p = true -> reply_ok pp st sr port = true ->
  exists reply tr rtr d,
    mk_reply (render p pp (n - 1) true) st sr pay port = Some reply /\
    walk_from macq t now' reply reply = (tr, Delivered (pp_src_ia pp) rtr (fst d) (snd d)) /\
    crossed tr = rev (interfaces p) /\ reply_target pp port = Some d.
Proof.
  intros Hexp R.
  pose proof (good_rev mac t p HG) as HG'.
  pose proof (endpoints_rev st sr pay port R) as Hep'.
  pose proof (unexpired_rev mac t p HG now' Hexp) as Hexp'.
  destruct HG' as (Hwt & Hup & Hwf').
  destruct (forward_prov mac t now' p' (rev_params pp st sr pay port) Hwt Hup Hwf' Hep' Hexp')
    as (tr & rtr & d & a & W & Cr & Fa & Dt).
  exists (render p' (rev_params pp st sr pay port) 0 false), tr, rtr, d.
  split; [apply (reverse_render mac t p HG)|]. split; [exact W|].
  split; [rewrite Cr; apply (interfaces_rev mac t p HG)|].
  unfold deliver_target in Dt. cbn [rev_params pp_dst_type pp_dst_raw pp_port] in Dt.
  unfold reply_ok in R. apply andb_true_iff in R as [R _].
  unfold reply_target in *.
  destruct (parse_host (pp_src_type pp) (pp_src_raw pp)) as [ip|v|]; try discriminate.
  destruct port as [pt|]; [|discriminate]. exact Dt.
Qed.

End Reply.
