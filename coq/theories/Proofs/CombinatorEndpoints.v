(** End points of combined paths (used by C30): for segments of the shape
    beaconing produces ([wf_input]: validated, no wildcard ISD-AS, every entry but
    the first has an ingress interface, every entry but the last an egress one,
    peer hop fields have a local interface, core segments have two entries) every
    path [Combinator.combine src dst] returns lists at least one interface, its
    first interface belongs to [src] and its last one to [dst].

    Not true under [valid_input] alone: seg.Validate does not look at inner
    ingress interfaces, and the up segment [10(0,1); 11(0,2); 12(0,0)] combined
    from 12 to 10 yields the interface list [(11,2); (10,1)] ([zero_ingress_witness]). *)
From Coq Require Import List NArith Bool Arith Lia.
From Scion Require Import Lib.Check Model.Segment Model.CombSpec Model.Combinator.
From Scion Require Import Proofs.CombinatorSound Proofs.CombinatorMain.
Import ListNotations.
Import Segment Combinator.
Local Open Scope N_scope.

Definition starts (a : N) (l : list iface) : Prop :=
  match l with i :: _ => fst i = a | [] => False end.
Definition finishes (b : N) (l : list iface) : Prop :=
  match rev l with i :: _ => fst i = b | [] => False end.

Lemma starts_app a l1 l2 : starts a l1 -> starts a (l1 ++ l2).
Proof. destruct l1; cbn; tauto. Qed.

Lemma finishes_app b l1 l2 : finishes b l2 -> finishes b (l1 ++ l2).
Proof.
  unfold finishes. rewrite rev_app_distr. destruct (rev l2); cbn; tauto.
Qed.

Lemma starts_nz a x y rest : y <> 0 -> starts a (nz a x ++ nz a y ++ rest).
Proof.
  intros Hy. unfold nz. apply N.eqb_neq in Hy. rewrite Hy. destruct (x =? 0); reflexivity.
Qed.

Lemma finishes_nz b pre x y : x <> 0 -> finishes b (pre ++ nz b x ++ nz b y).
Proof.
  intros Hx. apply finishes_app. unfold finishes, nz. apply N.eqb_neq in Hx. rewrite Hx.
  destruct (y =? 0); reflexivity.
Qed.

Lemma finishes_nz1 b pre x : x <> 0 -> finishes b (pre ++ nz b x).
Proof.
  intros Hx. apply finishes_app. unfold finishes, nz. apply N.eqb_neq in Hx. now rewrite Hx.
Qed.

Lemma ends_last a b l : starts a l -> finishes b l ->
  exists i0 rest, l = i0 :: rest /\ fst i0 = a /\ fst (last l i0) = b.
Proof.
  intros Hs Hf. destruct l as [|i0 rest]; [destruct Hs|]. exists i0, rest.
  split; [reflexivity|]. split; [exact Hs|].
  unfold finishes in Hf. destruct (rev (i0 :: rest)) as [|j t] eqn:E; [destruct Hf|].
  assert (E' : i0 :: rest = rev t ++ [j]).
  { rewrite <- (rev_involutive (i0 :: rest)), E. reflexivity. }
  rewrite E', last_last. exact Hf.
Qed.

(** ---- what [inner_ifs_ok] gives ---- *)
Definition dummy : as_entry := mkAS 0 (mkHop 0 0 0 []) 0 0 [].

Lemma inner_last_in es : inner_ifs_ok false es = true -> es <> [] ->
  h_in (ae_hop (last es dummy)) <> 0.
Proof.
  induction es as [|a t IH]; [congruence|]. intros H _. cbn [inner_ifs_ok] in H.
  apply andb_true_iff in H as [H H3]. apply andb_true_iff in H as [H1 H2]. cbn [orb] in H1.
  destruct t as [|b t']; [cbn; now apply N.eqb_neq, negb_true_iff|].
  change (last (a :: b :: t') dummy) with (last (b :: t') dummy). apply IH; [exact H3 | discriminate].
Qed.

Lemma inner_tail first a t : inner_ifs_ok first (a :: t) = true -> inner_ifs_ok false t = true.
Proof. cbn [inner_ifs_ok]. intros H. now apply andb_true_iff in H as [_ H]. Qed.

Lemma inner_eg first es : forall i c, inner_ifs_ok first es = true ->
  nth_error es i = Some c -> (S i < length es)%nat -> h_eg (ae_hop c) <> 0.
Proof.
  revert first. induction es as [|a t IH]; intros first i c H Hn Hl; [destruct i; discriminate|].
  destruct i as [|i]; cbn [nth_error] in Hn.
  - inversion Hn; subst c. cbn [inner_ifs_ok] in H.
    apply andb_true_iff in H as [H _]. apply andb_true_iff in H as [_ H].
    destruct t; [cbn in Hl; lia|]. now apply N.eqb_neq, negb_true_iff.
  - apply (IH false i c); [eapply inner_tail; eauto | exact Hn | cbn in Hl; lia].
Qed.

Lemma skipn_last {A} (l : list A) n d : skipn n l <> [] -> last (skipn n l) d = last l d.
Proof.
  revert n. induction l as [|a t IH]; intros n H; [destruct n; cbn in H; congruence|].
  destruct n as [|n]; [reflexivity|]. cbn [skipn] in *.
  rewrite IH by assumption. destruct t; [destruct n; cbn in H; congruence | reflexivity].
Qed.

Lemma skipn_nonempty {A} (l : list A) n : (n < length l)%nat -> skipn n l <> [].
Proof.
  intros H E. assert (L : length (skipn n l) = 0%nat) by now rewrite E.
  rewrite skipn_length in L. lia.
Qed.

Lemma skipn_empty_last {A} (l : list A) i c d :
  nth_error l i = Some c -> skipn (S i) l = [] -> last l d = c.
Proof.
  revert i. induction l as [|a t IH]; intros i Hn Hs; [destruct i; discriminate|].
  destruct i as [|i]; cbn [nth_error skipn] in *.
  - inversion Hn; subst. reflexivity.
  - destruct t as [|b t']; [destruct i; discriminate|].
    change (last (a :: b :: t') d) with (last (b :: t') d). eapply IH; eauto.
Qed.

Lemma inner_skip_last first es n : inner_ifs_ok first es = true -> (0 < n)%nat ->
  skipn n es <> [] -> h_in (ae_hop (last es dummy)) <> 0.
Proof.
  intros H Hn Hs. destruct es as [|a t]; [destruct n; cbn in Hs; congruence|].
  destruct n as [|n]; [lia|]. cbn [skipn] in Hs.
  assert (t <> []) by (intros ->; destruct n; cbn in Hs; congruence).
  destruct t as [|b t']; [congruence|]. change (last (a :: b :: t') dummy) with (last (b :: t') dummy).
  apply inner_last_in; [eapply inner_tail; eauto | discriminate].
Qed.

(** a non-empty tail walked backwards starts in the segment's last AS *)
Lemma walk_bwd_starts first es i rest : inner_ifs_ok first es = true ->
  skipn (S i) es <> [] ->
  starts (ae_ia (last es dummy)) (walk_bwd i es ++ rest).
Proof.
  intros H Hs. unfold walk_bwd.
  rewrite (app_removelast_last dummy Hs), rev_app_distr. cbn [rev app flat_map].
  rewrite (skipn_last es (S i) dummy Hs). unfold entry_bwd, hop_bwd.
  rewrite <- !app_assoc. apply starts_nz.
  apply (inner_skip_last first es (S i)); [assumption | lia | assumption].
Qed.

(** a non-empty tail walked forwards finishes in the segment's last AS *)
Lemma walk_fwd_finishes first es j pre : inner_ifs_ok first es = true ->
  skipn (S j) es <> [] ->
  finishes (ae_ia (last es dummy)) (pre ++ walk_fwd j es).
Proof.
  intros H Hs. unfold walk_fwd.
  rewrite (app_removelast_last dummy Hs), flat_map_app. cbn [flat_map].
  rewrite app_nil_r, (skipn_last es (S j) dummy Hs). unfold entry_fwd, hop_fwd.
  rewrite app_assoc. apply finishes_nz.
  apply (inner_skip_last first es (S j)); [assumption | lia | assumption].
Qed.

Lemma last_ia_eq s : last_ia s = ae_ia (last (sg_entries s) dummy).
Proof. reflexivity. Qed.

(** ---- unpacking [wf_segment] ---- *)
Lemma wf_segment_parts s : wf_segment s = true ->
  inner_ifs_ok true (sg_entries s) = true /\
  (forall a p, In a (sg_entries s) -> In p (ae_peers a) -> h_in (pe_hop p) <> 0).
Proof.
  unfold wf_segment. intros H. repeat (apply andb_true_iff in H as [H ?]).
  split; [assumption|]. intros a p Ha Hp.
  match goal with H : forallb (fun a => forallb _ (ae_peers a)) _ = true |- _ =>
    rewrite forallb_forall in H; specialize (H _ Ha); rewrite forallb_forall in H;
    specialize (H _ Hp); now apply N.eqb_neq, negb_true_iff end.
Qed.

Section Pieces.
Variables ups cores downs : list segment.
Hypothesis WF : wf_input ups cores downs = true.

Lemma wf_up u : In u ups -> wf_segment u = true.
Proof.
  unfold wf_input in WF. apply andb_true_iff in WF as [W _]. apply andb_true_iff in W as [W _].
  rewrite forallb_forall in W. auto.
Qed.
Lemma wf_down d : In d downs -> wf_segment d = true.
Proof.
  unfold wf_input in WF. apply andb_true_iff in WF as [_ W]. rewrite forallb_forall in W. auto.
Qed.
Lemma wf_core_seg c : In c cores -> wf_segment c = true /\ (2 <= length (sg_entries c))%nat.
Proof.
  unfold wf_input in WF. apply andb_true_iff in WF as [W _]. apply andb_true_iff in W as [_ W].
  rewrite forallb_forall in W. intros H. specialize (W _ H). unfold wf_core in W.
  apply andb_true_iff in W as [W1 W2]. split; [assumption | now apply Nat.leb_le].
Qed.

Lemma up_piece_ends u p : In u ups -> up_piece u p ->
  starts (pc_from p) (pc_ifs p) /\ finishes (pc_to p) (pc_ifs p).
Proof.
  intros Hu Hp. destruct (wf_segment_parts _ (wf_up _ Hu)) as [Hi _].
  destruct Hp as [i c Hn Hl]. cbn [pc_from pc_to pc_ifs]. split.
  - rewrite last_ia_eq. eapply walk_bwd_starts; eauto. now apply skipn_nonempty.
  - apply finishes_nz1. eapply inner_eg; eauto.
Qed.

Lemma down_piece_ends d p : In d downs -> down_piece d p ->
  starts (pc_from p) (pc_ifs p) /\ finishes (pc_to p) (pc_ifs p).
Proof.
  intros Hd Hp. destruct (wf_segment_parts _ (wf_down _ Hd)) as [Hi _].
  destruct Hp as [j c Hn Hl]. cbn [pc_from pc_to pc_ifs]. split.
  - assert (E : h_eg (ae_hop c) <> 0) by (eapply inner_eg; eauto).
    unfold nz. apply N.eqb_neq in E. rewrite E. reflexivity.
  - rewrite last_ia_eq. eapply walk_fwd_finishes; eauto. now apply skipn_nonempty.
Qed.

Lemma core_piece_ends c p : In c cores -> core_piece c p ->
  starts (pc_from p) (pc_ifs p) /\ finishes (pc_to p) (pc_ifs p).
Proof.
  intros Hc Hp. destruct (wf_core_seg _ Hc) as [W L].
  destruct (wf_segment_parts _ W) as [Hi _]. destruct Hp as [Hne].
  cbn [pc_from pc_to pc_ifs]. destruct (sg_entries c) as [|a [|b t]] eqn:E; cbn in L; try lia.
  split.
  - rewrite last_ia_eq, E.
    assert (Hs : skipn 1 (a :: b :: t) <> []) by (cbn; discriminate).
    pose proof (walk_bwd_starts true (a :: b :: t) 0 (entry_bwd a) Hi Hs) as S.
    unfold walk_bwd in S. cbn [skipn] in S.
    change (rev (a :: b :: t)) with (rev (b :: t) ++ [a]). rewrite flat_map_app. cbn [flat_map].
    now rewrite app_nil_r.
  - unfold first_ia. rewrite E.
    change (rev (a :: b :: t)) with (rev (b :: t) ++ [a]). rewrite flat_map_app. cbn [flat_map].
    rewrite app_nil_r. unfold entry_bwd, hop_bwd. apply finishes_nz.
    apply (inner_eg true (a :: b :: t) 0 a Hi eq_refl). cbn. lia.
Qed.

Lemma up_half_starts u x : In u ups -> up_half u x -> starts (hf_end x) (hf_ifs x).
Proof.
  intros Hu Hx. destruct (wf_segment_parts _ (wf_up _ Hu)) as [Hi Hp].
  destruct Hx as [i c k p Hn Hk]. cbn [hf_end hf_ifs].
  destruct (skipn (S i) (sg_entries u)) as [|z zs] eqn:E.
  - unfold walk_bwd. rewrite E. cbn [rev flat_map app].
    rewrite last_ia_eq, (skipn_empty_last _ _ _ dummy Hn E). unfold hop_bwd.
    rewrite <- (app_nil_r (nz (ae_ia c) (h_in (pe_hop p)))). apply starts_nz.
    eapply Hp; [eapply nth_error_In; eauto | eapply nth_error_In; eauto].
  - rewrite last_ia_eq. eapply walk_bwd_starts; eauto. rewrite E. discriminate.
Qed.

Lemma down_half_finishes d y : In d downs -> down_half d y -> finishes (hf_end y) (hf_ifs y).
Proof.
  intros Hd Hy. destruct (wf_segment_parts _ (wf_down _ Hd)) as [Hi Hp].
  destruct Hy as [j c k p Hn Hk]. cbn [hf_end hf_ifs].
  destruct (skipn (S j) (sg_entries d)) as [|z zs] eqn:E.
  - unfold walk_fwd. rewrite E. cbn [flat_map]. rewrite app_nil_r.
    rewrite last_ia_eq, (skipn_empty_last _ _ _ dummy Hn E). unfold hop_fwd.
    apply (finishes_nz (ae_ia c) []).
    eapply Hp; [eapply nth_error_In; eauto | eapply nth_error_In; eauto].
  - rewrite last_ia_eq. eapply walk_fwd_finishes; eauto. rewrite E. discriminate.
Qed.

Lemma vc_endpoints src dst ifs : valid_combination ups cores downs src dst ifs ->
  starts src ifs /\ finishes dst ifs.
Proof.
  intros H.
  destruct H as [u p Hu Hp S D | c p Hc Hp S D | d p Hd Hp S D
                | u p c q Hu Hp Hc Hq S M D | u p d q Hu Hp Hd Hq S M D
                | c p d q Hc Hp Hd Hq S M D | u p c q d r Hu Hp Hc Hq Hd Hr S M1 M2 D
                | u x d y Hu Hx Hd Hy S L D]; subst src dst.
  - exact (up_piece_ends u p Hu Hp).
  - exact (core_piece_ends c p Hc Hp).
  - exact (down_piece_ends d p Hd Hp).
  - split; [apply starts_app, (up_piece_ends u p Hu Hp) | apply finishes_app, (core_piece_ends c q Hc Hq)].
  - split; [apply starts_app, (up_piece_ends u p Hu Hp) | apply finishes_app, (down_piece_ends d q Hd Hq)].
  - split; [apply starts_app, (core_piece_ends c p Hc Hp) | apply finishes_app, (down_piece_ends d q Hd Hq)].
  - split; [apply starts_app, (up_piece_ends u p Hu Hp)|].
    apply finishes_app, finishes_app, (down_piece_ends d r Hd Hr).
  - split; [apply starts_app, (up_half_starts u x Hu Hx) | apply finishes_app, (down_half_finishes d y Hd Hy)].
Qed.
End Pieces.

Lemma wf_valid_segment s : wf_segment s = true -> valid_segment s = true.
Proof.
  unfold wf_segment, valid_segment. intros H. repeat (apply andb_true_iff in H as [H ?]).
  apply andb_true_iff. split; assumption.
Qed.

Lemma wf_valid_input ups cores downs :
  wf_input ups cores downs = true -> valid_input ups cores downs = true.
Proof.
  unfold wf_input, valid_input. intros H. apply andb_true_iff in H as [H H3].
  apply andb_true_iff in H as [H1 H2].
  rewrite forallb_forall in H1, H2, H3.
  repeat (apply andb_true_iff; split); apply forallb_forall; intros s Hs; apply wf_valid_segment; auto.
  specialize (H2 _ Hs). unfold wf_core in H2. now apply andb_true_iff in H2 as [H2 _].
Qed.

(** The end points theorem for the combinator model. *)
Theorem combine_endpoints src dst ups cores downs fa ps p :
  wf_input (segs_of ups) (segs_of cores) (segs_of downs) = true ->
  combine src dst ups cores downs fa = Done ps -> In p ps ->
  exists i0 rest, p_ifs p = i0 :: rest /\ fst i0 = src /\ fst (last (p_ifs p) i0) = dst.
Proof.
  intros WF Hc Hp.
  pose proof (combine_sound src dst ups cores downs fa ps p (wf_valid_input _ _ _ WF) Hc Hp) as V.
  destruct (vc_endpoints _ _ _ WF _ _ _ V) as [S F]. now apply ends_last.
Qed.

(** seg.Validate alone is not enough: an inner entry without ingress interface. *)
Definition bad_up : segment :=
  mkSeg 1700000000 7
    [mkAS 10 (mkHop 0 1 63 [1;1;1;1;1;1]) 0 1500 [];
     mkAS 11 (mkHop 0 2 63 [2;2;2;2;2;2]) 1400 1500 [];
     mkAS 12 (mkHop 0 0 63 [3;3;3;3;3;3]) 1400 1500 []].

Lemma zero_ingress_witness :
  valid_input [bad_up] [] [] = true /\ wf_input [bad_up] [] [] = false /\
  match combine 12 10 [(1, bad_up)] [] [] false with
  | Done [p] => p_ifs p = [(11, 2); (10, 1)]
  | _ => False
  end.
Proof. vm_compute. repeat split; reflexivity. Qed.
