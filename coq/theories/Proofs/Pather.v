(** Lemmas about Model/Pather.v. *)
From Coq Require Import List NArith ZArith Bool Lia.
From Scion Require Import Lib.Check Model.Pather.
Import ListNotations.
Import Pather.
Local Open Scope N_scope.

(** ---------------------------------------------------------------- basics *)
Lemma ia_eqb_eq a b : ia_eqb a b = true <-> a = b.
Proof.
  destruct a as [a1 a2], b as [b1 b2]. unfold ia_eqb; cbn [fst snd].
  rewrite andb_true_iff, !N.eqb_eq. split.
  - intros [-> ->]. reflexivity.
  - intros E. inversion E. auto.
Qed.

Lemma ia_eqb_refl a : ia_eqb a a = true.
Proof. now apply ia_eqb_eq. Qed.

Lemma ia_eqb_sym a b : ia_eqb a b = ia_eqb b a.
Proof. unfold ia_eqb. now rewrite (N.eqb_sym (fst a)), (N.eqb_sym (snd a)). Qed.

Lemma mem_ia_In x l : mem_ia x l = true <-> In x l.
Proof.
  unfold mem_ia. rewrite existsb_exists. split.
  - intros [y [Hy E]]. apply ia_eqb_eq in E. now subst.
  - intros H. exists x. split; [assumption | apply ia_eqb_refl].
Qed.

Lemma zero_neq a : isd a <> 0 -> ia_eqb zero a = false /\ ia_eqb a zero = false.
Proof.
  intros H. destruct a as [i n]. unfold ia_eqb, zero, isd in *. cbn [fst snd] in *.
  apply N.eqb_neq in H. rewrite (N.eqb_sym 0 i), H. auto.
Qed.

Lemma mem_filter_isd dst (cores : list ia) i : isd dst = i ->
  mem_ia dst (filter (fun c => isd c =? i) cores) = mem_ia dst cores.
Proof.
  intros Hi. destruct (mem_ia dst cores) eqn:E.
  - apply mem_ia_In. apply mem_ia_In in E. apply filter_In. split; [assumption|].
    now apply N.eqb_eq.
  - destruct (mem_ia dst (filter _ cores)) eqn:E'; [|reflexivity].
    apply mem_ia_In, filter_In in E' as [E' _]. apply mem_ia_In in E'. congruence.
Qed.

Lemma In_single_filter (c : ia) (cores : list ia) i :
  filter (fun c => isd c =? i) cores = [c] -> isd c = i.
Proof.
  intros E. assert (H : In c (filter (fun c => isd c =? i) cores)) by (rewrite E; now left).
  apply filter_In in H as [_ H]. now apply N.eqb_eq.
Qed.

(** ---------------------------------------------------------------- the splitter equals its table *)
Lemma split_eq_spec sp dst :
  isd (sp_local sp) <> 0 -> isd dst <> 0 -> split sp dst = split_spec sp dst.
Proof.
  intros Hs Hd. destruct sp as [src sc oi]. cbn [sp_local] in Hs.
  unfold split, split_spec. cbn [sp_local sp_core sp_insp].
  destruct oi as [insp|]; [|destruct sc; reflexivity].
  destruct (zero_neq _ Hs) as [Zs Zs']. destruct (zero_neq _ Hd) as [Zd Zd'].
  unfold inspect, needs_lookup, classify, single_core, cores_of.
  destruct (N.eqb_spec (isd src) (isd dst)) as [Es|Es]; cbn [negb orb andb].
  - (* same ISD *)
    destruct (i_fail insp); [reflexivity|].
    rewrite (mem_filter_isd dst (i_cores insp) (isd src)) by congruence.
    destruct (filter (fun c => isd c =? isd src) (i_cores insp)) as [|c [|c' t]] eqn:F.
    + (* no core *)
      destruct (mem_ia dst (i_cores insp)), (wildcard dst), sc; cbv beta iota;
        unfold is_zero; rewrite ?ia_eqb_refl, ?Zs, ?Zd; reflexivity.
    + (* exactly one *)
      assert (Hc : isd c <> 0) by (rewrite (In_single_filter _ _ _ F); assumption).
      destruct (mem_ia dst (i_cores insp)), (wildcard dst), sc; cbv beta iota;
        unfold is_zero; rewrite ?(proj2 (zero_neq _ Hc));
        destruct (ia_eqb c dst), (ia_eqb c src); reflexivity.
    + destruct (mem_ia dst (i_cores insp)), (wildcard dst), sc; cbv beta iota;
        unfold is_zero; rewrite ?ia_eqb_refl, ?Zs, ?Zd; reflexivity.
  - (* different ISD *)
    destruct (wildcard dst); cbn [negb orb andb].
    + destruct sc; cbv beta iota; unfold is_zero; rewrite ?ia_eqb_refl, ?Zs, ?Zd; reflexivity.
    + destruct (i_fail insp); [reflexivity|].
      destruct (mem_ia dst (i_cores insp)), sc; cbv beta iota;
        unfold is_zero; rewrite ?ia_eqb_refl, ?Zs, ?Zd; reflexivity.
Qed.

(** the semantic law of the request list (with an inspector) *)
Lemma split_chain sp insp dst reqs :
  sp_insp sp = Some insp -> isd (sp_local sp) <> 0 -> isd dst <> 0 ->
  split sp dst = SplitOk reqs ->
  reqs <> [] /\ chain_from (sp_local sp) 0 reqs dst
  /\ has_type Up reqs = negb (sp_core sp)
  /\ has_type Down reqs = negb (wildcard dst || mem_ia dst (i_cores insp))
  /\ (length reqs <= 3)%nat.
Proof.
  intros Hi Hs Hd E. rewrite split_eq_spec in E by assumption.
  unfold split_spec in E. rewrite Hi in E.
  destruct (needs_lookup (sp_local sp) dst && i_fail insp); [discriminate|].
  unfold classify in E. cbv zeta in E.
  destruct (sp_core sp), (wildcard dst), (mem_ia dst (i_cores insp)),
    (isd (sp_local sp) =? isd dst);
    try destruct (single_core (i_cores insp) (isd (sp_local sp))) as [c|];
    try destruct (ia_eqb c (sp_local sp)); try destruct (ia_eqb c dst);
    try destruct (ia_eqb zero (sp_local sp)); try destruct (ia_eqb zero dst);
    cbn in E; inversion E; subst reqs; cbn;
    repeat split; try reflexivity; try discriminate; try (repeat constructor).
Qed.

(** the ISD a requested segment starts in *)
Lemma split_req_shape sp dst reqs r :
  isd dst <> 0 -> split sp dst = SplitOk reqs -> In r reqs ->
  (rq_type r = Core -> isd (rq_dst r) = isd dst) /\
  (rq_type r = Up -> isd (rq_dst r) = isd (sp_local sp)).
Proof.
  intros Hd. destruct (zero_neq _ Hd) as [Zd Zd'].
  destruct sp as [src sc oi]. unfold split. cbn [sp_local sp_core sp_insp].
  assert (Fin : forall l, SplitOk l = SplitOk reqs -> In r reqs ->
            Forall (fun r => (rq_type r = Core -> isd (rq_dst r) = isd dst) /\
                             (rq_type r = Up -> isd (rq_dst r) = isd src)) l ->
            (rq_type r = Core -> isd (rq_dst r) = isd dst) /\
            (rq_type r = Up -> isd (rq_dst r) = isd src)).
  { intros l E Hin F. inversion E; subst l. rewrite Forall_forall in F. auto. }
  assert (T1 : forall t a b, t <> Core -> t <> Up ->
            (rq_type (mkreq t a b) = Core -> isd (rq_dst (mkreq t a b)) = isd dst) /\
            (rq_type (mkreq t a b) = Up -> isd (rq_dst (mkreq t a b)) = isd src)).
  { intros t a b H1 H2. cbn. split; intros; congruence. }
  assert (TC : forall a b, isd b = isd dst ->
            (rq_type (mkreq Core a b) = Core -> isd (rq_dst (mkreq Core a b)) = isd dst) /\
            (rq_type (mkreq Core a b) = Up -> isd (rq_dst (mkreq Core a b)) = isd src)).
  { intros a b H. cbn. split; [auto | discriminate]. }
  assert (TU : forall a b, isd b = isd src ->
            (rq_type (mkreq Up a b) = Core -> isd (rq_dst (mkreq Up a b)) = isd dst) /\
            (rq_type (mkreq Up a b) = Up -> isd (rq_dst (mkreq Up a b)) = isd src)).
  { intros a b H. cbn. split; [discriminate | auto]. }
  assert (TD : forall a b,
            (rq_type (mkreq Down a b) = Core -> isd (rq_dst (mkreq Down a b)) = isd dst) /\
            (rq_type (mkreq Down a b) = Up -> isd (rq_dst (mkreq Down a b)) = isd src)).
  { intros a b. apply T1; discriminate. }
  destruct oi as [insp|].
  - unfold inspect, cores_of.
    destruct (N.eqb_spec (isd src) (isd dst)) as [Es|Es]; cbn [negb].
    + destruct (i_fail insp); [discriminate|].
      set (cs := filter (fun c => isd c =? isd src) (i_cores insp)).
      assert (Hsingle : forall c, cs = [c] -> isd c = isd src)
        by (intros c; apply In_single_filter).
      set (single := match cs with [c] => c | _ => zero end).
      assert (Hs1 : is_zero single = false -> isd single = isd src).
      { unfold single. destruct cs as [|c [|c' t]]; try (unfold is_zero; rewrite ia_eqb_refl; discriminate).
        intros _. now apply Hsingle. }
      assert (Hs2 : ia_eqb single dst = true -> isd dst = isd src).
      { intros E. apply ia_eqb_eq in E. rewrite <- E. apply Hs1.
        unfold is_zero. rewrite E. exact Zd'. }
      destruct (mem_ia dst cs), sc, (wildcard dst) eqn:W; cbn [andb orb];
        repeat match goal with
        | |- context [if ?c then _ else _] => destruct c eqn:?
        end;
        intros E Hin; eapply Fin; try eassumption;
        repeat constructor; try apply TD; try (apply TC; reflexivity); try (apply TC; assumption);
        try (apply TU; reflexivity); try (apply TU; congruence);
        try (apply TU; apply Hs1; apply negb_true_iff; assumption);
        try (apply TU; symmetry; assumption);
        try (apply TU; apply Hs2; assumption).
    + destruct (wildcard dst).
      * cbv beta iota. unfold is_zero. rewrite ?ia_eqb_refl, ?Zd. cbn [negb andb orb].
        destruct sc; repeat match goal with
        | |- context [if ?c then _ else _] => destruct c eqn:?
        end; intros E Hin; eapply Fin; try eassumption;
        repeat constructor; try apply TD; try (apply TC; reflexivity); try (apply TU; reflexivity).
      * destruct (i_fail insp); [discriminate|].
        destruct (mem_ia dst (i_cores insp)), sc; cbv beta iota;
        unfold is_zero; rewrite ?ia_eqb_refl, ?Zd; cbn [negb andb orb];
        repeat match goal with
        | |- context [if ?c then _ else _] => destruct c eqn:?
        end; intros E Hin; eapply Fin; try eassumption;
        repeat constructor; try apply TD; try (apply TC; reflexivity); try (apply TU; reflexivity).
  - destruct sc; intros E Hin; eapply Fin; try eassumption;
      repeat constructor; try apply TD; try (apply TC; reflexivity); try (apply TU; reflexivity).
Qed.

(** ---------------------------------------------------------------- the Pather *)
Lemma ia_match_isd pat x : ia_match pat x = true -> isd pat = isd x.
Proof.
  unfold ia_match. destruct (wildcard pat).
  - apply N.eqb_eq.
  - intros E. apply ia_eqb_eq in E. now subst.
Qed.

Lemma In_dedup x l : In x (dedup l) -> In x l.
Proof.
  induction l as [|a t IH]; cbn [dedup]; [tauto|].
  destruct (mem_ia a t); cbn [In]; intuition.
Qed.

Lemma In_of_type s t segs : In s (of_type t segs) <-> In s segs /\ sg_type s = t.
Proof. unfold of_type. rewrite filter_In, N.eqb_eq. tauto. Qed.

Section WithEnv.
Variable fetch : list req -> list seg * bool.
Variable combine : ia -> ia -> list seg -> list seg -> list seg -> list cpath.
Variable rev_active : iface -> bool.
Variable nexthop : N -> bool.

(** what the property needs of the combinator (C28): every path lists at least
    one interface, starts at the source and ends at the destination *)
Definition comb_ok (src : ia) : Prop :=
  forall d up core down p, In p (combine src d up core down) ->
    exists i0 rest, p_ifs p = i0 :: rest /\ fst i0 = src /\ fst (last (p_ifs p) i0) = d.

(** the same, required only for segment sets satisfying [P] *)
Definition comb_ok_on (P : list seg -> list seg -> list seg -> Prop) (src : ia) : Prop :=
  forall d up core down p, P up core down -> In p (combine src d up core down) ->
    exists i0 rest, p_ifs p = i0 :: rest /\ fst i0 = src /\ fst (last (p_ifs p) i0) = d.

(** [P] holds of what the fetcher returns *)
Definition fetched_sat (P : list seg -> list seg -> list seg -> Prop) : Prop :=
  forall reqs, P (of_type Up (fst (fetch reqs))) (of_type Core (fst (fetch reqs)))
                 (of_type Down (fst (fetch reqs))).

(** the Fetcher contract: only segments that answer one of the requests *)
Definition fetch_ok : Prop :=
  forall reqs s, In s (fst (fetch reqs)) -> exists r, In r reqs /\ seg_matches r s = true.

Lemma translate_paths_In ps : forall l r,
  translate_paths nexthop ps = Some l -> In r l ->
  exists p, In p ps /\ translate_path nexthop p = TrOk r.
Proof.
  induction ps as [|p t IH]; cbn [translate_paths]; intros l r E Hr.
  - inversion E; subst. destruct Hr.
  - destruct (translate_path nexthop p) as [r0| |] eqn:Tp; [| |discriminate];
      destruct (translate_paths nexthop t) as [l0|]; try discriminate; inversion E; subst l.
    + destruct Hr as [<-|Hr].
      * exists p. split; [now left | assumption].
      * destruct (IH _ _ eq_refl Hr) as [p' [H1 H2]]. exists p'. split; [now right | assumption].
    + destruct (IH _ _ eq_refl Hr) as [p' [H1 H2]]. exists p'. split; [now right | assumption].
Qed.

Lemma translate_paths_no_panic ps :
  (forall p, In p ps -> p_ifs p <> []) -> translate_paths nexthop ps <> None.
Proof.
  induction ps as [|p t IH]; cbn [translate_paths]; intros H; [discriminate|].
  assert (Hp : p_ifs p <> []) by (apply H; now left).
  assert (Ht : translate_paths nexthop t <> None) by (apply IH; intros q Hq; apply H; now right).
  unfold translate_path. destruct (p_ifs p) as [|i0 rest]; [congruence|].
  destruct (nexthop (snd i0)); destruct (translate_paths nexthop t); congruence.
Qed.

Lemma In_filtered now local dst segs p :
  In p (filter_revoked rev_active (build_all_paths combine now local dst segs)) ->
  (exists d, In d (find_destinations local dst (of_type Up segs) (of_type Core segs))
             /\ In p (combine local d (of_type Up segs) (of_type Core segs) (of_type Down segs)))
  /\ (p_exp p > now)%Z
  /\ (forall i, In i (p_ifs p) -> rev_active i = false).
Proof.
  unfold filter_revoked, build_all_paths. intros H.
  apply filter_In in H as [H Hr]. apply filter_In in H as [H He].
  apply in_flat_map in H. split; [exact H|]. split.
  - apply Z.gtb_lt in He. lia.
  - intros i Hi. apply negb_true_iff in Hr.
    destruct (rev_active i) eqn:E; [|reflexivity].
    assert (existsb rev_active (p_ifs p) = true) by (apply existsb_exists; eauto). congruence.
Qed.

(** the shape of a successful result *)
Lemma get_paths_ok sp now dst l :
  get_paths fetch combine rev_active nexthop sp now dst = GOk l ->
  (ia_eqb dst (sp_local sp) = true /\ isd dst <> 0 /\
   l = [mkrpath (sp_local sp) dst [] (now + max_ttl)])
  \/ (ia_eqb dst (sp_local sp) = false /\ isd dst <> 0 /\
      exists reqs, split sp dst = SplitOk reqs /\
        forall r, In r l ->
          exists p, In p (filter_revoked rev_active
                            (build_all_paths combine now (sp_local sp) dst (fst (fetch reqs))))
                    /\ translate_path nexthop p = TrOk r).
Proof.
  unfold get_paths. destruct (N.eqb_spec (isd dst) 0) as [Ez|Ez]; [discriminate|].
  destruct (ia_eqb dst (sp_local sp)) eqn:El.
  - intros E. inversion E. left. auto.
  - destruct (split sp dst) as [reqs|] eqn:Es; [|discriminate].
    destruct (fetch reqs) as [segs ferr] eqn:Ef. cbn [fst].
    set (paths := filter_revoked rev_active (build_all_paths combine now (sp_local sp) dst segs)).
    intros E. right. split; [reflexivity|]. split; [assumption|]. exists reqs. split; [reflexivity|].
    destruct paths as [|p0 pt] eqn:Ep.
    + destruct ferr; inversion E; subst l. intros r [].
    + destruct (translate_paths nexthop (p0 :: pt)) as [[|r0 rt]|] eqn:Et; try discriminate.
      inversion E; subst l. intros r Hr.
      destruct (translate_paths_In _ _ _ Et Hr) as [p [H1 H2]]. exists p. split; [|exact H2].
      rewrite Ef. cbn [fst]. fold paths. rewrite Ep. exact H1.
Qed.

Lemma translate_ok_fields p r : translate_path nexthop p = TrOk r ->
  r_ifs r = p_ifs p /\ r_exp r = p_exp p /\
  exists i0 rest, p_ifs p = i0 :: rest /\ r_src r = fst i0 /\ r_dst r = fst (last (p_ifs p) i0).
Proof.
  unfold translate_path. destruct (p_ifs p) as [|i0 rest] eqn:E; [discriminate|].
  destruct (nexthop (snd i0)); [|discriminate]. intros H. inversion H; subst r. cbn.
  repeat split. eauto.
Qed.

Theorem endpoints_on P sp now dst l r :
  comb_ok_on P (sp_local sp) -> fetched_sat P -> fetch_ok -> wildcard (sp_local sp) = false ->
  get_paths fetch combine rev_active nexthop sp now dst = GOk l -> In r l ->
  r_src r = sp_local sp
  /\ (wildcard dst = false -> r_dst r = dst)
  /\ (wildcard dst = true ->
      isd (r_dst r) = isd dst /\
      exists s, In s (fst (fetch (requests sp dst))) /\ sg_first s = r_dst r /\
                (sg_type s = Core \/ (sg_type s = Up /\ isd dst = isd (sp_local sp)))).
Proof.
  intros Hc HP Hf Hl E Hr. apply get_paths_ok in E as [[El [Ez ->]]|[El [Ez [reqs [Es Hall]]]]].
  - destruct Hr as [<-|[]]. cbn. apply ia_eqb_eq in El. subst dst.
    split; [reflexivity|]. split; [reflexivity | congruence].
  - destruct (Hall _ Hr) as [p [Hp Ht]].
    apply In_filtered in Hp as [[d [Hd Hcmb]] _].
    destruct (translate_ok_fields _ _ Ht) as [_ [_ [i0 [rest [Ei [Esrc Edst]]]]]].
    destruct (Hc _ _ _ _ _ (HP reqs) Hcmb) as [j0 [rest' [Ej [Hj1 Hj2]]]].
    rewrite Ei in Ej. inversion Ej; subst j0 rest'. rewrite Esrc, Edst, Hj1, Hj2.
    assert (Ereq : requests sp dst = reqs).
    { unfold requests. destruct (N.eqb_spec (isd dst) 0); [contradiction|].
      rewrite El, Es. reflexivity. }
    split; [reflexivity|]. unfold find_destinations in Hd. split.
    + intros W. rewrite W in Hd. destruct Hd as [<-|[]]. reflexivity.
    + intros W. rewrite W in Hd. cbn [negb] in Hd. apply In_dedup in Hd.
      rewrite Ereq. apply in_app_iff in Hd as [Hd|Hd].
      * unfold firsts in Hd. apply in_map_iff in Hd as [s [E1 Hs]].
        apply In_of_type in Hs as [Hs Ty]. destruct (Hf _ _ Hs) as [rq [Hrq M]].
        destruct (split_req_shape _ _ _ _ Ez Es Hrq) as [Sc _].
        unfold seg_matches in M. apply andb_true_iff in M as [M1 M2]. apply N.eqb_eq in M1.
        assert (Tc : rq_type rq = Core) by congruence. rewrite Tc in M2. cbn in M2.
        apply andb_true_iff in M2 as [M2 _]. apply ia_match_isd in M2.
        split; [rewrite <- E1, <- M2; auto | eauto 6].
      * destruct (N.eqb_spec (isd dst) (isd (sp_local sp))) as [Ei'|Ei']; [|destruct Hd].
        unfold firsts in Hd. apply in_map_iff in Hd as [s [E1 Hs]].
        apply In_of_type in Hs as [Hs Ty]. destruct (Hf _ _ Hs) as [rq [Hrq M]].
        destruct (split_req_shape _ _ _ _ Ez Es Hrq) as [_ Su].
        unfold seg_matches in M. apply andb_true_iff in M as [M1 M2]. apply N.eqb_eq in M1.
        assert (Tu : rq_type rq = Up) by congruence. rewrite Tu in M2. cbn in M2.
        apply andb_true_iff in M2 as [M2 _]. apply ia_match_isd in M2.
        split; [rewrite <- E1, <- M2, Su by assumption; auto | eauto 8].
Qed.

Theorem endpoints sp now dst l r :
  comb_ok (sp_local sp) -> fetch_ok -> wildcard (sp_local sp) = false ->
  get_paths fetch combine rev_active nexthop sp now dst = GOk l -> In r l ->
  r_src r = sp_local sp
  /\ (wildcard dst = false -> r_dst r = dst)
  /\ (wildcard dst = true ->
      isd (r_dst r) = isd dst /\
      exists s, In s (fst (fetch (requests sp dst))) /\ sg_first s = r_dst r /\
                (sg_type s = Core \/ (sg_type s = Up /\ isd dst = isd (sp_local sp)))).
Proof.
  intros Hc. apply (endpoints_on (fun _ _ _ => True)).
  - intros d up core down p _. apply Hc.
  - intros reqs. exact I.
Qed.

Theorem live sp now dst l r :
  get_paths fetch combine rev_active nexthop sp now dst = GOk l -> In r l -> (r_exp r > now)%Z.
Proof.
  intros E Hr. apply get_paths_ok in E as [[_ [_ ->]]|[_ [_ [reqs [_ Hall]]]]].
  - destruct Hr as [<-|[]]. cbn. unfold max_ttl. lia.
  - destruct (Hall _ Hr) as [p [Hp Ht]]. apply In_filtered in Hp as [_ [He _]].
    destruct (translate_ok_fields _ _ Ht) as [_ [-> _]]. exact He.
Qed.

Theorem unrevoked sp now dst l r i :
  get_paths fetch combine rev_active nexthop sp now dst = GOk l -> In r l ->
  In i (r_ifs r) -> rev_active i = false.
Proof.
  intros E Hr Hi. apply get_paths_ok in E as [[_ [_ ->]]|[_ [_ [reqs [_ Hall]]]]].
  - destruct Hr as [<-|[]]. destruct Hi.
  - destruct (Hall _ Hr) as [p [Hp Ht]]. apply In_filtered in Hp as [_ [_ Hrv]].
    destruct (translate_ok_fields _ _ Ht) as [Eifs _]. rewrite Eifs in Hi. auto.
Qed.

Theorem local_path sp now : isd (sp_local sp) <> 0 ->
  get_paths fetch combine rev_active nexthop sp now (sp_local sp)
  = GOk [mkrpath (sp_local sp) (sp_local sp) [] (now + max_ttl)].
Proof.
  intros H. unfold get_paths. destruct (N.eqb_spec (isd (sp_local sp)) 0); [contradiction|].
  now rewrite ia_eqb_refl.
Qed.

Theorem no_panic sp now dst :
  comb_ok (sp_local sp) -> get_paths fetch combine rev_active nexthop sp now dst <> GPanic.
Proof.
  intros Hc. unfold get_paths. destruct (isd dst =? 0); [discriminate|].
  destruct (ia_eqb dst (sp_local sp)); [discriminate|].
  destruct (split sp dst) as [reqs|]; [|discriminate].
  destruct (fetch reqs) as [segs ferr].
  set (paths := filter_revoked rev_active (build_all_paths combine now (sp_local sp) dst segs)).
  assert (Hne : forall p, In p paths -> p_ifs p <> []).
  { intros p Hp. apply In_filtered in Hp as [[d [_ Hcmb]] _].
    destruct (Hc _ _ _ _ _ Hcmb) as [i0 [rest [E _]]]. congruence. }
  pose proof (translate_paths_no_panic paths Hne) as Hn.
  destruct paths as [|p0 pt]; [destruct ferr; discriminate|].
  destruct (translate_paths nexthop (p0 :: pt)) as [[|r0 rt]|]; congruence.
Qed.

(** wildcard destinations: with a predicate for core ASes and the fact that up
    segments start at, and core segments connect, core ASes, the path ends at a
    core AS of the requested ISD *)
Variable is_core : ia -> bool.
Definition segs_core_ok : Prop :=
  forall reqs s, In s (fst (fetch reqs)) -> sg_type s = Core \/ sg_type s = Up ->
    is_core (sg_first s) = true.

Theorem wildcard_core P sp now dst l r :
  comb_ok_on P (sp_local sp) -> fetched_sat P -> fetch_ok -> segs_core_ok ->
  wildcard (sp_local sp) = false ->
  get_paths fetch combine rev_active nexthop sp now dst = GOk l -> In r l ->
  wildcard dst = true -> isd (r_dst r) = isd dst /\ is_core (r_dst r) = true.
Proof.
  intros Hc HP Hf Hk Hl E Hr W.
  destruct (endpoints_on P sp now dst l r Hc HP Hf Hl E Hr) as [_ [_ H]].
  destruct (H W) as [Hi [s [Hs [Hfst Ht]]]]. split; [exact Hi|].
  rewrite <- Hfst. apply (Hk _ _ Hs). destruct Ht as [Ht|[Ht _]]; auto.
Qed.

End WithEnv.

(** ---------------------------------------------------------------- the oracle on the model *)
Lemma pool_fetch_ok pool fail : fetch_ok (pool_fetch pool fail).
Proof.
  intros reqs s. unfold pool_fetch. destruct fail; cbn [fst]; [intros []|].
  intros H. apply filter_In in H as [_ H]. apply existsb_exists in H. exact H.
Qed.

(** well-formedness of the combinator output shipped with a case *)
Definition comb_wf (local : ia) (tbl : list (ia * list cpath)) : Prop :=
  forall d l p, lookup_ia d tbl = Some l -> In p l ->
    exists i0 rest, p_ifs p = i0 :: rest /\ fst i0 = local /\ fst (last (p_ifs p) i0) = d.

Lemma req_eqb_refl r : req_eqb r r = true.
Proof. unfold req_eqb. now rewrite N.eqb_refl, !ia_eqb_refl. Qed.

Lemma set_eqb_refl {A} (eqb : A -> A -> bool) (l : list A) :
  (forall a, eqb a a = true) -> set_eqb eqb l l = true.
Proof.
  intros H. unfold set_eqb. assert (forallb (fun a => existsb (eqb a) l) l = true).
  { apply forallb_forall. intros a Ha. apply existsb_exists. eauto. }
  now rewrite H0.
Qed.

Lemma comb_wf_ok local tbl : comb_wf local tbl -> comb_ok (table_combine tbl) local.
Proof.
  intros H d up core down p. unfold table_combine.
  destruct (lookup_ia d tbl) as [l|] eqn:E; [|intros []]. intros Hp. eapply H; eauto.
Qed.

Lemma requests_spec e : isd (sp_local (e_sp e)) <> 0 ->
  requests (e_sp e) (e_dst e) = spec_requests e.
Proof.
  intros Hl. unfold requests, spec_requests.
  destruct (N.eqb_spec (isd (e_dst e)) 0) as [Ez|Ez]; [reflexivity|]. cbn [orb].
  destruct (ia_eqb (e_dst e) (sp_local (e_sp e))); [reflexivity|].
  now rewrite split_eq_spec.
Qed.

(** up and core segments of the pool start at core ASes of the case's topology *)
Definition pool_core_ok (e : env) : Prop :=
  forall s, In s (e_pool e) -> sg_type s = Core \/ sg_type s = Up ->
    mem_ia (sg_first s) (e_cores e) = true.

Lemma oracle_model e :
  isd (sp_local (e_sp e)) <> 0 -> wildcard (sp_local (e_sp e)) = false ->
  comb_wf (sp_local (e_sp e)) (e_comb e) -> pool_core_ok e ->
  oracle e (requests (e_sp e) (e_dst e)) (res_ok (model_paths e)) (res_paths (model_paths e)) = true.
Proof.
  intros Hl Hw Hc Hk. unfold oracle. apply andb_true_iff. split; [apply andb_true_iff; split|].
  - rewrite requests_spec by assumption. apply set_eqb_refl, req_eqb_refl.
  - unfold model_paths.
    set (fe := pool_fetch (e_pool e) (e_fetch_fail e)).
    set (cb := table_combine (e_comb e)). set (rv := revs_active 0 (e_revs e)).
    set (nh := nexthop_of (e_missing e)).
    destruct (get_paths fe cb rv nh (e_sp e) 0 (e_dst e)) as [l| |] eqn:G; try reflexivity.
    cbn [res_paths]. apply forallb_forall. intros o Ho. apply in_map_iff in Ho as [r [<- Hr]].
    pose proof (endpoints fe cb rv nh (e_sp e) 0 (e_dst e) l r
                  (comb_wf_ok _ _ Hc) (pool_fetch_ok _ _) Hw G Hr) as [Hsrc [Hd1 Hd2]].
    pose proof (live fe cb rv nh _ _ _ _ _ G Hr) as Hlive.
    unfold opath_of, path_ok.
    apply andb_true_iff; split; [apply andb_true_iff; split|];
      [apply orb_true_iff; right; apply andb_true_iff; split| |].
    + apply ia_eqb_eq. exact Hsrc.
    + unfold dst_ok. destruct (wildcard (e_dst e)) eqn:W; cbn [negb].
      * destruct (Hd2 eq_refl) as [Hi [s [Hs [Hf Ht]]]]. apply andb_true_iff. split.
        -- apply andb_true_iff. split; [now apply N.eqb_eq|]. rewrite <- Hf. apply Hk.
           ++ unfold fe, pool_fetch in Hs. destruct (e_fetch_fail e); [destruct Hs|].
              now apply filter_In in Hs as [Hs _].
           ++ destruct Ht as [Ht|[Ht _]]; auto.
        -- apply mem_ia_In. fold fe. apply in_app_iff. destruct Ht as [Ht|[Ht Hi']].
           ++ left. unfold firsts. apply in_map_iff. exists s. split; [assumption|].
              now apply In_of_type.
           ++ right. rewrite Hi', N.eqb_refl. unfold firsts. apply in_map_iff. exists s.
              split; [assumption|]. now apply In_of_type.
      * apply ia_eqb_eq. now apply Hd1.
    + apply Z.gtb_lt. lia.
    + apply negb_true_iff. fold rv. destruct (existsb rv (r_ifs r)) eqn:Ex; [|reflexivity].
      apply existsb_exists in Ex as [i [Hi Hv]].
      rewrite (unrevoked fe cb rv nh _ _ _ _ _ _ G Hr Hi) in Hv. discriminate.
  - destruct (ia_eqb (e_dst e) (sp_local (e_sp e))) eqn:El; [|reflexivity].
    destruct (N.eqb_spec (isd (e_dst e)) 0) as [Ez|Ez]; [reflexivity|]. cbn [negb andb orb].
    apply ia_eqb_eq in El. unfold model_paths. rewrite El, local_path by assumption. reflexivity.
Qed.
