(** Lemmas about Model/TrustStore.v (C35). *)
From Coq Require Import List NArith ZArith Bool Lia.
From Scion Require Import Lib.Check Model.PKIChain Model.TrustStore.
Import ListNotations.
Import PKIChain TrustStore.
Local Open Scope N_scope.

Lemma id_le_iff t u : id_le t u = true <->
  t_base t < t_base u \/ (t_base t = t_base u /\ t_serial t <= t_serial u).
Proof. unfold id_le. rewrite orb_true_iff, andb_true_iff, N.ltb_lt, N.eqb_eq, N.leb_le. tauto. Qed.

Lemma id_le_refl t : id_le t t = true.
Proof. apply id_le_iff. right. split; [reflexivity | apply N.le_refl]. Qed.

Lemma id_le_trans a b c : id_le a b = true -> id_le b c = true -> id_le a c = true.
Proof. rewrite !id_le_iff. lia. Qed.

Lemma id_lt_iff b1 s1 b2 s2 : id_lt b1 s1 b2 s2 = true <-> b1 < b2 \/ (b1 = b2 /\ s1 < s2).
Proof. unfold id_lt. rewrite orb_true_iff, andb_true_iff, !N.ltb_lt, N.eqb_eq. tauto. Qed.

(** ---------------------------------------------------------------- latest_trc *)

Lemma latest_in s isd l : latest_trc s isd = Some l -> In l s /\ t_isd l = isd.
Proof.
  induction s as [|t r IH]; cbn [latest_trc]; try discriminate.
  destruct (t_isd t =? isd) eqn:E.
  - destruct (latest_trc r isd) as [u|].
    + destruct (id_lt (t_base t) (t_serial t) (t_base u) (t_serial u)); intros H; inversion H; subst.
      * destruct (IH eq_refl). split; [now right | assumption].
      * split; [now left | now apply N.eqb_eq].
    + intros H; inversion H; subst. split; [now left | now apply N.eqb_eq].
  - intros H. destruct (IH H). split; [now right | assumption].
Qed.

Lemma latest_none_notin s isd : latest_trc s isd = None -> forall t, In t s -> t_isd t <> isd.
Proof.
  induction s as [|y r IH]; intros L t Hin; [destruct Hin|]. cbn [latest_trc] in L.
  destruct (t_isd y =? isd) eqn:Ey.
  - destruct (latest_trc r isd); [destruct (id_lt _ _ _ _)|]; discriminate.
  - destruct Hin as [<-|Hin]; [now apply N.eqb_neq in Ey | now apply IH].
Qed.

Lemma latest_max s isd : forall l, latest_trc s isd = Some l ->
  forall t, In t s -> t_isd t = isd -> id_le t l = true.
Proof.
  induction s as [|t r IH]; cbn [latest_trc]; intros l H x Hin Hx; [destruct Hin|].
  destruct (t_isd t =? isd) eqn:E.
  - destruct (latest_trc r isd) as [u|] eqn:L.
    + destruct (id_lt (t_base t) (t_serial t) (t_base u) (t_serial u)) eqn:C;
        injection H as <-; destruct Hin as [<-|Hin].
      * apply id_lt_iff in C. apply id_le_iff. lia.
      * now apply IH.
      * apply id_le_refl.
      * specialize (IH u eq_refl x Hin Hx). apply id_le_iff in IH. apply id_le_iff.
        assert (C' : ~ (t_base t < t_base u \/ (t_base t = t_base u /\ t_serial t < t_serial u))).
        { intros K. apply id_lt_iff in K. congruence. }
        lia.
    + injection H as <-. destruct Hin as [<-|Hin]; [apply id_le_refl|].
      exfalso. eapply latest_none_notin; eauto.
  - destruct Hin as [<-|Hin]; [apply N.eqb_neq in E; contradiction|]. now apply IH.
Qed.

Lemma latest_some s isd t : In t s -> t_isd t = isd -> exists l, latest_trc s isd = Some l.
Proof.
  induction s as [|y r IH]; intros Hin Ht; [destruct Hin|]. cbn [latest_trc].
  destruct (t_isd y =? isd) eqn:E.
  - destruct (latest_trc r isd) as [u|]; [destruct (id_lt _ _ _ _)|]; eauto.
  - destruct Hin as [<-|Hin]; [apply N.eqb_neq in E; contradiction | now apply IH].
Qed.

Lemma find_trc_none s isd base serial cur :
  (forall t, In t s -> t_isd t = isd -> id_le t cur = true) ->
  t_base cur = base -> t_serial cur < serial -> find_trc s isd base serial = None.
Proof.
  intros Hmax Hb Hs. unfold find_trc. destruct (find _ s) as [u|] eqn:F; auto.
  apply find_some in F as [Hin Hu]. apply andb_true_iff in Hu as [Hu H3].
  apply andb_true_iff in Hu as [H1 H2]. apply N.eqb_eq in H1, H2, H3.
  specialize (Hmax u Hin H1). apply id_le_iff in Hmax. lia.
Qed.

(** ---------------------------------------------------------------- the update loop *)

Lemma insert_trc_cases s t r s' : insert_trc s t = (r, s') ->
  (r = Inserted /\ s' = s ++ [t]) \/ (r <> Inserted /\ s' = s).
Proof.
  unfold insert_trc. destruct (find_trc s _ _ _) as [u|].
  - destruct (t_h u =? t_h t); intros H; inversion H; subst; right; split; auto; discriminate.
  - intros H; inversion H; subst. now left.
Qed.


Fixpoint seqN (from : N) (len : nat) : list N :=
  match len with O => [] | S k => from :: seqN (from + 1) k end.

Section Loop.
Variable verify : trc -> trc -> bool.
Variable fetch : trcid -> option trc.

(** what SignedTRC.Verify guarantees about ids (C32) *)
Definition verify_ids : Prop := forall p t, verify p t = true ->
  t_isd t = t_isd p /\ t_base t = t_base p /\ t_serial t = t_serial p + 1.
Hypothesis Hids : verify_ids.

(** [added] were fetched one after the other, each as the successor of and
    verified against the one before ([cur] first) *)
Fixpoint chain_ok (cur : trc) (added : list trc) : Prop :=
  match added with
  | [] => True
  | f :: r => fetch (t_isd cur, t_base cur, t_serial cur + 1) = Some f /\ verify cur f = true
              /\ chain_ok f r
  end.

Inductive loop_end (n : nat) (cur : trc) (added : list trc) (req : list N) : nres -> Prop :=
| EndOk : length added = n -> length req = n -> loop_end n cur added req NOk
| EndFetch : length req = S (length added) -> (length added < n)%nat ->
    fetch (t_isd cur, t_base cur, t_serial (last added cur) + 1) = None ->
    loop_end n cur added req NErrFetch
| EndVerify f : length req = S (length added) -> (length added < n)%nat ->
    fetch (t_isd cur, t_base cur, t_serial (last added cur) + 1) = Some f ->
    verify (last added cur) f = false ->
    loop_end n cur added req NErrVerify.

Lemma last_cons_gen (r : list trc) : forall f d, last (f :: r) d = last r f.
Proof.
  induction r as [|g r IH]; intros f d; [reflexivity|].
  change (last (f :: g :: r) d) with (last (g :: r) d). now rewrite !IH.
Qed.
Lemma last_cons (f : trc) r cur : last (f :: r) cur = last r f.
Proof. apply last_cons_gen. Qed.

Lemma chain_ok_ids added : forall cur, chain_ok cur added ->
  t_isd (last added cur) = t_isd cur /\ t_base (last added cur) = t_base cur.
Proof.
  induction added as [|f r IH]; intros cur H.
  - cbn. split; reflexivity.
  - destruct H as (_ & V & C). destruct (Hids _ _ V) as (I & B & _).
    destruct (IH f C) as [I' B']. rewrite last_cons. split; congruence.
Qed.

Lemma fetch_loop_spec : forall n s cur isd base serial r s' req,
  In cur s -> t_isd cur = isd -> t_base cur = base -> serial = t_serial cur + 1 ->
  (forall t, In t s -> t_isd t = isd -> id_le t cur = true) ->
  fetch_loop verify fetch n s cur isd base serial = (r, s', req) ->
  exists added, s' = s ++ added /\ chain_ok cur added /\ req = seqN serial (length req)
                /\ loop_end n cur added req r.
Proof.
  induction n as [|k IH]; intros s cur isd base serial r s' req Hin Hi Hb Hs Hmax H.
  - cbn in H. inversion H; subst. exists []. rewrite app_nil_r. repeat split. now constructor.
  - cbn [fetch_loop] in H. destruct (fetch (isd, base, serial)) as [f|] eqn:F.
    + destruct (verify cur f) eqn:V; cbn [negb] in H.
      * destruct (Hids _ _ V) as (I & B & S).
        assert (Hnone : find_trc s (t_isd f) (t_base f) (t_serial f) = None).
        { apply (find_trc_none s _ _ _ cur).
          - intros t Ht Hti. apply Hmax; auto. congruence.
          - congruence.
          - lia. }
        unfold insert_trc in H. rewrite Hnone in H.
        destruct (fetch_loop verify fetch k (s ++ [f]) f isd base (serial + 1)) as [[r1 s1] req1] eqn:L.
        inversion H; subst r1 s1 req. clear H.
        apply IH in L.
        -- destruct L as (added & -> & C & Hreq & E).
           exists (f :: added). split; [now rewrite <- app_assoc|]. split.
           { cbn. rewrite Hi, Hb, <- Hs. auto. }
           split.
           { cbn [length seqN]. now rewrite <- Hreq. }
           destruct E as [E1 E2 | E1 E2 E3 | f0 E1 E2 E3 E4].
           ++ constructor; cbn [length]; congruence.
           ++ apply EndFetch; cbn [length]; try lia. rewrite last_cons, <- I, <- B. exact E3.
           ++ apply (EndVerify _ _ _ _ f0); cbn [length]; try lia; rewrite last_cons.
              ** rewrite <- I, <- B. exact E3.
              ** exact E4.
        -- apply in_or_app. right. now left.
        -- congruence.
        -- congruence.
        -- lia.
        -- intros t Ht Hti. apply in_app_or in Ht as [Ht|[<-|[]]]; [|apply id_le_refl].
           eapply id_le_trans; [now apply Hmax|]. apply id_le_iff. lia.
      * inversion H; subst. exists []. rewrite app_nil_r. repeat split.
        eapply EndVerify; cbn; try lia; eauto.
    + inversion H; subst. exists []. rewrite app_nil_r. repeat split.
      apply EndFetch; cbn; try lia. assumption.
Qed.

(** notify_trc, case by case *)
Lemma notify_no_trc rec s isd base serial :
  latest_trc s isd = None -> notify_trc verify fetch rec s (isd, base, serial) = (NErrNoTRC, s, []).
Proof. intros H. unfold notify_trc. now rewrite H. Qed.

Lemma notify_base_mismatch rec s isd base serial l :
  latest_trc s isd = Some l -> t_base l <> base ->
  notify_trc verify fetch rec s (isd, base, serial) = (NErrBase, s, []).
Proof. intros H B. unfold notify_trc. rewrite H. apply N.eqb_neq in B. now rewrite B. Qed.

Lemma notify_stale rec s isd base serial l :
  latest_trc s isd = Some l -> t_base l = base -> serial <= t_serial l ->
  notify_trc verify fetch rec s (isd, base, serial) = (NOk, s, []).
Proof.
  intros H B S. unfold notify_trc. rewrite H. apply N.eqb_eq in B. rewrite B. cbn [negb].
  apply N.leb_le in S. now rewrite S.
Qed.

Lemma notify_no_recursion s isd base serial l :
  latest_trc s isd = Some l -> t_base l = base -> t_serial l < serial ->
  notify_trc verify fetch false s (isd, base, serial) = (NErrRec, s, []).
Proof.
  intros H B S. unfold notify_trc. rewrite H. apply N.eqb_eq in B. rewrite B. cbn [negb].
  apply N.leb_gt in S. now rewrite S.
Qed.

Lemma notify_update s isd base serial l r s' req :
  latest_trc s isd = Some l -> t_base l = base -> t_serial l < serial ->
  notify_trc verify fetch true s (isd, base, serial) = (r, s', req) ->
  exists added, s' = s ++ added /\ chain_ok l added /\ req = seqN (t_serial l + 1) (length req)
                /\ loop_end (N.to_nat (serial - t_serial l)) l added req r.
Proof.
  intros H B S N. unfold notify_trc in N. rewrite H in N.
  assert (B' := B). apply N.eqb_eq in B'. rewrite B' in N. cbn [negb] in N.
  apply N.leb_gt in S. rewrite S in N. cbn [negb] in N.
  destruct (latest_in _ _ _ H) as [Hin Hi].
  eapply fetch_loop_spec in N; eauto. apply latest_max. exact H.
Qed.

(** the store only grows (whatever the fetcher and the verifier do) *)
Lemma fetch_loop_grows : forall n s cur isd base serial r s' req,
  fetch_loop verify fetch n s cur isd base serial = (r, s', req) -> exists added, s' = s ++ added.
Proof.
  induction n as [|k IH]; intros s cur isd base serial r s' req H; cbn [fetch_loop] in H.
  - inversion H. exists []. now rewrite app_nil_r.
  - destruct (fetch (isd, base, serial)) as [f|].
    + destruct (verify cur f); cbn [negb] in H.
      * destruct (insert_trc s f) as [ir s1] eqn:I.
        destruct (insert_trc_cases _ _ _ _ I) as [[-> ->]|[Hne ->]].
        -- destruct (fetch_loop verify fetch k (s ++ [f]) f isd base (serial + 1)) as [[r1 s2] req1] eqn:L.
           inversion H; subst. destruct (IH _ _ _ _ _ _ _ _ L) as (a & ->).
           exists (f :: a). now rewrite <- app_assoc.
        -- destruct ir; try contradiction.
           ++ destruct (fetch_loop verify fetch k s f isd base (serial + 1)) as [[r1 s2] req1] eqn:L.
              inversion H; subst. eapply IH; eauto.
           ++ inversion H. exists []. now rewrite app_nil_r.
      * inversion H. exists []. now rewrite app_nil_r.
    + inversion H. exists []. now rewrite app_nil_r.
Qed.

Lemma notify_grows rec s id r s' req :
  notify_trc verify fetch rec s id = (r, s', req) -> exists added, s' = s ++ added.
Proof.
  destruct id as [[isd base] serial]. unfold notify_trc.
  destruct (latest_trc s isd) as [l|].
  - destruct (negb (t_base l =? base)).
    + intros H; inversion H. exists []. now rewrite app_nil_r.
    + destruct (serial <=? t_serial l).
      * intros H; inversion H. exists []. now rewrite app_nil_r.
      * destruct (negb rec).
        -- intros H; inversion H. exists []. now rewrite app_nil_r.
        -- apply fetch_loop_grows.
  - intros H; inversion H. exists []. now rewrite app_nil_r.
Qed.

(** the chain invariant *)
Definition chain_inv (s : store) : Prop :=
  forall t, In t s -> is_base t = false ->
  exists p, In p s /\ t_isd p = t_isd t /\ t_base p = t_base t /\ t_serial p + 1 = t_serial t
            /\ verify p t = true.

Lemma chain_inv_extend s cur added :
  chain_inv s -> In cur s -> chain_ok cur added -> chain_inv (s ++ added).
Proof.
  revert s cur. induction added as [|f r IH]; intros s cur Hinv Hcur C; [now rewrite app_nil_r|].
  destruct C as (_ & V & C).
  replace (s ++ f :: r) with ((s ++ [f]) ++ r) by now rewrite <- app_assoc.
  apply (IH _ f); auto.
  - intros t Ht Hb. apply in_app_or in Ht as [Ht|[<-|[]]].
    + destruct (Hinv t Ht Hb) as (p & Hp & K). exists p. split; auto. apply in_or_app. now left.
    + destruct (Hids _ _ V) as (I & B & S). exists cur. split; [apply in_or_app; now left|].
      repeat split; auto.
  - apply in_or_app. right. now left.
Qed.

Lemma notify_chain_inv rec s id r s' req :
  chain_inv s -> notify_trc verify fetch rec s id = (r, s', req) -> chain_inv s'.
Proof.
  destruct id as [[isd base] serial]. intros Hinv N.
  destruct (latest_trc s isd) as [l|] eqn:L.
  - destruct (N.eq_dec (t_base l) base) as [B|B].
    + destruct (N.le_gt_cases serial (t_serial l)) as [S|S].
      * rewrite (notify_stale _ _ _ _ _ _ L B S) in N. now inversion N; subst.
      * destruct rec.
        -- destruct (notify_update _ _ _ _ _ _ _ _ L B S N) as (added & -> & C & _).
           eapply chain_inv_extend; eauto. apply (latest_in _ _ _ L).
        -- rewrite (notify_no_recursion _ _ _ _ _ L B S) in N. now inversion N; subst.
    + rewrite (notify_base_mismatch _ _ _ _ _ _ L B) in N. now inversion N; subst.
  - rewrite (notify_no_trc _ _ _ _ _ L) in N. now inversion N; subst.
Qed.
End Loop.

(** ---------------------------------------------------------------- histories with arbitrary fetchers *)

(** a notification with an arbitrary fetch function *)
Definition gop := (trcid * bool * (trcid -> option trc))%type.
Definition gstep (verify : trc -> trc -> bool) (s : store) (o : gop) : store :=
  let '(id, rec, fetch) := o in snd (fst (notify_trc verify fetch rec s id)).
Definition grun (verify : trc -> trc -> bool) (s : store) (ops : list gop) : store :=
  fold_left (gstep verify) ops s.

Lemma gstep_grows verify s o : exists added, gstep verify s o = s ++ added.
Proof.
  destruct o as [[id rec] fetch]. unfold gstep.
  destruct (notify_trc verify fetch rec s id) as [[r s'] req] eqn:N. cbn.
  eapply notify_grows; eauto.
Qed.

Lemma grun_grows verify ops : forall s, exists added, grun verify s ops = s ++ added.
Proof.
  induction ops as [|o r IH]; intros s; cbn.
  - exists []. now rewrite app_nil_r.
  - destruct (gstep_grows verify s o) as (a1 & E1). destruct (IH (gstep verify s o)) as (a2 & E2).
    exists (a1 ++ a2). unfold grun in E2. rewrite E2, E1. now rewrite app_assoc.
Qed.

Lemma superset_no_regress s added isd l :
  latest_trc s isd = Some l ->
  exists l', latest_trc (s ++ added) isd = Some l' /\ id_le l l' = true.
Proof.
  intros L. destruct (latest_in _ _ _ L) as [Hin Hi].
  destruct (latest_some (s ++ added) isd l) as (l' & L'); auto.
  { apply in_or_app. now left. }
  exists l'. split; auto. eapply latest_max; eauto. apply in_or_app. now left.
Qed.

Lemma grun_chain_inv verify (Hids : verify_ids verify) ops :
  forall s, chain_inv verify s -> chain_inv verify (grun verify s ops).
Proof.
  induction ops as [|o r IH]; intros s Hinv; cbn; auto.
  apply IH. destruct o as [[id rec] fetch]. unfold gstep.
  destruct (notify_trc verify fetch rec s id) as [[res s'] req] eqn:N. cbn.
  eapply notify_chain_inv; eauto.
Qed.

(** scripted histories are instances *)
Definition gop_of (o : op) : gop := ((o_isd o, o_base o, o_serial o), o_rec o, script_fetch (o_script o)).
Lemma run_grun verify ops : forall s, run verify s ops = grun verify s (map gop_of ops).
Proof. induction ops as [|o r IH]; intros s; cbn; auto. unfold run in IH. now rewrite IH. Qed.

Lemma verify_update_ids : verify_ids verify_update.
Proof.
  intros p t H. unfold verify_update in H.
  repeat match goal with H : _ && _ = true |- _ => apply andb_true_iff in H; destruct H end.
  repeat match goal with H : (_ =? _) = true |- _ => apply N.eqb_eq in H end. auto.
Qed.

(** ---------------------------------------------------------------- loadTRCs *)

Lemma load_trcs_origin now files : forall s loaded ignored e l i s',
  load_trcs now files s loaded ignored = (e, l, i, s') ->
  forall t, In t s' -> In t s \/ (exists name, In (name, FTRC t) files /\ (t_nb t <= now)%Z).
Proof.
  induction files as [|[name f] r IH]; intros s loaded ignored e l i s' H t Ht; cbn [load_trcs] in H.
  - inversion H; subst. now left.
  - destruct f as [|u].
    + inversion H; subst. now left.
    + destruct (now <? t_nb u)%Z eqn:Fut.
      * destruct (IH _ _ _ _ _ _ _ H t Ht) as [K|(n & K1 & K2)]; [now left|].
        right. exists n. split; [now right | assumption].
      * destruct (insert_trc s u) as [ir s1] eqn:I.
        destruct (insert_trc_cases _ _ _ _ I) as [[-> ->]|[Hne ->]].
        -- destruct (IH _ _ _ _ _ _ _ H t Ht) as [K|(n & K1 & K2)].
           ++ apply in_app_or in K as [K|[<-|[]]]; [now left|].
              right. exists name. split; [now left|]. apply Z.ltb_ge in Fut. exact Fut.
           ++ right. exists n. split; [now right | assumption].
        -- destruct ir; try contradiction.
           ++ destruct (IH _ _ _ _ _ _ _ H t Ht) as [K|(n & K1 & K2)]; [now left|].
              right. exists n. split; [now right | assumption].
           ++ inversion H; subst. now left.
Qed.

(** loading never removes a TRC *)
Lemma load_trcs_grows now files : forall s loaded ignored e l i s',
  load_trcs now files s loaded ignored = (e, l, i, s') -> forall t, In t s -> In t s'.
Proof.
  induction files as [|[name f] r IH]; intros s loaded ignored e l i s' H t Ht; cbn [load_trcs] in H.
  - now inversion H; subst.
  - destruct f as [|u].
    + now inversion H; subst.
    + destruct (now <? t_nb u)%Z.
      * eapply IH; eauto.
      * destruct (insert_trc s u) as [ir s1] eqn:I.
        destruct (insert_trc_cases _ _ _ _ I) as [[-> ->]|[Hne ->]].
        -- eapply IH; eauto. apply in_or_app. now left.
        -- destruct ir; try contradiction.
           ++ eapply IH; eauto.
           ++ now inversion H; subst.
Qed.
