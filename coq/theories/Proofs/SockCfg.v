(** Lemmas about Model/SockCfg.v (C17). *)
From Coq Require Import List NArith Bool Lia Permutation.
From Scion Require Import Lib.Check Model.SockCfg.
Import ListNotations.
Import SockCfg.
Local Open Scope N_scope.

(** Every hop keeps receive with receive and send with send. *)
Lemma provider_of_sizes c k o :
  pv_receive (provider_of (new_connector c) k o) = rc_receive c /\
  pv_send (provider_of (new_connector c) k o) = rc_send c /\
  pv_batch (provider_of (new_connector c) k o) = rc_batch c.
Proof. destruct o, k; cbn; auto. Qed.

Lemma open_cfg_sizes c k o reuse cc :
  open_cfg c k o reuse = Some cc ->
  cc_receive cc = rc_receive c /\ cc_send cc = rc_send c.
Proof.
  unfold open_cfg. destruct (provider_of_sizes c k o) as (Hr & Hs & _).
  destruct k; [| destruct reuse |]; intros H; inversion H; subst; clear H; cbn;
    try (split; assumption); discriminate.
Qed.

(** a socket is opened for every link except a sibling link that shares the internal socket *)
Lemma open_cfg_some c k o reuse :
  open_cfg c k o reuse = None <-> (k = Sibling /\ reuse = false).
Proof.
  unfold open_cfg. destruct k; [| destruct reuse |]; split; intros H;
    try discriminate; try (destruct H; discriminate); auto.
Qed.

Lemma init_conn_requested cc :
  so_rcvbuf (init_conn cc) = requested (cc_receive cc) /\
  so_sndbuf (init_conn cc) = requested (cc_send cc).
Proof. split; reflexivity. Qed.

Lemma obs_ok_open c k o reuse : obs_ok c (obs_of (open_cfg c k o reuse)) = true.
Proof.
  destruct (open_cfg c k o reuse) as [cc|] eqn:E; [|reflexivity].
  destruct (open_cfg_sizes _ _ _ _ _ E) as [Hr Hs]. cbn. rewrite Hr, Hs, !N.eqb_refl. reflexivity.
Qed.

Lemma sock_ok_reports c k o reuse dr ds :
  sock_ok c dr ds (reports dr ds (open_cfg c k o reuse)) = true.
Proof.
  destruct (open_cfg c k o reuse) as [cc|] eqn:E; [|reflexivity].
  destruct (open_cfg_sizes _ _ _ _ _ E) as [Hr Hs]. cbn [reports sock_ok].
  destruct (init_conn_requested cc) as [H1 H2]. rewrite H1, H2, Hr, Hs, !N.eqb_refl. reflexivity.
Qed.

Lemma model_links_ok c reuse links m :
  model_links c reuse links = Some m -> forallb (obs_ok c) m = true.
Proof.
  revert m. induction links as [|l t IH]; cbn [model_links fold_right]; intros m H.
  - inversion H. reflexivity.
  - fold (model_links c reuse t) in H.
    destruct (model_links c reuse t) as [mt|]; [|discriminate].
    destruct (kind_of (fst l)) as [k|]; [|discriminate].
    inversion H; subst. cbn [forallb]. rewrite obs_ok_open, (IH mt eq_refl). reflexivity.
Qed.

Lemma model_chain_ok c reuse dr ds links m :
  model_chain c reuse dr ds links = Some m -> forallb (sock_ok c dr ds) m = true.
Proof.
  revert m. induction links as [|l t IH]; cbn [model_chain fold_right]; intros m H.
  - inversion H. reflexivity.
  - fold (model_chain c reuse dr ds t) in H.
    destruct (model_chain c reuse dr ds t) as [mt|]; [|discriminate].
    destruct (kind_of (fst l)) as [k|]; [|discriminate].
    inversion H; subst. cbn [forallb]. rewrite sock_ok_reports, (IH mt eq_refl). reflexivity.
Qed.

(** ------------------------------------------------------------------
    Whole configurations: lists of links, in any order *)

(** what one configured link contributes, whatever else is configured *)
Definition link_obs (c : router_config) (reuse : bool) (l : N * N) (o : obs) : Prop :=
  exists k, kind_of (fst l) = Some k /\
            o = obs_of (open_cfg c k (origin_of (snd l)) reuse).

Lemma model_links_pointwise c reuse links m :
  model_links c reuse links = Some m -> Forall2 (link_obs c reuse) links m.
Proof.
  revert m. induction links as [|l t IH]; cbn [model_links fold_right]; intros m H.
  - inversion H. constructor.
  - fold (model_links c reuse t) in H.
    destruct (model_links c reuse t) as [mt|]; [|discriminate].
    destruct (kind_of (fst l)) as [k|] eqn:K; [|discriminate].
    inversion H; subst. constructor; [now exists k | now apply IH].
Qed.

Lemma link_obs_value c reuse l o :
  link_obs c reuse l o ->
  (o = Some (rc_receive c, rc_send c) /\ ~ (kind_of (fst l) = Some Sibling /\ reuse = false)) \/
  (o = None /\ kind_of (fst l) = Some Sibling /\ reuse = false).
Proof.
  intros [k [K ->]]. destruct (open_cfg c k (origin_of (snd l)) reuse) as [cc|] eqn:E.
  - left. destruct (open_cfg_sizes _ _ _ _ _ E) as [Hr Hs]. cbn [obs_of]. rewrite Hr, Hs. split; [reflexivity|].
    intros [K' R]. rewrite K in K'. inversion K'; subst.
    assert (X : open_cfg c Sibling (origin_of (snd l)) false = None) by (apply open_cfg_some; auto).
    congruence.
  - right. apply open_cfg_some in E as [-> ->]. auto.
Qed.

Lemma model_links_total c reuse links :
  Forall (fun l => kind_of (fst l) <> None) links -> exists m, model_links c reuse links = Some m.
Proof.
  induction 1 as [|l t Hl Ht IH]; cbn [model_links fold_right]; [now exists []|].
  fold (model_links c reuse t). destruct IH as [mt ->].
  destruct (kind_of (fst l)) as [k|]; [eexists; reflexivity|contradiction].
Qed.

Lemma model_links_perm c reuse links links' m :
  Permutation.Permutation links links' -> model_links c reuse links = Some m ->
  exists m', model_links c reuse links' = Some m' /\ Permutation.Permutation m m'.
Proof.
  intros HP. revert m. induction HP as [|x l l' HP IH|x y l|l l' l'' H1 IH1 H2 IH2]; intros m H.
  - exists m. split; [assumption|apply Permutation_refl].
  - cbn [model_links fold_right] in *. fold (model_links c reuse l) in H. fold (model_links c reuse l').
    destruct (model_links c reuse l) as [mt|]; [|discriminate].
    destruct (IH mt eq_refl) as [mt' [-> P]].
    destruct (kind_of (fst x)); [|discriminate]. inversion H; subst.
    eexists; split; [reflexivity|now apply Permutation.perm_skip].
  - cbn [model_links fold_right] in *. fold (model_links c reuse l) in *.
    destruct (model_links c reuse l) as [mt|]; [|discriminate].
    destruct (kind_of (fst x)), (kind_of (fst y)); try discriminate. inversion H; subst.
    eexists; split; [reflexivity|apply Permutation.perm_swap].
  - destruct (IH1 m H) as [m1 [E1 P1]]. destruct (IH2 m1 E1) as [m2 [E2 P2]].
    exists m2. split; [assumption|eapply Permutation.perm_trans; eassumption].
Qed.
