(** Lemmas about Model/SockCfg.v (C17). *)
From Coq Require Import List NArith Bool Lia.
From Scion Require Import Lib.Check Model.SockCfg.
Import ListNotations.
Import SockCfg.
Local Open Scope N_scope.

(** Every hop keeps receive with receive and send with send. *)
Lemma provider_of_sizes c k o :
  pv_receive (provider_of (new_connector c) k o) = rc_receive c /\
  pv_send (provider_of (new_connector c) k o) = rc_send c /\
  pv_batch (provider_of (new_connector c) k o) = rc_batch c.
Proof. destruct o, k; cbn; auto. Qed.

Lemma open_cfg_sizes c k o reuse cc :
  open_cfg c k o reuse = Some cc ->
  cc_receive cc = rc_receive c /\ cc_send cc = rc_send c.
Proof.
  unfold open_cfg. destruct (provider_of_sizes c k o) as (Hr & Hs & _).
  destruct k; [| destruct reuse |]; intros H; inversion H; subst; clear H; cbn;
    try (split; assumption); discriminate.
Qed.

(** a socket is opened for every link except a sibling link that shares the internal socket *)
Lemma open_cfg_some c k o reuse :
  open_cfg c k o reuse = None <-> (k = Sibling /\ reuse = false).
Proof.
  unfold open_cfg. destruct k; [| destruct reuse |]; split; intros H;
    try discriminate; try (destruct H; discriminate); auto.
Qed.

Lemma init_conn_requested cc :
  so_rcvbuf (init_conn cc) = requested (cc_receive cc) /\
  so_sndbuf (init_conn cc) = requested (cc_send cc).
Proof. split; reflexivity. Qed.

Lemma obs_ok_open c k o reuse : obs_ok c (obs_of (open_cfg c k o reuse)) = true.
Proof.
  destruct (open_cfg c k o reuse) as [cc|] eqn:E; [|reflexivity].
  destruct (open_cfg_sizes _ _ _ _ _ E) as [Hr Hs]. cbn. rewrite Hr, Hs, !N.eqb_refl. reflexivity.
Qed.

Lemma sock_ok_reports c k o reuse dr ds :
  sock_ok c dr ds (reports dr ds (open_cfg c k o reuse)) = true.
Proof.
  destruct (open_cfg c k o reuse) as [cc|] eqn:E; [|reflexivity].
  destruct (open_cfg_sizes _ _ _ _ _ E) as [Hr Hs]. cbn [reports sock_ok].
  destruct (init_conn_requested cc) as [H1 H2]. rewrite H1, H2, Hr, Hs, !N.eqb_refl. reflexivity.
Qed.

Lemma model_links_ok c reuse links m :
  model_links c reuse links = Some m -> forallb (obs_ok c) m = true.
Proof.
  revert m. induction links as [|l t IH]; cbn [model_links fold_right]; intros m H.
  - inversion H. reflexivity.
  - fold (model_links c reuse t) in H.
    destruct (model_links c reuse t) as [mt|]; [|discriminate].
    destruct (kind_of (fst l)) as [k|]; [|discriminate].
    inversion H; subst. cbn [forallb]. rewrite obs_ok_open, (IH mt eq_refl). reflexivity.
Qed.

Lemma model_chain_ok c reuse dr ds links m :
  model_chain c reuse dr ds links = Some m -> forallb (sock_ok c dr ds) m = true.
Proof.
  revert m. induction links as [|l t IH]; cbn [model_chain fold_right]; intros m H.
  - inversion H. reflexivity.
  - fold (model_chain c reuse dr ds t) in H.
    destruct (model_chain c reuse dr ds t) as [mt|]; [|discriminate].
    destruct (kind_of (fst l)) as [k|]; [|discriminate].
    inversion H; subst. cbn [forallb]. rewrite sock_ok_reports, (IH mt eq_refl). reflexivity.
Qed.
