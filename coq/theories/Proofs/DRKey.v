(** Lemmas about Model/DRKey.v *)
From Coq Require Import List NArith ZArith Bool Lia.
From Scion Require Import Lib.Check Lib.Bytes Model.DRKey.
Import ListNotations.
Import DRKey.
Local Open Scope N_scope.

(** ** packed addresses and padding *)

Lemma pack_addr_wf h t raw :
  pack_addr h = Some (t, raw) ->
  (t = T4Ip \/ t = T16Ip \/ t = T4Svc) /\ length raw = addr_len t.
Proof.
  destruct h as [b|s|]; cbn [pack_addr]; [| |discriminate].
  - destruct (Nat.eqb (length b) 4) eqn:L4.
    + intros E; injection E as <- <-. apply Nat.eqb_eq in L4. split; [now left|]. rewrite L4. reflexivity.
    + destruct (Nat.eqb (length b) 16) eqn:L16; [|discriminate].
      apply Nat.eqb_eq in L16.
      destruct (bytes_eqb (firstn 12 b) v4in6_prefix); intros E; injection E as <- <-.
      * split; [now left|]. change (length (skipn 12 b) = 4%nat). rewrite skipn_length, L16. reflexivity.
      * split; [right; now left|]. rewrite L16. reflexivity.
  - intros E; injection E as <- <-. split; [right; now right|].
    change (length (be 2 s ++ [0; 0]) = 4%nat). rewrite app_length, be_length. reflexivity.
Qed.

Lemma type_nibble t : (t = T4Ip \/ t = T16Ip \/ t = T4Svc) -> N.land t 15 = t.
Proof. intros [->|[->| ->]]; reflexivity. Qed.

Lemma pad_inj l1 l2 : length l1 = length l2 -> pad l1 = pad l2 -> l1 = l2.
Proof.
  unfold pad. intros L E. rewrite L in E. now apply app_inv_tail in E.
Qed.

Lemma be2_form p : exists a b, be 2 p = [a; b].
Proof. cbn [be]. eauto. Qed.

(** ** injectivity of the derivation inputs *)

Lemma lvl1_input_inj a b : a < 2 ^ 64 -> b < 2 ^ 64 -> lvl1_input a = lvl1_input b -> a = b.
Proof.
  unfold lvl1_input. intros Ha Hb E.
  apply app_inv_head in E. apply app_inv_tail in E.
  apply (be_inj 8); assumption.
Qed.

Lemma spec_lvl2_input_inj kt1 kt2 h1 h2 i :
  spec_lvl2_input kt1 h1 = Some i -> spec_lvl2_input kt2 h2 = Some i ->
  kt1 = kt2 /\ pack_addr h1 = pack_addr h2.
Proof.
  unfold spec_lvl2_input.
  destruct (pack_addr h1) as [[t1 r1]|] eqn:P1; [|discriminate].
  destruct (pack_addr h2) as [[t2 r2]|] eqn:P2; [|discriminate].
  apply pack_addr_wf in P1 as [T1 L1]. apply pack_addr_wf in P2 as [T2 L2].
  rewrite (type_nibble _ T1), (type_nibble _ T2).
  intros E1 E2. inversion E1 as [F1]. inversion E2 as [F2]. rewrite <- F2 in F1.
  assert (H := F1). unfold pad in H. cbn [app] in H. injection H as Hk Ht _.
  subst kt2 t2.
  apply pad_inj in F1; [|cbn [app length]; now rewrite L1, L2].
  cbn [app] in F1. injection F1 as ->. auto.
Qed.

Lemma gen_lvl2_input_inj kt1 kt2 p1 p2 h1 h2 i :
  p1 < 65536 -> p2 < 65536 ->
  gen_lvl2_input kt1 p1 h1 = Some i -> gen_lvl2_input kt2 p2 h2 = Some i ->
  kt1 = kt2 /\ p1 = p2 /\ pack_addr h1 = pack_addr h2.
Proof.
  unfold gen_lvl2_input. intros B1 B2.
  destruct (pack_addr h1) as [[t1 r1]|] eqn:P1; [|discriminate].
  destruct (pack_addr h2) as [[t2 r2]|] eqn:P2; [|discriminate].
  apply pack_addr_wf in P1 as [T1 L1]. apply pack_addr_wf in P2 as [T2 L2].
  rewrite (type_nibble _ T1), (type_nibble _ T2).
  destruct (be2_form p1) as (a1 & b1 & Q1). destruct (be2_form p2) as (a2 & b2 & Q2).
  assert (I : be 2 p1 = be 2 p2 -> p1 = p2) by (apply (be_inj 2); assumption).
  rewrite Q1, Q2 in *.
  intros E1 E2. inversion E1 as [F1]. inversion E2 as [F2]. rewrite <- F2 in F1.
  assert (H := F1). unfold pad in H. cbn [app] in H. injection H as Hk Ha Hb Ht _.
  subst kt2 a2 b2 t2.
  apply pad_inj in F1; [|cbn [app length]; now rewrite L1, L2].
  cbn [app] in F1. injection F1 as ->. auto.
Qed.

Lemma hh_input_inj h1 h2 i :
  hh_input h1 = Some i -> hh_input h2 = Some i -> pack_addr h1 = pack_addr h2.
Proof.
  intros E1 E2. exact (proj2 (spec_lvl2_input_inj kt_host_host kt_host_host h1 h2 i E1 E2)).
Qed.

(** first byte = key type *)
Lemma lvl1_input_hd ia : hd_error (lvl1_input ia) = Some kt_as_as.
Proof. reflexivity. Qed.

Lemma spec_lvl2_input_hd kt h i : spec_lvl2_input kt h = Some i -> hd_error i = Some kt.
Proof.
  unfold spec_lvl2_input. destruct (pack_addr h) as [[t r]|]; [|discriminate].
  intros E; inversion E. reflexivity.
Qed.

Lemma gen_lvl2_input_hd kt p h i : gen_lvl2_input kt p h = Some i -> hd_error i = Some kt.
Proof.
  unfold gen_lvl2_input. destruct (pack_addr h) as [[t r]|]; [|discriminate].
  intros E; inversion E. reflexivity.
Qed.

Lemma hh_input_hd h i : hh_input h = Some i -> hd_error i = Some kt_host_host.
Proof. apply spec_lvl2_input_hd. Qed.

Lemma lvl2_input_hd kt p h i : lvl2_input kt p h = Some i -> hd_error i = Some kt.
Proof.
  unfold lvl2_input. destruct (is_predefined p);
    [apply spec_lvl2_input_hd | apply gen_lvl2_input_hd].
Qed.

Lemma is_predefined_lvl1_proto p : is_predefined (lvl1_proto p) = true.
Proof. unfold lvl1_proto. destruct (is_predefined p) eqn:E; [exact E | reflexivity]. Qed.

(** inputs the key service derives under one level-1 key *)
Lemma lvl2_input_inj kt1 kt2 p1 p2 h1 h2 i :
  p1 < 65536 -> p2 < 65536 ->
  lvl1_proto p1 = lvl1_proto p2 -> p1 <> generic -> p2 <> generic ->
  lvl2_input kt1 p1 h1 = Some i -> lvl2_input kt2 p2 h2 = Some i ->
  kt1 = kt2 /\ p1 = p2 /\ pack_addr h1 = pack_addr h2.
Proof.
  unfold lvl2_input, lvl1_proto. intros B1 B2 L G1 G2.
  destruct (is_predefined p1) eqn:D1, (is_predefined p2) eqn:D2; intros E1 E2.
  - subst p2. destruct (spec_lvl2_input_inj _ _ _ _ _ E1 E2). auto.
  - subst p1. contradiction.
  - subst p2. contradiction.
  - eapply gen_lvl2_input_inj; eauto.
Qed.

(** ** epochs *)

Lemma sv_epoch_contains d t :
  (0 < d)%Z -> (0 <= t)%Z -> (t + d < 2 ^ 32)%Z ->
  (Z.of_N (fst (sv_epoch d t)) <= t < Z.of_N (snd (sv_epoch d t)))%Z /\
  (Z.of_N (snd (sv_epoch d t)) - Z.of_N (fst (sv_epoch d t)) = d)%Z.
Proof.
  intros Hd Ht Hb. unfold sv_epoch, u32. cbn [fst snd].
  rewrite Z.quot_div_nonneg by lia.
  pose proof (Z.div_mod t d ltac:(lia)) as DM.
  pose proof (Z.mod_pos_bound t d Hd) as MB.
  assert (Q : (0 <= t / d)%Z) by (apply Z.div_pos; lia).
  assert (M : (0 <= t / d * d <= t)%Z) by nia.
  rewrite (Z.mod_small (t / d * d)) by lia.
  rewrite Z2N.id by lia.
  rewrite (Z.mod_small d) by lia.
  rewrite (Z.mod_small (t / d * d + d)) by lia.
  rewrite Z2N.id by lia.
  lia.
Qed.

Section Derivation.
  Variable prf : key -> bytes -> key.
  Variable sv : N -> N -> epoch -> key.
  Variable dur : N -> option Z.

  Notation own_lvl1 := (own_lvl1 prf sv dur).
  Notation engine_get_lvl1 := (engine_get_lvl1 prf sv dur).
  Notation obtain_lvl1 := (obtain_lvl1 prf sv dur).
  Notation engine_as_host := (engine_as_host prf sv dur).
  Notation engine_host_as := (engine_host_as prf sv dur).
  Notation engine_host_host := (engine_host_host prf sv dur).
  Notation host_lvl1 := (host_lvl1 prf).
  Notation host_lvl2 := (host_lvl2 prf).
  Notation host_host_host := (host_host_host prf).

  Lemma own_lvl1_ok loc p t dst k e :
    own_lvl1 loc p t dst = ROk k e ->
    exists d, dur loc = Some d /\ e = sv_epoch d t /\ k = host_lvl1 (sv loc p e) dst.
  Proof.
    unfold DRKey.own_lvl1. destruct (dur loc) as [d|]; [|discriminate].
    intros E; inversion E; subst. exists d. auto.
  Qed.

  (** the level-1 key served at either end is the one derived from the source AS's
      secret value for the destination AS *)
  Lemma engine_get_lvl1_ok loc p t src dst k e :
    engine_get_lvl1 loc p t src dst = ROk k e ->
    exists d, dur src = Some d /\ e = sv_epoch d t /\ k = host_lvl1 (sv src p e) dst /\
              (loc = src \/ (loc = dst /\ is_predefined p = true)).
  Proof.
    unfold DRKey.engine_get_lvl1, remote_lvl1.
    destruct (src =? loc) eqn:S.
    - apply N.eqb_eq in S; subst loc. intros E. apply own_lvl1_ok in E as (d & D & -> & ->).
      exists d. repeat split; auto.
    - destruct (dst =? loc) eqn:T; cbn [negb]; [|discriminate].
      apply N.eqb_eq in T; subst loc.
      destruct (is_predefined p) eqn:P; [|discriminate].
      intros E. apply own_lvl1_ok in E as (d & D & -> & ->). exists d. repeat split; auto.
  Qed.

  Lemma host_lvl2_eq kt p k1 h : host_lvl2 kt p k1 h = option_map (prf k1) (lvl2_input kt p h).
  Proof. unfold DRKey.host_lvl2, lvl2_input. destruct (is_predefined p); reflexivity. Qed.

  Lemma engine_as_host_ok loc p t src dst dh k e :
    engine_as_host loc p t src dst dh = ROk k e ->
    exists d, dur src = Some d /\ e = sv_epoch d t /\
      host_lvl2 kt_as_host p (host_lvl1 (sv src (lvl1_proto p) e) dst) dh = Some k.
  Proof.
    unfold DRKey.engine_as_host, DRKey.obtain_lvl1.
    destruct (engine_get_lvl1 loc (lvl1_proto p) t src dst) as [k1 e1|] eqn:G; [|discriminate].
    apply engine_get_lvl1_ok in G as (d & D & -> & -> & _).
    destruct (lvl2_input kt_as_host p dh) as [i|] eqn:I; [|discriminate].
    intros E; inversion E; subst. exists d. repeat split; auto.
    rewrite host_lvl2_eq, I. reflexivity.
  Qed.

  Lemma engine_host_as_ok loc p t src dst sh k e :
    engine_host_as loc p t src dst sh = ROk k e ->
    exists d, dur src = Some d /\ e = sv_epoch d t /\
      host_lvl2 kt_host_as p (host_lvl1 (sv src (lvl1_proto p) e) dst) sh = Some k.
  Proof.
    unfold DRKey.engine_host_as, DRKey.obtain_lvl1.
    destruct (engine_get_lvl1 loc (lvl1_proto p) t src dst) as [k1 e1|] eqn:G; [|discriminate].
    apply engine_get_lvl1_ok in G as (d & D & -> & -> & _).
    destruct (lvl2_input kt_host_as p sh) as [i|] eqn:I; [|discriminate].
    intros E; inversion E; subst. exists d. repeat split; auto.
    rewrite host_lvl2_eq, I. reflexivity.
  Qed.

  Lemma engine_host_host_ok loc p t src dst sh dh k e :
    engine_host_host loc p t src dst sh dh = ROk k e ->
    exists d k2, dur src = Some d /\ e = sv_epoch d t /\
      host_lvl2 kt_host_as p (host_lvl1 (sv src (lvl1_proto p) e) dst) sh = Some k2 /\
      host_host_host k2 dh = Some k.
  Proof.
    unfold DRKey.engine_host_host.
    destruct (engine_host_as loc p t src dst sh) as [k2 e2|] eqn:G; [|discriminate].
    apply engine_host_as_ok in G as (d & D & -> & H).
    destruct (hh_input dh) as [i|] eqn:I; [|discriminate].
    intros E; inversion E; subst. exists d, k2. repeat split; auto.
    unfold DRKey.host_host_host. rewrite I. reflexivity.
  Qed.

  (** the service does serve: at either end, for every protocol, whenever the hosts are addresses *)
  Lemma engine_get_lvl1_serves loc p t src dst d :
    dur src = Some d -> (loc = src \/ (loc = dst /\ is_predefined p = true)) ->
    engine_get_lvl1 loc p t src dst = ROk (host_lvl1 (sv src p (sv_epoch d t)) dst) (sv_epoch d t).
  Proof.
    intros D H. unfold DRKey.engine_get_lvl1, remote_lvl1, DRKey.own_lvl1.
    destruct (src =? loc) eqn:S.
    - apply N.eqb_eq in S; subst loc. rewrite D. reflexivity.
    - apply N.eqb_neq in S. destruct H as [->|[-> P]]; [contradiction|].
      rewrite N.eqb_refl. cbn [negb]. rewrite P, D. reflexivity.
  Qed.

  Lemma engine_as_host_serves loc p t src dst dh d i :
    dur src = Some d -> (loc = src \/ loc = dst) -> lvl2_input kt_as_host p dh = Some i ->
    engine_as_host loc p t src dst dh =
    ROk (prf (host_lvl1 (sv src (lvl1_proto p) (sv_epoch d t)) dst) i) (sv_epoch d t).
  Proof.
    intros D H I. unfold DRKey.engine_as_host, DRKey.obtain_lvl1.
    rewrite (engine_get_lvl1_serves loc (lvl1_proto p) t src dst d D), I; [reflexivity|].
    destruct H as [H|H]; [now left | right; split; [exact H | apply is_predefined_lvl1_proto]].
  Qed.

  (** *** the oracle of the correspondence check holds on the model *)

  Lemma served_ok_refl d t k :
    served_ok (Some d) t (Some (k, sv_epoch d t)) (Some k) = true.
  Proof.
    unfold served_ok. destruct (sv_epoch d t) as [b e] eqn:E.
    rewrite (proj2 (bytes_eqb_eq k k) eq_refl). cbn [andb].
    destruct ((0 <=? t)%Z && (0 <? d)%Z && (t + d <? 2 ^ 32)%Z) eqn:C; [|reflexivity].
    apply andb_true_iff in C as [C C3]. apply andb_true_iff in C as [C1 C2].
    apply Z.leb_le in C1. apply Z.ltb_lt in C2. apply Z.ltb_lt in C3.
    pose proof (sv_epoch_contains d t C2 C1 C3) as [[H1 H2] H3]. rewrite E in *. cbn [fst snd] in *.
    apply andb_true_iff; split; [apply andb_true_iff; split|].
    - now apply Z.leb_le.
    - now apply Z.ltb_lt.
    - now apply Z.eqb_eq.
  Qed.

  Lemma oracle_on_model loc p t src dst sh dh :
    all2 (served_ok (dur src) t)
         (map obs_of (engine_keys prf sv dur loc p t src dst sh dh))
         (host_keys_at prf sv dur p t src dst sh dh) = true.
  Proof.
    unfold engine_keys, host_keys_at. cbn [map all2].
    (* each of the four components *)
    assert (A0 : forall hk,
      (forall k e, engine_get_lvl1 loc p t src dst = ROk k e ->
         exists d, dur src = Some d /\ e = sv_epoch d t /\ hk d = Some k) ->
      served_ok (dur src) t (obs_of (engine_get_lvl1 loc p t src dst))
        (match dur src with Some d => hk d | None => None end) = true).
    { intros hk H. destruct (engine_get_lvl1 loc p t src dst) as [k e|] eqn:G; [|reflexivity].
      destruct (H k e eq_refl) as (d & D & -> & K). rewrite D, K. apply served_ok_refl. }
    assert (G : forall (r : res) hk,
      (forall k e, r = ROk k e -> exists d, dur src = Some d /\ e = sv_epoch d t /\ hk d = Some k) ->
      served_ok (dur src) t (obs_of r) (match dur src with Some d => hk d | None => None end) = true).
    { intros r hk H. destruct r as [k e|]; [|reflexivity].
      destruct (H k e eq_refl) as (d & D & -> & K). cbn [obs_of]. rewrite D, K. apply served_ok_refl. }
    pose proof (G (engine_get_lvl1 loc p t src dst)
      (fun d => Some (host_lvl1 (sv src p (sv_epoch d t)) dst))) as H0.
    pose proof (G (engine_as_host loc p t src dst dh)
      (fun d => host_lvl2 kt_as_host p (host_lvl1 (sv src (lvl1_proto p) (sv_epoch d t)) dst) dh)) as H1.
    pose proof (G (engine_host_as loc p t src dst sh)
      (fun d => host_lvl2 kt_host_as p (host_lvl1 (sv src (lvl1_proto p) (sv_epoch d t)) dst) sh)) as H2.
    pose proof (G (engine_host_host loc p t src dst sh dh)
      (fun d => match host_lvl2 kt_host_as p (host_lvl1 (sv src (lvl1_proto p) (sv_epoch d t)) dst) sh with
                | Some k2 => host_host_host k2 dh | None => None end)) as H3.
    destruct (dur src) as [d|] eqn:D; unfold host_keys; cbn [all2].
    - rewrite H0, H1, H2, H3; [reflexivity| | | |].
      + intros k e E. apply engine_host_host_ok in E as (d' & k2 & D' & -> & K2 & K).
        rewrite D in D'. inversion D'; subst d'. exists d. repeat split; auto. now rewrite K2.
      + intros k e E. apply engine_host_as_ok in E as (d' & D' & -> & K).
        rewrite D in D'. inversion D'; subst d'. exists d. auto.
      + intros k e E. apply engine_as_host_ok in E as (d' & D' & -> & K).
        rewrite D in D'. inversion D'; subst d'. exists d. auto.
      + intros k e E. apply engine_get_lvl1_ok in E as (d' & D' & -> & -> & _).
        rewrite D in D'. inversion D'; subst d'. exists d. auto.
    - rewrite H0, H1, H2, H3; [reflexivity| | | |].
      + intros k e E. apply engine_host_host_ok in E as (d' & k2 & D' & _). congruence.
      + intros k e E. apply engine_host_as_ok in E as (d' & D' & _). congruence.
      + intros k e E. apply engine_as_host_ok in E as (d' & D' & _). congruence.
      + intros k e E. apply engine_get_lvl1_ok in E as (d' & D' & _). congruence.
  Qed.
End Derivation.

(** ** acceptance window *)

Lemma contains_spec a b t : contains a b t = true <-> (a <= t <= b)%Z.
Proof. unfold contains. rewrite andb_true_iff, !Z.leb_le. tauto. Qed.

Lemma window_sound ed aw t ts nb na :
  get_key_within_window ed aw t ts = WKey nb na ->
  let a := abs_time nb ts in
  let d := Z.quot ed sec in
  (t - Z.quot aw 2 <= a <= t + Z.quot aw 2)%Z /\
  (nb <= a <= na + grace_ns)%Z /\
  exists k, (-1 <= k <= 1)%Z /\ (nb, na) = new_epoch (Z.quot (t / sec) d + k) d.
Proof.
  unfold get_key_within_window. cbv zeta.
  destruct (Z.quot ed sec =? 0)%Z; [discriminate|].
  set (d := Z.quot ed sec). set (idx := Z.quot (t / sec) d).
  assert (S : forall e, contains (t - Z.quot aw 2) (t + Z.quot aw 2) (abs_time (fst e) ts) &&
                        within_grace e (abs_time (fst e) ts) = true ->
     (t - Z.quot aw 2 <= abs_time (fst e) ts <= t + Z.quot aw 2)%Z /\
     (fst e <= abs_time (fst e) ts <= snd e + grace_ns)%Z).
  { intros e H. unfold within_grace in H. apply andb_true_iff in H as [H1 H2].
    apply contains_spec in H1. apply contains_spec in H2. auto. }
  match goal with |- (if ?c then _ else _) = _ -> _ => destruct c eqn:O1 end.
  - intros E; injection E as <- <-. destruct (S _ O1). split; [tauto|]. split; [tauto|].
    exists 0%Z. split; [lia|]. rewrite Z.add_0_r. apply surjective_pairing.
  - match goal with |- (if ?c then _ else _) = _ -> _ => destruct c eqn:O2 end.
    + intros E; injection E as <- <-. destruct (S _ O2). split; [tauto|]. split; [tauto|].
      exists (-1)%Z. split; [lia|]. apply surjective_pairing.
    + match goal with |- (if ?c then _ else _) = _ -> _ => destruct c eqn:O3 end; [|discriminate].
      intros E; injection E as <- <-. destruct (S _ O3). split; [tauto|]. split; [tauto|].
      exists 1%Z. split; [lia|]. apply surjective_pairing.
Qed.

Lemma window_ok_model ed aw t ts : window_ok aw t ts (get_key_within_window ed aw t ts) = true.
Proof.
  destruct (get_key_within_window ed aw t ts) as [nb na| |] eqn:E; try reflexivity.
  apply window_sound in E as (H1 & H2 & _). unfold window_ok.
  apply andb_true_iff; split; apply contains_spec; assumption.
Qed.

(** epochs tile the time axis where uint32 arithmetic does not wrap *)
Lemma new_epoch_nowrap idx d :
  (0 <= idx * d)%Z -> (0 <= d)%Z -> (idx * d + d < 2 ^ 32)%Z ->
  new_epoch idx d = (idx * d * sec, (idx * d + d) * sec)%Z.
Proof.
  intros H0 Hd H1. unfold new_epoch, u32.
  rewrite (Z.mod_small (idx * d)) by lia. rewrite Z2N.id by lia.
  rewrite (Z.mod_small d) by lia. rewrite (Z.mod_small (idx * d + d)) by lia.
  rewrite Z2N.id by lia. reflexivity.
Qed.

Lemma i64_small n : (Z.of_N n < 2 ^ 63)%Z -> i64_of_u64 n = Z.of_N n.
Proof.
  intros H. unfold i64_of_u64. rewrite Z.mod_small by lia.
  destruct (Z.of_N n <? 2 ^ 63)%Z eqn:E; [reflexivity|]. apply Z.ltb_ge in E. lia.
Qed.

Lemma timestamp_roundtrip nb t r :
  (nb <= t)%Z -> rel_time nb t = Some r -> abs_time nb r = t /\ r < 2 ^ 48.
Proof.
  unfold rel_time, abs_time. intros H.
  destruct (t - nb >=? 2 ^ 48)%Z eqn:E; [discriminate|].
  intros R; inversion R; subst r. clear R.
  assert (B : (t - nb < 2 ^ 48)%Z) by (rewrite Z.geb_leb in E; apply Z.leb_gt in E; exact E).
  rewrite Z.mod_small by lia.
  rewrite i64_small by (rewrite Z2N.id by lia; lia).
  rewrite Z2N.id by lia. split; [lia|].
  change (2 ^ 48) with (Z.to_N (2 ^ 48)%Z). apply Z2N.inj_lt; lia.
Qed.

(** ** every derivation input decodes back to its fields *)

Lemma firstn_app_exact {A} (l r : list A) : firstn (length l) (l ++ r) = l.
Proof. rewrite firstn_app, Nat.sub_diag, firstn_O, app_nil_r. apply firstn_all. Qed.

Lemma skipn_app_exact {A} (l r : list A) : skipn (length l) (l ++ r) = r.
Proof. rewrite skipn_app, Nat.sub_diag, skipn_all. reflexivity. Qed.

Lemma all_zero_zeros n : all_zero (zeros n) = true.
Proof. induction n as [|n IH]; [reflexivity|]. cbn. exact IH. Qed.

Lemma input_len_ge n : (n <= input_len n)%nat.
Proof.
  unfold input_len. pose proof (Nat.div_mod_eq (n - 1) 16) as E.
  pose proof (Nat.mod_upper_bound (n - 1) 16 ltac:(discriminate)) as B. lia.
Qed.

Lemma pad_length l : length (pad l) = input_len (length l).
Proof.
  unfold pad, zeros. rewrite app_length, repeat_length. pose proof (input_len_ge (length l)). lia.
Qed.

Lemma fields_eqb_refl x : fields_eqb x x = true.
Proof.
  destruct x as [[[a b] c] d]. unfold fields_eqb.
  rewrite !N.eqb_refl, (proj2 (bytes_eqb_eq d d) eq_refl). reflexivity.
Qed.

(** decoding a padded [hdr ++ raw] whose address length is the one its type announces *)
Lemma decode_lvl2 fmt kt t raw :
  fmt <> 0 -> fmt <> 2 -> length raw = addr_len t ->
  decode_input fmt (pad ([kt; t] ++ raw)) = Some (kt, 0, t, raw).
Proof.
  intros F0 F2 L.
  pose proof (pad_length ([kt; t] ++ raw)) as PL.
  unfold pad in *. cbn [app] in *.
  assert (D : forall i, decode_input fmt i =
              match i with
              | kt :: t :: r =>
                let n := addr_len t in
                if Nat.eqb (length i) (input_len (2 + n)) && all_zero (skipn n r)
                then Some (kt, 0, t, firstn n r) else None
              | _ => None
              end).
  { intros i. unfold decode_input. destruct fmt as [|[[q|q|]|[q|q|]|]]; try reflexivity; congruence. }
  rewrite D. clear D. cbv zeta. rewrite PL. cbn [length]. rewrite <- L.
  rewrite firstn_app_exact, skipn_app_exact, all_zero_zeros.
  cbn [Nat.add]. rewrite Nat.eqb_refl. reflexivity.
Qed.

Lemma decode_gen kt a b t raw :
  length raw = addr_len t ->
  decode_input 2 (pad ([kt] ++ [a; b] ++ [t] ++ raw)) = Some (kt, unbe [a; b], t, raw).
Proof.
  intros L.
  pose proof (pad_length ([kt] ++ [a; b] ++ [t] ++ raw)) as PL.
  unfold pad in *. cbn [app] in *.
  unfold decode_input. cbv zeta. rewrite PL. cbn [length]. rewrite <- L.
  rewrite firstn_app_exact, skipn_app_exact, all_zero_zeros.
  cbn [Nat.add]. rewrite Nat.eqb_refl. reflexivity.
Qed.

Lemma input_ok_model fmt kt proto ia h :
  input_ok fmt kt proto ia h (model_input fmt kt proto ia h) = true.
Proof.
  unfold input_ok.
  destruct (model_input fmt kt proto ia h) as [i|] eqn:M; [|reflexivity].
  assert (E : decode_input fmt i = input_fields fmt kt proto ia h);
    [|rewrite E; destruct (input_fields fmt kt proto ia h) as [x|]; [apply fields_eqb_refl | reflexivity]].
  destruct (N.eq_dec fmt 0) as [->|F0]; [|destruct (N.eq_dec fmt 2) as [->|F2]].
  - cbn [model_input] in M. injection M as <-. cbn [input_fields].
    unfold decode_input, lvl1_input. cbn [app].
    replace (length (kt_as_as :: be 8 ia ++ zeros 7)) with 16%nat
      by (cbn [length]; rewrite app_length, be_length; reflexivity).
    cbn [Nat.eqb andb].
    assert (F : firstn 8 (be 8 ia ++ zeros 7) = be 8 ia)
      by (rewrite <- (be_length 8 ia) at 1; apply firstn_app_exact).
    assert (S : skipn 8 (be 8 ia ++ zeros 7) = zeros 7)
      by (rewrite <- (be_length 8 ia) at 1; apply skipn_app_exact).
    rewrite F, S. reflexivity.
  - cbn [model_input] in M. unfold gen_lvl2_input in M. cbn [input_fields].
    destruct (pack_addr h) as [[t raw]|] eqn:P; [|discriminate].
    apply pack_addr_wf in P as [T L]. rewrite (type_nibble _ T) in M.
    destruct (be2_form proto) as (a & b & Q). rewrite Q in *.
    assert (Ei : i = pad ([kt] ++ [a; b] ++ [t] ++ raw)) by congruence.
    subst i. now apply decode_gen.
  - assert (M' : model_input fmt kt proto ia h =
                 if fmt =? 1 then spec_lvl2_input kt h else hh_input h).
    { unfold model_input. destruct fmt as [|[[q|q|]|[q|q|]|]]; try reflexivity; congruence. }
    assert (I' : input_fields fmt kt proto ia h =
                 match pack_addr h with
                 | Some (t, raw) => Some (if fmt =? 1 then kt else kt_host_host, 0, t, raw)
                 | None => None end).
    { unfold input_fields. destruct fmt as [|[[q|q|]|[q|q|]|]]; try reflexivity; congruence. }
    rewrite M' in M. rewrite I'. unfold spec_lvl2_input, hh_input in M.
    destruct (pack_addr h) as [[t raw]|] eqn:P; [|destruct (fmt =? 1); discriminate].
    apply pack_addr_wf in P as [T L]. rewrite (type_nibble _ T) in M.
    destruct (fmt =? 1).
    + assert (Ei : i = pad ([kt; t] ++ raw)) by congruence. subst i. now apply decode_lvl2.
    + assert (Ei : i = pad ([kt_host_host; t] ++ raw)) by congruence. subst i. now apply decode_lvl2.
Qed.

(** ** distinct hosts get distinct keys (for a collision-free PRF) *)

Lemma opt_bytes_eqb_refl (k : option key) : option_eqb bytes_eqb k k = true.
Proof. destruct k as [k|]; [apply (proj2 (bytes_eqb_eq k k) eq_refl) | reflexivity]. Qed.

Lemma all2_opt_refl (l : list (option key)) : all2 (option_eqb bytes_eqb) l l = true.
Proof. induction l as [|x l IH]; [reflexivity|]. cbn [all2]. now rewrite opt_bytes_eqb_refl. Qed.

Lemma pack_eqb_refl x : pack_eqb x x = true.
Proof.
  destruct x as [[t r]|]; [|reflexivity]. cbn.
  now rewrite N.eqb_refl, (proj2 (bytes_eqb_eq r r) eq_refl).
Qed.

Lemma model_input_same_host fmt kt proto h1 h2 i :
  fmt <> 0 ->
  model_input fmt kt proto 0 h1 = Some i -> model_input fmt kt proto 0 h2 = Some i ->
  pack_addr h1 = pack_addr h2.
Proof.
  intros F E1 E2.
  destruct fmt as [|[[q|q|]|[q|q|]|]]; try congruence; cbn [model_input] in E1, E2;
    try exact (hh_input_inj _ _ _ E1 E2).
  - (* 2: generic; the protocol is the same on both sides, so only the host matters *)
    unfold gen_lvl2_input in *.
    destruct (pack_addr h1) as [[t1 r1]|] eqn:P1; [|discriminate].
    destruct (pack_addr h2) as [[t2 r2]|] eqn:P2; [|discriminate].
    pose proof P1 as W1. pose proof P2 as W2.
    apply pack_addr_wf in W1 as [T1 L1]. apply pack_addr_wf in W2 as [T2 L2].
    rewrite (type_nibble _ T1) in E1. rewrite (type_nibble _ T2) in E2.
    destruct (be2_form proto) as (a & b & Q). rewrite Q in *.
    assert (F1 : pad ([kt] ++ [a; b] ++ [t1] ++ r1) = pad ([kt] ++ [a; b] ++ [t2] ++ r2)) by congruence.
    assert (H := F1). unfold pad in H. cbn [app] in H. injection H as Ht _. subst t2.
    apply pad_inj in F1; [|cbn [app length]; now rewrite L1, L2].
    cbn [app] in F1. injection F1 as ->. reflexivity.
  - (* 1: specific *)
    exact (proj2 (spec_lvl2_input_inj _ _ _ _ _ E1 E2)).
Qed.

Lemma pair_ok_model (prf : key -> bytes -> key) fmt kt proto parent h1 h2 :
  fmt <> 0 -> (forall i j, prf parent i = prf parent j -> i = j) ->
  let d1 := pair_key prf fmt kt proto parent h1 in
  let d2 := pair_key prf fmt kt proto parent h2 in
  pair_ok h1 h2 d1 d2 d1 d2 = true.
Proof.
  intros F Inj d1 d2. unfold pair_ok. rewrite !opt_bytes_eqb_refl. cbn [andb].
  unfold d1, d2, pair_key.
  destruct (model_input fmt kt proto 0 h1) as [i1|] eqn:M1; [|reflexivity].
  destruct (model_input fmt kt proto 0 h2) as [i2|] eqn:M2; [|reflexivity].
  cbn [option_map]. destruct (bytes_eqb (prf parent i1) (prf parent i2)) eqn:E; [|reflexivity].
  apply bytes_eqb_eq in E. apply Inj in E. subst i2.
  rewrite (model_input_same_host fmt kt proto h1 h2 i1 F M1 M2). apply pack_eqb_refl.
Qed.

(** ** secret values: the KDF input determines (master secret, protocol, epoch) *)

Lemma app_eq_len {A} (a b x y : list A) : length a = length b -> a ++ x = b ++ y -> a = b /\ x = y.
Proof.
  revert b. induction a as [|h a IH]; intros [|h' b] L E; try discriminate.
  - auto.
  - cbn in L, E. injection E as -> E. injection L as L. destruct (IH b L E) as [-> ->]. auto.
Qed.

Lemma sv_input_inj ms1 ms2 p1 p2 (e1 e2 : epoch) :
  N.of_nat (length ms1) < 2 ^ 64 -> N.of_nat (length ms2) < 2 ^ 64 ->
  p1 < 2 ^ 16 -> p2 < 2 ^ 16 ->
  fst e1 < 2 ^ 32 -> snd e1 < 2 ^ 32 -> fst e2 < 2 ^ 32 -> snd e2 < 2 ^ 32 ->
  sv_input ms1 p1 e1 = sv_input ms2 p2 e2 -> ms1 = ms2 /\ p1 = p2 /\ e1 = e2.
Proof.
  unfold sv_input. intros L1 L2 P1 P2 B1 E1 B2 E2 H.
  apply app_eq_len in H as [H8 H]; [|now rewrite !be_length].
  apply (be_inj 8) in H8; [|assumption|assumption]. apply Nat2N.inj in H8.
  apply app_eq_len in H as [-> H]; [|assumption].
  apply app_eq_len in H as [Hp H]; [|now rewrite !be_length].
  apply (be_inj 2) in Hp; [|assumption|assumption].
  apply app_eq_len in H as [Hb He]; [|now rewrite !be_length].
  apply (be_inj 4) in Hb; [|assumption|assumption].
  apply (be_inj 4) in He; [|assumption|assumption].
  destruct e1, e2; cbn [fst snd] in *; subst; auto.
Qed.

Lemma u32_lt z : u32 z < 2 ^ 32.
Proof.
  unfold u32. pose proof (Z.mod_pos_bound z (2 ^ 32) ltac:(lia)) as B.
  change (2 ^ 32) with (Z.to_N (2 ^ 32)%Z). apply Z2N.inj_lt; lia.
Qed.

Lemma sv_epoch_lt d t : fst (sv_epoch d t) < 2 ^ 32 /\ snd (sv_epoch d t) < 2 ^ 32.
Proof. unfold sv_epoch. cbn [fst snd]. split; apply u32_lt. Qed.

Lemma lvl1_proto_lt p : p < 2 ^ 16 -> lvl1_proto p < 2 ^ 16.
Proof. unfold lvl1_proto. destruct (is_predefined p); [auto | intros _; reflexivity]. Qed.

Lemma sv_pair_ok_model (kdf : bytes -> key) ms p1 e1 p2 e2 :
  (forall i j, kdf i = kdf j -> i = j) ->
  N.of_nat (length ms) < 2 ^ 64 -> p1 < 2 ^ 16 -> p2 < 2 ^ 16 ->
  fst e1 < 2 ^ 32 -> snd e1 < 2 ^ 32 -> fst e2 < 2 ^ 32 -> snd e2 < 2 ^ 32 ->
  sv_pair_ok p1 e1 p2 e2 (derive_sv kdf ms p1 e1) (derive_sv kdf ms p2 e2)
             (derive_sv kdf ms p1 e1) (derive_sv kdf ms p2 e2) = true.
Proof.
  intros Inj L P1 P2 B1 E1 B2 E2. unfold sv_pair_ok. rewrite !opt_bytes_eqb_refl. cbn [andb].
  unfold derive_sv. destruct ms as [|x ms]; [reflexivity|].
  destruct (bytes_eqb _ _) eqn:E; [|reflexivity].
  apply bytes_eqb_eq in E. apply Inj in E.
  apply sv_input_inj in E as (_ & -> & ->); try assumption.
  unfold epoch_eqb. now rewrite !N.eqb_refl.
Qed.

(** *** separation along the whole hierarchy, for a collision-free KDF and PRF *)
Section FullSeparation.
  Variable kdf : bytes -> key.
  Variable prf : key -> bytes -> key.
  Variable ms : N -> bytes.
  Variable dur : N -> option Z.
  Hypothesis kdf_inj : forall i j, kdf i = kdf j -> i = j.
  Hypothesis prf_inj : forall k k' i i', prf k i = prf k' i' -> k = k' /\ i = i'.

  Lemma as_host_keys_separate loc1 loc2 p1 p2 t1 t2 src dst1 dst2 h1 h2 k e1 e2 :
    N.of_nat (length (ms src)) < 2 ^ 64 ->
    p1 < 2 ^ 16 -> p2 < 2 ^ 16 -> p1 <> generic -> p2 <> generic ->
    dst1 < 2 ^ 64 -> dst2 < 2 ^ 64 ->
    engine_as_host prf (sv_of kdf ms) dur loc1 p1 t1 src dst1 h1 = ROk k e1 ->
    engine_as_host prf (sv_of kdf ms) dur loc2 p2 t2 src dst2 h2 = ROk k e2 ->
    p1 = p2 /\ e1 = e2 /\ dst1 = dst2 /\ pack_addr h1 = pack_addr h2.
  Proof.
    intros L P1 P2 G1 G2 D1 D2 A1 A2.
    apply engine_as_host_ok in A1 as (d1 & Du1 & -> & K1).
    apply engine_as_host_ok in A2 as (d2 & Du2 & -> & K2).
    rewrite host_lvl2_eq in K1, K2.
    destruct (lvl2_input kt_as_host p1 h1) as [i1|] eqn:I1; [|discriminate].
    destruct (lvl2_input kt_as_host p2 h2) as [i2|] eqn:I2; [|discriminate].
    cbn [option_map] in K1, K2.
    assert (E : prf (host_lvl1 prf (sv_of kdf ms src (lvl1_proto p1) (sv_epoch d1 t1)) dst1) i1 =
                prf (host_lvl1 prf (sv_of kdf ms src (lvl1_proto p2) (sv_epoch d2 t2)) dst2) i2)
      by congruence.
    apply prf_inj in E as [E Ei]. subst i2.
    unfold host_lvl1 in E. apply prf_inj in E as [Es El].
    apply lvl1_input_inj in El; [|assumption|assumption].
    unfold sv_of in Es. apply kdf_inj in Es.
    destruct (sv_epoch_lt d1 t1), (sv_epoch_lt d2 t2).
    apply sv_input_inj in Es as (_ & Lp & Ee); try assumption; try (now apply lvl1_proto_lt).
    destruct (lvl2_input_inj _ _ _ _ _ _ _ P1 P2 Lp G1 G2 I1 I2) as (_ & Pp & Ph).
    auto.
  Qed.
End FullSeparation.

(** the hypotheses of [FullSeparation] are satisfiable *)
Lemma toy_prf_inj (k k' : key) (i i' : bytes) :
  N.of_nat (length k) :: k ++ i = N.of_nat (length k') :: k' ++ i' -> k = k' /\ i = i'.
Proof.
  intros E. injection E as L E. apply Nat2N.inj in L. now apply app_eq_len in E.
Qed.
