(** Lemmas about the shim dispatcher model (Model/Dispatcher.v). *)
From Coq Require Import List NArith ZArith Bool Lia ZifyBool ZifyN ZifyNat.
From Scion Require Import Lib.Check Lib.Bytes Model.Dispatcher.
Import ListNotations.
Import Dispatcher.
Local Open Scope N_scope.

Ltac Zify.zify_post_hook ::= Z.to_euclidean_division_equations.

(** the model's own big-endian functions are those of Lib/Bytes.v *)
Lemma be_is k n : be k n = Scion.Lib.Bytes.be k n.
Proof. reflexivity. Qed.
Lemma unbe_is l : unbe l = Scion.Lib.Bytes.unbe l.
Proof. reflexivity. Qed.
Lemma be_unbe' l : wf_bytes l -> be (length l) (unbe l) = l.
Proof. intros W. rewrite be_is, unbe_is. now apply be_unbe. Qed.

(** ------------------------------------------------------------------ boolean equalities *)

Lemma ip_eqb_refl x : ip_eqb x x = true.
Proof. destruct x; cbn [ip_eqb]; apply N.eqb_refl. Qed.

Lemma ip_eqb_eq x y : ip_eqb x y = true -> x = y.
Proof.
  destruct x, y; cbn [ip_eqb]; intros H; try discriminate; apply N.eqb_eq in H; now subst.
Qed.

Lemma pair_eqb_refl x : pair_eqb x x = true.
Proof. unfold pair_eqb. now rewrite ip_eqb_refl, N.eqb_refl. Qed.

Lemma pair_eqb_eq x y : pair_eqb x y = true -> x = y.
Proof.
  destruct x as [a p], y as [b q]. unfold pair_eqb. cbn [fst snd]. intros H.
  apply andb_true_iff in H as [H1 H2]. apply ip_eqb_eq in H1. apply N.eqb_eq in H2. now subst.
Qed.

Lemma key_eqb_eq a b : key_eqb a b = true -> a = b.
Proof.
  destruct a as [a1 a2], b as [b1 b2]. unfold key_eqb. cbn [fst snd]. intros H.
  apply andb_true_iff in H as [H1 H2]. apply N.eqb_eq in H1. apply N.eqb_eq in H2. now subst.
Qed.

Lemma list_eqb_refl {A} (e : A -> A -> bool) :
  (forall x, e x x = true) -> forall l, list_eqb e l l = true.
Proof.
  intros H. unfold list_eqb. induction l as [|x t IH]; [reflexivity|].
  rewrite H. exact IH.
Qed.

Lemma bytes_eqb_refl l : bytes_eqb l l = true.
Proof. apply list_eqb_refl. apply N.eqb_refl. Qed.

Lemma info_eqb_refl i : info_eqb i i = true.
Proof. unfold info_eqb. now rewrite !Bool.eqb_reflx, !N.eqb_refl. Qed.

Lemma hop_eqb_refl h : hop_eqb h h = true.
Proof. unfold hop_eqb. now rewrite !Bool.eqb_reflx, !N.eqb_refl. Qed.

Lemma spath_eqb_refl s : spath_eqb s s = true.
Proof.
  unfold spath_eqb. rewrite !N.eqb_refl.
  rewrite (list_eqb_refl info_eqb info_eqb_refl), (list_eqb_refl hop_eqb hop_eqb_refl). reflexivity.
Qed.

Lemma path_eqb_refl p : path_eqb p p = true.
Proof.
  destruct p; cbn [path_eqb]; try reflexivity; try apply spath_eqb_refl; try apply N.eqb_refl.
  now rewrite info_eqb_refl, !hop_eqb_refl.
Qed.

Lemma haddr_eqb_refl a : haddr_eqb a a = true.
Proof. unfold haddr_eqb. now rewrite N.eqb_refl, bytes_eqb_refl. Qed.

Lemma reply_eqb_refl r : reply_eqb r r = true.
Proof.
  unfold reply_eqb.
  rewrite pair_eqb_refl, !N.eqb_refl, !haddr_eqb_refl, path_eqb_refl, bytes_eqb_refl.
  destruct (r_e2e r); cbn [option_eqb]; [now rewrite bytes_eqb_refl | reflexivity].
Qed.

Lemma obs_eqb_refl o : obs_eqb o o = true.
Proof.
  destruct o; cbn [obs_eqb]; try reflexivity.
  - now rewrite ip_eqb_refl, N.eqb_refl, Bool.eqb_reflx.
  - apply reply_eqb_refl.
Qed.

(** ------------------------------------------------------------------ layers *)

Lemma last_udp p sp dp : l4p p = L4Udp sp dp -> last (decoded p) LScion = LUdp.
Proof. intros E. unfold decoded. rewrite E. destruct (hbh p), (e2e p); reflexivity. Qed.

Lemma last_scmp p ty code pl q : l4p p = L4Scmp ty code pl q -> last (decoded p) LScion = LScmp.
Proof. intros E. unfold decoded. rewrite E. destruct (hbh p), (e2e p); reflexivity. Qed.

Lemma decoded_len_l4 p : l4p p <> L4None -> Nat.ltb (length (decoded p)) 2 = false.
Proof.
  intros H. unfold decoded.
  destruct (l4p p); [now elim H| |]; destruct (hbh p), (e2e p); reflexivity.
Qed.

(** ------------------------------------------------------------------ shape of the outcomes *)

Lemma process_forward c d ul prev a port :
  process c d ul prev = Forward a port ->
  exists p, d = Pkt p /\ is_disp c = true /\ same_host a ul = true /\
    ((exists sp dp, l4p p = L4Udp sp dp /\ get_dst_scion_udp c p dp = Some (a, port)) \/
     (exists ty code pl q, l4p p = L4Scmp ty code pl q /\ is_info_req ty = false /\
        get_dst_scmp p ty pl q = Some (a, port))).
Proof.
  unfold process, scmp_type. destruct d as [|p]; [discriminate|].
  destruct (Nat.ltb (length (decoded p)) 2); [discriminate|].
  destruct (l4p p) as [|sp dp|ty code pl q] eqn:El4.
  - destruct (negb (is_disp c) && _); discriminate.
  - rewrite (last_udp p sp dp El4). cbn [layer_eqb negb orb]. rewrite andb_true_r.
    destruct (is_disp c) eqn:Ed; cbn [negb]; [|discriminate].
    destruct (get_dst_scion_udp c p dp) as [[a' port']|] eqn:Eg; [|discriminate].
    destruct (same_host a' ul) eqn:Es; [|discriminate].
    intros H; inversion H; subst. exists p. repeat split; try assumption.
    left. exists sp, dp. split; [exact El4 | assumption].
  - rewrite (last_scmp p ty code pl q El4). cbn [layer_eqb negb orb].
    destruct (is_info_req ty) eqn:Ei; cbn [negb andb].
    + rewrite andb_false_r. destruct (make_reply p prev ty pl); discriminate.
    + rewrite andb_true_r.
      destruct (is_disp c) eqn:Ed; cbn [negb]; [|discriminate].
      destruct (get_dst_scmp p ty pl q) as [[a' port']|] eqn:Eg; [|discriminate].
      destruct (same_host a' ul) eqn:Es; [|discriminate].
      intros H; inversion H; subst. exists p. repeat split; try assumption.
      right. exists ty, code, pl, q. repeat split; assumption.
Qed.

Lemma process_reply c d ul prev r :
  process c d ul prev = Reply r ->
  exists p ty code pl q, d = Pkt p /\ l4p p = L4Scmp ty code pl q /\ is_info_req ty = true /\
    make_reply p prev ty pl = Some r.
Proof.
  unfold process, scmp_type. destruct d as [|p]; [discriminate|].
  destruct (Nat.ltb (length (decoded p)) 2); [discriminate|].
  destruct (l4p p) as [|sp dp|ty code pl q] eqn:El4.
  - destruct (negb (is_disp c) && _); discriminate.
  - destruct (negb (is_disp c) && _); [discriminate|].
    destruct (get_dst_scion_udp c p dp) as [[a' port']|]; [|discriminate].
    destruct (same_host a' ul); discriminate.
  - destruct (negb (is_disp c) && _); [discriminate|].
    destruct (is_info_req ty) eqn:Ei.
    + destruct (make_reply p prev ty pl) as [r'|] eqn:Em; [|discriminate].
      intros H; inversion H; subst. exists p, ty, code, pl, q. repeat split; assumption.
    + destruct (get_dst_scmp p ty pl q) as [[a' port']|]; [|discriminate].
      destruct (same_host a' ul); discriminate.
Qed.

(** requests are answered whatever the flag and the outer destination *)
Lemma process_request c p ul prev ty code pl q :
  l4p p = L4Scmp ty code pl q -> is_info_req ty = true ->
  process c (Pkt p) ul prev =
    match make_reply p prev ty pl with Some r => Reply r | None => Drop end.
Proof.
  intros El4 Ei. unfold process, scmp_type.
  rewrite decoded_len_l4 by (rewrite El4; discriminate).
  rewrite (last_scmp p ty code pl q El4), El4, Ei. cbn [layer_eqb negb orb].
  rewrite andb_false_r. reflexivity.
Qed.

Lemma process_disabled c d ul prev :
  is_disp c = false ->
  process c d ul prev = Drop \/ exists r, process c d ul prev = Reply r.
Proof.
  intros Ed. destruct (process c d ul prev) as [|a port|r] eqn:E.
  - now left.
  - apply process_forward in E as (p & _ & Ed' & _). congruence.
  - right. now exists r.
Qed.

Lemma process_undecodable c ul prev : process c Undecodable ul prev = Drop.
Proof. reflexivity. Qed.

Lemma process_no_l4 c p ul prev : l4p p = L4None -> process c (Pkt p) ul prev = Drop.
Proof.
  intros E. unfold process. rewrite E.
  destruct (Nat.ltb _ 2); [reflexivity|]. destruct (negb (is_disp c) && _); reflexivity.
Qed.

(** ------------------------------------------------------------------ destinations *)

Lemma addr_port_some raw port a q :
  addr_port raw port = Some (a, q) -> addr_from_slice raw = Some a /\ q = port.
Proof.
  unfold addr_port. destruct (addr_from_slice raw); [|discriminate].
  intros H; inversion H; subst. split; reflexivity.
Qed.

Lemma lookup_in k m v : lookup k m = Some v -> In (k, v) m.
Proof.
  induction m as [|[k' v'] t IH]; cbn [lookup]; [discriminate|].
  destruct (key_eqb k k') eqn:E.
  - intros H; inversion H; subst. apply key_eqb_eq in E. subst. now left.
  - intros H. right. now apply IH.
Qed.

Lemma lookup_existsb k m v :
  lookup k m = Some v -> existsb (fun e => key_eqb k (fst e) && pair_eqb (snd e) v) m = true.
Proof.
  induction m as [|[k' v'] t IH]; cbn [lookup existsb fst snd]; [discriminate|].
  destruct (key_eqb k k') eqn:E; cbn [andb].
  - intros H; inversion H; subst. now rewrite pair_eqb_refl.
  - intros H. rewrite (IH H). apply orb_true_r.
Qed.

Lemma existsb_in k m v :
  existsb (fun e => key_eqb k (fst e) && pair_eqb (snd e) v) m = true -> In (k, v) m.
Proof.
  intros H. apply existsb_exists in H as ([k' v'] & Hin & H). cbn [fst snd] in H.
  apply andb_true_iff in H as [H1 H2]. apply key_eqb_eq in H1. apply pair_eqb_eq in H2. now subst.
Qed.

Lemma parse_addr_ip t raw a : parse_addr t raw = Some (HIP a) -> is_ip_type t = true.
Proof.
  unfold parse_addr, is_ip_type.
  destruct (t =? 0); [reflexivity|]. destruct (t =? 4); [discriminate|].
  destruct (t =? 3); [reflexivity | discriminate].
Qed.

Lemma parse_addr_svc t raw s :
  parse_addr t raw = Some (HSVC s) -> t = 4 /\ s = unbe (firstn 2 raw) /\ is_ip_type t = false.
Proof.
  unfold parse_addr, is_ip_type.
  destruct (t =? 0) eqn:E0; [discriminate|]. destruct (t =? 4) eqn:E4.
  - intros H; inversion H. apply N.eqb_eq in E4. subst. repeat split.
  - destruct (t =? 3); discriminate.
Qed.

(** the model's destination is accepted by the boolean specification *)
Lemma udp_dest_ok c p sp dp a port :
  l4p p = L4Udp sp dp -> get_dst_scion_udp c p dp = Some (a, port) -> dest_ok c p a port = true.
Proof.
  intros El4. unfold get_dst_scion_udp, dest_ok. rewrite El4.
  destruct (parse_addr (dst_t p) (dst_raw p)) as [[h|s]|] eqn:Ep; [| |discriminate].
  - rewrite (parse_addr_ip _ _ _ Ep). intros H. apply addr_port_some in H as [H ->].
    rewrite H. now rewrite ip_eqb_refl, N.eqb_refl.
  - apply parse_addr_svc in Ep as (Et & -> & Ei). rewrite Ei, Et. cbn [N.eqb Pos.eqb].
    apply lookup_existsb.
Qed.

Lemma quote_port_ok q port :
  quote_port q = Some port ->
  match q with
  | QUdp sport => negb (sport =? 0) && (sport =? port)
  | QScmp qty (Some id) => ((qty =? 128) || (qty =? 130)) && (id =? port)
  | _ => false
  end = true.
Proof.
  destruct q as [|sport|qty id]; cbn [quote_port]; [discriminate| |].
  - destruct (sport =? 0); [discriminate|]. intros H; inversion H; subst.
    now rewrite N.eqb_refl.
  - destruct (qty <=? 127); [discriminate|].
    destruct (qty =? 128) eqn:E1, (qty =? 130) eqn:E2; cbn [negb andb orb]; try discriminate;
      intros ->; now rewrite N.eqb_refl.
Qed.

Lemma scmp_dest_ok c p ty code pl q a port :
  l4p p = L4Scmp ty code pl q -> get_dst_scmp p ty pl q = Some (a, port) ->
  dest_ok c p a port = true.
Proof.
  intros El4. unfold get_dst_scmp, dest_ok. rewrite El4.
  destruct (ty =? 129).
  { destruct (scmp_id 4 pl); [|discriminate]. intros H. apply addr_port_some in H as [H ->].
    rewrite H. now rewrite ip_eqb_refl, N.eqb_refl. }
  destruct (ty =? 131).
  { destruct (scmp_id 20 pl); [|discriminate]. intros H. apply addr_port_some in H as [H ->].
    rewrite H. now rewrite ip_eqb_refl, N.eqb_refl. }
  destruct (is_info_req ty); [discriminate|].
  destruct (err_hdr_len ty) as [hl|]; [|discriminate].
  destruct (Nat.leb (length pl) hl) eqn:El; [discriminate|].
  destruct (quote_port q) as [qp|] eqn:Eq; [|discriminate].
  intros H. apply addr_port_some in H as [H ->]. rewrite H, ip_eqb_refl. cbn [andb].
  apply Nat.leb_gt in El. apply Nat.ltb_lt in El. rewrite El. cbn [andb].
  now apply quote_port_ok.
Qed.

(** the boolean specification implies the propositional one *)
Lemma dest_ok_legit c p a port : dest_ok c p a port = true -> legit_dest c p a port.
Proof.
  unfold dest_ok, legit_dest.
  destruct (l4p p) as [|sp dp|ty code pl q] eqn:El4; [discriminate| |].
  - destruct (is_ip_type (dst_t p)) eqn:Ei.
    + destruct (addr_from_slice (dst_raw p)) as [h|] eqn:Ea; [|discriminate].
      intros H. apply andb_true_iff in H as [H1 H2]. apply ip_eqb_eq in H1. apply N.eqb_eq in H2.
      subst. left. exists sp. repeat split.
    + destruct (dst_t p =? 4) eqn:E4; [|discriminate]. intros H. apply existsb_in in H.
      right; left. exists sp, dp, (unbe (firstn 2 (dst_raw p))). repeat split; [|exact H].
      apply N.eqb_eq in E4. unfold parse_addr. rewrite E4. reflexivity.
  - destruct (addr_from_slice (dst_raw p)) as [h|] eqn:Ea; [|discriminate].
    intros H. apply andb_true_iff in H as [H1 H]. apply ip_eqb_eq in H1. subst h.
    right; right. exists ty, code, pl, q. split; [reflexivity|]. split; [reflexivity|].
    destruct (ty =? 129) eqn:E129.
    { apply N.eqb_eq in E129. left. split; [exact E129|].
      destruct (scmp_id 4 pl); [|discriminate]. apply N.eqb_eq in H. now subst. }
    destruct (ty =? 131) eqn:E131.
    { apply N.eqb_eq in E131. right; left. split; [exact E131|].
      destruct (scmp_id 20 pl); [|discriminate]. apply N.eqb_eq in H. now subst. }
    right; right.
    destruct (err_hdr_len ty) as [hl|] eqn:Eh; [|discriminate].
    apply andb_true_iff in H as [Hl H]. apply Nat.ltb_lt in Hl.
    split; [exists hl; split; [exact Eh | exact Hl]|].
    destruct q as [|sport|qty [id|]]; try discriminate.
    + apply andb_true_iff in H as [H1 H2]. apply N.eqb_eq in H2. subst sport.
      left. split; [reflexivity|]. intros ->. discriminate.
    + apply andb_true_iff in H as [H1 H2]. apply N.eqb_eq in H2. subst id.
      right. exists qty. split; [reflexivity|].
      apply orb_true_iff in H1 as [H1|H1]; apply N.eqb_eq in H1; [now left | now right].
Qed.

(** ------------------------------------------------------------------ replies *)

Lemma make_reply_fields p prev ty pl r :
  make_reply p prev ty pl = Some r ->
  exists src dst rp,
    parse_addr (src_t p) (src_raw p) = Some src /\ parse_addr (dst_t p) (dst_raw p) = Some dst /\
    reverse_path (pth p) = Some rp /\
    r = {| r_to := prev; r_dst_ia := src_ia p; r_src_ia := dst_ia p;
           r_dst := pack_addr src; r_src := pack_addr dst;
           r_path_ty := path_type rp; r_path := rp; r_next := 202; r_e2e := e2e p;
           r_ty := (if ty =? 128 then 129 else 131); r_code := 0; r_payload := pl |}.
Proof.
  unfold make_reply.
  destruct (parse_addr (src_t p) (src_raw p)) as [src|]; [|discriminate].
  destruct (parse_addr (dst_t p) (dst_raw p)) as [dst|]; [|discriminate].
  destruct (reverse_path (pth p)) as [rp|]; [|discriminate].
  intros H; inversion H; subst. exists src, dst, rp. repeat split.
Qed.

Lemma make_reply_ok p prev ty pl r :
  make_reply p prev ty pl = Some r -> reply_ok p prev ty pl r = true.
Proof.
  intros H. apply make_reply_fields in H as (src & dst & rp & Es & Ed & Er & ->).
  unfold reply_ok. cbn [r_to r_dst_ia r_src_ia r_dst r_src r_path r_path_ty r_ty r_code r_payload].
  rewrite Es, Ed, Er.
  now rewrite pair_eqb_refl, !N.eqb_refl, !haddr_eqb_refl, path_eqb_refl, bytes_eqb_refl.
Qed.

Lemma is_info_req_iff ty : is_info_req ty = true <-> ty = 128 \/ ty = 130.
Proof.
  unfold is_info_req. rewrite orb_true_iff, !N.eqb_eq. tauto.
Qed.

(** ------------------------------------------------------------------ the oracle *)

(** outside the class of the open finding scmp-dst-type-unchecked the oracle holds on the model *)
Lemma oracle_model_except_known c d ul prev :
  known_scmp_dst_type d = false -> oracle c d ul prev (to_obs (process c d ul prev)) = true.
Proof.
  intros K. destruct (process c d ul prev) as [|a port|r] eqn:E; cbn [to_obs oracle].
  - reflexivity.
  - apply process_forward in E as (p & -> & Ed & Es & H). rewrite Ed, Es. cbn [andb].
    unfold dest_ok_strict, scmp_dst_typed.
    destruct H as [(sp & dp & El4 & Eg)|(ty & code & pl & q & El4 & Ei & Eg)].
    + rewrite (udp_dest_ok c p sp dp a port El4 Eg), El4. reflexivity.
    + rewrite (scmp_dest_ok c p ty code pl q a port El4 Eg), El4.
      cbn [known_scmp_dst_type] in K. rewrite El4, Ei in K. cbn [negb andb] in K.
      apply negb_false_iff in K. now rewrite K.
  - apply process_reply in E as (p & ty & code & pl & q & -> & El4 & Ei & Em).
    rewrite El4, Ei. cbn [andb]. now apply make_reply_ok.
Qed.

Lemma forward_strict_except_known c d ul prev a port :
  known_scmp_dst_type d = false -> process c d ul prev = Forward a port ->
  exists p, d = Pkt p /\ dest_ok_strict c p a port = true.
Proof.
  intros K E. apply process_forward in E as (p & -> & Ed & Es & H). exists p. split; [reflexivity|].
  unfold dest_ok_strict, scmp_dst_typed.
  destruct H as [(sp & dp & El4 & Eg)|(ty & code & pl & q & El4 & Ei & Eg)].
  - rewrite (udp_dest_ok c p sp dp a port El4 Eg), El4. reflexivity.
  - rewrite (scmp_dest_ok c p ty code pl q a port El4 Eg), El4.
    cbn [known_scmp_dst_type] in K. rewrite El4, Ei in K. cbn [negb andb] in K.
    apply negb_false_iff in K. now rewrite K.
Qed.

Lemma dest_ok_strict_legit c p a port :
  dest_ok_strict c p a port = true -> legit_dest_strict c p a port.
Proof.
  unfold dest_ok_strict, legit_dest_strict, scmp_dst_typed. intros H.
  apply andb_true_iff in H as [H1 H2]. split; [now apply dest_ok_legit|].
  intros ty code pl q El4. now rewrite El4 in H2.
Qed.

Lemma oracle_forward_sound c d ul prev a port same :
  oracle c d ul prev (OForward a port same) = true ->
  same = true /\ is_disp c = true /\
  exists p, d = Pkt p /\ legit_dest_strict c p a port /\ same_host a ul = true.
Proof.
  cbn [oracle]. intros H. apply andb_true_iff in H as [H H3]. apply andb_true_iff in H as [H1 H2].
  destruct d as [|p]; [discriminate|]. apply andb_true_iff in H3 as [H3 H4].
  repeat split; try assumption. exists p. split; [reflexivity|].
  split; [now apply dest_ok_strict_legit | assumption].
Qed.

(** ------------------------------------------------------------------ host packing *)

Lemma parse_addr_0 raw : parse_addr 0 raw = Some (HIP (V4 (unbe (firstn 4 raw)))).
Proof. reflexivity. Qed.
Lemma parse_addr_4 raw : parse_addr 4 raw = Some (HSVC (unbe (firstn 2 raw))).
Proof. reflexivity. Qed.
Lemma parse_addr_3 raw : parse_addr 3 raw = Some (HIP (V6 (unbe (firstn 16 raw)))).
Proof. reflexivity. Qed.

Lemma firstn_len {A} (l : list A) n : length l = n -> firstn n l = l.
Proof. intros <-. apply firstn_all. Qed.

Lemma pack_parse_v4 raw h :
  wf_bytes raw -> length raw = 4%nat -> parse_addr 0 raw = Some h -> pack_addr h = (0, raw).
Proof.
  intros W L. rewrite parse_addr_0, (firstn_len raw 4 L). intros H.
  assert (E : h = HIP (V4 (unbe raw))) by congruence. subst h.
  cbn [pack_addr unmap]. f_equal. rewrite <- L. now apply be_unbe'.
Qed.

Lemma wf_firstn n l : wf_bytes l -> wf_bytes (firstn n l).
Proof.
  unfold wf_bytes. revert n. induction l as [|x t IH]; intros n W.
  - rewrite firstn_nil. constructor.
  - destruct n; [constructor|]. rewrite firstn_cons. inversion W; subst.
    constructor; [assumption | now apply IH].
Qed.

Lemma pack_parse_svc raw h :
  wf_bytes raw -> (2 <= length raw)%nat -> parse_addr 4 raw = Some h ->
  pack_addr h = (4, firstn 2 raw ++ [0; 0]).
Proof.
  intros W L. rewrite parse_addr_4. intros H.
  assert (E : h = HSVC (unbe (firstn 2 raw))) by congruence. subst h.
  cbn [pack_addr]. f_equal. f_equal.
  assert (L2 : length (firstn 2 raw) = 2%nat) by (rewrite firstn_length; lia).
  rewrite <- L2 at 1. apply be_unbe'. now apply wf_firstn.
Qed.

Lemma pack_parse_v6 raw h :
  wf_bytes raw -> length raw = 16%nat -> unbe raw / 4294967296 <> 65535 ->
  parse_addr 3 raw = Some h -> pack_addr h = (3, raw).
Proof.
  intros W L M. rewrite parse_addr_3, (firstn_len raw 16 L). intros H.
  assert (E : h = HIP (V6 (unbe raw))) by congruence. subst h.
  cbn [pack_addr unmap].
  apply N.eqb_neq in M. rewrite M. f_equal. rewrite <- L. now apply be_unbe'.
Qed.

(** a source given as IPv4-mapped IPv6 address is answered at its IPv4 form *)
Lemma pack_parse_v6_mapped raw h :
  length raw = 16%nat -> unbe raw / 4294967296 = 65535 ->
  parse_addr 3 raw = Some h -> pack_addr h = (0, be 4 (unbe raw mod 4294967296)).
Proof.
  intros L M. rewrite parse_addr_3, (firstn_len raw 16 L). intros H.
  assert (E : h = HIP (V6 (unbe raw))) by congruence. subst h.
  cbn [pack_addr unmap]. apply N.eqb_eq in M. rewrite M. reflexivity.
Qed.

(** ------------------------------------------------------------------ reversal *)

Lemma flip_flip i : flip_info (flip_info i) = i.
Proof. destruct i. unfold flip_info. cbn. now rewrite negb_involutive. Qed.

Lemma some_inj {A} (x y : A) : Some x = Some y -> x = y.
Proof. congruence. Qed.

Lemma reverse_spath_involutive p q :
  wf_spath p -> reverse_spath p = Some q -> wf_spath q /\ reverse_spath q = Some p.
Proof.
  destruct p as [ci chf s0 s1 s2 infos hops].
  unfold wf_spath, reverse_spath, num_inf, num_hops.
  cbn [sp_ci sp_chf sp_s0 sp_s1 sp_s2 sp_infos sp_hops].
  intros (Hci & Hchf & Hnh & Hlen & Hs0 & Hgap).
  destruct (0 <? s2) eqn:E2; [|destruct (0 <? s1) eqn:E1; [|destruct (0 <? s0) eqn:E0]].
  - (* three segments *)
    assert (Hs1 : 0 < s1) by (destruct (N.eq_dec s1 0) as [Z|Z]; [specialize (Hgap Z); lia | lia]).
    cbn [N.eqb Pos.eqb N.ltb N.compare Pos.compare Pos.compare_cont].
    destruct infos as [|a [|b [|c [|]]]]; cbn [length] in Hlen; try (cbn in Hlen; lia).
    intros H; apply some_inj in H; subst q.
    cbn [sp_ci sp_chf sp_s0 sp_s1 sp_s2 sp_infos sp_hops swap_ends rev app map length].
    assert (E2' : (0 <? s0) = true) by lia. rewrite E2'.
    cbn [N.eqb Pos.eqb N.ltb N.compare Pos.compare Pos.compare_cont].
    cbn [swap_ends rev app map]. rewrite !flip_flip, rev_involutive.
    split; [repeat split; try lia; cbn; lia|].
    f_equal. f_equal; lia.
  - (* two segments *)
    assert (Z2 : s2 = 0) by lia. subst s2.
    cbn [N.eqb Pos.eqb N.ltb N.compare Pos.compare Pos.compare_cont].
    destruct infos as [|a [|b [|]]]; cbn [length] in Hlen; try (cbn in Hlen; lia).
    intros H; apply some_inj in H; subst q.
    cbn [sp_ci sp_chf sp_s0 sp_s1 sp_s2 sp_infos sp_hops swap_ends rev app map length].
    rewrite ?E2. assert (E0' : (0 <? s0) = true) by lia. rewrite E0'.
    cbn [N.eqb Pos.eqb N.ltb N.compare Pos.compare Pos.compare_cont].
    cbn [swap_ends rev app map]. rewrite !flip_flip, rev_involutive.
    split; [repeat split; try lia; cbn; lia|].
    f_equal. f_equal; lia.
  - (* one segment *)
    assert (Z2 : s2 = 0) by lia. assert (Z1 : s1 = 0) by lia. subst s1 s2.
    cbn [N.eqb Pos.eqb N.ltb N.compare Pos.compare Pos.compare_cont].
    destruct infos as [|a [|]]; cbn [length] in Hlen; try (cbn in Hlen; lia).
    intros H; apply some_inj in H; subst q.
    cbn [sp_ci sp_chf sp_s0 sp_s1 sp_s2 sp_infos sp_hops map length].
    rewrite ?E2, ?E1, ?E0.
    cbn [N.eqb Pos.eqb N.ltb N.compare Pos.compare Pos.compare_cont map].
    rewrite !flip_flip, rev_involutive.
    split; [repeat split; try lia; cbn; lia|].
    f_equal. f_equal; lia.
  - lia.
Qed.

(** the reversed path traverses the same hop fields in the opposite order, every segment in
    the opposite direction *)
Lemma reverse_spath_hops p q :
  reverse_spath p = Some q -> sp_hops q = rev (sp_hops p).
Proof.
  unfold reverse_spath. destruct (num_inf p =? 0); [discriminate|].
  destruct (if num_inf p =? 2 then _ else _) as [[s0 s1] s2].
  intros H; inversion H; subst; clear H. reflexivity.
Qed.

Lemma num_inf_le3 p : num_inf p <= 3.
Proof. unfold num_inf. destruct (0 <? sp_s2 p), (0 <? sp_s1 p), (0 <? sp_s0 p); lia. Qed.

Lemma reverse_spath_infos p q :
  reverse_spath p = Some q -> length (sp_infos p) = N.to_nat (num_inf p) ->
  sp_infos q = map flip_info (rev (sp_infos p)).
Proof.
  unfold reverse_spath. pose proof (num_inf_le3 p) as L3. destruct (num_inf p =? 0); [discriminate|].
  destruct (if num_inf p =? 2 then _ else _) as [[s0 s1] s2].
  intros H; apply some_inj in H; subst q. cbn [sp_infos]. intros L.
  destruct (1 <? num_inf p) eqn:E1.
  - destruct (sp_infos p) as [|a [|b [|c [|]]]]; cbn [length] in L; try lia; reflexivity.
  - destruct (sp_infos p) as [|a [|]]; cbn [length] in L; try lia; reflexivity.
Qed.

(** ------------------------------------------------------------------ audit follow-up:
    pointers and segment lengths of the reversed path; one-hop and EPIC reversal *)

Lemma reverse_spath_pointers p q :
  wf_spath p -> reverse_spath p = Some q ->
  sp_chf q = num_hops p - 1 - sp_chf p /\ sp_ci q = num_inf p - 1 - sp_ci p.
Proof.
  intros (H1 & H2 & H3 & H4 & H5 & H6) R. unfold reverse_spath in R.
  pose proof (num_inf_le3 p) as L3.
  destruct (num_inf p =? 0) eqn:E; [discriminate|].
  destruct (if num_inf p =? 2 then _ else _) as [[a b] c].
  apply some_inj in R. subst q. cbn [sp_chf sp_ci]. split.
  - replace (num_hops p + 63 - sp_chf p) with (num_hops p - 1 - sp_chf p + 1 * 64) by lia.
    rewrite N.mod_add by lia. apply N.mod_small. lia.
  - replace (num_inf p + 3 - sp_ci p) with (num_inf p - 1 - sp_ci p + 1 * 4) by lia.
    rewrite N.mod_add by lia. apply N.mod_small. lia.
Qed.

(** the segment lengths come in the opposite order (only the first [num_inf] are non-zero) *)
Lemma reverse_spath_seglens p q :
  wf_spath p -> reverse_spath p = Some q ->
  num_inf q = num_inf p /\ num_hops q = num_hops p /\
  firstn (N.to_nat (num_inf p)) [sp_s0 q; sp_s1 q; sp_s2 q] =
    rev (firstn (N.to_nat (num_inf p)) [sp_s0 p; sp_s1 p; sp_s2 p]).
Proof.
  destruct p as [ci chf s0 s1 s2 infos hops].
  unfold wf_spath, reverse_spath, num_inf, num_hops.
  cbn [sp_ci sp_chf sp_s0 sp_s1 sp_s2 sp_infos sp_hops].
  intros (Hci & Hchf & Hnh & Hlen & Hs0 & Hgap).
  destruct (0 <? s2) eqn:E2; [|destruct (0 <? s1) eqn:E1; [|destruct (0 <? s0) eqn:E0]].
  - assert (Hs1 : 0 < s1) by (destruct (N.eq_dec s1 0) as [Z|Z]; [specialize (Hgap Z); lia | lia]).
    intros R. apply some_inj in R. subst q. cbn [sp_s0 sp_s1 sp_s2].
    assert (E0 : (0 <? s0) = true) by lia. rewrite E0.
    split; [reflexivity|]. split; [lia|]. reflexivity.
  - assert (Z2 : s2 = 0) by lia. subst s2.
    intros R. apply some_inj in R. subst q. cbn [sp_s0 sp_s1 sp_s2].
    assert (E0 : (0 <? s0) = true) by lia. rewrite E0.
    split; [reflexivity|]. split; [lia|]. reflexivity.
  - assert (Z2 : s2 = 0) by lia. assert (Z1 : s1 = 0) by lia. subst s1 s2.
    intros R. apply some_inj in R. subst q. cbn [sp_s0 sp_s1 sp_s2].
    rewrite E0. split; [reflexivity|]. split; [lia|]. reflexivity.
  - lia.
Qed.

(** a one-hop path (second hop field filled in by the receiving router) is answered over the
    two-hop SCION path with the hop fields exchanged, against construction direction, at hop 0 *)
Lemma reverse_onehop i h1 h2 :
  reverse_path (POneHop i h1 h2) =
    if h_in h2 =? 0 then None else
    Some (PScion {| sp_ci := 0; sp_chf := 0; sp_s0 := 2; sp_s1 := 0; sp_s2 := 0;
                    sp_infos := [ {| i_peer := false; i_cons := false;
                                     i_segid := i_segid i; i_ts := i_ts i |} ];
                    sp_hops := [h2; h1] |}).
Proof.
  unfold reverse_path, onehop_to_scion. destruct (h_in h2 =? 0); reflexivity.
Qed.

(** an EPIC path is answered over the reversal of the SCION path it contains *)
Lemma reverse_epic s : reverse_path (PEpic s) = reverse_path (PScion s).
Proof. reflexivity. Qed.

Lemma reverse_path_type p q : reverse_path p = Some q -> q = PEmpty \/ exists s, q = PScion s.
Proof.
  destruct p as [|s|i h1 h2|s|ty]; cbn [reverse_path].
  - intros H; apply some_inj in H; now left.
  - destruct (reverse_spath s) as [r|]; [|discriminate]. intros H; apply some_inj in H. right. now exists r.
  - destruct (onehop_to_scion i h1 h2) as [s|]; [|discriminate].
    destruct (reverse_spath s) as [r|]; [|discriminate]. intros H; apply some_inj in H. right. now exists r.
  - destruct (reverse_spath s) as [r|]; [|discriminate]. intros H; apply some_inj in H. right. now exists r.
  - discriminate.
Qed.
