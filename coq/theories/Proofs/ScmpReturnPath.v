(** C10, part 1: the path of the SCMP packet.  The packet a router holds when it
    answers is the rendering of the provenance path at a hop [kc], in the state
    "between the routers of the AS" (ingress SegID update done).  Reversal, revert
    of the cross-over and the increment for an external link turn it into the
    rendering of the REVERSED provenance path at the position from which the next
    router — the one the offending packet came from — continues: the index
    arithmetic of prepareSCMP, and the SegIDs every router back needs (C22). *)
From Coq Require Import List NArith Bool Arith Lia ZifyBool ZifyN ZifyNat.
From Scion Require Import Lib.Check Lib.Bytes Model.Router Model.Network Model.Prov Model.RouterScmp
  Model.ScmpReturn.
From Scion Require Import Proofs.ProvStruct Proofs.ProvRender Proofs.ForwardView Proofs.ProvFacts
  Proofs.ReverseStruct Proofs.Reverse Proofs.ForwardStep.
Import ListNotations.
Import Router Network Prov.

Lemma u8_small' a : (a < 256)%N -> RouterScmp.u8 a = a.
Proof. intros H. unfold RouterScmp.u8. now apply N.mod_small. Qed.

Lemma ser_rhop h : ser_hop (rhop h) = rhop h.
Proof. reflexivity. Qed.

Section Path.
Variable mac : N -> N -> N -> N -> N -> N -> list N.
Variable t : topology.
Variable p : prov.
Hypothesis HG : good mac t p.

Notation n := (nhops p).
Notation js := (seg_idx (lens p)).
Notation nsegs := (length (pv_segs p)).
Notation p' := (rev_prov p).
Notation Hs := (Hshape mac t p HG).
Notation HT := (Htot p Hs).
Notation HP := (Hpos p Hs).
Notation Hs' := (shape_rev mac t p HG).

(** ** SegIDs: the reversed path "between the routers" at the mirrored hop carries,
    info field by info field, what the offending packet carries there *)
Lemma sid_rev_mid j k : (j < nsegs)%nat -> (k < n)%nat ->
  sid p' j (n - 1 - k) true = sid p (nsegs - 1 - j) k true.
Proof.
  intros Hj Hk.
  set (j2 := (nsegs - 1 - j)%nat).
  assert (Hj2 : (j2 < nsegs)%nat) by (unfold j2; lia).
  pose proof (seg_start_rev (lens p) j ltac:(rewrite lens_length; lia)) as R.
  rewrite lens_length, HT in R. replace (nsegs - j)%nat with (S j2) in R by (unfold j2; lia).
  rewrite (seg_start_next (lens p) j2) in R by (rewrite lens_length; lia). rewrite nth_lens in R.
  pose proof (len_pos p HP j2 Hj2) as L1.
  pose proof (seg_start_total (lens p) j2 ltac:(rewrite lens_length; lia)) as T.
  rewrite HT, nth_lens in T.
  unfold sid at 1. unfold clampi. rewrite (rev_lens p). rewrite orb_true_r.
  rewrite (rev_seg_nth p Hs j Hj). cbn [flip_seg sg_len]. fold j2.
  rewrite (rev_beta p Hs) by lia.
  unfold sid, clampi. rewrite orb_true_r. f_equal. lia.
Qed.

Lemma rinfo_rev_mid j k : (j < nsegs)%nat -> (k < n)%nat ->
  rinfo p' (n - 1 - k) true j = RouterScmp.flip_info (rinfo p k true (nsegs - 1 - j)).
Proof.
  intros Hj Hk. unfold rinfo, RouterScmp.flip_info. cbv zeta. cbn [i_peer i_consdir i_segid i_ts i_rsv].
  rewrite (rev_seg_nth p Hs j Hj). cbn [flip_seg sg_peer sg_consdir sg_ts]. now rewrite sid_rev_mid.
Qed.

Lemma js_rev k : (k < n)%nat -> seg_idx (lens p') (n - 1 - k) = (nsegs - 1 - js k)%nat.
Proof.
  intros Hk. destruct (rev_pos p Hs (n - 1 - k) ltac:(lia)) as [A _].
  rewrite A. replace (n - 1 - (n - 1 - k))%nat with k by lia. reflexivity.
Qed.

(** ** [Raw.ToDecoded] + [Decoded.Reverse] *)
Lemma reverse_render_mid pp k : (k < n)%nat ->
  RouterScmp.reverse (render p pp k true) = Some (render p' pp (n - 1 - k) true).
Proof.
  intros Hk.
  destruct (shape_parts p Hs) as ([A B] & _ & L64 & _).
  pose proof (js_lt p Hs k Hk) as Jk.
  assert (Hops : rev (map ser_hop (map rhop (pv_hops p))) = map rhop (pv_hops p')).
  { unfold rev_prov. cbn [pv_hops]. rewrite map_map. rewrite <- map_rev. apply map_ext. intros h. apply ser_rhop. }
  assert (Inf : rev (map RouterScmp.flip_info (rinfos p k true)) = rinfos p' (n - 1 - k) true).
  { unfold rinfos. rewrite (rev_nsegs p). rewrite map_map.
    apply list_ext.
    - now rewrite rev_length, !map_length, !seq_length.
    - intros i Hi. rewrite rev_length, map_length, seq_length in Hi.
      rewrite nth_error_map_seq by assumption.
      rewrite (nth_error_nth' _ (rinfo p' 0 true 0)) by (now rewrite rev_length, map_length, seq_length).
      rewrite rev_nth by (now rewrite map_length, seq_length). rewrite map_length, seq_length.
      rewrite (nth_indep _ _ (RouterScmp.flip_info (rinfo p k true 0))) by (rewrite map_length, seq_length; lia).
      rewrite (map_nth (fun x => RouterScmp.flip_info (rinfo p k true x))).
      rewrite seq_nth by lia. cbn [Nat.add].
      rewrite rinfo_rev_mid by assumption.
      replace (nsegs - S i)%nat with (nsegs - 1 - i)%nat by lia. reflexivity. }
  unfold RouterScmp.reverse.
  rewrite (num_inf_render p pp Hs), (num_hops_render p pp Hs).
  replace (N.of_nat nsegs =? 0)%N with false by lia.
  cbv zeta.
  change (p_infos (render p pp k true)) with (rinfos p k true).
  change (p_hops (render p pp k true)) with (map rhop (pv_hops p)).
  rewrite Hops, Inf.
  change (p_curr_inf (render p pp k true)) with (N.of_nat (js k)).
  change (p_curr_hf (render p pp k true)) with (N.of_nat k).
  assert (CI : RouterScmp.u8 (N.of_nat nsegs + 256 - N.of_nat (js k) - 1) = N.of_nat (nsegs - 1 - js k)).
  { unfold RouterScmp.u8.
    replace (N.of_nat nsegs + 256 - N.of_nat (js k) - 1)%N with (N.of_nat (nsegs - 1 - js k) + 1 * 256)%N by lia.
    rewrite N.mod_add by lia. apply N.mod_small. lia. }
  assert (CH : RouterScmp.u8 (N.of_nat n + 256 - N.of_nat k - 1) = N.of_nat (n - 1 - k)).
  { unfold RouterScmp.u8.
    replace (N.of_nat n + 256 - N.of_nat k - 1)%N with (N.of_nat (n - 1 - k) + 1 * 256)%N by lia.
    rewrite N.mod_add by lia. apply N.mod_small. lia. }
  rewrite CI, CH. f_equal. unfold render. rewrite (js_rev k Hk).
  cbn [p_dst_ia p_src_ia p_dst_type p_src_type p_dst_raw p_src_raw p_pay_len p_pay_actual p_l4_port
       p_seg0 p_seg1 p_seg2].
  unfold len_at. rewrite (rev_lens p).
  destruct (segs_cases p Hs) as [[a E]|[[a [b E]]|[a [b [c E]]]]];
    unfold lens; rewrite E; cbn [length map rev app nth N.of_nat N.eqb Pos.eqb]; reflexivity.
Qed.

(** ** the peering flag prepareSCMP computes for the reversed path *)
Lemma det_peer_rev pp k : (k < n)%nat ->
  RouterScmp.det_peer (render p' pp (n - 1 - k) true)
                      (rinfo p' (n - 1 - k) true (seg_idx (lens p') (n - 1 - k))) = Some (peerhop p k).
Proof.
  intros Hk. assert (Hk' : (n - 1 - k < nhops p')%nat) by (rewrite (rev_nhops p); lia).
  assert (PE : peerhop p' (n - 1 - k) = peerhop p k).
  { rewrite (rev_peerhop p Hs) by lia. f_equal. lia. }
  rewrite <- PE.
  unfold RouterScmp.det_peer. unfold rinfo at 1. cbn [i_peer]. rewrite <- hdr_nth.
  change (p_seg0 (render p' pp (n - 1 - k) true)) with (len_at p' 0).
  change (p_seg1 (render p' pp (n - 1 - k) true)) with (len_at p' 1).
  change (p_seg2 (render p' pp (n - 1 - k) true)) with (len_at p' 2).
  change (p_curr_hf (render p' pp (n - 1 - k) true)) with (N.of_nat (n - 1 - k)).
  destruct (sg_peer (hdr p' (n - 1 - k))) eqn:P; cbn [negb].
  - destruct (peering_formula p' Hs' (n - 1 - k) Hk' P) as (F & Z0 & Z1 & Z2).
    rewrite Z0, Z1, Z2. cbn [negb]. now rewrite F.
  - unfold peerhop. rewrite P. reflexivity.
Qed.


End Path.

(** ** the increment for an external link is what an egress router does *)
Section ExtInc.
Variable mac : N -> N -> N -> N -> N -> N -> list N.
Variable t : topology.
Variable q : prov.
Hypothesis HG : good mac t q.
Variable pp : pparams.

Notation n := (nhops q).
Notation js := (seg_idx (lens q)).
Notation nsegs := (length (pv_segs q)).
Notation Hs := (Hshape mac t q HG).

Lemma ext_inc_render j : (S j < n)%nat -> crosses q j = true ->
  RouterScmp.ext_inc true (render q pp j true) (peerhop q j) = RouterScmp.EOk (render q pp (S j) false).
Proof.
  intros Hj C. assert (Hj' : (j < n)%nat) by lia.
  pose proof (js_lt q Hs j Hj') as J.
  pose proof (view_render q pp n nsegs j true) as V0.
  unfold RouterScmp.ext_inc. cbn [negb].
  change (p_curr_inf (render q pp j true)) with (N.of_nat (js j)).
  change (p_curr_hf (render q pp j true)) with (N.of_nat j).
  rewrite (info_render q pp j true (js j) J), (hop_render q pp j true j Hj').
  rewrite (rinfo_consdir q j j true). fold (upd_out q j).
  pose proof (depart_beta _ _ _ HG j Hj C) as DB.
  destruct (upd_out q j) eqn:U.
  - set (q1 := with_infos (render q pp j true) _).
    assert (V1 : view q pp n nsegs q1 j (S j) false).
    { unfold q1.
      replace (upd_segid (rinfo q j true (js j)) (rhop (hop q j)))
        with (ser_info (upd_segid (rinfo q j true (js j)) (rhop (hop q j)))) by reflexivity.
      change (N.of_nat (js j)) with (p_curr_inf (render q pp j true)).
      apply (view_store q pp Hs n nsegs (render q pp j true) j j true (S j) false); try assumption.
      - unfold ser_info, upd_segid. unfold rinfo. cbn [i_peer i_consdir i_segid i_ts i_rsv rhop h_mac].
        fold (sigma q j). rewrite (sid_cur_mid q Hs j Hj'). now rewrite DB.
      - intros j0 _ Hjs Hne. apply rinfo_eq. now apply (sid_depart_other _ _ _ HG). }
    unfold RouterScmp.inc_path_dec.
    rewrite (num_inf_meta _ _ (view_meta q pp _ _ _ _ _ _ false V1)), (num_inf_render q pp Hs).
    rewrite (num_hops_meta _ _ (view_meta q pp _ _ _ _ _ _ false V1)), (num_hops_render q pp Hs).
    rewrite (v_ch _ _ _ _ _ _ _ _ V1).
    replace (N.of_nat nsegs =? 0)%N with false by lia.
    replace (N.of_nat n - 1 <=? N.of_nat j)%N with false by lia.
    f_equal. apply (view_full q pp Hs). now apply (view_inc q pp Hs).
  - assert (V1 : view q pp n nsegs (render q pp j true) j (S j) false).
    { apply (view_reinfo q pp n nsegs _ j j true (S j) false V0). intros j0 _ Hjs. apply rinfo_eq.
      destruct (Nat.eq_dec j0 (js j)) as [->|Ne].
      - now rewrite (sid_cur_mid q Hs j Hj').
      - now apply (sid_depart_other _ _ _ HG). }
    unfold RouterScmp.inc_path_dec.
    rewrite (num_inf_render q pp Hs), (num_hops_render q pp Hs).
    change (p_curr_hf (render q pp j true)) with (N.of_nat j).
    replace (N.of_nat nsegs =? 0)%N with false by lia.
    replace (N.of_nat n - 1 <=? N.of_nat j)%N with false by lia.
    f_equal. apply (view_full q pp Hs). now apply (view_inc q pp Hs).
Qed.

(** reverting a cross-over: pointers move to the first hop of the next slice, SegIDs stay *)
Lemma revert_render j : (S j < n)%nat -> is_last q j = true ->
  RouterScmp.inc_path_dec (render q pp j true) = Some (render q pp (S j) true).
Proof.
  intros Hj L. assert (Hj' : (j < n)%nat) by lia.
  pose proof (view_render q pp n nsegs j true) as V0.
  unfold RouterScmp.inc_path_dec.
  rewrite (num_inf_render q pp Hs), (num_hops_render q pp Hs).
  change (p_curr_hf (render q pp j true)) with (N.of_nat j).
  pose proof (js_lt q Hs j Hj') as J.
  replace (N.of_nat nsegs =? 0)%N with false by lia.
  replace (N.of_nat n - 1 <=? N.of_nat j)%N with false by lia.
  f_equal. apply (view_full q pp Hs).
  apply (view_reinfo q pp n nsegs _ (S j) j true (S j) true).
  - now apply (view_inc q pp Hs).
  - intros j0 _ Hjs. apply rinfo_eq. now apply (sid_xover _ _ _ HG).
Qed.

Lemma is_xover8_render j mid : (j < n)%nat ->
  RouterScmp.is_xover8 (render q pp j mid) = negb (Nat.eqb (S j) n) && is_last q j.
Proof.
  intros Hj. destruct (shape_parts q Hs) as (_ & _ & L64 & _).
  rewrite <- (is_xover_render q pp Hs j mid Hj).
  unfold RouterScmp.is_xover8, is_xover.
  change (p_curr_hf (render q pp j mid)) with (N.of_nat j).
  rewrite u8_small' by lia. reflexivity.
Qed.

End ExtInc.

(** * The path of the reply *)
Section Reply.
Variable mac : N -> N -> N -> N -> N -> N -> list N.
Variable t : topology.
Variable p : prov.
Hypothesis HG : good mac t p.
Variable pp : pparams.

Notation n := (nhops p).
Notation js := (seg_idx (lens p)).
Notation nsegs := (length (pv_segs p)).
Notation p' := (rev_prov p).
Notation Hs := (Hshape mac t p HG).
Notation HT := (Htot p Hs).
Notation HP := (Hpos p Hs).
Notation HG' := (good_rev mac t p HG).
Notation ret_hop := (ScmpReturn.ret_hop p).

Lemma ret_hop_entry k : ret_hop k = ForwardStep.entry p k.
Proof. reflexivity. Qed.

Lemma ret_hop_le k : (ret_hop k <= k)%nat /\ (k <= S (ret_hop k))%nat.
Proof. unfold ScmpReturn.ret_hop. destruct (is_first p k && negb (peerhop p k)); lia. Qed.

(** reversal and revert of the cross-over: the reply is "between the routers" of the AS
    through which the offending packet entered, at the hop of its ingress interface *)
Lemma revert_rev k : (k < n)%nat ->
  RouterScmp.revert_xover (render p' pp (n - 1 - k) true) (peerhop p k) =
  Some (render p' pp (n - 1 - ret_hop k) true).
Proof.
  intros Hk. assert (Hk' : (n - 1 - k < nhops p')%nat) by (rewrite (rev_nhops p); lia).
  unfold RouterScmp.revert_xover.
  rewrite (is_xover8_render mac t p' HG' pp (n - 1 - k) true Hk').
  rewrite (rev_nhops p).
  rewrite (rev_is_last p Hs (n - 1 - k)) by lia.
  replace (n - 1 - (n - 1 - k))%nat with k by lia.
  unfold ScmpReturn.ret_hop.
  destruct k as [|k].
  - replace (Nat.eqb (S (n - 1 - 0)) n) with true by (symmetry; apply Nat.eqb_eq; lia).
    cbn [negb andb]. destruct (is_first p 0 && negb (peerhop p 0)); reflexivity.
  - replace (Nat.eqb (S (n - 1 - S k)) n) with false by (symmetry; apply Nat.eqb_neq; lia).
    cbn [negb andb].
    destruct (is_first p (S k) && negb (peerhop p (S k))) eqn:X; [|reflexivity].
    apply andb_true_iff in X as [F _].
    rewrite (revert_render mac t p' HG' pp (n - 1 - S k)).
    + do 2 f_equal. lia.
    + rewrite (rev_nhops p). lia.
    + rewrite (rev_is_last p Hs (n - 1 - S k)) by lia.
      replace (n - 1 - (n - 1 - S k))%nat with (S k) by lia. exact F.
Qed.

(** after a reverted cross-over neither hop is a peering hop *)
Lemma ret_hop_peer k : (k < n)%nat -> peerhop p (ret_hop k) = peerhop p k.
Proof.
  intros Hk. unfold ScmpReturn.ret_hop.
  destruct (is_first p k && negb (peerhop p k)) eqn:X; [|reflexivity].
  apply andb_true_iff in X as [F Ph]. apply negb_true_iff in Ph. rewrite Ph.
  destruct k as [|k]; [exact Ph|]. replace (S k - 1)%nat with k by lia.
  destruct (sg_peer (hdr p (S k))) eqn:P.
  - (* a peering path: the first hop of a slice reached from the previous one is a peering hop *)
    exfalso.
    assert (C : crosses p k = true).
    { unfold crosses. rewrite (peer_same p Hs k (S k)) by lia. rewrite P. apply orb_true_r. }
    destruct (arrive_first _ _ _ HG k Hk C F) as (_ & _ & _ & _ & _ & Ph' & _). congruence.
  - apply (nopeer_hop _ _ _ HG (S k) k); [assumption|lia|assumption].
Qed.

Theorem reply_path_render (how : ScmpReturn.arrival) k :
  (k < n)%nat ->
  (how = ScmpReturn.AExt -> (1 <= ret_hop k)%nat /\ crosses p (ret_hop k - 1) = true) ->
  ScmpReturn.reply_path (match how with ScmpReturn.AExt => true | _ => false end) (render p pp k true) =
  Some (render p' pp (fst (ScmpReturn.ret_pos p how k)) (snd (ScmpReturn.ret_pos p how k))).
Proof.
  intros Hk Hx.
  unfold ScmpReturn.reply_path.
  rewrite (reverse_render_mid mac t p HG pp k Hk).
  change (p_curr_inf (render p' pp (n - 1 - k) true)) with (N.of_nat (seg_idx (lens p') (n - 1 - k))).
  assert (Hk' : (n - 1 - k < nhops p')%nat) by (rewrite (rev_nhops p); lia).
  rewrite (info_render p' pp (n - 1 - k) true _ (js_lt p' (shape_rev mac t p HG) _ Hk')).
  rewrite (det_peer_rev mac t p HG pp k Hk).
  rewrite (revert_rev k Hk).
  destruct (ret_hop_le k) as [R1 R2].
  destruct how; cbn [ScmpReturn.ret_pos fst snd].
  - reflexivity.
  - destruct (Hx eq_refl) as [K1 C].
    rewrite <- (ret_hop_peer k Hk).
    assert (PE : peerhop p (ret_hop k) = peerhop p' (n - 1 - ret_hop k)).
    { rewrite (rev_peerhop p Hs) by lia. f_equal. lia. }
    rewrite PE.
    rewrite (ext_inc_render mac t p' HG' pp (n - 1 - ret_hop k)).
    + do 2 f_equal. lia.
    + rewrite (rev_nhops p). lia.
    + rewrite (rev_crosses p Hs) by lia. rewrite <- C. f_equal. lia.
  - reflexivity.
Qed.

End Reply.
