(** Lemmas about Model/PKI.v: signatures, TRC updates, SignedTRC.Verify (C32). *)
From Coq Require Import List ZArith Bool Lia ZifyBool.
From Scion Require Import Lib.Check Model.PKI Proofs.PKI.
Import ListNotations.
Import PKI.
Local Open Scope Z_scope.

(** * Lists *)

Lemma NoDup_map_inj_in {A B} (f : A -> B) l x y :
  NoDup (map f l) -> In x l -> In y l -> f x = f y -> x = y.
Proof.
  induction l as [|a r IH]; cbn; intros N Hx Hy E; [contradiction|].
  inversion N as [|? ? Hn Hr]; subst.
  destruct Hx as [->|Hx], Hy as [->|Hy]; try reflexivity.
  - elim Hn. rewrite E. now apply in_map.
  - elim Hn. rewrite <- E. now apply in_map.
  - now apply IH.
Qed.

Lemma NoDup_map_filter {A B} (f : A -> B) g l : NoDup (map f l) -> NoDup (map f (filter g l)).
Proof.
  induction l as [|a r IH]; cbn; intros N; [constructor|].
  inversion N as [|? ? Hn Hr]; subst. destruct (g a); cbn; [|now apply IH].
  constructor; [|now apply IH]. intros Hin. apply Hn.
  apply in_map_iff in Hin as [x [E Hx]]. apply filter_In in Hx as [Hx _].
  apply in_map_iff. eauto.
Qed.

Lemma indexed_fst {A} (l : list A) i p : In p (indexed i l) -> i <= fst p.
Proof.
  revert i. induction l as [|a r IH]; cbn; intros i H; [contradiction|].
  destruct H as [<-|H]; cbn; [lia|]. apply IH in H. lia.
Qed.

Lemma indexed_NoDup {A} (l : list A) i : NoDup (map fst (indexed i l)).
Proof.
  revert i. induction l as [|a r IH]; cbn; intros i; constructor; [|apply IH].
  intros Hin. apply in_map_iff in Hin as [p [E Hp]]. apply indexed_fst in Hp. lia.
Qed.

Lemma of_class_NoDup ty cs : NoDup (map fst (of_class ty cs)).
Proof. unfold of_class. apply NoDup_map_filter, indexed_NoDup. Qed.

Lemma of_class_in ty cs p :
  In p (of_class ty cs) <-> In p (indexed 0 cs) /\ validate_cert (snd p) = Some ty.
Proof. unfold of_class. rewrite filter_In, has_class_iff. tauto. Qed.

Lemma NoDup_fst_eq {A} (l : list (Z * A)) i a b :
  NoDup (map fst l) -> In (i, a) l -> In (i, b) l -> a = b.
Proof.
  intros N Ha Hb.
  assert (E : (i, a) = (i, b)) by (eapply (NoDup_map_inj_in fst); eauto).
  now inversion E.
Qed.

Lemma lookup_in m v c : lookup m v = Some c -> In (v, c) m.
Proof.
  induction m as [|[i a] r IH]; cbn; [discriminate|].
  destruct (i =? v) eqn:E.
  - intros H; inversion H; subst. left. f_equal. lia.
  - intros H. right. now apply IH.
Qed.

Lemma in_lookup m v c : NoDup (map fst m) -> In (v, c) m -> lookup m v = Some c.
Proof.
  induction m as [|[i a] r IH]; cbn; intros N H; [contradiction|].
  inversion N as [|? ? Hn Hr]; subst.
  destruct H as [H|H].
  - inversion H; subst. now rewrite Z.eqb_refl.
  - destruct (i =? v) eqn:E; [|now apply IH].
    apply Z.eqb_eq in E. subst. elim Hn. apply in_map_iff. exists (v, c). auto.
Qed.

(** an index belongs to one class only *)
Lemma class_disjoint a b cs v c c' :
  lookup (of_class a cs) v = Some c -> lookup (of_class b cs) v = Some c' -> a = b /\ c = c'.
Proof.
  intros Ha Hb. apply lookup_in, of_class_in in Ha as [Ia Va].
  apply lookup_in, of_class_in in Hb as [Ib Vb]. cbn [snd] in *.
  assert (E : c = c') by (eapply NoDup_fst_eq; [apply (indexed_NoDup cs 0)| |]; eauto).
  subst. rewrite Va in Vb. now inversion Vb.
Qed.

Lemma mem_idx_iff m v : mem_idx m v = true <-> exists c, lookup m v = Some c.
Proof.
  unfold mem_idx. destruct (lookup m v) as [c|]; split; intros H; try reflexivity.
  - eauto.
  - discriminate.
  - destruct H as [c H]. discriminate.
Qed.

Lemma voters_of_iff m votes l :
  voters_of m votes = Some l <-> forallb (mem_idx m) votes = true /\ l = pick m votes.
Proof.
  revert l. induction votes as [|v r IH]; cbn; intros l.
  - split; [intros H; inversion H; auto | intros [_ ->]; reflexivity].
  - unfold mem_idx at 1. destruct (lookup m v) as [c|] eqn:E.
    + destruct (voters_of m r) as [l'|] eqn:Er.
      * destruct (proj1 (IH l') eq_refl) as [F El]. rewrite F. cbn. subst l'. split.
        -- intros H; inversion H; auto.
        -- intros [_ ->]. reflexivity.
      * cbn. split; [discriminate|]. intros [F _].
        pose proof (proj2 (IH (pick m r)) (conj F eq_refl)) as X. discriminate.
    + cbn. split; [discriminate|]. intros [F _]. discriminate.
Qed.

Lemma pick_in m votes p :
  In p (pick m votes) <-> In (fst p) votes /\ lookup m (fst p) = Some (snd p).
Proof.
  unfold pick. rewrite in_flat_map. split.
  - intros [v [Hv Hp]]. destruct (lookup m v) as [c|] eqn:E; [|contradiction].
    destruct Hp as [<-|[]]. cbn. auto.
  - intros [Hv E]. exists (fst p). split; [assumption|]. rewrite E. left. now destruct p.
Qed.

Lemma pick_fst m votes : forallb (mem_idx m) votes = true -> map fst (pick m votes) = votes.
Proof.
  unfold pick. induction votes as [|v r IH]; cbn [flat_map forallb map]; [reflexivity|]. intros H.
  apply andb_true_iff in H as [H1 H2]. unfold mem_idx in H1.
  destruct (lookup m v); [|discriminate]. cbn. now rewrite IH.
Qed.

(** * [verifyAll] *)

Definition supported (si : sinfo) : bool := (si_kind si =? 1) || (si_kind si =? 3).

Lemma find_cert_some si L p :
  find_cert si L = FCSome p -> In p L /\ claims si (snd p) = true /\ supported si = true.
Proof.
  unfold find_cert, supported. destruct ((si_kind si =? 1) || (si_kind si =? 3)); [|discriminate].
  destruct (find (fun p => claims si (snd p)) L) as [q|] eqn:E; [|discriminate].
  intros H; inversion H; subst. apply find_some in E. tauto.
Qed.

Lemma find_cert_err si L : find_cert si L = FCErr <-> supported si = false.
Proof.
  unfold find_cert, supported. destruct ((si_kind si =? 1) || (si_kind si =? 3)).
  - destruct (find _ L); split; discriminate.
  - tauto.
Qed.

Definition si_valid (si : sinfo) (c : acert) : bool := si_digest_ok si && sig_valid si c.

(** every signer info is of a supported kind, every signer info naming one of the
    certificates is valid for it, the certificates are distinct and each is named *)
Definition fully_signed (sis : list sinfo) (L : list (Z * acert)) : Prop :=
  (forall si, In si sis -> supported si = true) /\
  (forall si p, In si sis -> find_cert si L = FCSome p -> si_valid si (snd p) = true) /\
  NoDup (map fst L) /\
  (forall p, In p L -> exists si c, In si sis /\ find_cert si L = FCSome (fst p, c)).

Lemma add_seen_in i j seen : In j (add_seen i seen) <-> j = i \/ In j seen.
Proof.
  unfold add_seen. destruct (existsb (Z.eqb i) seen) eqn:E.
  - apply (existsb_eqb_in Z.eqb zeqb_iff) in E. split; [auto|]. intros [->|H]; assumption.
  - cbn. split; intros [H|H]; auto.
Qed.

Lemma add_seen_NoDup i seen : NoDup seen -> NoDup (add_seen i seen).
Proof.
  unfold add_seen. destruct (existsb (Z.eqb i) seen) eqn:E; [auto|].
  intros N. constructor; [|assumption]. intros Hin.
  apply (existsb_eqb_in Z.eqb zeqb_iff) in Hin. congruence.
Qed.

Lemma verify_sis_inr sis L : forall seen seen',
  verify_sis sis L seen = inr seen' ->
  (forall si, In si sis -> supported si = true) /\
  (forall si p, In si sis -> find_cert si L = FCSome p -> si_valid si (snd p) = true) /\
  (forall i, In i seen' <->
             In i seen \/ exists si c, In si sis /\ find_cert si L = FCSome (i, c)) /\
  (NoDup seen -> NoDup seen').
Proof.
  induction sis as [|si r IH]; cbn [verify_sis]; intros seen seen' H.
  - inversion H; subst. split; [intros ? []|]. split; [intros ? ? []|]. split; [|auto].
    intros i. split; [auto|]. intros [Hi|[si [c [[] _]]]]. assumption.
  - destruct (find_cert si L) as [| |[i c]] eqn:F; [discriminate| |].
    + destruct (IH _ _ H) as [S [V [I N]]]. repeat split.
      * intros x [E|Hx]; [subst x|auto]. destruct (supported si) eqn:E; [reflexivity|].
        apply (proj2 (find_cert_err si L)) in E. congruence.
      * intros x p [E|Hx] Fx; [subst x; congruence|eauto].
      * intros Hi. apply I in Hi as [Hi|[x [c [Hx Fx]]]]; [auto|]. right. exists x, c. cbn. auto.
      * intros [Hi|[x [c [[E|Hx] Fx]]]]; apply I; [auto|subst x; congruence|]. right. eauto.
      * assumption.
    + destruct (negb (si_digest_ok si)) eqn:D; [discriminate|].
      destruct (negb (sig_valid si c)) eqn:G; [discriminate|].
      destruct (IH _ _ H) as [S [V [I N]]]. repeat split.
      * intros x [E|Hx]; [subst x|auto]. apply find_cert_some in F. tauto.
      * intros x p [E|Hx] Fx; [subst x|eauto]. rewrite F in Fx. inversion Fx; subst. cbn.
        unfold si_valid. destruct (si_digest_ok si), (sig_valid si c); cbn in *; congruence.
      * intros Hi. apply I in Hi as [Hi|[x [c' [Hx Fx]]]].
        -- apply add_seen_in in Hi as [->|Hi]; [|auto]. right. exists si, c. cbn. auto.
        -- right. exists x, c'. cbn. auto.
      * intros [Hi|[x [c' [[E|Hx] Fx]]]]; apply I.
        -- left. apply add_seen_in. auto.
        -- subst x. rewrite F in Fx. inversion Fx; subst. left. apply add_seen_in. auto.
        -- right. eauto.
      * intros Nd. apply N. now apply add_seen_NoDup.
Qed.

Lemma verify_sis_complete sis L : forall seen,
  (forall si, In si sis -> supported si = true) ->
  (forall si p, In si sis -> find_cert si L = FCSome p -> si_valid si (snd p) = true) ->
  exists seen', verify_sis sis L seen = inr seen'.
Proof.
  induction sis as [|si r IH]; cbn [verify_sis]; intros seen S V; [eauto|].
  destruct (find_cert si L) as [| |[i c]] eqn:F.
  - apply find_cert_err in F. rewrite S in F; [discriminate|now left].
  - apply IH; intros; [apply S|eapply V]; cbn; eauto.
  - specialize (V si (i, c) (or_introl eq_refl) F) as Hv. unfold si_valid in Hv. cbn in Hv.
    apply andb_true_iff in Hv as [D G]. rewrite D, G. cbn.
    apply IH; intros; [apply S|eapply V]; cbn; eauto.
Qed.

Theorem verify_all_iff sis L : verify_all sis L = None <-> fully_signed sis L.
Proof.
  unfold verify_all, fully_signed, len. split.
  - destruct (verify_sis sis L []) as [e|seen] eqn:E; [discriminate|].
    destruct (Z.of_nat (length seen) =? Z.of_nat (length L)) eqn:El; [|discriminate]. intros _.
    destruct (verify_sis_inr _ _ _ _ E) as [S [V [I N]]].
    assert (Nd : NoDup seen) by (apply N; constructor).
    assert (Inc : incl seen (map fst L)).
    { intros i Hi. apply I in Hi as [[]|[si [c [Hs F]]]].
      apply find_cert_some in F as [F _]. apply in_map_iff. exists (i, c). auto. }
    assert (Len : (length (map fst L) <= length seen)%nat) by (rewrite map_length; lia).
    repeat split; try assumption.
    + eapply NoDup_incl_NoDup; eauto.
    + intros p Hp. assert (Hi : In (fst p) seen).
      { apply (NoDup_length_incl Nd Len Inc). now apply in_map. }
      apply I in Hi as [[]|H]. exact H.
  - intros [S [V [Nd C]]].
    destruct (verify_sis_complete sis L [] S V) as [seen E]. rewrite E.
    destruct (verify_sis_inr _ _ _ _ E) as [_ [_ [I N]]].
    assert (Ns : NoDup seen) by (apply N; constructor).
    assert (Inc : incl seen (map fst L)).
    { intros i Hi. apply I in Hi as [[]|[si [c [Hs F]]]].
      apply find_cert_some in F as [F _]. apply in_map_iff. exists (i, c). auto. }
    assert (Inc' : incl (map fst L) seen).
    { intros i Hi. apply in_map_iff in Hi as [p [<- Hp]]. apply I. right. now apply C. }
    pose proof (NoDup_incl_length Ns Inc) as L1. pose proof (NoDup_incl_length Nd Inc') as L2.
    rewrite map_length in *.
    replace (Z.of_nat (length seen) =? Z.of_nat (length L)) with true by lia. reflexivity.
Qed.

(** what [fully_signed] gives in the terms of the property: distinct certificates, each with a
    signer info naming it, with the payload's digest, produced by the certificate's key *)
Lemma fully_signed_all_signed sis L : fully_signed sis L -> all_signed sis L = true.
Proof.
  intros [S [V [Nd C]]]. unfold all_signed. apply andb_true_iff. split.
  - now apply (nodupb_NoDup Z.eqb zeqb_iff).
  - apply forallb_forall. intros [i c] Hp. destruct (C _ Hp) as [si [c' [Hs F]]]. cbn [fst] in F.
    pose proof (find_cert_some _ _ _ F) as [Hin [Hc _]]. cbn [snd] in Hc.
    assert (c' = c) by (eapply NoDup_fst_eq; eauto). subst c'.
    unfold signed_by. apply existsb_exists. exists si. split; [assumption|].
    specialize (V si _ Hs F). unfold si_valid in V. cbn [snd] in *.
    apply andb_true_iff in V as [D G]. specialize (S si Hs). unfold supported in S.
    rewrite S, Hc, D, G. reflexivity.
Qed.

Lemma fully_signed_nil sis : fully_signed sis [] <-> forall si, In si sis -> supported si = true.
Proof.
  unfold fully_signed. split; [tauto|]. intros S. repeat split; try assumption.
  - intros si p Hs F. apply find_cert_some in F as [[] _].
  - constructor.
  - intros p [].
Qed.

(** * [certMap.find] *)

Lemma find_subject_some m c q :
  find_subject m c = Some q -> In q m /\ c_subject (snd q) = c_subject c.
Proof.
  induction m as [|[i a] r IH]; cbn; [discriminate|].
  destruct (name_eqb (c_subject a) (c_subject c)) eqn:E.
  - intros H; inversion H; subst. apply name_eqb_eq in E. cbn. auto.
  - intros H. apply IH in H as [H1 H2]. auto.
Qed.

Lemma find_subject_none m c :
  find_subject m c = None -> forall q, In q m -> c_subject (snd q) <> c_subject c.
Proof.
  induction m as [|[i a] r IH]; cbn; [intros _ q []|].
  destruct (name_eqb (c_subject a) (c_subject c)) eqn:E; [discriminate|].
  intros H q [<-|Hq]; cbn.
  - intros Heq. rewrite Heq, name_eqb_refl in E. discriminate.
  - now apply IH.
Qed.

Lemma find_subject_unique m c q :
  NoDup (subjects m) -> In q m -> c_subject (snd q) = c_subject c -> find_subject m c = Some q.
Proof.
  intros N Hq E. destruct (find_subject m c) as [q'|] eqn:F.
  - apply find_subject_some in F as [Hq' E']. f_equal.
    eapply (NoDup_map_inj_in (fun p => c_subject (snd p))); eauto. congruence.
  - exfalso. eapply find_subject_none; eauto.
Qed.

Lemma all_found_iff m l :
  all_found m l = true <-> forall q, In q l -> exists q', find_subject m (snd q) = Some q'.
Proof.
  unfold all_found. rewrite forallb_forall. split; intros H q Hq; specialize (H q Hq).
  - destruct (find_subject m (snd q)); [eauto|discriminate].
  - destruct H as [q' ->]. reflexivity.
Qed.

(** two duplicate-free families of subjects of the same size, one contained in the other *)
Lemma subjects_onto (A B : list (Z * acert)) :
  NoDup (subjects A) -> len A = len B ->
  (forall a, In a A -> exists b, In b B /\ c_subject (snd b) = c_subject (snd a)) ->
  forall b, In b B -> exists a, In a A /\ c_subject (snd a) = c_subject (snd b).
Proof.
  intros NA L H b Hb.
  assert (Inc : incl (subjects A) (subjects B)).
  { intros s Hs. apply in_map_iff in Hs as [a [<- Ha]]. destruct (H a Ha) as [b' [Hb' E]].
    rewrite <- E. apply in_map_iff. eauto. }
  assert (Len : (length (subjects B) <= length (subjects A))%nat).
  { unfold subjects. rewrite !map_length. unfold len in L. lia. }
  pose proof (NoDup_length_incl NA Len Inc) as Inc'.
  assert (Hs : In (c_subject (snd b)) (subjects A)).
  { apply Inc'. apply in_map_iff. eauto. }
  apply in_map_iff in Hs as [a [E Ha]]. eauto.
Qed.

(** * [validateRegular] *)

Record regular_rules (p t : trc) : Prop := mk_rr {
  rr_quorum : t_quorum p = t_quorum t;
  rr_core : t_core p = t_core t;
  rr_auth : t_auth p = t_auth t;
  rr_sens_count : len (sens_of p) = len (sens_of t);
  rr_sens : forall q, In q (sens_of t) -> unchanged_in (sens_of p) (snd q) = true;
  rr_root_count : len (root_of p) = len (root_of t);
  rr_root : forall q, In q (root_of t) -> exists q', find_subject (root_of p) (snd q) = Some q';
  rr_reg_count : len (reg_of p) = len (reg_of t);
  rr_reg : forall q, In q (reg_of t) -> exists q', find_subject (reg_of p) (snd q) = Some q';
  rr_votes : forallb (mem_idx (reg_of p)) (t_votes t) = true;
  rr_changed_voted : forall i, In i (changed_regular p t) -> In i (t_votes t)
}.

Lemma validate_regular_iff p t v a :
  validate_regular p t = inr (v, a) <->
  regular_rules p t /\ v = pick (reg_of p) (t_votes t) /\ a = root_acks p t.
Proof.
  unfold validate_regular. split.
  - destruct (negb (t_quorum p =? t_quorum t)) eqn:E1; [discriminate|].
    destruct (negb (zlist_eqb (t_core p) (t_core t))) eqn:E2; [discriminate|].
    destruct (negb (zlist_eqb (t_auth p) (t_auth t))) eqn:E3; [discriminate|].
    destruct (negb (len (sens_of p) =? len (sens_of t))) eqn:E4; [discriminate|].
    destruct (negb (forallb (fun q => unchanged_in (sens_of p) (snd q)) (sens_of t))) eqn:E5;
      [discriminate|].
    destruct (negb (len (root_of p) =? len (root_of t))) eqn:E6; [discriminate|].
    destruct (negb (all_found (root_of p) (root_of t))) eqn:E7; [discriminate|].
    destruct (negb (len (reg_of p) =? len (reg_of t))) eqn:E8; [discriminate|].
    destruct (negb (all_found (reg_of p) (reg_of t))) eqn:E9; [discriminate|].
    destruct (voters_of (reg_of p) (t_votes t)) as [voters|] eqn:E10; [|discriminate].
    destruct (forallb (fun i => existsb (Z.eqb i) (t_votes t)) (changed_regular p t)) eqn:E11;
      [|discriminate].
    intros H; inversion H; subst. apply voters_of_iff in E10 as [Hv ->].
    apply negb_false_iff in E2, E3, E5, E7, E9. apply zlist_eqb_eq in E2, E3.
    rewrite forallb_forall in E5, E11.
    pose proof (proj1 (all_found_iff _ _) E7) as E7'. pose proof (proj1 (all_found_iff _ _) E9) as E9'.
    split; [|auto]. constructor; try assumption; try lia.
    intros i Hi. apply E11 in Hi. now apply (existsb_eqb_in Z.eqb zeqb_iff) in Hi.
  - intros [[] [-> ->]].
    replace (negb (t_quorum p =? t_quorum t)) with false by lia.
    rewrite (proj2 (zlist_eqb_eq _ _) rr_core0), (proj2 (zlist_eqb_eq _ _) rr_auth0). cbn [negb].
    replace (negb (len (sens_of p) =? len (sens_of t))) with false by lia.
    assert (E5 : forallb (fun q => unchanged_in (sens_of p) (snd q)) (sens_of t) = true)
      by (apply forallb_forall; assumption).
    rewrite E5. cbn [negb].
    replace (negb (len (root_of p) =? len (root_of t))) with false by lia.
    rewrite (proj2 (all_found_iff _ _) rr_root0). cbn [negb].
    replace (negb (len (reg_of p) =? len (reg_of t))) with false by lia.
    rewrite (proj2 (all_found_iff _ _) rr_reg0). cbn [negb].
    rewrite (proj2 (voters_of_iff _ _ _) (conj rr_votes0 eq_refl)).
    assert (E11 : forallb (fun i => existsb (Z.eqb i) (t_votes t)) (changed_regular p t) = true).
    { apply forallb_forall. intros i Hi. apply (existsb_eqb_in Z.eqb zeqb_iff). auto. }
    rewrite E11. reflexivity.
Qed.

(** * [ValidateUpdate] *)

Definition update_payload_ok (p t : trc) : Prop :=
  trc_validate t = None /\ t_isd p = t_isd t /\ t_base p = t_base t /\
  (t_serial p + 1) mod two64 = t_serial t /\ t_ntr p = t_ntr t /\
  t_quorum p <= len (t_votes t) /\ t_votes t <> [] /\ classify_err (t_certs p) = None.

Definition sensitive_votes (p t : trc) : Prop :=
  forallb (mem_idx (sens_of p)) (t_votes t) = true.

Lemma validate_update_iff p t u :
  validate_update (Some p) t = UOk u <->
  update_payload_ok p t /\ u_new u = new_voters (sens_of p) (reg_of p) t /\
  ((u_type u = USensitive /\ sensitive_votes p t /\
    u_votes u = pick (sens_of p) (t_votes t) /\ u_acks u = []) \/
   (u_type u = URegular /\ regular_rules p t /\
    u_votes u = pick (reg_of p) (t_votes t) /\ u_acks u = root_acks p t)).
Proof.
  unfold validate_update, update_payload_ok, sensitive_votes. split.
  - destruct (trc_validate t) eqn:E0; [discriminate|].
    destruct (negb (t_isd p =? t_isd t)) eqn:E1; [discriminate|].
    destruct (negb (t_base p =? t_base t)) eqn:E2; [discriminate|].
    destruct (negb ((t_serial p + 1) mod two64 =? t_serial t)) eqn:E3; [discriminate|].
    destruct (negb (Bool.eqb (t_ntr p) (t_ntr t))) eqn:E4; [discriminate|].
    destruct (len (t_votes t) <? t_quorum p) eqn:E5; [discriminate|].
    destruct (classify_err (t_certs p)) eqn:E6; [discriminate|].
    destruct (t_votes t) as [|v0 vs] eqn:Ev; [discriminate|].
    apply negb_false_iff, eqb_prop in E4.
    assert (P : @None verr = None /\ t_isd p = t_isd t /\ t_base p = t_base t /\
                (t_serial p + 1) mod two64 = t_serial t /\ t_ntr p = t_ntr t /\
                t_quorum p <= len (v0 :: vs) /\ v0 :: vs <> [] /\ @None verr = None).
    { repeat split; try lia; try assumption. discriminate. }
    destruct (lookup (reg_of p) v0) as [c0|] eqn:E7.
    + destruct (validate_regular p t) as [e|[voters acks]] eqn:E8; [discriminate|].
      intros H; inversion H; subst. cbn. apply validate_regular_iff in E8 as [R [-> ->]].
      rewrite Ev in *. split; [exact P|]. split; [reflexivity|]. right. auto.
    + destruct (voters_of (sens_of p) (v0 :: vs)) as [voters|] eqn:E8; [|discriminate].
      intros H; inversion H; subst. cbn. apply voters_of_iff in E8 as [F ->].
      split; [exact P|]. split; [reflexivity|]. left. auto.
  - intros [[E0 [E1 [E2 [E3 [E4 [E5 [E6 E7]]]]]]] [En Hc]].
    rewrite E0.
    replace (negb (t_isd p =? t_isd t)) with false by lia.
    replace (negb (t_base p =? t_base t)) with false by lia.
    replace (negb ((t_serial p + 1) mod two64 =? t_serial t)) with false by lia.
    rewrite E4, eqb_reflx. cbn [negb].
    replace (len (t_votes t) <? t_quorum p) with false by lia.
    rewrite E7. destruct u as [ty nv vo ak]. cbn in *. subst nv.
    destruct (t_votes t) as [|v0 vs] eqn:Ev; [contradiction|].
    destruct Hc as [[-> [F [-> ->]]]|[-> [R [-> ->]]]].
    + destruct (lookup (reg_of p) v0) as [c0|] eqn:L.
      * cbn in F. apply andb_true_iff in F as [F _]. apply mem_idx_iff in F as [c F].
        destruct (class_disjoint _ _ _ _ _ _ F L) as [X _]. discriminate.
      * rewrite <- Ev in F |- *. rewrite (proj2 (voters_of_iff _ _ _) (conj F eq_refl)). reflexivity.
    + pose proof (rr_votes _ _ R) as F. rewrite Ev in F. cbn in F.
      apply andb_true_iff in F as [F _]. apply mem_idx_iff in F as [c F]. rewrite F.
      rewrite <- Ev.
      rewrite (proj2 (validate_regular_iff p t _ _) (conj R (conj eq_refl eq_refl))). reflexivity.
Qed.

(** * [SignedTRC.Verify] for updates: exact characterisation *)

Definition update_accepted (p t : trc) (sis : list sinfo) : Prop :=
  is_base t = false /\ update_payload_ok p t /\
  fully_signed sis (new_voters (sens_of p) (reg_of p) t) /\
  ((sensitive_votes p t /\ fully_signed sis (pick (sens_of p) (t_votes t))) \/
   (regular_rules p t /\ fully_signed sis (root_acks p t) /\
    fully_signed sis (pick (reg_of p) (t_votes t)))).

Theorem verify_update_iff p t sis : verify (Some p) t sis = Accept <-> update_accepted p t sis.
Proof.
  unfold verify, update_accepted. destruct (is_base t); cbn [negb].
  { split; [discriminate|]. intros [H _]. discriminate. }
  unfold verify_update. split.
  - destruct (validate_update (Some p) t) as [u| |] eqn:U; try discriminate.
    destruct (verify_all sis (u_new u)) eqn:V1; [discriminate|].
    destruct (verify_all sis (u_acks u)) eqn:V2; [discriminate|].
    destruct (verify_all sis (u_votes u)) eqn:V3; [discriminate|]. intros _.
    apply verify_all_iff in V1, V2, V3.
    apply validate_update_iff in U as [P [En Hc]]. rewrite En in V1.
    split; [reflexivity|]. split; [assumption|]. split; [assumption|].
    destruct Hc as [[_ [F [Ev Ea]]]|[_ [R [Ev Ea]]]]; rewrite Ev in V3; rewrite Ea in V2; auto.
  - intros [_ [P [N Hc]]].
    assert (S : forall si, In si sis -> supported si = true) by (destruct N; assumption).
    destruct Hc as [[F V]|[R [A V]]].
    + rewrite (proj2 (validate_update_iff p t
        (mkupd USensitive (new_voters (sens_of p) (reg_of p) t) (pick (sens_of p) (t_votes t)) []))).
      * cbn. apply verify_all_iff in N, V. rewrite N, V.
        rewrite (proj2 (verify_all_iff sis []) (proj2 (fully_signed_nil sis) S)). reflexivity.
      * split; [assumption|]. split; [reflexivity|]. left. cbn. auto.
    + rewrite (proj2 (validate_update_iff p t
        (mkupd URegular (new_voters (sens_of p) (reg_of p) t) (pick (reg_of p) (t_votes t))
               (root_acks p t)))).
      * cbn. apply verify_all_iff in N, V, A. rewrite N, V, A. reflexivity.
      * split; [assumption|]. split; [reflexivity|]. right. cbn. auto.
Qed.

Theorem verify_base_iff t sis :
  verify None t sis = Accept <->
  is_base t = true /\ trc_validate t = None /\ fully_signed sis (voters_all t).
Proof.
  unfold verify. destruct (is_base t); cbn [negb].
  - unfold verify_base. destruct (trc_validate t).
    + split; [discriminate|]. intros [_ [H _]]. discriminate.
    + destruct (verify_all sis (voters_all t)) eqn:V.
      * split; [discriminate|]. intros [_ [_ H]]. apply verify_all_iff in H. congruence.
      * apply verify_all_iff in V. tauto.
  - split; [|intros [H _]; discriminate].
    unfold verify_update, validate_update. destruct (trc_validate t); discriminate.
Qed.

Lemma verify_base_with_pred p t sis : is_base t = true -> verify (Some p) t sis <> Accept.
Proof. unfold verify. intros ->. cbn. discriminate. Qed.

(** * From the exact characterisation to the statement of the property *)

Lemma NoDup_app_intro {A} (a b : list A) :
  NoDup a -> NoDup b -> (forall x, In x a -> ~ In x b) -> NoDup (a ++ b).
Proof.
  induction a as [|x r IH]; cbn; intros Na Nb D; [assumption|].
  inversion Na as [|? ? Hn Hr]; subst. constructor.
  - rewrite in_app_iff. intros [H|H]; [contradiction|]. apply (D x); auto.
  - apply IH; auto.
Qed.

Lemma voters_NoDup t f g :
  NoDup (map fst (filter f (sens_of t) ++ filter g (reg_of t))).
Proof.
  rewrite map_app. apply NoDup_app_intro.
  - apply NoDup_map_filter, of_class_NoDup.
  - apply NoDup_map_filter, of_class_NoDup.
  - intros i Ha Hb. apply in_map_iff in Ha as [[i1 c1] [E1 H1]]. apply in_map_iff in Hb as [[i2 c2] [E2 H2]].
    cbn in E1, E2. subst i1 i2. apply filter_In in H1 as [H1 _]. apply filter_In in H2 as [H2 _].
    apply in_lookup in H1; [|apply of_class_NoDup]. apply in_lookup in H2; [|apply of_class_NoDup].
    destruct (class_disjoint _ _ _ _ _ _ H1 H2) as [X _]. discriminate.
Qed.

Lemma unchanged_kept m c i : unchanged_in m c = true -> kept_in m (i, c) = true.
Proof.
  unfold unchanged_in, kept_in. destruct (find_subject m c) as [[j q]|] eqn:F; [|discriminate].
  intros E. apply find_subject_some in F as [Hin Es]. cbn in Es.
  apply existsb_exists. exists (j, q). split; [assumption|]. cbn.
  rewrite Es, name_eqb_refl. cbn. lia.
Qed.

Lemma replaced_found (P T : list (Z * acert)) q :
  NoDup (subjects P) -> In q P -> replaced_by T q = true ->
  exists r, In r T /\ find_subject P (snd r) = Some q /\ (c_raw (snd q) =? c_raw (snd r)) = false.
Proof.
  intros N Hq H. unfold replaced_by in H. apply existsb_exists in H as [r [Hr E]].
  apply andb_true_iff in E as [E1 E2]. apply name_eqb_eq in E1. apply negb_true_iff in E2.
  exists r. repeat split; try assumption. now apply find_subject_unique.
Qed.

Lemma newly_signed p t sis :
  fully_signed sis (new_voters (sens_of p) (reg_of p) t) ->
  all_signed sis (newly_introduced p t) = true.
Proof.
  intros H. apply fully_signed_all_signed in H. unfold all_signed in *.
  apply andb_true_iff in H as [_ H]. rewrite forallb_forall in H.
  apply andb_true_iff. split.
  - apply (nodupb_NoDup Z.eqb zeqb_iff). apply voters_NoDup.
  - apply forallb_forall. intros [i c] Hq. apply H. unfold newly_introduced, new_voters in *.
    rewrite in_app_iff in *. rewrite !filter_In in *. cbn [snd].
    destruct Hq as [[Hq K]|[Hq K]]; [left|right]; (split; [assumption|]);
      apply negb_true_iff; apply negb_true_iff in K;
      (destruct (unchanged_in _ c) eqn:U; [|reflexivity]);
      apply (unchanged_kept _ _ i) in U; congruence.
Qed.

Section Regular.
  Variables p t : trc.
  Hypothesis Rp : trc_rules p.
  Hypothesis Rt : trc_rules t.
  Hypothesis R : regular_rules p t.

  Lemma found_onto (P T : list (Z * acert)) :
    NoDup (subjects T) -> len P = len T ->
    (forall q, In q T -> exists q', find_subject P (snd q) = Some q') ->
    forall b, In b P -> exists a, In a T /\ c_subject (snd a) = c_subject (snd b).
  Proof.
    intros N L F. apply subjects_onto; [assumption|lia|].
    intros a Ha. destruct (F a Ha) as [q' Hq']. apply find_subject_some in Hq'. eauto.
  Qed.

  Lemma same_subjects_ok (P T : list (Z * acert)) :
    NoDup (subjects T) -> len P = len T ->
    (forall q, In q T -> exists q', find_subject P (snd q) = Some q') ->
    same_subjects P T = true.
  Proof.
    intros N L F. unfold same_subjects. apply andb_true_iff. split; apply forallb_forall.
    - intros b Hb. destruct (found_onto P T N L F b Hb) as [a [Ha E]].
      apply existsb_exists. exists a. split; [assumption|]. rewrite E. apply name_eqb_refl.
    - intros q Hq. destruct (F q Hq) as [q' Hq']. apply find_subject_some in Hq' as [Hin E].
      apply existsb_exists. exists q'. split; [assumption|]. rewrite E. apply name_eqb_refl.
  Qed.

  Lemma sens_kept_forward : forallb (kept_in (sens_of p)) (sens_of t) = true.
  Proof.
    apply forallb_forall. intros [i c] Hq. apply unchanged_kept.
    exact (rr_sens _ _ R (i, c) Hq).
  Qed.

  Lemma sens_found q : In q (sens_of t) -> exists q', find_subject (sens_of p) (snd q) = Some q'.
  Proof.
    intros Hq. pose proof (rr_sens _ _ R q Hq) as U. unfold unchanged_in in U.
    destruct (find_subject (sens_of p) (snd q)); [eauto|discriminate].
  Qed.

  Lemma sens_kept_backward : forallb (kept_in (sens_of t)) (sens_of p) = true.
  Proof.
    apply forallb_forall. intros q Hq.
    destruct (found_onto (sens_of p) (sens_of t) (r_subject_sens t Rt) (rr_sens_count _ _ R)
                         sens_found q Hq) as [a [Ha E]].
    pose proof (rr_sens _ _ R a Ha) as U. unfold unchanged_in in U.
    rewrite (find_subject_unique (sens_of p) (snd a) q (r_subject_sens p Rp) Hq (eq_sym E)) in U.
    destruct q as [j q0]. cbn in *.
    unfold kept_in. apply existsb_exists. exists a. split; [assumption|]. cbn.
    rewrite E, name_eqb_refl. cbn. lia.
  Qed.

  Lemma replaced_regular_voted :
    forallb (fun q => negb (replaced_by (reg_of t) q) || existsb (Z.eqb (fst q)) (t_votes t))
            (reg_of p) = true.
  Proof.
    apply forallb_forall. intros q Hq. destruct (replaced_by (reg_of t) q) eqn:E; [|reflexivity].
    cbn. destruct (replaced_found _ _ _ (r_subject_reg p Rp) Hq E) as [r [Hr [F D]]].
    apply (existsb_eqb_in Z.eqb zeqb_iff). apply (rr_changed_voted _ _ R).
    unfold changed_regular. apply in_flat_map. exists r. split; [assumption|].
    rewrite F. destruct q as [i q0]. cbn in *. rewrite D. now left.
  Qed.

  Lemma replaced_roots_in_acks q :
    In q (filter (replaced_by (root_of t)) (root_of p)) -> In q (root_acks p t).
  Proof.
    intros Hq. apply filter_In in Hq as [Hq E].
    destruct (replaced_found _ _ _ (r_subject_root p Rp) Hq E) as [r [Hr [F D]]].
    unfold root_acks. apply in_flat_map. exists r. split; [assumption|].
    rewrite F. destruct q as [i q0]. cbn in *. rewrite D. now left.
  Qed.

  Lemma acks_signed sis :
    fully_signed sis (root_acks p t) ->
    all_signed sis (filter (replaced_by (root_of t)) (root_of p)) = true.
  Proof.
    intros H. apply fully_signed_all_signed in H. unfold all_signed in *.
    apply andb_true_iff in H as [_ H]. rewrite forallb_forall in H.
    apply andb_true_iff. split.
    - apply (nodupb_NoDup Z.eqb zeqb_iff). apply NoDup_map_filter, of_class_NoDup.
    - apply forallb_forall. intros q Hq. apply H. now apply replaced_roots_in_acks.
  Qed.

  Lemma regular_sound sis :
    fully_signed sis (root_acks p t) -> fully_signed sis (pick (reg_of p) (t_votes t)) ->
    regular_b p t sis = true.
  Proof.
    intros A V. unfold regular_b.
    rewrite (rr_votes _ _ R), (fully_signed_all_signed _ _ V).
    rewrite (proj2 (Z.eqb_eq _ _) (rr_quorum _ _ R)).
    rewrite (proj2 (zlist_eqb_eq _ _) (rr_core _ _ R)), (proj2 (zlist_eqb_eq _ _) (rr_auth _ _ R)).
    rewrite sens_kept_forward, sens_kept_backward.
    rewrite (same_subjects_ok (root_of p) (root_of t) (r_subject_root t Rt) (rr_root_count _ _ R)
                              (rr_root _ _ R)).
    rewrite (same_subjects_ok (reg_of p) (reg_of t) (r_subject_reg t Rt) (rr_reg_count _ _ R)
                              (rr_reg _ _ R)).
    rewrite replaced_regular_voted, (acks_signed sis A). reflexivity.
  Qed.
End Regular.

Lemma serial_increment p t :
  trc_rules p -> trc_rules t -> t_serial p < two64 ->
  (t_serial p + 1) mod two64 = t_serial t -> t_serial t = t_serial p + 1.
Proof.
  intros Rp Rt B E. pose proof (r_base p Rp). pose proof (r_base t Rt). unfold two64 in *.
  destruct (Z.eq_dec (t_serial p + 1) 18446744073709551616) as [e|n].
  - rewrite e, Z.mod_same in E by lia. lia.
  - rewrite Z.mod_small in E by lia. lia.
Qed.

Theorem update_sound p t sis :
  trc_validate p = None -> t_serial p < two64 ->
  update_accepted p t sis -> update_spec_b p t sis = true.
Proof.
  intros Vp B [Nb [[Vt [E1 [E2 [E3 [E4 [E5 [E6 E7]]]]]]] [N Hc]]].
  pose proof (proj1 (validate_iff_rules p) Vp) as Rp.
  pose proof (proj1 (validate_iff_rules t) Vt) as Rt.
  pose proof (serial_increment p t Rp Rt B E3) as Es.
  unfold update_spec_b. rewrite Nb, (newly_signed p t sis N). cbn [negb andb].
  rewrite andb_true_r. apply andb_true_iff. split.
  - unfold update_common_b. rewrite (proj1 (validate_rules_b t) Vt), E4, eqb_reflx.
    rewrite !andb_true_r. lia.
  - destruct Hc as [[F V]|[R [A V]]].
    + unfold sensitive_b. unfold sensitive_votes in F.
      rewrite F, (fully_signed_all_signed _ _ V). reflexivity.
    + rewrite (regular_sound p t Rp Rt R sis A V). apply orb_true_r.
Qed.

Theorem base_sound t sis :
  is_base t = true /\ trc_validate t = None /\ fully_signed sis (voters_all t) ->
  base_spec_b t sis = true.
Proof.
  intros [B [V S]]. unfold base_spec_b.
  rewrite B, (proj1 (validate_rules_b t) V), (fully_signed_all_signed _ _ S). reflexivity.
Qed.

(** the oracle of the correspondence check holds on the model *)
Theorem accept_sound pred t sis :
  pred_ok pred = true -> verify pred t sis = Accept -> accept_spec_b pred t sis = true.
Proof.
  intros P A. destruct pred as [p|]; cbn [accept_spec_b].
  - cbn in P. destruct (trc_validate p) eqn:Vp; [discriminate|].
    apply update_sound; [assumption|lia|]. now apply verify_update_iff.
  - apply base_sound. now apply verify_base_iff.
Qed.

(** * Distinct voters *)

Definition properly_signed (sis : list sinfo) (c : acert) : Prop :=
  exists si, In si sis /\ supported si = true /\ claims si c = true /\
             si_digest_ok si = true /\ sig_valid si c = true.

Lemma all_signed_iff sis L :
  all_signed sis L = true <->
  NoDup (map fst L) /\ forall q, In q L -> properly_signed sis (snd q).
Proof.
  unfold all_signed, properly_signed, signed_by, supported.
  rewrite andb_true_iff, (nodupb_NoDup Z.eqb zeqb_iff), forallb_forall.
  split; intros [N H]; (split; [assumption|]); intros q Hq; specialize (H q Hq).
  - apply existsb_exists in H as [si [Hs E]]. split_ands. exists si. auto.
  - destruct H as [si [Hs [S [C [D G]]]]]. apply existsb_exists. exists si.
    split; [assumption|]. rewrite S, C, D, G. reflexivity.
Qed.

Theorem distinct_quorum p t sis :
  trc_validate p = None -> t_serial p < two64 -> verify (Some p) t sis = Accept ->
  exists voters : list (Z * acert),
    NoDup (map fst voters) /\ t_quorum p <= len voters /\
    (incl voters (sens_of p) \/ incl voters (reg_of p)) /\
    forall q, In q voters -> properly_signed sis (snd q).
Proof.
  intros Vp B A. apply verify_update_iff in A.
  destruct A as [_ [[_ [_ [_ [_ [_ [Q _]]]]]] [_ Hc]]].
  assert (G : forall m, forallb (mem_idx m) (t_votes t) = true ->
              fully_signed sis (pick m (t_votes t)) ->
              NoDup (map fst (pick m (t_votes t))) /\ t_quorum p <= len (pick m (t_votes t)) /\
              incl (pick m (t_votes t)) m /\
              forall q, In q (pick m (t_votes t)) -> properly_signed sis (snd q)).
  { intros m F S. apply fully_signed_all_signed, all_signed_iff in S as [N H].
    repeat split; try assumption.
    - unfold len in *. rewrite <- (map_length fst), (pick_fst m _ F). exact Q.
    - intros [i c] Hq. apply pick_in in Hq as [_ Hq]. now apply lookup_in in Hq. }
  destruct Hc as [[F V]|[R [_ V]]].
  - destruct (G _ F V) as [N [L [I H]]]. exists (pick (sens_of p) (t_votes t)). auto.
  - destruct (G _ (rr_votes _ _ R) V) as [N [L [I H]]]. exists (pick (reg_of p) (t_votes t)). auto.
Qed.

Theorem verify_never_panics_on_valid_pred p t sis :
  trc_validate p = None -> verify (Some p) t sis <> Panic.
Proof.
  intros Vp. pose proof (proj1 (validate_iff_rules p) Vp) as Rp. pose proof (r_quorum p Rp) as Q.
  unfold verify. destruct (is_base t); cbn [negb]; [discriminate|].
  unfold verify_update. destruct (validate_update (Some p) t) as [u| |] eqn:U.
  - repeat match goal with |- context [match ?x with _ => _ end] => destruct x end; discriminate.
  - discriminate.
  - exfalso. unfold validate_update in U.
    repeat match type of U with
           | context [if ?b then _ else _] => destruct b eqn:?; [discriminate|]
           | context [match trc_validate t with _ => _ end] => destruct (trc_validate t); [discriminate|]
           | context [match classify_err ?x with _ => _ end] => destruct (classify_err x); [discriminate|]
           end.
    destruct (t_votes t) as [|v0 vs] eqn:Ev.
    + cbn in *. lia.
    + destruct (lookup (reg_of p) v0).
      * destruct (validate_regular p t) as [|[]]; discriminate.
      * destruct (voters_of (sens_of p) (v0 :: vs)); discriminate.
Qed.

(** * The statement of the property at Prop level (audit follow-up) *)

Definition same_subject_in (l : list (Z * acert)) (q : Z * acert) : Prop :=
  exists r, In r l /\ c_subject (snd q) = c_subject (snd r).
Definition kept (l : list (Z * acert)) (q : Z * acert) : Prop :=
  exists r, In r l /\ c_subject (snd q) = c_subject (snd r) /\ c_raw (snd q) = c_raw (snd r).
Definition replaced (l : list (Z * acert)) (q : Z * acert) : Prop :=
  exists r, In r l /\ c_subject (snd q) = c_subject (snd r) /\ c_raw (snd q) <> c_raw (snd r).
(** pairwise distinct certificates (by position in their TRC), each properly signed *)
Definition signed_distinct (sis : list sinfo) (L : list (Z * acert)) : Prop :=
  NoDup (map fst L) /\ forall q, In q L -> properly_signed sis (snd q).

Lemma kept_in_iff l q : kept_in l q = true <-> kept l q.
Proof.
  unfold kept_in, kept. rewrite existsb_exists. split; intros [r [Hr E]]; exists r.
  - apply andb_true_iff in E as [E1 E2]. apply name_eqb_eq in E1. apply Z.eqb_eq in E2. auto.
  - destruct E as [E1 E2]. split; [assumption|]. rewrite E1, name_eqb_refl, E2, Z.eqb_refl. reflexivity.
Qed.

Lemma replaced_by_iff l q : replaced_by l q = true <-> replaced l q.
Proof.
  unfold replaced_by, replaced. rewrite existsb_exists. split; intros [r [Hr E]]; exists r.
  - apply andb_true_iff in E as [E1 E2]. apply name_eqb_eq in E1. apply negb_true_iff in E2.
    repeat split; try assumption. lia.
  - destruct E as [E1 E2]. split; [assumption|]. rewrite E1, name_eqb_refl. cbn.
    apply negb_true_iff. lia.
Qed.

Lemma same_subjects_iff a b :
  same_subjects a b = true <->
  (forall q, In q a -> same_subject_in b q) /\ (forall q, In q b -> same_subject_in a q).
Proof.
  unfold same_subjects, same_subject_in. rewrite andb_true_iff, !forallb_forall. split.
  - intros [H1 H2]. split; intros q Hq.
    + apply H1, existsb_exists in Hq as [r [Hr E]]. apply name_eqb_eq in E. eauto.
    + apply H2, existsb_exists in Hq as [r [Hr E]]. apply name_eqb_eq in E. eauto.
  - intros [H1 H2]. split; intros q Hq; apply existsb_exists.
    + destruct (H1 q Hq) as [r [Hr E]]. exists r. split; [assumption|]. rewrite E. apply name_eqb_refl.
    + destruct (H2 q Hq) as [r [Hr E]]. exists r. split; [assumption|]. rewrite E. apply name_eqb_refl.
Qed.

Lemma all_signed_distinct sis L : all_signed sis L = true <-> signed_distinct sis L.
Proof. apply all_signed_iff. Qed.

Definition votes_in (m : list (Z * acert)) (votes : list Z) : Prop :=
  forall v, In v votes -> exists c, In (v, c) m.

Lemma forallb_mem_idx m votes : forallb (mem_idx m) votes = true -> votes_in m votes.
Proof.
  rewrite forallb_forall. intros H v Hv. apply H, mem_idx_iff in Hv as [c Hc].
  exists c. now apply lookup_in.
Qed.

(** the regular-update clause of the property *)
Record regular_update_prop (p t : trc) (sis : list sinfo) : Prop := mk_rup {
  rup_votes : votes_in (reg_of p) (t_votes t);
  rup_voters_signed : signed_distinct sis (pick (reg_of p) (t_votes t));
  rup_quorum : t_quorum p = t_quorum t;
  rup_core : t_core p = t_core t;
  rup_auth : t_auth p = t_auth t;
  rup_sens_kept : forall q, In q (sens_of t) -> kept (sens_of p) q;
  rup_sens_none_removed : forall q, In q (sens_of p) -> kept (sens_of t) q;
  rup_root_none_removed : forall q, In q (root_of p) -> same_subject_in (root_of t) q;
  rup_root_none_added : forall q, In q (root_of t) -> same_subject_in (root_of p) q;
  rup_reg_none_removed : forall q, In q (reg_of p) -> same_subject_in (reg_of t) q;
  rup_reg_none_added : forall q, In q (reg_of t) -> same_subject_in (reg_of p) q;
  rup_replaced_voted : forall q, In q (reg_of p) -> replaced (reg_of t) q -> In (fst q) (t_votes t);
  rup_replaced_roots_signed :
    signed_distinct sis (filter (replaced_by (root_of t)) (root_of p))
}.

Lemma regular_b_prop p t sis : regular_b p t sis = true -> regular_update_prop p t sis.
Proof.
  unfold regular_b. intros H. split_ands.
  repeat match goal with H : same_subjects _ _ = true |- _ => apply same_subjects_iff in H; destruct H end.
  repeat match goal with H : all_signed _ _ = true |- _ => apply all_signed_distinct in H end.
  repeat match goal with H : zlist_eqb _ _ = true |- _ => apply zlist_eqb_eq in H end.
  repeat match goal with H : forallb (kept_in _) _ = true |- _ => rewrite forallb_forall in H end.
  constructor; try assumption; try lia.
  - now apply forallb_mem_idx.
  - intros q Hq. apply kept_in_iff. auto.
  - intros q Hq. apply kept_in_iff. auto.
  - intros q Hq Hr.
    match goal with H : forallb (fun q => negb (replaced_by _ q) || _) _ = true |- _ =>
      rewrite forallb_forall in H; specialize (H q Hq) end.
    apply replaced_by_iff in Hr. rewrite Hr in *. cbn in *.
    now apply (existsb_eqb_in Z.eqb zeqb_iff).
Qed.

Definition update_prop (p t : trc) (sis : list sinfo) : Prop :=
  is_base t = false /\
  t_isd t = t_isd p /\ t_base t = t_base p /\ t_serial t = t_serial p + 1 /\ t_ntr t = t_ntr p /\
  trc_rules t /\ t_quorum p <= len (t_votes t) /\
  signed_distinct sis (newly_introduced p t) /\
  ((votes_in (sens_of p) (t_votes t) /\ signed_distinct sis (pick (sens_of p) (t_votes t))) \/
   regular_update_prop p t sis).

Theorem update_spec_b_prop p t sis : update_spec_b p t sis = true -> update_prop p t sis.
Proof.
  unfold update_spec_b, update_common_b. intros H. split_ands.
  match goal with H : rules_b t = true |- _ => apply rules_b_iff in H end.
  match goal with H : all_signed _ (newly_introduced _ _) = true |- _ => apply all_signed_distinct in H end.
  match goal with H : Bool.eqb _ _ = true |- _ => apply eqb_prop in H end.
  unfold update_prop.
  split; [destruct (is_base t); [discriminate|reflexivity]|].
  split; [lia|]. split; [lia|]. split; [lia|]. split; [symmetry; assumption|].
  split; [assumption|]. split; [lia|]. split; [assumption|].
  match goal with H : _ || _ = true |- _ => apply orb_true_iff in H as [S|R] end.
  - left. unfold sensitive_b in S. apply andb_true_iff in S as [S1 S2].
    split; [now apply forallb_mem_idx|now apply all_signed_distinct].
  - right. now apply regular_b_prop.
Qed.
