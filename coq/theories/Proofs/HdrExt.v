(** Lemmas about Model/HdrExt.v (C18 layer 5). *)
From Coq Require Import List Arith NArith ZArith Bool Lia ZifyN ZifyNat ZifyBool.
From Scion Require Import Lib.Bytes Lib.BytesX Lib.Check Model.HdrExt.
Import ListNotations.
Import HdrExt.
Local Open Scope N_scope.

Ltac pow256 :=
  change (256 ^ N.of_nat 1) with 256 in *; change (256 ^ N.of_nat 2) with 65536 in *;
  change (256 ^ N.of_nat 4) with 4294967296 in *; change (256 ^ N.of_nat 6) with 281474976710656 in *.

(** ------------------------------------------------------------ single options *)
Lemma pad_bytes_length k : length (pad_bytes k) = k.
Proof. destruct k as [|[|d]]; cbn [pad_bytes length]; try reflexivity. now rewrite repeat_length. Qed.

Lemma opt_bytes_length fx o : length (opt_bytes fx o) = opt_length fx o.
Proof.
  unfold opt_bytes, opt_length. destruct (o_type o =? 0); [reflexivity|].
  destruct fx; rewrite !app_length, !be_length, ?fit_length; lia.
Qed.

Lemma opt_bytes_fix o : wf_opt_fix o -> opt_bytes true o = opt_bytes false (fix_opt o).
Proof.
  intros (Ht & _ & _ & Hd). unfold opt_bytes, fix_opt.
  destruct (o_type o =? 0) eqn:E; [reflexivity|]. cbn [o_type o_datalen o_data]. rewrite E.
  rewrite Nat2N.id. now rewrite fit_exact.
Qed.

Lemma fix_opt_wf o : wf_opt_fix o -> wf_opt (fix_opt o).
Proof.
  intros (Ht & _ & _ & Hd). unfold fix_opt, wf_opt.
  destruct (o_type o =? 0) eqn:E; cbn [o_type o_datalen o_data pad1].
  - split; [lia | now left].
  - apply N.eqb_neq in E. destruct Hd as [Hd | [Hl Hw]]; [contradiction|].
    split; [exact Ht|]. right. repeat split; [lia | exact Hw].
Qed.

Lemma pad_opts_bytes k : (k < 256)%nat -> pad_bytes k = concat (map (opt_bytes false) (pad_opts k)).
Proof.
  intros H. destruct k as [|[|d]]; cbn [pad_bytes pad_opts map concat]; try reflexivity.
  unfold opt_bytes. cbn [o_type o_datalen o_data]. change (1 =? 0) with false. cbv iota.
  rewrite !be_1. rewrite N.mod_mod by discriminate.
  rewrite (N.mod_small (N.of_nat d)) by lia. rewrite Nat2N.id.
  rewrite fit_exact by apply repeat_length. cbn [app]. now rewrite app_nil_r.
Qed.

Lemma pad_opts_wf k : (k < 256)%nat -> Forall wf_opt (pad_opts k).
Proof.
  intros H. destruct k as [|[|d]]; cbn [pad_opts].
  - constructor.
  - constructor; [|constructor]. split; [cbn; lia | now left].
  - constructor; [|constructor]. split; [cbn; lia|]. right. cbn [o_datalen o_data].
    rewrite repeat_length, N.mod_small by lia. repeat split; try lia. apply wf_bytes_repeat0.
Qed.

Lemma align_pad_lt len x y : x < 256 -> y < 256 -> (align_pad len x y < 256)%nat.
Proof.
  intros Hx Hy. unfold align_pad.
  destruct (Nat.eqb (N.to_nat x) 0) eqn:E; [lia|]. apply Nat.eqb_neq in E.
  set (a := N.to_nat x) in *. set (b := N.to_nat y).
  assert (Ha : (a < 256)%nat) by (subst a; lia). assert (Hb : (b < 256)%nat) by (subst b; lia).
  pose proof (Nat.div_mod len a E) as D. pose proof (Nat.mod_upper_bound len a E) as U.
  destruct (Nat.ltb (a * (len / a) + b) len) eqn:L.
  - apply Nat.ltb_lt in L. lia.
  - apply Nat.ltb_ge in L. lia.
Qed.

Lemma final_pad_lt len : (final_pad len < 4)%nat.
Proof.
  unfold final_pad. pose proof (Nat.mod_upper_bound len 4 ltac:(lia)).
  destruct (Nat.eqb (len mod 4) 0) eqn:E; [lia | apply Nat.eqb_neq in E; lia].
Qed.

Lemma final_pad_mod len : ((len + final_pad len) mod 4 = 0)%nat.
Proof.
  unfold final_pad. pose proof (Nat.mod_upper_bound len 4 ltac:(lia)) as U.
  pose proof (Nat.div_mod len 4 ltac:(lia)) as D.
  destruct (Nat.eqb (len mod 4) 0) eqn:E.
  - apply Nat.eqb_eq in E. now rewrite Nat.add_0_r.
  - apply Nat.eqb_neq in E.
    replace (len + (4 - len mod 4))%nat with ((len / 4 + 1) * 4)%nat by lia.
    apply Nat.mod_mul. lia.
Qed.

(** ------------------------------------------------------------ serializeTLVOptions *)
Lemma ser_opts_nofix len opts : ser_opts false len opts = concat (map (opt_bytes false) opts).
Proof.
  revert len. induction opts as [|o t IH]; intros len; cbn [ser_opts map concat]; [reflexivity|].
  cbn [pad_bytes app]. now rewrite IH.
Qed.

Lemma ser_opts_fix opts : forall len, Forall wf_opt_fix opts ->
  ser_opts true len opts = concat (map (opt_bytes false) (fix_opts len opts)).
Proof.
  induction opts as [|o t IH]; intros len W; cbn [ser_opts fix_opts].
  - apply pad_opts_bytes. pose proof (final_pad_lt len). lia.
  - inversion W as [|? ? Wo Wt]; subst. destruct Wo as (Ht & Hx & Hy & Hd).
    rewrite map_app, concat_app. cbn [map concat].
    rewrite <- pad_opts_bytes by (now apply align_pad_lt).
    rewrite opt_bytes_fix by (repeat split; assumption).
    rewrite IH by exact Wt. reflexivity.
Qed.

Lemma fix_opts_wf opts : forall len, Forall wf_opt_fix opts -> Forall wf_opt (fix_opts len opts).
Proof.
  induction opts as [|o t IH]; intros len W; cbn [fix_opts].
  - apply pad_opts_wf. pose proof (final_pad_lt len). lia.
  - inversion W as [|? ? Wo Wt]; subst. apply Forall_app. split.
    + apply pad_opts_wf. destruct Wo as (_ & Hx & Hy & _). now apply align_pad_lt.
    + constructor; [now apply fix_opt_wf | now apply IH].
Qed.

(** the serialized option area always ends on a 4-byte boundary *)
Lemma ser_opts_fix_aligned opts : forall len,
  ((len + length (ser_opts true len opts)) mod 4 = 0)%nat.
Proof.
  induction opts as [|o t IH]; intros len; cbn [ser_opts].
  - rewrite pad_bytes_length. apply final_pad_mod.
  - rewrite !app_length, pad_bytes_length, opt_bytes_length.
    specialize (IH (len + align_pad len (o_ax o) (o_ay o) + opt_length true o)%nat).
    match goal with H : (?a mod 4 = 0)%nat |- (?b mod 4 = 0)%nat => replace b with a by lia; exact H end.
Qed.

Lemma canon_pad_opts k : map canon_opt (pad_opts k) = pad_opts k.
Proof. destruct k as [|[|d]]; reflexivity. Qed.

Lemma canon_fix_opt o : canon_opt (fix_opt o) = fix_opt o.
Proof.
  unfold fix_opt, canon_opt. destruct (o_type o =? 0) eqn:E; cbn [o_type pad1]; [reflexivity|].
  now rewrite E.
Qed.

Lemma canon_fix_opts opts : forall len, map canon_opt (fix_opts len opts) = fix_opts len opts.
Proof.
  induction opts as [|o t IH]; intros len; cbn [fix_opts].
  - apply canon_pad_opts.
  - rewrite map_app, canon_pad_opts. cbn [map]. now rewrite canon_fix_opt, IH.
Qed.

(** FixLengths only inserts padding options: the caller's options all reappear, in order *)
Lemma pad_opts_all_pad k : filter (fun o => negb (is_pad o)) (pad_opts k) = [].
Proof. destruct k as [|[|d]]; reflexivity. Qed.

Lemma fix_opts_keeps opts : forall len,
  filter (fun o => negb (is_pad o)) (fix_opts len opts) =
  map fix_opt (filter (fun o => negb (is_pad o)) opts).
Proof.
  induction opts as [|o t IH]; intros len; cbn [fix_opts filter map].
  - apply pad_opts_all_pad.
  - rewrite filter_app, pad_opts_all_pad. cbn [app filter].
    assert (E : is_pad (fix_opt o) = is_pad o).
    { unfold fix_opt, is_pad. destruct (o_type o =? 0) eqn:E0; cbn [o_type pad1]; [reflexivity|].
      now rewrite E0. }
    rewrite E. destruct (is_pad o); cbn [negb map]; now rewrite IH.
Qed.

(** ------------------------------------------------------------ decoding options *)
Lemma dec_opts_enc opts : forall fuel, Forall wf_opt opts ->
  (length (concat (map (opt_bytes false) opts)) <= fuel)%nat ->
  dec_opts fuel (concat (map (opt_bytes false) opts)) = Ok (map canon_opt opts).
Proof.
  induction opts as [|o t IH]; intros fuel W L; cbn [map concat] in *.
  - destruct fuel; reflexivity.
  - inversion W as [|? ? Wo Wt]; subst. destruct Wo as (Ht & Hd).
    rewrite app_length, opt_bytes_length in L.
    unfold opt_bytes, canon_opt in *. unfold opt_length in L.
    destruct (o_type o =? 0) eqn:E.
    + destruct fuel as [|fuel]; [lia|]. cbn [app dec_opts]. change (0 =? 0) with true. cbv iota.
      rewrite IH by (try assumption; lia). reflexivity.
    + apply N.eqb_neq in E. destruct Hd as [Hd | (Hl & Hlt & Hw)]; [contradiction|].
      destruct fuel as [|fuel]; [lia|].
      rewrite !be_1, !N.mod_small by assumption. cbn [app dec_opts].
      replace (o_type o =? 0) with false by (symmetry; now apply N.eqb_neq).
      rewrite fit_exact by lia.
      rewrite ltb_false by (rewrite app_length; lia).
      rewrite takeP_app' by lia. cbn [bind].
      rewrite IH by (try assumption; lia). reflexivity.
Qed.

Lemma dec_opts_inv fuel : forall r os, wf_bytes r -> dec_opts fuel r = Ok os ->
  concat (map (opt_bytes false) os) = r /\ Forall wf_opt os /\ map canon_opt os = os.
Proof.
  induction fuel as [|fuel IH]; intros r os W; destruct r as [|t r1]; cbn [dec_opts].
  - intros H; injection H as <-. repeat split; constructor.
  - discriminate.
  - intros H; injection H as <-. repeat split; constructor.
  - inversion W as [|? ? Wt W1]; subst. unfold wf_byte in Wt.
    destruct (t =? 0) eqn:E.
    + apply N.eqb_eq in E. subst t.
      destruct (dec_opts fuel r1) as [os'| |] eqn:Ed; cbn [bind]; try discriminate.
      intros H; injection H as <-. destruct (IH _ _ W1 Ed) as (C & F & K).
      cbn [map concat]. rewrite C, K. repeat split.
      constructor; [|exact F]. split; [cbn; lia | now left].
    + destruct r1 as [|l r2]; [discriminate|].
      inversion W1 as [|? ? Wl W2]; subst. unfold wf_byte in Wl.
      destruct (Nat.ltb (length r2) (N.to_nat l)) eqn:L; [discriminate|]. apply Nat.ltb_ge in L.
      destruct (takeP (N.to_nat l) r2) as [[d r3]| |] eqn:Et; cbn [bind]; try discriminate.
      pose proof (takeP_wf _ _ _ _ W2 Et) as [Wd W3]. apply takeP_inv in Et as (-> & Ld).
      destruct (dec_opts fuel r3) as [os'| |] eqn:Ed; cbn [bind]; try discriminate.
      intros H; injection H as <-. destruct (IH _ _ W3 Ed) as (C & F & K).
      cbn [map concat]. rewrite C, K. unfold opt_bytes, canon_opt. cbn [o_type o_datalen o_data].
      rewrite E. rewrite !be_1, !N.mod_small by assumption. rewrite fit_exact by exact Ld.
      repeat split.
      constructor; [|exact F]. split; [exact Wt|]. right. cbn [o_datalen o_data]. repeat split; try assumption. lia.
Qed.

Lemma dec_opts_no_panic fuel : forall r, (length r <= fuel)%nat -> dec_opts fuel r <> Panic.
Proof.
  induction fuel as [|fuel IH]; intros r L; destruct r as [|t r1]; cbn [dec_opts length] in *;
    try discriminate; try lia.
  destruct (t =? 0).
  - specialize (IH r1 ltac:(lia)). destruct (dec_opts fuel r1); cbn [bind]; congruence.
  - destruct r1 as [|l r2]; [discriminate|]. cbn [length] in L.
    destruct (Nat.ltb (length r2) (N.to_nat l)) eqn:L2; [discriminate|]. apply Nat.ltb_ge in L2.
    rewrite takeP_ok by exact L2. cbn [bind].
    assert (L3 : (length (skipn (N.to_nat l) r2) <= fuel)%nat) by (rewrite skipn_length; lia).
    specialize (IH _ L3). destruct (dec_opts fuel (skipn (N.to_nat l) r2)); cbn [bind]; congruence.
Qed.

(** ------------------------------------------------------------ the extension header *)
Lemma base_dec_enc nh el body payload :
  nh < 256 -> el < 256 -> (length body + 2 = (N.to_nat el + 1) * 4)%nat ->
  extn_base_decode (be 1 nh ++ be 1 el ++ body ++ payload) = Ok (nh, el, body, payload).
Proof.
  intros Hn He L. unfold extn_base_decode.
  rewrite ltb_false by (rewrite !app_length, !be_length; lia).
  rewrite wordP_be_small by (pow256; lia). cbn [bind].
  rewrite wordP_be_small by (pow256; lia). cbn [bind].
  rewrite ltb_false by (rewrite !app_length, !be_length; lia).
  rewrite takeP_app' by lia. reflexivity.
Qed.

Lemma ext_dec_enc k e payload : wf_ext k e ->
  exists en, ext_encode k false e = Ok en /\
    ext_decode k (en ++ payload) = Ok (ext_canon false e, payload).
Proof.
  intros (Hn & Hb & Wo & Hl & He). unfold ext_encode. rewrite Hb.
  unfold ext_body_len in Hl.
  replace (Nat.eqb ((length (ser_opts false 2 (e_opts e)) + 2) mod 4) 0) with true.
  2:{ symmetry. apply Nat.eqb_eq. rewrite Hl. apply Nat.mod_mul. lia. }
  cbn [negb]. eexists. split; [reflexivity|].
  unfold ext_decode. rewrite <- !app_assoc. rewrite base_dec_enc by assumption. cbn [bind].
  rewrite Hb. rewrite ser_opts_nofix.
  rewrite dec_opts_enc by (try assumption; lia). reflexivity.
Qed.

Lemma ext_dec_enc_fix k e payload : wf_ext_fix k e ->
  exists en, ext_encode k true e = Ok en /\
    ext_decode k (en ++ payload) = Ok (ext_canon true e, payload) /\
    filter (fun o => negb (is_pad o)) (e_opts (ext_canon true e)) =
    map fix_opt (filter (fun o => negb (is_pad o)) (e_opts e)).
Proof.
  intros (Hn & Hb & Wo & Hmax).
  pose proof (ser_opts_fix_aligned (e_opts e) 2) as Al.
  unfold ext_body_len in Hmax.
  set (body := ser_opts true 2 (e_opts e)) in *.
  assert (Hmod : ((length body + 2) mod 4 = 0)%nat) by (rewrite Nat.add_comm; exact Al).
  pose proof (Nat.div_mod (length body + 2) 4 ltac:(lia)) as D. rewrite Hmod in D.
  set (q := ((length body + 2) / 4)%nat) in *.
  assert (Hq : (1 <= q <= 256)%nat) by lia.
  set (e' := mkExt (e_nexthdr e) (N.of_nat (q - 1)) (fix_opts 2 (e_opts e))).
  assert (Ebody : body = ser_opts false 2 (e_opts e')).
  { subst body e'. cbn [e_opts]. rewrite ser_opts_nofix. now apply ser_opts_fix. }
  assert (W' : wf_ext k e').
  { subst e'. split; [exact Hn|]. split; [exact Hb|]. split; [now apply fix_opts_wf|].
    unfold ext_body_len. cbn [e_opts e_extlen e_nexthdr]. cbn [e_opts] in Ebody. rewrite <- Ebody.
    split; lia. }
  destruct (ext_dec_enc k e' payload W') as (en & Een & Den).
  assert (Eenc : ext_encode k true e = ext_encode k false e').
  { unfold ext_encode. cbn [e_nexthdr e_opts e_extlen]. fold body. cbn [e_opts] in Ebody.
    rewrite <- Ebody. fold q. reflexivity. }
  exists en. split; [now rewrite Eenc|].
  assert (Ecanon : ext_canon true e = ext_canon false e').
  { unfold ext_canon, ext_body_len. fold body. fold q. subst e'. cbn [e_nexthdr e_extlen e_opts].
    rewrite canon_fix_opts. f_equal. apply N.mod_small. lia. }
  rewrite Ecanon. split; [exact Den|].
  unfold ext_canon. subst e'. cbn [e_opts]. rewrite canon_fix_opts. apply fix_opts_keeps.
Qed.

Lemma base_enc_dec bs nh el ob payload : wf_bytes bs ->
  extn_base_decode bs = Ok (nh, el, ob, payload) ->
  bs = be 1 nh ++ be 1 el ++ ob ++ payload /\ nh < 256 /\ el < 256 /\
  (length ob + 2 = (N.to_nat el + 1) * 4)%nat /\ wf_bytes ob /\ wf_bytes payload.
Proof.
  intros W. unfold extn_base_decode. destruct (Nat.ltb (length bs) 2); [discriminate|].
  do 2 inv_word.
  match goal with |- context [Nat.ltb ?a ?b] => destruct (Nat.ltb a b) eqn:L; [discriminate|] end.
  apply Nat.ltb_ge in L. inv_take.
  intros H; injection H as <- <- <- <-. pow256. repeat split; try assumption. lia.
Qed.

Lemma ext_enc_dec k bs e payload : wf_bytes bs -> ext_decode k bs = Ok (e, payload) ->
  ext_encode k false e = Ok (firstn (length bs - length payload) bs) /\
  firstn (length bs - length payload) bs ++ payload = bs /\
  wf_ext k e /\ wf_bytes payload /\ ext_canon false e = e /\
  length bs = ((N.to_nat (e_extlen e) + 1) * 4 + length payload)%nat.
Proof.
  intros W. unfold ext_decode.
  destruct (extn_base_decode bs) as [[[[nh el] ob] pl]| |] eqn:Eb; cbn [bind]; try discriminate.
  destruct (base_enc_dec _ _ _ _ _ W Eb) as (-> & Hn & He & Hl & Wob & Wpl).
  destruct (bad_nexthdr k nh) eqn:Ebad; [discriminate|].
  destruct (dec_opts (length ob) ob) as [os| |] eqn:Ed; cbn [bind]; try discriminate.
  intros H; injection H as <- <-.
  destruct (dec_opts_inv _ _ _ Wob Ed) as (C & F & K).
  assert (Efirst : firstn (length (be 1 nh ++ be 1 el ++ ob ++ pl) - length pl)
                          (be 1 nh ++ be 1 el ++ ob ++ pl) = be 1 nh ++ be 1 el ++ ob).
  { replace (be 1 nh ++ be 1 el ++ ob ++ pl) with ((be 1 nh ++ be 1 el ++ ob) ++ pl)
      by (now rewrite <- !app_assoc).
    rewrite app_length. replace (length (be 1 nh ++ be 1 el ++ ob) + length pl - length pl)%nat
      with (length (be 1 nh ++ be 1 el ++ ob)) by lia.
    now rewrite firstn_app_exact. }
  rewrite Efirst.
  assert (Wf : wf_ext k (mkExt nh el os)).
  { split; [exact Hn|]. split; [exact Ebad|]. split; [exact F|].
    unfold ext_body_len. cbn [e_opts e_extlen]. rewrite ser_opts_nofix, C. split; assumption. }
  split.
  { unfold ext_encode. cbn [e_nexthdr e_opts e_extlen]. rewrite Ebad.
    rewrite ser_opts_nofix, C.
    replace (Nat.eqb ((length ob + 2) mod 4) 0) with true
      by (symmetry; apply Nat.eqb_eq; rewrite Hl; apply Nat.mod_mul; lia).
    reflexivity. }
  split; [now rewrite <- !app_assoc|]. split; [exact Wf|]. split; [exact Wpl|].
  split; [unfold ext_canon; cbn [e_nexthdr e_extlen e_opts]; now rewrite K|].
  cbn [e_extlen]. rewrite !app_length, !be_length. lia.
Qed.

Lemma base_no_panic bs : extn_base_decode bs <> Panic.
Proof.
  unfold extn_base_decode. destruct (Nat.ltb (length bs) 2) eqn:L; [discriminate|].
  apply Nat.ltb_ge in L. do 2 (np_word lia).
  match goal with |- context [Nat.ltb ?a ?b] => destruct (Nat.ltb a b) eqn:L2; [discriminate|] end.
  apply Nat.ltb_ge in L2. np_take lia. discriminate.
Qed.

Lemma base_ob_length bs nh el ob pl : extn_base_decode bs = Ok (nh, el, ob, pl) ->
  (length ob <= length bs)%nat.
Proof.
  unfold extn_base_decode. destruct (Nat.ltb (length bs) 2); [discriminate|].
  destruct (wordP 1 bs) as [[a r]| |] eqn:E1; cbn [bind]; try discriminate.
  destruct (wordP 1 r) as [[b r']| |] eqn:E2; cbn [bind]; try discriminate.
  match goal with |- context [Nat.ltb ?a ?b] => destruct (Nat.ltb a b); [discriminate|] end.
  destruct (takeP _ r') as [[o p]| |] eqn:E3; cbn [bind]; try discriminate.
  intros H; injection H as <- <- <- <-.
  apply wordP_rest_length in E1, E2. apply takeP_inv in E3 as [-> L3]. rewrite app_length in *. lia.
Qed.

Lemma ext_no_panic k bs : ext_decode k bs <> Panic.
Proof.
  unfold ext_decode. pose proof (base_no_panic bs).
  destruct (extn_base_decode bs) as [[[[nh el] ob] pl]| |]; cbn [bind]; try congruence.
  destruct (bad_nexthdr k nh); [discriminate|].
  pose proof (dec_opts_no_panic (length ob) ob (le_n _)).
  destruct (dec_opts (length ob) ob); cbn [bind]; congruence.
Qed.

Lemma ext_skip_no_panic k bs : ext_skip_decode k bs <> Panic.
Proof.
  unfold ext_skip_decode. pose proof (base_no_panic bs).
  destruct (extn_base_decode bs) as [[[[nh el] ob] pl]| |]; cbn [bind]; try congruence.
  destruct (bad_nexthdr k nh); discriminate.
Qed.

(** ExtLen announcing more bytes than there are is rejected *)
Lemma ext_reject_overlong k bs : wf_bytes bs -> ext_overlong bs = true -> ext_decode k bs = Err.
Proof.
  intros W H. unfold ext_overlong in H. apply andb_true_iff in H as [H2 H]. apply Nat.leb_le in H2.
  apply Nat.ltb_lt in H. unfold ext_decode, extn_base_decode. rewrite ltb_false by lia.
  destruct (wordP 1 bs) as [[nh r]| |] eqn:E1; cbn [bind].
  2:{ now apply wordP_not_err in E1. }
  2:{ apply wordP_panic in E1. lia. }
  apply (wordP_inv _ _ _ _ W) in E1 as (-> & Hn & W1).
  destruct (wordP 1 r) as [[el r']| |] eqn:E2; cbn [bind].
  2:{ now apply wordP_not_err in E2. }
  2:{ apply wordP_panic in E2. rewrite app_length, be_length in H2. lia. }
  apply (wordP_inv _ _ _ _ W1) in E2 as (-> & He & W2).
  rewrite !be_1 in H. cbn [app nth] in H. pow256. rewrite N.mod_small in H by lia.
  rewrite !be_1. cbn [app]. cbn [app length] in H. rewrite ltb_true; [reflexivity|].
  cbn [length]. lia.
Qed.

(** ------------------------------------------------------------ packet authenticator option *)
Lemma spao_dec_enc p : wf_spao p ->
  exists o, spao_to_opt p = Ok o /\ spao_of_opt o = Ok p /\ o_type o = opt_type_auth.
Proof.
  intros (Hs & Ha & Ht & Wa). unfold spao_to_opt.
  replace (2 ^ 48 <=? sp_ts p) with false by (symmetry; apply N.leb_gt; exact Ht).
  eexists. split; [reflexivity|]. split; [|reflexivity].
  unfold spao_of_opt. cbn [o_type o_data]. change (opt_type_auth =? opt_type_auth) with true.
  cbn [negb]. rewrite ltb_false by (rewrite !app_length, !be_length; unfold spao_meta_len; lia).
  change (2 ^ 32) with 4294967296 in Hs. change (2 ^ 48) with 281474976710656 in Ht.
  rewrite wordP_be_small by (pow256; lia). cbn [bind].
  rewrite wordP_be_small by (pow256; lia). cbn [bind].
  rewrite wordP_be_small by (pow256; lia). cbn [bind].
  rewrite wordP_be_small by (pow256; lia). cbn [bind].
  destruct p; reflexivity.
Qed.

Lemma spao_enc_dec o p : wf_bytes (o_data o) -> spao_of_opt o = Ok p ->
  exists o', spao_to_opt p = Ok o' /\ o_data o' = mask_spao (o_data o) /\ wf_spao p /\
             o_type o' = o_type o.
Proof.
  intros W. unfold spao_of_opt.
  destruct (o_type o =? opt_type_auth) eqn:Et; [|discriminate]. cbn [negb].
  destruct (Nat.ltb (length (o_data o)) spao_meta_len); [discriminate|].
  set (d := o_data o) in *. clearbody d.
  do 4 inv_word. intros H; injection H as <-.
  change (256 ^ N.of_nat 6) with 281474976710656 in *. pow256.
  unfold spao_to_opt. cbn [sp_ts sp_spi sp_alg sp_auth].
  change (2 ^ 48) with 281474976710656.
  replace (281474976710656 <=? n2) with false by (symmetry; apply N.leb_gt; lia).
  eexists. split; [reflexivity|]. cbn [o_data o_type]. split; [| split].
  - unfold mask_spao.
    replace (be 4 n ++ be 1 n0 ++ be 1 n1 ++ be 6 n2 ++ r0)
      with ((be 4 n ++ be 1 n0) ++ be 1 n1 ++ be 6 n2 ++ r0) by (now rewrite <- !app_assoc).
    rewrite firstn_app_exact by (rewrite app_length, !be_length; reflexivity).
    replace ((be 4 n ++ be 1 n0) ++ be 1 n1 ++ be 6 n2 ++ r0)
      with ((be 4 n ++ be 1 n0 ++ be 1 n1) ++ be 6 n2 ++ r0) by (now rewrite <- !app_assoc).
    rewrite skipn_app_exact by (rewrite !app_length, !be_length; reflexivity).
    rewrite !be_1. rewrite <- !app_assoc. reflexivity.
  - unfold wf_spao. cbn [sp_ts sp_spi sp_alg sp_auth].
    change (2 ^ 32) with 4294967296. change (2 ^ 48) with 281474976710656. repeat split; try lia.
    assumption.
  - apply N.eqb_eq in Et. now rewrite Et.
Qed.

Lemma spao_no_panic o : spao_of_opt o <> Panic.
Proof.
  unfold spao_of_opt. destruct (negb (o_type o =? opt_type_auth)); [discriminate|].
  destruct (Nat.ltb (length (o_data o)) spao_meta_len) eqn:L; [discriminate|].
  apply Nat.ltb_ge in L. unfold spao_meta_len in L.
  do 4 (np_word lia). discriminate.
Qed.
