(** Lemmas about Model/Ring.v, part 2: the concurrent LTS. Every execution keeps
    a linearization log that (a) replays on the bounded FIFO, (b) respects the
    real-time order of the invocation/response stamps, (c) is a permutation of
    the completed history plus the calls past their critical section; and no
    thread is left waiting once its wait condition is false. *)
From Coq Require Import List NArith ZArith Bool Arith Lia ZifyBool ZifyN ZifyNat Permutation.
From Scion Require Import Lib.Check Model.Ring Proofs.Ring.
Import ListNotations.
Import Ring.

Definition linv (e : lrec) : N := h_inv (l_rec e).
Definition pc_inv (p : pc) : option N :=
  match p with Idle => None | Ready _ i _ | Waiting _ i | Done _ _ _ i _ => Some i end.
Definition rec_of o k got i r := {| h_op := o; h_k := k; h_got := got; h_inv := i; h_ret := r |}.
Definition pending o k got i := {| l_rec := rec_of o k got i 0; l_returned := false |}.

Definition Linearizable (c : nat) (f0 : fifo) (h : list hrec) : Prop :=
  exists l, Permutation l h /\ rt_ok l /\ exists f, spec_exec c f0 l = Some f.

(** ------------------------------------------------------------------ spec_exec *)
Lemma spec_exec_app c f l1 l2 :
  spec_exec c f (l1 ++ l2) =
  match spec_exec c f l1 with Some f' => spec_exec c f' l2 | None => None end.
Proof.
  revert f. induction l1 as [|e l1 IH]; intros f; [reflexivity|].
  cbn [app spec_exec]. destruct (step_rec c f e); [apply IH | reflexivity].
Qed.

Definition same_res (a b : hrec) : Prop := h_op a = h_op b /\ h_k a = h_k b /\ h_got a = h_got b.

Lemma step_rec_same c f a b : same_res a b -> step_rec c f a = step_rec c f b.
Proof. intros (E1 & E2 & E3). unfold step_rec. now rewrite E1, E2, E3. Qed.

Lemma spec_exec_map_same {A} c (g g' : A -> hrec) l :
  (forall e, same_res (g e) (g' e)) -> forall f, spec_exec c f (map g l) = spec_exec c f (map g' l).
Proof.
  intros H. induction l as [|e l IH]; intros f; [reflexivity|].
  cbn [map spec_exec]. rewrite (step_rec_same c f _ _ (H e)).
  destruct (step_rec c f (g' e)); [apply IH | reflexivity].
Qed.

Lemma cell_eqb_refl x : cell_eqb x x = true.
Proof. destruct x; cbn; [apply N.eqb_refl | reflexivity]. Qed.
Lemma got_eqb_refl l : got_eqb l l = true.
Proof. induction l as [|x l IH]; [reflexivity|]. cbn. now rewrite cell_eqb_refl. Qed.

Lemma cell_eqb_eq x y : cell_eqb x y = true -> x = y.
Proof. destruct x, y; cbn; intros H; try discriminate; [apply N.eqb_eq in H; now subst | reflexivity]. Qed.
Lemma got_eqb_eq a b : got_eqb a b = true -> a = b.
Proof.
  revert b. induction a as [|x a IH]; destruct b as [|y b]; cbn; intros H; try discriminate;
    [reflexivity|]. apply andb_true_iff in H as [H1 H2]. apply cell_eqb_eq in H1. apply IH in H2.
  now subst.
Qed.

Lemma step_rec_run r o r' k got bc i t :
  Inv r -> seq_full r o = (r', Ret k got, bc) ->
  step_rec (cap r) (abs_fifo r) (rec_of o k got i t) = Some (abs_fifo r') /\ Inv r' /\ cap r' = cap r.
Proof.
  intros HI E. assert (S := step_refines r o HI). rewrite E in S. destruct S as (I' & C' & S).
  split; [|split; assumption]. unfold step_rec. cbn [rec_of h_op h_k h_got]. rewrite S.
  now rewrite Z.eqb_refl, got_eqb_refl.
Qed.

(** ------------------------------------------------------------------ real-time order *)
Lemma rt_ok_snoc l x :
  rt_ok l -> (forall a, In a l -> (h_inv a < h_ret x)%N) -> (h_inv x < h_ret x)%N -> rt_ok (l ++ [x]).
Proof.
  induction l as [|a l IH]; intros R H Hx.
  - cbn. split; [|exact I]. constructor; [exact Hx | constructor].
  - cbn [app rt_ok] in *. destruct R as [F R]. split.
    + change (a :: l ++ [x]) with ((a :: l) ++ [x]). apply Forall_app. split; [exact F|].
      constructor; [|constructor]. apply H. now left.
    + apply IH; [exact R | | exact Hx]. intros b Hb. apply H. now right.
Qed.

Lemma rt_ok_map_mono {A} (g g' : A -> hrec) l :
  (forall e, In e l -> h_inv (g e) = h_inv (g' e) /\ (h_ret (g e) <= h_ret (g' e))%N) ->
  rt_ok (map g l) -> rt_ok (map g' l).
Proof.
  induction l as [|a l IH]; intros H R; [exact I|].
  cbn [map rt_ok] in *. destruct R as [F R]. split.
  - change (g' a :: map g' l) with (map g' (a :: l)).
    change (g a :: map g l) with (map g (a :: l)) in F.
    rewrite Forall_map in *. rewrite Forall_forall in *. intros b Hb.
    specialize (F b Hb). destruct (H a (or_introl eq_refl)) as [Ea _].
    destruct (H b Hb) as [_ Lb]. lia.
  - apply IH; [|exact R]. intros e He. apply H. now right.
Qed.

(** ------------------------------------------------------------------ marking *)
Lemma linv_mark i c e : linv (mark i c e) = linv e.
Proof.
  unfold mark, linv. destruct (N.eqb (h_inv (l_rec e)) i) eqn:E; [|reflexivity].
  cbn. apply N.eqb_eq in E. now rewrite E.
Qed.

Lemma map_linv_mark i c l : map linv (map (mark i c) l) = map linv l.
Proof. rewrite map_map. apply map_ext. intros. apply linv_mark. Qed.

Lemma mark_other i c e : linv e <> i -> mark i c e = e.
Proof. unfold mark, linv. intros H. destruct (N.eqb (h_inv (l_rec e)) i) eqn:E; [|reflexivity].
  apply N.eqb_eq in E. contradiction. Qed.

Lemma map_mark_absent i c l : ~ In i (map linv l) -> map (mark i c) l = l.
Proof.
  induction l as [|e l IH]; intros H; [reflexivity|]. cbn [map] in *.
  rewrite mark_other by (intros E; apply H; now left). f_equal. apply IH. intros X. apply H. now right.
Qed.

Lemma same_res_mark i c e : same_res (l_rec (mark i c e)) (l_rec e).
Proof. unfold mark. destruct (N.eqb _ _); repeat split. Qed.

Lemma perm_mark o k got i clk l :
  NoDup (map linv l) -> In (pending o k got i) l ->
  Permutation (map l_rec (filter l_returned (map (mark i clk) l)))
              (rec_of o k got i clk :: map l_rec (filter l_returned l)).
Proof.
  induction l as [|e l IH]; intros ND Hin; [destruct Hin|].
  cbn [map] in ND. inversion ND as [|? ? Hn ND']; subst.
  destruct Hin as [He | Hin].
  - subst e. cbn [map]. rewrite map_mark_absent by exact Hn.
    unfold mark at 1. cbn [pending l_rec rec_of h_inv]. rewrite N.eqb_refl.
    cbn [filter l_returned map l_rec h_op h_k h_got]. reflexivity.
  - assert (Hne : linv e <> i).
    { intros E. apply Hn. rewrite E. change i with (linv (pending o k got i)). now apply in_map. }
    cbn [map]. rewrite (mark_other i clk e Hne). cbn [filter].
    destruct (l_returned e); cbn [map].
    + rewrite (IH ND' Hin). apply perm_swap.
    + apply IH; assumption.
Qed.

Lemma perm_filter_split {A} (p : A -> bool) (l : list A) :
  Permutation l (filter p l ++ filter (fun x => negb (p x)) l).
Proof.
  induction l as [|x l IH]; [reflexivity|]. cbn [filter].
  destruct (p x); cbn [negb app].
  - now constructor.
  - apply Permutation_cons_app. exact IH.
Qed.

(** ------------------------------------------------------------------ guards *)
Lemma blocks_guard r o r1 c bc :
  seq_full r o = (r1, Blocks c, bc) -> guard r o = true.
Proof.
  destruct o as [es b | k b |]; cbn [seq_full guard]; intros E.
  - destruct ((0 <? length es) && (writable r =? 0) && negb (closed r)).
    + destruct b; [reflexivity | discriminate].
    + destruct (closed r); [discriminate|]. destruct (write_raw _ _ _). discriminate.
  - destruct ((0 <? k) && (readable r =? 0) && negb (closed r)).
    + destruct b; [reflexivity | discriminate].
    + destruct (closed r && (readable r =? 0)); [discriminate|].
      destruct (read_raw _ _ _) as [[? ?] ?]. discriminate.
  - discriminate.
Qed.

(** A waiter on a condition that a completed critical section does not
    broadcast still has a true wait condition afterwards. *)
Lemma guard_preserved r o r' k got bc o' :
  seq_full r o = (r', Ret k got, bc) -> guard r o' = true ->
  existsb (cond_eqb (cond_of o')) bc = false -> guard r' o' = true.
Proof.
  intros E G B.
  destruct o as [es b | n b |]; cbn [seq_full] in E.
  - destruct ((0 <? length es) && (writable r =? 0) && negb (closed r)).
    { destruct b; inversion E; subst; exact G. }
    destruct (closed r) eqn:Ec; [inversion E; subst; exact G|].
    destruct (write_raw _ _ _) as [l w]. inversion E; subst. clear E.
    destruct o' as [es' b' | n' b' |]; cbn [guard cond_of existsb cond_eqb] in *;
      cbn [set_ring writable readable closed]; try discriminate.
    lia.
  - destruct ((0 <? n) && (readable r =? 0) && negb (closed r)).
    { destruct b; inversion E; subst; exact G. }
    destruct (closed r && (readable r =? 0)); [inversion E; subst; exact G|].
    destruct (read_raw _ _ _) as [[l i] g]. inversion E; subst. clear E.
    destruct o' as [es' b' | n' b' |]; cbn [guard cond_of existsb cond_eqb] in *;
      cbn [set_ring writable readable closed]; try discriminate.
    lia.
  - inversion E; subst. destruct o'; cbn in B; discriminate.
Qed.

(** ------------------------------------------------------------------ the invariant *)
Record SysInv (c : nat) (f0 : fifo) (s : sys) : Prop := {
  si_inv : Inv (rg s);
  si_cap : cap (rg s) = c;
  si_spec : spec_exec c f0 (map l_rec (log s)) = Some (abs_fifo (rg s));
  si_clk : forall e, In e (log s) ->
             (linv e < clock s)%N /\ (l_returned e = true -> (h_ret (l_rec e) < clock s)%N);
  si_nodup : NoDup (map linv (log s));
  si_rt : rt_ok (map (close_rec (clock s)) (log s));
  si_thr : forall t,
    match thr s t with
    | Idle => True
    | Ready o i b => (i < clock s)%N /\ ~ In i (map linv (log s))
    | Waiting o i => (i < clock s)%N /\ ~ In i (map linv (log s)) /\ guard (rg s) o = true
    | Done o k got i b => (i < clock s)%N /\ In (pending o k got i) (log s)
    end;
  si_distinct : forall t u i j, t <> u -> pc_inv (thr s t) = Some i -> pc_inv (thr s u) = Some j -> i <> j;
  si_pending : forall e, In e (log s) -> l_returned e = false ->
                 exists t o k got b, thr s t = Done o k got (linv e) b;
  si_hist : Permutation (hist s) (map l_rec (filter l_returned (log s)))
}.

Lemma sysinv_init r : Inv r -> SysInv (cap r) (abs_fifo r) (init_sys r).
Proof.
  intros HI. constructor; cbn; try easy.
  - constructor.
Qed.

Lemma upd_same f t p : upd f t p t = p.
Proof. unfold upd. now rewrite Nat.eqb_refl. Qed.
Lemma upd_other f t p u : u <> t -> upd f t p u = f u.
Proof. unfold upd. intros H. apply Nat.eqb_neq in H. now rewrite H. Qed.

Lemma close_rec_inv clk e : h_inv (close_rec clk e) = linv e.
Proof. unfold close_rec, linv. destruct (l_returned e); reflexivity. Qed.

Lemma same_res_close clk e : same_res (close_rec clk e) (l_rec e).
Proof. unfold close_rec. destruct (l_returned e); repeat split. Qed.

Lemma pc_inv_wake cs f u : pc_inv (wake cs f u) = pc_inv (f u).
Proof. unfold wake. destruct (f u); try reflexivity. destruct (existsb _ cs); reflexivity. Qed.

Lemma NoDup_app_snoc {A} (l : list A) x : NoDup l -> ~ In x l -> NoDup (l ++ [x]).
Proof.
  intros ND H. apply NoDup_rev in ND. rewrite <- (rev_involutive (l ++ [x])).
  apply NoDup_rev. rewrite rev_app_distr. cbn. constructor; [|exact ND].
  intros X. apply H. now apply in_rev.
Qed.

Lemma lstep_inv c f0 s l s' : SysInv c f0 s -> lstep s l = Some s' -> SysInv c f0 s'.
Proof.
  intros SI E. destruct SI as [HI HC HS HK HN HR HT HD HP HH].
  destruct l as [t o | t | t | t]; unfold lstep in E; cbn [lstep_gen] in E.
  - (* call *)
    destruct (thr s t) eqn:Et; try discriminate. inversion E; subst; clear E.
    constructor; cbn [rg thr clock log hist]; try assumption; try reflexivity.
    + intros e He. destruct (HK e He). split; [lia|]. intros. specialize (H0 H1). lia.
    + revert HR. apply rt_ok_map_mono. intros e He. rewrite !close_rec_inv. split; [reflexivity|].
      unfold close_rec. destruct (l_returned e); cbn [h_ret]; lia.
    + intros u. destruct (Nat.eq_dec u t) as [->|Hu].
      * rewrite upd_same. split; [lia|]. intros X. apply in_map_iff in X as (e & E1 & E2).
        destruct (HK e E2). lia.
      * rewrite upd_other by exact Hu. specialize (HT u). destruct (thr s u); intuition lia.
    + intros u v i j Huv Hi Hj.
      assert (Fresh : forall w x, w <> t -> pc_inv (thr s w) = Some x -> (x < clock s)%N).
      { intros w x _ Hx. specialize (HT w). destruct (thr s w); cbn in Hx; inversion Hx; subst;
          intuition. }
      destruct (Nat.eq_dec u t) as [->|Hu]; destruct (Nat.eq_dec v t) as [->|Hv]; try contradiction.
      * rewrite upd_same in Hi. rewrite upd_other in Hj by exact Hv. cbn in Hi. inversion Hi; subst.
        specialize (Fresh v j Hv Hj). lia.
      * rewrite upd_same in Hj. rewrite upd_other in Hi by exact Hu. cbn in Hj. inversion Hj; subst.
        specialize (Fresh u i Hu Hi). lia.
      * rewrite upd_other in Hi, Hj by assumption. exact (HD u v i j Huv Hi Hj).
    + intros e He Hr. destruct (HP e He Hr) as (u & o' & k & got & b & Eu).
      exists u, o', k, got, b. rewrite upd_other; [exact Eu|]. intros ->. rewrite Et in Eu. discriminate.
  - (* run *)
    destruct (thr s t) as [|o i b| |] eqn:Et; try discriminate.
    assert (Ht := HT t). rewrite Et in Ht. destruct Ht as [Hi Hni].
    destruct (seq_full (rg s) o) as [[r' x] bc] eqn:Es.
    destruct x as [k got | cnd].
    + (* the critical section completes *)
      inversion E; subst; clear E.
      destruct (step_rec_run (rg s) o r' k got bc i 0%N HI Es) as (S1 & I' & C').
      assert (Hfil : filter (fun _ : cond => true) bc = bc).
      { clear. induction bc; [reflexivity|]. cbn. now f_equal. }
      rewrite Hfil.
      constructor; cbn [rg thr clock log hist].
      * exact I'.
      * congruence.
      * rewrite map_app, spec_exec_app, HS. cbn [map spec_exec l_rec].
        fold (rec_of o k got i 0%N). rewrite S1. reflexivity.
      * intros e He. apply in_app_iff in He as [He|[<-|[]]]; [now apply HK|].
        split; [exact Hi|]. cbn. discriminate.
      * rewrite map_app. cbn [map]. apply NoDup_app_snoc; [exact HN | exact Hni].
      * rewrite map_app. cbn [map]. apply rt_ok_snoc; [exact HR| |].
        -- intros a Ha. apply in_map_iff in Ha as (e & <- & He). rewrite close_rec_inv.
           cbn. destruct (HK e He). exact H.
        -- cbn. exact Hi.
      * intros u. unfold wake. destruct (Nat.eq_dec u t) as [->|Hu].
        -- rewrite upd_same. split; [exact Hi|]. apply in_app_iff. right. now left.
        -- rewrite upd_other by exact Hu. specialize (HT u).
           assert (Hne : forall j, pc_inv (thr s u) = Some j -> j <> i).
           { intros j Hj. apply (HD u t j i Hu Hj). now rewrite Et. }
           destruct (thr s u) as [|o' j b'|o' j|o' k' got' j b'] eqn:Eu.
           ++ exact I.
           ++ destruct HT as [H1 H2]. split; [exact H1|]. rewrite map_app, in_app_iff. cbn.
              intros [X|[X|[]]]; [now apply H2|]. apply (Hne j eq_refl). now symmetry.
           ++ destruct HT as (H1 & H2 & H3).
              assert (Hnl : ~ In j (map linv (log s ++ [pending o k got i]))).
              { rewrite map_app, in_app_iff. cbn.
                intros [X|[X|[]]]; [now apply H2|]. apply (Hne j eq_refl). now symmetry. }
              destruct (existsb (cond_eqb (cond_of o')) bc) eqn:Eb.
              ** split; [exact H1 | exact Hnl].
              ** split; [exact H1|]. split; [exact Hnl|]. eapply guard_preserved; eauto.
           ++ destruct HT as [H1 H2]. split; [exact H1|]. apply in_app_iff. now left.
      * intros u v iu iv Huv Hu Hv. rewrite pc_inv_wake in Hu, Hv.
        destruct (Nat.eq_dec u t) as [->|Hut]; destruct (Nat.eq_dec v t) as [->|Hvt]; try contradiction.
        -- rewrite upd_same in Hu. rewrite upd_other in Hv by exact Hvt. cbn in Hu. inversion Hu; subst.
           apply (HD t v iu iv Huv); [now rewrite Et | exact Hv].
        -- rewrite upd_same in Hv. rewrite upd_other in Hu by exact Hut. cbn in Hv. inversion Hv; subst.
           apply (HD u t iu iv Huv); [exact Hu | now rewrite Et].
        -- rewrite upd_other in Hu, Hv by assumption. exact (HD u v iu iv Huv Hu Hv).
      * intros e He Hr. apply in_app_iff in He as [He|[<-|[]]].
        -- destruct (HP e He Hr) as (u & o' & k' & got' & b' & Eu).
           exists u, o', k', got', b'. unfold wake. rewrite upd_other; [now rewrite Eu|].
           intros ->. rewrite Et in Eu. discriminate.
        -- exists t, o, k, got, b. unfold wake. rewrite upd_same. reflexivity.
      * rewrite filter_app. cbn [filter l_returned]. rewrite app_nil_r. exact HH.
    + (* the call waits *)
      inversion E; subst; clear E.
      constructor; cbn [rg thr clock log hist]; try assumption; try reflexivity.
      * intros u. destruct (Nat.eq_dec u t) as [->|Hu].
        -- rewrite upd_same. split; [exact Hi|]. split; [exact Hni|]. eapply blocks_guard; eauto.
        -- rewrite upd_other by exact Hu. apply HT.
      * intros u v iu iv Huv Hu Hv.
        destruct (Nat.eq_dec u t) as [->|Hut]; destruct (Nat.eq_dec v t) as [->|Hvt]; try contradiction.
        -- rewrite upd_same in Hu. rewrite upd_other in Hv by exact Hvt. cbn in Hu. inversion Hu; subst.
           apply (HD t v iu iv Huv); [now rewrite Et | exact Hv].
        -- rewrite upd_same in Hv. rewrite upd_other in Hu by exact Hut. cbn in Hv. inversion Hv; subst.
           apply (HD u t iu iv Huv); [exact Hu | now rewrite Et].
        -- rewrite upd_other in Hu, Hv by assumption. exact (HD u v iu iv Huv Hu Hv).
      * intros e He Hr. destruct (HP e He Hr) as (u & o' & k' & got' & b' & Eu).
        exists u, o', k', got', b'. rewrite upd_other; [exact Eu|].
        intros ->. rewrite Et in Eu. discriminate.
  - (* spurious wake-up *)
    destruct (thr s t) as [| |o i|] eqn:Et; try discriminate.
    inversion E; subst; clear E.
    assert (Ht := HT t). rewrite Et in Ht. destruct Ht as (Hi & Hni & _).
    constructor; cbn [rg thr clock log hist]; try assumption; try reflexivity.
    + intros u. destruct (Nat.eq_dec u t) as [->|Hu].
      * rewrite upd_same. split; assumption.
      * rewrite upd_other by exact Hu. apply HT.
    + intros u v iu iv Huv Hu Hv.
      destruct (Nat.eq_dec u t) as [->|Hut]; destruct (Nat.eq_dec v t) as [->|Hvt]; try contradiction.
      * rewrite upd_same in Hu. rewrite upd_other in Hv by exact Hvt. cbn in Hu. inversion Hu; subst.
        apply (HD t v iu iv Huv); [now rewrite Et | exact Hv].
      * rewrite upd_same in Hv. rewrite upd_other in Hu by exact Hut. cbn in Hv. inversion Hv; subst.
        apply (HD u t iu iv Huv); [exact Hu | now rewrite Et].
      * rewrite upd_other in Hu, Hv by assumption. exact (HD u v iu iv Huv Hu Hv).
    + intros e He Hr. destruct (HP e He Hr) as (u & o' & k' & got' & b' & Eu).
      exists u, o', k', got', b'. rewrite upd_other; [exact Eu|].
      intros ->. rewrite Et in Eu. discriminate.
  - (* return *)
    destruct (thr s t) as [| | |o k got i b] eqn:Et; try discriminate.
    inversion E; subst; clear E.
    assert (Ht := HT t). rewrite Et in Ht. destruct Ht as [Hi Hin].
    constructor; cbn [rg thr clock log hist]; try assumption; try reflexivity.
    + rewrite map_map.
      rewrite (spec_exec_map_same _ (fun e => l_rec (mark i (clock s) e)) l_rec (log s)
                 (same_res_mark i (clock s))). exact HS.
    + intros e He. apply in_map_iff in He as (e0 & <- & He0). rewrite linv_mark.
      destruct (HK e0 He0) as [K1 K2]. split; [lia|].
      unfold mark. destruct (N.eqb (h_inv (l_rec e0)) i); cbn [l_returned l_rec h_ret]; [lia|]. intros X. specialize (K2 X). lia.
    + rewrite map_linv_mark. exact HN.
    + rewrite map_map. revert HR. apply rt_ok_map_mono. intros e He.
      rewrite !close_rec_inv, linv_mark. split; [reflexivity|].
      destruct (HK e He) as [K1 K2].
      unfold mark. destruct (N.eqb (h_inv (l_rec e)) i) eqn:Em; unfold close_rec; cbn [l_returned l_rec h_ret].
      * destruct (l_returned e); cbn [h_ret]; [specialize (K2 eq_refl); lia | lia].
      * destruct (l_returned e); cbn [h_ret]; lia.
    + intros u. destruct (Nat.eq_dec u t) as [->|Hu].
      * rewrite upd_same. exact I.
      * rewrite upd_other by exact Hu. specialize (HT u). rewrite map_linv_mark.
        destruct (thr s u) as [|o' j b'|o' j|o' k' got' j b'] eqn:Eu.
        -- exact I.
        -- destruct HT. split; [lia | assumption].
        -- destruct HT as (?&?&?). split; [lia|]. split; assumption.
        -- destruct HT as [H1 H2]. split; [lia|].
           assert (Hne : j <> i). { apply (HD u t j i Hu); [now rewrite Eu | now rewrite Et]. }
           rewrite <- (mark_other i (clock s) (pending o' k' got' j)) by exact Hne.
           now apply in_map.
    + intros u v iu iv Huv Hu Hv.
      destruct (Nat.eq_dec u t) as [->|Hut]; [rewrite upd_same in Hu; discriminate|].
      destruct (Nat.eq_dec v t) as [->|Hvt]; [rewrite upd_same in Hv; discriminate|].
      rewrite upd_other in Hu, Hv by assumption. exact (HD u v iu iv Huv Hu Hv).
    + intros e He Hr. apply in_map_iff in He as (e0 & <- & He0). rewrite linv_mark.
      assert (Hne : linv e0 <> i).
      { intros X. unfold mark in Hr. unfold linv in X. rewrite X, N.eqb_refl in Hr. discriminate. }
      rewrite (mark_other _ _ _ Hne) in Hr.
      destruct (HP e0 He0 Hr) as (u & o' & k' & got' & b' & Eu).
      exists u, o', k', got', b'. rewrite upd_other; [exact Eu|].
      intros ->. rewrite Et in Eu. inversion Eu. congruence.
    + rewrite (perm_mark o k got i (clock s) (log s) HN Hin).
      rewrite <- HH. symmetry. apply Permutation_cons_append.
Qed.

Lemma lrun_inv c f0 tr : forall s s', SysInv c f0 s -> lrun s tr = Some s' -> SysInv c f0 s'.
Proof.
  induction tr as [|l tr IH]; intros s s' SI E; unfold lrun in *; cbn [lrun_gen] in E.
  - now inversion E; subst.
  - destruct (lstep_gen (fun _ _ => true) s l) as [s1|] eqn:E1; [|discriminate].
    eapply IH; [|exact E]. eapply lstep_inv; eauto.
Qed.

(** ------------------------------------------------------------------ consequences *)
Theorem lts_linearization r tr s :
  Inv r -> lrun (init_sys r) tr = Some s ->
  let l := map (close_rec (clock s)) (log s) in
  spec_exec (cap r) (abs_fifo r) l = Some (abs_fifo (rg s)) /\
  rt_ok l /\
  Permutation l (hist s ++ map (close_rec (clock s)) (filter (fun e => negb (l_returned e)) (log s))).
Proof.
  intros HI E. assert (SI := lrun_inv _ _ tr _ _ (sysinv_init r HI) E).
  destruct SI as [_ _ HS _ _ HR _ _ _ HH]. cbv zeta. split; [|split].
  - rewrite (spec_exec_map_same _ (close_rec (clock s)) l_rec (log s) (same_res_close (clock s))).
    exact HS.
  - exact HR.
  - rewrite (perm_filter_split l_returned (log s)) at 1. rewrite map_app.
    apply Permutation_app; [|reflexivity].
    rewrite HH. clear. induction (log s) as [|e l IH]; [reflexivity|]. cbn [filter].
    destruct (l_returned e) eqn:Er; [|exact IH]. cbn [map]. unfold close_rec at 1. rewrite Er.
    now constructor.
Qed.

(** no call is past its critical section without having returned *)
Definition quiescent (s : sys) : Prop := forall t o k got i b, thr s t <> Done o k got i b.

Theorem lts_linearizable r tr s :
  Inv r -> lrun (init_sys r) tr = Some s -> quiescent s ->
  Linearizable (cap r) (abs_fifo r) (hist s).
Proof.
  intros HI E Q. assert (SI := lrun_inv _ _ tr _ _ (sysinv_init r HI) E).
  destruct (lts_linearization r tr s HI E) as (S & R & P).
  exists (map (close_rec (clock s)) (log s)). split; [|split; [exact R | eauto]].
  rewrite P.
  assert (N : filter (fun e => negb (l_returned e)) (log s) = []).
  { destruct SI as [_ _ _ _ _ _ _ _ HP _].
    assert (F : forall e, In e (log s) -> l_returned e = true).
    { intros e He. destruct (l_returned e) eqn:Er; [reflexivity|].
      destruct (HP e He Er) as (t & o & k & got & b & Et). exfalso. eapply Q; eauto. }
    revert F. clear. induction (log s) as [|e l IH]; intros F; [reflexivity|].
    cbn [filter]. rewrite (F e (or_introl eq_refl)). cbn [negb]. apply IH. intros. apply F. now right. }
  rewrite N. cbn [map]. now rewrite app_nil_r.
Qed.

Theorem lts_no_lost_wakeup r tr s :
  Inv r -> lrun (init_sys r) tr = Some s ->
  forall t, stuck s t = false.
Proof.
  intros HI E t. assert (SI := lrun_inv _ _ tr _ _ (sysinv_init r HI) E).
  destruct SI as [_ _ _ _ _ _ HT _ _ _]. specialize (HT t). unfold stuck.
  destruct (thr s t); try reflexivity. destruct HT as (_ & _ & G). now rewrite G.
Qed.

(** in particular nobody sleeps on a closed ring, nor a reader while entries are
    stored, nor a writer while space is free *)
Corollary lts_waiting_means r tr s t o i :
  Inv r -> lrun (init_sys r) tr = Some s -> thr s t = Waiting o i ->
  closed (rg s) = false /\
  match o with
  | Write _ _ => writable (rg s) = 0
  | Read _ _ => readable (rg s) = 0
  | Close => False end.
Proof.
  intros HI E Et. assert (S := lts_no_lost_wakeup r tr s HI E t). unfold stuck in S.
  rewrite Et in S. apply negb_false_iff in S.
  destruct o as [es b|k b|]; cbn [guard] in S; [| |discriminate];
    repeat (apply andb_true_iff in S as [S ?]); bools;
    (split; [now apply negb_true_iff|assumption]).
Qed.
