(** C41 — abstract description of a genuine frame stream (what the sender's
    frames look like) and basic facts about IP length fields and the header.

    A genuine frame is either a pure continuation of a packet that neither
    starts nor ends in it ([GMid]), or a general frame ([GGen]): the rest of the
    carried packet (if any), then complete packets, then possibly the beginning
    of a packet that does not fit.  The carry between frames is the packet under
    way and the number of its bytes already sent. *)
From Coq Require Import List Arith NArith Bool Lia.
From Coq Require Import ZifyBool ZifyN ZifyNat.
From Scion Require Import Lib.Bytes Lib.Check Model.GwFrame.
Import ListNotations.
Import GwFrame.
Local Open Scope nat_scope.

Definition carry := option (bytes * nat).

Inductive gframe :=
| GMid (seq : N) (P : bytes) (n : nat)
| GGen (seq : N) (cin : carry) (pkts : list bytes) (cout : carry).

Definition pre_of (c : carry) : bytes :=
  match c with None => [] | Some (P, n) => skipn n P end.
Definition post_of (c : carry) : bytes :=
  match c with None => [] | Some (Q, k) => firstn k Q end.
Definition carry_pkt (c : carry) : list bytes :=
  match c with None => [] | Some (P, _) => [P] end.

Section Room.
Variable room : nat.     (* mtu - 16 *)

Definition g_seq (g : gframe) : N :=
  match g with GMid s _ _ => s | GGen s _ _ _ => s end.
Definition g_cin (g : gframe) : carry :=
  match g with GMid _ P n => Some (P, n) | GGen _ c _ _ => c end.
Definition g_cout (g : gframe) : carry :=
  match g with GMid _ P n => Some (P, n + room) | GGen _ _ _ c => c end.
Definition g_payload (g : gframe) : bytes :=
  match g with
  | GMid _ P n => firstn room (skipn n P)
  | GGen _ cin pkts cout => pre_of cin ++ concat pkts ++ post_of cout
  end.
Definition g_index (g : gframe) : N :=
  match g with
  | GMid _ _ _ => no_index
  | GGen _ cin pkts cout =>
    match pkts, cout with
    | [], None => no_index
    | _, _ => N.of_nat (length (pre_of cin))
    end
  end.
Definition g_bytes (sess stream : N) (g : gframe) : bytes :=
  header sess (g_index g) stream (g_seq g) ++ g_payload g.

(** packets completed in a frame / packets begun in a frame *)
Definition g_done (g : gframe) : list bytes :=
  match g with GMid _ _ _ => [] | GGen _ cin pkts _ => carry_pkt cin ++ pkts end.
Definition g_started (g : gframe) : list bytes :=
  match g with GMid _ _ _ => [] | GGen _ _ pkts cout => pkts ++ carry_pkt cout end.

Definition carry_ok (c : carry) : Prop :=
  match c with None => True | Some (P, n) => valid_pkt P = true /\ 0 < n < length P end.

Definition g_wf (g : gframe) : Prop :=
  match g with
  | GMid _ P n => valid_pkt P = true /\ 0 < n /\ n + room < length P
  | GGen _ cin pkts cout =>
    carry_ok cin /\ Forall (fun p => valid_pkt p = true) pkts /\
    match cout with None => True | Some (Q, k) => valid_pkt Q = true /\ 40 <= k < length Q end /\
    length (pre_of cin ++ concat pkts ++ post_of cout) <= room
  end.

(** a stream of frames: well-formed, consecutive sequence numbers, carries linked *)
Inductive chain_from : carry -> N -> list gframe -> carry -> Prop :=
| ch_nil c s : chain_from c s [] c
| ch_cons g G c' : g_wf g -> chain_from (g_cout g) (g_seq g + 1)%N G c' ->
                   chain_from (g_cin g) (g_seq g) (g :: G) c'.

Lemma chain_from_cons_inv c s g G c' : chain_from c s (g :: G) c' ->
  c = g_cin g /\ s = g_seq g /\ g_wf g /\ chain_from (g_cout g) (g_seq g + 1)%N G c'.
Proof. intros H. inversion H; subst. auto. Qed.

Lemma chain_from_nil_inv c s c' : chain_from c s [] c' -> c' = c.
Proof. intros H. inversion H; subst. reflexivity. Qed.

Lemma chain_from_app G1 : forall c s G2 c',
  chain_from c s (G1 ++ G2) c' <->
  exists cm, chain_from c s G1 cm /\ chain_from cm (s + N.of_nat (length G1))%N G2 c'.
Proof.
  induction G1 as [|g G1 IH]; intros c s G2 c'; cbn [app length].
  - split.
    + intros H. exists c. split; [constructor|]. now replace (s + N.of_nat 0)%N with s by lia.
    + intros (cm & H1 & H2). apply chain_from_nil_inv in H1. subst cm.
      now replace (s + N.of_nat 0)%N with s in H2 by lia.
  - split.
    + intros H. apply chain_from_cons_inv in H as (-> & -> & W & H).
      apply IH in H as (cm & H1 & H2).
      exists cm. split; [now constructor|].
      now replace (g_seq g + N.of_nat (S (length G1)))%N with (g_seq g + 1 + N.of_nat (length G1))%N by lia.
    + intros (cm & H1 & H2). apply chain_from_cons_inv in H1 as (-> & -> & W & H1).
      constructor; [assumption|].
      apply IH. exists cm. split; [assumption|].
      now replace (g_seq g + 1 + N.of_nat (length G1))%N with (g_seq g + N.of_nat (S (length G1)))%N by lia.
Qed.

Lemma chain_from_wf c s G c' : chain_from c s G c' -> Forall g_wf G.
Proof. induction 1; constructor; assumption. Qed.

Lemma chain_from_head c s g G c' : chain_from c s (g :: G) c' -> g_cin g = c /\ g_seq g = s /\ g_wf g.
Proof. intros H. apply chain_from_cons_inv in H as (-> & -> & W & _). auto. Qed.

Lemma chain_from_seq c s G c' : chain_from c s G c' ->
  forall i g, nth_error G i = Some g -> g_seq g = (s + N.of_nat i)%N.
Proof.
  induction 1 as [|g G c' W H IH]; intros i x E.
  - destruct i; discriminate.
  - destruct i as [|i]; cbn in E.
    + inversion E; subst. lia.
    + apply IH in E. lia.
Qed.

Lemma chain_from_seq_lt c s G c' : chain_from c s G c' ->
  forall g, In g G -> (s <= g_seq g < s + N.of_nat (length G))%N.
Proof.
  intros H g Hin. apply In_nth_error in Hin as (i & E).
  pose proof (chain_from_seq _ _ _ _ H i g E) as S.
  assert (i < length G) by (apply nth_error_Some; congruence). lia.
Qed.

(** accounting: packets begun = packets completed, up to the carries at both ends *)
Lemma chain_from_account c s G c' : chain_from c s G c' ->
  carry_pkt c ++ concat (map g_started G) = concat (map g_done G) ++ carry_pkt c'.
Proof.
  induction 1 as [c s|g G c' W H IH]; cbn [map concat].
  - now rewrite app_nil_r.
  - rewrite <- app_assoc, <- IH. destruct g as [sq P n|sq cin pkts cout]; cbn; [reflexivity|].
    now rewrite <- !app_assoc.
Qed.

(** runs of pure continuation frames *)
Fixpoint mk_mids (s : N) (Q : bytes) (n : nat) (m : nat) : list gframe :=
  match m with
  | O => []
  | S m' => GMid s Q n :: mk_mids (s + 1)%N Q (n + room) m'
  end.

Lemma mk_mids_length s Q n m : length (mk_mids s Q n m) = m.
Proof. revert s n; induction m as [|m IH]; intros s n; cbn; [reflexivity|now rewrite IH]. Qed.

Lemma mk_mids_snoc m : forall s Q n,
  mk_mids s Q n (S m) = mk_mids s Q n m ++ [GMid (s + N.of_nat m)%N Q (n + m * room)].
Proof.
  induction m as [|m IH]; intros s Q n.
  - cbn. now replace (s + 0)%N with s by lia; replace (n + 0) with n by lia.
  - change (mk_mids s Q n (S (S m))) with (GMid s Q n :: mk_mids (s + 1)%N Q (n + room) (S m)).
    rewrite IH. cbn [mk_mids app]. f_equal. f_equal.
    replace (s + 1 + N.of_nat m)%N with (s + N.of_nat (S m))%N by lia.
    replace (n + room + m * room) with (n + S m * room) by lia. reflexivity.
Qed.

Definition is_mid (g : gframe) : bool := match g with GMid _ _ _ => true | _ => false end.

Lemma mk_mids_all_mid s Q n m : forallb is_mid (mk_mids s Q n m) = true.
Proof. revert s n; induction m as [|m IH]; intros s n; cbn; auto. Qed.

(** what a chain says about a run of continuation frames after carry (Q, n) *)
Lemma chain_mids m : forall s Q n G c',
  chain_from (Some (Q, n)) s (mk_mids s Q n m ++ G) c' ->
  chain_from (Some (Q, n + m * room)) (s + N.of_nat m)%N G c' /\
  (forall i, i < m -> n + i * room + room < length Q).
Proof.
  induction m as [|m IH]; intros s Q n G c' H.
  - cbn in *. replace (n + 0) with n by lia. replace (s + 0)%N with s by lia. split; [assumption|lia].
  - cbn [mk_mids app] in H. apply chain_from_cons_inv in H as (_ & _ & W & H).
    cbn [g_cout g_seq] in H.
    apply IH in H as (H1 & H2). split.
    + replace (n + S m * room) with (n + room + m * room) by lia.
      now replace (s + N.of_nat (S m))%N with (s + 1 + N.of_nat m)%N by lia.
    + intros i Hi. destruct i as [|i].
      * cbn [g_wf] in W. lia.
      * specialize (H2 i ltac:(lia)). lia.
Qed.

End Room.

(** ---------------------------------------------------------------- IP length fields *)

Lemma u16at_app l x off : off + 2 <= length l -> u16at (l ++ x) off = u16at l off.
Proof.
  intros H. unfold u16at. f_equal. f_equal.
  rewrite skipn_app. rewrite firstn_app.
  replace (2 - length (skipn off l)) with 0 by (rewrite skipn_length; lia).
  replace (off - length l) with 0 by lia. cbn [firstn skipn]. now rewrite app_nil_r.
Qed.

Lemma u16at_firstn Q k off : off + 2 <= k -> k <= length Q -> u16at (firstn k Q) off = u16at Q off.
Proof.
  intros H1 H2. rewrite <- (firstn_skipn k Q) at 2. symmetry. apply u16at_app.
  rewrite firstn_length. lia.
Qed.

Lemma valid_pkt_inv p : valid_pkt p = true ->
  exists b0 t, p = b0 :: t /\
    ((ver b0 = 4%N /\ 20 <= length p /\ plen4 p = length p) \/
     (ver b0 <> 4%N /\ ver b0 = 6%N /\ 40 <= length p /\ plen6 p = length p)).
Proof.
  unfold valid_pkt. destruct p as [|b0 t]; [discriminate|]. intros H. exists b0, t. split; [reflexivity|].
  destruct (N.eqb_spec (ver b0) 4) as [E4|E4].
  - left. apply andb_true_iff in H as [H1 H2]. apply Nat.leb_le in H1. apply Nat.eqb_eq in H2. auto.
  - destruct (N.eqb_spec (ver b0) 6) as [E6|E6]; [|discriminate]. right.
    apply andb_true_iff in H as [H1 H2]. apply Nat.leb_le in H1. apply Nat.eqb_eq in H2. auto.
Qed.

Lemma valid_pkt_len p : valid_pkt p = true -> 20 <= length p.
Proof. intros H. apply valid_pkt_inv in H as (b0 & t & _ & [(_ & L & _)|(_ & _ & L & _)]); lia. Qed.

(** ---------------------------------------------------------------- header *)

Lemma header_length sess idx stream sq : length (header sess idx stream sq) = 16.
Proof. unfold header. rewrite !app_length, !be_length. reflexivity. Qed.

Lemma firstn_app_exact {A} (l1 l2 : list A) n : n = length l1 -> firstn n (l1 ++ l2) = l1.
Proof. intros ->. rewrite firstn_app, Nat.sub_diag, firstn_all. cbn. apply app_nil_r. Qed.

Lemma skipn_app_exact {A} (l1 l2 : list A) n : n = length l1 -> skipn n (l1 ++ l2) = l2.
Proof. intros ->. rewrite skipn_app, Nat.sub_diag, skipn_all. reflexivity. Qed.

Lemma header_index sess idx stream sq x : (idx < 65536)%N ->
  frame_index (header sess idx stream sq ++ x) = idx.
Proof.
  intros H. unfold frame_index, header.
  change ([0%N; sess] ++ be 2 idx ++ be 4 (stream mod 1048576) ++ be 8 sq)
    with (0%N :: sess :: be 2 idx ++ be 4 (stream mod 1048576) ++ be 8 sq).
  cbn [app skipn]. rewrite <- app_assoc.
  rewrite firstn_app_exact by (now rewrite be_length).
  apply unbe_be_small. exact H.
Qed.

Lemma header_epoch sess idx stream sq x :
  frame_epoch (header sess idx stream sq ++ x) = (stream mod 1048576)%N.
Proof.
  unfold frame_epoch, header.
  replace (([0%N; sess] ++ be 2 idx ++ be 4 (stream mod 1048576) ++ be 8 sq) ++ x)
    with (([0%N; sess] ++ be 2 idx) ++ be 4 (stream mod 1048576) ++ be 8 sq ++ x)
    by (now rewrite <- !app_assoc).
  rewrite skipn_app_exact by (rewrite app_length, be_length; reflexivity).
  rewrite firstn_app_exact by (now rewrite be_length).
  rewrite unbe_be_small.
  - apply N.mod_mod. discriminate.
  - assert (stream mod 1048576 < 1048576)%N by (apply N.mod_lt; discriminate).
    change (256 ^ N.of_nat 4)%N with 4294967296%N. lia.
Qed.

Lemma header_seq sess idx stream sq x : (sq < 18446744073709551616)%N ->
  frame_seq (header sess idx stream sq ++ x) = sq.
Proof.
  intros H. unfold frame_seq, header.
  replace (([0%N; sess] ++ be 2 idx ++ be 4 (stream mod 1048576) ++ be 8 sq) ++ x)
    with (([0%N; sess] ++ be 2 idx ++ be 4 (stream mod 1048576)) ++ be 8 sq ++ x)
    by (now rewrite <- !app_assoc).
  rewrite skipn_app_exact by (rewrite !app_length, !be_length; reflexivity).
  rewrite firstn_app_exact by (now rewrite be_length).
  apply unbe_be_small. exact H.
Qed.

Lemma header_accepted sess idx stream sq x : accepted (header sess idx stream sq ++ x) = true.
Proof.
  unfold accepted. rewrite app_length, header_length. unfold hdr_len.
  apply andb_true_iff. split; [apply Nat.leb_le; lia|reflexivity].
Qed.

Lemma header_payload sess idx stream sq x : payload (header sess idx stream sq ++ x) = x.
Proof. unfold payload. apply skipn_app_exact. now rewrite header_length. Qed.
