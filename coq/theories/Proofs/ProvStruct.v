(** Arithmetic of slice positions ([seg_idx], [seg_off], [seg_start]) and the
    positional predicates of provenance paths ([is_first], [is_last], [peerhop],
    [crosses]); the shape of a well-formed provenance path. *)
From Coq Require Import List NArith Bool Arith Lia.
From Scion Require Import Lib.Check Model.Router Model.Network Model.Prov.
Import ListNotations.
Import Router Network Prov.

Definition total (ls : list nat) : nat := fold_right Nat.add 0%nat ls.

Lemma seg_start_0 ls : seg_start ls 0 = 0%nat.
Proof. reflexivity. Qed.

Lemma seg_start_S l ls j : seg_start (l :: ls) (S j) = (l + seg_start ls j)%nat.
Proof. reflexivity. Qed.

Lemma seg_start_all ls j : (length ls <= j)%nat -> seg_start ls j = total ls.
Proof. intros H. unfold seg_start. now rewrite firstn_all2. Qed.

(** decomposition of a position *)
Lemma seg_decomp : forall ls k, (k < total ls)%nat ->
  (seg_idx ls k < length ls)%nat /\
  (seg_start ls (seg_idx ls k) + seg_off ls k = k)%nat /\
  (seg_off ls k < nth (seg_idx ls k) ls 0)%nat.
Proof.
  induction ls as [|l r IH]; intros k H; cbn [total fold_right] in H; [lia|].
  cbn [seg_idx seg_off]. destruct (k <? l)%nat eqn:E.
  - apply Nat.ltb_lt in E. cbn [length nth]. rewrite seg_start_0. lia.
  - apply Nat.ltb_ge in E. destruct (IH (k - l)%nat) as (A & B & C); [fold (total r) in H; lia|].
    cbn [length nth]. rewrite seg_start_S. lia.
Qed.

(** a position is determined by slice index and offset *)
Lemma seg_compose : forall ls j o, (j < length ls)%nat -> (o < nth j ls 0)%nat ->
  seg_idx ls (seg_start ls j + o) = j /\ seg_off ls (seg_start ls j + o) = o.
Proof.
  induction ls as [|l r IH]; intros j o Hj Ho; cbn [length] in Hj; [lia|].
  destruct j as [|j].
  - rewrite seg_start_0. cbn [nth] in Ho. cbn [seg_idx seg_off Nat.add].
    apply Nat.ltb_lt in Ho. now rewrite Ho.
  - rewrite seg_start_S. cbn [nth] in Ho. cbn [seg_idx seg_off].
    replace (l + seg_start r j + o <? l)%nat with false by (symmetry; apply Nat.ltb_ge; lia).
    replace (l + seg_start r j + o - l)%nat with (seg_start r j + o)%nat by lia.
    destruct (IH j o) as [A B]; [lia|exact Ho|]. now rewrite A, B.
Qed.

Lemma seg_start_total : forall ls j, (j < length ls)%nat ->
  (seg_start ls j + nth j ls 0 <= total ls)%nat.
Proof.
  induction ls as [|l r IH]; intros j Hj; cbn [length] in Hj; [lia|].
  destruct j as [|j]; cbn [nth total fold_right].
  - rewrite seg_start_0. lia.
  - rewrite seg_start_S. specialize (IH j). fold (total r). lia.
Qed.

Lemma seg_start_next : forall ls j, (j < length ls)%nat ->
  seg_start ls (S j) = (seg_start ls j + nth j ls 0)%nat.
Proof.
  induction ls as [|l r IH]; intros j Hj; cbn [length] in Hj; [lia|].
  destruct j as [|j].
  - rewrite seg_start_S, !seg_start_0. cbn [nth]. lia.
  - rewrite !seg_start_S. cbn [nth]. rewrite IH by lia. lia.
Qed.

(** * Positions of a provenance path *)
Section Pos.
Variable p : prov.

Definition segs_pos : Prop := Forall (fun s => (1 <= sg_len s)%nat) (pv_segs p).
Hypothesis Hpos : segs_pos.
Hypothesis Htot : total (lens p) = nhops p.

Lemma lens_length : length (lens p) = length (pv_segs p).
Proof. unfold lens. apply map_length. Qed.

Lemma nth_lens j : nth j (lens p) 0%nat = sg_len (nth j (pv_segs p) dseg).
Proof. unfold lens. change 0%nat with (sg_len dseg). apply map_nth. Qed.

Lemma pos_facts k : (k < nhops p)%nat ->
  (seg_idx (lens p) k < length (pv_segs p))%nat /\
  (seg_start (lens p) (seg_idx (lens p) k) + seg_off (lens p) k = k)%nat /\
  (seg_off (lens p) k < sg_len (hdr p k))%nat.
Proof.
  intros H. rewrite <- Htot in H. destruct (seg_decomp _ _ H) as (A & B & C).
  rewrite lens_length in A. rewrite nth_lens in C. auto.
Qed.

Lemma len_pos j : (j < length (pv_segs p))%nat -> (1 <= sg_len (nth j (pv_segs p) dseg))%nat.
Proof.
  intros H. unfold segs_pos in Hpos. rewrite Forall_forall in Hpos. apply Hpos. now apply nth_In.
Qed.

(** moving to the next hop *)
Lemma step_same k : (k < nhops p)%nat -> is_last p k = false ->
  seg_idx (lens p) (S k) = seg_idx (lens p) k /\ seg_off (lens p) (S k) = S (seg_off (lens p) k) /\
  (S k < nhops p)%nat.
Proof.
  intros H L. destruct (pos_facts k H) as (A & B & C).
  unfold is_last in L. apply Nat.eqb_neq in L.
  assert (O : (S (seg_off (lens p) k) < nth (seg_idx (lens p) k) (lens p) 0)%nat)
    by (rewrite nth_lens; fold (hdr p k); lia).
  destruct (seg_compose (lens p) (seg_idx (lens p) k) (S (seg_off (lens p) k))) as [E1 E2];
    [now rewrite lens_length|exact O|].
  replace (seg_start (lens p) (seg_idx (lens p) k) + S (seg_off (lens p) k))%nat with (S k) in * by lia.
  repeat split; try assumption.
  pose proof (seg_start_total (lens p) (seg_idx (lens p) k)) as T. rewrite lens_length in T.
  specialize (T A). rewrite Htot in T. lia.
Qed.

Lemma step_next k : (S k < nhops p)%nat -> is_last p k = true ->
  seg_idx (lens p) (S k) = S (seg_idx (lens p) k) /\ seg_off (lens p) (S k) = 0%nat /\
  seg_start (lens p) (S (seg_idx (lens p) k)) = S k.
Proof.
  intros H L. assert (Hk : (k < nhops p)%nat) by lia.
  destruct (pos_facts k Hk) as (A & B & C).
  unfold is_last in L. apply Nat.eqb_eq in L.
  assert (St : seg_start (lens p) (S (seg_idx (lens p) k)) = S k).
  { rewrite seg_start_next by now rewrite lens_length. rewrite nth_lens. fold (hdr p k). lia. }
  assert (J : (S (seg_idx (lens p) k) < length (pv_segs p))%nat).
  { destruct (Nat.lt_ge_cases (S (seg_idx (lens p) k)) (length (pv_segs p))) as [|G]; [assumption|].
    exfalso. rewrite seg_start_all in St by (rewrite lens_length; lia). rewrite Htot in St. lia. }
  destruct (seg_compose (lens p) (S (seg_idx (lens p) k)) 0) as [E1 E2].
  - now rewrite lens_length.
  - rewrite nth_lens. pose proof (len_pos _ J). lia.
  - rewrite St, Nat.add_0_r in E1, E2. auto.
Qed.

(** the last hop of the path is the last hop of its slice *)
Lemma last_is_last k : S k = nhops p -> is_last p k = true.
Proof.
  intros H. destruct (is_last p k) eqn:L; [reflexivity|].
  destruct (step_same k) as (_ & _ & X); [lia|assumption|lia].
Qed.

Lemma first_0 : (0 < nhops p)%nat -> is_first p 0 = true /\ seg_idx (lens p) 0 = 0%nat.
Proof.
  intros H. destruct (pos_facts 0 H) as (A & B & C).
  unfold is_first. assert (seg_off (lens p) 0 = 0)%nat by lia.
  split; [now apply Nat.eqb_eq|].
  destruct (seg_idx (lens p) 0) as [|j] eqn:E; [reflexivity|exfalso].
  rewrite seg_start_next in B by (rewrite lens_length; lia).
  rewrite nth_lens in B. pose proof (len_pos j). lia.
Qed.

(** going back one hop *)
Lemma prev_same k : (S k < nhops p)%nat -> is_first p (S k) = false ->
  is_last p k = false /\ seg_idx (lens p) k = seg_idx (lens p) (S k).
Proof.
  intros H F. destruct (is_last p k) eqn:L.
  - destruct (step_next k H L) as (_ & O & _). unfold is_first in F. rewrite O in F. discriminate.
  - destruct (step_same k) as (E & _ & _); [lia|assumption|]. auto.
Qed.

Lemma prev_next k : (S k < nhops p)%nat -> is_first p (S k) = true ->
  is_last p k = true /\ seg_idx (lens p) (S k) = S (seg_idx (lens p) k).
Proof.
  intros H F. destruct (is_last p k) eqn:L.
  - destruct (step_next k H L) as (E & _ & _). auto.
  - destruct (step_same k) as (_ & O & _); [lia|assumption|].
    unfold is_first in F. rewrite O in F. discriminate.
Qed.

Lemma hdr_same k : (k < nhops p)%nat -> is_last p k = false -> hdr p (S k) = hdr p k.
Proof. intros H L. unfold hdr. destruct (step_same k H L) as (E & _). now rewrite E. Qed.

Lemma start_of_first k : (k < nhops p)%nat -> is_first p k = true ->
  seg_start (lens p) (seg_idx (lens p) k) = k.
Proof.
  intros H F. destruct (pos_facts k H) as (_ & B & _).
  unfold is_first in F. apply Nat.eqb_eq in F. lia.
Qed.

Lemma start_le k : (k < nhops p)%nat -> (seg_start (lens p) (seg_idx (lens p) k) <= k)%nat.
Proof. intros H. destruct (pos_facts k H) as (_ & B & _). lia. Qed.

Lemma end_of_last k : (k < nhops p)%nat -> is_last p k = true ->
  (seg_start (lens p) (seg_idx (lens p) k) + sg_len (hdr p k) = S k)%nat.
Proof.
  intros H L. destruct (pos_facts k H) as (_ & B & _).
  unfold is_last in L. apply Nat.eqb_eq in L. lia.
Qed.

Lemma end_ge k : (k < nhops p)%nat ->
  (S k <= seg_start (lens p) (seg_idx (lens p) k) + sg_len (hdr p k))%nat.
Proof. intros H. destruct (pos_facts k H) as (_ & B & C). lia. Qed.

End Pos.
