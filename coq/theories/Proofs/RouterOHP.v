(** Lemmas about Model/RouterOHP.v. *)
From Coq Require Import List NArith Bool Lia.
From Scion Require Import Lib.Check Model.Router Proofs.Router Model.RouterOHP.
Import ListNotations.
Import Router RouterOHP.
Local Open Scope N_scope.

Lemma negb_false_eqb a b : negb (a =? b) = false -> a = b.
Proof. intros H. apply negb_false_iff in H. now apply N.eqb_eq. Qed.

(** * Inversion of the two directions *)
Section Inv.
Variable mac : N -> N -> N -> N -> N -> list N.
Notation macq := (total mac).
Variable c : cfg.
Variable ing : ingress.

Definition out_pkt (p : pkt) (i : info) (h1 h2 : hop) : pkt :=
  with_path p (ser_info (upd_segid i h1)) (ser_hop h1) (ser_hop h2).

Definition in_second (i : info) (h1 : hop) : hop :=
  second_hop ing h1 (mac (i_segid i) (i_ts i) (h_exp h1) (ing_ifid ing) 0).
Definition in_pkt (p : pkt) (i : info) (h1 : hop) : pkt :=
  with_path p (ser_info i) (ser_hop h1) (in_second i h1).

Lemma ohp_out_forward p i h1 h2 e out d :
  ohp_out macq c p i h1 h2 = Forward e out d ->
  p_src_ia p = c_ia c /\ nbr_of c (h_eg h1) <> 0 /\ nbr_of c (h_eg h1) = p_dst_ia p /\
  mac_valid mac i h1 /\ e = h_eg h1 /\ d = None /\ out = out_pkt p i h1 h2 /\
  get_if c (h_eg h1) <> None.
Proof.
  unfold ohp_out.
  destruct (negb (p_src_ia p =? c_ia c)) eqn:E1; [discriminate|].
  destruct (nbr_of c (h_eg h1) =? 0) eqn:E2; [discriminate|].
  destruct (negb (nbr_of c (h_eg h1) =? p_dst_ia p)) eqn:E3; [discriminate|].
  unfold mac_of, total.
  destruct (negb (list_eqb N.eqb (h_mac h1) _)) eqn:E4; [discriminate|].
  destruct (get_if c (h_eg h1)) eqn:E5; [|discriminate].
  intros H; injection H as <- <- <-.
  apply negb_false_eqb in E1, E3. apply N.eqb_neq in E2.
  apply negb_false_iff, list_eqb_N in E4.
  repeat split; try assumption; try reflexivity. discriminate.
Qed.

Lemma resolve_inbound_forward s e o d :
  resolve_inbound c s = Forward e o d -> e = s_eg s /\ o = s_p s /\ d <> None.
Proof.
  unfold resolve_inbound.
  destruct (parse_host _ _); try discriminate.
  - destruct (p_l4_port (s_p s)); [|discriminate].
    destruct (_ || _); [discriminate|]. intros H; injection H as <- <- <-.
    repeat split; discriminate.
  - destruct (lookup_svc _ _); [|discriminate]. intros H; injection H as <- <- <-.
    repeat split; discriminate.
Qed.

Lemma ohp_in_forward p i h1 h2 e out d :
  ohp_in macq c ing p i h1 h2 = Forward e out d ->
  p_dst_ia p = c_ia c /\ nbr_of c (ing_ifid ing) = p_src_ia p /\ e = 0 /\ d <> None /\
  out = in_pkt p i h1.
Proof.
  unfold ohp_in.
  destruct (negb (p_dst_ia p =? c_ia c)) eqn:E1; [discriminate|].
  destruct (negb (nbr_of c (ing_ifid ing) =? p_src_ia p)) eqn:E2; [discriminate|].
  unfold mac_of, total. cbn [second_proto i_segid i_ts h_exp h_in h_eg].
  destruct (resolve_inbound c _) eqn:ER; try discriminate.
  intros H; injection H as <- <- <-.
  apply resolve_inbound_forward in ER as (-> & -> & Hd).
  apply negb_false_eqb in E1, E2. cbn [s_eg s_p].
  repeat split; try assumption; reflexivity.
Qed.

Lemma process_ohp_forward p e out d :
  process_ohp macq c ing p = Forward e out d ->
  exists i h1 h2, ohp_shape p = Some (i, h1, h2) /\ i_consdir i = true /\
    if from0 ing then ohp_out macq c p i h1 h2 = Forward e out d
    else ohp_in macq c ing p i h1 h2 = Forward e out d.
Proof.
  unfold process_ohp. destruct (ohp_shape p) as [[[i h1] h2]|]; [|discriminate].
  destruct (negb (i_consdir i)) eqn:EC; [discriminate|].
  destruct (negb (p_pay_len p =? p_pay_actual p)) eqn:EL; [discriminate|].
  apply negb_false_iff in EC. intros H. exists i, h1, h2.
  split; [reflexivity|]. split; [assumption|]. destruct (from0 ing); exact H.
Qed.

Lemma process_ohp_forward_len p e out d :
  process_ohp macq c ing p = Forward e out d -> p_pay_len p = p_pay_actual p.
Proof.
  unfold process_ohp. destruct (ohp_shape p) as [[[i h1] h2]|]; [|discriminate].
  destruct (negb (i_consdir i)); [discriminate|].
  destruct (negb (p_pay_len p =? p_pay_actual p)) eqn:EL; [discriminate|].
  intros _. now apply negb_false_eqb.
Qed.

Lemma process_ohp_slack_forward sl p e out d :
  process_ohp_slack macq c ing sl p = Forward e out d ->
  sl = 0 /\ process_ohp macq c ing p = Forward e out d.
Proof.
  unfold process_ohp_slack. destruct (ohp_shape p); [|discriminate].
  destruct (negb (sl =? 0)) eqn:E; [discriminate|]. apply negb_false_eqb in E. auto.
Qed.

End Inv.

Lemma shape_with_path p i h1 h2 : ohp_shape (with_path p i h1 h2) = Some (i, h1, h2).
Proof. reflexivity. Qed.

Lemma lxor_twice a b : N.lxor (N.lxor a b) b = a.
Proof. rewrite N.lxor_assoc, N.lxor_nilpotent, N.lxor_0_r. reflexivity. Qed.

(** * The reversed completed path through [process_scion] *)
Section Reply.
Variable mac : N -> N -> N -> N -> N -> list N.
Notation macq := (total mac).
Variable c : cfg.
Variable now : N.

Lemma host_ok_src_host s :
  p_src_ia (s_p s) = c_ia c -> host_ok (p_src_type (s_p s)) (p_src_raw (s_p s)) = true ->
  validate_src_host c s = Ok s.
Proof.
  intros E H. unfold validate_src_host, host_ok in *. rewrite E, N.eqb_refl. cbn [negb].
  destruct (parse_host _ _); try discriminate; [|reflexivity].
  destruct (is_4in6 ip); [discriminate | reflexivity].
Qed.

(** a reply sent from inside the AS over a two-hop segment against construction direction *)
Lemma reply_from_inside dia sia dt st dr sr pl port i' hA hB f :
  let rp := mkPkt dia sia dt st dr sr pl pl port 0 0 2 0 0 0 [i'] [hA; hB] in
  i_peer i' = false -> i_consdir i' = false ->
  sia = c_ia c -> dia <> c_ia c -> host_ok st sr = true ->
  expired now i' hA = false -> mac_valid mac i' hA ->
  get_if c (h_in hA) = Some f -> if_scope f = External -> if_up f = true ->
  h_ialert hA = false ->
  process_scion macq c now InInt rp = Forward (h_in hA) (inc_path rp) None.
Proof.
  intros rp Hpeer Hcons Hsrc Hdst Hhost Hexp Hmac Hif Hscope Hup Halert.
  unfold process_scion, ingress_part.
  assert (P1 : parse_path rp = Ok (mkSt rp hA i' false false 0)).
  { unfold parse_path. cbn. rewrite Hpeer. reflexivity. }
  rewrite P1. cbn [bind]. clear P1.
  set (s0 := mkSt rp hA i' false false 0).
  assert (P2 : determine_peer s0 = Ok s0).
  { unfold determine_peer. cbn [s0 s_inf]. rewrite Hpeer. reflexivity. }
  rewrite P2. cbn [bind]. clear P2.
  assert (P3 : validate_hop_expiry now s0 = Ok s0).
  { unfold validate_hop_expiry. cbn [s0 s_inf s_hop]. rewrite Hexp. reflexivity. }
  rewrite P3. cbn [bind]. clear P3.
  assert (P4 : validate_ingress_id InInt s0 = Ok s0) by reflexivity.
  rewrite P4. cbn [bind]. clear P4.
  assert (P5 : validate_pkt_len s0 = Ok s0).
  { unfold validate_pkt_len. cbn [s0 s_p rp p_pay_len p_pay_actual]. rewrite N.eqb_refl. reflexivity. }
  rewrite P5. cbn [bind]. clear P5.
  assert (P6 : validate_transit_underlay_src c InInt s0 = Ok s0) by reflexivity.
  rewrite P6. cbn [bind]. clear P6.
  assert (P7 : validate_src_dst_ia c InInt s0 = Ok s0).
  { unfold validate_src_dst_ia. cbn [from0 ing_ifid s0 s_p rp p_src_ia p_dst_ia is_first_hop p_curr_hf].
    rewrite Hsrc. rewrite !N.eqb_refl. cbn [negb andb].
    apply N.eqb_neq in Hdst. rewrite Hdst. reflexivity. }
  rewrite P7. cbn [bind]. clear P7.
  rewrite (host_ok_src_host s0) by (cbn; assumption). cbn [bind].
  assert (P9 : update_noncons_ingress_segid InInt s0 = Ok s0).
  { unfold update_noncons_ingress_segid. cbn [s0 s_inf]. rewrite Hcons. reflexivity. }
  rewrite P9. cbn [bind]. clear P9.
  assert (P10 : verify_current_mac macq s0 = Ok s0).
  { unfold verify_current_mac, mac_of, total. cbn [s0 s_inf s_hop].
    rewrite <- Hmac. rewrite (proj2 (list_eqb_N _ _) eq_refl). reflexivity. }
  rewrite P10. cbn [bind]. clear P10.
  assert (P11 : handle_ingress_router_alert InInt s0 = Ok s0) by reflexivity.
  rewrite P11. clear P11.
  cbn [rp p_dst_ia]. apply N.eqb_neq in Hdst. rewrite Hdst.
  unfold egress_part.
  assert (Q1 : xover_part macq now s0 = Ok s0) by reflexivity.
  rewrite Q1. cbn [bind]. clear Q1.
  unfold set_egress. cbn [bind].
  unfold egress_interface. cbn [s0 s_inf s_hop s_p s_peer s_xover]. rewrite Hcons.
  set (s1 := mkSt rp hA i' false false (h_in hA)).
  assert (Q2 : validate_egress_id c InInt s1 = Ok s1).
  { unfold validate_egress_id. cbn [s1 s_eg s_xover from0 ing_ifid]. rewrite Hif.
    unfold validate_egress. rewrite Hscope. reflexivity. }
  rewrite Q2. cbn [bind]. clear Q2.
  assert (Q3 : handle_egress_router_alert c s1 = Ok s1).
  { unfold handle_egress_router_alert. cbn [s1 s_inf s_hop]. rewrite Hcons, Halert. reflexivity. }
  rewrite Q3. cbn [bind]. clear Q3.
  assert (Q4 : validate_egress_up c s1 = Ok s1).
  { unfold validate_egress_up, egress_if. cbn [s1 s_eg]. rewrite Hif, Hup. reflexivity. }
  rewrite Q4. clear Q4.
  unfold finish, egress_if. cbn [s1 s_eg]. rewrite Hif, Hscope.
  unfold process_egress. cbn [s1 s_inf s_peer s_p s_eg]. rewrite Hcons. reflexivity.
Qed.

(** the same reply arriving from the neighbour at the AS that issued the (now last) hop field *)
Definition arrived_state (rp : pkt) (i' : info) (hB : hop) : st :=
  store_inf (mkSt rp hB i' false false 0) (upd_segid i' hB).

Lemma reply_from_outside e dia sia dt st dr sr pl port i' hA hB :
  let rp := mkPkt dia sia dt st dr sr pl pl port 0 1 2 0 0 0 [i'] [hA; hB] in
  e <> 0 ->
  i_peer i' = false -> i_consdir i' = false -> h_eg hB = e ->
  sia <> c_ia c -> dia = c_ia c ->
  expired now i' hB = false -> mac_valid mac (upd_segid i' hB) hB ->
  h_ealert hB = false ->
  ingress_part macq c now (InExt e) rp = Ok (arrived_state rp i' hB) /\
  process_scion macq c now (InExt e) rp = resolve_inbound c (arrived_state rp i' hB).
Proof.
  intros rp He Hpeer Hcons Heg Hsrc Hdst Hexp Hmac Halert.
  assert (F0 : from0 (InExt e) = false) by (unfold from0; cbn [ing_ifid]; now apply N.eqb_neq).
  assert (I : ingress_part macq c now (InExt e) rp = Ok (arrived_state rp i' hB)).
  { unfold ingress_part.
    assert (P1 : parse_path rp = Ok (mkSt rp hB i' false false 0)).
    { unfold parse_path. cbn. rewrite Hpeer. reflexivity. }
    rewrite P1. cbn [bind]. clear P1.
    set (s0 := mkSt rp hB i' false false 0).
    assert (P2 : determine_peer s0 = Ok s0).
    { unfold determine_peer. cbn [s0 s_inf]. rewrite Hpeer. reflexivity. }
    rewrite P2. cbn [bind]. clear P2.
    assert (P3 : validate_hop_expiry now s0 = Ok s0).
    { unfold validate_hop_expiry. cbn [s0 s_inf s_hop]. rewrite Hexp. reflexivity. }
    rewrite P3. cbn [bind]. clear P3.
    assert (P4 : validate_ingress_id (InExt e) s0 = Ok s0).
    { unfold validate_ingress_id. rewrite F0. cbn [s0 s_inf s_hop ing_ifid]. rewrite Hcons, Heg.
      rewrite N.eqb_refl. reflexivity. }
    rewrite P4. cbn [bind]. clear P4.
    assert (P5 : validate_pkt_len s0 = Ok s0).
    { unfold validate_pkt_len. cbn [s0 s_p rp p_pay_len p_pay_actual]. rewrite N.eqb_refl. reflexivity. }
    rewrite P5. cbn [bind]. clear P5.
    assert (P6 : validate_transit_underlay_src c (InExt e) s0 = Ok s0).
    { unfold validate_transit_underlay_src. rewrite F0. rewrite orb_true_r. reflexivity. }
    rewrite P6. cbn [bind]. clear P6.
    assert (P7 : validate_src_dst_ia c (InExt e) s0 = Ok s0).
    { unfold validate_src_dst_ia. rewrite F0. cbn [s0 s_p rp p_src_ia p_dst_ia].
      apply N.eqb_neq in Hsrc. rewrite Hsrc. rewrite Hdst, N.eqb_refl. reflexivity. }
    rewrite P7. cbn [bind]. clear P7.
    assert (P8 : validate_src_host c s0 = Ok s0).
    { unfold validate_src_host. cbn [s0 s_p rp p_src_ia]. apply N.eqb_neq in Hsrc. rewrite Hsrc.
      reflexivity. }
    rewrite P8. cbn [bind]. clear P8.
    assert (P9 : update_noncons_ingress_segid (InExt e) s0 = Ok (arrived_state rp i' hB)).
    { unfold update_noncons_ingress_segid. rewrite F0. cbn [s0 s_inf s_peer]. rewrite Hcons. reflexivity. }
    rewrite P9. cbn [bind]. clear P9.
    assert (P10 : verify_current_mac macq (arrived_state rp i' hB) = Ok (arrived_state rp i' hB)).
    { unfold verify_current_mac, mac_of, total, arrived_state, store_inf. cbn [s_inf s_hop].
      rewrite <- Hmac. rewrite (proj2 (list_eqb_N _ _) eq_refl). reflexivity. }
    rewrite P10. cbn [bind]. clear P10.
    unfold handle_ingress_router_alert. rewrite F0.
    unfold arrived_state, store_inf. cbn [s_inf s_hop upd_segid i_consdir]. rewrite Hcons, Halert.
    reflexivity. }
  split; [exact I|].
  unfold process_scion. rewrite I. cbn [rp p_dst_ia]. rewrite Hdst, N.eqb_refl. reflexivity.
Qed.
End Reply.

(** * The two routers of a one-hop exchange *)
Lemma nbr_of_zero c : nbr_of c 0 = 0.
Proof. reflexivity. Qed.

Section Exchange.
Variable macA macB : N -> N -> N -> N -> N -> list N.
Variable cA cB : cfg.

(** the router that completed the path forwards the reply out of the interface the one-hop
    packet came in through *)
Lemma reverse_accepted_B now k p1 e out d hdr rev :
  from0 (InExt k) = false ->
  process_ohp (total macB) cB (InExt k) p1 = Forward e out d ->
  ohp_reverse out = Some rev ->
  revB_cond cB now k (reply_with hdr rev) = true ->
  process_scion (total macB) cB now InInt (reply_with hdr rev) =
    Forward k (inc_path (reply_with hdr rev)) None.
Proof.
  intros F0 HP HR HC.
  apply process_ohp_forward in HP as (i & h1 & h2 & Sh & Cons & HP). rewrite F0 in HP.
  apply ohp_in_forward in HP as (_ & _ & _ & _ & ->).
  unfold ohp_reverse in HR. unfold in_pkt in HR. rewrite shape_with_path in HR.
  cbn [in_second second_hop h_in ing_ifid] in HR.
  assert (Kz : (k =? 0) = false) by exact F0. rewrite Kz in HR. injection HR as <-.
  destruct hdr as [dia sia dt st dr sr pl pa port ci ch s0 s1 s2 mr infs hps].
  unfold reply_with, revB_cond in *.
  cbn [p_dst_ia p_src_ia p_dst_type p_src_type p_dst_raw p_src_raw p_pay_len p_pay_actual p_l4_port
       p_curr_inf p_curr_hf p_seg0 p_seg1 p_seg2 p_meta_rsv p_infos p_hops] in *.
  apply andb_true_iff in HC as [HC Hexp]. apply andb_true_iff in HC as [HC Hif].
  apply andb_true_iff in HC as [HC Hhost]. apply andb_true_iff in HC as [HC Hlen].
  apply andb_true_iff in HC as [Hsrc Hdst].
  apply N.eqb_eq in Hsrc, Hlen. apply negb_true_iff, N.eqb_neq in Hdst. subst pa.
  destruct (get_if cB k) as [f|] eqn:G; [|discriminate].
  apply andb_true_iff in Hif as [Hsc Hup]. apply scope_eqb_eq in Hsc.
  apply negb_true_iff in Hexp.
  pose proof (reply_from_inside macB cB now dia sia dt st dr sr pl port
                (mkInfo false false (i_segid i) (i_ts i) 0)
                (plain_hop (in_second macB (InExt k) i h1)) (plain_hop (ser_hop h1)) f) as L.
  cbv zeta in L. apply L; try assumption; reflexivity.
Qed.

(** the router that issued the first hop field accepts the reply coming back over the
    interface it sent the one-hop packet through: every path check passes, what is left is
    the local delivery decision *)
Lemma reverse_accepted_A now ingA k p0 e p1 d1 e2 p2 d2 rev hdr :
  from0 ingA = true -> from0 (InExt k) = false ->
  process_ohp (total macA) cA ingA p0 = Forward e p1 d1 ->
  process_ohp (total macB) cB (InExt k) p1 = Forward e2 p2 d2 ->
  ohp_reverse p2 = Some rev ->
  revA_cond cA now (inc_path (reply_with hdr rev)) = true ->
  exists s,
    ingress_part (total macA) cA now (InExt e) (inc_path (reply_with hdr rev)) = Ok s /\
    process_scion (total macA) cA now (InExt e) (inc_path (reply_with hdr rev)) =
      resolve_inbound cA s.
Proof.
  intros FA FB HA HB HR HC.
  apply process_ohp_forward in HA as (i & h1 & h2 & Sh & Cons & HA). rewrite FA in HA.
  apply ohp_out_forward in HA as (_ & Nz & _ & Mac & -> & _ & -> & _).
  apply process_ohp_forward in HB as (i1 & h1' & h2' & Sh1 & Cons1 & HB). rewrite FB in HB.
  apply ohp_in_forward in HB as (_ & _ & _ & _ & ->).
  unfold out_pkt in Sh1. rewrite shape_with_path in Sh1. injection Sh1 as <- <- <-.
  unfold ohp_reverse, in_pkt in HR. rewrite shape_with_path in HR.
  cbn [in_second second_hop h_in ing_ifid] in HR.
  assert (Kz : (k =? 0) = false) by exact FB. rewrite Kz in HR. injection HR as <-.
  assert (Ez : h_eg h1 <> 0).
  { intros Z. rewrite Z in Nz. apply Nz. reflexivity. }
  destruct hdr as [dia sia dt st dr sr pl pa port ci ch s0 s1 s2 mr infs hps].
  unfold reply_with, revA_cond, inc_path, with_meta in *.
  cbn [p_dst_ia p_src_ia p_dst_type p_src_type p_dst_raw p_src_raw p_pay_len p_pay_actual p_l4_port
       p_curr_inf p_curr_hf p_seg0 p_seg1 p_seg2 p_meta_rsv p_infos p_hops] in *.
  apply andb_true_iff in HC as [HC Hh]. apply andb_true_iff in HC as [HC Hlen].
  apply andb_true_iff in HC as [Hsrc Hdst].
  apply N.eqb_eq in Hdst, Hlen. apply negb_true_iff, N.eqb_neq in Hsrc. subst pa.
  apply andb_true_iff in Hh as [Hexp Hal]. apply negb_true_iff in Hexp, Hal.
  match goal with |- context [mkPkt _ _ _ _ _ _ _ _ _ ?ci' ?ch' _ _ _ _ ?is ?hs] =>
    change ci' with 0; change ch' with 1 end.
  pose proof (reply_from_outside macA cA now (h_eg h1) dia sia dt st dr sr pl port
                (mkInfo false false (i_segid (ser_info (upd_segid i h1))) (i_ts (ser_info (upd_segid i h1))) 0)
                (plain_hop (in_second macB (InExt k) (ser_info (upd_segid i h1)) (ser_hop h1)))
                (plain_hop (ser_hop (ser_hop h1)))) as L.
  cbv zeta in L. eexists. apply L; try assumption; try reflexivity.
  unfold mac_valid. cbn. rewrite lxor_twice. exact Mac.
Qed.

End Exchange.

(** * The oracle on the model *)
Lemma list_eqb_N_refl l : list_eqb N.eqb l l = true.
Proof. now apply list_eqb_N. Qed.

Lemma option_eqb_N_refl (o : option N) : option_eqb N.eqb o o = true.
Proof. destruct o; cbn; [apply N.eqb_refl | reflexivity]. Qed.

Lemma same_but_path_with_path p i h1 h2 : same_but_path p (with_path p i h1 h2) = true.
Proof.
  unfold same_but_path, with_path, with_hops, with_infos.
  cbn [p_dst_ia p_src_ia p_dst_type p_src_type p_dst_raw p_src_raw p_pay_len p_pay_actual p_l4_port].
  now rewrite !N.eqb_refl, !list_eqb_N_refl, option_eqb_N_refl.
Qed.

Lemma hop_same_ser h : hop_same_but_rsv h (ser_hop h) = true.
Proof.
  unfold hop_same_but_rsv, ser_hop. cbn [h_ialert h_ealert h_exp h_in h_eg h_mac].
  now rewrite !eqb_reflx, !N.eqb_refl, list_eqb_N_refl.
Qed.

Lemma info_same_ser i : info_same_but_segid i (ser_info i) = true.
Proof.
  unfold info_same_but_segid, ser_info. cbn [i_peer i_consdir i_ts].
  now rewrite !eqb_reflx, N.eqb_refl.
Qed.

Lemma info_same_upd i h : info_same_but_segid i (ser_info (upd_segid i h)) = true.
Proof.
  unfold info_same_but_segid, ser_info, upd_segid. cbn [i_peer i_consdir i_ts].
  now rewrite !eqb_reflx, N.eqb_refl.
Qed.

Lemma forallb_mem_self l : forallb (fun o => memN o l) l = true.
Proof.
  apply forallb_forall. intros x Hx. unfold memN. apply existsb_exists.
  exists x. split; [assumption | apply N.eqb_refl].
Qed.

Lemma ser_hop_clear h : h_rsv h = 0 -> ser_hop h = h.
Proof. destruct h; cbn. intros ->. reflexivity. Qed.

Section Oracle.
Variable mac : N -> N -> N -> N -> N -> list N.
Notation macq := (total mac).
Variable c : cfg.
Variable ing : ingress.

Lemma mac_valid_lookup i h :
  mac_valid mac i h ->
  match mac_of macq i h with Some m => list_eqb N.eqb (h_mac h) m | None => false end = true.
Proof. unfold mac_valid, mac_of, total. intros <-. apply list_eqb_N_refl. Qed.

Lemma c12_ok_model p len crsv :
  match process_ohp macq c ing p with
  | Forward e out d =>
    c12_ok macq c ing p (Forward e out d) (ohp_record_diff p out) len len crsv = true
  | r => c12_ok macq c ing p r [] len len crsv = true
  end.
Proof.
  destruct (process_ohp macq c ing p) as [| | |e out d| | |] eqn:E; try reflexivity.
  apply process_ohp_forward in E as (i & h1 & h2 & Sh & Cons & HP).
  unfold c12_ok, ohp_record_diff. rewrite Sh.
  change (ing_ifid ing =? 0) with (from0 ing).
  destruct (from0 ing).
  - apply ohp_out_forward in HP as (Src & Nz & Nbr & Mac & -> & -> & -> & _).
    unfold out_pkt. rewrite shape_with_path, same_but_path_with_path, Cons, N.eqb_refl.
    rewrite Src, Nbr, !N.eqb_refl. rewrite Nbr in Nz. apply N.eqb_neq in Nz. rewrite Nz.
    rewrite (mac_valid_lookup _ _ Mac), info_same_upd, !hop_same_ser.
    cbn [andb negb].
    destruct (rsv_clear i h1 h2 crsv) eqn:R; [|reflexivity]. cbn [negb orb].
    unfold rsv_clear in R. apply andb_true_iff in R as [R _]. apply andb_true_iff in R as [R R2].
    apply N.eqb_eq in R2. rewrite (ser_hop_clear _ R2), hop_eqb_refl, app_nil_r.
    destruct (i_segid i =? _); [reflexivity|]. unfold memN. cbn [forallb existsb].
    now rewrite !N.eqb_refl, !orb_true_r.
  - apply ohp_in_forward in HP as (Dst & Nbr & -> & Hd & ->).
    unfold in_pkt. rewrite shape_with_path, same_but_path_with_path, Cons, N.eqb_refl.
    rewrite Dst, Nbr, !N.eqb_refl.
    destruct d as [d|]; [|congruence].
    cbn [andb in_second second_hop h_in h_eg h_exp h_ialert h_ealert h_rsv negb].
    assert (M : match mac_of macq (ser_info i) (in_second mac ing i h1) with
                | Some m => list_eqb N.eqb (h_mac (in_second mac ing i h1)) m
                | None => false end = true).
    { unfold mac_of, total, in_second, second_hop. cbn. apply list_eqb_N_refl. }
    rewrite M, info_same_ser, hop_same_ser. cbn [andb app].
    destruct (rsv_clear i h1 zero_hop crsv); [|reflexivity]. cbn [negb orb].
    destruct (hop_eqb _ _); [reflexivity|]. apply forallb_mem_self.
Qed.

(** the slack wrapper only removes behaviours *)
Lemma process_ohp_slack_spec sl p :
  process_ohp_slack macq c ing sl p =
    match ohp_shape p with
    | None => BadInput
    | Some _ => if sl =? 0 then process_ohp macq c ing p else Discard
    end.
Proof.
  unfold process_ohp_slack. destruct (ohp_shape p); [|reflexivity]. now destruct (sl =? 0).
Qed.

(** * BFD packets *)
Lemma bfd_path_ok ifid remote now_s p i h1 h2 :
  bfd_path macq ifid now_s = Some (i, h1, h2) ->
  p_src_ia p = c_ia c -> p_dst_ia p = remote ->
  bfd_ok macq c ifid remote (with_path p i h1 h2) = true.
Proof.
  unfold bfd_path, mac_of, total. intros H Hs Hd. injection H as <- <- <-.
  unfold bfd_ok. rewrite shape_with_path.
  cbn [bfd_info bfd_first bfd_first_proto i_consdir h_eg i_segid i_ts h_exp h_in h_mac andb].
  unfold with_path, with_hops, with_infos. cbn [p_src_ia p_dst_ia]. rewrite Hs, Hd, !N.eqb_refl.
  unfold mac_of. cbn. now rewrite list_eqb_N_refl.
Qed.

End Oracle.

(** * The oracles of the exchange cases on the model *)
Lemma delivery_outcome_resolve c s rp :
  s_eg s = 0 -> p_l4_port (s_p s) = p_l4_port rp ->
  delivery_outcome rp (resolve_inbound c s) = true.
Proof.
  intros E P. unfold resolve_inbound, delivery_outcome. rewrite E, P.
  destruct (parse_host _ _).
  - destruct (p_l4_port rp); [|reflexivity].
    destruct (_ || _); reflexivity.
  - destruct (lookup_svc _ _); reflexivity.
  - reflexivity.
Qed.

Section ExchangeOracle.
Variable macA macB : N -> N -> N -> N -> N -> list N.
Variable cA cB : cfg.

Lemma revB_ok_model now k p1 rp :
  revB_ok (total macB) cB now k p1 rp (model_revB (total macB) cB now k p1 rp) = true.
Proof.
  unfold revB_ok, model_revB, reversed, completed.
  destruct (process_ohp (total macB) cB (InExt k) p1) as [| | |e out d| | |] eqn:E; try reflexivity.
  destruct (ohp_reverse out) as [rev|] eqn:R; [|reflexivity].
  destruct (negb (k =? 0) && revB_cond cB now k (reply_with rp rev)) eqn:C; [|reflexivity].
  apply andb_true_iff in C as [K C]. apply negb_true_iff in K.
  rewrite (reverse_accepted_B macB cB now k p1 e out d rp rev K E R C).
  cbn. apply N.eqb_refl.
Qed.

Lemma revA_ok_model now k ingA p0 hdr :
  revA_ok (total macA) (total macB) cA cB now k ingA p0 hdr
          (model_revA (total macA) (total macB) cA cB now k ingA p0 hdr) = true.
Proof.
  unfold revA_ok, model_revA, round_trip, reversed, completed.
  destruct (process_ohp (total macA) cA ingA p0) as [| | |e p1 d1| | |] eqn:EA; try reflexivity.
  destruct (process_ohp (total macB) cB (InExt k) p1) as [| | |e2 p2 d2| | |] eqn:EB; try reflexivity.
  destruct (ohp_reverse p2) as [rev|] eqn:R; [|reflexivity].
  destruct (from0 ingA && negb (k =? 0) && revA_cond cA now (inc_path (reply_with hdr rev))) eqn:C;
    [|reflexivity].
  apply andb_true_iff in C as [C C3]. apply andb_true_iff in C as [C1 C2].
  apply negb_true_iff in C2.
  destruct (reverse_accepted_A macA macB cA cB now ingA k p0 e p1 d1 e2 p2 d2 rev hdr C1 C2 EA EB R C3)
    as (s & I & ->).
  destruct (ingress_part_ok _ _ _ _ _ _ I) as (i & h & F).
  cbn [negb orb]. apply delivery_outcome_resolve.
  - exact (if_eg _ _ _ _ _ _ _ _ F).
  - rewrite (if_pkt _ _ _ _ _ _ _ _ F). now destruct (folds _ _ _).
Qed.

End ExchangeOracle.

Section OhpOracle.
Variable mac : N -> N -> N -> N -> N -> list N.
Variable c : cfg.
Variable ing : ingress.

Lemma ohp_ok_model b sl p len crsv :
  match dispatch_ohp (total mac) c ing b Discard sl p with
  | Forward e out d =>
    ohp_ok (total mac) c ing b sl p (Forward e out d) (ohp_record_diff p out) len len crsv = true
  | r => ohp_ok (total mac) c ing b sl p r [] len len crsv = true
  end.
Proof.
  unfold dispatch_ohp, ohp_ok. destruct b; [reflexivity|].
  rewrite process_ohp_slack_spec.
  destruct (ohp_shape p) as [x|] eqn:Sh.
  - destruct (sl =? 0) eqn:S; cbn [negb]; [|reflexivity]. apply c12_ok_model.
  - destruct (negb (sl =? 0)); reflexivity.
Qed.
End OhpOracle.

(** * Exactness: when the conditions hold the packet does leave *)
Section Exact.
Variable mac : N -> N -> N -> N -> N -> list N.
Variable c : cfg.
Variable ing : ingress.

Lemma ohp_out_exact p i h1 h2 f :
  p_src_ia p = c_ia c -> nbr_of c (h_eg h1) = p_dst_ia p -> p_dst_ia p <> 0 ->
  mac_valid mac i h1 -> get_if c (h_eg h1) = Some f ->
  ohp_out (total mac) c p i h1 h2 = Forward (h_eg h1) (out_pkt p i h1 h2) None.
Proof.
  intros Hs Hn Hz Hm Hg. unfold ohp_out. rewrite Hs, N.eqb_refl. cbn [negb].
  rewrite Hn. apply N.eqb_neq in Hz. rewrite Hz, N.eqb_refl. cbn [negb].
  pose proof (mac_valid_lookup mac i h1 Hm) as L.
  destruct (mac_of (total mac) i h1) as [m|]; [|discriminate]. rewrite L. cbn [negb].
  rewrite Hg. reflexivity.
Qed.

Lemma process_ohp_out_exact p i h1 h2 f :
  from0 ing = true -> ohp_shape p = Some (i, h1, h2) -> i_consdir i = true ->
  p_pay_len p = p_pay_actual p ->
  p_src_ia p = c_ia c -> nbr_of c (h_eg h1) = p_dst_ia p -> p_dst_ia p <> 0 ->
  mac_valid mac i h1 -> get_if c (h_eg h1) = Some f ->
  process_ohp (total mac) c ing p = Forward (h_eg h1) (out_pkt p i h1 h2) None.
Proof.
  intros F Sh C Hl Hs Hn Hz Hm Hg. unfold process_ohp. rewrite Sh, C, F, Hl, N.eqb_refl. cbn [negb].
  eapply ohp_out_exact; eassumption.
Qed.

(** a packet that fails one of the conditions never leaves *)
Lemma process_ohp_out_only p e out d :
  from0 ing = true -> process_ohp (total mac) c ing p = Forward e out d ->
  exists i h1 h2, ohp_shape p = Some (i, h1, h2) /\ i_consdir i = true /\
    p_src_ia p = c_ia c /\ mac_valid mac i h1 /\ nbr_of c (h_eg h1) = p_dst_ia p /\
    p_dst_ia p <> 0 /\ e = h_eg h1 /\ d = None /\ out = out_pkt p i h1 h2.
Proof.
  intros F H. apply process_ohp_forward in H as (i & h1 & h2 & Sh & C & H). rewrite F in H.
  apply ohp_out_forward in H as (A1 & A2 & A3 & A4 & A5 & A6 & A7 & _).
  exists i, h1, h2. rewrite A3 in A2. repeat split; assumption.
Qed.

Lemma process_ohp_in_only p e out d :
  from0 ing = false -> process_ohp (total mac) c ing p = Forward e out d ->
  exists i h1 h2, ohp_shape p = Some (i, h1, h2) /\ i_consdir i = true /\
    p_dst_ia p = c_ia c /\ p_src_ia p = nbr_of c (ing_ifid ing) /\ e = 0 /\ d <> None /\
    out = in_pkt mac ing p i h1.
Proof.
  intros F H. apply process_ohp_forward in H as (i & h1 & h2 & Sh & C & H). rewrite F in H.
  apply ohp_in_forward in H as (A1 & A2 & A3 & A4 & A5).
  exists i, h1, h2. repeat split; try assumption. now symmetry.
Qed.

End Exact.
