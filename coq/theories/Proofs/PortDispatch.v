(** Lemmas about Model/PortDispatch.v (C11). *)
From Coq Require Import List NArith Bool Lia ZifyBool ZifyN ZifyNat Permutation PeanoNat.
From Scion Require Import Lib.Check Model.PortDispatch.
Import ListNotations.
Import PortDispatch.
Local Open Scope N_scope.

(** ------------------------------------------------------------------
    The range in force after any configuration history *)

Lemma last_range_acc ops t :
  last_range ops (Some t) = match last_range ops None with None => Some t | Some t' => Some t' end.
Proof.
  revert t. induction ops as [|o r IH]; intros t; cbn [last_range]; [reflexivity|].
  destruct o; try apply IH. rewrite (IH t0).
  destruct (last_range r None); reflexivity.
Qed.

Lemma fold_prov ov ops : forall st,
  prov (fold_left (step ov) ops st) =
  match last_range ops None with None => prov st | Some t => range_of ov t end.
Proof.
  induction ops as [|o r IH]; intros st; cbn [fold_left last_range]; [reflexivity|].
  rewrite IH. destruct o; cbn [step prov]; try reflexivity.
  rewrite last_range_acc. destruct (last_range r None); reflexivity.
Qed.

Lemma run_prov ov ops : prov (run ov ops) = configured ov ops.
Proof. unfold run, configured. apply fold_prov. Qed.

Lemma fold_internal ov ops : forall st,
  internal (fold_left (step ov) ops st) = internal st || existsb (fun o => match o with OAddInternal => true | _ => false end) ops.
Proof.
  induction ops as [|o r IH]; intros st; cbn [fold_left existsb]; [now rewrite orb_false_r|].
  rewrite IH. destruct o; cbn [step internal]; try reflexivity.
  - now rewrite orb_true_r.
Qed.

Lemma last_range_some_in ops t : last_range ops None = Some t -> In (OSetRange t) ops.
Proof.
  induction ops as [|o r IH]; cbn [last_range]; [discriminate|].
  destruct o; try (intros H; right; now apply IH).
  rewrite last_range_acc. destruct (last_range r None) as [t'|] eqn:E; intros H; inversion H; subst.
  - right. now apply IH.
  - now left.
Qed.

Lemma last_range_none_notin ops : last_range ops None = None -> forall t, ~ In (OSetRange t) ops.
Proof.
  induction ops as [|o r IH]; cbn [last_range]; intros H t Hin; [exact Hin|].
  destruct o; try (destruct Hin as [Hd|Hin]; [discriminate|now apply (IH H t)]).
  rewrite last_range_acc in H. destruct (last_range r None); discriminate.
Qed.

Lemma last_range_in_some ops t : In (OSetRange t) ops -> exists t', last_range ops None = Some t'.
Proof.
  intros Hin. destruct (last_range ops None) as [t'|] eqn:E; [now exists t'|].
  exfalso. exact (last_range_none_notin ops E t Hin).
Qed.

(** any reordering of the configuration calls (one range, set any number of times) *)
Lemma configured_permutation ov ops ops' :
  Permutation ops ops' ->
  (forall t t', In (OSetRange t) ops -> In (OSetRange t') ops -> t = t') ->
  configured ov ops = configured ov ops'.
Proof.
  intros HP Huniq. unfold configured.
  destruct (last_range ops None) as [t|] eqn:E; destruct (last_range ops' None) as [t'|] eqn:E'.
  - apply last_range_some_in in E. apply last_range_some_in in E'.
    apply (Permutation_in _ (Permutation_sym HP)) in E'. now rewrite (Huniq t t' E E').
  - apply last_range_some_in in E. apply (Permutation_in _ HP) in E.
    exfalso. exact (last_range_none_notin _ E' t E).
  - apply last_range_some_in in E'. apply (Permutation_in _ (Permutation_sym HP)) in E'.
    exfalso. exact (last_range_none_notin _ E t' E').
  - reflexivity.
Qed.

(** ------------------------------------------------------------------
    Delivery to an IP host *)

Lemma configured_redirect ov ops : r_redirect (configured ov ops) = endhost_port.
Proof. unfold configured. destruct (last_range ops None); reflexivity. Qed.

Lemma resolve_ip st ip p :
  bad_ip ip = false ->
  resolve st (HIP ip) p =
  [Delivered ip (if in_range (prov st) p then p else r_redirect (prov st))].
Proof.
  unfold bad_ip. intros H. apply orb_false_elim in H as [H1 H2].
  cbn [resolve]. rewrite H1, H2. unfold in_range.
  rewrite (N.ltb_antisym (r_start (prov st)) p), (N.ltb_antisym p (r_end (prov st))).
  destruct (r_start (prov st) <=? p), (p <=? r_end (prov st)); reflexivity.
Qed.

Lemma resolve_local_dst_ip ov ops ty raw l4 pld q ip p :
  dst_addr ty raw = Some (HIP ip) -> bad_ip ip = false -> dst_scion_port l4 pld q = Ok p ->
  resolve_local_dst (run ov ops) ty raw l4 pld q =
  [Delivered ip (if in_range (configured ov ops) p then p else endhost_port)].
Proof.
  intros Ha Hb Hp. unfold resolve_local_dst. rewrite Ha, Hp, (resolve_ip _ _ _ Hb), run_prov.
  now rewrite configured_redirect.
Qed.

(** the numeric pair against the documented meaning of the range *)
Definition port0_corner (ov : option (N * N)) (ops : list op) : bool :=
  match last_range ops None, ov with
  | None, _ | Some TEmpty, None => true
  | _, _ => false
  end.

Lemma in_range_documented ov ops p :
  (p =? 0) && port0_corner ov ops = false ->
  in_range (configured ov ops) p = documented (last_range ops None) ov p.
Proof.
  unfold configured, port0_corner, in_range, documented.
  destruct (last_range ops None) as [t|]; cbn [prov init r_start r_end range_of].
  - destruct ov as [[s e]|]; cbn [override topo_pair fst snd]; [reflexivity|].
    destruct t; cbn [topo_pair fst snd]; intros H; try reflexivity.
    rewrite andb_true_r in H. apply N.eqb_neq in H. lia.
  - intros H. rewrite andb_true_r in H. apply N.eqb_neq in H. lia.
Qed.

Lemma known_false_corner ov ops ty raw l4 pld q ip p :
  dst_addr ty raw = Some (HIP ip) -> bad_ip ip = false -> dst_scion_port l4 pld q = Ok p ->
  known ov ops ty raw l4 pld q = false -> (p =? 0) && port0_corner ov ops = false.
Proof.
  intros Ha Hb Hp. unfold known, port0_corner. rewrite Ha, Hp, Hb.
  destruct p as [|pp]; [|reflexivity]. cbn [N.eqb andb negb].
  destruct (last_range ops None) as [[| |]|], ov; auto.
Qed.

(** ------------------------------------------------------------------
    Services *)

Lemma inst_eqb_eq a b : inst_eqb a b = true <-> a = b.
Proof.
  destruct a as [s1 i1 p1], b as [s2 i2 p2]. unfold inst_eqb. cbn [i_svc i_ip i_port].
  rewrite !andb_true_iff, !N.eqb_eq, bytes_eqb_eq. split.
  - intros [[-> ->] ->]. reflexivity.
  - intros H. inversion H. auto.
Qed.

Lemma inst_eqb_refl a : inst_eqb a a = true.
Proof. now apply inst_eqb_eq. Qed.

Lemma existsb_inst a l : existsb (inst_eqb a) l = true <-> In a l.
Proof.
  rewrite existsb_exists. split.
  - intros [x [Hin H]]. apply inst_eqb_eq in H. now subst.
  - intros H. exists a. split; [assumption|apply inst_eqb_refl].
Qed.

Lemma nodup_snoc (a : inst) l : NoDup l -> ~ In a l -> NoDup (l ++ [a]).
Proof.
  induction 1 as [|x t Hx Ht IH]; intros Ha; cbn.
  - constructor; [intros []|constructor].
  - constructor.
    + rewrite in_app_iff. intros [H|[H|[]]]; [contradiction|]. subst. apply Ha. now left.
    + apply IH. intros H. apply Ha. now right.
Qed.

Lemma filter_all {A} (f : A -> bool) l : (forall x, In x l -> f x = true) -> filter f l = l.
Proof.
  induction l as [|x t IH]; intros H; cbn; [reflexivity|].
  rewrite (H x (or_introl eq_refl)). f_equal. apply IH. intros y Hy. apply H. now right.
Qed.

Lemma svc_del_filter a l : NoDup l -> svc_del l a = filter (fun x => negb (inst_eqb a x)) l.
Proof.
  induction 1 as [|x t Hx Ht IH]; cbn [svc_del filter]; [reflexivity|].
  destruct (inst_eqb a x) eqn:E; cbn [negb].
  - apply inst_eqb_eq in E. subst x. symmetry. apply filter_all. intros y Hy.
    destruct (inst_eqb a y) eqn:E'; [|reflexivity]. apply inst_eqb_eq in E'. subst. contradiction.
  - now rewrite IH.
Qed.

Lemma svc_add_nodup a l : NoDup l -> NoDup (svc_add l a).
Proof.
  intros H. unfold svc_add. destruct (existsb (inst_eqb a) l) eqn:E; [assumption|].
  apply nodup_snoc; [assumption|]. intros Hin. apply existsb_inst in Hin. congruence.
Qed.

Lemma fold_svcs ov ops : forall st,
  NoDup (svcs st) -> svcs (fold_left (step ov) ops st) = registered ops (svcs st).
Proof.
  induction ops as [|o r IH]; intros st Hnd; cbn [fold_left registered]; [reflexivity|].
  destruct o; cbn [step]; try (rewrite IH; [reflexivity|assumption]).
  - rewrite IH; cbn [svcs]; [reflexivity | now apply svc_add_nodup].
  - rewrite IH; cbn [svcs].
    + now rewrite svc_del_filter.
    + rewrite svc_del_filter by assumption. now apply NoDup_filter.
Qed.

Lemma run_svcs ov ops : svcs (run ov ops) = registered ops [].
Proof. unfold run. rewrite fold_svcs; [reflexivity|constructor]. Qed.

Lemma last_about_some i ops : forall b, last_about i ops (Some b) <> None.
Proof.
  induction ops as [|o r IH]; intros b; cbn [last_about]; [discriminate|].
  destruct o; try apply IH.
  - destruct (inst_eqb _ i); apply IH.
  - destruct (inst_eqb _ i); apply IH.
Qed.

Lemma registered_spec i ops : forall acc b,
  (match b with Some true => In i acc | Some false => ~ In i acc | None => True end) ->
  (In i (registered ops acc) <->
   match last_about i ops b with Some true => True | Some false => False | None => In i acc end).
Proof.
  induction ops as [|o r IH]; intros acc b Hb; cbn [registered last_about].
  - destruct b as [[|]|]; tauto.
  - destruct o; try (apply IH; assumption).
    + set (a := {| i_svc := svc; i_ip := ip; i_port := port |}).
      destruct (inst_eqb a i) eqn:E.
      * apply inst_eqb_eq in E. subst i.
        rewrite (IH _ (Some true)).
        -- destruct (last_about a r (Some true)) as [[|]|] eqn:L; try tauto.
           exfalso. exact (last_about_some _ _ _ L).
        -- destruct (existsb (inst_eqb a) acc) eqn:X.
           ++ now apply existsb_inst in X.
           ++ rewrite in_app_iff. cbn. tauto.
      * assert (Hne : a <> i) by (intros ->; rewrite inst_eqb_refl in E; discriminate).
        assert (Hin : In i (if existsb (inst_eqb a) acc then acc else acc ++ [a]) <-> In i acc).
        { destruct (existsb (inst_eqb a) acc); [tauto|]. rewrite in_app_iff. cbn. tauto. }
        rewrite (IH _ b).
        -- destruct (last_about i r b) as [[|]|]; tauto.
        -- destruct b as [[|]|]; tauto.
    + set (a := {| i_svc := svc; i_ip := ip; i_port := port |}).
      assert (Hf : In i (filter (fun x => negb (inst_eqb a x)) acc) <-> In i acc /\ a <> i).
      { rewrite filter_In, negb_true_iff. split; intros [H1 H2]; split; try assumption.
        - intros ->. rewrite inst_eqb_refl in H2. discriminate.
        - destruct (inst_eqb a i) eqn:E; [|reflexivity]. apply inst_eqb_eq in E. contradiction. }
      destruct (inst_eqb a i) eqn:E.
      * apply inst_eqb_eq in E.
        rewrite (IH _ (Some false)).
        -- destruct (last_about i r (Some false)) as [[|]|] eqn:L; try tauto.
           exfalso. exact (last_about_some _ _ _ L).
        -- tauto.
      * assert (Hne : a <> i) by (intros ->; rewrite inst_eqb_refl in E; discriminate).
        rewrite (IH _ b).
        -- destruct (last_about i r b) as [[|]|]; tauto.
        -- destruct b as [[|]|]; tauto.
Qed.

Lemma resolve_svc ov ops s port o :
  In o (resolve (run ov ops) (HSVC s) port) <->
  let is := filter (fun i => i_svc i =? svc_base s) (registered ops []) in
  (is = [] /\ o = NoSvc) \/ (exists i, In i is /\ o = Delivered (i_ip i) (i_port i)).
Proof.
  cbn [resolve]. unfold instances. rewrite run_svcs.
  destruct (filter (fun i => i_svc i =? svc_base s) (registered ops [])) as [|x t] eqn:E; cbn zeta.
  - cbn [In]. split.
    + intros [<-|[]]. now left.
    + intros [[_ ->]|[i [[] _]]]. now left.
  - rewrite in_map_iff. split.
    + intros [i [<- Hi]]. right. now exists i.
    + intros [[H _]|[i [Hi ->]]]; [discriminate|]. now exists i.
Qed.

(** ------------------------------------------------------------------
    The oracle of the correspondence check holds on the model *)
Lemma oracle_model ov ops ty raw l4 pld q o :
  known ov ops ty raw l4 pld q = false ->
  In o (resolve_local_dst (run ov ops) ty raw l4 pld q) ->
  oracle ov ops ty raw l4 pld q o = true.
Proof.
  intros Hk Hin. unfold oracle. unfold resolve_local_dst in Hin.
  destruct (dst_addr ty raw) as [[ip|s]|] eqn:Ha; [| |reflexivity].
  - destruct (bad_ip ip) eqn:Hb; [reflexivity|].
    destruct (dst_scion_port l4 pld q) as [p|] eqn:Hp; [|reflexivity].
    rewrite (resolve_ip _ _ _ Hb), run_prov, configured_redirect in Hin.
    destruct Hin as [<-|[]]. cbn [outcome_eqb]. unfold expected_port.
    rewrite <- (in_range_documented ov ops p (known_false_corner _ _ _ _ _ _ _ _ _ Ha Hb Hp Hk)).
    apply andb_true_iff. split; [now apply bytes_eqb_eq | apply N.eqb_refl].
  - apply resolve_svc in Hin. cbn zeta in Hin.
    destruct Hin as [[He ->]|[i [Hi ->]]].
    + now rewrite He.
    + apply existsb_exists. exists i. split; [assumption|].
      apply andb_true_iff. split; [now apply bytes_eqb_eq | apply N.eqb_refl].
Qed.

(** ------------------------------------------------------------------
    Which port a packet documents (dstScionPort), in readable form *)

Lemma len_app_ge (a b : list N) : len a <= len (a ++ b).
Proof. unfold len. rewrite app_length. lia. Qed.

Ltac brk :=
  repeat match goal with
  | |- context [if ?c then _ else _] =>
    let E := fresh "E" in destruct c eqn:E; try reflexivity; try discriminate; try (exfalso; lia)
  end.

Lemma port_udp pld q : 8 <= len pld -> dst_scion_port L4UDP pld q = Ok (be16 pld 2).
Proof. intros H. unfold dst_scion_port. cbn [N.eqb L4UDP Pos.eqb]. brk. Qed.

Lemma port_tcp pld q : 20 <= len pld -> dst_scion_port L4TCP pld q = Ok (be16 pld 2).
Proof. intros H. unfold dst_scion_port. cbn [N.eqb L4UDP L4TCP Pos.eqb]. brk. Qed.

Lemma port_other l4 pld q : l4 <> L4UDP -> l4 <> L4TCP -> l4 <> L4SCMP -> dst_scion_port l4 pld q = Ok endhost_port.
Proof.
  intros H1 H2 H3. unfold dst_scion_port.
  apply N.eqb_neq in H1, H2, H3. now rewrite H1, H2, H3.
Qed.

Lemma port_echo_reply code c1 c2 i1 i2 s1 s2 rest q :
  dst_scion_port L4SCMP (EchoReply :: code :: c1 :: c2 :: i1 :: i2 :: s1 :: s2 :: rest) q = Ok (256 * i1 + i2).
Proof.
  unfold dst_scion_port, dst_port_scmp, len.
  cbn [N.eqb L4SCMP L4UDP L4TCP Pos.eqb nth skipn length EchoReply EchoRequest TracerouteRequest orb].
  brk.
Qed.

Lemma port_traceroute_reply code c1 c2 i1 i2 body q :
  18 <= len body ->
  dst_scion_port L4SCMP (TracerouteReply :: code :: c1 :: c2 :: i1 :: i2 :: body) q = Ok (256 * i1 + i2).
Proof.
  intros H. unfold dst_scion_port, dst_port_scmp, len in *.
  cbn [N.eqb L4SCMP L4UDP L4TCP Pos.eqb nth skipn length EchoReply EchoRequest TracerouteRequest
       TracerouteReply orb].
  brk.
Qed.

Lemma port_request ty code c1 c2 rest q :
  ty = EchoRequest \/ ty = TracerouteRequest ->
  dst_scion_port L4SCMP (ty :: code :: c1 :: c2 :: rest) q = Ok endhost_port.
Proof.
  intros H. unfold dst_scion_port, dst_port_scmp, len.
  cbn [N.eqb L4SCMP L4UDP L4TCP Pos.eqb nth length].
  destruct H as [-> | ->]; cbn [EchoRequest TracerouteRequest N.eqb Pos.eqb orb]; brk.
Qed.

(** an SCMP error: 4 bytes SCMP header, the message-specific header, then the quote *)
Lemma port_scmp_error ty code c1 c2 hdr quote proto off h :
  scmp_err_hdr ty = Some h -> length hdr = h -> quote <> [] ->
  dst_scion_port L4SCMP (ty :: code :: c1 :: c2 :: hdr ++ quote) (Some (proto, off)) =
  quoted_port proto (skipn off quote).
Proof.
  intros Hh Hl Hq. unfold dst_scion_port. cbn [N.eqb L4SCMP L4UDP L4TCP Pos.eqb].
  assert (H4 : (len (ty :: code :: c1 :: c2 :: hdr ++ quote) <? 4) = false).
  { unfold len. cbn [length]. apply N.ltb_ge. lia. }
  rewrite H4. unfold dst_port_scmp. cbn [nth skipn].
  assert (Hty : (ty =? EchoRequest) || (ty =? TracerouteRequest) = false /\
                (ty =? EchoReply) = false /\ (ty =? TracerouteReply) = false).
  { unfold scmp_err_hdr in Hh.
    destruct ty as [|p]; [discriminate|].
    repeat (destruct p as [p|p|]; try discriminate); repeat split; reflexivity. }
  destruct Hty as (H1 & H2 & H3). rewrite H1, H2, H3, Hh.
  assert (Hlen : (len (hdr ++ quote) <=? N.of_nat h) = false).
  { unfold len. rewrite app_length, Hl. destruct quote; [contradiction|]. cbn [length].
    apply N.leb_gt. lia. }
  rewrite Hlen. f_equal. subst h. rewrite skipn_app, skipn_all, Nat.sub_diag. reflexivity.
Qed.

Lemma quoted_udp l4 : 8 <= len l4 -> be16 l4 0 <> 0 -> quoted_port L4UDP l4 = Ok (be16 l4 0).
Proof.
  intros H Hz. unfold quoted_port. cbn [N.eqb L4UDP Pos.eqb].
  apply N.eqb_neq in Hz. rewrite Hz. brk.
Qed.

Lemma quoted_echo_request code c1 c2 i1 i2 s1 s2 rest :
  quoted_port L4SCMP (EchoRequest :: code :: c1 :: c2 :: i1 :: i2 :: s1 :: s2 :: rest) = Ok (256 * i1 + i2).
Proof.
  unfold quoted_port, len.
  cbn [N.eqb L4SCMP L4UDP Pos.eqb nth skipn length EchoRequest].
  change (128 <? 128) with false. cbn iota. brk.
Qed.

Lemma quoted_traceroute_request code c1 c2 i1 i2 body :
  18 <= len body ->
  quoted_port L4SCMP (TracerouteRequest :: code :: c1 :: c2 :: i1 :: i2 :: body) = Ok (256 * i1 + i2).
Proof.
  intros H. unfold quoted_port, len in *.
  cbn [N.eqb L4SCMP L4UDP Pos.eqb nth skipn length TracerouteRequest EchoRequest].
  change (130 <? 128) with false. cbn iota. brk.
Qed.
