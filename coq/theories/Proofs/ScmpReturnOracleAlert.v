(** C10, part 10 (audit follow-up): the oracle of the correspondence check holds on the model for
    traceroute requests answered at the position the case names — the composition of
    Proofs/ScmpReturnTrace.v (who raises the router-alert request, in which state, what the
    reply says) with Proofs/ScmpReturnOracle.v (the reply returns). *)
From Coq Require Import List NArith Bool Arith Lia ZifyBool ZifyN ZifyNat.
From Scion Require Import Lib.Check Lib.Bytes Model.Router Model.Network Model.Prov Model.RouterScmp
  Model.ScmpReturn.
From Scion Require Import Proofs.ProvStruct Proofs.ProvRender Proofs.ForwardView Proofs.ProvFacts
  Proofs.ForwardStep Proofs.Forward Proofs.RouterScmp Proofs.RouterPass
  Proofs.ScmpReturnPath Proofs.ScmpReturn Proofs.ScmpReturnMain Proofs.ScmpReturnOracle
  Proofs.ScmpReturnAlert Proofs.ScmpReturnTrace.
Import ListNotations.
Import Scion.Model.Router.Router Network Prov.

(** the oracle on a traceroute case = the oracle on the reply's way back + the traceroute clause *)
Lemma c10_ok_alert t p pp kx a e ka kc how id sq qnext qoff l r bk :
  ScmpReturn.c10_ok t p pp (ScmpReturn.PAlert kx a e) ka kc how (Some (id, sq)) qnext qoff l (RouterScmp.SReply r) bk =
  ScmpReturn.c10_ok t p pp ScmpReturn.PNone ka kc how None qnext qoff l (RouterScmp.SReply r) bk &&
  (let ifid := if (if cons p kx then a else e) then tr_in p kx else tr_eg p kx in
   (l_ia l =? ia p kx)%N && (l_rtr l =? ScmpReturn.owner_of t (ia p kx) ifid)%N &&
   ScmpReturn.tr_reply_ok (RouterScmp.r_l4 r) id sq (ia p kx) ifid).
Proof. unfold ScmpReturn.c10_ok. now rewrite andb_true_r. Qed.

Section OracleAlert.
Variable mac : N -> N -> N -> N -> N -> N -> list N.
Variable t : topology.
Variable now now' : N.
Variable p : prov.
Variable pp : pparams.
Hypothesis HG : good mac t p.
Hypothesis Hep : endpoints_ok t p pp = true.
Hypothesis Hexp : all_unexpired now p = true.
Hypothesis Hexp' : all_unexpired now' p = true.
Hypothesis Hsip : ScmpReturn.src_ip_ok pp = true.

Notation n := (nhops p).
Notation macq := (macq_of mac).
Notation asof := (as_of t p).
Notation eff := (ForwardStep.eff p).
Notation in_rtr := (ForwardStep.in_rtr t p).
Notation eg_rtr := (ForwardStep.eg_rtr t p).
Notation ret_hop := (ScmpReturn.ret_hop p).

(** the request carries identifier [id] and sequence number [sq]: the first four bytes behind
    the SCMP header of whatever the extension skippers find as upper layer *)
Definition carries (next : N) (raw : bytes) (id sq : N) : Prop :=
  forall ll, RouterScmp.last_layer next (RouterScmp.dropN (RouterScmp.lenN raw - pp_pay pp) raw) = Some ll ->
             firstn 4 (skipn 4 (snd ll)) = be 2 id ++ be 2 sq.

Lemma oracle_alert_core c ing req eg r how (ka kc : nat) (l : loc) next qnext qoff pt tc flow raw (kx : nat)
      (a e : bool) (id sq ifid : N) :
  (kc < n)%nat -> ing_how ing how -> req = SpAlertIngress \/ req = SpAlertEgress ->
  RouterScmp.slow_path ScmpReturn.no_cmac c ing req eg
    (RouterScmp.mkSpin (render p pp kc true) false tc flow next raw) false 0 = RouterScmp.SReply r ->
  c_ia c = ia p kc ->
  (forall j, (j < ret_hop kc)%nat -> ia p j <> ia p kc) ->
  ScmpReturn.reply_port (RouterScmp.r_l4 r) qnext qoff = Some pt ->
  match how with
  | ScmpReturn.AHost => l = mkLoc (ia p kc) (l_rtr l) InInt /\ kc = 0%nat
  | ScmpReturn.AExt =>
    (1 <= ret_hop kc)%nat /\ crosses p (ret_hop kc - 1) = true /\
    l = mkLoc (ia p kc) (l_rtr l) (InExt (tr_in p (ret_hop kc))) /\ ing = l_ing l
  | ScmpReturn.ASib =>
    (S kc < n)%nat /\ crosses p kc = true /\ (1 <= ret_hop kc)%nat /\ crosses p (ret_hop kc - 1) = true /\
    in_rtr (ret_hop kc) <> eg_rtr kc /\
    l = mkLoc (ia p kc) (eg_rtr kc) (InSib (in_rtr (ret_hop kc) + 1))
  end ->
  ia p kx = ia p kc -> l_ia l = ia p kc ->
  ifid = (if (if cons p kx then a else e) then tr_in p kx else tr_eg p kx) ->
  l_rtr l = ScmpReturn.owner_of t (ia p kx) ifid -> alert_ifid req ing eg = ifid ->
  carries next raw id sq ->
  ScmpReturn.c10_ok t p pp (ScmpReturn.PAlert kx a e) ka kc how (Some (id, sq)) qnext qoff l (RouterScmp.SReply r)
                    (ScmpReturn.go_back macq t now' l (RouterScmp.SReply r) qnext qoff) = true.
Proof.
  intros Hkc IH HR MR Cia NR RP Hl Ikx Il Eif Ow Ai Car.
  rewrite c10_ok_alert.
  rewrite (oracle_core mac t now' p pp HG Hep Hexp' Hsip c ing req eg
             (RouterScmp.mkSpin (render p pp kc true) false tc flow next raw) r how ka kc l qnext qoff pt
             Hkc IH eq_refl MR Cia NR RP Hl).
  cbn [andb]. cbv zeta. rewrite <- Eif. rewrite Il, Ikx, Ow, !N.eqb_refl. cbn [andb].
  destruct (alert_reply_content _ _ _ _ _ _ _ _ _ HR MR) as (ll & t0 & cd & c1 & c2 & rest & ck & LL & SL & L4).
  cbn [RouterScmp.sp_next RouterScmp.payload RouterScmp.hdr_bytes RouterScmp.sp_raw RouterScmp.sp_pkt] in LL.
  change (p_pay_actual (render p pp kc true)) with (pp_pay pp) in LL.
  pose proof (Car ll LL) as F4. rewrite SL in F4. cbn [skipn] in F4.
  rewrite L4, F4, Cia, Ai, <- Ikx.
  destruct (be2_two ck) as (x & y & ->).
  unfold ScmpReturn.tr_reply_ok. cbn [app]. unfold ScmpReturn.tr_reply_body.
  rewrite <- app_assoc, bytes_eqb_refl, !N.eqb_refl. reflexivity.
Qed.

(** what [clean_fault] says about a traceroute case, in terms of the traversal flags *)
Lemma clean_alert_cases kx a e ka kc how :
  ScmpReturn.clean_fault t p (ScmpReturn.PAlert kx a e) None ka kc how = true ->
  kx = kc /\
  ((in_flag p kx a e = true /\ eg_flag p kx a e = false /\ how = ScmpReturn.AExt /\
    kc = ScmpReturn.stop_hop p ka how ScmpReturn.KIngressAlert) \/
   (eg_flag p kx a e = true /\ in_flag p kx a e = false /\
    kc = ScmpReturn.stop_hop p ka how ScmpReturn.KEgress /\ (S kc < n)%nat /\
    ScmpReturn.owner_of t (ia p kc) (tr_eg p kc) = l_rtr (ScmpReturn.pos_loc t p ka how))).
Proof.
  unfold ScmpReturn.clean_fault, in_flag, eg_flag. intros H.
  apply andb_true_iff in H as [E H]. apply Nat.eqb_eq in E. split; [exact E|].
  assert (X : forall f1 f2 : bool,
    (f1 && negb f2 && Nat.eqb kc (ScmpReturn.stop_hop p ka how ScmpReturn.KIngressAlert) &&
      match how with ScmpReturn.AExt => true | _ => false end
     || f2 && negb f1 && Nat.eqb kc (ScmpReturn.stop_hop p ka how ScmpReturn.KEgress) && (S kc <? n)%nat &&
        (ScmpReturn.owner_of t (ia p kc) (tr_eg p kc) =? l_rtr (ScmpReturn.pos_loc t p ka how))%N) = true ->
    (f1 = true /\ f2 = false /\ how = ScmpReturn.AExt /\ kc = ScmpReturn.stop_hop p ka how ScmpReturn.KIngressAlert) \/
    (f2 = true /\ f1 = false /\ kc = ScmpReturn.stop_hop p ka how ScmpReturn.KEgress /\ (S kc < n)%nat /\
     ScmpReturn.owner_of t (ia p kc) (tr_eg p kc) = l_rtr (ScmpReturn.pos_loc t p ka how))).
  { intros f1 f2 G. apply orb_true_iff in G as [G|G].
    - left. apply andb_true_iff in G as [G Hw]. apply andb_true_iff in G as [G K].
      apply andb_true_iff in G as [F1 F2]. apply negb_true_iff in F2. apply Nat.eqb_eq in K.
      repeat split; try assumption. destruct how; try discriminate; reflexivity.
    - right. apply andb_true_iff in G as [G O]. apply andb_true_iff in G as [G S].
      apply andb_true_iff in G as [G K]. apply andb_true_iff in G as [F2 F1].
      apply negb_true_iff in F1. apply Nat.eqb_eq in K. apply Nat.ltb_lt in S. apply N.eqb_eq in O.
      repeat split; assumption. }
  destruct (cons p kx); [exact (X a e H)|exact (X e a H)].
Qed.

(** an arrival from the previous AS: the hop of the ingress interface is the hop itself *)
Lemma ret_hop_arrival k : (1 <= k)%nat -> (k < n)%nat -> crosses p (k - 1) = true -> ret_hop k = k.
Proof. intros K1 Hk C. rewrite ret_hop_entry. now apply (entry_same mac t now p pp HG Hep Hexp). Qed.

(** ** a traceroute request answered at the position the case names *)
Theorem oracle_alert hosts kx a e id sq tc flow next qnext qoff ka kc how srt raw r pt :
  let pf := ScmpReturn.PAlert kx a e in
  ScmpReturn.pos_ok t p ka how = true -> (kc < n)%nat -> ScmpReturn.no_revisit p kc = true ->
  ScmpReturn.clean_fault t p pf None ka kc how = true ->
  carries next raw id sq ->
  let m := ScmpReturn.model_q macq t hosts now now' p pp pf None tc flow next qnext qoff srt raw in
  (exists res, ScmpReturn.m_stop m =
               Some (ScmpReturn.pos_loc t p ka how, ScmpReturn.apply_pfault pf (ScmpReturn.pos_pkt p pp ka how), res)) ->
  ScmpReturn.m_reply m = RouterScmp.SReply r ->
  ScmpReturn.reply_port (RouterScmp.r_l4 r) qnext qoff = Some pt ->
  ScmpReturn.c10_ok t p pp pf ka kc how (Some (id, sq)) qnext qoff (ScmpReturn.pos_loc t p ka how)
                    (ScmpReturn.m_reply m) (ScmpReturn.m_back m) = true.
Proof.
  intros pf PO Hkc NR CF Car m MS MR RP.
  pose proof (n_ge2 _ _ _ HG) as N2.
  unfold m, ScmpReturn.model_q in MS, MR |- *. unfold pf in *. cbn [ScmpReturn.apply_pfault] in *.
  set (sent := ScmpReturn.set_alerts kx a e (render p pp 0 false)) in *.
  set (w := ScmpReturn.run_x macq t None now (fuel_for sent) (mkLoc (p_src_ia sent) srt InInt) sent) in *.
  destruct (snd w) as [f|l inp req eg out] eqn:W; [destruct MS as [? MS]; discriminate MS|].
  assert (Hw : w = (fst w, ScmpReturn.XSlow l inp req eg out)) by (rewrite <- W; now destruct w).
  destruct (run_x_slow _ _ _ _ _ _ _ _ _ _ _ _ _ Hw) as (a0 & Fa & Ia & P).
  rewrite Fa in MS, MR |- *. cbn [ScmpReturn.m_stop ScmpReturn.m_reply ScmpReturn.m_back] in *.
  destruct MS as [res MS]. injection MS as El Einp _. subst l inp.
  destruct (clean_alert_cases kx a e ka kc how CF) as [Ekx Cases]. subst kx.
  unfold ScmpReturn.pos_ok in PO. apply andb_true_iff in PO as [Hka PO]. apply Nat.ltb_lt in Hka.
  set (lp := ScmpReturn.pos_loc t p ka how) in *.
  cbn [ScmpReturn.cfg_x] in P, MR |- *.
  pose proof (revisit_prop t now now' p pp kc NR) as Hret.
  assert (Ila : l_ia lp = ia p ka) by (unfold lp, ScmpReturn.pos_loc; destruct how; reflexivity).
  destruct (as_of_ok _ _ _ HG ka Hka) as [Aka Ika].
  rewrite Ila, Aka in Fa. injection Fa as <-.
  rewrite MR. unfold ScmpReturn.answer in MR.
  set (c := ScmpReturn.with_host (cfg_of (asof ka) (l_rtr lp)) (ScmpReturn.host_of hosts (l_ia lp) (l_rtr lp))) in *.
  assert (Cia : c_ia c = ia p ka) by (unfold c; cbn [ScmpReturn.with_host c_ia cfg_of]; exact Ika).
  destruct Cases as [(Fi & Fe & Eh & Ekc)|(Fe & Fi & Ekc & Skc & Ow)].
  - (* the ingress flag, answered by the router that got the packet over that interface *)
    subst how. cbn [ScmpReturn.stop_hop] in Ekc. subst kc.
    apply andb_true_iff in PO as [K1 Cp]. apply Nat.leb_le in K1.
    pose proof (ingress_flag_answer mac t now p pp HG Hep Hexp (render p pp ka false) ka (l_rtr lp) a e
                  (view_render p pp n _ ka false) Hka K1 Cp Fi Fe) as FA.
    unfold ScmpReturn.pos_pkt in P. change (l_ing lp) with (InExt (tr_in p ka)) in P.
    rewrite FA in P. injection P as <- <- <-.
    pose proof (ret_hop_arrival ka K1 Hka Cp) as RE.
    eapply (oracle_alert_core c (InExt (tr_in p ka)) SpAlertIngress 0 r ScmpReturn.AExt ka ka lp next qnext qoff pt
              tc flow raw ka a e id sq (tr_in p ka)); try eassumption; try reflexivity; try exact I; try (now left); try (now right).
    + rewrite RE. split; [exact K1|]. split; [exact Cp|]. split; reflexivity.
    + unfold in_flag in Fi. now rewrite Fi.
  - destruct how.
    + (* the egress flag of the first hop, answered by the first router *)
      apply Nat.eqb_eq in PO. subst ka.
      cbn [ScmpReturn.stop_hop] in Ekc. rewrite (eff_model p) in Ekc.
      assert (E0 : eff 0 = 0%nat) by apply (eff_0 mac t now p pp HG Hep Hexp).
      rewrite E0 in Ekc. subst kc.
      assert (Er : eg_rtr (eff 0) = l_rtr lp).
      { rewrite E0. rewrite <- Ow. now rewrite owner_nif. }
      pose proof (egress_flag_answer mac t now p pp HG Hep Hexp (render p pp 0 false) 0 InInt (l_rtr lp) a e
                    (view_render p pp n _ 0 false) ltac:(lia) (or_introl (conj eq_refl eq_refl))
                    (fun _ => eq_sym Er) Er ltac:(now rewrite E0) ltac:(now rewrite E0)) as FA.
      rewrite E0 in FA. unfold ScmpReturn.pos_pkt in P. change (l_ing lp) with InInt in P.
      rewrite FA in P. injection P as <- <- <-.
      eapply (oracle_alert_core c InInt SpAlertEgress (tr_eg p 0) r ScmpReturn.AHost 0 0 lp next qnext qoff pt
                tc flow raw 0 a e id sq (tr_eg p 0)); try eassumption; try reflexivity; try exact I; try (now left); try (now right).
      * split; reflexivity.
      * unfold in_flag in Fi. now rewrite Fi.
      * now rewrite Ow.
    + (* the egress flag, answered by the router that got the packet from the previous AS and owns the interface *)
      apply andb_true_iff in PO as [K1 Cp]. apply Nat.leb_le in K1.
      cbn [ScmpReturn.stop_hop] in Ekc. rewrite (eff_model p) in Ekc. subst kc.
      assert (Hk1 : (S ka < n)%nat).
      { unfold ForwardStep.eff in Skc. destruct (crosses p ka || Nat.eqb (S ka) n); lia. }
      assert (Er : eg_rtr (eff ka) = l_rtr lp) by (rewrite <- Ow; now rewrite owner_nif).
      pose proof (egress_flag_answer mac t now p pp HG Hep Hexp (render p pp ka false) ka (InExt (tr_in p ka)) (l_rtr lp) a e
                    (view_render p pp n _ ka false) Hk1 (or_intror (conj K1 (conj Cp eq_refl)))
                    ltac:(intros; lia) Er Fe Fi) as FA.
      unfold ScmpReturn.pos_pkt in P. change (l_ing lp) with (InExt (tr_in p ka)) in P.
      rewrite FA in P. injection P as <- <- <-.
      pose proof (ret_hop_eff mac t now now' p pp HG Hep Hexp ka Hk1 (or_intror Cp)) as RE.
      pose proof (ret_hop_ia mac t p pp HG now' (eff ka) Hkc) as RI. rewrite RE in RI.
      eapply (oracle_alert_core c (InExt (tr_in p ka)) SpAlertEgress (tr_eg p (eff ka)) r ScmpReturn.AExt ka (eff ka) lp
                next qnext qoff pt tc flow raw (eff ka) a e id sq (tr_eg p (eff ka))); try eassumption; try reflexivity; try exact I; try (now left); try (now right).
      all: try (now rewrite <- RI).
      all: try (unfold in_flag in Fi; now rewrite Fi).
      all: try (now rewrite Ow).
      rewrite RE. split; [exact K1|]. split; [exact Cp|]. split; [|reflexivity].
      unfold lp, ScmpReturn.pos_loc. cbn [l_rtr]. now rewrite RI.
    + (* the egress flag, answered by the egress router that got the packet from its sibling *)
      cbn [ScmpReturn.stop_hop] in Ekc. subst kc.
      apply andb_true_iff in PO as [PO Hne]. apply andb_true_iff in PO as [PO C0].
      apply andb_true_iff in PO as [PO K0]. apply andb_true_iff in PO as [Hk1 C].
      apply Nat.ltb_lt in Hk1. apply Nat.leb_le in K0.
      rewrite !owner_nif in Hne. apply negb_true_iff, N.eqb_neq in Hne.
      fold (in_rtr (ret_hop ka)) in Hne. fold (eg_rtr ka) in Hne.
      pose proof (ret_hop_ia mac t p pp HG now' ka Hka) as RI.
      assert (Elp : lp = mkLoc (ia p ka) (eg_rtr ka) (InSib (in_rtr (ret_hop ka) + 1))).
      { unfold lp, ScmpReturn.pos_loc. now rewrite !owner_nif. }
      pose proof (egress_flag_answer_sibling mac t now p pp HG Hep Hexp (render p pp ka true) ka (ret_hop ka) a e
                    (view_render p pp n _ ka true) Hk1 C (eq_sym (ret_hop_entry p ka)) K0 C0
                    (as_of_same t p _ _ RI) Hne Fe Fi) as FA.
      unfold ScmpReturn.pos_pkt in P. rewrite Elp in P. cbn [l_rtr l_ing] in P.
      rewrite FA in P. injection P as <- <- <-.
      eapply (oracle_alert_core c (InSib (in_rtr (ret_hop ka) + 1)) SpAlertEgress (tr_eg p ka) r ScmpReturn.ASib ka ka lp
                next qnext qoff pt tc flow raw ka a e id sq (tr_eg p ka)); try eassumption; try reflexivity; try exact I; try (now left); try (now right).
      all: try (unfold in_flag in Fi; now rewrite Fi).
      all: try (now rewrite Ow).
      repeat split; assumption.
Qed.

(** ** interface faults and traceroute requests together *)
Theorem oracle_partial hosts pf fa tc flow next qnext qoff ka kc how trq srt raw r pt :
  ScmpReturn.pos_ok t p ka how = true -> (kc < n)%nat -> ScmpReturn.no_revisit p kc = true ->
  ScmpReturn.clean_fault t p pf fa ka kc how = true -> ScmpReturn.alert_req_ok pf trq = true ->
  (forall id sq, trq = Some (id, sq) -> carries next raw id sq) ->
  let m := ScmpReturn.model_q macq t hosts now now' p pp pf fa tc flow next qnext qoff srt raw in
  (exists res, ScmpReturn.m_stop m =
               Some (ScmpReturn.pos_loc t p ka how, ScmpReturn.apply_pfault pf (ScmpReturn.pos_pkt p pp ka how), res)) ->
  ScmpReturn.m_reply m = RouterScmp.SReply r ->
  ScmpReturn.reply_port (RouterScmp.r_l4 r) qnext qoff = Some pt ->
  ScmpReturn.c10_ok t p pp pf ka kc how trq qnext qoff (ScmpReturn.pos_loc t p ka how)
                    (ScmpReturn.m_reply m) (ScmpReturn.m_back m) = true.
Proof.
  intros PO Hkc NR CF AR Car m MS MR RP.
  destruct pf as [|f idx v|kx a e].
  - destruct fa as [[fia [frt cf]]|]; [|discriminate CF].
    pose proof (oracle_fault mac t now now' p pp HG Hep Hexp Hexp' Hsip hosts fia frt cf tc flow next qnext qoff
                  ka kc how srt raw r pt PO Hkc NR CF MS MR RP) as O.
    fold m in O. rewrite MR in O |- *. unfold ScmpReturn.c10_ok in O |- *. exact O.
  - discriminate CF.
  - destruct fa; [discriminate CF|].
    destruct trq as [[id sq]|]; [|discriminate AR].
    exact (oracle_alert hosts kx a e id sq tc flow next qnext qoff ka kc how srt raw r pt PO Hkc NR CF
             (Car id sq eq_refl) MS MR RP).
Qed.

End OracleAlert.
