(** Lemmas for Model/RouterBytes.v, part 1: the codec between the router's record (Model/Router.v)
    and the bytes of the SCION header as decoded by the C18 model.
      - field level: [rinfo_dec]/[enc_info], [rhop_dec]/[enc_hop] are inverse of each other
        EXACTLY (no mask: the record keeps the reserved bits), same for the meta header;
      - [raw_decode_view] / [raw_decode_enc]: a [scion.Raw] accepted by C18's [raw_decode] is the
        encoding of the fields [path_fields] reads, and conversely;
      - [scion_decode_view]: the SCION header around the path, and what the decoder returns when
        the path bytes are replaced;
      - [abstract_view]: [abstract_res raw = ARec p] iff raw = pre ++ enc_path p ++ post, and
        replacing the path header by the encoding of a compatible record [q] re-decodes to [q]. *)
From Coq Require Import List Arith NArith ZArith Bool Lia ZifyN ZifyNat ZifyBool.
From Scion Require Import Lib.Bytes Lib.BytesX Lib.Check.
From Scion Require Import Model.HdrPath Proofs.HdrPath Model.HdrScion Proofs.HdrScion.
From Scion Require Import Model.Router Model.RouterTotal Model.RouterBytes.
Import ListNotations.
Local Open Scope N_scope.
Ltac Zify.zify_post_hook ::= Z.div_mod_to_equations.

Module R := Scion.Model.Router.Router.
Module HP := Scion.Model.HdrPath.HdrPath.
Module HS := Scion.Model.HdrScion.HdrScion.
Import RouterBytes.

(** ------------------------------------------------------------ fields *)
Definition wf_rinfo (i : R.info) : Prop :=
  R.i_segid i < 65536 /\ R.i_ts i < 4294967296 /\ R.i_rsv i < 65536 /\ (R.i_rsv i / 256) mod 4 = 0.
Definition wf_rhop (h : R.hop) : Prop :=
  R.h_exp h < 256 /\ R.h_in h < 65536 /\ R.h_eg h < 65536 /\
  length (R.h_mac h) = HP.mac_len /\ wf_bytes (R.h_mac h) /\ R.h_rsv h < 256 /\ R.h_rsv h mod 4 = 0.

Lemma one_be a : a < 256 -> [a] = be 1 a.
Proof. intros H. rewrite be_1. now rewrite N.mod_small. Qed.

Lemma flags_small a b : HP.b2n a + 2 * HP.b2n b < 4.
Proof. destruct a, b; vm_compute; reflexivity. Qed.

Lemma bit_add4 k a b : k mod 4 = 0 ->
  HP.bit (k + (HP.b2n a + 2 * HP.b2n b)) 0 = a /\ HP.bit (k + (HP.b2n a + 2 * HP.b2n b)) 1 = b.
Proof.
  intros H. unfold HP.bit. change (2 ^ 0) with 1. change (2 ^ 1) with 2.
  destruct a, b; cbn [HP.b2n]; split;
    match goal with |- (?x =? 1) = true => apply N.eqb_eq | |- (?x =? 1) = false => apply N.eqb_neq end; lia.
Qed.

Lemma enc_info_length i : length (enc_info i) = HP.info_len.
Proof. unfold enc_info, HP.info_len. len_norm. reflexivity. Qed.

Lemma enc_hop_length h : length (enc_hop h) = HP.hop_len.
Proof. unfold enc_hop, HP.hop_len, HP.mac_len. len_norm. reflexivity. Qed.

Lemma rinfo_dec_enc i rest : wf_rinfo i -> rinfo_dec (enc_info i ++ rest) = Ok (i, rest).
Proof.
  intros (Hs & Ht & Hr & Hm). unfold rinfo_dec, HP.info_decode.
  rewrite ltb_false by (rewrite app_length, enc_info_length; lia).
  pose proof (flags_small (R.i_consdir i) (R.i_peer i)) as Hf.
  set (k := R.i_rsv i / 256) in *.
  assert (Hk : k < 256) by (subst k; lia).
  unfold info_rsv. unfold enc_info at 2 3. fold k. cbn [app nth].
  unfold enc_info. fold k.
  change ([k + (HP.b2n (R.i_consdir i) + 2 * HP.b2n (R.i_peer i)); R.i_rsv i mod 256] ++
          be 2 (R.i_segid i) ++ be 4 (R.i_ts i))
    with ([k + (HP.b2n (R.i_consdir i) + 2 * HP.b2n (R.i_peer i))] ++ [R.i_rsv i mod 256] ++
          be 2 (R.i_segid i) ++ be 4 (R.i_ts i)).
  rewrite (one_be (k + _)) by lia. rewrite (one_be (R.i_rsv i mod 256)) by lia.
  rewrite <- !app_assoc.
  do 4 (rewrite wordP_be_small by lt_pow; cbn [bind]).
  destruct (bit_add4 k (R.i_consdir i) (R.i_peer i) Hm) as [-> ->].
  cbn [HP.i_peer HP.i_consdir HP.i_segid HP.i_ts].
  assert (E : rsv6 (k + (HP.b2n (R.i_consdir i) + 2 * HP.b2n (R.i_peer i))) * 256 + R.i_rsv i mod 256 = R.i_rsv i).
  { unfold rsv6. subst k. lia. }
  rewrite E. destruct i; reflexivity.
Qed.

Lemma rinfo_enc_dec bs i rest : wf_bytes bs -> rinfo_dec bs = Ok (i, rest) ->
  enc_info i ++ rest = bs /\ wf_rinfo i /\ wf_bytes rest.
Proof.
  intros W. unfold rinfo_dec, HP.info_decode.
  destruct (Nat.ltb (length bs) HP.info_len); [discriminate|].
  do 4 inv_word.
  intros H; inversion H; subst; clear H.
  unfold info_rsv. rewrite !be_1. cbn [app nth].
  pow256. rewrite !N.mod_small by lia.
  unfold enc_info. cbn [R.i_rsv R.i_consdir R.i_peer R.i_segid R.i_ts].
  rewrite bit_mod4.
  split; [| split; [| assumption]].
  - cbn [app]. unfold rsv6. f_equal; [lia|]. f_equal. lia.
  - unfold wf_rinfo, rsv6. cbn. repeat split; lia.
Qed.

Lemma rinfo_no_panic bs : rinfo_dec bs <> Panic.
Proof.
  unfold rinfo_dec. pose proof (info_no_panic bs).
  destruct (HP.info_decode bs) as [[i r]| |]; cbn [bind]; congruence.
Qed.

Lemma rinfo_err_iff bs : rinfo_dec bs = Err <-> (length bs < HP.info_len)%nat.
Proof.
  rewrite <- info_err_iff. unfold rinfo_dec.
  destruct (HP.info_decode bs) as [[i r]| |]; cbn [bind]; split; congruence.
Qed.

Lemma rhop_dec_enc h rest : wf_rhop h -> rhop_dec (enc_hop h ++ rest) = Ok (h, rest).
Proof.
  intros (He & Hi & Hg & Hl & Hw & Hr & Hm). unfold rhop_dec, HP.hop_decode.
  rewrite ltb_false by (rewrite app_length, enc_hop_length; lia).
  pose proof (flags_small (R.h_ealert h) (R.h_ialert h)) as Hf.
  set (k := R.h_rsv h) in *.
  unfold hop_rsv. unfold enc_hop at 2. fold k. cbn [app nth].
  unfold enc_hop. fold k.
  change ([k + (HP.b2n (R.h_ealert h) + 2 * HP.b2n (R.h_ialert h)); R.h_exp h mod 256] ++
          be 2 (R.h_in h) ++ be 2 (R.h_eg h) ++ fit HP.mac_len (R.h_mac h))
    with ([k + (HP.b2n (R.h_ealert h) + 2 * HP.b2n (R.h_ialert h))] ++ [R.h_exp h mod 256] ++
          be 2 (R.h_in h) ++ be 2 (R.h_eg h) ++ fit HP.mac_len (R.h_mac h)).
  rewrite (one_be (k + _)) by lia. rewrite (one_be (R.h_exp h mod 256)) by lia.
  rewrite <- !app_assoc.
  do 4 (rewrite wordP_be_small by lt_pow; cbn [bind]).
  rewrite (fit_exact _ _ Hl). rewrite takeP_app' by exact Hl. cbn [bind].
  destruct (bit_add4 k (R.h_ealert h) (R.h_ialert h) Hm) as [-> ->].
  cbn [HP.h_ingress_alert HP.h_egress_alert HP.h_exp HP.h_ci HP.h_ce HP.h_mac].
  assert (E : rsv6 (k + (HP.b2n (R.h_ealert h) + 2 * HP.b2n (R.h_ialert h))) = R.h_rsv h).
  { unfold rsv6. subst k. lia. }
  rewrite E. rewrite N.mod_small by lia. destruct h; reflexivity.
Qed.

Lemma rhop_enc_dec bs h rest : wf_bytes bs -> rhop_dec bs = Ok (h, rest) ->
  enc_hop h ++ rest = bs /\ wf_rhop h /\ wf_bytes rest.
Proof.
  intros W. unfold rhop_dec, HP.hop_decode.
  destruct (Nat.ltb (length bs) HP.hop_len); [discriminate|].
  do 4 inv_word. inv_take.
  intros H; inversion H; subst; clear H.
  unfold hop_rsv. rewrite !be_1. cbn [app nth].
  pow256. rewrite !N.mod_small by lia.
  unfold enc_hop. cbn [R.h_rsv R.h_ealert R.h_ialert R.h_exp R.h_in R.h_eg R.h_mac].
  rewrite bit_mod4. rewrite (fit_exact _ _ Ha).
  split; [| split; [| assumption]].
  - cbn [app]. unfold rsv6. rewrite (N.mod_small n0 256) by lia. rewrite <- !app_assoc. cbn [app]. f_equal. lia.
  - unfold wf_rhop, rsv6. cbn. repeat split; try lia; assumption.
Qed.

Lemma rhop_no_panic bs : rhop_dec bs <> Panic.
Proof.
  unfold rhop_dec. pose proof (hop_no_panic bs).
  destruct (HP.hop_decode bs) as [[i r]| |]; cbn [bind]; congruence.
Qed.

Lemma rhop_err_iff bs : rhop_dec bs = Err <-> (length bs < HP.hop_len)%nat.
Proof.
  rewrite <- hop_err_iff. unfold rhop_dec.
  destruct (HP.hop_decode bs) as [[i r]| |]; cbn [bind]; split; congruence.
Qed.

(** ------------------------------------------------------------ instances of the list reader *)
Definition idm (l : bytes) : bytes := l.
Lemma idm_len l : length (idm l) = length l. Proof. reflexivity. Qed.

Definition read_rinfos_enc := read_list_enc HP.info_len rinfo_dec enc_info wf_rinfo enc_info_length rinfo_dec_enc.
Definition read_rhops_enc := read_list_enc HP.hop_len rhop_dec enc_hop wf_rhop enc_hop_length rhop_dec_enc.
Definition read_rinfos_inv := read_list_inv HP.info_len rinfo_dec enc_info wf_rinfo idm
  enc_info_length idm_len rinfo_dec_enc rinfo_enc_dec rinfo_no_panic rinfo_err_iff.
Definition read_rhops_inv := read_list_inv HP.hop_len rhop_dec enc_hop wf_rhop idm
  enc_hop_length idm_len rhop_dec_enc rhop_enc_dec rhop_no_panic rhop_err_iff.
Definition read_rinfos_no_panic := read_list_no_panic HP.info_len rinfo_dec enc_info wf_rinfo idm
  enc_info_length idm_len rinfo_dec_enc rinfo_enc_dec rinfo_no_panic rinfo_err_iff.
Definition read_rhops_no_panic := read_list_no_panic HP.hop_len rhop_dec enc_hop wf_rhop idm
  enc_hop_length idm_len rhop_dec_enc rhop_enc_dec rhop_no_panic rhop_err_iff.
Definition read_rinfos_not_err := read_list_not_err HP.info_len rinfo_dec enc_info wf_rinfo idm
  enc_info_length idm_len rinfo_dec_enc rinfo_enc_dec rinfo_no_panic rinfo_err_iff.
Definition read_rhops_not_err := read_list_not_err HP.hop_len rhop_dec enc_hop wf_rhop idm
  enc_hop_length idm_len rhop_dec_enc rhop_enc_dec rhop_no_panic rhop_err_iff.

Lemma mask_chunks_id k n : forall l, HP.mask_chunks k idm n idm l = l.
Proof.
  induction n as [|n IH]; intros l; cbn [HP.mask_chunks]; [reflexivity|].
  rewrite IH. unfold idm. apply firstn_skipn.
Qed.


(** ------------------------------------------------------------ meta header *)
Definition line_of (ci ch rsv s0 s1 s2 : N) : N :=
  ci * 1073741824 + ch * 16777216 + rsv * 262144 + s0 * 4096 + s1 * 64 + s2.

Lemma enc_meta_line ci ch rsv s0 s1 s2 :
  ci < 4 -> ch < 64 -> rsv < 64 -> s0 < 64 -> s1 < 64 -> s2 < 64 ->
  enc_meta_f ci ch rsv s0 s1 s2 = be 4 (line_of ci ch rsv s0 s1 s2).
Proof.
  intros. unfold enc_meta_f, line_of. rewrite !N.mod_small by lia.
  cbn [be app]. f_equal; [lia | f_equal; [lia | f_equal; [lia | f_equal; lia]]].
Qed.

Lemma enc_meta_length ci ch rsv s0 s1 s2 : length (enc_meta_f ci ch rsv s0 s1 s2) = HP.meta_len.
Proof. unfold enc_meta_f. len_norm. reflexivity. Qed.

Lemma line_of_lt ci ch rsv s0 s1 s2 :
  ci < 4 -> ch < 64 -> rsv < 64 -> s0 < 64 -> s1 < 64 -> s2 < 64 ->
  line_of ci ch rsv s0 s1 s2 < 4294967296.
Proof. intros. unfold line_of. lia. Qed.

Lemma meta_dec_enc_rsv ci ch rsv s0 s1 s2 rest :
  ci < 4 -> ch < 64 -> rsv < 64 -> s0 < 64 -> s1 < 64 -> s2 < 64 ->
  HP.meta_decode (enc_meta_f ci ch rsv s0 s1 s2 ++ rest) = Ok (HP.mkMeta ci ch s0 s1 s2, rest) /\
  meta_rsv (enc_meta_f ci ch rsv s0 s1 s2) = rsv.
Proof.
  intros H1 H2 H3 H4 H5 H6. rewrite enc_meta_line by assumption.
  pose proof (line_of_lt _ _ _ _ _ _ H1 H2 H3 H4 H5 H6) as L.
  destruct (groups_fields ci ch rsv s0 s1 s2 H1 H2 H3 H4 H5 H6) as (F1 & F2 & F3 & F4 & F5 & F6).
  cbv zeta in *. fold (line_of ci ch rsv s0 s1 s2) in *.
  split.
  - unfold HP.meta_decode. rewrite ltb_false by (rewrite app_length, be_length; unfold HP.meta_len; lia).
    rewrite wordP_be_small by lt_pow. cbn [bind]. unfold HP.meta_of_line. pows.
    now rewrite F1, F2, F4, F5, F6.
  - unfold meta_rsv. rewrite firstn_all2 by (rewrite be_length; lia).
    rewrite unbe_be_small by lt_pow. pows. exact F3.
Qed.

Lemma meta_enc_dec_rsv bs m rest : wf_bytes bs -> HP.meta_decode bs = Ok (m, rest) ->
  bs = enc_meta_f (HP.m_currinf m) (HP.m_currhf m) (meta_rsv bs) (HP.m_seg0 m) (HP.m_seg1 m) (HP.m_seg2 m) ++ rest /\
  HP.wf_meta m /\ meta_rsv bs < 64 /\ wf_bytes rest /\ meta_rsv (firstn HP.meta_len bs) = meta_rsv bs.
Proof.
  intros W. unfold HP.meta_decode. destruct (Nat.ltb (length bs) HP.meta_len); [discriminate|].
  inv_word. intros H; inversion H; subst; clear H.
  assert (Hl : n < 4294967296) by (cbn in Hn; lia).
  destruct (line_groups n Hl) as (a & b & r & c & d & e & Ha & Hb & Hr & Hc & Hd & He & E).
  destruct (groups_fields a b r c d e Ha Hb Hr Hc Hd He) as (F1 & F2 & F3 & F4 & F5 & F6).
  cbv zeta in *. rewrite <- E in *.
  assert (R : meta_rsv (be 4 n ++ rest) = r).
  { unfold meta_rsv. rewrite firstn_app_exact by apply be_length.
    rewrite unbe_be_small by lt_pow. pows. exact F3. }
  rewrite R. unfold HP.meta_of_line. pows. cbn [HP.m_currinf HP.m_currhf HP.m_seg0 HP.m_seg1 HP.m_seg2].
  rewrite F1, F2, F4, F5, F6.
  split; [| split; [| split; [| split]]].
  - rewrite enc_meta_line by assumption. unfold line_of. now rewrite <- E.
  - unfold HP.wf_meta. cbn. auto.
  - exact Hr.
  - exact W0.
  - unfold HP.meta_len. rewrite firstn_app_exact by apply be_length.
    unfold meta_rsv. rewrite firstn_all2 by (rewrite be_length; lia).
    rewrite unbe_be_small by lt_pow. pows. exact F3.
Qed.


(** ------------------------------------------------------------ Base: NumINF / NumHops *)
Definition numinf_of (s0 s1 s2 : N) : N :=
  if 0 <? s2 then 3 else if 0 <? s1 then 2 else if 0 <? s0 then 1 else 0.
Definition seglen_okb (s0 s1 s2 : N) : bool :=
  negb ((0 <? s2) && ((s1 =? 0) || (s0 =? 0))) && negb ((s2 =? 0) && (0 <? s1) && (s0 =? 0)).

Lemma base_fold s0 s1 s2 :
  fold_left HP.base_step [(2, s2); (1, s1); (0, s0)] (Ok (0, 0)) =
  if seglen_okb s0 s1 s2 then Ok (numinf_of s0 s1 s2, s0 + s1 + s2) else Err.
Proof.
  unfold numinf_of, seglen_okb. cbn [fold_left]. unfold HP.base_step. cbn [bind].
  destruct (N.eqb_spec s2 0) as [->|N2]; [|assert (0 <? s2 = true) as -> by (apply N.ltb_lt; lia)];
  (destruct (N.eqb_spec s1 0) as [->|N1]; [|assert (0 <? s1 = true) as -> by (apply N.ltb_lt; lia)]);
  (destruct (N.eqb_spec s0 0) as [->|N0]; [|assert (0 <? s0 = true) as -> by (apply N.ltb_lt; lia)]);
  cbn; try reflexivity; f_equal; f_equal; lia.
Qed.

Lemma base_of_meta_nums m b : HP.base_of_meta m = Ok b ->
  HP.b_meta b = m /\ HP.b_numinf b = numinf_of (HP.m_seg0 m) (HP.m_seg1 m) (HP.m_seg2 m) /\
  HP.b_numhops b = HP.m_seg0 m + HP.m_seg1 m + HP.m_seg2 m /\
  seglen_okb (HP.m_seg0 m) (HP.m_seg1 m) (HP.m_seg2 m) = true /\ HP.b_numhops b <= 64.
Proof.
  intros H. pose proof (base_of_meta_hops _ _ H) as [Hh _]. revert H.
  unfold HP.base_of_meta. rewrite base_fold.
  destruct (seglen_okb _ _ _); cbn [bind]; [|discriminate].
  destruct (HP.max_hops <? _); [discriminate|].
  intros X; inversion X; subst; clear X. cbn in *. auto.
Qed.

Lemma base_of_meta_segs m m' b : HP.base_of_meta m = Ok b ->
  HP.m_seg0 m' = HP.m_seg0 m -> HP.m_seg1 m' = HP.m_seg1 m -> HP.m_seg2 m' = HP.m_seg2 m ->
  HP.base_of_meta m' = Ok (HP.mkBase m' (HP.b_numinf b) (HP.b_numhops b)).
Proof.
  unfold HP.base_of_meta. intros H E0 E1 E2. rewrite E0, E1, E2.
  destruct (fold_left HP.base_step _ _) as [[ninf nh]| |]; cbn [bind] in *; try discriminate.
  destruct (HP.max_hops <? nh); [discriminate|]. inversion H; subst. reflexivity.
Qed.

(** ------------------------------------------------------------ scion.Raw <-> the router's fields *)
Definition enc_fields (ci ch rsv s0 s1 s2 : N) (infos : list R.info) (hops : list R.hop) : bytes :=
  enc_meta_f ci ch rsv s0 s1 s2 ++ concat (map enc_info infos) ++ concat (map enc_hop hops).

Lemma enc_fields_length ci ch rsv s0 s1 s2 infos hops :
  length (enc_fields ci ch rsv s0 s1 s2 infos hops) =
  (HP.meta_len + length infos * HP.info_len + length hops * HP.hop_len)%nat.
Proof.
  unfold enc_fields. rewrite !app_length, enc_meta_length.
  rewrite (concat_length_const enc_info HP.info_len) by apply enc_info_length.
  rewrite (concat_length_const enc_hop HP.hop_len) by apply enc_hop_length. lia.
Qed.

Lemma enc_path_fields q :
  enc_path q = enc_fields (R.p_curr_inf q) (R.p_curr_hf q) (R.p_meta_rsv q) (R.p_seg0 q) (R.p_seg1 q)
                          (R.p_seg2 q) (R.p_infos q) (R.p_hops q).
Proof. reflexivity. Qed.

Lemma raw_decode_view bs rp rest : wf_bytes bs -> HP.raw_decode bs = Ok (rp, rest) ->
  let m := HP.b_meta (HP.rp_base rp) in
  exists rsv infos hops,
    path_fields rp = Ok (rsv, infos, hops) /\
    HP.rp_raw rp = enc_fields (HP.m_currinf m) (HP.m_currhf m) rsv (HP.m_seg0 m) (HP.m_seg1 m) (HP.m_seg2 m)
                              infos hops /\
    bs = HP.rp_raw rp ++ rest /\ HP.wf_meta m /\ rsv < 64 /\
    HP.base_of_meta m = Ok (HP.rp_base rp) /\
    length infos = N.to_nat (HP.b_numinf (HP.rp_base rp)) /\
    length hops = N.to_nat (HP.b_numhops (HP.rp_base rp)) /\
    Forall wf_rinfo infos /\ Forall wf_rhop hops /\ wf_bytes rest.
Proof.
  intros W. unfold HP.raw_decode.
  destruct (HP.base_decode bs) as [[b r0]| |] eqn:Eb; cbn [bind]; try discriminate.
  destruct (Nat.ltb (length bs) (HP.base_len b)) eqn:L; [discriminate|]. apply Nat.ltb_ge in L.
  destruct (takeP (HP.base_len b) bs) as [[raw rest']| |] eqn:Et; cbn [bind]; try discriminate.
  intros H; inversion H; subst; clear H. cbn [HP.rp_base HP.rp_raw]. cbv zeta.
  destruct (base_decode_inv _ _ _ W Eb) as [Em Hb].
  destruct (meta_enc_dec_rsv _ _ _ W Em) as (Ebs & Wm & Hrsv & Wr0 & Hr4).
  pose proof (takeP_wf _ _ _ _ W Et) as [Wraw Wrest].
  apply takeP_inv in Et as [Ebs2 Hlen].
  pose proof (base_len_ge b) as G. unfold HP.base_len in Hlen.
  set (M := enc_meta_f (HP.m_currinf (HP.b_meta b)) (HP.m_currhf (HP.b_meta b)) (meta_rsv bs)
                       (HP.m_seg0 (HP.b_meta b)) (HP.m_seg1 (HP.b_meta b)) (HP.m_seg2 (HP.b_meta b))) in *.
  assert (LM : length M = HP.meta_len) by apply enc_meta_length.
  (* raw = M ++ raw2, r0 = raw2 ++ rest *)
  assert (F4 : firstn HP.meta_len raw = M).
  { rewrite <- (firstn_app_le HP.meta_len raw rest) by lia. rewrite <- Ebs2, Ebs.
    now apply firstn_app_exact. }
  set (raw2 := skipn HP.meta_len raw).
  assert (Eraw : raw = M ++ raw2) by (rewrite <- F4; symmetry; apply firstn_skipn).
  assert (Er0 : r0 = raw2 ++ rest).
  { rewrite Ebs2, Eraw, <- app_assoc in Ebs. now apply app_inv_head in Ebs. }
  assert (Wraw2 : wf_bytes raw2) by (apply wf_bytes_skipn; exact Wraw).
  assert (Lraw2 : length raw2 = (N.to_nat (HP.b_numinf b) * HP.info_len + N.to_nat (HP.b_numhops b) * HP.hop_len)%nat).
  { subst raw2. rewrite skipn_length. lia. }
  clearbody raw2. clear F4. subst raw.
  unfold path_fields. cbn [HP.rp_base HP.rp_raw].
  rewrite takeP_app' by exact LM. cbn [bind].
  pose proof (read_rinfos_no_panic (N.to_nat (HP.b_numinf b)) raw2) as Pi.
  pose proof (read_rinfos_not_err (N.to_nat (HP.b_numinf b)) raw2) as Qi.
  destruct (HP.read_list HP.info_len rinfo_dec (N.to_nat (HP.b_numinf b)) raw2) as [[infos r1]| |] eqn:Ei;
    cbn [bind].
  2:{ exfalso. apply Qi; [lia | reflexivity]. }
  2:{ exfalso. apply Pi; [lia | reflexivity]. }
  destruct (read_rinfos_inv _ _ _ _ Wraw2 Ei) as (Li & Wi & Wr1 & Hl1 & Mi).
  specialize (Mi idm). rewrite mask_chunks_id in Mi. unfold idm in Mi.
  pose proof (read_rhops_no_panic (N.to_nat (HP.b_numhops b)) r1) as Ph.
  pose proof (read_rhops_not_err (N.to_nat (HP.b_numhops b)) r1) as Qh.
  destruct (HP.read_list HP.hop_len rhop_dec (N.to_nat (HP.b_numhops b)) r1) as [[hops r2]| |] eqn:Eh;
    cbn [bind].
  2:{ exfalso. apply Qh; [lia | reflexivity]. }
  2:{ exfalso. apply Ph; [lia | reflexivity]. }
  destruct (read_rhops_inv _ _ _ _ Wr1 Eh) as (Lh & Wh & Wr2 & Hl2 & Mh).
  specialize (Mh idm). rewrite mask_chunks_id in Mh. unfold idm in Mh.
  assert (r2 = []) as -> by (destruct r2; [reflexivity | cbn [length] in Hl2; lia]).
  rewrite app_nil_r in Mh.
  exists (meta_rsv bs), infos, hops.
  assert (Hr4' : meta_rsv M = meta_rsv bs).
  { rewrite <- Hr4. f_equal. rewrite Ebs. symmetry. now apply firstn_app_exact. }
  rewrite Hr4'.
  split; [reflexivity|]. split.
  { unfold enc_fields. fold M. rewrite Mi, Mh. reflexivity. }
  repeat (split; [assumption|]). assumption.
Qed.

Lemma raw_decode_enc ci ch rsv s0 s1 s2 infos hops b rest :
  ci < 4 -> ch < 64 -> rsv < 64 -> s0 < 64 -> s1 < 64 -> s2 < 64 ->
  HP.base_of_meta (HP.mkMeta ci ch s0 s1 s2) = Ok b ->
  length infos = N.to_nat (HP.b_numinf b) -> length hops = N.to_nat (HP.b_numhops b) ->
  Forall wf_rinfo infos -> Forall wf_rhop hops ->
  let e := enc_fields ci ch rsv s0 s1 s2 infos hops in
  HP.raw_decode (e ++ rest) = Ok (HP.mkRaw b e, rest) /\
  path_fields (HP.mkRaw b e) = Ok (rsv, infos, hops).
Proof.
  intros H1 H2 H3 H4 H5 H6 Hb Li Lh Wi Wh e.
  destruct (meta_dec_enc_rsv ci ch rsv s0 s1 s2 (concat (map enc_info infos) ++ concat (map enc_hop hops) ++ rest)
              H1 H2 H3 H4 H5 H6) as [Dm Rm].
  assert (Le : length e = HP.base_len b).
  { subst e. rewrite enc_fields_length. unfold HP.base_len. lia. }
  split.
  - assert (Eb : HP.base_decode (e ++ rest) = Ok (b, concat (map enc_info infos) ++ concat (map enc_hop hops) ++ rest)).
    { unfold HP.base_decode. subst e. unfold enc_fields. rewrite <- !app_assoc. rewrite Dm. cbn [bind].
      rewrite Hb. reflexivity. }
    unfold HP.raw_decode. rewrite Eb. cbn [bind].
    rewrite ltb_false by (rewrite app_length; lia).
    rewrite takeP_app' by exact Le. reflexivity.
  - unfold path_fields. cbn [HP.rp_base HP.rp_raw]. subst e. unfold enc_fields.
    rewrite takeP_app' by apply enc_meta_length. cbn [bind]. rewrite Rm.
    rewrite <- Li. rewrite read_rinfos_enc by exact Wi. cbn [bind].
    rewrite <- Lh. rewrite <- (app_nil_r (concat (map enc_hop hops))).
    rewrite read_rhops_enc by exact Wh. cbn [bind]. reflexivity.
Qed.

(** ------------------------------------------------------------ the SCION header around the path *)
Definition set_path (h : HS.scion) (p : HP.path) : HS.scion :=
  HS.mkScion (HS.s_version h) (HS.s_tc h) (HS.s_flowid h) (HS.s_nexthdr h) (HS.s_hdrlen h) (HS.s_paylen h)
             (HS.s_pathtype h) (HS.s_dt h) (HS.s_st h) (HS.s_dstia h) (HS.s_srcia h)
             (HS.s_rawdst h) (HS.s_rawsrc h) p.

Lemma path_decode_scion pt bs rp r : HP.path_decode pt bs = Ok (HP.PScion rp, r) ->
  pt = 1 /\ HP.raw_decode bs = Ok (rp, r).
Proof.
  unfold HP.path_decode. destruct pt as [|p].
  - destruct (HP.empty_decode bs) as [[u r']| |]; cbn [bind]; intros H; inversion H.
  - destruct p as [p|p|]; [destruct p as [p|p|] | destruct p as [p|p|] |]; try discriminate.
    + destruct (HP.epic_decode bs) as [[e r']| |]; cbn [bind]; intros H; inversion H.
    + destruct (HP.onehop_decode bs) as [[e r']| |]; cbn [bind]; intros H; inversion H.
    + destruct (HP.raw_decode bs) as [[e r']| |]; cbn [bind]; intros H; inversion H. auto.
Qed.

Lemma scion_decode_view raw h pld rp : wf_bytes raw ->
  HS.scion_decode raw = Ok (h, pld) -> HS.s_path h = HP.PScion rp ->
  exists pre slack,
    raw = pre ++ HP.rp_raw rp ++ slack ++ pld /\
    length pre = (HS.cmn_hdr_len + HS.addr_hdr_len (HS.s_dt h) (HS.s_st h))%nat /\
    HP.raw_decode (HP.rp_raw rp ++ slack) = Ok (rp, slack) /\
    HS.s_pathtype h = 1 /\ wf_bytes (HP.rp_raw rp ++ slack) /\ wf_bytes pld /\
    (N.to_nat (HS.s_hdrlen h) * HS.line_len = length pre + length (HP.rp_raw rp) + length slack)%nat /\
    forall pb2 rp2, length pb2 = length (HP.rp_raw rp) ->
      HP.raw_decode (pb2 ++ slack) = Ok (rp2, slack) ->
      HS.scion_decode (pre ++ pb2 ++ slack ++ pld) = Ok (set_path h (HP.PScion rp2), pld).
Proof.
  intros W. unfold HS.scion_decode.
  (* robust against [scion_decode] being an instance of a decoder generic in the path decoder *)
  try match goal with |- context [?f HP.path_decode] => unfold f end.
  destruct (Nat.ltb (length raw) HS.cmn_hdr_len); [discriminate|].
  do 7 inv_word. cbv zeta.
  set (dt := (n4 / 16) mod 16). set (st := n4 mod 16).
  destruct (Nat.ltb (length r) (HS.addr_hdr_len dt st)); [discriminate|].
  do 2 inv_word. do 2 inv_take.
  destruct (Nat.ltb (N.to_nat n1 * HS.line_len) (HS.cmn_hdr_len + HS.addr_hdr_len dt st)) eqn:L1; [discriminate|].
  apply Nat.ltb_ge in L1.
  match goal with |- context [Nat.ltb ?a ?b] => destruct (Nat.ltb a b) eqn:L2; [discriminate|] end.
  apply Nat.ltb_ge in L2.
  inv_take.
  destruct (HP.path_decode n3 a1) as [[p slack]| |] eqn:Ep; cbn [bind]; try discriminate.
  intros H; injection H as <- <-. cbn [HS.s_path HS.s_dt HS.s_st HS.s_pathtype HS.s_hdrlen]. intros ->.
  destruct (path_decode_scion _ _ _ _ Ep) as [-> Er].
  destruct (raw_decode_view _ _ _ Wa1 Er) as (rsv & infos & hops & _ & _ & Ea1 & _).
  set (pre := be 4 n ++ be 1 n0 ++ be 1 n1 ++ be 2 n2 ++ be 1 1 ++ be 1 n4 ++ be 2 n5 ++
              be 8 n6 ++ be 8 n7 ++ a ++ a0).
  assert (Lpre : length pre = (HS.cmn_hdr_len + HS.addr_hdr_len dt st)%nat).
  { subst pre. len_norm. rewrite Ha, Ha0. unfold HS.cmn_hdr_len, HS.addr_hdr_len, HS.ia_bytes. lia. }
  exists pre, slack.
  split. { subst pre. rewrite Ea1. now rewrite <- !app_assoc. }
  split; [exact Lpre|]. split; [now rewrite <- Ea1|]. split; [reflexivity|].
  split; [now rewrite <- Ea1|]. split; [assumption|].
  split. { rewrite Lpre. assert (length a1 = length (HP.rp_raw rp) + length slack)%nat by (rewrite Ea1 at 1; apply app_length). lia. }
  intros pb2 rp2 Lpb2 Er2.
  assert (Lp2 : length (pb2 ++ slack) = length a1).
  { rewrite Ea1, !app_length. lia. }
  pow256. pows2.
  rewrite ltb_false by (rewrite app_length, Lpre; unfold HS.cmn_hdr_len; lia).
  subst pre. rewrite <- !app_assoc.
  do 7 (rewrite wordP_be_small by lt_pow; cbn [bind]).
  cbv zeta. fold dt st.
  rewrite ltb_false by (len_norm; rewrite Ha, Ha0; unfold HS.addr_hdr_len, HS.ia_bytes; lia).
  do 2 (rewrite wordP_be_small by lt_pow; cbn [bind]).
  rewrite takeP_app' by exact Ha. cbn [bind].
  rewrite takeP_app' by exact Ha0. cbn [bind].
  rewrite ltb_false by exact L1.
  rewrite ltb_false.
  2:{ revert L2. len_norm. lia. }
  rewrite (app_assoc pb2 slack r0).
  rewrite takeP_app' by (rewrite Lp2; exact Ha1). cbn [bind].
  unfold HP.path_decode. rewrite Er2. cbn [bind]. reflexivity.
Qed.

(** ------------------------------------------------------------ the record and its bytes *)
Definition wf_fields (q : R.pkt) : Prop :=
  R.p_curr_inf q < 4 /\ R.p_curr_hf q < 64 /\ R.p_meta_rsv q < 64 /\
  R.p_seg0 q < 64 /\ R.p_seg1 q < 64 /\ R.p_seg2 q < 64 /\
  Forall wf_rinfo (R.p_infos q) /\ Forall wf_rhop (R.p_hops q).

(** [q] differs from [p] at most in the path state: pointers, reserved bits, contents of the
    info and hop fields (not their number) *)
Definition same_outside (p q : R.pkt) : Prop :=
  R.p_dst_ia q = R.p_dst_ia p /\ R.p_src_ia q = R.p_src_ia p /\
  R.p_dst_type q = R.p_dst_type p /\ R.p_src_type q = R.p_src_type p /\
  R.p_dst_raw q = R.p_dst_raw p /\ R.p_src_raw q = R.p_src_raw p /\
  R.p_pay_len q = R.p_pay_len p /\ R.p_pay_actual q = R.p_pay_actual p /\
  R.p_l4_port q = R.p_l4_port p /\
  R.p_seg0 q = R.p_seg0 p /\ R.p_seg1 q = R.p_seg1 p /\ R.p_seg2 q = R.p_seg2 p /\
  length (R.p_infos q) = length (R.p_infos p) /\ length (R.p_hops q) = length (R.p_hops p).

Lemma land3_mod4 t : N.land t 3 = t mod 4.
Proof. change 3 with (N.ones 2). rewrite N.land_ones. reflexivity. Qed.

Lemma addr_len_eq t : N.of_nat (HS.addr_len t) = R.addr_type_len t.
Proof.
  unfold HS.addr_len, R.addr_type_len, HS.line_len, R.LineLen. rewrite land3_mod4. lia.
Qed.

Lemma meta_off_eq dt st q : R.p_dst_type q = dt -> R.p_src_type q = st ->
  N.to_nat (R.meta_off q) = (HS.cmn_hdr_len + HS.addr_hdr_len dt st)%nat.
Proof.
  intros <- <-. unfold R.meta_off, R.addr_len, HS.addr_hdr_len, R.CmnHdrLen, R.IABytes, HS.cmn_hdr_len, HS.ia_bytes.
  rewrite <- !addr_len_eq. lia.
Qed.

Section View.
Variable qport : N -> bytes -> option N.

(** the numbers of the SCION header of [pre ++ enc_path q ++ post] as the C18 decoder yields them *)
Definition geo_with (p q : R.pkt) (hl total : N) : RouterTotal.geo :=
  RouterTotal.mkGeo total hl (R.p_pay_len p) 1 (R.p_dst_type p) (R.p_src_type p)
                    (R.p_curr_inf q) (R.p_curr_hf q) (R.p_seg0 p) (R.p_seg1 p) (R.p_seg2 p).

Lemma abstract_view raw p : wf_bytes raw -> abstract_res qport raw = ARec p ->
  exists pre post hl,
    raw = pre ++ enc_path p ++ post /\ length pre = N.to_nat (R.meta_off p) /\
    wf_fields p /\
    N.of_nat (length (R.p_infos p)) = numinf_of (R.p_seg0 p) (R.p_seg1 p) (R.p_seg2 p) /\
    N.of_nat (length (R.p_hops p)) = R.p_seg0 p + R.p_seg1 p + R.p_seg2 p /\
    seglen_okb (R.p_seg0 p) (R.p_seg1 p) (R.p_seg2 p) = true /\
    R.p_seg0 p + R.p_seg1 p + R.p_seg2 p <= 64 /\
    hl < 256 /\ (length pre + length (enc_path p) <= N.to_nat hl * 4)%nat /\
    (length raw = N.to_nat hl * 4 + N.to_nat (R.p_pay_actual p))%nat /\
    forall q, same_outside p q -> wf_fields q ->
      abstract_res qport (pre ++ enc_path q ++ post) = ARec q /\
      geo_of_bytes (pre ++ enc_path q ++ post) = Some (geo_with p q hl (N.of_nat (length raw))).
Proof.
  intros W. unfold abstract_res.
  destruct (HS.scion_decode raw) as [[h pld]| |] eqn:Es; try discriminate.
  destruct (skip_exts (HS.s_nexthdr h) pld) as [[proto l4]| |] eqn:Ex; try discriminate.
  destruct (HS.s_path h) eqn:Epath; try discriminate.
  match type of Epath with _ = HP.PScion ?x => rename x into rp end.
  destruct (path_fields rp) as [[[rsv infos] hops]| |] eqn:Ef; try discriminate.
  intros Hp.
  assert (Ep : p = mk_record h pld (res_opt (l4_port qport proto l4)) rp rsv infos hops).
  { destruct (l4_port qport proto l4); inversion Hp; reflexivity. }
  assert (NP : l4_port qport proto l4 <> Panic) by (destruct (l4_port qport proto l4); congruence).
  clear Hp.
  destruct (scion_decode_view _ _ _ _ W Es Epath) as (pre & slack & Eraw & Lpre & Er & Hpt & Wps & Wpld & Hhl & Sub).
  destruct (raw_decode_view _ _ _ Wps Er) as (rsv' & infos' & hops' & Ef' & Erp & _ & Wm & Hrsv & Hb & Li & Lh & Wi & Wh & _).
  rewrite Ef in Ef'. injection Ef' as <- <- <-.
  destruct (scion_enc_dec _ _ _ W Es) as (_ & _ & Hhl256 & _ & _ & Hlen & _).
  destruct (base_of_meta_nums _ _ Hb) as (_ & Ni & Nh & Sok & H64).
  set (m := HP.b_meta (HP.rp_base rp)) in *.
  assert (Epath_p : enc_path p = HP.rp_raw rp) by (rewrite Erp, Ep; reflexivity).
  destruct Wm as (W1 & W2 & W3 & W4 & W5).
  exists pre, (slack ++ pld), (HS.s_hdrlen h).
  split; [rewrite Epath_p; exact Eraw|].
  split. { rewrite Lpre. symmetry. apply meta_off_eq; rewrite Ep; reflexivity. }
  split. { rewrite Ep. unfold wf_fields, mk_record. cbn. fold m. auto 10. }
  split. { rewrite Ep. cbn. fold m. rewrite <- Ni, Li. lia. }
  split. { rewrite Ep. cbn. fold m. rewrite <- Nh, Lh. lia. }
  split. { rewrite Ep. cbn. fold m. exact Sok. }
  split. { rewrite Ep. cbn. fold m. rewrite <- Nh. exact H64. }
  split; [exact Hhl256|].
  split. { rewrite Epath_p. unfold HS.line_len in Hhl. lia. }
  split. { rewrite Hlen. unfold HS.line_len. rewrite Ep. cbn. lia. }
  intros q SO WQ.
  destruct SO as (S1 & S2 & S3 & S4 & S5 & S6 & S7 & S8 & S9 & S10 & S11 & S12 & S13 & S14).
  destruct WQ as (Q1 & Q2 & Q3 & Q4 & Q5 & Q6 & Q7 & Q8).
  rewrite Ep in S1, S2, S3, S4, S5, S6, S7, S8, S9, S10, S11, S12, S13, S14.
  cbn [mk_record R.p_dst_ia R.p_src_ia R.p_dst_type R.p_src_type R.p_dst_raw R.p_src_raw R.p_pay_len
       R.p_pay_actual R.p_l4_port R.p_seg0 R.p_seg1 R.p_seg2 R.p_infos R.p_hops] in S1, S2, S3, S4, S5, S6, S7, S8, S9, S10, S11, S12, S13, S14.
  fold m in S10, S11, S12.
  set (m' := HP.mkMeta (R.p_curr_inf q) (R.p_curr_hf q) (R.p_seg0 q) (R.p_seg1 q) (R.p_seg2 q)).
  pose proof (base_of_meta_segs m m' _ Hb S10 S11 S12) as Hb'.
  set (b' := HP.mkBase m' (HP.b_numinf (HP.rp_base rp)) (HP.b_numhops (HP.rp_base rp))) in *.
  destruct (raw_decode_enc (R.p_curr_inf q) (R.p_curr_hf q) (R.p_meta_rsv q) (R.p_seg0 q) (R.p_seg1 q) (R.p_seg2 q)
              (R.p_infos q) (R.p_hops q) b' slack Q1 Q2 Q3 Q4 Q5 Q6 Hb') as [Dq Fq];
    try assumption; try (cbn [HP.b_numinf HP.b_numhops b']; congruence).
  cbv zeta in Dq, Fq. rewrite <- enc_path_fields in Dq, Fq.
  assert (Lq : length (enc_path q) = length (HP.rp_raw rp)).
  { rewrite <- Epath_p. rewrite !enc_path_fields, !enc_fields_length. rewrite Ep. cbn [mk_record R.p_infos R.p_hops]. lia. }
  specialize (Sub (enc_path q) (HP.mkRaw b' (enc_path q)) Lq Dq).
  split.
  - rewrite Sub. cbn [set_path HS.s_nexthdr HS.s_path]. rewrite Ex. rewrite Fq.
    destruct (l4_port qport proto l4) as [port| |] eqn:El; [| |congruence];
      (f_equal; destruct q; cbn in *; subst; reflexivity).
  - unfold geo_of_bytes. rewrite Sub. cbn [set_path HS.s_path HP.rp_base HP.b_meta b' m' HS.s_hdrlen HS.s_paylen
      HS.s_pathtype HS.s_dt HS.s_st HP.m_currinf HP.m_currhf HP.m_seg0 HP.m_seg1 HP.m_seg2].
    unfold geo_with. rewrite Ep. cbn [mk_record R.p_pay_len R.p_dst_type R.p_src_type R.p_seg0 R.p_seg1 R.p_seg2].
    fold m. rewrite Hpt, S10, S11, S12. do 2 f_equal.
    rewrite Eraw, !app_length. rewrite Lq. lia.
Qed.

End View.
