(** Lemmas about Model/PKIChain.v (C34; reused by C35-C37). *)
From Coq Require Import List NArith ZArith Bool Lia.
From Scion Require Import Lib.Check Model.PKIChain.
Import ListNotations.
Import PKIChain.
Local Open Scope N_scope.

Ltac bsplit :=
  repeat match goal with
         | H : _ && _ = true |- _ => apply andb_true_iff in H; destruct H
         end.

Lemma ctype_eqb_eq a b : ctype_eqb a b = true <-> a = b.
Proof. destruct a, b; cbv; split; intros H; try reflexivity; try discriminate. Qed.

Lemma is_type_iff t c : is_type t c = true <-> validate_cert c = Some t.
Proof.
  unfold is_type. destruct (validate_cert c) as [u|].
  - rewrite ctype_eqb_eq. split; intros H; [now subst | now inversion H].
  - split; discriminate.
Qed.

Lemma contains_iff nb na t : contains nb na t = true <-> (nb <= t <= na)%Z.
Proof. unfold contains. rewrite andb_true_iff, !Z.leb_le. tauto. Qed.

Lemma covers_iff a b c d : covers a b c d = true <-> (a <= c /\ d <= b)%Z.
Proof. unfold covers. rewrite andb_true_iff, !Z.leb_le. tauto. Qed.

(** ValidateCert succeeds with a class only if the class-specific rules hold. *)
Lemma validate_cert_as c : validate_cert c = Some TAS -> validate_as c = true.
Proof.
  unfold validate_cert. destruct (classify c) as [[]|]; try discriminate;
    match goal with |- (if ?b then _ else _) = _ -> _ => destruct b end; try discriminate; auto.
Qed.
Lemma validate_cert_ca c : validate_cert c = Some TCA -> validate_ca c = true.
Proof.
  unfold validate_cert. destruct (classify c) as [[]|]; try discriminate;
    match goal with |- (if ?b then _ else _) = _ -> _ => destruct b end; try discriminate; auto.
Qed.
Lemma validate_cert_root c : validate_cert c = Some TRoot -> validate_root c = true.
Proof.
  unfold validate_cert. destruct (classify c) as [[]|]; try discriminate;
    match goal with |- (if ?b then _ else _) = _ -> _ => destruct b end; try discriminate; auto.
Qed.

(** What the scion class rules imply for the x509 layer. *)
Lemma ca_x509 c : validate_ca c = true ->
  x509_can_sign c = true /\ (c_bc_valid c && c_is_ca c) = true /\ path_len_ok c 0 = true.
Proof.
  unfold validate_ca, common_ca_ok, x509_can_sign, path_len_ok. intros H. bsplit.
  match goal with
    H1 : c_ku_certsign c = true, H2 : c_bc_valid c = true, H3 : c_is_ca c = true,
    H4 : (c_maxpath c =? _)%Z = true |- _ =>
    rewrite H1, H2, H3; apply Z.eqb_eq in H4; rewrite H4 end.
  cbn. rewrite orb_true_r. auto.
Qed.

Lemma root_x509 c : validate_root c = true ->
  x509_can_sign c = true /\ path_len_ok c 1 = true.
Proof.
  unfold validate_root, common_ca_ok, x509_can_sign, path_len_ok. intros H. bsplit.
  match goal with
    H1 : c_ku_certsign c = true, H2 : c_bc_valid c = true, H3 : c_is_ca c = true,
    H4 : (c_maxpath c =? _)%Z = true |- _ =>
    rewrite H1, H2, H3; apply Z.eqb_eq in H4; rewrite H4 end.
  cbn. rewrite orb_true_r. auto.
Qed.

Lemma validate_chain_iff ch : validate_chain ch = true <->
  exists a c, ch = [a; c] /\ validate_cert a = Some TAS /\ validate_cert c = Some TCA
              /\ (c_nb c <= c_nb a /\ c_na a <= c_na c)%Z.
Proof.
  split.
  - destruct ch as [|a [|c [|]]]; cbn; try discriminate. intros H. bsplit.
    exists a, c. rewrite <- !is_type_iff, <- covers_iff. auto.
  - intros (a & c & -> & Ha & Hc & Hcov). cbn.
    apply is_type_iff in Ha, Hc. apply covers_iff in Hcov. now rewrite Ha, Hc, Hcov.
Qed.

Lemma root_pool_some t roots : root_pool t = Some roots ->
  forallb trc_cert_ok (t_certs t) = true /\ roots = filter (is_type TRoot) (t_certs t) /\ roots <> [].
Proof.
  unfold root_pool. destruct (forallb trc_cert_ok (t_certs t)); try discriminate.
  destruct (filter (is_type TRoot) (t_certs t)) eqn:E; cbn; try discriminate.
  intros H; inversion H; subst. repeat split; auto. discriminate.
Qed.

(** Acceptance in terms of named facts (the "only if" direction in full detail). *)
Record accepted (a c : cert) (t : trc) (now : Z) (r : cert) : Prop := {
  acc_as : validate_cert a = Some TAS;
  acc_ca : validate_cert c = Some TCA;
  acc_cover : (c_nb c <= c_nb a /\ c_na a <= c_na c)%Z;
  acc_trc_certs : forallb trc_cert_ok (t_certs t) = true;
  acc_as_time : (c_nb a <= now <= c_na a)%Z;
  acc_issued : sig_from a c = true /\ c_subject c = c_issuer a;
  acc_ca_time : (c_nb c <= now <= c_na c)%Z;
  acc_distinct : same_entity c a = false;
  acc_root_in : In r (t_certs t);
  acc_root : validate_cert r = Some TRoot;
  acc_root_issued : sig_from c r = true /\ c_subject r = c_issuer c;
  acc_root_time : (c_nb r <= now <= c_na r)%Z;
  acc_root_distinct : same_entity r a = false /\ same_entity r c = false;
  acc_eku : eku_ok a [a; c; r] = true }.

Lemma verify_chain_trc_iff ch t now :
  verify_chain_trc ch (Some t) now = true <->
  exists a c r, ch = [a; c] /\ accepted a c t now r.
Proof.
  split.
  - unfold verify_chain_trc. intros H. apply andb_true_iff in H as [Hv H].
    apply validate_chain_iff in Hv as (a & c & -> & Ha & Hc & Hcov).
    destruct (root_pool t) as [roots|] eqn:Hp; try discriminate.
    apply root_pool_some in Hp as (Hall & -> & _).
    apply andb_true_iff in H as [H Hex]. apply andb_true_iff in H as [Hat Hint].
    apply existsb_exists in Hex as (r & Hin & Hr).
    apply filter_In in Hin as [Hin Hroot]. apply is_type_iff in Hroot.
    unfold x509_int_ok in Hint. unfold x509_root_ok in Hr. bsplit.
    exists a, c, r. split; [reflexivity|].
    constructor; auto.
    + now apply contains_iff.
    + split; auto. now apply N.eqb_eq.
    + now apply contains_iff.
    + now apply negb_true_iff.
    + split; auto. now apply N.eqb_eq.
    + now apply contains_iff.
    + split; now apply negb_true_iff.
  - intros (a & c & r & -> & A). destruct A.
    unfold verify_chain_trc.
    assert (Hv : validate_chain [a; c] = true).
    { apply validate_chain_iff. exists a, c. auto. }
    rewrite Hv. cbn [andb].
    unfold root_pool. rewrite acc_trc_certs0.
    assert (Hrin : In r (filter (is_type TRoot) (t_certs t))).
    { apply filter_In. split; auto. now apply is_type_iff. }
    destruct (filter (is_type TRoot) (t_certs t)) as [|r0 rs] eqn:E; [destruct Hrin|].
    cbn [is_nil]. rewrite <- E.
    destruct (ca_x509 c (validate_cert_ca c acc_ca0)) as (C1 & C2 & C3).
    destruct (root_x509 r (validate_cert_root r acc_root0)) as (R1 & R2).
    destruct acc_issued0 as [I1 I2]. destruct acc_root_issued0 as [J1 J2].
    destruct acc_root_distinct0 as [D1 D2].
    apply contains_iff in acc_as_time0, acc_ca_time0, acc_root_time0.
    unfold valid_at at 1. rewrite acc_as_time0. cbn [andb].
    unfold x509_int_ok. unfold valid_at. rewrite I2, N.eqb_refl, acc_distinct0, C1, I1, acc_ca_time0, C2, C3.
    cbn [andb negb].
    apply existsb_exists. exists r. split; [rewrite E; exact Hrin|].
    unfold x509_root_ok, valid_at. rewrite J2, N.eqb_refl, D1, D2, R1, J1, acc_root_time0, R2, acc_eku0.
    reflexivity.
Qed.

(** The property's reading follows from acceptance. *)
Lemma accepted_spec a c t now r : accepted a c t now r -> spec_chain_ok [a; c] t now = true.
Proof.
  intros A. destruct A. unfold spec_chain_ok.
  apply is_type_iff in acc_as0, acc_ca0. rewrite acc_as0, acc_ca0.
  apply covers_iff in acc_cover0. rewrite acc_cover0.
  destruct acc_issued0 as [I1 I2]. rewrite I1, I2, N.eqb_refl.
  unfold valid_at. apply contains_iff in acc_as_time0, acc_ca_time0. rewrite acc_as_time0, acc_ca_time0.
  cbn [andb]. apply existsb_exists. exists r. split; auto.
  apply is_type_iff in acc_root0. destruct acc_root_issued0 as [J1 J2].
  apply contains_iff in acc_root_time0. now rewrite acc_root0, J1, J2, N.eqb_refl, acc_root_time0.
Qed.

Lemma verify_chain_trc_spec ch t now :
  verify_chain_trc ch (Some t) now = true -> spec_chain_ok ch t now = true.
Proof.
  intros H. apply verify_chain_trc_iff in H as (a & c & r & -> & A). eapply accepted_spec; eauto.
Qed.

Lemma verify_chain_trc_none ch now : verify_chain_trc ch None now = false.
Proof.
  unfold verify_chain_trc. destruct (validate_chain ch); auto. destruct ch as [|a [|c [|]]]; auto.
Qed.

Lemma verify_chain_iff ch trcs now :
  verify_chain ch trcs now = true <->
  exists t, In (Some t) trcs /\ verify_chain_trc ch (Some t) now = true.
Proof.
  unfold verify_chain. rewrite existsb_exists. split.
  - intros ([t|] & Hin & H); [eauto | now rewrite verify_chain_trc_none in H].
  - intros (t & Hin & H). eauto.
Qed.

Lemma verify_oracle_model ch trcs now :
  verify_oracle ch trcs now (verify_chain ch trcs now) = true.
Proof.
  unfold verify_oracle. destruct (verify_chain ch trcs now) eqn:E; auto. cbn [negb orb].
  apply verify_chain_iff in E as (t & Hin & H).
  apply existsb_exists. exists (Some t). split; auto. now apply verify_chain_trc_spec.
Qed.

(** The explicit reading of [spec_chain_ok] (what the property demands). *)
Lemma spec_chain_ok_iff ch t now : spec_chain_ok ch t now = true <->
  exists a c r, ch = [a; c]
    /\ validate_cert a = Some TAS /\ validate_cert c = Some TCA
    /\ (c_nb c <= c_nb a /\ c_na a <= c_na c)%Z
    /\ sig_from a c = true /\ c_issuer a = c_subject c
    /\ (c_nb a <= now <= c_na a)%Z /\ (c_nb c <= now <= c_na c)%Z
    /\ In r (t_certs t) /\ validate_cert r = Some TRoot
    /\ sig_from c r = true /\ c_issuer c = c_subject r /\ (c_nb r <= now <= c_na r)%Z.
Proof.
  split.
  - destruct ch as [|a [|c [|]]]; cbn [spec_chain_ok]; try discriminate. intros H. bsplit.
    apply existsb_exists in H0 as (r & Hin & Hr). bsplit.
    exists a, c, r. unfold valid_at in *.
    rewrite <- !is_type_iff, <- covers_iff, <- !contains_iff.
    repeat split; auto; now apply N.eqb_eq.
  - intros (a & c & r & -> & Ha & Hc & Hcov & S1 & I1 & Ta & Tc & Hin & Hr & S2 & I2 & Tr).
    cbn [spec_chain_ok]. unfold valid_at.
    apply is_type_iff in Ha, Hc, Hr. apply covers_iff in Hcov. apply contains_iff in Ta, Tc, Tr.
    rewrite Ha, Hc, Hcov, S1, I1, N.eqb_refl, Ta, Tc. cbn [andb].
    apply existsb_exists. exists r. split; auto. now rewrite Hr, S2, I2, N.eqb_refl, Tr.
Qed.

(** ---------------------------------------------------------------- provider *)

Lemma filter_verifiable_In cs trcs now ch :
  In ch (filter_verifiable cs trcs now) <->
  In ch cs /\ exists t, In t trcs /\ verify_chain_trc ch (Some t) now = true.
Proof.
  unfold filter_verifiable. rewrite filter_In, existsb_exists. tauto.
Qed.

Lemma active_trcs_cases ts isd now l : active_trcs ts isd now = Some l ->
  exists t, latest_trc ts isd = Some t /\ trc_contains t now = true /\
    ((in_grace t now = false /\ l = [t]) \/
     (in_grace t now = true /\ exists g, find_trc ts isd (t_base t) (t_serial t - 1) = Some g /\ l = [t; g])).
Proof.
  unfold active_trcs. destruct (latest_trc ts isd) as [t|]; try discriminate.
  destruct (trc_contains t now) eqn:C; cbn [negb]; try discriminate.
  destruct (in_grace t now) eqn:G; cbn [negb].
  - destruct (find_trc ts isd (t_base t) (t_serial t - 1)) as [g|] eqn:F; try discriminate.
    intros H; inversion H; subst. exists t. repeat split; auto. right. split; auto. exists g. auto.
  - intros H; inversion H; subst. exists t. repeat split; auto.
Qed.

Lemma active_verifiable_spec ts isd now l cs ch :
  active_trcs ts isd now = Some l -> In ch (filter_verifiable cs l now) ->
  spec_provided_ok ts isd now ch = true.
Proof.
  intros A H. apply filter_verifiable_In in H as (_ & t' & Hin & Hv).
  apply active_trcs_cases in A as (t & L & C & [[G ->]|[G (g & F & ->)]]);
    unfold spec_provided_ok; rewrite L, C; cbn [andb].
  - destruct Hin as [<-|[]]. apply verify_chain_trc_spec in Hv. now rewrite Hv.
  - rewrite G, F. cbn [andb]. destruct Hin as [<-|[<-|[]]]; apply verify_chain_trc_spec in Hv; rewrite Hv; auto.
    apply orb_true_r.
Qed.

(** Every chain handed out without AllowInactive - or with it when the DB has
    no chain for the query - satisfies the provider reading. *)
Lemma get_chains_spec_gen d q ai rk f now l d' :
  ai = false \/ db_chains d q = [] ->
  get_chains d q ai rk f now = (Some l, d') ->
  forall ch, In ch l ->
    spec_provided_ok (d_trcs d) (q_isd q) now ch = true
    /\ In ch (known_chains d f).
Proof.
  intros Hai. unfold get_chains. destruct ((q_isd q =? 0) || (q_as q =? 0)); try discriminate.
  assert (E0 : ai && negb (is_nil (db_chains d q)) = false).
  { destruct Hai as [ -> | -> ]; [reflexivity | apply andb_false_r]. }
  rewrite E0.
  destruct (active_trcs (d_trcs d) (q_isd q) now) as [trcs|] eqn:A; try discriminate.
  destruct (is_nil (filter_verifiable (db_chains d q) trcs now)) eqn:E; cbn [negb].
  - destruct rk; cbn [negb]; try discriminate. destruct f as [fs|]; try discriminate.
    intros H; inversion H; subst. intros ch Hin. split.
    + eapply active_verifiable_spec; eauto.
    + apply filter_verifiable_In in Hin as [Hin _]. unfold known_chains. apply in_or_app. now right.
  - intros H; inversion H; subst. intros ch Hin. split.
    + eapply active_verifiable_spec; eauto.
    + apply filter_verifiable_In in Hin as [Hin _]. unfold db_chains in Hin.
      apply filter_In in Hin as [Hin _]. unfold known_chains. apply in_or_app. now left.
Qed.

Lemma get_chains_spec d q rk f now l d' :
  get_chains d q false rk f now = (Some l, d') ->
  forall ch, In ch l ->
    spec_provided_ok (d_trcs d) (q_isd q) now ch = true
    /\ In ch (known_chains d f).
Proof. apply get_chains_spec_gen. now left. Qed.

(** Nothing is handed out (the call fails) when the latest TRC is missing or not valid now. *)
Lemma get_chains_inactive d q rk f now :
  match latest_trc (d_trcs d) (q_isd q) with
  | None => True | Some t => trc_contains t now = false end ->
  fst (get_chains d q false rk f now) = None.
Proof.
  intros H. unfold get_chains. destruct ((q_isd q =? 0) || (q_as q =? 0)); auto.
  cbn [andb]. unfold active_trcs. destruct (latest_trc (d_trcs d) (q_isd q)) as [t|]; auto.
  rewrite H. reflexivity.
Qed.

Lemma ids_eqb_refl l : ids_eqb l l = true.
Proof. unfold ids_eqb. apply list_eqb_eq; auto. intros; apply N.eqb_eq. Qed.

Lemma provider_oracle_model d q ai rk f now :
  provider_oracle d q ai f now
    (match fst (get_chains d q ai rk f now) with
     | None => None | Some l => Some (map chain_ids l) end) = true.
Proof.
  unfold provider_oracle.
  destruct (ai && negb (is_nil (db_chains d q))) eqn:E0; auto. cbn [orb].
  assert (Hai : ai = false \/ db_chains d q = []).
  { destruct ai; [right | now left]. cbn in E0. destruct (db_chains d q); [reflexivity | discriminate]. }
  destruct (get_chains d q ai rk f now) as [[l|] d'] eqn:G; cbn [fst]; auto.
  apply forallb_forall. intros ids Hin. apply in_map_iff in Hin as (ch & <- & Hin).
  destruct (get_chains_spec_gen _ _ _ _ _ _ _ _ Hai G ch Hin) as [S K].
  apply existsb_exists. exists ch. split; auto. now rewrite ids_eqb_refl, S.
Qed.

(** ---------------------------------------------------------------- LoadChains *)

Lemma active_trcs_res_active ts isd now l :
  active_trcs_res ts isd now = AActive l -> active_trcs ts isd now = Some l.
Proof.
  unfold active_trcs_res, active_trcs. destruct (latest_trc ts isd) as [t|]; try discriminate.
  destruct (negb (trc_contains t now)); try discriminate.
  destruct (negb (in_grace t now)).
  - intros H; now inversion H.
  - destruct (find_trc ts isd (t_base t) (t_serial t - 1)); try discriminate. intros H; now inversion H.
Qed.

Lemma load_chains_spec now files : forall d loaded ignored e l i d',
  load_chains now files d loaded ignored = (e, l, i, d') ->
  d_trcs d' = d_trcs d
  /\ (forall ch, In ch (d_chains d) -> In ch (d_chains d'))
  /\ forall ch, In ch (d_chains d') ->
       In ch (d_chains d) \/ (In ch (file_chains files) /\ spec_loaded_ok (d_trcs d) now ch = true).
Proof.
  induction files as [|[name f] r IH]; intros d loaded ignored e l i d' H; cbn [load_chains] in H.
  - inversion H; subst. repeat split; auto.
  - assert (Skip : forall lo ig, load_chains now r d lo ig = (e, l, i, d') ->
       d_trcs d' = d_trcs d
       /\ (forall ch, In ch (d_chains d) -> In ch (d_chains d'))
       /\ forall ch, In ch (d_chains d') ->
            In ch (d_chains d) \/ (In ch (file_chains ((name, f) :: r)) /\ spec_loaded_ok (d_trcs d) now ch = true)).
    { intros lo ig K. destruct (IH _ _ _ _ _ _ _ K) as (T & Keep & Orig). repeat split; auto.
      intros ch Hc. destruct (Orig ch Hc) as [|[F S]]; [now left|]. right. split; auto.
      unfold file_chains. cbn [flat_map]. apply in_or_app. now right. }
    destruct f as [|ch0]; [eauto|].
    destruct (validate_chain ch0) eqn:V; cbn [negb] in H; [|eauto].
    destruct ch0 as [|a rest]; [eauto|].
    destruct (contains (c_nb a) (c_na a) now) eqn:C; cbn [negb] in H; [|eauto].
    destruct (c_subject_ia a) as [isd asn| |] eqn:I; [|eauto|eauto].
    destruct (active_trcs_res (d_trcs d) isd now) as [| |trcs] eqn:A; [eauto| |].
    + inversion H; subst. repeat split; auto.
    + destruct (existsb (fun t => verify_chain_trc (a :: rest) (Some t) now) trcs) eqn:X; cbn [negb] in H; [|eauto].
      destruct (chain_in (a :: rest) (d_chains d)) eqn:Ci; [eauto|].
      destruct (IH _ _ _ _ _ _ _ H) as (T & Keep & Orig). cbn [add_chain d_trcs d_chains] in *.
      repeat split; auto.
      * intros ch Hc. apply Keep. apply in_or_app. now left.
      * intros ch Hc. destruct (Orig ch Hc) as [K|[F S]].
        -- apply in_app_or in K as [K|[<-|[]]]; [now left|]. right. split.
           ++ unfold file_chains. cbn [flat_map snd]. now left.
           ++ unfold spec_loaded_ok. rewrite I. unfold valid_at. rewrite C. cbn [andb].
              apply active_trcs_res_active in A.
              apply (active_verifiable_spec _ _ _ _ [a :: rest] _ A).
              apply filter_verifiable_In. split; [now left|].
              apply existsb_exists in X as (t & Ht & Vt). eauto.
        -- right. split; auto. unfold file_chains. cbn [flat_map]. apply in_or_app. now right.
Qed.

Lemma load_chains_oracle_model now files d :
  let d' := snd (load_chains now files d [] []) in
  load_chains_oracle now d files (map chain_ids (d_chains d')) = true.
Proof.
  destruct (load_chains now files d [] []) as [[[e l] i] d'] eqn:E. cbn [snd].
  destruct (load_chains_spec _ _ _ _ _ _ _ _ _ E) as (T & Keep & Orig).
  unfold load_chains_oracle. apply andb_true_iff. split.
  - apply forallb_forall. intros ids Hin. apply in_map_iff in Hin as (ch & <- & Hc).
    destruct (Orig ch Hc) as [K|[F S]].
    + apply orb_true_iff. left. apply existsb_exists. exists ch. split; auto. apply ids_eqb_refl.
    + apply orb_true_iff. right. apply existsb_exists. exists ch. split; auto. now rewrite ids_eqb_refl, S.
  - apply forallb_forall. intros ch Hc. apply existsb_exists. exists (chain_ids ch). split.
    + apply in_map. now apply Keep.
    + apply ids_eqb_refl.
Qed.
