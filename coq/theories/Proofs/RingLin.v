(** The linearizability checker of Model/RingLin.v is correct in both directions:
    [Found l] is a linearization, [NoLin] means there is none. Also: the
    sequential oracle on the model, what the FIFO specification implies for the
    content (order, no loss, no duplication), behaviour after Close, pktRing. *)
From Coq Require Import List NArith ZArith Bool Arith Lia ZifyBool ZifyN ZifyNat Permutation.
From Scion Require Import Lib.Check Model.Ring Model.RingLin Proofs.Ring Proofs.RingLTS.
Import ListNotations.
Import Ring RingLin.

Lemma picks_perm l x rest : In (x, rest) (picks l) -> Permutation l (x :: rest).
Proof.
  revert x rest. induction l as [|a l IH]; intros x rest H; [destruct H|].
  cbn [picks] in H. destruct H as [E|H].
  - inversion E; subst. reflexivity.
  - apply in_map_iff in H as ([y r] & E & Hin). cbn in E. inversion E; subst.
    eapply perm_trans; [apply perm_skip, (IH _ _ Hin) | apply perm_swap].
Qed.

Lemma picks_complete l x : In x l -> exists rest, In (x, rest) (picks l).
Proof.
  induction l as [|a l IH]; intros H; [destruct H|]. destruct H as [->|H].
  - exists l. now left.
  - destruct (IH H) as [rest Hr]. exists (a :: rest). right.
    apply in_map_iff. exists (x, rest). split; [reflexivity | exact Hr].
Qed.

Lemma minimal_forall x rem :
  minimal x rem = true <-> Forall (fun b => (h_inv x < h_ret b)%N) rem.
Proof.
  unfold minimal. rewrite forallb_forall, Forall_forall.
  split; intros H b Hb; specialize (H b Hb); [now apply N.ltb_lt | now apply N.ltb_lt].
Qed.

Definition IsLin (c : nat) (f : fifo) (rem l : list hrec) : Prop :=
  Permutation l rem /\ rt_ok l /\ exists f', spec_exec c f l = Some f'.

Definition NoneLin (c : nat) (f : fifo) (rem : list hrec) : Prop :=
  forall l, Permutation l rem -> rt_ok l -> spec_exec c f l = None.

Section LoopFacts.
  Variable rec : nat -> fifo -> list hrec -> answer * nat.
  Variable c : nat.

  Lemma loop_sound f rem :
    (forall fuel f' rest l fu, rec fuel f' rest = (Found l, fu) -> IsLin c f' rest l) ->
    forall cs fuel l fu,
      (forall x rest, In (x, rest) cs -> Permutation rem (x :: rest)) ->
      loop rec c f rem cs fuel = (Found l, fu) -> IsLin c f rem l.
  Proof.
    intros HR. induction cs as [|[x rest] cs IH]; intros fuel l fu HP E; cbn [loop] in E; [discriminate|].
    assert (HP' : forall y r, In (y, r) cs -> Permutation rem (y :: r)) by (intros; apply HP; now right).
    destruct (minimal x rem) eqn:Em; [|eapply IH; eauto].
    destruct (step_rec c f x) as [f'|] eqn:Es; [|eapply IH; eauto].
    destruct fuel as [|fuel']; [discriminate|].
    destruct (rec fuel' f' rest) as [[l'| |] fu'] eqn:Er; [| eapply IH; eauto | discriminate].
    inversion E; subst. destruct (HR _ _ _ _ _ Er) as (P & R & f2 & S).
    assert (Px : Permutation rem (x :: rest)) by (apply HP; now left).
    assert (Pl : Permutation (x :: l') rem).
    { rewrite Px. now constructor. }
    split; [exact Pl|]. split.
    - cbn [rt_ok]. split; [|exact R]. apply minimal_forall in Em.
      eapply Permutation_Forall; [symmetry; exact Pl | exact Em].
    - exists f2. cbn [spec_exec]. now rewrite Es.
  Qed.

  Lemma loop_nolin f rem n :
    (forall fuel f' rest fu, rec fuel f' rest = (NoLin, fu) -> length rest <= n -> NoneLin c f' rest) ->
    forall cs fuel fu,
      (forall x rest, In (x, rest) cs -> length rest <= n) ->
      loop rec c f rem cs fuel = (NoLin, fu) ->
      forall x rest f', In (x, rest) cs -> minimal x rem = true -> step_rec c f x = Some f' ->
                        NoneLin c f' rest.
  Proof.
    intros HR. induction cs as [|[y r] cs IH]; intros fuel fu HL E x rest f' Hin Em Es; [destruct Hin|].
    cbn [loop] in E.
    assert (HL' : forall y r, In (y, r) cs -> length r <= n) by (intros; eapply HL; right; eauto).
    destruct Hin as [Eq|Hin].
    - inversion Eq; subst. rewrite Em, Es in E.
      destruct fuel as [|fuel']; [discriminate|].
      destruct (rec fuel' f' rest) as [[l'| |] fu'] eqn:Er; try discriminate.
      eapply HR; [exact Er|]. eapply HL. now left.
    - destruct (minimal y rem); [|eapply IH; eauto].
      destruct (step_rec c f y) as [fy|]; [|eapply IH; eauto].
      destruct fuel as [|fuel']; [discriminate|].
      destruct (rec fuel' fy r) as [[l'| |] fu'] eqn:Er; try discriminate.
      eapply IH; eauto.
  Qed.
End LoopFacts.

Theorem dfs_sound c n : forall fuel f rem l fu,
  dfs c n fuel f rem = (Found l, fu) -> IsLin c f rem l.
Proof.
  induction n as [|n IH]; intros fuel f rem l fu E.
  - destruct rem; cbn in E; [|discriminate]. inversion E; subst.
    split; [reflexivity|]. split; [exact I|]. now exists f.
  - destruct rem as [|a rem]; cbn [dfs] in E.
    + inversion E; subst. split; [reflexivity|]. split; [exact I|]. now exists f.
    + eapply loop_sound; [exact IH | | exact E]. intros x rest. apply picks_perm.
Qed.

Theorem dfs_nolin c n : forall fuel f rem fu,
  dfs c n fuel f rem = (NoLin, fu) -> length rem <= n -> NoneLin c f rem.
Proof.
  induction n as [|n IH]; intros fuel f rem fu E Hn.
  - destruct rem; cbn in E; discriminate.
  - destruct rem as [|a rem]; cbn [dfs] in E; [discriminate|].
    intros l P R.
    destruct l as [|x l'].
    { apply Permutation_nil in P. discriminate. }
    assert (Hx : In x (a :: rem)) by (eapply Permutation_in; [exact P | now left]).
    destruct (picks_complete _ _ Hx) as [rest Hr].
    assert (Px := picks_perm _ _ _ Hr).
    assert (Pl : Permutation l' rest).
    { eapply Permutation_cons_inv. rewrite P. exact Px. }
    cbn [rt_ok] in R. destruct R as [F R].
    assert (Em : minimal x (a :: rem) = true).
    { apply minimal_forall. eapply Permutation_Forall; [exact P | exact F]. }
    cbn [spec_exec]. destruct (step_rec c f x) as [f'|] eqn:Es; [|reflexivity].
    assert (HL : forall y r, In (y, r) (picks (a :: rem)) -> length r <= n).
    { intros y r Hy. apply picks_perm in Hy. apply Permutation_length in Hy. cbn [length] in *. lia. }
    assert (Q := loop_nolin (dfs c n) c f (a :: rem) n IH _ _ _ HL E x rest f' Hr Em Es).
    apply Q; assumption.
Qed.

(** the checker as used by [RingLin.check] *)
Theorem lin_check_found fuel c f0 h l :
  lin_check fuel c f0 h = Found l -> Linearizable c f0 h.
Proof.
  unfold lin_check. destruct (dfs c (length h) fuel f0 h) as [a fu] eqn:E. cbn [fst]. intros ->.
  destruct (dfs_sound _ _ _ _ _ _ _ E) as (P & R & S). exists l. repeat split; assumption.
Qed.

Theorem lin_check_nolin fuel c f0 h :
  lin_check fuel c f0 h = NoLin -> ~ Linearizable c f0 h.
Proof.
  unfold lin_check. destruct (dfs c (length h) fuel f0 h) as [a fu] eqn:E. cbn [fst]. intros ->.
  intros (l & P & R & f & S).
  rewrite (dfs_nolin _ _ _ _ _ _ E (Nat.le_refl _) l P R) in S. discriminate.
Qed.

(** ------------------------------------------------------------------
    The sequential oracle holds on the model. *)
Lemma seq_run_refines r ops : Inv r -> seq_run r ops = spec_run (cap r) (abs_fifo r) ops.
Proof.
  revert r. induction ops as [|o ops IH]; intros r HI; [reflexivity|].
  cbn [seq_run spec_run]. assert (S := step_refines r o HI). unfold seq_step.
  destruct (seq_full r o) as [[r' x] bc]. destruct S as (I' & C' & S). rewrite S.
  destruct x as [k got | cnd]; [|reflexivity]. f_equal. rewrite <- C'. now apply IH.
Qed.

Lemma obs_eqb_refl (x : obs) : obs_eqb x x = true.
Proof. destruct x as [[k b] g]. cbn. now rewrite Z.eqb_refl, eqb_reflx, got_eqb_refl. Qed.

Lemma oobs_eqb_refl l : oobs_eqb l l = true.
Proof.
  induction l as [|x l IH]; [reflexivity|]. unfold oobs_eqb in *. cbn [list_eqb]. rewrite IH.
  destruct x; cbn; [now rewrite obs_eqb_refl | reflexivity].
Qed.

(** whenever the model's sequential run is what the implementation returned,
    the FIFO oracle accepts it *)
Theorem seq_oracle_on_model c init ops impl :
  seq_run (new c init) ops = map Some impl -> seq_oracle c init ops impl = true.
Proof.
  intros E. unfold seq_oracle. rewrite <- E.
  rewrite (seq_run_refines _ ops (inv_new c init)).
  destruct (abs_new c init) as [A C]. unfold abs_fifo, f_init. rewrite A, C. cbn [new closed].
  replace (closed (new c init)) with false by (destruct init; reflexivity).
  apply oobs_eqb_refl.
Qed.

(** ------------------------------------------------------------------
    FIFO content: what has been read, followed by what is stored, is what was
    there initially followed by what has been written (accepted prefixes), in
    order -- so nothing is lost, duplicated or reordered. *)
Lemma step_rec_content c f e f' :
  step_rec c f e = Some f' ->
  map Some (q f) ++ map Some (written e) = was_read e ++ map Some (q f').
Proof.
  unfold step_rec, written, was_read. destruct e as [o k got i t]. cbn [h_op h_k h_got].
  destruct o as [es b | n b |]; cbn [spec_step].
  - destruct ((0 <? length es) && (c <=? length (q f)) && negb (cl f)).
    + destruct b; [discriminate|]. destruct (Z.eqb 0 k) eqn:Ek; [|discriminate].
      cbn [andb]. destruct (got_eqb [] got); [|discriminate]. intros E. inversion E; subst.
      apply Z.eqb_eq in Ek. subst k. cbn. now rewrite app_nil_r.
    + destruct (cl f).
      * destruct (Z.eqb (-1) k) eqn:Ek; [|discriminate]. cbn [andb].
        destruct (got_eqb [] got); [|discriminate]. intros E. inversion E; subst.
        apply Z.eqb_eq in Ek. subst k. cbn. now rewrite app_nil_r.
      * destruct (Z.eqb _ k) eqn:Ek; [|discriminate]. cbn [andb].
        destruct (got_eqb [] got); [|discriminate]. intros E. inversion E; subst.
        apply Z.eqb_eq in Ek. subst k. cbn [q app]. rewrite Nat2Z.id, map_app. reflexivity.
  - destruct ((0 <? n) && (length (q f) =? 0) && negb (cl f)).
    + destruct b; [discriminate|]. destruct (Z.eqb 0 k); [|discriminate]. cbn [andb].
      destruct (got_eqb [] got) eqn:Eg; [|discriminate]. intros E. inversion E; subst.
      apply got_eqb_eq in Eg. subst got. cbn. now rewrite app_nil_r.
    + destruct (cl f && (length (q f) =? 0)).
      * destruct (Z.eqb (-1) k); [|discriminate]. cbn [andb].
        destruct (got_eqb [] got) eqn:Eg; [|discriminate]. intros E. inversion E; subst.
        apply got_eqb_eq in Eg. subst got. cbn. now rewrite app_nil_r.
      * destruct (Z.eqb _ k); [|discriminate]. cbn [andb].
        destruct (got_eqb _ got) eqn:Eg; [|discriminate]. intros E. inversion E; subst.
        apply got_eqb_eq in Eg. subst got. cbn [q]. rewrite app_nil_r, <- map_app.
        now rewrite firstn_skipn.
  - destruct (Z.eqb 0 k); [|discriminate]. cbn [andb].
    destruct (got_eqb [] got); [|discriminate]. intros E. inversion E; subst. cbn. now rewrite app_nil_r.
Qed.

Theorem spec_exec_content c : forall l f f',
  spec_exec c f l = Some f' ->
  map Some (q f) ++ map Some (flat_map written l) = flat_map was_read l ++ map Some (q f').
Proof.
  induction l as [|e l IH]; intros f f' E; cbn [spec_exec flat_map] in *.
  - inversion E; subst. cbn. now rewrite app_nil_r.
  - destruct (step_rec c f e) as [f1|] eqn:Es; [|discriminate].
    rewrite map_app, app_assoc, (step_rec_content _ _ _ _ Es), <- app_assoc, (IH _ _ E).
    now rewrite app_assoc.
Qed.

(** ------------------------------------------------------------------
    After Close. *)
Lemma spec_closed_write c f es b :
  cl f = true -> spec_step c f (Write es b) = (f, Ret (-1) []).
Proof.
  intros H. cbn [spec_step]. rewrite H. cbn [negb]. now rewrite andb_false_r.
Qed.

Lemma spec_closed_read c f k b :
  cl f = true ->
  spec_step c f (Read k b) =
  if length (q f) =? 0 then (f, Ret (-1) [])
  else ({| q := skipn (Nat.min (length (q f)) k) (q f); cl := true |},
        Ret (Z.of_nat (Nat.min (length (q f)) k)) (map Some (firstn (Nat.min (length (q f)) k) (q f)))).
Proof.
  intros H. cbn [spec_step]. rewrite H. cbn [negb andb]. rewrite andb_false_r.
  destruct (length (q f) =? 0); reflexivity.
Qed.

Lemma spec_closed_stays c f o f' x : cl f = true -> spec_step c f o = (f', x) -> cl f' = true.
Proof.
  intros H. destruct o as [es b|k b|].
  - rewrite spec_closed_write by exact H. intros E. now inversion E; subst.
  - rewrite spec_closed_read by exact H. destruct (length (q f) =? 0); intros E; inversion E; subst;
      [exact H | reflexivity].
  - cbn. intros E. now inversion E.
Qed.

(** ------------------------------------------------------------------
    pktRing: one producer, one consumer. *)
Definition PInv (p : pktring) (qs : list N) (buffered : nat) (cl_ : bool) : Prop :=
  Inv (pr_ring p) /\ cap (pr_ring p) = ring_size /\ closed (pr_ring p) = cl_ /\
  exists bq, pr_buf p = map Some bq /\ length bq = buffered /\ qs = bq ++ abs (pr_ring p).

Lemma seq_step_refines r o :
  Inv r -> let '(r', x) := seq_step r o in
           Inv r' /\ cap r' = cap r /\ spec_step (cap r) (abs_fifo r) o = (abs_fifo r', x).
Proof.
  intros HI. assert (S := step_refines r o HI). unfold seq_step.
  destruct (seq_full r o) as [[r' x] bc]. exact S.
Qed.

Lemma spec_closed_eq r r' : abs_fifo r = abs_fifo r' -> abs r = abs r' /\ closed r = closed r'.
Proof. unfold abs_fifo. intros E. now inversion E. Qed.

Lemma PInv_intro r buf bq qs n cl_ :
  Inv r -> cap r = ring_size -> closed r = cl_ -> buf = map Some bq -> length bq = n ->
  qs = bq ++ abs r -> PInv {| pr_ring := r; pr_buf := buf |} qs n cl_.
Proof. intros. split; [assumption|]. split; [assumption|]. split; [assumption|]. exists bq. auto. Qed.

Ltac split_step S x A1 A2 :=
  let E1 := fresh "E1" in let E2 := fresh "E2" in
  apply pair_equal_spec in S as [E1 E2]; subst x; unfold abs_fifo in E1; injection E1 as A1 A2.

Theorem pkt_run_spec : forall ops p qs n cl_,
  PInv p qs n cl_ -> pkt_run p ops = pkt_spec_run qs n cl_ ops.
Proof.
  induction ops as [|o ops IH]; intros p qs n cl_ (HI & HC & Hcl & bq & Hb & Hn & Hq); [reflexivity|].
  assert (LA := abs_length _ HI).
  cbn [pkt_run pkt_spec_run]. destruct o as [v block | block |]; cbn [pkt_step].
  - (* write *)
    assert (Hs := seq_step_refines (pr_ring p) (Write [v] block) HI).
    destruct (seq_step (pr_ring p) (Write [v] block)) as [r' x]. destruct Hs as (I' & C' & Hs).
    rewrite HC in Hs, C'. cbn [spec_step abs_fifo q cl length] in Hs. rewrite Hcl in Hs.
    replace (ring_size + n <=? length qs) with (ring_size <=? length (abs (pr_ring p)))
      by (subst qs; rewrite app_length; destruct (ring_size <=? length (abs (pr_ring p))) eqn:E1,
            (ring_size + n <=? length bq + length (abs (pr_ring p))) eqn:E2; bools; lia).
    destruct cl_.
    + cbn [negb] in Hs. rewrite andb_false_r in Hs. split_step Hs x A1 A2.
      f_equal. apply IH.
      apply (PInv_intro _ _ bq); try assumption; try congruence; try reflexivity.
      all: rewrite <- A1; assumption.
    + cbn [negb] in Hs. rewrite andb_true_r in Hs. change (0 <? 1) with true in Hs. cbn [andb] in Hs.
      destruct (ring_size <=? length (abs (pr_ring p))) eqn:Ef.
      * destruct block; split_step Hs x A1 A2; [reflexivity|].
        f_equal. apply IH.
        apply (PInv_intro _ _ bq); try assumption; try congruence; try reflexivity.
        all: rewrite <- A1; assumption.
      * bools. replace (Nat.min (ring_size - length (abs (pr_ring p))) 1) with 1 in Hs by lia.
        cbn [firstn] in Hs. split_step Hs x A1 A2. f_equal. apply IH.
        apply (PInv_intro _ _ bq); try assumption; try congruence; try reflexivity.
        all: rewrite <- A1, Hq; now rewrite app_assoc.
  - (* read *)
    destruct (pr_buf p) as [|c0 rest] eqn:Eb.
    + destruct bq; [|discriminate]. cbn [length app] in *. subst n qs.
      assert (Hs := seq_step_refines (pr_ring p) (Read batch_size block) HI).
      destruct (seq_step (pr_ring p) (Read batch_size block)) as [r' x]. destruct Hs as (I' & C' & Hs).
      rewrite HC in Hs, C'. cbn [spec_step abs_fifo q cl] in Hs. rewrite Hcl in Hs.
      change (0 <? batch_size) with true in Hs. cbn [andb] in Hs.
      destruct (abs (pr_ring p)) as [|v qt] eqn:Ea.
      * cbn [length Nat.eqb andb] in Hs. destruct cl_; cbn [negb andb] in Hs.
        -- split_step Hs x A1 A2. cbn [Z.eqb Pos.eqb]. f_equal. apply IH.
           apply (PInv_intro _ _ []); try assumption; try congruence; try reflexivity.
           all: cbn; congruence.
        -- destruct block; split_step Hs x A1 A2; [reflexivity|]. cbn [Z.eqb Pos.eqb]. f_equal.
           apply IH.
           apply (PInv_intro _ _ []); try assumption; try congruence; try reflexivity.
           all: cbn; congruence.
      * cbn [length Nat.eqb andb] in Hs. rewrite andb_false_r in Hs.
        remember (Nat.min (S (length qt)) batch_size) as m eqn:Em.
        destruct m as [|m']; [unfold batch_size in Em; lia|].
        split_step Hs x A1 A2.
        replace (Z.of_nat (S m') =? -1)%Z with false by (symmetry; apply Z.eqb_neq; lia).
        replace (Z.of_nat (S m') =? 0)%Z with false by (symmetry; apply Z.eqb_neq; lia).
        cbn [firstn map]. f_equal. apply IH.
        apply (PInv_intro _ _ (firstn m' qt)); try assumption; try congruence; try reflexivity.
        -- rewrite firstn_length. cbn [length]. rewrite <- Em. unfold batch_size in *. lia.
        -- rewrite <- A1. cbn [skipn]. now rewrite firstn_skipn.
    + destruct bq as [|v bq']; [discriminate|]. cbn [map] in Hb. inversion Hb; subst c0 rest.
      cbn [length] in Hn. subst n qs. cbn [app]. f_equal. apply IH.
      apply (PInv_intro _ _ bq'); try assumption; try congruence; try reflexivity.
  - (* close *)
    assert (Hs := seq_step_refines (pr_ring p) Close HI).
    destruct (seq_step (pr_ring p) Close) as [r' x]. destruct Hs as (I' & C' & Hs). cbn [fst].
    cbn [spec_step abs_fifo q cl] in Hs. split_step Hs x A1 A2. f_equal. apply IH.
    apply (PInv_intro _ _ bq); try assumption; try congruence; try reflexivity.
    all: rewrite <- A1; assumption.
Qed.

Theorem pkt_run_new_spec ops : pkt_run pkt_new ops = pkt_spec_run [] 0 false ops.
Proof.
  apply pkt_run_spec. unfold pkt_new. apply (PInv_intro _ _ []); try reflexivity.
  apply inv_new_empty.
Qed.
