(** Lemmas about Model/Checksum.v (C20). *)
From Coq Require Import List Arith NArith ZArith Bool Lia ZifyBool ZifyN ZifyNat.
From Scion Require Import Lib.Check Lib.Bytes Model.Checksum.
Import ListNotations.
Import Checksum.
Local Open Scope N_scope.

Ltac Zify.zify_post_hook ::= Z.div_mod_to_equations.

(** induction two bytes at a time *)
Lemma pair_ind {A} (P : list A -> Prop) :
  P [] -> (forall x, P [x]) -> (forall x y t, P t -> P (x :: y :: t)) -> forall l, P l.
Proof.
  intros H0 H1 H2. fix IH 1. intros [|x [|y t]]; [exact H0 | apply H1 | apply H2, IH].
Qed.

Definition wsum (l : bytes) : N := sum (words_of l).

Lemma wsum_nil : wsum [] = 0. Proof. reflexivity. Qed.
Lemma wsum_one x : wsum [x] = x * 256. Proof. unfold wsum; cbn. lia. Qed.
Lemma wsum_cons2 x y t : wsum (x :: y :: t) = x * 256 + y + wsum t.
Proof. unfold wsum; cbn [words_of sum fold_right]. reflexivity. Qed.

Lemma wsum_app_even a b : Nat.even (length a) = true -> wsum (a ++ b) = wsum a + wsum b.
Proof.
  revert a. apply (pair_ind (fun a => Nat.even (length a) = true -> wsum (a ++ b) = wsum a + wsum b)).
  - intros _. rewrite wsum_nil. reflexivity.
  - intros x H. discriminate.
  - intros x y t IH H. cbn [app]. rewrite !wsum_cons2, IH by exact H. lia.
Qed.

(** every word is at most 0xFFFF *)
Lemma wsum_le l : wf_bytes l -> wsum l <= 65535 * N.of_nat (Nat.div2 (S (length l))).
Proof.
  revert l. apply (pair_ind (fun l => wf_bytes l -> wsum l <= 65535 * N.of_nat (Nat.div2 (S (length l))))).
  - intros _. rewrite wsum_nil. lia.
  - intros x H. inversion H as [|? ? Hx _]; subst. unfold wf_byte in Hx. rewrite wsum_one. cbn. lia.
  - intros x y t IH H. inversion H as [|? ? Hx H']; subst. inversion H' as [|? ? Hy Ht]; subst.
    unfold wf_byte in *. rewrite wsum_cons2. specialize (IH Ht).
    change (Nat.div2 (S (length (x :: y :: t)))) with (S (Nat.div2 (S (length t)))). lia.
Qed.

Lemma div2_le n m : (n <= m)%nat -> (Nat.div2 n <= Nat.div2 m)%nat.
Proof. intros H. rewrite !Nat.div2_div. apply Nat.div_le_mono; [discriminate | exact H]. Qed.

(** a byte string of at most 131 070 bytes cannot wrap the uint32 accumulator *)
Lemma wsum_lt_2_32 l : wf_bytes l -> (length l <= 131070)%nat -> wsum l < 2 ^ 32.
Proof.
  intros W L. pose proof (wsum_le l W) as H.
  assert (Nat.div2 (S (length l)) <= 65535)%nat.
  { change 65535%nat with (Nat.div2 131071). apply div2_le. lia. }
  change (2 ^ 32) with 4294967296. lia.
Qed.

(** ------------------------------------------------------------------
    The accumulating loops compute exact sums as long as nothing wraps *)
Lemma add2_exact c hi lo : c + hi * 256 + lo < 2 ^ 32 -> add2 c hi lo = c + hi * 256 + lo.
Proof.
  intros H. unfold add2, u32. rewrite (N.mod_small (c + hi * 256)) by lia. now rewrite N.mod_small.
Qed.

Lemma upper_sum_exact l : forall c, c + wsum l < 2 ^ 32 -> upper_sum l c = c + wsum l.
Proof.
  revert l. apply (pair_ind (fun l => forall c, c + wsum l < 2 ^ 32 -> upper_sum l c = c + wsum l)).
  - intros c _. rewrite wsum_nil. cbn. lia.
  - intros x c H. rewrite wsum_one in *. cbn [upper_sum]. unfold u32. now rewrite N.mod_small.
  - intros x y t IH c H. rewrite wsum_cons2 in *. cbn [upper_sum].
    rewrite add2_exact by lia. rewrite IH by lia. lia.
Qed.

Lemma addr_sum_exact l : forall c, Nat.even (length l) = true -> c + wsum l < 2 ^ 32 ->
  addr_sum l c = Some (c + wsum l).
Proof.
  revert l. apply (pair_ind (fun l => forall c, Nat.even (length l) = true -> c + wsum l < 2 ^ 32 ->
                                      addr_sum l c = Some (c + wsum l))).
  - intros c _ _. rewrite wsum_nil. cbn. f_equal. lia.
  - intros x c H. discriminate.
  - intros x y t IH c E H. rewrite wsum_cons2 in *. cbn [addr_sum].
    rewrite add2_exact by lia. rewrite IH by (try exact E; lia). f_equal. lia.
Qed.

Lemma addr_sum_odd l : forall c, Nat.even (length l) = false -> addr_sum l c = None.
Proof.
  revert l. apply (pair_ind (fun l => forall c, Nat.even (length l) = false -> addr_sum l c = None)).
  - intros c H. discriminate.
  - reflexivity.
  - intros x y t IH c H. cbn [addr_sum]. apply IH. exact H.
Qed.

Lemma ia_sum_exact s d : forall c, length s = length d -> Nat.even (length s) = true ->
  c + wsum s + wsum d < 2 ^ 32 -> ia_sum s d c = c + wsum s + wsum d.
Proof.
  revert d. revert s.
  apply (pair_ind (fun s => forall d c, length s = length d -> Nat.even (length s) = true ->
            c + wsum s + wsum d < 2 ^ 32 -> ia_sum s d c = c + wsum s + wsum d)).
  - intros [|? ?] c L _ _; [|discriminate]. rewrite wsum_nil. cbn. lia.
  - intros x d c _ E. discriminate.
  - intros x y t IH [|u [|v d]] c L E H; try discriminate.
    rewrite !wsum_cons2 in *. cbn [ia_sum]. rewrite !add2_exact by lia.
    rewrite IH; [lia | cbn in L; lia | exact E | lia].
Qed.

(** ------------------------------------------------------------------
    Folding *)
Lemma fold_loop_ones c : c < 2 ^ 32 -> fold_loop 4 c = ones c.
Proof.
  change (2 ^ 32) with 4294967296. intros H. unfold ones. cbn [fold_loop].
  destruct (N.ltb_spec 65535 c) as [H1|H1].
  - set (c1 := c / 65536 + c mod 65536).
    assert (B1 : 0 < c1 <= 131070 /\ exists q, c + q * 65535 = c1 + (c / 65536) * 65536 /\ q = 0) by (unfold c1; split; [lia | exists 0; lia]).
    assert (E1 : (c - 1) mod 65535 = (c1 - 1) mod 65535).
    { unfold c1. pose proof (N.div_mod' c 65536) as D.
      replace (c - 1) with ((c / 65536 + c mod 65536 - 1) + (c / 65536) * 65535) by lia.
      apply N.mod_add. discriminate. }
    destruct (N.eqb_spec c 0); [lia|]. rewrite E1. clear E1.
    destruct B1 as [B1 _]. clearbody c1.
    destruct (N.ltb_spec 65535 c1) as [H2|H2].
    + set (c2 := c1 / 65536 + c1 mod 65536).
      assert (E2 : c2 = c1 - 65535) by (unfold c2; lia).
      replace (if 65535 <? c2 then _ else c2) with c2.
      2:{ destruct (N.ltb_spec 65535 c2); [lia|reflexivity]. }
      rewrite E2. lia.
    + lia.
  - destruct (N.eqb_spec c 0); lia.
Qed.

Lemma ones_range s : 0 < s -> 1 <= ones s <= 65535.
Proof. intros H. unfold ones. destruct (N.eqb_spec s 0); lia. Qed.

Lemma ones_complement s : 0 < s -> ones (s + (65535 - ones s)) = 65535.
Proof.
  intros H. unfold ones. destruct (N.eqb_spec s 0); [lia|].
  destruct (N.eqb_spec (s + (65535 - ((s - 1) mod 65535 + 1))) 0); [lia|].
  pose proof (N.div_mod' (s - 1) 65535) as D.
  set (r := (s - 1) mod 65535) in *. set (q := (s - 1) / 65535) in *.
  assert (R : r < 65535) by (apply N.mod_lt; discriminate).
  replace (s + (65535 - (r + 1)) - 1) with (65534 + (q + 0) * 65535) by lia.
  rewrite N.mod_add by discriminate. reflexivity.
Qed.

(** two positive sums that differ by less than 65535 fold differently; also when one of them is 0 *)
Lemma ones_shift s d : 0 < d < 65535 -> ones (s + d) <> ones s.
Proof.
  intros D. unfold ones. destruct (N.eqb_spec (s + d) 0); [lia|]. destruct (N.eqb_spec s 0).
  - lia.
  - intros E. assert (E' : (s + d - 1) mod 65535 = (s - 1) mod 65535) by lia. clear E.
    pose proof (N.div_mod' (s - 1) 65535). pose proof (N.div_mod' (s + d - 1) 65535).
    pose proof (N.mod_lt (s - 1) 65535 ltac:(discriminate)).
    set (q1 := (s - 1) / 65535) in *. set (q2 := (s + d - 1) / 65535) in *.
    rewrite E' in *. set (r := (s - 1) mod 65535) in *. clearbody q1 q2 r. lia.
Qed.
