(** Lemmas about Model/Checksum.v (C20). *)
From Coq Require Import List Arith NArith ZArith Bool Lia ZifyBool ZifyN ZifyNat.
From Scion Require Import Lib.Check Lib.Bytes Model.Checksum.
Import ListNotations.
Import Checksum.
Local Open Scope N_scope.

Ltac Zify.zify_post_hook ::= Z.div_mod_to_equations.

(** induction two bytes at a time *)
Lemma pair_ind {A} (P : list A -> Prop) :
  P [] -> (forall x, P [x]) -> (forall x y t, P t -> P (x :: y :: t)) -> forall l, P l.
Proof.
  intros H0 H1 H2. fix IH 1. intros [|x [|y t]]; [exact H0 | apply H1 | apply H2, IH].
Qed.

Definition wsum (l : bytes) : N := sum (words_of l).

Lemma wsum_nil : wsum [] = 0. Proof. reflexivity. Qed.
Lemma wsum_one x : wsum [x] = x * 256. Proof. unfold wsum; cbn. lia. Qed.
Lemma wsum_cons2 x y t : wsum (x :: y :: t) = x * 256 + y + wsum t.
Proof. unfold wsum; cbn [words_of sum fold_right]. reflexivity. Qed.

Lemma wsum_app_even a b : Nat.even (length a) = true -> wsum (a ++ b) = wsum a + wsum b.
Proof.
  revert a. apply (pair_ind (fun a => Nat.even (length a) = true -> wsum (a ++ b) = wsum a + wsum b)).
  - intros _. rewrite wsum_nil. reflexivity.
  - intros x H. discriminate.
  - intros x y t IH H. cbn [app]. rewrite !wsum_cons2, IH by exact H. lia.
Qed.

(** every word is at most 0xFFFF *)
Lemma wsum_le l : wf_bytes l -> wsum l * 2 <= 65535 * (N.of_nat (length l) + 1).
Proof.
  revert l. apply (pair_ind (fun l => wf_bytes l -> wsum l * 2 <= 65535 * (N.of_nat (length l) + 1))).
  - intros _. rewrite wsum_nil. lia.
  - intros x H. inversion H as [|? ? Hx _]; subst. unfold wf_byte in Hx. rewrite wsum_one. cbn [length]. lia.
  - intros x y t IH H. inversion H as [|? ? Hx H']; subst. inversion H' as [|? ? Hy Ht]; subst.
    unfold wf_byte in *. rewrite wsum_cons2. specialize (IH Ht). cbn [length]. lia.
Qed.

(** a byte string of at most 131 072 bytes cannot wrap the uint32 accumulator *)
Lemma wsum_lt_2_32 l : wf_bytes l -> N.of_nat (length l) <= 131072 -> wsum l < 2 ^ 32.
Proof.
  intros W L. pose proof (wsum_le l W) as H. change (2 ^ 32) with 4294967296. lia.
Qed.

(** ------------------------------------------------------------------
    The accumulating loops compute exact sums as long as nothing wraps *)
Lemma add2_exact c hi lo : c + hi * 256 + lo < 2 ^ 32 -> add2 c hi lo = c + hi * 256 + lo.
Proof.
  intros H. unfold add2, u32. rewrite (N.mod_small (c + hi * 256)) by lia. now rewrite N.mod_small.
Qed.

Lemma upper_sum_exact l : forall c, c + wsum l < 2 ^ 32 -> upper_sum l c = c + wsum l.
Proof.
  revert l. apply (pair_ind (fun l => forall c, c + wsum l < 2 ^ 32 -> upper_sum l c = c + wsum l)).
  - intros c _. rewrite wsum_nil. cbn. lia.
  - intros x c H. rewrite wsum_one in *. cbn [upper_sum]. unfold u32. now rewrite N.mod_small.
  - intros x y t IH c H. rewrite wsum_cons2 in *. cbn [upper_sum].
    rewrite add2_exact by lia. rewrite IH by lia. lia.
Qed.

Lemma addr_sum_exact l : forall c, Nat.even (length l) = true -> c + wsum l < 2 ^ 32 ->
  addr_sum l c = Some (c + wsum l).
Proof.
  revert l. apply (pair_ind (fun l => forall c, Nat.even (length l) = true -> c + wsum l < 2 ^ 32 ->
                                      addr_sum l c = Some (c + wsum l))).
  - intros c _ _. rewrite wsum_nil. cbn. f_equal. lia.
  - intros x c H. discriminate.
  - intros x y t IH c E H. rewrite wsum_cons2 in *. cbn [addr_sum].
    rewrite add2_exact by lia. rewrite IH by (try exact E; lia). f_equal. lia.
Qed.

Lemma addr_sum_odd l : forall c, Nat.even (length l) = false -> addr_sum l c = None.
Proof.
  revert l. apply (pair_ind (fun l => forall c, Nat.even (length l) = false -> addr_sum l c = None)).
  - intros c H. discriminate.
  - reflexivity.
  - intros x y t IH c H. cbn [addr_sum]. apply IH. exact H.
Qed.

Lemma ia_sum_exact s d : forall c, length s = length d -> Nat.even (length s) = true ->
  c + wsum s + wsum d < 2 ^ 32 -> ia_sum s d c = c + wsum s + wsum d.
Proof.
  revert d. revert s.
  apply (pair_ind (fun s => forall d c, length s = length d -> Nat.even (length s) = true ->
            c + wsum s + wsum d < 2 ^ 32 -> ia_sum s d c = c + wsum s + wsum d)).
  - intros [|? ?] c L _ _; [|discriminate]. rewrite wsum_nil. cbn. lia.
  - intros x d c _ E. discriminate.
  - intros x y t IH [|u [|v d]] c L E H; try discriminate.
    rewrite !wsum_cons2 in *. cbn [ia_sum]. rewrite (add2_exact c x y) by lia.
    rewrite add2_exact by lia.
    rewrite IH; [lia | cbn in L; lia | exact E | lia].
Qed.

(** ------------------------------------------------------------------
    Folding *)
Lemma fold_loop_ones c : c < 2 ^ 32 -> fold_loop 4 c = ones c.
Proof.
  change (2 ^ 32) with 4294967296. intros H. unfold ones. cbn [fold_loop].
  destruct (N.ltb_spec 65535 c) as [H1|H1].
  - destruct (N.eqb_spec c 0) as [->|_]; [lia|].
    pose proof (N.div_mod' c 65536) as D.
    pose proof (N.mod_lt c 65536 ltac:(discriminate)) as Hb.
    set (a := c / 65536) in *. set (b := c mod 65536) in *. clearbody a b.
    assert (E1 : (c - 1) mod 65535 = (a + b - 1) mod 65535).
    { replace (c - 1) with ((a + b - 1) + a * 65535) by lia. apply N.mod_add. discriminate. }
    rewrite E1. clear E1.
    assert (B1 : 1 <= a + b <= 131070) by lia.
    set (c1 := a + b) in *. clearbody c1. clear D Hb H H1 a b c.
    destruct (N.ltb_spec 65535 c1) as [H2|H2].
    + assert (Q : c1 / 65536 = 1).
      { symmetry. apply (N.div_unique c1 65536 1 (c1 - 65536)); lia. }
      assert (R : c1 mod 65536 = c1 - 65536).
      { symmetry. apply (N.mod_unique c1 65536 1 (c1 - 65536)); lia. }
      rewrite Q, R.
      destruct (N.ltb_spec 65535 (1 + (c1 - 65536))); [lia|].
      replace (c1 - 1) with ((c1 - 65536) + 1 * 65535) by lia.
      rewrite N.mod_add by discriminate. rewrite N.mod_small by lia. lia.
    + rewrite N.mod_small by lia. lia.
  - destruct (N.eqb_spec c 0) as [->|N0]; [reflexivity|].
    rewrite N.mod_small by lia. lia.
Qed.

Lemma ones_range s : 0 < s -> 1 <= ones s <= 65535.
Proof. intros H. unfold ones. destruct (N.eqb_spec s 0); lia. Qed.

Lemma ones_complement s : 0 < s -> ones (s + (65535 - ones s)) = 65535.
Proof.
  intros H. unfold ones. destruct (N.eqb_spec s 0); [lia|].
  destruct (N.eqb_spec (s + (65535 - ((s - 1) mod 65535 + 1))) 0); [lia|].
  pose proof (N.div_mod' (s - 1) 65535) as D.
  set (r := (s - 1) mod 65535) in *. set (q := (s - 1) / 65535) in *.
  assert (R : r < 65535) by (apply N.mod_lt; discriminate).
  replace (s + (65535 - (r + 1)) - 1) with (65534 + (q + 0) * 65535) by lia.
  rewrite N.mod_add by discriminate. reflexivity.
Qed.

(** two positive sums that differ by less than 65535 fold differently; also when one of them is 0 *)
Lemma ones_shift s d : 0 < d < 65535 -> ones (s + d) <> ones s.
Proof.
  intros D. unfold ones. destruct (N.eqb_spec (s + d) 0); [lia|]. destruct (N.eqb_spec s 0).
  - lia.
  - intros E. assert (E' : (s + d - 1) mod 65535 = (s - 1) mod 65535) by lia. clear E.
    pose proof (N.div_mod' (s - 1) 65535). pose proof (N.div_mod' (s + d - 1) 65535).
    pose proof (N.mod_lt (s - 1) 65535 ltac:(discriminate)).
    set (q1 := (s - 1) / 65535) in *. set (q2 := (s + d - 1) / 65535) in *.
    rewrite E' in *. set (r := (s - 1) mod 65535) in *. clearbody q1 q2 r. lia.
Qed.

(** ------------------------------------------------------------------
    The pseudo header *)
Definition pseudo_bytes (h : addr_hdr) (len proto : N) : bytes :=
  be 8 (dst_ia h) ++ be 8 (src_ia h) ++ raw_dst h ++ raw_src h ++ be 4 len ++ [0; 0; 0; proto].

Lemma covered_eq h len upper proto : covered h len upper proto = pseudo_bytes h len proto ++ upper.
Proof. unfold covered, pseudo_bytes. now rewrite <- !app_assoc. Qed.

(** SCION host addresses: 4, 8, 12 or 16 bytes *)
Definition wf_hdr (h : addr_hdr) : Prop :=
  raw_dst h <> [] /\ raw_src h <> [] /\
  Nat.even (length (raw_dst h)) = true /\ Nat.even (length (raw_src h)) = true /\
  wf_bytes (raw_dst h) /\ wf_bytes (raw_src h) /\
  (length (raw_dst h) <= 16)%nat /\ (length (raw_src h) <= 16)%nat.

Lemma wsum_be4 len : len < 2 ^ 32 -> wsum (be 4 len) = len / 65536 + len mod 65536.
Proof.
  intros H. pose proof (be_length 4 len) as L. pose proof (be_wf 4 len) as W.
  pose proof (unbe_be_small 4 len H) as U.
  destruct (be 4 len) as [|a [|b [|c [|d [|? ?]]]]]; try discriminate.
  unfold wf_bytes in W.
  apply Forall_cons_iff in W as [Ha W]. apply Forall_cons_iff in W as [Hb W].
  apply Forall_cons_iff in W as [Hc W]. apply Forall_cons_iff in W as [Hd _]. unfold wf_byte in *.
  rewrite !wsum_cons2, wsum_nil. unfold unbe in U. cbn [fold_left] in U.
  assert (Q : len / 65536 = a * 256 + b).
  { symmetry. apply (N.div_unique len 65536 _ (c * 256 + d)); lia. }
  assert (R : len mod 65536 = c * 256 + d).
  { symmetry. apply (N.mod_unique len 65536 (a * 256 + b)); lia. }
  rewrite Q, R. lia.
Qed.

Lemma pseudo_bytes_even h len proto : wf_hdr h -> Nat.even (length (pseudo_bytes h len proto)) = true.
Proof.
  intros (_ & _ & E1 & E2 & _). unfold pseudo_bytes. rewrite !app_length, !be_length. cbn [length].
  rewrite !Nat.even_add, E1, E2. reflexivity.
Qed.

Lemma pseudo_bytes_wf h len proto : wf_hdr h -> proto < 256 -> wf_bytes (pseudo_bytes h len proto).
Proof.
  intros (_ & _ & _ & _ & W1 & W2 & _) P. unfold pseudo_bytes, wf_bytes.
  rewrite !Forall_app. repeat split; try apply be_wf; try assumption.
  repeat constructor; unfold wf_byte; lia.
Qed.

Lemma pseudo_bytes_length h len proto : wf_hdr h -> (length (pseudo_bytes h len proto) <= 56)%nat.
Proof.
  intros (_ & _ & _ & _ & _ & _ & L1 & L2). unfold pseudo_bytes. rewrite !app_length, !be_length. cbn [length]. lia.
Qed.

Lemma pseudo_exact h len proto : wf_hdr h -> len < 2 ^ 32 -> proto < 256 ->
  pseudo h len proto = Ok (wsum (pseudo_bytes h len proto)).
Proof.
  intros WH Hl Hp. pose proof WH as (N1 & N2 & E1 & E2 & W1 & W2 & L1 & L2).
  assert (B : wsum (pseudo_bytes h len proto) < 2 ^ 32).
  { apply wsum_lt_2_32; [now apply pseudo_bytes_wf|]. pose proof (pseudo_bytes_length h len proto WH). lia. }
  unfold pseudo_bytes in B.
  assert (E8 : forall x, Nat.even (length (be 8 x)) = true) by (intros; now rewrite be_length).
  assert (E4 : forall x, Nat.even (length (be 4 x)) = true) by (intros; now rewrite be_length).
  rewrite (wsum_app_even _ _ (E8 _)), (wsum_app_even _ _ (E8 _)), (wsum_app_even _ _ E1),
    (wsum_app_even _ _ E2), (wsum_app_even _ _ (E4 _)) in B.
  assert (WP : wsum [0; 0; 0; proto] = proto) by (rewrite !wsum_cons2, wsum_nil; lia).
  rewrite WP, (wsum_be4 len Hl) in B.
  unfold pseudo. destruct (raw_dst h) as [|d0 dt] eqn:ED; [contradiction|].
  destruct (raw_src h) as [|s0 st] eqn:ES; [contradiction|]. rewrite <- ED, <- ES in *.
  rewrite ia_sum_exact by (rewrite ?be_length; try reflexivity; lia).
  rewrite (addr_sum_exact (raw_src h)) by (try exact E2; lia).
  rewrite (addr_sum_exact (raw_dst h)) by (try exact E1; lia).
  f_equal.
  assert (UL : u32 len = len) by (unfold u32; now apply N.mod_small).
  rewrite UL.
  unfold pseudo_bytes.
  rewrite (wsum_app_even _ _ (E8 _)), (wsum_app_even _ _ (E8 _)), (wsum_app_even _ _ E1),
    (wsum_app_even _ _ E2), (wsum_app_even _ _ (E4 _)), WP, (wsum_be4 len Hl).
  set (L := len / 65536 + len mod 65536) in *.
  unfold u32. rewrite (N.mod_small L) by lia.
  rewrite (N.mod_small (_ + L)) by lia.
  rewrite N.mod_small by lia. lia.
Qed.

(** ------------------------------------------------------------------
    Exact values of the verification sum and of the checksum *)
Definition bounded (upper : bytes) : Prop := N.of_nat (length upper) <= 131000.

Lemma covered_sum_lt h len upper proto : wf_hdr h -> proto < 256 -> wf_bytes upper -> bounded upper ->
  wsum (covered h len upper proto) < 2 ^ 32.
Proof.
  intros WH Hp WU B. apply wsum_lt_2_32.
  - rewrite covered_eq. apply Forall_app. split; [now apply pseudo_bytes_wf | exact WU].
  - rewrite covered_eq, app_length. pose proof (pseudo_bytes_length h len proto WH). unfold bounded in B. lia.
Qed.

Lemma covered_wsum h len upper proto : wf_hdr h ->
  wsum (covered h len upper proto) = wsum (pseudo_bytes h len proto) + wsum upper.
Proof. intros WH. rewrite covered_eq. apply wsum_app_even. now apply pseudo_bytes_even. Qed.

Lemma verify_exact h len upper proto :
  wf_hdr h -> len < 2 ^ 32 -> proto < 256 -> wf_bytes upper -> bounded upper ->
  verify_sum h len upper proto = Ok (ones (wsum (covered h len upper proto))).
Proof.
  intros WH Hl Hp WU B. unfold verify_sum. rewrite (pseudo_exact h len proto WH Hl Hp).
  pose proof (covered_sum_lt h len upper proto WH Hp WU B) as L.
  rewrite covered_wsum in * by exact WH.
  rewrite upper_sum_exact by exact L. now rewrite fold_loop_ones.
Qed.

Lemma compute_exact h upper proto :
  wf_hdr h -> proto < 256 -> wf_bytes upper -> bounded upper ->
  compute_checksum h upper proto =
  Ok (65535 - ones (wsum (covered h (N.of_nat (length upper)) upper proto))).
Proof.
  intros WH Hp WU B. unfold compute_checksum.
  assert (Hl : N.of_nat (length upper) < 2 ^ 32) by (unfold bounded in B; change (2 ^ 32) with 4294967296; lia).
  rewrite (pseudo_exact h _ proto WH Hl Hp).
  pose proof (covered_sum_lt h (N.of_nat (length upper)) upper proto WH Hp WU B) as L.
  rewrite covered_wsum in * by exact WH.
  unfold fold. rewrite upper_sum_exact by exact L. rewrite fold_loop_ones by exact L.
  f_equal. f_equal. apply N.mod_small.
  unfold ones. destruct (N.eqb_spec (wsum (pseudo_bytes h (N.of_nat (length upper)) proto) + wsum upper) 0); [lia|].
  pose proof (N.mod_lt (wsum (pseudo_bytes h (N.of_nat (length upper)) proto) + wsum upper - 1) 65535 ltac:(discriminate)).
  lia.
Qed.

(** the pseudo header sum is positive (the protocol number is) *)
Lemma pseudo_pos h len proto : wf_hdr h -> 0 < proto -> 0 < wsum (pseudo_bytes h len proto).
Proof.
  intros WH Hp. pose proof WH as (_ & _ & E1 & E2 & _). unfold pseudo_bytes.
  assert (E8 : forall x, Nat.even (length (be 8 x)) = true) by (intros; now rewrite be_length).
  assert (E4 : forall x, Nat.even (length (be 4 x)) = true) by (intros; now rewrite be_length).
  rewrite (wsum_app_even _ _ (E8 _)), (wsum_app_even _ _ (E8 _)), (wsum_app_even _ _ E1),
    (wsum_app_even _ _ E2), (wsum_app_even _ _ (E4 _)).
  rewrite !wsum_cons2, wsum_nil. lia.
Qed.

(** ------------------------------------------------------------------
    Serialization and verification *)
Definition wf_l4 (l : l4) : Prop :=
  match l with
  | UDP sp dp lf => sp < 65536 /\ dp < 65536 /\ match lf with Some x => x < 65536 | None => True end
  | SCMP t c => t < 256 /\ c < 256
  end.

Lemma pre_even l n : Nat.even (length (pre l n)) = true.
Proof. destruct l; cbn [pre]; [rewrite !app_length, !be_length|]; reflexivity. Qed.

Lemma pre_wf l n : wf_l4 l -> wf_bytes (pre l n).
Proof.
  destruct l as [sp dp lf|t c]; cbn [pre wf_l4].
  - intros _. unfold wf_bytes. rewrite !Forall_app. repeat split; apply be_wf.
  - intros [H1 H2]. repeat constructor; assumption.
Qed.

Lemma pre_length l n : N.of_nat (length (pre l n)) = prelen l.
Proof. destruct l; cbn [pre prelen]; [rewrite !app_length, !be_length|]; reflexivity. Qed.

Lemma proto_range l : 0 < proto_of l < 256.
Proof. destruct l; unfold proto_of, proto_udp, proto_scmp; lia. Qed.

Lemma wsum_be2 x : x < 65536 -> wsum (be 2 x) = x.
Proof.
  intros H. pose proof (be_length 2 x) as L. pose proof (be_wf 2 x) as W.
  assert (H' : x < 256 ^ N.of_nat 2) by (change (256 ^ N.of_nat 2) with 65536; exact H).
  pose proof (unbe_be_small 2 x H') as U.
  destruct (be 2 x) as [|a [|b [|? ?]]]; try discriminate.
  rewrite wsum_cons2, wsum_nil. unfold unbe in U. cbn [fold_left] in U. lia.
Qed.

(** inserting a 16-bit value into the (zeroed) checksum field adds it to the sum *)
Lemma wsum_insert p v post : Nat.even (length p) = true -> v < 65536 ->
  wsum (p ++ be 2 v ++ post) = wsum (p ++ [0; 0] ++ post) + v.
Proof.
  intros E H. rewrite !(wsum_app_even p) by exact E.
  rewrite (wsum_app_even (be 2 v)) by (now rewrite be_length).
  rewrite (wsum_app_even [0; 0]) by reflexivity.
  rewrite wsum_be2 by exact H. rewrite wsum_cons2, wsum_nil. lia.
Qed.

Lemma ok_inj {A} (x y : A) : Ok x = Ok y -> x = y.
Proof. intros H. now inversion H. Qed.

Definition small (payload : bytes) : Prop := N.of_nat (length payload) <= 130000.

Lemma serialize_verifies h l payload b :
  wf_hdr h -> wf_l4 l -> wf_bytes payload -> small payload ->
  serialize h l payload = Ok b ->
  verify_sum h (N.of_nat (length b)) b (proto_of l) = Ok 65535.
Proof.
  intros WH WL WP SM SER. unfold serialize in SER.
  set (p := pre l (N.of_nat (length payload))) in *.
  pose proof (proto_range l) as [P0 P1].
  assert (Ep : Nat.even (length p) = true) by apply pre_even.
  assert (Wp : wf_bytes p) by (now apply pre_wf).
  assert (Lp : (length p <= 6)%nat).
  { pose proof (pre_length l (N.of_nat (length payload))) as X. fold p in X.
    assert (prelen l <= 6) by (destruct l; unfold prelen; lia). lia. }
  set (u0 := p ++ [0; 0] ++ payload) in *.
  assert (W0 : wf_bytes u0).
  { unfold u0. apply Forall_app. split; [exact Wp|]. apply Forall_app. split; [|exact WP].
    repeat constructor; unfold wf_byte; lia. }
  assert (B0 : bounded u0).
  { unfold bounded, u0, small in *. rewrite !app_length. cbn [length]. lia. }
  rewrite (compute_exact h u0 _ WH P1 W0 B0) in SER. apply ok_inj in SER. rename SER into SER'.
  set (S := wsum (covered h (N.of_nat (length u0)) u0 (proto_of l))) in *.
  assert (SP : 0 < S).
  { unfold S. rewrite covered_wsum by exact WH. pose proof (pseudo_pos h (N.of_nat (length u0)) _ WH P0). lia. }
  pose proof (ones_range S SP) as OR.
  set (ck := 65535 - ones S) in *.
  assert (CK : ck < 65536) by (unfold ck; lia).
  assert (LB : length (p ++ be 2 ck ++ payload) = length u0).
  { unfold u0. rewrite !app_length, be_length. reflexivity. }
  assert (WB : wf_bytes (p ++ be 2 ck ++ payload)).
  { apply Forall_app. split; [exact Wp|]. apply Forall_app. split; [apply be_wf | exact WP]. }
  assert (BB : bounded (p ++ be 2 ck ++ payload)) by (unfold bounded in *; rewrite LB; exact B0).
  assert (Hl : N.of_nat (length (p ++ be 2 ck ++ payload)) < 2 ^ 32).
  { unfold bounded in BB. change (2 ^ 32) with 4294967296. lia. }
  subst b. rewrite (verify_exact h _ _ _ WH Hl P1 WB BB). f_equal.
  rewrite covered_wsum by exact WH. rewrite (wsum_insert p ck payload Ep CK). rewrite LB.
  fold u0. rewrite N.add_assoc. rewrite <- (covered_wsum h _ u0 _ WH). fold S.
  unfold ck. now apply ones_complement.
Qed.

(** ------------------------------------------------------------------
    Single-bit flips *)
Lemma land_pow2_false a k : N.testbit a k = false -> N.land a (2 ^ k) = 0.
Proof.
  intros H. apply N.bits_inj. intros n. rewrite N.land_spec, N.bits_0, N.pow2_bits_eqb.
  destruct (N.eqb_spec k n) as [<-|_]; [rewrite H; reflexivity | apply andb_false_r].
Qed.

Lemma lxor_pow2_false a k : N.testbit a k = false -> N.lxor a (2 ^ k) = a + 2 ^ k.
Proof. intros H. symmetry. apply N.add_nocarry_lxor. now apply land_pow2_false. Qed.

Lemma lxor_pow2_true a k : N.testbit a k = true -> N.lxor a (2 ^ k) + 2 ^ k = a.
Proof.
  intros H. set (a' := N.lxor a (2 ^ k)).
  assert (F : N.testbit a' k = false).
  { unfold a'. rewrite N.lxor_spec, H, N.pow2_bits_eqb, N.eqb_refl. reflexivity. }
  rewrite <- (lxor_pow2_false a' k F). unfold a'.
  now rewrite N.lxor_assoc, N.lxor_nilpotent, N.lxor_0_r.
Qed.

(** flipping a bit changes a number by exactly that power of two, up or down *)
Lemma lxor_pow2_cases a k :
  N.lxor a (2 ^ k) = a + 2 ^ k \/ N.lxor a (2 ^ k) + 2 ^ k = a.
Proof.
  destruct (N.testbit a k) eqn:E; [right; now apply lxor_pow2_true | left; now apply lxor_pow2_false].
Qed.

Lemma sum_app a b : sum (a ++ b) = sum a + sum b.
Proof. unfold sum. induction a as [|x t IH]; cbn [app fold_right]; [reflexivity|]. rewrite IH. lia. Qed.

Lemma flip_nth_split ws i mask : (i < length ws)%nat ->
  exists x t, skipn i ws = x :: t /\ ws = firstn i ws ++ x :: t /\
              flip_nth ws i mask = firstn i ws ++ N.lxor x mask :: t.
Proof.
  intros H. destruct (skipn i ws) as [|x t] eqn:E.
  - apply (f_equal (@length N)) in E. rewrite skipn_length in E. cbn in E. lia.
  - exists x, t. split; [reflexivity|]. split.
    + rewrite <- E. symmetry. apply firstn_skipn.
    + unfold flip_nth. rewrite E. reflexivity.
Qed.

Lemma sum_flip ws i k : (i < length ws)%nat ->
  sum (flip_nth ws i (2 ^ k)) = sum ws + 2 ^ k \/ sum (flip_nth ws i (2 ^ k)) + 2 ^ k = sum ws.
Proof.
  intros H. destruct (flip_nth_split ws i (2 ^ k) H) as (x & t & _ & E1 & E2).
  rewrite E2. rewrite E1 at 2 4. rewrite !sum_app. unfold sum at 2 4 6 8. cbn [fold_right]. fold (sum t).
  destruct (lxor_pow2_cases x k) as [C|C]; [left|right]; lia.
Qed.

Lemma pow2_small k : k < 16 -> 0 < 2 ^ k < 65535.
Proof.
  intros H. split; [apply N.neq_0_lt_0, N.pow_nonzero; discriminate|].
  assert (2 ^ k <= 2 ^ 15) by (apply N.pow_le_mono_r; [discriminate | lia]).
  change (2 ^ 15) with 32768 in *. lia.
Qed.

(** the arithmetic heart: over any sequence of 16-bit words, flipping one bit of one word changes
    the folded one's complement sum *)
Lemma single_bit_words ws i k : (i < length ws)%nat -> k < 16 ->
  ones (sum (flip_nth ws i (2 ^ k))) <> ones (sum ws).
Proof.
  intros Hi Hk. pose proof (pow2_small k Hk) as D.
  destruct (sum_flip ws i k Hi) as [E|E].
  - rewrite E. now apply ones_shift.
  - rewrite <- E. intros X. symmetry in X. revert X. now apply ones_shift.
Qed.

(** bits of a 16-bit word built from two bytes *)
Lemma small_bits_high lo m : lo < 256 -> 8 <= m -> N.testbit lo m = false.
Proof.
  intros H Hm. rewrite <- (N.mod_small lo (2 ^ 8)) by exact H. apply N.mod_pow2_bits_high. exact Hm.
Qed.

Lemma word_nocarry hi lo : lo < 256 -> hi * 256 + lo = N.lxor (hi * 2 ^ 8) lo.
Proof.
  intros H. change 256 with (2 ^ 8) at 1. apply N.add_nocarry_lxor. apply N.bits_inj. intros n.
  rewrite N.land_spec, N.bits_0. destruct (N.ltb_spec n 8) as [L|L].
  - rewrite N.mul_pow2_bits_low by exact L. reflexivity.
  - rewrite (small_bits_high lo n H L). apply andb_false_r.
Qed.

Lemma word_bits hi lo m : lo < 256 ->
  N.testbit (hi * 256 + lo) m = if m <? 8 then N.testbit lo m else N.testbit hi (m - 8).
Proof.
  intros H. rewrite (word_nocarry hi lo H), N.lxor_spec. destruct (N.ltb_spec m 8) as [L|L].
  - rewrite N.mul_pow2_bits_low by exact L. apply xorb_false_l.
  - rewrite N.mul_pow2_bits_high by exact L. rewrite (small_bits_high lo m H L). apply xorb_false_r.
Qed.

Lemma lxor_hi hi lo j : lo < 256 -> N.lxor (hi * 256 + lo) (2 ^ (j + 8)) = N.lxor hi (2 ^ j) * 256 + lo.
Proof.
  intros H. assert (P : 2 ^ (j + 8) = 2 ^ j * 256) by (rewrite N.pow_add_r; reflexivity).
  assert (B : N.testbit (hi * 256 + lo) (j + 8) = N.testbit hi j).
  { rewrite word_bits by exact H. destruct (N.ltb_spec (j + 8) 8); [lia|]. f_equal. lia. }
  destruct (N.testbit hi j) eqn:E.
  - pose proof (lxor_pow2_true _ _ B) as X. pose proof (lxor_pow2_true _ _ E) as Y. rewrite P in *. lia.
  - pose proof (lxor_pow2_false _ _ B) as X. pose proof (lxor_pow2_false _ _ E) as Y. rewrite P in *. lia.
Qed.

Lemma lxor_lo hi lo j : lo < 256 -> j < 8 -> N.lxor (hi * 256 + lo) (2 ^ j) = hi * 256 + N.lxor lo (2 ^ j).
Proof.
  intros H Hj.
  assert (B : N.testbit (hi * 256 + lo) j = N.testbit lo j).
  { rewrite word_bits by exact H. destruct (N.ltb_spec j 8); [reflexivity|lia]. }
  destruct (N.testbit lo j) eqn:E.
  - pose proof (lxor_pow2_true _ _ B) as X. pose proof (lxor_pow2_true _ _ E) as Y. lia.
  - pose proof (lxor_pow2_false _ _ B) as X. pose proof (lxor_pow2_false _ _ E) as Y. lia.
Qed.

Lemma flip_bit_0 x t j : flip_bit (x :: t) 0 j = N.lxor x (2 ^ j) :: t.
Proof. reflexivity. Qed.
Lemma flip_bit_S x t p j : flip_bit (x :: t) (S p) j = x :: flip_bit t p j.
Proof. reflexivity. Qed.
Lemma flip_nth_0 x t m : flip_nth (x :: t) 0 m = N.lxor x m :: t.
Proof. reflexivity. Qed.
Lemma flip_nth_S x t p m : flip_nth (x :: t) (S p) m = x :: flip_nth t p m.
Proof. reflexivity. Qed.

(** the glue between bytes and words: flipping bit j of byte p is flipping bit j (odd p) or j+8
    (even p) of word p/2 — also for the zero-padded last word of an odd-length string *)
Lemma words_of_flip l : forall p j, wf_bytes l -> (p < length l)%nat -> j < 8 ->
  words_of (flip_bit l p j) =
  flip_nth (words_of l) (Nat.div2 p) (2 ^ (if Nat.even p then j + 8 else j)).
Proof.
  revert l. apply (pair_ind (fun l => forall p j, wf_bytes l -> (p < length l)%nat -> j < 8 ->
    words_of (flip_bit l p j) = flip_nth (words_of l) (Nat.div2 p) (2 ^ (if Nat.even p then j + 8 else j)))).
  - intros p j _ H. cbn in H. lia.
  - intros x p j W H Hj. cbn [length] in H. assert (p = 0%nat) by lia. subst p.
    rewrite flip_bit_0. cbn [words_of Nat.div2 Nat.even]. rewrite flip_nth_0.
    f_equal. pose proof (lxor_hi x 0 j ltac:(lia)) as X. rewrite !N.add_0_r in X. now rewrite X.
  - intros x y t IH p j W H Hj. unfold wf_bytes in W.
    apply Forall_cons_iff in W as [Hx W]. apply Forall_cons_iff in W as [Hy W]. unfold wf_byte in *.
    destruct p as [|[|p]].
    + rewrite flip_bit_0. cbn [words_of Nat.div2 Nat.even]. rewrite flip_nth_0. f_equal.
      symmetry. now apply lxor_hi.
    + rewrite flip_bit_S, flip_bit_0. cbn [words_of Nat.div2 Nat.even]. rewrite flip_nth_0. f_equal.
      symmetry. now apply lxor_lo.
    + rewrite !flip_bit_S. cbn [words_of]. change (Nat.div2 (S (S p))) with (S (Nat.div2 p)).
      change (Nat.even (S (S p))) with (Nat.even p). rewrite flip_nth_S. f_equal.
      apply IH; [exact W | cbn [length] in H; lia | exact Hj].
Qed.

Lemma words_of_length l : length (words_of l) = Nat.div2 (S (length l)).
Proof.
  revert l. apply (pair_ind (fun l => length (words_of l) = Nat.div2 (S (length l)))); intros; try reflexivity.
  cbn [words_of length]. rewrite H. reflexivity.
Qed.

Lemma div2_lt p n : (p < n)%nat -> (Nat.div2 p < Nat.div2 (S n))%nat.
Proof.
  intros H. rewrite !Nat.div2_div.
  assert (p / 2 * 2 <= p)%nat by (rewrite Nat.mul_comm; apply Nat.mul_div_le; discriminate).
  assert (S n < (S n / 2 + 1) * 2)%nat.
  { pose proof (Nat.div_mod (S n) 2 ltac:(discriminate)). pose proof (Nat.mod_upper_bound (S n) 2 ltac:(discriminate)). lia. }
  nia.
Qed.

(** byte level: flipping any bit of any byte changes the folded sum *)
Lemma single_bit_bytes l p j : wf_bytes l -> (p < length l)%nat -> j < 8 ->
  ones (wsum (flip_bit l p j)) <> ones (wsum l).
Proof.
  intros W H Hj. unfold wsum. rewrite (words_of_flip l p j W H Hj).
  apply single_bit_words.
  - rewrite words_of_length. now apply div2_lt.
  - destruct (Nat.even p); lia.
Qed.

(** ------------------------------------------------------------------
    Flips inside concatenations, of bytes, and of big-endian numbers *)
Lemma flip_nth_length l p m : length (flip_nth l p m) = length l.
Proof.
  unfold flip_nth. rewrite app_length. rewrite <- (firstn_skipn p l) at 3. rewrite app_length. f_equal.
  destruct (skipn p l); reflexivity.
Qed.

Lemma flip_bit_length l p j : length (flip_bit l p j) = length l.
Proof. apply flip_nth_length. Qed.

Lemma flip_bit_app_l a b p j : (p < length a)%nat -> flip_bit (a ++ b) p j = flip_bit a p j ++ b.
Proof.
  revert p. induction a as [|x t IH]; intros p H; [cbn in H; lia|].
  destruct p as [|p]; cbn [app].
  - now rewrite !flip_bit_0.
  - rewrite !flip_bit_S. cbn [app]. f_equal. apply IH. cbn in H. lia.
Qed.

Lemma flip_bit_app_r a b p j : flip_bit (a ++ b) (length a + p) j = a ++ flip_bit b p j.
Proof.
  induction a as [|x t IH]; [reflexivity|]. cbn [app length Nat.add]. rewrite flip_bit_S. now rewrite IH.
Qed.

Lemma flip_mid a x b p j : (p < length x)%nat ->
  a ++ flip_bit x p j ++ b = flip_bit (a ++ x ++ b) (length a + p) j.
Proof. intros H. rewrite flip_bit_app_r, flip_bit_app_l by exact H. reflexivity. Qed.

Lemma lxor_byte x j : x < 256 -> j < 8 -> N.lxor x (2 ^ j) < 256.
Proof.
  intros Hx Hj.
  assert (E : N.lxor x (2 ^ j) mod 2 ^ 8 = N.lxor x (2 ^ j)).
  { apply N.bits_inj. intros n. destruct (N.ltb_spec n 8) as [L|L].
    - now rewrite N.mod_pow2_bits_low.
    - rewrite N.mod_pow2_bits_high by exact L. rewrite N.lxor_spec, (small_bits_high x n Hx L), N.pow2_bits_eqb.
      destruct (N.eqb_spec j n); [lia|reflexivity]. }
  rewrite <- E. change 256 with (2 ^ 8). apply N.mod_lt. discriminate.
Qed.

Lemma flip_bit_wf l p j : wf_bytes l -> j < 8 -> wf_bytes (flip_bit l p j).
Proof.
  intros W Hj. unfold flip_bit, flip_nth, wf_bytes. apply Forall_app. split.
  - rewrite <- (firstn_skipn p l) in W. apply Forall_app in W. tauto.
  - destruct (skipn p l) as [|x t] eqn:E; [constructor|].
    rewrite <- (firstn_skipn p l), E in W. apply Forall_app in W as [_ W].
    apply Forall_cons_iff in W as [Hx Ht]. constructor; [|exact Ht]. now apply lxor_byte.
Qed.

(** byte [m] (counted from the least significant one) of a number *)
Definition byte_at (n m : N) : N := (n / 256 ^ m) mod 256.

Lemma byte_at_bits n m t : N.testbit (byte_at n m) t = (t <? 8) && N.testbit n (t + 8 * m).
Proof.
  unfold byte_at. change 256 with (2 ^ 8). rewrite <- N.pow_mul_r.
  destruct (N.ltb_spec t 8) as [L|L]; cbn [andb].
  - rewrite N.mod_pow2_bits_low by exact L. apply N.div_pow2_bits.
  - apply N.mod_pow2_bits_high. exact L.
Qed.

Lemma byte_at_lxor n i m :
  byte_at (N.lxor n (2 ^ i)) m =
  if i / 8 =? m then N.lxor (byte_at n m) (2 ^ (i mod 8)) else byte_at n m.
Proof.
  apply N.bits_inj. intros t. rewrite byte_at_bits, N.lxor_spec, N.pow2_bits_eqb.
  destruct (N.eqb_spec (i / 8) m) as [E|E].
  - rewrite N.lxor_spec, byte_at_bits, N.pow2_bits_eqb.
    destruct (N.ltb_spec t 8) as [L|L]; cbn [andb].
    + f_equal. destruct (N.eqb_spec i (t + 8 * m)), (N.eqb_spec (i mod 8) t); try reflexivity; lia.
    + destruct (N.eqb_spec (i mod 8) t); [lia|reflexivity].
  - rewrite byte_at_bits. destruct (N.ltb_spec t 8) as [L|L]; cbn [andb]; [|reflexivity].
    destruct (N.eqb_spec i (t + 8 * m)); [lia|]. now rewrite xorb_false_r.
Qed.

Lemma be_cons k n : be (S k) n = byte_at n (N.of_nat k) :: be k n.
Proof. reflexivity. Qed.

(** flipping bit i of a number flips bit (i mod 8) of byte (k-1 - i/8) of its k-byte big-endian form *)
Lemma be_lxor k : forall n i,
  be k (N.lxor n (2 ^ i)) =
  if i / 8 <? N.of_nat k then flip_bit (be k n) (k - 1 - N.to_nat (i / 8)) (i mod 8) else be k n.
Proof.
  induction k as [|k IH]; intros n i.
  - destruct (i / 8 <? N.of_nat 0); reflexivity.
  - rewrite !be_cons, byte_at_lxor, IH.
    destruct (N.eqb_spec (i / 8) (N.of_nat k)) as [E|E].
    + destruct (N.ltb_spec (i / 8) (N.of_nat k)); [lia|].
      destruct (N.ltb_spec (i / 8) (N.of_nat (S k))); [|lia].
      replace (S k - 1 - N.to_nat (i / 8))%nat with 0%nat by lia. now rewrite flip_bit_0.
    + destruct (N.ltb_spec (i / 8) (N.of_nat k)) as [L|L].
      * destruct (N.ltb_spec (i / 8) (N.of_nat (S k))); [|lia].
        replace (S k - 1 - N.to_nat (i / 8))%nat with (S (k - 1 - N.to_nat (i / 8))) by lia.
        now rewrite flip_bit_S.
      * destruct (N.ltb_spec (i / 8) (N.of_nat (S k))); [lia|reflexivity].
Qed.

Lemma be8_flip n i : i < 64 ->
  be 8 (N.lxor n (2 ^ i)) = flip_bit (be 8 n) (7 - N.to_nat (i / 8)) (i mod 8) /\
  (7 - N.to_nat (i / 8) < 8)%nat /\ i mod 8 < 8.
Proof.
  intros H. rewrite be_lxor. destruct (N.ltb_spec (i / 8) (N.of_nat 8)); [|lia].
  split; [reflexivity|]. split; [lia|]. apply N.mod_lt. discriminate.
Qed.

(** ------------------------------------------------------------------
    Single-bit flips of the covered data *)
Lemma covered_wf h len upper proto : wf_hdr h -> proto < 256 -> wf_bytes upper ->
  wf_bytes (covered h len upper proto).
Proof.
  intros WH Hp WU. rewrite covered_eq. apply Forall_app. split; [now apply pseudo_bytes_wf | exact WU].
Qed.

Lemma single_bit_covered h len upper proto h' len' upper' proto' p j :
  wf_hdr h -> len < 2 ^ 32 -> proto < 256 -> wf_bytes upper -> bounded upper ->
  wf_hdr h' -> len' < 2 ^ 32 -> proto' < 256 -> wf_bytes upper' -> bounded upper' ->
  (p < length (covered h len upper proto))%nat -> j < 8 ->
  covered h' len' upper' proto' = flip_bit (covered h len upper proto) p j ->
  verify_sum h' len' upper' proto' <> verify_sum h len upper proto.
Proof.
  intros WH Hl Hp WU B WH' Hl' Hp' WU' B' P J E.
  rewrite (verify_exact h len upper proto WH Hl Hp WU B).
  rewrite (verify_exact h' len' upper' proto' WH' Hl' Hp' WU' B').
  rewrite E. intros X. apply ok_inj in X. revert X.
  apply single_bit_bytes; [now apply covered_wf | exact P | exact J].
Qed.

Definition valid_flip (h : addr_hdr) (pl : N) (upper : bytes) (region idx bit : N) : Prop :=
  (region = 0 /\ idx < 64) \/ (region = 1 /\ idx < 64) \/
  (region = 2 /\ (N.to_nat idx < length (raw_dst h))%nat /\ bit < 8) \/
  (region = 3 /\ (N.to_nat idx < length (raw_src h))%nat /\ bit < 8) \/
  (region = 4 /\ idx < pl /\ (N.to_nat pl <= length upper)%nat /\ bit < 8) \/
  (region = 5 /\ (N.to_nat (pl + 2 + idx) < length upper)%nat /\ bit < 8).

Lemma covered_flip h len upper proto pl region idx bit :
  wf_hdr h -> wf_bytes upper -> valid_flip h pl upper region idx bit ->
  let h' := flip_hdr h region idx bit in
  let u' := flip_upper pl upper region idx bit in
  wf_hdr h' /\ wf_bytes u' /\ length u' = length upper /\
  exists p j, j < 8 /\ (p < length (covered h len upper proto))%nat /\
              covered h' len u' proto = flip_bit (covered h len upper proto) p j.
Proof.
  intros WH WU V. pose proof WH as (N1 & N2 & E1 & E2 & W1 & W2 & L1 & L2). cbv zeta.
  destruct V as [[-> V]|[[-> V]|[[-> [V J]]|[[-> [V J]]|[[-> (V1 & V2 & J)]|[-> [V J]]]]]]];
    cbn [flip_hdr flip_upper].
  - (* DstIA *)
    destruct (be8_flip (dst_ia h) idx V) as (E & Q & J).
    split; [exact WH|]. split; [exact WU|]. split; [reflexivity|].
    exists (7 - N.to_nat (idx / 8))%nat, (idx mod 8). split; [exact J|]. split.
    + unfold covered. rewrite app_length, be_length. lia.
    + unfold covered. cbn [dst_ia src_ia raw_dst raw_src]. rewrite E.
      symmetry. apply flip_bit_app_l. now rewrite be_length.
  - (* SrcIA *)
    destruct (be8_flip (src_ia h) idx V) as (E & Q & J).
    split; [exact WH|]. split; [exact WU|]. split; [reflexivity|].
    exists (8 + (7 - N.to_nat (idx / 8)))%nat, (idx mod 8). split; [exact J|]. split.
    + unfold covered. rewrite !app_length, !be_length. lia.
    + unfold covered. cbn [dst_ia src_ia raw_dst raw_src]. rewrite E.
      rewrite <- (be_length 8 (dst_ia h)) at 2. apply flip_mid. now rewrite be_length.
  - (* raw dst *)
    split.
    { unfold wf_hdr. cbn [raw_dst raw_src]. rewrite flip_bit_length.
      repeat split; try assumption.
      - intros X. apply (f_equal (@length N)) in X. rewrite flip_bit_length in X.
        destruct (raw_dst h); [contradiction | discriminate].
      - now apply flip_bit_wf. }
    split; [exact WU|]. split; [reflexivity|].
    exists (length (be 8 (dst_ia h) ++ be 8 (src_ia h)) + N.to_nat idx)%nat, bit. split; [exact J|]. split.
    + unfold covered. rewrite !app_length, !be_length. lia.
    + unfold covered. cbn [dst_ia src_ia raw_dst raw_src].
      rewrite (app_assoc (be 8 (dst_ia h)) (be 8 (src_ia h))).
      rewrite (app_assoc (be 8 (dst_ia h)) (be 8 (src_ia h)) (raw_dst h ++ _)).
      apply flip_mid. exact V.
  - (* raw src *)
    split.
    { unfold wf_hdr. cbn [raw_dst raw_src]. rewrite flip_bit_length.
      repeat split; try assumption.
      - intros X. apply (f_equal (@length N)) in X. rewrite flip_bit_length in X.
        destruct (raw_src h); [contradiction | discriminate].
      - now apply flip_bit_wf. }
    split; [exact WU|]. split; [reflexivity|].
    exists (length (be 8 (dst_ia h) ++ be 8 (src_ia h) ++ raw_dst h) + N.to_nat idx)%nat, bit.
    split; [exact J|]. split.
    + unfold covered. rewrite !app_length, !be_length. lia.
    + unfold covered. cbn [dst_ia src_ia raw_dst raw_src].
      assert (A : forall X, be 8 (dst_ia h) ++ be 8 (src_ia h) ++ raw_dst h ++ X =
                            (be 8 (dst_ia h) ++ be 8 (src_ia h) ++ raw_dst h) ++ X).
      { intros X. now rewrite <- !app_assoc. }
      rewrite !A. apply flip_mid. exact V.
  - (* L4 bytes in front of the checksum *)
    split; [exact WH|]. split; [now apply flip_bit_wf|]. split; [apply flip_bit_length|].
    exists (length (pseudo_bytes h len proto) + N.to_nat idx)%nat, bit. split; [exact J|]. split.
    + rewrite covered_eq, app_length. lia.
    + rewrite !covered_eq. symmetry. apply flip_bit_app_r.
  - (* payload *)
    split; [exact WH|]. split; [now apply flip_bit_wf|]. split; [apply flip_bit_length|].
    exists (length (pseudo_bytes h len proto) + N.to_nat (pl + 2 + idx))%nat, bit. split; [exact J|]. split.
    + rewrite covered_eq, app_length. lia.
    + rewrite !covered_eq. symmetry. apply flip_bit_app_r.
Qed.

(** ------------------------------------------------------------------
    The oracle of [check] holds on the model *)
Lemma be2_split ck : ck < 65536 -> exists a b, be 2 ck = [a; b] /\ a * 256 + b = ck.
Proof.
  intros H. pose proof (be_length 2 ck) as L.
  assert (H' : ck < 256 ^ N.of_nat 2) by (change (256 ^ N.of_nat 2) with 65536; exact H).
  pose proof (unbe_be_small 2 ck H') as U.
  destruct (be 2 ck) as [|a [|b [|? ?]]]; try discriminate.
  exists a, b. split; [reflexivity|]. unfold unbe in U. cbn [fold_left] in U. lia.
Qed.

Lemma ck_of_serialized p ck payload : ck < 65536 ->
  ck_of (N.of_nat (length p)) (p ++ be 2 ck ++ payload) = ck.
Proof.
  intros H. unfold ck_of. rewrite Nat2N.id, skipn_app, skipn_all, Nat.sub_diag. cbn [app skipn].
  destruct (be2_split ck H) as (a & b & -> & E). exact E.
Qed.

(** the serialized bytes, spelled out *)
Lemma serialize_eq h l payload b :
  wf_hdr h -> wf_l4 l -> wf_bytes payload -> small payload -> serialize h l payload = Ok b ->
  let p := pre l (N.of_nat (length payload)) in
  let u0 := p ++ [0; 0] ++ payload in
  let ck := 65535 - ones (wsum (covered h (N.of_nat (length u0)) u0 (proto_of l))) in
  b = p ++ be 2 ck ++ payload /\ ck < 65536 /\ wf_bytes u0 /\ bounded u0 /\ wf_bytes b /\ bounded b /\
  length b = length u0 /\
  compute_checksum h u0 (proto_of l) = Ok ck.
Proof.
  intros WH WL WP SM SER. cbv zeta. unfold serialize in SER.
  set (p := pre l (N.of_nat (length payload))) in *.
  pose proof (proto_range l) as [P0 P1].
  assert (Wp : wf_bytes p) by (now apply pre_wf).
  assert (Lp : (length p <= 6)%nat).
  { pose proof (pre_length l (N.of_nat (length payload))) as X. fold p in X.
    assert (prelen l <= 6) by (destruct l; unfold prelen; lia). lia. }
  set (u0 := p ++ [0; 0] ++ payload) in *.
  assert (W0 : wf_bytes u0).
  { unfold u0. apply Forall_app. split; [exact Wp|]. apply Forall_app. split; [|exact WP].
    repeat constructor; unfold wf_byte; lia. }
  assert (B0 : bounded u0).
  { unfold bounded, u0, small in *. rewrite !app_length. cbn [length]. lia. }
  pose proof (compute_exact h u0 _ WH P1 W0 B0) as CE. rewrite CE in SER. apply ok_inj in SER.
  set (S := wsum (covered h (N.of_nat (length u0)) u0 (proto_of l))) in *.
  assert (CK : 65535 - ones S < 65536) by lia.
  assert (LB : length (p ++ be 2 (65535 - ones S) ++ payload) = length u0).
  { unfold u0. rewrite !app_length, be_length. reflexivity. }
  subst b. repeat split; try assumption.
  - apply Forall_app. split; [exact Wp|]. apply Forall_app. split; [apply be_wf | exact WP].
  - unfold bounded in *. rewrite LB. exact B0.
Qed.

(** inserting the computed checksum into any word-aligned zeroed field makes the sum 0xFFFF *)
Lemma insert_verifies h p payload proto :
  wf_hdr h -> 0 < proto < 256 -> Nat.even (length p) = true -> wf_bytes p -> wf_bytes payload ->
  bounded (p ++ [0; 0] ++ payload) ->
  exists ck, compute_checksum h (p ++ [0; 0] ++ payload) proto = Ok ck /\ ck < 65536 /\
             verify_sum h (N.of_nat (length (p ++ [0; 0] ++ payload))) (p ++ be 2 ck ++ payload) proto = Ok 65535.
Proof.
  intros WH [P0 P1] Ep Wp WP B0.
  set (u0 := p ++ [0; 0] ++ payload) in *.
  assert (W0 : wf_bytes u0).
  { unfold u0. apply Forall_app. split; [exact Wp|]. apply Forall_app. split; [|exact WP].
    repeat constructor; unfold wf_byte; lia. }
  rewrite (compute_exact h u0 _ WH P1 W0 B0).
  set (S := wsum (covered h (N.of_nat (length u0)) u0 proto)) in *.
  assert (SP : 0 < S).
  { unfold S. rewrite covered_wsum by exact WH. pose proof (pseudo_pos h (N.of_nat (length u0)) _ WH P0). lia. }
  pose proof (ones_range S SP) as OR.
  exists (65535 - ones S). split; [reflexivity|]. split; [lia|].
  set (ck := 65535 - ones S) in *.
  assert (CK : ck < 65536) by (unfold ck; lia).
  assert (LB : length (p ++ be 2 ck ++ payload) = length u0).
  { unfold u0. rewrite !app_length, be_length. reflexivity. }
  assert (WB : wf_bytes (p ++ be 2 ck ++ payload)).
  { apply Forall_app. split; [exact Wp|]. apply Forall_app. split; [apply be_wf | exact WP]. }
  assert (BB : bounded (p ++ be 2 ck ++ payload)) by (unfold bounded in *; rewrite LB; exact B0).
  assert (Hl : N.of_nat (length u0) < 2 ^ 32).
  { unfold bounded in B0. change (2 ^ 32) with 4294967296. lia. }
  rewrite (verify_exact h _ _ _ WH Hl P1 WB BB). f_equal.
  rewrite covered_wsum by exact WH. rewrite (wsum_insert p ck payload Ep CK).
  fold u0. rewrite N.add_assoc. rewrite <- (covered_wsum h _ u0 _ WH). fold S.
  unfold ck. now apply ones_complement.
Qed.

(** where a flip of region 4 / 5 lands in  p ++ (two bytes) ++ payload *)
Definition fp (p : bytes) (region idx bit : N) : bytes :=
  match region with 4 => flip_bit p (N.to_nat idx) bit | _ => p end.
Definition fpl (payload : bytes) (region idx bit : N) : bytes :=
  match region with 5 => flip_bit payload (N.to_nat idx) bit | _ => payload end.

Lemma flip_upper_struct h p mid payload region idx bit : length mid = 2%nat ->
  valid_flip h (N.of_nat (length p)) (p ++ mid ++ payload) region idx bit ->
  flip_upper (N.of_nat (length p)) (p ++ mid ++ payload) region idx bit =
  fp p region idx bit ++ mid ++ fpl payload region idx bit /\
  length (fp p region idx bit) = length p /\ length (fpl payload region idx bit) = length payload /\
  (wf_bytes p -> wf_bytes (fp p region idx bit)) /\ (wf_bytes payload -> wf_bytes (fpl payload region idx bit)).
Proof.
  intros LM V.
  destruct V as [[-> V]|[[-> V]|[[-> [V J]]|[[-> [V J]]|[[-> (V1 & V2 & J)]|[-> [V J]]]]]]];
    cbn [flip_upper fp fpl]; try (repeat split; auto; fail).
  - repeat split; auto using flip_bit_length.
    + apply flip_bit_app_l. lia.
    + intros W. now apply flip_bit_wf.
  - repeat split; auto using flip_bit_length.
    + replace (N.to_nat (N.of_nat (length p) + 2 + idx)) with (length p + (length mid + N.to_nat idx))%nat by lia.
      rewrite flip_bit_app_r, flip_bit_app_r. reflexivity.
    + intros W. now apply flip_bit_wf.
Qed.

Lemma set_ck_struct p mid payload ck : length mid = 2%nat ->
  set_ck (N.of_nat (length p)) (p ++ mid ++ payload) ck = p ++ be 2 ck ++ payload.
Proof.
  intros LM. unfold set_ck. rewrite Nat2N.id.
  rewrite firstn_app, firstn_all, Nat.sub_diag. cbn [firstn]. rewrite app_nil_r. f_equal. f_equal.
  rewrite skipn_app. rewrite skipn_all2 by lia. cbn [app].
  replace (length p + 2 - length p)%nat with (length mid) by lia.
  rewrite skipn_app, skipn_all, Nat.sub_diag. reflexivity.
Qed.

Lemma flip_oracle_model h l payload b region idx bit :
  wf_hdr h -> wf_l4 l -> wf_bytes payload -> small payload -> serialize h l payload = Ok b ->
  valid_flip h (prelen l) b region idx bit ->
  let upper0 := pre l (N.of_nat (length payload)) ++ [0; 0] ++ payload in
  flip_oracle h l b (region, idx, bit, model_flip h l upper0 (region, idx, bit, 0)) = true.
Proof.
  intros WH WL WP SM SER V. cbv zeta.
  destruct (serialize_eq h l payload b WH WL WP SM SER) as (EB & CK & W0 & B0 & WB & BB & LB & CE).
  pose proof (proto_range l) as [P0 P1].
  set (p := pre l (N.of_nat (length payload))) in *.
  set (u0 := p ++ [0; 0] ++ payload) in *.
  set (n := N.of_nat (length u0)) in *.
  assert (Hn : n < 2 ^ 32) by (unfold n, bounded in *; change (2 ^ 32) with 4294967296; lia).
  assert (PL : prelen l = N.of_nat (length p)) by (symmetry; apply pre_length).
  assert (Wp : wf_bytes p) by (now apply pre_wf).
  assert (Ep : Nat.even (length p) = true) by apply pre_even.
  assert (V0 : valid_flip h (prelen l) u0 region idx bit).
  { unfold valid_flip in *. rewrite <- LB. exact V. }
  (* the flipped serialized bytes *)
  destruct (covered_flip h n b (proto_of l) (prelen l) region idx bit WH WB V)
    as (WH' & WB' & LB' & pp & jj & J & PP & EC).
  (* the flipped sender input *)
  destruct (covered_flip h n u0 (proto_of l) (prelen l) region idx bit WH W0 V0)
    as (_ & W0' & L0' & pp0 & jj0 & J0 & PP0 & EC0).
  (* their structure *)
  set (ck := 65535 - ones (wsum (covered h n u0 (proto_of l)))) in *.
  rewrite PL in V, V0. rewrite EB in V.
  destruct (flip_upper_struct h p (be 2 ck) payload region idx bit (be_length 2 ck) V)
    as (SB & Lp' & Lpl' & Wp' & Wpl').
  destruct (flip_upper_struct h p [0; 0] payload region idx bit eq_refl V0) as (S0 & _).
  rewrite <- PL in SB, S0. rewrite <- EB in SB.
  set (h' := flip_hdr h region idx bit) in *.
  set (b' := flip_upper (prelen l) b region idx bit) in *.
  set (u0' := flip_upper (prelen l) u0 region idx bit) in *.
  set (p' := fp p region idx bit) in *. set (pay' := fpl payload region idx bit) in *.
  change (flip_upper (prelen l) (p ++ [0; 0] ++ payload) region idx bit) with u0' in S0.
  assert (BB' : bounded b') by (unfold bounded in *; rewrite LB'; exact BB).
  assert (B0' : bounded u0') by (unfold bounded in *; rewrite L0'; exact B0).
  unfold flip_oracle. fold h' b'. rewrite LB. fold n.
  (* part 1: the verification sum over the flipped bytes *)
  pose proof (serialize_verifies h l payload b WH WL WP SM SER) as VER. rewrite LB in VER. fold n in VER.
  pose proof (single_bit_covered h n b (proto_of l) h' n b' (proto_of l) pp jj
                WH Hn P1 WB BB WH' Hn P1 WB' BB' PP J EC) as NE.
  rewrite (verify_exact h' n b' _ WH' Hn P1 WB' BB') in *. rewrite VER in NE.
  (* part 3: the implementation's new checksum verifies *)
  assert (Ep' : Nat.even (length p') = true) by (rewrite Lp'; exact Ep).
  assert (B0'' : bounded (p' ++ [0; 0] ++ pay')) by (rewrite <- S0; exact B0').
  destruct (insert_verifies h' p' pay' (proto_of l) WH' (conj P0 P1) Ep' (Wp' Wp) (Wpl' WP) B0'')
    as (ck' & CE' & CK' & VER').
  rewrite <- S0 in CE', VER'. rewrite L0' in VER'. fold n in VER'.
  unfold model_flip. fold h' u0'. rewrite CE'.
  assert (SC : set_ck (prelen l) b' ck' = p' ++ be 2 ck' ++ pay').
  { rewrite SB, PL, <- Lp'. apply set_ck_struct. apply be_length. }
  rewrite SC, VER'.
  destruct (N.eqb_spec (ones (wsum (covered h' n b' (proto_of l)))) 65535) as [X|_];
    [rewrite X in NE; contradiction|]. cbn [negb andb]. rewrite N.eqb_refl, andb_true_r.
  (* part 2: the checksum written for the flipped input differs *)
  pose proof (compute_exact h' u0' _ WH' P1 W0' B0') as CE2. rewrite L0' in CE2. fold n in CE2.
  rewrite CE' in CE2. apply ok_inj in CE2. rewrite CE2.
  rewrite EB, PL, (ck_of_serialized p _ payload CK).
  rewrite EC0.
  pose proof (single_bit_bytes (covered h n u0 (proto_of l)) pp0 jj0
                (covered_wf h n u0 _ WH P1 W0) PP0 J0) as NE0.
  assert (SP : 0 < wsum (covered h n u0 (proto_of l))).
  { rewrite covered_wsum by exact WH. pose proof (pseudo_pos h n _ WH P0). lia. }
  assert (SP' : 0 < wsum (flip_bit (covered h n u0 (proto_of l)) pp0 jj0)).
  { rewrite <- EC0. rewrite covered_wsum by exact WH'. pose proof (pseudo_pos h' n _ WH' P0). lia. }
  pose proof (ones_range _ SP). pose proof (ones_range _ SP').
  fold ck.
  destruct (N.eqb_spec (65535 - ones (wsum (flip_bit (covered h n u0 (proto_of l)) pp0 jj0))) ck) as [X|_];
    [|reflexivity].
  exfalso. apply NE0. unfold ck in X. lia.
Qed.

Lemma lxor_lt_pow2 a i w : a < 2 ^ w -> i < w -> N.lxor a (2 ^ i) < 2 ^ w.
Proof.
  intros Ha Hi.
  assert (E : N.lxor a (2 ^ i) mod 2 ^ w = N.lxor a (2 ^ i)).
  { apply N.bits_inj. intros n. destruct (N.ltb_spec n w) as [L|L].
    - now rewrite N.mod_pow2_bits_low.
    - rewrite N.mod_pow2_bits_high by exact L. rewrite N.lxor_spec, N.pow2_bits_eqb.
      assert (F : N.testbit a n = false).
      { rewrite <- (N.mod_small a (2 ^ w)) by exact Ha. now apply N.mod_pow2_bits_high. }
      rewrite F. destruct (N.eqb_spec i n); [lia|reflexivity]. }
  rewrite <- E. apply N.mod_lt. apply N.pow_nonzero. discriminate.
Qed.
