(** C02, layer 3: one peering edge of a solution of the path combinator over a beaconed
    segment.  Its hop fields are the regular ones from the entry after the cut on, and the peer hop
    field of the cut entry (MACed over beta_{cut+1}, same egress, peering interface as ingress). *)
From Coq Require Import List NArith Bool Arith Lia.
From Scion Require Import Lib.Check Model.Router Model.Network Model.Prov.
From Scion Require Import Model.Segment Model.SegID Model.CombSpec Model.Combinator Model.CombProv.
From Scion Require Import Proofs.SegID.
From Scion Require Import Proofs.CombinatorGraph Proofs.CombinatorRender Proofs.CombinatorPaths
  Proofs.CombinatorIfs.
From Scion Require Import Proofs.ProvStruct Proofs.ProvRender Proofs.ForwardView Proofs.ProvFacts
  Proofs.ProvSlices Proofs.CombineProv.
Import ListNotations.
Import CombProv.
Import Segment CombSpec Combinator.
Local Open Scope N_scope.

(** the peer hop field at the cut, and the hop fields of the slice in construction order / in
    traversal order *)
Definition peer_ph (e : edge) : Prov.phop :=
  let c := edge_cut e in
  let h := cut_hop e c in
  Prov.mkPh (ae_ia c) (h_in h) (h_eg h) (h_exp h) (h_mac h) (beta_at (is_seg (e_seg e)) (S (e_sc e))).
Definition peer_cons (e : edge) : list Prov.phop := peer_ph e :: tl (cons_hops e).
Definition peer_hops (e : edge) : list Prov.phop := if is_down e then peer_cons e else rev (peer_cons e).

Lemma nth_error_tl {A} (l : list A) j : nth_error (tl l) j = nth_error l (S j).
Proof. destruct l; [destruct j|]; reflexivity. Qed.

Lemma length_tl {A} (l : list A) : length (tl l) = (length l - 1)%nat.
Proof. destruct l; cbn; lia. Qed.

Lemma map_tl' {A B} (f : A -> B) l : map f (tl l) = tl (map f l).
Proof. destruct l; reflexivity. Qed.

Lemma peer_cons_length e : (e_sc e < length (entries e))%nat ->
  length (peer_cons e) = (length (entries e) - e_sc e)%nat.
Proof. intros H. unfold peer_cons. cbn [length]. rewrite length_tl, cons_hops_length. lia. Qed.

Lemma peer_hops_length e : (e_sc e < length (entries e))%nat ->
  length (peer_hops e) = (length (entries e) - e_sc e)%nat.
Proof. intros H. unfold peer_hops. destruct (is_down e); [|rewrite rev_length]; now apply peer_cons_length. Qed.

Lemma peer_cons_S e j : (S j < length (entries e) - e_sc e)%nat ->
  nth_error (peer_cons e) (S j) =
  Some (ph_of (is_seg (e_seg e)) (e_sc e + S j) (nth (e_sc e + S j) (entries e) dflt_entry)).
Proof.
  intros H. unfold peer_cons. cbn [nth_error]. rewrite nth_error_tl. now apply cons_hops_nth.
Qed.

Lemma peer_proj e : edge_good e ->
  map proj_hop (peer_hops e) = edge_hops e.
Proof.
  intros [c [Hc _]].
  assert (Ec : edge_cut e = c) by (unfold edge_cut; now apply nth_error_nth).
  pose proof (skipn_cut _ _ _ Hc) as Hs. fold (edge_rest e) in Hs.
  assert (P : map proj_hop (peer_cons e) = (ae_ia c, cut_hop e c) :: map reg (edge_rest e)).
  { unfold peer_cons. cbn [map]. f_equal.
    - unfold peer_ph, proj_hop. cbn. rewrite Ec. destruct (cut_hop e c); reflexivity.
    - rewrite map_tl', cons_hops_proj, Hs. reflexivity. }
  unfold peer_hops, edge_hops, trav_hops. rewrite Ec. destruct (is_down e).
  - rewrite P, rev_app_distr, <- map_rev, rev_involutive. reflexivity.
  - rewrite map_rev, P. cbn [rev]. now rewrite map_rev.
Qed.

Section PeerBeaconed.
Variable mac : N -> N -> N -> N -> N -> N -> list N.
Variable t : Nw.topology.
Hypothesis Hwt : Nw.wf_topo t = true.
Variable e : edge.
Notation s := (is_seg (e_seg e)).
Notation es := (entries e).
Hypothesis HB : beaconed mac t false s.
Hypothesis HG : edge_good e.
Variable k : nat.
Hypothesis HP : e_peer e = S k.
Notation m := (length es - e_sc e)%nat.

Lemma p_entry_at c : (c < length es)%nat -> entry_ok mac t false s c (nth c es dflt_entry).
Proof. intros H. destruct HB as (_ & _ & _ & B). apply B. now apply nth_error_nth'. Qed.

Lemma p_mac_len c : (c < length es)%nat -> length (h_mac (ae_hop (nth c es dflt_entry))) = 6%nat.
Proof. intros H. destruct HB as (_ & W & _). apply (wf_fields_mac_len s); [exact W|]. now apply nth_In. Qed.

(** the cut entry and its peer entry *)
Lemma peer_parts : exists c pk,
  nth_error es (e_sc e) = Some c /\ edge_cut e = c /\ nth_error (ae_peers c) k = Some pk /\
  cut_hop e c = pe_hop pk /\ (e_sc e < length es)%nat /\
  hop_maced mac t (ae_ia c) (beta_at s (S (e_sc e))) (ts_of s) (pe_hop pk) /\
  h_eg (pe_hop pk) = h_eg (ae_hop c) /\
  link_to t (ae_ia c) (h_in (pe_hop pk)) R.Peer (pe_ia pk) (pe_if pk).
Proof.
  destruct HG as [c [Hc Hp]]. unfold peer_ok in Hp. rewrite HP in Hp.
  destruct Hp as [Hp|[pk Hp]]; [discriminate|]. replace (S k - 1)%nat with k in Hp by lia.
  assert (L : (e_sc e < length es)%nat) by (apply nth_error_Some; congruence).
  assert (Ec : edge_cut e = c) by (unfold edge_cut; now apply nth_error_nth).
  exists c, pk. split; [exact Hc|]. split; [exact Ec|]. split; [exact Hp|].
  split; [unfold cut_hop; now rewrite HP, Hp|]. split; [exact L|].
  pose proof (p_entry_at _ L) as E. rewrite (nth_error_nth _ _ dflt_entry Hc) in E.
  destruct E as (_ & F & _). rewrite Forall_forall in F. apply F. eapply nth_error_In; eauto.
Qed.

Lemma peer_ph_good sl : Prov.sl_ts sl = ts_of s -> hop_good mac t sl (peer_ph e).
Proof.
  intros Ts. destruct peer_parts as (c & pk & Hc & Ec & Hp & Ch & L & (a & Fa & M) & _).
  exists a. unfold peer_ph. cbn. rewrite Ec, Ch, Ts. split; assumption.
Qed.

Lemma peer_cons_good sl h : Prov.sl_ts sl = ts_of s -> In h (peer_cons e) -> hop_good mac t sl h.
Proof.
  intros Ts Hin. apply In_nth_error in Hin as [i Hi].
  destruct peer_parts as (_ & _ & _ & _ & _ & _ & L & _).
  assert (Li : (i < m)%nat) by (rewrite <- peer_cons_length by exact L; apply nth_error_Some; congruence).
  destruct i as [|j].
  - cbn in Hi. inversion Hi. now apply peer_ph_good.
  - rewrite (peer_cons_S e j Li) in Hi. inversion Hi; subst h.
    destruct (p_entry_at (e_sc e + S j) ltac:(lia)) as ((a & Fa & M) & _).
    exists a. unfold ph_of. cbn. rewrite Ts. split; assumption.
Qed.

Lemma peer_hops_good sl h : Prov.sl_ts sl = ts_of s -> In h (peer_hops e) -> hop_good mac t sl h.
Proof.
  intros Ts Hin. apply (peer_cons_good sl h Ts). unfold peer_hops in Hin.
  destruct (is_down e); [exact Hin|]. now apply in_rev.
Qed.

(** consecutive hop fields, in construction order *)
Lemma cons_pair j x y :
  nth_error (peer_cons e) j = Some x -> nth_error (peer_cons e) (S j) = Some y ->
  Prov.ph_beta y = (if Nat.eqb j 0 then Prov.ph_beta x
                    else N.lxor (Prov.ph_beta x) (R.mac_prefix (Prov.ph_mac x))) /\
  exists a f, Nw.find_as t (Prov.ph_ia x) = Some a /\ Nw.find_nif (Nw.a_ifs a) (Prov.ph_eg x) = Some f /\
    Nw.ni_nbr f = Prov.ph_ia y /\ Nw.ni_remote f = Prov.ph_in y /\ Nw.ni_lt f = R.Child.
Proof.
  intros Hx Hy.
  destruct peer_parts as (c & pk & Hc & Ec & Hp & Ch & L & _ & Eg & _).
  assert (Lj : (S j < m)%nat) by (rewrite <- peer_cons_length by exact L; apply nth_error_Some; congruence).
  rewrite (peer_cons_S e j Lj) in Hy. inversion Hy; subst y. clear Hy.
  destruct j as [|j].
  - cbn in Hx. inversion Hx; subst x. clear Hx. cbn [Nat.eqb]. split.
    + unfold ph_of, peer_ph. cbn. f_equal. lia.
    + destruct (p_entry_at _ L) as (_ & _ & Lk).
      rewrite (nth_error_nth' es dflt_entry) in Lk by lia.
      destruct Lk as (a & f & Fa & Ff & Lt & Nb & Rm).
      rewrite (nth_error_nth _ _ dflt_entry Hc) in Fa, Ff.
      exists a, f. unfold ph_of, peer_ph. cbn. rewrite Ec, Ch, Eg.
      replace (e_sc e + 1)%nat with (S (e_sc e)) by lia. repeat split; assumption.
  - rewrite (peer_cons_S e j ltac:(lia)) in Hx. inversion Hx; subst x. clear Hx. cbn [Nat.eqb].
    set (ci := (e_sc e + S j)%nat). replace (e_sc e + S (S j))%nat with (S ci) by (subst ci; lia).
    assert (Lc : (ci < length es)%nat) by (subst ci; lia).
    split.
    + unfold ph_of. cbn. rewrite beta_at_S by exact Lc. now rewrite mac16_prefix by now apply p_mac_len.
    + destruct (p_entry_at _ Lc) as (_ & _ & Lk).
      rewrite (nth_error_nth' es dflt_entry) in Lk by lia.
      destruct Lk as (a & f & Fa & Ff & Lt & Nb & Rm).
      exists a, f. unfold ph_of. cbn. repeat split; assumption.
Qed.

(** the same pair seen against construction direction *)
Lemma rev_pair i h h' :
  nth_error (rev (peer_cons e)) i = Some h -> nth_error (rev (peer_cons e)) (S i) = Some h' ->
  Prov.ph_beta h' = (if Nat.eqb (S (S i)) (length (peer_cons e)) then Prov.ph_beta h
                     else N.lxor (Prov.ph_beta h) (R.mac_prefix (Prov.ph_mac h'))) /\
  exists a f, Nw.find_as t (Prov.ph_ia h) = Some a /\ Nw.find_nif (Nw.a_ifs a) (Prov.ph_in h) = Some f /\
    Nw.ni_nbr f = Prov.ph_ia h' /\ Nw.ni_remote f = Prov.ph_eg h' /\ Nw.ni_lt f = R.Parent.
Proof.
  intros Hh Hh'. remember (length (peer_cons e)) as n0 eqn:En0.
  assert (Li : (S i < n0)%nat) by (subst n0; rewrite <- rev_length; apply nth_error_Some; congruence).
  assert (Ex : nth_error (peer_cons e) (n0 - S (S i)) = Some h').
  { rewrite (nth_error_nth' _ Prov.dhop) in Hh' by (rewrite rev_length, <- En0; exact Li).
    rewrite rev_nth in Hh' by (rewrite <- En0; exact Li). rewrite <- En0 in Hh'.
    replace h' with (nth (n0 - S (S i)) (peer_cons e) Prov.dhop) by congruence.
    apply nth_error_nth'. lia. }
  assert (Ey : nth_error (peer_cons e) (S (n0 - S (S i))) = Some h).
  { rewrite (nth_error_nth' _ Prov.dhop) in Hh by (rewrite rev_length, <- En0; lia).
    rewrite rev_nth in Hh by (rewrite <- En0; lia). rewrite <- En0 in Hh.
    replace h with (nth (n0 - S i) (peer_cons e) Prov.dhop) by congruence.
    replace (S (n0 - S (S i))) with (n0 - S i)%nat by lia. apply nth_error_nth'. lia. }
  destruct (cons_pair _ _ _ Ex Ey) as (Bt & a & f & Fa & Ff & Nb & Rm & Lt).
  split.
  - destruct (Nat.eqb_spec (S (S i)) n0) as [Q|Q].
    + replace (n0 - S (S i))%nat with 0%nat in Bt by lia. cbn [Nat.eqb] in Bt. now symmetry.
    + replace (Nat.eqb (n0 - S (S i)) 0) with false in Bt by (symmetry; apply Nat.eqb_neq; lia).
      rewrite Bt. now rewrite N.lxor_assoc, N.lxor_nilpotent, N.lxor_0_r.
  - destruct (find_as_ia _ _ _ Fa) as [Ia _].
    destruct (far t Hwt a _ f ltac:(now rewrite Ia) Ff) as (b & g & Fb & Fg & Mi & Gn & Gr & _).
    exists b, g. rewrite Nb in Fb. rewrite Rm in Fg. rewrite Ia in Gn.
    repeat split; try assumption. apply mirrored_mirror in Mi. now rewrite Mi, Lt.
Qed.

(** the peering link *)
Lemma peer_link : exists pk a f,
  nth_error (ae_peers (edge_cut e)) k = Some pk /\
  Prov.ph_in (peer_ph e) = h_in (pe_hop pk) /\
  Nw.find_as t (Prov.ph_ia (peer_ph e)) = Some a /\
  Nw.find_nif (Nw.a_ifs a) (Prov.ph_in (peer_ph e)) = Some f /\
  Nw.ni_lt f = R.Peer /\ Nw.ni_nbr f = pe_ia pk /\ Nw.ni_remote f = pe_if pk /\
  h_in (pe_hop pk) <> 0 /\ pe_if pk <> 0.
Proof.
  destruct peer_parts as (c & pk & Hc & Ec & Hp & Ch & L & _ & _ & (a & f & Fa & Ff & Lt & Nb & Rm)).
  destruct (find_as_ia _ _ _ Fa) as [Ia _].
  destruct (far t Hwt a _ f ltac:(now rewrite Ia) Ff) as (_ & _ & _ & _ & _ & _ & _ & Z1 & Z2).
  exists pk, a, f. unfold peer_ph. cbn. rewrite Ec, Ch.
  repeat split; try assumption. now rewrite <- Rm.
Qed.

End PeerBeaconed.

(** * The tuple of a peering edge *)
Lemma pr_tuple s e k : tuple_of s e -> e_peer e = S k ->
  e_seg e = s /\ is_ty s <> CoreT /\
  exists a p, nth_error (sg_entries (is_seg s)) (e_sc e) = Some a /\ nth_error (ae_peers a) k = Some p /\
    ((is_ty s = Up /\ e_src e = v_ia (last_ia (is_seg s)) /\
      e_dst e = v_peer (ae_ia a) (h_in (pe_hop p)) (pe_ia p) (pe_if p)) \/
     (is_ty s = Down /\ e_src e = v_rev (v_peer (ae_ia a) (h_in (pe_hop p)) (pe_ia p) (pe_if p)) /\
      e_dst e = v_ia (last_ia (is_seg s)))).
Proof.
  intros T Pk. split; [now apply tuple_seg|].
  inversion T as [Ty | idx a Ty Ha Hn | idx a k0 p0 Ty Ha Hp]; subst e.
  - cbn in Pk. discriminate.
  - rewrite mk_tuple_peer in Pk. discriminate.
  - rewrite mk_tuple_peer in Pk. inversion Pk; subst k0. split; [exact Ty|].
    exists a, p0. rewrite mk_tuple_sc. split; [exact Ha|]. split; [exact Hp|].
    unfold mk_tuple. destruct (is_ty s) eqn:E; [|congruence|].
    + left. cbn [e_src e_dst]. auto.
    + right. cbn [e_src e_dst]. auto.
Qed.
