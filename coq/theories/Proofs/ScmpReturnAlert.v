(** C10, part 8: traceroute.  A packet of a path with one router-alert flag set is
    [phi (source unchanged) (gflag kx a e)] of the packet without the flag; every step
    of the fast path other than the two alert handlers commutes with that
    (Proofs/ScmpReturnCong.v).  So a router either raises the router-alert request in
    one of the handlers — with the flag cleared, i.e. with the packet of the path
    itself — or forwards exactly as it does without the flag, flag untouched. *)
From Coq Require Import List NArith Bool Arith Lia ZifyBool ZifyN ZifyNat.
From Scion Require Import Lib.Check Lib.Bytes Model.Router Model.Network Model.Prov Model.RouterScmp
  Model.ScmpReturn.
From Scion Require Import Proofs.Router Proofs.RouterPass Proofs.ForwardView Proofs.ScmpReturnCong.
Import ListNotations.
Import Scion.Model.Router.Router Network Prov.

Lemma lext {A} (l l' : list A) :
  length l = length l' -> (forall i, (i < length l)%nat -> nth_error l i = nth_error l' i) -> l = l'.
Proof.
  revert l'. induction l as [|x l IH]; intros [|y l'] HL H; cbn [length] in HL; try lia; [reflexivity|].
  f_equal.
  - specialize (H 0%nat ltac:(cbn; lia)). cbn in H. congruence.
  - apply IH; [lia|]. intros i Hi. apply (H (S i)). cbn. lia.
Qed.

Lemma nth_set_nth {A} (l : list A) : forall j i x,
  nth_error (set_nth l j x) i =
  if Nat.eqb i j then (match nth_error l j with Some _ => Some x | None => None end) else nth_error l i.
Proof.
  induction l as [|y l IH]; intros j i x.
  - cbn [set_nth]. destruct (Nat.eqb i j); destruct i, j; reflexivity.
  - destruct j as [|j]; destruct i as [|i]; cbn [set_nth nth_error Nat.eqb]; try reflexivity.
    apply IH.
Qed.

Lemma len_set_nth {A} (l : list A) : forall j x, length (set_nth l j x) = length l.
Proof. induction l as [|y l IH]; intros [|j] x; cbn [set_nth length]; auto. Qed.

Section Flag.
Variable kx : nat.
Variable a e : bool.

Definition flagged (h : Router.hop) : Router.hop :=
  mkHop a e (h_exp h) (h_in h) (h_eg h) (h_mac h) (h_rsv h).

Definition gflag : nat -> Router.hop -> Router.hop := fun j h => if Nat.eqb j kx then flagged h else h.

Lemma keeps_gflag : keeps gflag.
Proof. intros k h. unfold gflag. destruct (Nat.eqb k kx); repeat split. Qed.

Lemma mapi_gflag l :
  mapi gflag l = match nth_error l kx with Some h => set_nth l kx (flagged h) | None => l end.
Proof.
  apply lext.
  - rewrite mapi_length. destruct (nth_error l kx); [now rewrite len_set_nth|reflexivity].
  - intros i Hi. rewrite nth_error_mapi. unfold gflag.
    destruct (nth_error l kx) as [h|] eqn:E.
    + rewrite nth_set_nth. destruct (Nat.eqb i kx) eqn:X.
      * apply Nat.eqb_eq in X. subst i. now rewrite E.
      * now destruct (nth_error l i).
    + destruct (Nat.eqb i kx) eqn:X.
      * apply Nat.eqb_eq in X. subst i. now rewrite E.
      * now destruct (nth_error l i).
Qed.

(** the packet with the flags set *)
Lemma phi_flag q : phi (p_src_ia q) gflag q = ScmpReturn.set_alerts kx a e q.
Proof.
  unfold phi, ScmpReturn.set_alerts. rewrite mapi_gflag.
  destruct (nth_error (p_hops q) kx); destruct q; reflexivity.
Qed.

(** writing the original hop field back gives the original packet *)
Lemma store_back q h : nth_error (p_hops q) kx = Some h -> N.to_nat (p_curr_hf q) = kx ->
  with_hops (phi (p_src_ia q) gflag q) (set_nthN (mapi gflag (p_hops q)) (p_curr_hf q) h) = q.
Proof.
  intros E C. unfold set_nthN. rewrite C.
  assert (L : set_nth (mapi gflag (p_hops q)) kx h = p_hops q).
  { apply lext.
    - now rewrite len_set_nth, mapi_length.
    - intros i Hi. rewrite nth_set_nth, !nth_error_mapi. unfold gflag.
      destruct (Nat.eqb i kx) eqn:X.
      + apply Nat.eqb_eq in X. subst i. rewrite E. reflexivity.
      + now destruct (nth_error (p_hops q) i). }
  unfold with_hops, phi. cbn [p_dst_ia p_src_ia p_dst_type p_src_type p_dst_raw p_src_raw p_pay_len p_pay_actual
    p_l4_port p_curr_inf p_curr_hf p_seg0 p_seg1 p_seg2 p_meta_rsv p_infos p_hops].
  rewrite L. now destruct q.
Qed.

(** writing any hop field over the flagged one *)
Lemma store_any q x : N.to_nat (p_curr_hf q) = kx ->
  with_hops (phi (p_src_ia q) gflag q) (set_nthN (mapi gflag (p_hops q)) (p_curr_hf q) x) =
  with_hops q (set_nth (p_hops q) kx x).
Proof.
  intros C. unfold set_nthN. rewrite C.
  assert (L : set_nth (mapi gflag (p_hops q)) kx x = set_nth (p_hops q) kx x).
  { apply lext.
    - now rewrite !len_set_nth, mapi_length.
    - intros i Hi. rewrite !nth_set_nth, !nth_error_mapi. unfold gflag.
      destruct (Nat.eqb i kx) eqn:X.
      + now destruct (nth_error (p_hops q) kx).
      + now destruct (nth_error (p_hops q) i). }
  unfold with_hops, phi. cbn [p_dst_ia p_src_ia p_dst_type p_src_type p_dst_raw p_src_raw p_pay_len p_pay_actual
    p_l4_port p_curr_inf p_curr_hf p_seg0 p_seg1 p_seg2 p_meta_rsv p_infos p_hops].
  now rewrite L.
Qed.

End Flag.

(** * One router and a packet with one flag *)
Section Router.
Variable macq : N -> N -> N -> N -> N -> option (list N).
Variable c : cfg.
Variable now : N.
Variable ing : ingress.
Variable kx : nat.
Variable a e : bool.

Notation g := (gflag kx a e).

(** the ingress half without the handler gives the same state as with it, on a packet
    without flags *)
Lemma ingress_pre_of_part q s : ingress_part macq c now ing q = Ok s -> ingress_pre macq c now ing q = Ok s.
Proof.
  rewrite ingress_part_pre. intros H. apply bind_ok in H as (s0 & H & E).
  apply ingress_alert_ok in E. now subst s0.
Qed.

Variable s' : N.
Notation Phi := (Phi s' g).
Notation phi := (phi s' g).
Notation phi_res := (phi_res s' g).

(** the hop field of the state, with both flags clear and no reserved bits *)
Definition plain_hop (h : Router.hop) : Prop := h_ialert h = false /\ h_ealert h = false /\ h_rsv h = 0%N.

Lemma plain_eq h : plain_hop h -> mkHop false false (h_exp h) (h_in h) (h_eg h) (h_mac h) 0 = h.
Proof. intros (A & B & C). destruct h. cbn in *. now subst. Qed.

Lemma clear_i h : plain_hop h -> ser_hop (clear_ialert (flagged true false h)) = h.
Proof. intros P. unfold ser_hop, clear_ialert, flagged. cbn [h_ialert h_ealert h_exp h_in h_eg h_mac h_rsv]. now apply plain_eq. Qed.

Lemma clear_e h : plain_hop h -> ser_hop (clear_ealert (flagged false true h)) = h.
Proof. intros P. unfold ser_hop, clear_ealert, flagged. cbn [h_ialert h_ealert h_exp h_in h_eg h_mac h_rsv]. now apply plain_eq. Qed.

(** ** the ingress handler *)
Lemma ingress_answer s h :
  from0 ing = false -> N.to_nat (p_curr_hf (s_p s)) = kx ->
  (if i_consdir (s_inf s) then a else e) = true -> (if i_consdir (s_inf s) then e else a) = false ->
  s_hop s = h -> plain_hop h -> nth_error (p_hops (s_p s)) kx = Some h -> p_src_ia (s_p s) = s' ->
  handle_ingress_router_alert ing (Phi s) = Stop (SlowPath SpAlertIngress (s_eg s) (s_p s)).
Proof.
  intros F0 C Fl Ot Eh Ph Nh Es. unfold handle_ingress_router_alert. rewrite F0.
  change (s_inf (Phi s)) with (s_inf s). change (s_hop (Phi s)) with (g (cur (s_p s)) (s_hop s)).
  unfold cur. rewrite C. unfold gflag. rewrite Nat.eqb_refl. rewrite Eh.
  destruct (i_consdir (s_inf s)); rewrite Fl, Ot; cbn [flagged h_ialert h_ealert negb];
    unfold store_hop; cbn [s_p s_eg ScmpReturnCong.Phi].
  - rewrite (clear_i h Ph). do 2 f_equal. subst s'. exact (store_back kx _ _ (s_p s) h Nh C).
  - rewrite (clear_e h Ph). do 2 f_equal. subst s'. exact (store_back kx _ _ (s_p s) h Nh C).
Qed.

(** the same whatever the other flag is: the ingress handler comes first and clears only its
    own flag; the packet handed over still carries the other one *)
Lemma ingress_answer_any s h :
  from0 ing = false -> N.to_nat (p_curr_hf (s_p s)) = kx ->
  (if i_consdir (s_inf s) then a else e) = true ->
  s_hop s = h -> plain_hop h -> nth_error (p_hops (s_p s)) kx = Some h -> p_src_ia (s_p s) = s' ->
  handle_ingress_router_alert ing (Phi s) =
  Stop (SlowPath SpAlertIngress (s_eg s)
          (ScmpReturn.set_alerts kx (if i_consdir (s_inf s) then false else a)
                                 (if i_consdir (s_inf s) then e else false) (s_p s))).
Proof.
  intros F0 C Fl Eh Ph Nh Es. unfold handle_ingress_router_alert. rewrite F0.
  change (s_inf (Phi s)) with (s_inf s). change (s_hop (Phi s)) with (g (cur (s_p s)) (s_hop s)).
  unfold cur. rewrite C.
  change (g kx (s_hop s)) with (if Nat.eqb kx kx then flagged a e (s_hop s) else s_hop s).
  rewrite Nat.eqb_refl. rewrite Eh.
  destruct Ph as (_ & _ & Pr).
  unfold ScmpReturn.set_alerts. rewrite Nh.
  remember (gflag kx a e) as G eqn:EG.
  destruct (i_consdir (s_inf s)); cbn [flagged h_ialert h_ealert]; rewrite Fl; cbn [negb];
    unfold store_hop; cbn [s_p s_eg ScmpReturnCong.Phi]; do 2 f_equal; subst G s';
    refine (eq_trans (store_any kx a e (s_p s) _ C) _); do 2 f_equal;
    unfold ser_hop, clear_ialert, clear_ealert, flagged; cbn [h_ialert h_ealert h_exp h_in h_eg h_mac h_rsv];
    now rewrite Pr.
Qed.

Lemma ingress_quiet s :
  plain_hop (s_hop s) ->
  (from0 ing = true \/ N.to_nat (p_curr_hf (s_p s)) <> kx \/ (if i_consdir (s_inf s) then a else e) = false) ->
  handle_ingress_router_alert ing (Phi s) = Ok (Phi s) /\ handle_ingress_router_alert ing s = Ok s.
Proof.
  intros (Pi & Pe & _) H. unfold handle_ingress_router_alert.
  change (s_inf (Phi s)) with (s_inf s). change (s_hop (Phi s)) with (g (cur (s_p s)) (s_hop s)).
  destruct (from0 ing); [now split|]. rewrite Pi, Pe.
  destruct H as [H|[H|H]]; [discriminate| |].
  - unfold cur, gflag. replace (Nat.eqb (N.to_nat (p_curr_hf (s_p s))) kx) with false by (symmetry; now apply Nat.eqb_neq).
    rewrite Pi, Pe. destruct (i_consdir (s_inf s)); now split.
  - unfold gflag. destruct (Nat.eqb (cur (s_p s)) kx).
    + unfold flagged. cbn [h_ialert h_ealert]. destruct (i_consdir (s_inf s)); rewrite H; now split.
    + rewrite Pi, Pe. destruct (i_consdir (s_inf s)); now split.
Qed.

(** ** the egress handler *)
Lemma egress_answer s h :
  scope_eqb (if_scope (egress_if c s)) External = true -> N.to_nat (p_curr_hf (s_p s)) = kx ->
  (if i_consdir (s_inf s) then e else a) = true -> (if i_consdir (s_inf s) then a else e) = false ->
  s_hop s = h -> plain_hop h -> nth_error (p_hops (s_p s)) kx = Some h -> p_src_ia (s_p s) = s' ->
  handle_egress_router_alert c (Phi s) = Stop (SlowPath SpAlertEgress (s_eg s) (s_p s)).
Proof.
  intros Sc C Fl Ot Eh Ph Nh Es. unfold handle_egress_router_alert, egress_if in *.
  change (s_eg (Phi s)) with (s_eg s). rewrite Sc.
  change (s_inf (Phi s)) with (s_inf s). change (s_hop (Phi s)) with (g (cur (s_p s)) (s_hop s)).
  unfold cur. rewrite C. unfold gflag. rewrite Nat.eqb_refl. rewrite Eh.
  destruct (i_consdir (s_inf s)); rewrite Fl, Ot; cbn [flagged h_ialert h_ealert negb];
    unfold store_hop; cbn [s_p s_eg ScmpReturnCong.Phi].
  - rewrite (clear_e h Ph). do 2 f_equal. subst s'. exact (store_back kx _ _ (s_p s) h Nh C).
  - rewrite (clear_i h Ph). do 2 f_equal. subst s'. exact (store_back kx _ _ (s_p s) h Nh C).
Qed.

Lemma egress_quiet s :
  plain_hop (s_hop s) ->
  (scope_eqb (if_scope (egress_if c s)) External = false \/ N.to_nat (p_curr_hf (s_p s)) <> kx \/
   (if i_consdir (s_inf s) then e else a) = false) ->
  handle_egress_router_alert c (Phi s) = Ok (Phi s) /\ handle_egress_router_alert c s = Ok s.
Proof.
  intros (Pi & Pe & _) H. unfold handle_egress_router_alert, egress_if in *.
  change (s_eg (Phi s)) with (s_eg s).
  change (s_inf (Phi s)) with (s_inf s). change (s_hop (Phi s)) with (g (cur (s_p s)) (s_hop s)).
  rewrite Pi, Pe.
  assert (Q : forall b : bool, (if b then false else false) = false) by (intros []; reflexivity).
  rewrite Q. cbn [negb]. split; [|reflexivity].
  destruct H as [H|[H|H]].
  - rewrite H. cbn [negb]. destruct (negb _); reflexivity.
  - unfold cur, gflag. replace (Nat.eqb (N.to_nat (p_curr_hf (s_p s))) kx) with false by (symmetry; now apply Nat.eqb_neq).
    rewrite Pi, Pe, Q. reflexivity.
  - unfold gflag. destruct (Nat.eqb (cur (s_p s)) kx).
    + unfold flagged. cbn [h_ialert h_ealert]. destruct (i_consdir (s_inf s)); rewrite H; reflexivity.
    + rewrite Pi, Pe, Q. reflexivity.
Qed.

(** ** the fast path on the flagged packet *)
Hypothesis Hk : keeps g.

Lemma proc_ingress_answer q s1 r :
  src_ok s' c ing q -> ingress_pre macq c now ing q = Ok s1 ->
  handle_ingress_router_alert ing (Phi s1) = Stop r ->
  process_scion macq c now ing (phi q) = r.
Proof.
  intros SO E1 H. unfold process_scion. rewrite ingress_part_pre.
  rewrite (ingress_pre_phi s' g Hk macq c now ing q SO), E1. cbn [phi_out bind]. now rewrite H.
Qed.

Lemma proc_egress_answer q s1 s2 r :
  src_ok s' c ing q -> ingress_pre macq c now ing q = Ok s1 ->
  handle_ingress_router_alert ing (Phi s1) = Ok (Phi s1) ->
  (p_dst_ia q =? c_ia c)%N = false ->
  egress_pre macq c now ing s1 = Ok s2 ->
  handle_egress_router_alert c (Phi s2) = Stop r ->
  process_scion macq c now ing (phi q) = r.
Proof.
  intros SO E1 H1 D E2 H2. unfold process_scion. rewrite ingress_part_pre.
  rewrite (ingress_pre_phi s' g Hk macq c now ing q SO), E1. cbn [phi_out bind]. rewrite H1.
  change (p_dst_ia (phi q)) with (p_dst_ia q). rewrite D.
  rewrite egress_part_pre, (egress_pre_phi s' g Hk), E2. cbn [phi_out bind]. now rewrite H2.
Qed.

(** no handler fires: the router does what it does without the flag, flag untouched *)
Lemma proc_quiet q s1 s2 :
  src_ok s' c ing q -> ingress_pre macq c now ing q = Ok s1 ->
  handle_ingress_router_alert ing (Phi s1) = Ok (Phi s1) -> handle_ingress_router_alert ing s1 = Ok s1 ->
  (p_dst_ia q =? c_ia c)%N = false ->
  egress_pre macq c now ing s1 = Ok s2 ->
  handle_egress_router_alert c (Phi s2) = Ok (Phi s2) -> handle_egress_router_alert c s2 = Ok s2 ->
  process_scion macq c now ing (phi q) = phi_res (process_scion macq c now ing q).
Proof.
  intros SO E1 H1 H1' D E2 H2 H2'. unfold process_scion. rewrite !ingress_part_pre.
  rewrite (ingress_pre_phi s' g Hk macq c now ing q SO), E1. cbn [phi_out bind]. rewrite H1, H1'.
  change (p_dst_ia (phi q)) with (p_dst_ia q). rewrite D.
  rewrite !egress_part_pre, (egress_pre_phi s' g Hk), E2. cbn [phi_out bind]. rewrite H2, H2'. cbn [bind].
  rewrite (egress_up_phi s' g c).
  destruct (validate_egress_up c s2) as [s3|r3]; [|reflexivity].
  cbn [phi_out]. apply (finish_phi s' g Hk).
Qed.

(** the same at the destination AS *)
Lemma proc_quiet_local q s1 :
  src_ok s' c ing q -> ingress_pre macq c now ing q = Ok s1 ->
  handle_ingress_router_alert ing (Phi s1) = Ok (Phi s1) -> handle_ingress_router_alert ing s1 = Ok s1 ->
  (p_dst_ia q =? c_ia c)%N = true ->
  process_scion macq c now ing (phi q) = phi_res (process_scion macq c now ing q).
Proof.
  intros SO E1 H1 H1' D. unfold process_scion. rewrite !ingress_part_pre.
  rewrite (ingress_pre_phi s' g Hk macq c now ing q SO), E1. cbn [phi_out bind]. rewrite H1, H1'.
  change (p_dst_ia (phi q)) with (p_dst_ia q). rewrite D. apply resolve_inbound_phi.
Qed.

End Router.
